#!/usr/bin/env python3
"""Hand mutations of the generated arity families (work package GO2LEAN2): applies each mutation to WS/repo, checks whether Go
still compiles the package, re-runs go2lean2 + `lake build FpVerif.Spec.C14ArityGen`, reports which definitions / theorems
stop checking, and reverts (git checkout).  usage: mutate_aritygen.py [name-substring]"""
import os, re, subprocess, sys, json
WS = os.path.dirname(os.path.dirname(os.path.abspath(__file__)))
REPO, LEAN, HARNESS = os.path.join(WS, 'repo'), os.path.join(WS, 'lean'), os.path.join(WS, 'harness')
ENV = dict(os.environ, GOFLAGS='-mod=mod', GOPROXY='off', GOSUMDB='off', GOTOOLCHAIN='local')
SPEC = os.path.join(LEAN, 'FpVerif', 'Spec', 'C14ArityGen.lean')
GEN = os.path.join(LEAN, 'FpVerif', 'Gen', 'ArityGen.lean')

MUTS = [
    # (name, package dir, file, [(old, new)])
    ('M1a FlipN: two arguments swapped at Flip3 (rejected by Go: A2 /= A3)', 'curried', 'curried/curried_gen.go',
     [('\t\t\treturn f(a1)(a2)(a3)(a4)\n\t\t},\n\t)\n}\n\nfunc SlipL4', '\t\t\treturn f(a1)(a3)(a2)(a4)\n\t\t},\n\t)\n}\n\nfunc SlipL4')]),
    ('M1b FlipN: Flip3 moves a1 behind a3 instead of behind a4 (signature and body consistent: Go accepts)', 'curried', 'curried/curried_gen.go',
     [('fp.Func1[A2, fp.Func1[A3, fp.Func1[A4, fp.Func1[A1, R]]]] {\n\treturn Func4(\n\t\tfunc(a2 A2, a3 A3, a4 A4, a1 A1) R {',
       'fp.Func1[A2, fp.Func1[A3, fp.Func1[A1, fp.Func1[A4, R]]]] {\n\treturn Func4(\n\t\tfunc(a2 A2, a3 A3, a1 A1, a4 A4) R {')]),
    ('M2a ApplyLastN: one argument dropped at Func4.ApplyLast3 (rejected by Go)', '.', 'func_gen.go',
     [('func (r Func4[A1, A2, A3, A4, R]) ApplyLast3(a2 A2, a3 A3, a4 A4) func(A1) R {\n\treturn func(a1 A1) R {\n\t\treturn r(a1, a2, a3, a4)',
       'func (r Func4[A1, A2, A3, A4, R]) ApplyLast3(a2 A2, a3 A3, a4 A4) func(A1) R {\n\treturn func(a1 A1) R {\n\t\treturn r(a1, a2, a3)')]),
    ('M2b ApplyLastN: Func4.ApplyLast3 fixes (a1,a2,a3) and waits for a4, i.e. behaves like ApplyFirst3 (consistent: Go accepts)', '.', 'func_gen.go',
     [('func (r Func4[A1, A2, A3, A4, R]) ApplyLast3(a2 A2, a3 A3, a4 A4) func(A1) R {\n\treturn func(a1 A1) R {',
       'func (r Func4[A1, A2, A3, A4, R]) ApplyLast3(a1 A1, a2 A2, a3 A3) func(A4) R {\n\treturn func(a4 A4) R {')]),
    ('M3a TupleN.Init: wrong index at Tuple5.Init (rejected by Go: T5 /= T4)', '.', 'tuple_gen.go',
     [('Init() (T1, T2, T3, T4) {\n\treturn r.I1, r.I2, r.I3, r.I4\n}', 'Init() (T1, T2, T3, T4) {\n\treturn r.I1, r.I2, r.I3, r.I5\n}')]),
    ('M3b TupleN.Init: wrong index at Tuple5.Init, result type adapted (Go accepts)', '.', 'tuple_gen.go',
     [('func (r Tuple5[T1, T2, T3, T4, T5]) Init() (T1, T2, T3, T4) {\n\treturn r.I1, r.I2, r.I3, r.I4\n}',
       'func (r Tuple5[T1, T2, T3, T4, T5]) Init() (T1, T2, T3, T5) {\n\treturn r.I1, r.I2, r.I3, r.I5\n}')]),
    ('M4 ReverseN: Reverse4 does not reverse the last two (types adapted: Go accepts)', 'hlist', 'hlist/reverse_gen.go',
     [('func Reverse4[A1, A2, A3, A4 any](hl Cons[A1, Cons[A2, Cons[A3, Cons[A4, Nil]]]]) Cons[A4, Cons[A3, Cons[A2, Cons[A1, Nil]]]] {\n'
       '\treturn Case4(hl, func(a1 A1, a2 A2, a3 A3, a4 A4) Cons[A4, Cons[A3, Cons[A2, Cons[A1, Nil]]]] {\n\t\treturn Of4(a4, a3, a2, a1)',
       'func Reverse4[A1, A2, A3, A4 any](hl Cons[A1, Cons[A2, Cons[A3, Cons[A4, Nil]]]]) Cons[A4, Cons[A3, Cons[A1, Cons[A2, Nil]]]] {\n'
       '\treturn Case4(hl, func(a1 A1, a2 A2, a3 A3, a4 A4) Cons[A4, Cons[A3, Cons[A1, Cons[A2, Nil]]]] {\n\t\treturn Of4(a4, a3, a1, a2)')]),
    ('M5a ComposeN: fp.Compose5 applies its second function first (parameter types adapted: Go accepts)', '.', 'func_gen.go',
     [('func Compose5[A1, A2, A3, A4, A5, R any](f1 Func1[A1, A2], f2 Func1[A2, A3], f3 Func1[A3, A4], f4 Func1[A4, A5], f5 Func1[A5, R]) Func1[A1, R] {\n\treturn Compose2(f1, Compose4(f2, f3, f4, f5))',
       'func Compose5[A1, A2, A3, A4, A5, R any](f1 Func1[A2, A3], f2 Func1[A1, A2], f3 Func1[A3, A4], f4 Func1[A4, A5], f5 Func1[A5, R]) Func1[A1, R] {\n\treturn Compose2(f2, Compose4(f1, f3, f4, f5))')]),
    ('M5b ComposeN: curried.Compose4 applies g after THREE arguments (g sees the partial application; rejected by Go in Compose5, which calls it)', 'curried', 'curried/curried_gen.go',
     [('func Compose4[A1, A2, A3, A4, GA, GR any](f fp.Func1[A1, fp.Func1[A2, fp.Func1[A3, fp.Func1[A4, GA]]]], g fp.Func1[GA, GR]) fp.Func1[A1, fp.Func1[A2, fp.Func1[A3, fp.Func1[A4, GR]]]] {\n'
       '\treturn func(a1 A1) fp.Func1[A2, fp.Func1[A3, fp.Func1[A4, GR]]] {\n\t\treturn Compose3(f(a1), g)',
       'func Compose4[A1, A2, A3, A4, GA, GR any](f fp.Func1[A1, fp.Func1[A2, fp.Func1[A3, fp.Func1[A4, GA]]]], g fp.Func1[fp.Func1[A4, GA], GR]) fp.Func1[A1, fp.Func1[A2, fp.Func1[A3, GR]]] {\n'
       '\treturn func(a1 A1) fp.Func1[A2, fp.Func1[A3, GR]] {\n\t\treturn Compose3(f(a1), g)')]),
    ('M6 as.Supplier3 calls f eagerly instead of inside the returned supplier (Go accepts)', 'as', 'as/func_gen.go',
     [('a1 A1, a2 A2, a3 A3) func() R {\n\treturn func() R {\n\t\treturn f(a1, a2, a3)\n\t}', 'a1 A1, a2 A2, a3 A3) func() R {\n\tr := f(a1, a2, a3)\n\treturn func() R {\n\t\treturn r\n\t}')]),
    ('M7 fn1.Merge3 runs f2 before f1 (Go accepts)', 'fn1', 'fn1/arrow_func_gen.go',
     [('\t\t\tI1: f1(a),\n\t\t\tI2: f2(a),\n\t\t\tI3: f3(a),\n\t\t}', '\t\t\tI2: f2(a),\n\t\t\tI1: f1(a),\n\t\t\tI3: f3(a),\n\t\t}')]),
    ('M8 hlist.Of7 deleted from the generated file, Of8 inlines it (rejected by Go in Reverse7 / as.HList8, which call it)', 'hlist', 'hlist/of_gen.go',
     [('func Of7[A1, A2, A3, A4, A5, A6, A7 any](a1 A1, a2 A2, a3 A3, a4 A4, a5 A5, a6 A6, a7 A7) Cons[A1, Cons[A2, Cons[A3, Cons[A4, Cons[A5, Cons[A6, Cons[A7, Nil]]]]]]] {\n\treturn Concat(a1, Of6(a2, a3, a4, a5, a6, a7))\n}\n', ''),
      ('return Concat(a1, Of7(a2, a3, a4, a5, a6, a7, a8))', 'return Concat(a1, Concat(a2, Of6(a3, a4, a5, a6, a7, a8)))')]),
    ('M9 unit.Func2 calls f twice (Go accepts)', 'unit', 'unit/func_gen.go',
     [('\t\tf(a1, a2)\n\t\treturn fp.Unit{}', '\t\tf(a1, a2)\n\t\tf(a1, a2)\n\t\treturn fp.Unit{}')]),
    ('M10 product.TupleFromHList21 takes the first two tail components in the wrong order (result type adapted: Go accepts)', 'product', 'product/tuple_gen.go',
     [('hlist.Nil]]]]]]]]]]]]]]]]]]]]]) fp.Tuple21[A1, A2, A3, ', 'hlist.Nil]]]]]]]]]]]]]]]]]]]]]) fp.Tuple21[A1, A3, A2, '),
      ('tail := TupleFromHList20(hlist.Tail(list))\n\treturn Tuple21(list.Head(), tail.I1, tail.I2, ', 'tail := TupleFromHList20(hlist.Tail(list))\n\treturn Tuple21(list.Head(), tail.I2, tail.I1, ')]),
    ('M11 hlist.Case21 passes the head LAST (type of f adapted: Go accepts)', 'hlist', 'hlist/case_gen.go',
     [('T]]]]]]]]]]]]]]]]]]]]], f func(A1, A2, A3, A4, A5, A6, A7, A8, A9, A10, A11, A12, A13, A14, A15, A16, A17, A18, A19, A20, A21) R) R {',
       'T]]]]]]]]]]]]]]]]]]]]], f func(A2, A3, A4, A5, A6, A7, A8, A9, A10, A11, A12, A13, A14, A15, A16, A17, A18, A19, A20, A21, A1) R) R {'),
      ('return f(hl.Head(), a2, a3, a4, a5, a6, a7, a8, a9, a10, a11, a12, a13, a14, a15, a16, a17, a18, a19, a20, a21)',
       'return f(a2, a3, a4, a5, a6, a7, a8, a9, a10, a11, a12, a13, a14, a15, a16, a17, a18, a19, a20, a21, hl.Head())')]),
    ('M12 a statement outside the fragment: as.Tuple2 built through a variable assignment (Go accepts)', 'as', 'as/tuple_gen.go',
     [('\treturn fp.Tuple2[A1, A2]{\n\t\tI1: a1,\n\t\tI2: a2,\n\t}', '\tvar t fp.Tuple2[A1, A2]\n\tt.I1 = a1\n\tt.I2 = a2\n\treturn t')]),
]


def sh(cmd, cwd):
    p = subprocess.run(cmd, cwd=cwd, env=ENV, stdout=subprocess.PIPE, stderr=subprocess.STDOUT, text=True)
    return p.returncode, p.stdout


def theorem_at(lines, ln):
    for i in range(min(ln, len(lines)) - 1, -1, -1):
        m = re.match(r'\s*(?:theorem|def|example|abbrev|structure)\s*(\S*)', lines[i])
        if m:
            return m.group(1) or ('example@%d' % (i + 1))
    return '?'


def check():
    rc, out = sh(['go', 'run', './cmd/go2lean2', REPO, GEN], HARNESS)
    info = json.loads(out.strip().split('\n')[-1]) if rc == 0 else dict(untranslatable={'go2lean2': [out[-300:]]})
    rc, out = sh(['lake', 'build', 'FpVerif.Spec.C14ArityGen'], LEAN)
    spec, gen = open(SPEC).read().split('\n'), open(GEN).read().split('\n')
    bad = []
    for m in re.finditer(r'error: (\S+?\.lean):(\d+):\d+: (.*)', out):
        f, ln, msg = m.group(1), int(m.group(2)), m.group(3)
        name = theorem_at(spec if f.endswith('C14ArityGen.lean') else gen, ln)
        tag = ('Spec:' if f.endswith('C14ArityGen.lean') else 'Gen:') + name
        if tag not in bad:
            bad.append(tag)
    return rc, info.get('untranslatable', {}), bad


def patchtest(patch):
    rc, out = sh(['git', 'apply', patch], REPO)
    if rc != 0:
        print('## %s does not apply: %s' % (patch, out[-300:]))
        return
    try:
        rc, untr, bad = check()
    finally:
        sh(['git', 'apply', '-R', patch], REPO)
    print('## patch %s' % patch)
    print('   go2lean2 untranslatable: %s' % (json.dumps(untr)[:400] if untr else 'none'))
    print('   lake build: %s; stops checking (%d): %s' % ('ok' if rc == 0 else 'FAILS', len(bad), ', '.join(bad[:14])))


def main():
    if len(sys.argv) > 2 and sys.argv[1] == '--patch':
        for pt in sys.argv[2:]:
            patchtest(pt)
        sys.argv[1:] = ['no-such-mutation']
    flt = sys.argv[1] if len(sys.argv) > 1 else ''
    for name, pkg, file, subs in MUTS:
        if flt not in name:
            continue
        path = os.path.join(REPO, file)
        src = open(path).read()
        new = src
        for old, rep in subs:
            if new.count(old) != 1:
                print('## %s\n   MUTATION DOES NOT APPLY (%d matches)' % (name, new.count(old)))
                new = None
                break
            new = new.replace(old, rep)
        if new is None:
            continue
        open(path, 'w').write(new)
        try:
            grc, gout = sh(['go', 'build', './' + pkg], REPO)
            rc, untr, bad = check()
        finally:
            sh(['git', 'checkout', '--', file], REPO)
        print('## %s' % name)
        print('   go build ./%s: %s' % (pkg, 'ok' if grc == 0 else 'FAILS (' + gout.strip().split('\n')[-1][:120] + ')'))
        print('   go2lean2 untranslatable: %s' % (json.dumps(untr)[:300] if untr else 'none'))
        print('   lake build: %s; stops checking (%d): %s' % ('ok  <-- NOT CAUGHT' if rc == 0 else 'FAILS', len(bad), ', '.join(bad[:14]) + (' …' if len(bad) > 14 else '')))
        sys.stdout.flush()
    # the unmodified tree must be clean again
    rc, untr, bad = check()
    print('## unmodified tree: lake build %s, untranslatable %s' % ('ok' if rc == 0 else 'FAILS ' + str(bad[:5]), untr or 'none'))
    _, st = sh(['git', 'status', '--short'], REPO)
    print('## git status of WS/repo: %s' % (st.strip() or 'clean'))


main()
