"""Per-property configuration of bin/check."""

def H(cmd, oracle, quick, thorough, **kw):
    d = dict(cmd=cmd, oracle=oracle, n=dict(quick=quick, thorough=thorough))
    d.update(kw)
    return d

MONAD_H = [H('monad_' + p, 'oracle_monad', 3000, 150000, oracle_args=[p], spec_level=True) for p in ('try', 'option', 'either', 'statet')]
TRYOPT_H = H('tryopt', 'oracle_tryopt', 4000, 200000, spec_level=True)

CHECKS = {
    'C01': dict(
        spec=['FpVerif.Spec.C01', 'FpVerif.Spec.C01Inst'],
        harnesses=MONAD_H + [TRYOPT_H],
        level='proof',
        modelled='X_monad.go + X_traverse.go of option/try/either/statet (one generic model of the generator template, '
                 'instantiated four times; every arity through operand lists); FlatMap/Pure/FoldM and the hand-written cores of '
                 'try_op.go, option_op.go, either_op.go; methods of fp.Try/fp.Option/fp.Either. Iterator/List monads: C12; lazy.Eval: C16. '
                 'Not modelled: MonadChainN/ApplicativeFunctorN builders, SeqT/OptionT transformer functions, fn0/fn1.',
        assumptions=['Go evaluates call arguments before the call and left to right; every M-typed argument of the generated family is a '
                     'variable or a nested call used exactly once (checked by the correspondence, not proved)',
                     'iterators handed to FoldM/Traverse are viewed as the finite list they yield (pull behaviour: C12/C20)'],
    ),
    'C02': dict(
        spec=['FpVerif.Spec.C02'],
        harnesses=MONAD_H + [TRYOPT_H, H('statet', 'oracle_statet', 3000, 100000, spec_level=True)],
        level='proof',
        modelled='as C01; in addition try.Of/Call/CallUnit (recover -> tryCatch), Recover*/Or*/OrElse* of fp.Try/fp.Option/fp.StateT. '
                 'future.Apply/Apply2: C06.',
        assumptions=['panic values are compared by their canonical rendering', 'debug.Stack() content of try.panicError is not modelled'],
    ),
    'C17': dict(
        spec=['FpVerif.Spec.C17'],
        harnesses=[H('statet', 'oracle_statet', 4000, 200000, spec_level=True)],
        level='proof',
        modelled='state.go (all StateT methods), statet/statet_op.go (all functions); state_monad.go/state_traverse.go via C01',
        assumptions=['iterators handed to FoldM are viewed as the finite list they yield',
                     'user callbacks are arbitrary GoM computations (may log and panic)'],
    ),
}

HOOK_COMMITS = []

NOT_APPLICABLE = {
    'C13': "byte-level reproducibility of three generator executables over a file tree: no executable Lean model short of a model of "
           "gombok/text-template themselves expresses it; a `decide` over two byte strings would be a restated test, not a theorem",
}
