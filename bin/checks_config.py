"""Per-property configuration of bin/check."""

import os, subprocess, json, re

def facts_factx(repo, lean):
    """Tie C: regenerate FpVerif/Gen/Facts.lean from the repository's source (deleted first)."""
    out = os.path.join(lean, 'FpVerif', 'Gen', 'Facts.lean')
    os.makedirs(os.path.dirname(out), exist_ok=True)
    if os.path.exists(out):
        os.remove(out)
    harness = os.path.join(os.path.dirname(lean), 'harness')
    env = dict(os.environ, GOFLAGS='-mod=mod', GOPROXY='off', GOSUMDB='off', GOTOOLCHAIN='local')
    p = subprocess.run(['go', 'run', './cmd/factx', repo, out], cwd=harness, env=env, stdout=subprocess.PIPE,
                       stderr=subprocess.STDOUT, text=True)
    if p.returncode != 0 or not os.path.exists(out):
        return dict(error='factx failed: ' + p.stdout[-800:], obligations=1)
    info = json.loads(p.stdout.strip().split('\n')[-1])
    info['obligations'] = 1
    info['generated'] = 'FpVerif/Gen/Facts.lean'
    return info


def facts_c04(repo, lean):
    """C04: the factx table (receiver kinds) AND the long-tail frame table: harness/cmd/framegen enumerates every exported
    function / method / instance variable of the library whose signature mentions caller-visible memory, regenerates the
    call wrappers of harness/cmd/frame (harness/cmd/frame/gen/*, zz_imports_gen.go; not under version control) and
    FpVerif/Gen/FrameFacts.lean (Spec/C04Frame decides that every entry is covered or explicitly listed)."""
    info = facts_factx(repo, lean)
    if info.get('error'):
        return info
    out = os.path.join(lean, 'FpVerif', 'Gen', 'FrameFacts.lean')
    harness = os.path.join(os.path.dirname(lean), 'harness')
    env = dict(os.environ, GOFLAGS='-mod=mod', GOPROXY='off', GOSUMDB='off', GOTOOLCHAIN='local')
    tmp_out = out + '.new'
    p = subprocess.run(['go', 'run', './cmd/framegen', repo, os.path.join(harness, 'cmd', 'frame'), tmp_out], cwd=harness, env=env,
                       stdout=subprocess.PIPE, stderr=subprocess.STDOUT, text=True)
    if p.returncode != 0 or not os.path.exists(tmp_out):
        if os.path.exists(out):
            os.remove(out)
        return dict(error='framegen failed: ' + p.stdout[-800:], obligations=2)
    # keep the old file (and its build products) when the table did not change
    if not os.path.exists(out) or open(out).read() != open(tmp_out).read():
        os.replace(tmp_out, out)
    else:
        os.remove(tmp_out)
    info['frame'] = json.loads(p.stdout.strip().split('\n')[-1])
    info['obligations'] = 2
    info['generated'] = 'FpVerif/Gen/Facts.lean, FpVerif/Gen/FrameFacts.lean, harness/cmd/frame/gen/*'
    return info



def facts_tuplegen(repo, lean):
    """Tie A: harness/cmd/go2lean TRANSLATES the generated TupleN instance functions of eq/hash/ord/monoid/clone found in the
    working tree into Lean definitions (FpVerif/Gen/TupleGen.lean, not under version control); the committed theorems of
    Spec/C14Gen.lean state, per family and arity, that the translated function is the arity-generic model instance (`rfl`)."""
    out = os.path.join(lean, 'FpVerif', 'Gen', 'TupleGen.lean')
    os.makedirs(os.path.dirname(out), exist_ok=True)
    harness = os.path.join(os.path.dirname(lean), 'harness')
    env = dict(os.environ, GOFLAGS='-mod=mod', GOPROXY='off', GOSUMDB='off', GOTOOLCHAIN='local')
    tmp_out = out + '.new.%d' % os.getpid()
    p = subprocess.run(['go', 'run', './cmd/go2lean', repo, tmp_out], cwd=harness, env=env, stdout=subprocess.PIPE,
                       stderr=subprocess.STDOUT, text=True)
    if p.returncode != 0 or not os.path.exists(tmp_out):
        if os.path.exists(out):
            os.remove(out)
        return dict(error='go2lean failed: ' + p.stdout[-800:], obligations=1)
    # keep the old file (and its build products) when the translation did not change
    if not os.path.exists(out) or open(out).read() != open(tmp_out).read():
        os.replace(tmp_out, out)
    else:
        os.remove(tmp_out)
    info = json.loads(p.stdout.strip().split('\n')[-1])
    res = dict(translated=info['translated'], untranslatable=info['untranslatable'], obligations=1,
               generated='FpVerif/Gen/TupleGen.lean')
    if info['untranslatable']:
        res['error'] = 'go2lean: outside the translated fragment: ' + json.dumps(info['untranslatable'])[:800]
    return res



def facts_monadgen(repo, lean):
    """Tie A for the generated monad family: harness/cmd/monad2lean TRANSLATES option/try/either/statet *_monad.go and
    *_traverse.go of the working tree into Lean definitions over MonadOps (FpVerif/Gen/MonadGen.lean, not under version
    control); the committed theorems of Spec/C01Gen.lean state, function by function, that the translated definition is the
    hand-written model definition of Model/MonadFamily.lean (`rfl`, or for lawful packages where the Go code instantiates a
    plain-callback parameter with a monadic-result function), that the set of functions is the expected one and that the
    four packages carry the same template (`no_divergence`)."""
    out = os.path.join(lean, 'FpVerif', 'Gen', 'MonadGen.lean')
    os.makedirs(os.path.dirname(out), exist_ok=True)
    harness = os.path.join(os.path.dirname(lean), 'harness')
    env = dict(os.environ, GOFLAGS='-mod=mod', GOPROXY='off', GOSUMDB='off', GOTOOLCHAIN='local')
    tmp_out = out + '.new.%d' % os.getpid()
    p = subprocess.run(['go', 'run', './cmd/monad2lean', repo, tmp_out], cwd=harness, env=env, stdout=subprocess.PIPE,
                       stderr=subprocess.STDOUT, text=True)
    if p.returncode != 0 or not os.path.exists(tmp_out):
        if os.path.exists(out):
            os.remove(out)
        return dict(error='monad2lean failed: ' + p.stdout[-800:], obligations=1)
    # keep the old file (and its build products) when the translation did not change
    if not os.path.exists(out) or open(out).read() != open(tmp_out).read():
        os.replace(tmp_out, out)
    else:
        os.remove(tmp_out)
    info = json.loads(p.stdout.strip().split('\n')[-1])
    res = dict(translated=info['translated'], untranslatable=info['untranslatable'], divergent=info.get('divergent', []),
               packages=info.get('packages', {}), external=info.get('external', {}), obligations=1,
               generated='FpVerif/Gen/MonadGen.lean')
    problems = []
    if info['untranslatable']:
        problems.append('outside the translated fragment: ' + json.dumps(info['untranslatable'])[:600])
    if info.get('divergent'):
        problems.append('the four packages no longer carry the same template: ' + json.dumps(info['divergent'])[:300])
    if problems:
        res['error'] = 'monad2lean: ' + '; '.join(problems)
    return res


def facts_all(*fs):
    """several fact extractors for one check (C14: facts_tuplegen and facts_monadgen)"""
    def run(repo, lean):
        res, errors, obligations = {}, [], 0
        for f in fs:
            r = f(repo, lean)
            obligations += r.pop('obligations', 0)
            if r.get('error'):
                errors.append(r.pop('error'))
            res[f.__name__] = r
        res['obligations'] = obligations
        if errors:
            res['error'] = '; '.join(errors)
        return res
    run.__name__ = 'facts_' + '_'.join(f.__name__.replace('facts_', '') for f in fs)
    return run



def facts_aritygen(repo, lean):
    """Tie A, second part: harness/cmd/go2lean2 TRANSLATES every declaration of the generated pure arity families of C14
    (tuple_gen.go, labelled_gen.go, func_gen.go, as/func_gen.go, as/tuple_gen.go, as/labelled_gen.go, curried/curried_gen.go,
    hlist/{of,case,lift,reverse}_gen.go, product/tuple_gen.go, fn1/arrow_func_gen.go, unit/func_gen.go) found in the working tree,
    plus the hand-written arity-1/2 members they bottom out in, into Lean definitions (FpVerif/Gen/ArityGen.lean, not under
    version control); the committed theorems of Spec/C14ArityGen.lean state, per family and arity, that the translated function
    computes the arity-generic model of Model/Arity.lean at n := N, pin the set of (family, arity) pairs found and the exception
    list, and transport C14's property theorems to the translated code."""
    out = os.path.join(lean, 'FpVerif', 'Gen', 'ArityGen.lean')
    os.makedirs(os.path.dirname(out), exist_ok=True)
    harness = os.path.join(os.path.dirname(lean), 'harness')
    env = dict(os.environ, GOFLAGS='-mod=mod', GOPROXY='off', GOSUMDB='off', GOTOOLCHAIN='local')
    tmp_out = out + '.new.%d' % os.getpid()
    p = subprocess.run(['go', 'run', './cmd/go2lean2', repo, tmp_out], cwd=harness, env=env, stdout=subprocess.PIPE,
                       stderr=subprocess.STDOUT, text=True)
    if p.returncode != 0 or not os.path.exists(tmp_out):
        if os.path.exists(out):
            os.remove(out)
        return dict(error='go2lean2 failed: ' + p.stdout[-800:], obligations=1)
    # keep the old file (and its build products) when the translation did not change
    if not os.path.exists(out) or open(out).read() != open(tmp_out).read():
        os.replace(tmp_out, out)
    else:
        os.remove(tmp_out)
    info = json.loads(p.stdout.strip().split('\n')[-1])
    res = dict(translated=info['translated'], untranslatable=info['untranslatable'], exceptions=info['exceptions'],
               families={k: [min(v), max(v)] for k, v in info['families'].items()}, obligations=1,
               generated='FpVerif/Gen/ArityGen.lean')
    if info['untranslatable']:
        res['error'] = 'go2lean2: outside the translated fragment: ' + json.dumps(info['untranslatable'])[:800]
    return res





def facts_atom(repo, lean):
    """Tie C for C05 / C06 / C19 / C16: harness/cmd/atomfacts (go/ast + go/types, build tag verif) extracts from the WORKING TREE,
    for every function / method / closure of internal/atomic/atomic.go, future.go, promise/*.go, future/future_op.go,
    mutable/copyonwrite.go and the three Memoize functions, the shape (sequence / branch / loop) of its shared-memory events
    (yield <label>, load, store, cas, lock, unlock, once.Do, append, call <callee in the set>, user callback, plain reads / writes of
    closure-shared variables and assigned fields, go, spawn hook, return, panic, any other synchronisation construct) and writes
    FpVerif/Gen/AtomFacts.lean.  The committed theorems of Spec/C05Facts, C19Facts, C06Facts, C16AtomFacts `decide` on that table:
    one yield immediately in front of every access on every path, no two non-commuting accesses in one atomic block, stores under
    the lock, per-function skeleton == the skeleton of the Lean step machine (pc constructor <-> block), the set of functions
    reaching the cell."""
    out = os.path.join(lean, 'FpVerif', 'Gen', 'AtomFacts.lean')
    os.makedirs(os.path.dirname(out), exist_ok=True)
    harness = os.path.join(os.path.dirname(lean), 'harness')
    env = dict(os.environ, GOFLAGS='-mod=mod', GOPROXY='off', GOSUMDB='off', GOTOOLCHAIN='local')
    tmp_out = out + '.new.%d' % os.getpid()
    p = subprocess.run(['go', 'run', './cmd/atomfacts', repo, tmp_out], cwd=harness, env=env, stdout=subprocess.PIPE,
                       stderr=subprocess.STDOUT, text=True)
    if p.returncode != 0 or not os.path.exists(tmp_out):
        # a tree the extractor cannot type-check has no table: the theorems must not be discharged against a stale one
        if os.path.exists(out):
            os.remove(out)
        return dict(error='atomfacts failed: ' + p.stdout[-800:], obligations=1)
    # keep the old file (and its build products) when the table did not change (several properties regenerate it)
    if not os.path.exists(out) or open(out).read() != open(tmp_out).read():
        os.replace(tmp_out, out)
    else:
        os.remove(tmp_out)
    info = json.loads(p.stdout.strip().split('\n')[-1])
    info['obligations'] = 1
    info['generated'] = 'FpVerif/Gen/AtomFacts.lean'
    if info.get('warnings'):
        info['error'] = 'atomfacts: constructs outside the extracted fragment: ' + p.stdout[-800:]
    return info





def facts_tcgen(repo, lean):
    """Tie A for the HAND-WRITTEN type-class combinators: harness/cmd/tc2lean TRANSLATES typeclass.go (EqFunc, CompareFunc,
    LessFunc, CloneFunc, EqGiven, LessGiven), monoid.go, eq/eq_op.go, hash/hash_op.go, ord/ord_op.go, monoid/monoid_op.go,
    semigroup/semigroup.go, clone/clone.go of the working tree into Lean definitions (FpVerif/Gen/TCGen.lean, not under
    version control); the committed theorems of Spec/C09Gen, C09GenHash, C09GenPred, C10Gen, C11Gen, C18Gen state, per declaration, that the
    translated definition is the model definition (rfl or a proved extensional equality), Spec/TCGenCover that the exported
    declarations of those files are exactly translated + listed exceptions.  Declarations outside the fragment are NOT an
    error here (the exception list lives in Spec/TCGenCover.lean and is checked there by `decide`)."""
    out = os.path.join(lean, 'FpVerif', 'Gen', 'TCGen.lean')
    os.makedirs(os.path.dirname(out), exist_ok=True)
    harness = os.path.join(os.path.dirname(lean), 'harness')
    env = dict(os.environ, GOFLAGS='-mod=mod', GOPROXY='off', GOSUMDB='off', GOTOOLCHAIN='local')
    tmp_out = out + '.new.%d' % os.getpid()
    p = subprocess.run(['go', 'run', './cmd/tc2lean', repo, tmp_out], cwd=harness, env=env, stdout=subprocess.PIPE,
                       stderr=subprocess.STDOUT, text=True)
    if p.returncode != 0 or not os.path.exists(tmp_out):
        if os.path.exists(out):
            os.remove(out)
        return dict(error='tc2lean failed: ' + p.stdout[-800:], obligations=1)
    # keep the old file (and its build products) when the translation did not change
    if not os.path.exists(out) or open(out).read() != open(tmp_out).read():
        os.replace(tmp_out, out)
    else:
        os.remove(tmp_out)
    info = json.loads(p.stdout.strip().split('\n')[-1])
    res = dict(tc_found=info['found'], tc_translated=info['translated'], tc_helpers=info['helpers'],
               tc_untranslated=sorted(info['untranslated']), obligations=1, generated='FpVerif/Gen/TCGen.lean')
    if info.get('parse_errors'):
        res['error'] = 'tc2lean: parse errors: ' + json.dumps(info['parse_errors'])[:800]
    return res





def facts_coregen(repo, lean):
    """Tie A (cores): harness/cmd/core2lean TRANSLATES the hand-written function bodies of try.go, option.go, either.go, state.go,
    try/try_op.go, option/option_op.go, either/either_op.go, statet/statet_op.go found in the working tree into Lean definitions
    over GoM (FpVerif/Gen/CoreGen.lean, not under version control); the committed theorems of Spec/C01CoreGen.lean state, per
    function, that the translated definition is the hand-written model, that the files contain nothing else (coverage), and
    restate the monad laws / of_spec / put_get / recover_failure for the translated definitions."""
    out = os.path.join(lean, 'FpVerif', 'Gen', 'CoreGen.lean')
    os.makedirs(os.path.dirname(out), exist_ok=True)
    harness = os.path.join(os.path.dirname(lean), 'harness')
    env = dict(os.environ, GOFLAGS='-mod=mod', GOPROXY='off', GOSUMDB='off', GOTOOLCHAIN='local')
    tmp_out = out + '.new.%d' % os.getpid()
    p = subprocess.run(['go', 'run', './cmd/core2lean', repo, tmp_out], cwd=harness, env=env, stdout=subprocess.PIPE,
                       stderr=subprocess.STDOUT, text=True)
    if p.returncode != 0 or not os.path.exists(tmp_out):
        if os.path.exists(out):
            os.remove(out)
        return dict(error='core2lean failed: ' + p.stdout[-800:], obligations=1)
    # keep the old file (and its build products) when the translation did not change
    if not os.path.exists(out) or open(out).read() != open(tmp_out).read():
        os.replace(tmp_out, out)
    else:
        os.remove(tmp_out)
    info = json.loads(p.stdout.strip().split('\n')[-1])
    res = dict(translated=info['translated'], untranslatable=info['untranslatable'], exceptions=sorted(info['exceptions']),
               other_ties=len(info['other_ties']), obligations=2, generated='FpVerif/Gen/CoreGen.lean')
    if info['untranslatable']:
        res['error'] = 'core2lean: outside the translated fragment: ' + json.dumps(info['untranslatable'])[:800]
        return res
    # second obligation: every translated function has its committed theorem (<pkg>_<name>_is_model or <pkg>_<name>_def)
    spec = open(os.path.join(lean, 'FpVerif', 'Spec', 'C01CoreGen.lean')).read()
    gen = open(out).read()
    m = re.search(r'^def translated : List String := \[(.*)\]$', gen, re.M)
    names = re.findall(r'"([^"]+)"', m.group(1)) if m else []
    missing = [n for n in names
               if not re.search(r'^theorem %s_(is_model|def)\b' % re.escape(n.replace('.', '_')), spec, re.M)]
    if not names or missing:
        res['error'] = 'core2lean: translated functions without a committed theorem: ' + ', '.join(missing or ['<none translated>'])
    return res





def facts_lazygen(repo, lean):
    """Tie A (lazy.Eval): harness/cmd/lazy2lean TRANSLATES the struct Eval and every function / method body found in lazy/*.go of the
    working tree (lazy.go, tailcall_gen.go; test files and verif-tagged files excluded) into FpVerif/Gen/LazyGen.lean (not under
    version control): the inductive type emitted for the struct (the defunctionalisation of Model/Eval.lean: leaf / cont / logged), Resume,
    FlatMap, Map, Get, Run (the `for` loop as a fuelled recursion with the same body), Map2, Map, FlatMap, Done, TailCall, Call, Memoize
    (= the memo-cell primitive), Func1..3, TailCall1..9.  The committed theorems of Spec/C16Gen.lean state, per declaration, that the
    translated definition is the hand-written model (through the isomorphism toModel / ofModel of the two inductive types), that the
    files contain nothing else (coverage, memoSites), and restate faithful / run_flatMap / run_tailCall / the monad laws / runLoop_spec
    for the translated definitions."""
    out = os.path.join(lean, 'FpVerif', 'Gen', 'LazyGen.lean')
    os.makedirs(os.path.dirname(out), exist_ok=True)
    harness = os.path.join(os.path.dirname(lean), 'harness')
    env = dict(os.environ, GOFLAGS='-mod=mod', GOPROXY='off', GOSUMDB='off', GOTOOLCHAIN='local')
    tmp_out = out + '.new.%d' % os.getpid()
    p = subprocess.run(['go', 'run', './cmd/lazy2lean', repo, tmp_out], cwd=harness, env=env, stdout=subprocess.PIPE,
                       stderr=subprocess.STDOUT, text=True)
    if p.returncode != 0 or not os.path.exists(tmp_out):
        if os.path.exists(out):
            os.remove(out)
        return dict(error='lazy2lean failed: ' + p.stdout[-800:], obligations=1)
    # keep the old file (and its build products) when the translation did not change
    if not os.path.exists(out) or open(out).read() != open(tmp_out).read():
        os.replace(tmp_out, out)
    else:
        os.remove(tmp_out)
    info = json.loads(p.stdout.strip().split('\n')[-1])
    res = dict(translated=info['translated'], untranslatable=info['untranslatable'], exceptions=sorted(info['exceptions']),
               memo_sites=info['memo_sites'], types=info['types'], obligations=2, generated='FpVerif/Gen/LazyGen.lean')
    if info['untranslatable']:
        res['error'] = 'lazy2lean: outside the translated fragment: ' + json.dumps(info['untranslatable'])[:800]
        return res
    # second obligation: every translated declaration has its committed theorem (<name>_is_model or <name>_def; `Eval.X` -> `Eval_X`)
    spec = open(os.path.join(lean, 'FpVerif', 'Spec', 'C16Gen.lean')).read()
    gen = open(out).read()
    m = re.search(r'^def translated : List String := \[(.*)\]$', gen, re.M)
    names = re.findall(r'"([^"]+)"', m.group(1)) if m else []
    missing = [n for n in names
               if not re.search(r'^theorem %s_(is_model|def)\b' % re.escape(n.replace('.', '_')), spec, re.M)]
    if not names or missing:
        res['error'] = 'lazy2lean: translated declarations without a committed theorem: ' + ', '.join(missing or ['<none translated>'])
    return res




def facts_seqgen(repo, lean):
    """Tie A for the EAGER Seq functions: harness/cmd/seq2lean TRANSLATES seq/seq_op.go and the fp.Seq methods / package
    functions of seq.go of the working tree into Lean definitions over GoM (FpVerif/Gen/SeqGen.lean, not under version
    control; semantics of the Go fragment: Model/GoSemM.lean).  The committed theorems of Spec/C12SeqGen state, per function,
    that the translated definition equals the structural list recursion / the Lean list function that the C12 / C01 / C11
    theorems use as the eager reference; Spec/SeqGenCover that the exported functions of the two files are exactly
    translated + listed exceptions.  Functions outside the fragment are NOT an error here (the exception list lives in
    Spec/SeqGenCover.lean and is checked there by `decide`)."""
    out = os.path.join(lean, 'FpVerif', 'Gen', 'SeqGen.lean')
    os.makedirs(os.path.dirname(out), exist_ok=True)
    harness = os.path.join(os.path.dirname(lean), 'harness')
    env = dict(os.environ, GOFLAGS='-mod=mod', GOPROXY='off', GOSUMDB='off', GOTOOLCHAIN='local')
    tmp_out = out + '.new.%d' % os.getpid()
    p = subprocess.run(['go', 'run', './cmd/seq2lean', repo, tmp_out], cwd=harness, env=env, stdout=subprocess.PIPE,
                       stderr=subprocess.STDOUT, text=True)
    if p.returncode != 0 or not os.path.exists(tmp_out):
        if os.path.exists(out):
            os.remove(out)
        return dict(error='seq2lean failed: ' + p.stdout[-800:], obligations=1)
    # keep the old file (and its build products) when the translation did not change
    if not os.path.exists(out) or open(out).read() != open(tmp_out).read():
        os.replace(tmp_out, out)
    else:
        os.remove(tmp_out)
    info = json.loads(p.stdout.strip().split('\n')[-1])
    res = dict(seq_found=len(info['found']), seq_translated=len(info['translated']),
               seq_untranslated=sorted(info['untranslated']), obligations=1, generated='FpVerif/Gen/SeqGen.lean')
    if info.get('parse_errors'):
        res['error'] = 'seq2lean: parse errors: ' + json.dumps(info['parse_errors'])[:800]
    return res



FUTGEN_EXPECTED_EXCEPTIONS = ['Flap', 'With', 'Chain1', 'Applicative1', 'Await', 'getExecutor',
                              'Flap2', 'Flap3', 'Flap4', 'Flap5', 'Flap6', 'Flap7', 'Flap8', 'Flap9']


def facts_futgen(repo, lean):
    """Tie A for the derived future combinators: harness/cmd/fut2lean TRANSLATES every function of future/future_op.go and
    future/func_gen.go of the working tree whose body is a composition of other combinators into an FExpr-building Lean
    definition (FpVerif/Gen/FutGen.lean, not under version control); the committed theorems of Spec/C06Gen.lean state,
    function by function and arity by arity, that the translated definition is the model's derived program
    (Model/Future.lean, FutureChain.lean, FutureMisc.lean; `rfl` up to the closure encoding), that the set of functions
    and their classes is the expected one (`coverage`), and transport the left-to-right short-circuit theorems."""
    out = os.path.join(lean, 'FpVerif', 'Gen', 'FutGen.lean')
    os.makedirs(os.path.dirname(out), exist_ok=True)
    harness = os.path.join(os.path.dirname(lean), 'harness')
    env = dict(os.environ, GOFLAGS='-mod=mod', GOPROXY='off', GOSUMDB='off', GOTOOLCHAIN='local')
    tmp_out = out + '.new.%d' % os.getpid()
    p = subprocess.run(['go', 'run', './cmd/fut2lean', repo, tmp_out], cwd=harness, env=env, stdout=subprocess.PIPE,
                       stderr=subprocess.STDOUT, text=True)
    if p.returncode != 0 or not os.path.exists(tmp_out):
        if os.path.exists(out):
            os.remove(out)
        return dict(error='fut2lean failed: ' + p.stdout[-800:], obligations=1)
    if not os.path.exists(out) or open(out).read() != open(tmp_out).read():
        os.replace(tmp_out, out)
    else:
        os.remove(tmp_out)
    info = json.loads(p.stdout.strip().split('\n')[-1])
    res = dict(translated=len(info['translated']), variants=info.get('variants') or [], primitives=info['primitives'],
               methods=len(info.get('methods') or []), untranslatable=info['untranslatable'], obligations=1,
               generated='FpVerif/Gen/FutGen.lean', spec='FpVerif.Spec.C06Gen')
    unexpected = {k: v for k, v in info['untranslatable'].items() if k not in FUTGEN_EXPECTED_EXCEPTIONS}
    if unexpected:
        res['error'] = 'fut2lean: outside the translated fragment: ' + json.dumps(unexpected)[:600]
    return res


def facts_hamt(repo, lean):
    """Tie C for C03 / C04: harness/cmd/hamtfacts (go/ast + go/types, build tag verif) extracts from the WORKING TREE's
    immutable/map.go every constant with its value, the struct types with their fields, the interfaces, the methods per
    receiver type (node kinds = the types declaring every method of mapNode), every comparison against a compile-time
    constant (promotion / demotion thresholds: function, lhs, operator, bound), every hash-fragment expression
    `(hash >> shift) & mask`, the argument handed to `shift` at every call, the argument of every bits.OnesCount32 call, the
    length of the iterator's stack array, and per function / method / closure its normalised statement tree (skeleton), and
    writes FpVerif/Gen/HamtFacts.lean.  The committed theorems of Spec/C03Facts `decide` on that table: the constants EQUAL
    the constants of Model/Hamt.lean, every threshold has the operator and bound of the model's branch, the node kinds are
    the five constructors of Hamt.Node with the expected methods and fields, the shift / popcount arithmetic is the model's,
    the iterator stack has >= ceil(32 / mapNodeBits) + 1 slots, and every modelled function's skeleton equals the one
    written next to the model definition it mirrors."""
    out = os.path.join(lean, 'FpVerif', 'Gen', 'HamtFacts.lean')
    os.makedirs(os.path.dirname(out), exist_ok=True)
    harness = os.path.join(os.path.dirname(lean), 'harness')
    env = dict(os.environ, GOFLAGS='-mod=mod', GOPROXY='off', GOSUMDB='off', GOTOOLCHAIN='local')
    tmp_out = out + '.new.%d' % os.getpid()
    p = subprocess.run(['go', 'run', './cmd/hamtfacts', repo, tmp_out], cwd=harness, env=env, stdout=subprocess.PIPE,
                       stderr=subprocess.STDOUT, text=True)
    if p.returncode != 0 or not os.path.exists(tmp_out):
        # a tree the extractor cannot type-check has no table: the theorems must not be discharged against a stale one
        if os.path.exists(out):
            os.remove(out)
        return dict(error='hamtfacts failed: ' + p.stdout[-800:], obligations=1)
    # keep the old file (and its build products) when the table did not change (C03 and C04 both regenerate it)
    if not os.path.exists(out) or open(out).read() != open(tmp_out).read():
        os.replace(tmp_out, out)
    else:
        os.remove(tmp_out)
    info = json.loads(p.stdout.strip().split('\n')[-1])
    info['obligations'] = 1
    info['generated'] = 'FpVerif/Gen/HamtFacts.lean'
    if info.get('warnings'):
        info['error'] = 'hamtfacts: constructs outside the extracted fragment: ' + p.stdout[-800:]
    return info



import re as _re

def project_future(line):
    """property-level part of a future scenario answer: the statuses in the LAST snapshot (after the scenario's final drain)
    and the multiset of user-callback / observer events; pool sizes, intermediate snapshots and the order of independent
    callbacks are implementation-level (task structure)"""
    snaps, _, log = line.partition(' | ')
    last = snaps.split(' ; ')[-1]
    statuses = sorted(t for t in last.split(' ') if '=' in t and not t.startswith('pool='))
    return (tuple(statuses), tuple(sorted(log.split(','))))

def project_iter(line):
    """property-level part of an iterator script answer: the values / panics per step; cumulative pull counts (#n) and the
    event trace {...} are implementation-level (exact look-ahead) - the laziness bound itself is a direct check"""
    if _re.search(r'panic\(-?\d+\)', line):
        # a USER CALLBACK panicked (callbacks panic with their numeric code): when it does, relative to the look-ahead, is
        # implementation-level - C12/C20 speak about callbacks that return
        return 'callback-panic'
    return _re.sub(r'#\d+', '', _re.sub(r'\{[^{}]*\}', '', line))

def project_coll(line):
    """property-level part of a coll answer (cmd/coll): the values every call / traversal returned (incl. panics), the shared
    backing table after the call (T=...) and the denotation (den=...).  The order of callback events and the pull counters
    (# id=n) are compared too (the model mirrors the code statement by statement), but a difference ONLY there is a
    correspondence break, not a failing input of C01."""
    parts = line.split(' || ')
    vals = tuple(p.split(' | ')[0] for p in parts)
    t = _re.search(r' T=\[[^\]]*\]', line)
    return (vals, t.group(0) if t else '')

# the thorough sizes below finish in 5-30 s on 16 cores; the thorough tier multiplies them (a few minutes per check)
THOROUGH_SCALE = int(os.environ.get('VERIF_THOROUGH_SCALE', '4'))

def H(cmd, oracle, quick, thorough, **kw):
    d = dict(cmd=cmd, oracle=oracle, n=dict(quick=quick, thorough=thorough * (1 if cmd == 'gombokrun' else THOROUGH_SCALE)))
    d.update(kw)
    return d


def TRANSX_H(prop, only=None):
    """work package TRANS: remaining transformer functions / hand-written Option, Try, Either, StateT functions (cmd/transx, oracle_transx)"""
    extra = ['-prop', prop] + (['-only', only] if only else [])
    return H('transx', 'oracle_transx', 20000, 1000000, spec_level=True,
             nontrivial=lambda op, impl: op.count('(') >= 2, extra=dict(quick=extra, thorough=extra))

MISC_H = H('misc', 'oracle_misc', 6000, 600000, spec_level=True)
COLL_H = H('coll', 'oracle_coll', 4000, 400000, spec_level=True, project=project_coll)

MONAD_H = [H('monad_' + p, 'oracle_monad', 3000, 150000, oracle_args=[p], spec_level=True) for p in ('try', 'option', 'either', 'statet')]
TRYOPT_H = H('tryopt', 'oracle_tryopt', 4000, 200000, spec_level=True, extra=dict(quick=['-prop', 'C01'], thorough=['-prop', 'C01']))
TRYOPT_C02_H = H('tryopt', 'oracle_tryopt', 4000, 200000, spec_level=True, extra=dict(quick=['-prop', 'C02'], thorough=['-prop', 'C02']))
# the ApplicativeN / ChainN builders of option and try (and every other arity family) live in the C14 machinery
ARITY_H = H('arity', 'oracle_arity', 8000, 400000, spec_level=True, nontrivial=lambda op, impl: op.count(' ') >= 3)

CHECKS = {
    'C01': dict(
        spec=['FpVerif.Spec.C01', 'FpVerif.Spec.C01Inst', 'FpVerif.Spec.C01T', 'FpVerif.Spec.C01TExt', 'FpVerif.Spec.C01Coll', 'FpVerif.Spec.C16', 'FpVerif.Spec.C01Fn', 'FpVerif.Spec.C17', 'FpVerif.Spec.C01Gen', 'FpVerif.Spec.C01CoreGen', 'FpVerif.Spec.C16Gen', 'FpVerif.Spec.C12SeqGen', 'FpVerif.Spec.SeqGenCover'],
        facts=facts_all(facts_monadgen, facts_coregen, facts_lazygen, facts_seqgen),
        harnesses=MONAD_H + [TRYOPT_H, ARITY_H, H('iter', 'oracle_iter', 4000, 400000, spec_level=True, project=project_iter, extra=dict(quick=['-prop', 'C12'], thorough=['-prop', 'C12'])),
                             H('eval', 'oracle_eval', 2000, 100000, spec_level=True, extra=dict(quick=['-deep', '20000'], thorough=['-deep', '200000'])),
                             # the function monads fn0 / fn1 (reader monad over the effect monad)
                             H('fn', 'oracle_fn', 3000, 150000, spec_level=True),
                             # hand-written StateT core incl. FoldM / Concat; every fourth program is run TWICE (a StateT is a value)
                             H('statet', 'oracle_statet', 3000, 100000, spec_level=True),
                             TRANSX_H('C01'), COLL_H],
        level='proof',
        modelled='Collection monads seq / iterator / list: FlatMap+unit laws and every derived combinator (Ap, Map2, Flatten, Lift, LiftM, Compose, ComposePure, FilterMap, Concat, Flap, Flap2, '
                 'FlapMap, Method1, Method2) in Model/CollMonad.lean (seq, iterator machines with ONE shared one-shot iterator), Model/CollList.lean (lazy list heap with function / list elements), '
                 'Spec/C01Coll.lean (95 theorems incl. lx_eval_den), coll harness (views of a shared backing table, returned functions applied twice). Remaining transformer functions (Append/Concat/Get/IsEmpty/MakeString/NonEmpty/Scan SeqT, OrZero/OrPtr OptionT), try.TraverseOption, try/option.FoldRight, '
                 'option.ConstNone/Of/Ptr/String/NonZero/NonEmptySlice/ComposePure/FlatPtr/Deref/Pure0/Pure1, fp.Option.All/Foreach/Unapply/OrZero/OrPtr/Ptr, fp.Try.All/OrZero, '
                 'either.NotRight/Foreach: Model/TryOptExt.lean, Spec/C01TExt.lean (transformT_def: XSeqT(t, args) = Map/FlatMap over the Try of the Seq operation, for every t incl. the zero Try), transx harness. '
                 'X_monad.go + X_traverse.go of option/try/either/statet (one generic model of the generator template, '
                 'instantiated four times; every arity through operand lists); FlatMap/Pure/FoldM and the hand-written cores of '
                 'try_op.go, option_op.go, either_op.go; methods of fp.Try/fp.Option/fp.Either. Iterator/List monads: C12 harness; lazy.Eval monad (lazy.Map/FlatMap/Map2, monad laws and faithfulness theorems of Spec/C16): eval harness. '
                 'MonadChainN/ApplicativeFunctorN builders: model and theorems in Spec/C14 (chain_def, applicative_def), exercised here through the arity harness. '
                 'try.OptionT / try.SeqT transformer functions (try_optiont.go, try_seqt.go: core six + the Transform family) in Model/TryOpt.lean (TryT), Spec/C01T. '
                 'Iterator and lazy List monads through the C12 harness. fn0/fn1 (Pure, Map, FlatMap, Flatten, Get, WithArg; reader monad over the effect monad, two-stage '
                 'Flatten m(u)(u)), MonadOps/Lawful instance of the reader carrier: Model/FnMonad.lean, Spec/C01Fn.lean, fn harness.',
        assumptions=['option.Of: "the interface is nil" and "the dynamic value is a nil chan/func/map/pointer/slice" are parameter predicates of the model '
                     '(instantiated by the oracle on 14 argument shapes); pointers are modelled as Option (nil / target value), pointer identity is not; '
                     'fmt.Sprint inside Seq.MakeString is a parameter of the model',
                     'Go evaluates call arguments before the call and left to right; every M-typed argument of the generated family is a '
                     'variable or a nested call used exactly once (checked by the correspondence, not proved)',
                     'iterators handed to FoldM/Traverse are viewed as the finite list they yield (pull behaviour: C12/C20)'],
    ),
    'C02': dict(
        spec=['FpVerif.Spec.C02', 'FpVerif.Spec.C02Ext', 'FpVerif.Spec.C01Gen', 'FpVerif.Spec.C01CoreGen'],
        facts=facts_all(facts_monadgen, facts_coregen),
        harnesses=MONAD_H + [TRYOPT_C02_H, ARITY_H, H('statet', 'oracle_statet', 3000, 100000, spec_level=True),
                             # future.Apply/Apply2 panic capture, future builders' suppliers after a failure
                             H('future', 'oracle_future', 2000, 100000, spec_level=True, project=project_future),
                             TRANSX_H('C02')],
        level='proof',
        modelled='as C01; in addition try.Of/Call/CallUnit (recover -> tryCatch), Recover*/Or*/OrElse* of fp.Try/fp.Option/fp.StateT. '
                 'future.Apply/Apply2: C06.',
        assumptions=['panic values are compared by their canonical rendering', 'debug.Stack() content of try.panicError is not modelled'],
    ),
    'C03': dict(
        spec=['FpVerif.Spec.C03', 'FpVerif.Spec.C03All', 'FpVerif.Spec.C03Facts'],
        facts=facts_all(facts_hamt),
        harnesses=[H('hamt', 'oracle_hamt', 40000, 4000000)],
        level='proof',
        modelled='immutable/map.go (all node kinds, set/delete/get, mergeIntoNode, explicit-stack iterator, builders incl. the in-place path), '
                 'map.go / set.go wrappers incl. zero-value fallbacks; trie SHAPE, size and iteration digests compared after every mutating op',
        assumptions=['Hashable.Hash/Eqv are pure, total and lawful (Eqv equivalence, Eqv => equal Hash)',
                     'bits.OnesCount32 = number of one bits; uint32 bitmap arithmetic modelled on Nat (no overflow, proved)',
                     'zero-value UnsafeGoMap/UnsafeGoSet fallbacks: correspondence + direct checks only'],
    ),
    'C04': dict(
        spec=['FpVerif.Spec.C04Seq', 'FpVerif.Spec.C04Facts', 'FpVerif.Spec.C04Frame', 'FpVerif.Spec.C04Hamt', 'FpVerif.Spec.C03',
              # a lazy fp.List shows the same contents for ever only because each of its cells is a Once-guarded memo (seed C04-10:
              # fp.Memoize without the Once - two goroutines forcing one cell both consume the source and see different lists)
              'FpVerif.Spec.C16Facts', 'FpVerif.Spec.C16Panic', 'FpVerif.Spec.C16PanicEval', 'FpVerif.Spec.C03All', 'FpVerif.Spec.C03Facts'],
        facts=facts_all(facts_c04, facts_hamt),
        # thorough size 200000 -> 40000 (end of session 6): with 50 000 op lines per shard the Lean oracle of ONE shard exceeded the driver's
        # time limit twice (exit -9 after 24 625 answers; 18 min; reproduced in isolation) and the check reported `no-failing-input-found` on the
        # unchanged tree.  The op line it stopped at replays instantly; the slow region was not located before the session ended (DESIGN section 10).
        harnesses=[H('seqheap', 'oracle_seqheap', 4000, 40000),
                   H('frame', None, 60000, 3000000, nontrivial=lambda op, impl: op.count('(') >= 2),
                   H('hamt', 'oracle_hamt', 40000, 4000000),
                   H('memopanic', 'oracle_memopanic', 20000, 20000, spec_level=True)],
        level='proof',
        level_note='trusted: Lean kernel (propext/Classical.choice/Quot.sound only); model fidelity checked by correspondence (alias class = which backing '
                   'array and offset, and contents, of every result; plus the direct check that no backing array ever seen changes over its full capacity). '
                   'fp.Seq / package seq / MergeSeq, MergeSlice / Iterator.ToSeq at backing-array level: the model writes the Go bodies over make / append / s[i]=x '
                   'where append DOES write in place when the capacity suffices; theorems frame_step, persistent, arrays_persistent, fresh_disjoint (Spec.C04Seq). '
                   'LONG TAIL (model-free): harness/cmd/framegen enumerates from the current sources every exported function / method / instance variable whose '
                   'signature mentions a slice, fp.Seq, Go map, pointer, one of the collections, or a function / instance over those (all packages except mutable, '
                   'commands, tests, internal, codegen tooling), generates a call wrapper for each (instantiated at int and, where an element instance matters, at a '
                   'struct-with-slice), and harness/cmd/frame runs branching histories of them over a pool of live slices (overlapping windows with spare capacity, '
                   'sub-slices, nil, empty-with-capacity), Go maps and pointers: after EVERY library call every backing array / map / pointee ever seen is compared '
                   'over its full capacity with its snapshot; results and callback arguments join the pool; package clone must return fresh storage. '
                   'Spec.C04Frame (regenerated table FpVerif/Gen/FrameFacts.lean): every enumerated entry is covered by a registered wrapper or is one of the '
                   'explicitly listed exceptions (higher members of numbered arity families, 3 named functions). '
                   'Value-receiver facts for Option/Try/tuples/Seq (Spec.C04Facts). Immutable Map/Set (Spec.C04Hamt): heap (pointer-level) model of immutable/map.go '
                   '(Model/HamtHeap.lean: *hamt header, 5 node structs, backing arrays of the entries/nodes slices; the `mutable` flag as explicit in-place stores); '
                   'proved: the copying path writes no existing cell (no hypotheses); refinement to the value-level HAMT (all of Spec.C03 transfers to what a pointer shows); '
                   'every_version_stays_intact for all branching histories over every version ever handed out and the builders (Model/HamtWorld.lean); builders write only '
                   'cells they own; negative result (decide) for the SetBuilder as it was before fix 5a0c6c4. Tie: the oracle runs the heap model next to the value model '
                   '(model-divergence marker) and every version-creating answer carries the sharing token al=<cells>/<fresh>:<digest> - the canonical numbering of the REAL '
                   'pointers (hook immutable.VerifAlias) against the model addresses - so a node shared where the model copies, or copied where it shares, is a mismatch; '
                   'plus the re-read-all-versions check. Not proved: refinement of delete(mutable=true) (no caller in the library).',
        modelled='seq.go (Widen, Init, Tail, UnSeq, Take, Drop, Filter, FilterNot, Map, FlatMap, Add, Append, Concat, Reverse), seq/seq_op.go (Sort, Distinct, Scan, Span, '
                 'Partition, Map, FlatMap, Flatten, Ap, Map2, FilterMap, Concat, Of, Pure, Collect, Reduce; Fold/FoldTry/Min/Max/GroupBy/Zip/ZipWithIndex/ToGoSet as '
                 'non-writing calls), monoid.MergeSeq / MergeSlice (Combine, Empty), Iterator.ToSeq / iterator.ToSeq / ToSlice over FromSeq/FromSlice, Option.ToSeq / '
                 'option.ToSeq as programs over make/append/index-assignment; the remaining exported surface (about 840 functions, see coverage.facts.frame) through '
                 'generated wrappers, model-free; facts: receiver kinds of all methods of Option, Try, TupleN, LabelledN, Seq.',
        assumptions=['Go slices: a write through one slice is visible through every slice sharing its backing array; append growth policy is not modelled '
                     '(fresh arrays are compared by identity and contents, not capacity)',
                     'frame check: a parameter named buf of an Append-style function (Go AppendXxx(buf, ...) convention: Show.Append, show.Append*) is an '
                     'out-buffer owned by the callee and receives a private slice; a pointer RECEIVER may write its own pointee (Option.UnmarshalJSON); '
                     'iterators, lazy values, futures and HAMT nodes are opaque to the reflection walk (closures / internal cells): their results are observed '
                     'by draining them; tasks handed to executors run inline (verif spawn hook)',
                     'generics are instantiated at int (and Rec{ID int; Xs []int} where an element instance is a parameter); arity families are covered up to '
                     'arity 5'],
    ),
    'C05': dict(
        spec=['FpVerif.Spec.C05', 'FpVerif.Spec.C05Facts'],
        facts=facts_all(facts_atom),
        harnesses=[H('promise', 'oracle_promise', 4000, 400000)],
        level='proof',
        modelled='future.go: Promise (Complete/Success/Failure, tryCompleteAndGetListeners, dispatchOrAddCallback, '
                 'IsCompleted, Value), Future.OnComplete/OnSuccess/OnFailure/Foreach, goExecutor; '
                 'internal/atomic/atomic.go (Get/Load/CompareAndSwap as atomic steps with pointer identity); '
                 'Go slice append (len/cap/backing array) for the callback list',
        assumptions=['one atomic block = the code between two yield hooks (build tag verif); sync/atomic pointer '
                     'operations are sequentially consistent and a held *ValuePtr is never recycled (no ABA)',
                     'Go grows 8-byte-element slices by doubling below 256 elements (only matters for the as-is model)',
                     'user callbacks only record their invocation; tasks handed to the executor run inline in the '
                     'spawning logical thread (the order in which spawned tasks run is not part of the property)',
                     'the stress part (real goroutines, no hooks) is not reproducible from the seed'],
    ),
    'C19': dict(
        spec=['FpVerif.Spec.C19', 'FpVerif.Spec.C19Facts'],
        facts=facts_all(facts_atom),
        harnesses=[H('cow', 'oracle_cow', 4000, 400000)],
        level='proof',
        modelled='mutable/copyonwrite.go: load, copyOnWrite, Get, Size, Iterator, Updated, Removed, UpdatedWith, '
                 'ComputeIf, ComputeIfAbsent; map.go UnsafeGoMap as an immutable association list',
        assumptions=['sync.Mutex gives mutual exclusion; atomic.Value Load/Store are sequentially consistent',
                     'user callbacks (remap, pred, f) are pure and total; published Go maps are never mutated '
                     '(checked by the correspondence run, not by the proof)',
                     'keys are comparable values (the model uses natural numbers)',
                     'the stress part (real goroutines, no hooks) is not reproducible from the seed'],
    ),
    'C06': dict(
        facts=facts_all(facts_atom, facts_futgen),
        spec=['FpVerif.Spec.C06Gen', 'FpVerif.Spec.C06Facts', 'FpVerif.Spec.C05Facts', 'FpVerif.Spec.C06Methods', 'FpVerif.Spec.C06', 'FpVerif.Spec.C06Sound', 'FpVerif.Spec.C06Live', 'FpVerif.Spec.C06Chain', 'FpVerif.Spec.C06Drain', 'FpVerif.Spec.C06Once', 'FpVerif.Spec.C06HO', 'FpVerif.Spec.C14MiscFut',
              # the task-atomic model ASSUMES that a promise is an atomic single-assignment cell with exactly-once delivery at the level of the
              # individual atomic steps; that reduction is C05, so its theorems and its atomic-step harness are part of this check too
              # (seeds C06-2 / C06-6: a completion that gives up after a lost CAS leaves the derived future pending for ever)
              'FpVerif.Spec.C05'],
        harnesses=[H('future', 'oracle_future', 3000, 150000, spec_level=True, project=project_future),
                   H('promise', 'oracle_promise', 4000, 400000)],
        level='proof',
        level_note='trusted: Lean kernel (propext/Classical.choice/Quot.sound only); model fidelity checked by correspondence (statuses of every future, '
                   'callback log and pool size compared after EVERY scenario under the same schedule, i.e. the task structure itself is compared). '
                   'Proved at task granularity (one ExecuteUnsafe-d runnable = one atomic step; the reduction from atomic-step granularity is C05); '
                   'proved: single assignment and exactly-once task delivery under every event sequence, monotone three-valued Try semantics of every '
                   'derived combinator; Spec/C06Sound.lean: for EVERY schedule (construction moments, source completion order, task order) every completed '
                   'promise holds exactly what its first-order expression evaluates to over the statuses in that same state (never earlier, never different). '
                   'Spec/C06Live.lean: completeness — in every reachable state with an empty task queue the status of EVERY promise equals the three-valued '
                   'evaluation of its expression (exact_at_quiescence, built_future_exact), via a liveness invariant preserved by every event. '
                   'Spec/C06Chain.lean: every builder method keeps the invariant at any moment of any schedule; chain_sound_every_schedule / '
                   'applicative_sound_every_schedule; supplier_task_sound (a supplier runs only with the successful values of all earlier positions). '
                   'Spec/C06Drain.lean: the queue ALWAYS drains — every sequence of task runs from any reachable net is finite (runs_terminate, no_infinite_run; multiset/hydra ordering over the structural order of continuations, '
                   'Mathlib WellFounded.cutExpand), every strategy that keeps picking an existing task empties the queue, and then every promise holds exactly the value of its expression (eventually_exact). '
                   'Spec/C06Once.lean: exactly one completer per pending derived promise in every reachable net (exactly_one_completer) and no Complete call of the library ever fails (derived_complete_never_fails). '
                   'Spec/C06HO.lean: futures of futures (Successful of a future, Flatten, LiftM, LiftMN at every arity, FlatMethod1) are INSIDE the theorems: typed construction programs TExpr (erase = the FExpr that build runs), Try-level denotation den (Flatten = monadic join of the three-valued Try; den(LiftM fa ta) = bindOk (σ ta) (den ∘ fa); den(Flatten(Successful e)) = den e; no handles for programs over value futures: den_valRefs / srcE); for EVERY schedule: ho_built_future_sound / ho_built_future_below / ho_sound_every_schedule (a completed built future holds exactly the denotation over the statuses of the same state; at future-of-future type: its Try-level reading is below the denotation in the information order), ho_built_future_exact / ho_exact_at_quiescence (equality at quiescence), ho_eventually_exact (every strategy drains, then exact), ho_exactly_one_completer, ho_derived_complete_never_fails; the first-order theorem is a corollary (fo_ho, valid_of_fo, fo_built_future_sound_of_ho); seeded mutant C06-4 (LiftM2 binds its second argument first) refuted against the statements (liftM2_mutant_differs). Restriction of the fragment: a user function that receives a future as a VALUE may only return it (Flatten); Transform / Apply at future-of-future type are outside.',
        modelled='future.go (Promise cell, OnComplete, Future methods Map/FlatMap/Recover*/Or/OrFuture/Failed), future/future_op.go (Successful, Failed, '
                 'Apply/Apply2, FlatMap, Map, Map2, Zip, Zip3/LiftA3, LiftM via Flatten(Map), Compose, Method1, FlapMap, Transform, TransformWith, Sequence, '
                 'Traverse/TraverseSeq via iterator.FoldFuture). Not modelled: Await/timeouts, MonadChainN/ApplicativeFunctorN builders, inline executors.',
        assumptions=['a task body runs atomically (task-atomic model); promises are atomic single-assignment cells (justified by C05)',
                     'user callbacks do not panic inside tasks (a panic in a callback goroutine terminates the program; only Apply/Apply2 recover)'],
    ),
    'C12': dict(
        spec=['FpVerif.Spec.C12', 'FpVerif.Spec.C12List', 'FpVerif.Spec.C12Ext', 'FpVerif.Spec.C01Coll', 'FpVerif.Spec.C12SeqGen', 'FpVerif.Spec.SeqGenCover'],
        facts=facts_all(facts_seqgen),
        harnesses=[H('iter', 'oracle_iter', 8000, 800000, spec_level=True, project=project_iter,
                     extra={'quick': ['-prop', 'C12'], 'thorough': ['-prop', 'C12']}),
                   # conversion / access functions of fp.Seq, lazy fp.List, xtr; thin iterator wrappers (direct)
                   H('listx', 'oracle_listx', 3000, 300000, spec_level=True),
                   # derived combinators of the iterator / list monads (re-use the C12 machines and lemmas)
                   COLL_H],
        level='proof',
        modelled='LISTX (Model/ListX.lean, Spec/C12Ext.lean, harness listx): list.go + list/list_op.go Head/Tail/Unapply/Foreach/ToSeq of Nil, Cons, Seq, ListAdaptor, list.Recurrence1/2 '
                 '(own memo heap incl. sync.Once after a panic), ReverseSlice, FromPtr, FromMap/FromMapKey/FromMapValue, ToMap, ToGoMap, ToSet, ToGoSet, FoldFuture; seq.go Size, IsEmpty, NonEmpty, Get, '
                 'Head, Init, Last, Tail, Foreach, SliceCasting; seq/seq_op.go Size/Head/Init/Tail/Last, FilterNil, FromMap/FromMapKeys/FromMapValues, FoldRight, FoldFuture; xtr.Head/Init/Last/Tail; '
                 'iterator.go (all methods), iterator/iterator_op.go (sources, Map, FilterMap, FlatMap, Zip*, Scan, '
                 'Duplicate/Span/Partition, all folds, Reduce, Min/Max, GroupBy, Sort, ToSeq), seq.go IteratorOfSeq/Option, '
                 'MakePullIterator; list.go + list/list_op.go (memo cells in a heap: Map, FlatMap, FilterMap, Combine, Zip, '
                 'ZipWithIndex, Scan, GenerateFrom/Range, ReverseSeq, Collect/ToList, Fold*, Reduce, iterator.FromList)',
        assumptions=['FoldFuture (seq, list) is modelled at the level of the results of completed futures (fn returns an already completed future or one completed by a later task of the '
                     'same executor; fn does not panic); Go maps / fp.Map / fp.Set in ToMap/ToSet/FromMap are association lists with last-write-wins insertion (the HAMT itself: C03/C04), '
                     'enumeration order of a Go map is a parameter (theorems for every enumeration, answers compared sorted)',
                     'user callbacks are arbitrary logging, non-panicking Go functions in the theorems (panicking ones are '
                     'still modelled and compared by the oracle)',
                     'lazy.Eval is modelled call-by-name (trampolining/stack depth not modelled); a FoldRight step forces '
                     'its lazy argument at most once',
                     'the mutex of Duplicate is not modelled: calls are atomic (single goroutine)',
                     'Go loops without static bound run with fuel; theorems hold for every fuel > input length',
                     'heap semantics of list.Map/FlatMap/Combine/Zip/Scan/Collect vs. their denotation: validated by the '
                     'oracle cross-check on every run (proved for Nil/Cons/Seq and GenerateFrom/Range)'],
    ),
    'C20': dict(
        spec=['FpVerif.Spec.C20'],
        harnesses=[H('iter', 'oracle_iter', 8000, 800000, spec_level=True, project=project_iter,
                     extra={'quick': ['-prop', 'C20'], 'thorough': ['-prop', 'C20']})],
        level='proof',
        modelled='fp.Iterator protocol for every source/combinator of iterator.go + iterator/iterator_op.go (same models as '
                 'C12), zero-value Iterator, Duplicate/Span/Partition as two-sided machines over one shared state; '
                 'Map/Set iterators of fp, immutable, mutable are covered by the direct protocol laws only',
        assumptions=['calls on the two sides of Duplicate are atomic steps (the sync.Mutex serialises them)',
                     'user callbacks do not panic in the theorems'],
    ),
    'C14': dict(
        spec=['FpVerif.Spec.C14', 'FpVerif.Spec.C14Fut', 'FpVerif.Spec.C14Misc', 'FpVerif.Spec.C14MiscFut', 'FpVerif.Spec.C14Gen', 'FpVerif.Spec.C01Gen', 'FpVerif.Spec.C14ArityGen', 'FpVerif.Spec.C06Gen'],
        facts=facts_all(facts_tuplegen, facts_monadgen, facts_aritygen, facts_futgen),
        harnesses=[H('arity', 'oracle_arity', 16000, 1600000, spec_level=True,
                     nontrivial=lambda op, impl: op.count(' ') >= 3),
                   # the eq/ord/hash/monoid/clone TupleN families live in the typeclass machinery (C09-C11, C18)
                   H('tc', 'oracle_tc', 1500, 100000, spec_level=True),
                   H('clone', 'oracle_clone', 2000, 100000, spec_level=True),
                   # future ChainN/ApplicativeN builders and the func_gen.go families: derived programs over the network model of C06
                   H('future', 'oracle_future', 3000, 150000, spec_level=True, project=project_future),
                   # non-indexed conversions, predicate / PartialFunc combinators, monoid adapters (work package ARITY2)
                   MISC_H],
        level='proof',
        modelled='Non-indexed conversions and adapters (Model/Misc.lean, Spec/C14Misc.lean, misc harness): as.PartialFunc/SeqNonNil/Ptr/Interface/Any/InstanceOf/Named/NamedWithTag/MapEntry/Left/Right/'
                 'Generic/Supplier/Predicate, fp.Predicate.Negate/And/Or, fp.Not/And/Or, fp.PartialFunc.Unapply/OrElse, fp.ConvertNumber (integer types), fp.IsInstanceOf, fp.ConstS/With/Test/TestWith/Max, '
                 'fp.RuntimeNamed accessors, product.FromHNil/MapKey/MapValue/LiftKey/LiftValue/Split, hlist.Unapply, unit.Func0/Failure, lazy.Func1..3 (memoised Call), future.TraverseFunc, monoid.Future '
                 '(Model/FutureMisc.lean). future ChainN/MonadChainN, ApplicativeN/ApplicativeFunctorN (every method at every receiver arity 1..9, in one go or staged), LiftAN, '
                 'LiftMN, FlapN, MethodN, FlatMethodN, FuncN, UnitN, ComposeN, Zip/Zip3 - each modelled ONCE, arity-generically, as derived programs over '
                 'the network model of C06 (Model/FutureChain.lean); theorems for all N in Spec/C14Fut.lean (denotation = do-notation reading over fp.Try; '
                 'construction runs no user code). '
                 'Every arity-indexed generated family outside the monad family (C01) and the eq/ord/hash/monoid/clone '
                 'families: TupleN/LabelledN accessors + String, fp FuncN.ApplyFirstN/ApplyLastN/Widen, ComposeN, IdN, Flip, Flip2; '
                 'as.FuncN/SupplierN/CurriedN/UnTupledN/Tupled2/TupleN/LabelledN/HListN/HListNLabelled; curried.FuncN/RevertN/FlipN/'
                 'FlipApplyN/SlipLN/ComposeN; hlist.OfN/CaseN/LiftN/RiftN/ReverseN; product.TupleN/TupleFromHListN/LabelledFromHListN/'
                 'FlattenN/LiftN; fn1.MergeN; unit.FuncN; lazy.TailCallN; try.FuncN/PureN/UnitN/PtrN + Curried forms; option|try '
                 'ApplicativeFunctorN and MonadChainN builders (every method at every receiver arity); iterator.FlapN/MethodN '
                 '(correspondence only) - each modelled ONCE, arity-generically, following the recursion of its template; theorems by '
                 'induction for all N; the harness has one generated call site per member x arity that exists in the source '
                 '(regex scan + internal/max/max.go, coverage discrepancies are direct failures).',
        assumptions=['type assertions are modelled through the relation hasType (dynamic type x target type), instantiated at int, string, a Named int, an error type, fp.Unit, nil and the '
                     'interfaces fp.Named, error, any; fp.ConvertNumber / fp.Max: integer (and string) instantiations only; as.Ptr: pointers are indices into a list-shaped heap',
                     'all type parameters are instantiated at `any` (and a Named int for LabelledN): Go\'s type checker already '
                     'guarantees that a value of type Ai only flows where an Ai is expected',
                     'callbacks are arbitrary GoM computations (may log and panic); lazy.Eval thunks may log but do not panic',
                     'operands handed to the try builders as values are not the zero-value Try{} (stated as the excluded branch)',
                     'iterator.FlapN/MethodN: the iterator is viewed as the finite list it yields and the function iterator has at '
                     'most one element (single use / pull order of iterators: C12, C20)'],
    ),
    'C16': dict(
        spec=['FpVerif.Spec.C16', 'FpVerif.Spec.C16Stack', 'FpVerif.Spec.C16Facts', 'FpVerif.Spec.C01Fn', 'FpVerif.Spec.C16Panic', 'FpVerif.Spec.C16PanicEval', 'FpVerif.Spec.C16AtomFacts', 'FpVerif.Spec.C16Gen', 'FpVerif.Spec.C16Logged'],
        facts=facts_all(facts_factx, facts_atom, facts_lazygen),
        harnesses=[H('eval', 'oracle_eval', 4000, 200000, spec_level=True,
                     extra=dict(quick=['-deep', '2000000'], thorough=['-deep', '20000000'])),
                   # call depth of every logging user frame (runtime.Callers, relative to the frame calling Run/Get) vs the frame-instrumented model
                   H('evalstack', 'oracle_evalstack', 3000, 150000),  # exact frame counts are implementation-level: a difference is a correspondence break; the direct checks (depth at n=30 == depth at n=3000, every arity) give the concrete input
                   # fn1.Memoize is a sync.Once cell like fp.Memoize / lazy.Memoize
                   H('fn', 'oracle_fn', 2000, 100000, spec_level=True, extra=dict(quick=['-focus', 'memo'], thorough=['-focus', 'memo'])),
                   # the deferred REST handed to FoldRight's step function (iterator/seq/list) is a memoised TailCall: forced twice, evaluated once;
                   # memoised list cells (Spec/C12List.started_at_most_once) are exercised by the same harness
                   H('iter', 'oracle_iter', 2000, 200000, spec_level=True, project=project_iter, extra=dict(quick=['-prop', 'C12'], thorough=['-prop', 'C12'])),
                   # memoised / deferred computations whose thunk panics or changes behaviour between executions (work package ONCEPANIC)
                   H('memopanic', 'oracle_memopanic', 20000, 20000, spec_level=True),
                   # lazy.Func1..3 (deferred calls: seed C16-10, Func3 built without Call) and every other family member returning an Eval
                   H('arity', 'oracle_arity', 8000, 800000, spec_level=True, nontrivial=lambda op, impl: op.count(' ') >= 3)],
        level='proof',
        level_note='trusted: Lean kernel (propext/Classical.choice/Quot.sound only); model fidelity checked by correspondence; '
                   'sync.Once trusted to give the blocking exactly-once semantics modelled in Model/Memo.lean. Call DEPTH (number of logical frames) of '
                   'tail-recursive programs is a theorem (Spec/C16Stack: tailLoop_depth_bounded, tailProg_depth_bounded: <= 8 + K frames above Run for every n; '
                   'callLoop_depth_ge / nestLoop_depth_ge: the non-tail formulations need 8 frames per level; lchain_depth_ge: left-nested FlatMap/Map chains cost one '
                   'frame per pending continuation) about a frame-instrumented model (Model/EvalStack.lean) that erases to Model/Eval.lean (run_erase, faithful_stack); '
                   'the per-callback depths of that model are compared EXACTLY with runtime.Callers on the real code (evalstack harness). Trusted: frame SIZES in bytes and '
                   'the Go runtime stack growth (still exercised end to end by the 2e6 / 2e7 deep runs under a 32 MB stack cap), that runtime.Callers reports one entry per '
                   'logical call, the two frames of sync.Once.Do (Do -> doSlow, Go 1.23).',
        modelled='lazy/lazy.go (Eval, Resume, Run loop with fuel, FlatMap, Map, Map2, Done, Call, TailCall, TailCallN as TailCall) with '
                 'logging thunks; Memoize as a Once-guarded cell under arbitrary interleavings; facts: Call/TailCall/MakeList route through '
                 'Memoize, every Memoize uses sync.Once. Panicking / effectful thunks: Model/MemoPanic.lean (the Once-guarded cell with a thunk f : Nat -> GoM T, f k = k-th execution; sequential get/getN/getArgs for lazy.Memoize, fp.Memoize, fn1.Memoize; concurrent machine with the atomic steps of sync.Once (fast-path load, Lock, second load, f, deferred done.Store, deferred Unlock), any number of goroutines x calls, outcome value | panic), Model/EvalPanic.lean (lazy.Eval with the memo cells of Call / TailCall in a heap: Get repeated, shared sub-terms, thunks that log, panic and allocate), Model/ListPanic.lean (fp.MakeList head / tail cells, list.GenerateFrom, list.Recurrence1 after a panicking thunk: None / nil interface). Spec/C16Panic.lean (21 theorems: getN_fresh, getN_panicking, getArgs_fresh, once_runs_le_one, once_answered_after_f, once_returns_agree, once_panic_at_most_one, once_panic_is_runners, once_fair_quiescent, once_complete_panic_exactly_one, two mutant theorems), Spec/C16PanicEval.lean (14 theorems: evalp_run_once / listp_run_once for every client program, call_get_then_get, tailCall_panics_get_then_get, makeList_head_panics, makeList_tail_panics …); memopanic harness: real lazy.Memoize, fp.Memoize, fn1.Memoize, lazy.Call, TailCall, TailCall1..9, Map/FlatMap/Map2 compositions, fp.MakeList / list.Generate / GenerateFrom / Recurrence1 cells with thunks whose second execution would differ from the first; real-goroutine runs compared on their schedule-independent summary; direct checks (execution counter, no answer before the thunk finished, equal answers, termination) for 21 kinds of memoised thing. Model/EvalStack.lean: the same code with one frame per Go call '
                 '(Run, Resume, the closure Resume returns, firstFunc/getNextFunc, Memoize closure -> Once.Do -> doSlow -> closure -> f, FlatMap wrapper closure, Map/Map2 closures, '
                 'TailCallN closure, Get -> Run).',
        assumptions=['sync.Once semantics as in Model/Memo.lean'] + ['sync.Once (Go 1.23): Do = fast-path atomic load, doSlow = Lock; second load; defer done.Store(1); f(); defer Unlock — the six atomic steps of Model/MemoPanic.step; the mutex is fair enough that a released Lock() is eventually acquired (liveness theorems quantify over fair schedules)', 'a thunk is a function of the number of its execution (Nat -> GoM T): it may log, panic and change behaviour between executions, but it does not itself request the memo it is computing (a re-entrant request deadlocks in sync.Once; not modelled) and Eval / list thunks do not force other cells while they build their result', 'panic values are compared by their canonical rendering; a nil-pointer dereference is the single value "nil-deref"'],
    ),
    'C17': dict(
        # Spec.C17: the hand-written core (Get/Put/Modify/FlatMap/FoldM/Concat/Recover*); Spec.C01 + C01Inst: the generated
        # statet_monad.go family as the generic template instantiated at the (lawful) StateT operations
        spec=['FpVerif.Spec.C17', 'FpVerif.Spec.C17Ext', 'FpVerif.Spec.C01', 'FpVerif.Spec.C01Inst', 'FpVerif.Spec.C01Gen', 'FpVerif.Spec.C01CoreGen'],
        facts=facts_all(facts_monadgen, facts_coregen),
        harnesses=[H('statet', 'oracle_statet', 4000, 200000, spec_level=True),
                   # state threading / short-circuit of the generated statet_monad.go family (Ap, Map2, Zip, LiftA/LiftM, Sequence, Traverse ...)
                   H('monad_statet', 'oracle_monad', 3000, 150000, oracle_args=['statet'], spec_level=True),
                   TRANSX_H('C17', 'st.')],
        level='proof',
        modelled='statet.Run/Merge/ApTry/ApOption: Model/StateTExt.lean, Spec/C17Ext.lean. state.go (all StateT methods), statet/statet_op.go (all functions); state_monad.go/state_traverse.go via C01',
        assumptions=['iterators handed to FoldM are viewed as the finite list they yield',
                     'user callbacks are arbitrary GoM computations (may log and panic)'],
    ),
}

def _only(classes):
    return dict(quick=['-only', classes], thorough=['-only', classes])

CHECKS_TC = {
    'C09': dict(
        spec=['FpVerif.Spec.C09', 'FpVerif.Spec.C14Gen', 'FpVerif.Spec.C09Gen', 'FpVerif.Spec.C09GenHash', 'FpVerif.Spec.C09GenPred', 'FpVerif.Spec.TCGenCover'],
        facts=facts_all(facts_tuplegen, facts_tcgen),
        harnesses=[H('tc', 'oracle_tc', 3000, 300000, extra=_only('eq,hash'))],
        level='proof',
        modelled='typeclass.go (Eq, EqFunc, EqGiven, Hashable); eq/eq_op.go (New, Time, Bytes, Tuple1, Option, Seq, Slice, '
                 'HNil, HCons, Given, Ptr, PtrGiven, ContraMap, String, GoMap, FpMap) + eq/tuple_gen.go (Tuple2..21 as the '
                 'recursion head × Tuple(N-1)); hash/hash_op.go (hashUint64, New, Number, String, Bytes, Tuple1, HNil, HCons, '
                 'Seq, Slice, Ptr, Option, ContraMap) + hash/tuple_gen.go. Not modelled: the predicate helpers of eq_op.go '
                 '(GivenValue, NotNilAnd, …: not Eq instances), float keys (excluded by the property).',
        assumptions=['Go `int` is Int64 in the oracle; theorems hold for every carrier with decidable equality',
                     'a Go map / fp.Map is an association list with distinct keys (fp.Map = mathematical map is C03)',
                     'time.Time is (instant, location); Equal/Compare look at the instant only',
                     'ContraMap functions are pure (the theorems quantify over all functions)'],
    ),
    'C10': dict(
        spec=['FpVerif.Spec.C10', 'FpVerif.Spec.C10Ext', 'FpVerif.Spec.C14Gen', 'FpVerif.Spec.C10Gen', 'FpVerif.Spec.TCGenCover'],
        facts=facts_all(facts_tuplegen, facts_tcgen),
        harnesses=[H('tc', 'oracle_tc', 3000, 200000, extra=_only('ord')),
                   # SortSeqT / MinSeqT / MaxSeqT of try/try_seqt.go (Spec/C10Ext.lean); SortSeqT is only run with orders whose Eqv elements are indistinguishable
                   # (sort.Sort is unstable); Min/Max answers rendered by the equivalence class of the result (C10 fixes "a least element", not which)
                   TRANSX_H('C10', 'seqT.sort,seqT.min,seqT.max')],
        level='proof',
        modelled='typeclass.go (Ord, CompareFunc, LessFunc with all derived methods, LessGiven); ord/ord_op.go (FromCompare, New, '
                 'Time, Tuple1, Option, Seq, Slice, HNil, HCons, Given, GivenField, ContraMap, Ptr) + ord/tuple_gen.go; as.Ord; '
                 'Sort/Min/Max of seq/seq_op.go, iterator/iterator_op.go, list/list_op.go.',
        assumptions=['sort.Sort returns an ordered permutation when Less is a strict weak order (hypothesis SortSpec of the '
                     'theorems, satisfiable: List.mergeSort); it is unstable, so the comparison canonicalises runs of Eqv elements',
                     'Compare results are mathematical integers: a user comparison never returns math.MinInt (Reversed negates)',
                     'user functions handed to as.Ord / ord.New / ord.FromCompare are strict weak orders / lawful three-way '
                     'comparisons (hypotheses StrictWeak / CmpLawful of the theorems)',
                     'iterators and lists handed to Sort/Min/Max are viewed as the finite list they yield',
                     'that seq.Sort sorts its INPUT in place (r.Concat(nil) returns r) is a C04 matter: counted in the histogram '
                     '(note:seq.Sort-mutated-its-input(C04)), a failure only with the harness flag -c04'],
    ),
    'C11': dict(
        spec=['FpVerif.Spec.C11', 'FpVerif.Spec.C14Misc', 'FpVerif.Spec.C14Gen', 'FpVerif.Spec.C11Gen', 'FpVerif.Spec.TCGenCover', 'FpVerif.Spec.C12SeqGen', 'FpVerif.Spec.SeqGenCover'],
        facts=facts_all(facts_tuplegen, facts_tcgen, facts_seqgen),
        harnesses=[H('tc', 'oracle_tc', 3000, 300000, extra=_only('mon,sg')),
                   # monoid adapters SemigroupFunc.Empty/Curried, EmptyFunc.Empty, monoid.ToMonoid/Curried (toMonoid_lawful_iff ...)
                   H('misc', 'oracle_misc', 3000, 300000, spec_level=True)],
        level='proof',
        modelled='monoid.go (SemigroupFunc, Sum, Product, monoid); monoid/monoid_op.go (New, String, Sum, Product, Option, Try, '
                 'MergeSeq, MergeSlice, HNil, HCons, Endo, Dual, Eval, Any, All, IMap, MergeMap, MergeSet, MergeGoMap, Ptr, Unit) '
                 '+ monoid/tuple_gen.go; semigroup/semigroup.go (all); Reduce/FoldMap/Fold/FoldRight of seq, iterator, list. '
                 'Not modelled: monoid.Future (not in the property).',
        assumptions=['lazy.Eval is observed through Get (faithfulness of the trampoline is C16)',
                     'pointers produced by monoid.Ptr / semigroup.Ptr are compared by target',
                     'map monoids are lawful up to map content (iteration order is not part of the value)',
                     'Try values are properly initialised (Success or Failure with a non-nil error)',
                     'functions (Endo) are compared extensionally; in the harness on the domain [-2..3]'],
    ),
    'C18': dict(
        spec=['FpVerif.Spec.C18', 'FpVerif.Spec.C14Gen', 'FpVerif.Spec.C18Gen', 'FpVerif.Spec.TCGenCover'],
        facts=facts_all(facts_tuplegen, facts_tcgen),
        harnesses=[H('clone', 'oracle_clone', 4000, 400000)],
        level='proof',
        modelled='clone/clone.go (New, Ptr, Given, HNil, Seq, GoMap, Slice, Option, HCons, Tuple2, Generic) + clone/clone_gen.go '
                 '(Tuple3..21) over an explicit heap of cells (pointer targets, slice backing arrays, Go maps).',
        assumptions=['cells are allocated after their contents were cloned (Go allocates the container first); addresses are '
                     'not observable and element cloners only allocate',
                     'a slice is (array, length) with offset 0; TupleN/HCons are nested pairs; a struct and its fp.Generic '
                     'representation are the same tuple (gen.To/gen.From move fields and do not allocate)',
                     'Given is used at value types only (the property says so); map keys are pairwise distinct under ==',
                     'the Go runtime implements pointers, slices and maps as the heap model says'],
    ),
}

for _k, _v in CHECKS_TC.items():
    for _h in _v['harnesses']:
        _h['spec_level'] = True
CHECKS.update(CHECKS_TC)

GOMBOK_ASSUME = [
    'encoding/json is an abstract codec per type (enc/dec with the current target); Faithful / NotNull are hypotheses of the round-trip theorems',
    'values are immutable trees in the Lean model; sharing of mutable storage (slices, maps, pointers) between copies is outside the model and is '
    'checked on the implementation only (clone alias check, "target unchanged on error" with identity-sensitive rendering)',
    'the programs dimension (struct declarations, annotations, derive directives) is SAMPLED from the grammar of harness/gombokgen; '
    'the Go compiler decides "compiles"',
    'field names of the modelled grammar are ASCII (gombok rejects other names with a gofmt error)',
]

def GOMBOK_C08_H(quick=240, thorough=4800):
    return H('gombokrun', 'oracle_derive', quick, thorough, spec_level=True,
             extra=dict(quick=['-prop', 'C08'], thorough=['-prop', 'C08']),
             timeout=dict(quick=900, thorough=6000),
             nontrivial=lambda op, impl: op.startswith('(derive ') or (op.startswith('(eval') and impl.count(';') >= 3))


def GOMBOK_H(prop, oracle, quick=240, thorough=4800):
    return H('gombokrun', oracle, quick, thorough, spec_level=True,
             extra=dict(quick=['-prop', prop], thorough=['-prop', prop]),
             timeout=dict(quick=900, thorough=6000),
             nontrivial=lambda op, impl: (op.startswith('(eval') and impl.count(';') >= 3) or op.startswith('(optjson'))

CHECKS.update({
    'C07': dict(
        spec=['FpVerif.Spec.C07'],
        harnesses=[GOMBOK_H('C07', 'oracle_record')],
        level='translation_validation',
        level_note='programs dimension: struct declarations sampled from a grammar (field kinds x visibility x embedded/underscore x tags x '
                   'generics/constraints x annotations, 0..23 fields, name-collision shapes), gombok built from the working tree and run on them, '
                   'go build decides "compiles"; values dimension: Lean theorems for all values of the record model + differential execution '
                   '(generated driver vs oracle_record) + direct evaluation of every law on the generated code',
        modelled='the SEMANTICS of gombok\'s @fp.Value output as a function of the declaration (FpVerif/Model/Record.lean): which methods exist '
                 '(name derivation, genMethod set, tuple limit max.Product), and what getters, WithF/WithSomeF/WithNoneF, Builder and its setters, '
                 'AsTuple/FromTuple, Unapply/Apply, AsMutable/AsImmutable, AsLabelled/FromLabelled, AsMap/FromMap (type-assertion guard), '
                 'NewT of @fp.AllArgsConstructor and the json tags of the Mutable twin do. NOT modelled: the generator itself '
                 '(cmd/gombok, metafp, genfp), String(), @fp.Deref, @fp.RequiredArgsConstructor, adaptors/delegates.',
        assumptions=GOMBOK_ASSUME,
    ),
    'C08': dict(
        spec=['FpVerif.Spec.C08', 'FpVerif.Spec.C08Inst'],
        # a derived instance is a composition of the combinators of packages eq/ord/hash/monoid/clone: the theorems assume the
        # components lawful (C09-C11, C18), so their correspondence harnesses run here too (seed C08-4: clone.Slice returning an
        # empty slice with spare capacity unchanged; round-4 seeds clone.GoMap / monoid.HCons)
        harnesses=[GOMBOK_C08_H(), H('clone', 'oracle_clone', 4000, 400000), H('tc', 'oracle_tc', 3000, 300000)],
        level='translation_validation',
        level_note='Lean: derived Eq/Ord/Hashable/Monoid/Clone are lawful and field-wise for every declaration, every type of field values and '
                   'all lawful components (Spec/C08); every instance expression the oracle evaluates (primitive instances of eq/ord/hash/monoid/clone, '
                   'local overriding and own-package instances, Option/Seq/Slice/Ptr/GoMap/Tuple2, nested derived structs, recursion through pointers, '
                   'type-parameter dictionaries) denotes a lawful component, hence the instance of every declaration is lawful (Spec/C08Inst). '
                   'Harness: @fp.Derive directives generated from the grammar; for every derived instance and sample the REAL generated '
                   'EqT()/OrdT()/HashableT()/MonoidT()/CloneT() answers a (derive …) line (Eqv/Less on the pairs of a triple, uint32 hashes, '
                   'Empty/Combine/associativity/identity records, Clone with alias classes) and oracle_derive answers the same line by running '
                   'the model definitions on the component instances the harness computed from the declaration by the documented resolution '
                   'rules; plus the model-free direct checks (field-wise references, laws, no shared storage).',
        modelled='FpVerif/Model/Derive.lean: tuple/hlist combinators of eq/ord/hash/monoid/clone as recursion over the component list (ord.New wrapping '
                 'of every level included), ContraMap/IMap/Generic through AsTuple/Unapply and Builder{}.FromTuple/Apply, generic structs as functions '
                 'of parameter dictionaries, a heap model for "shares no mutable storage". FpVerif/Model/DeriveInst.lean: the component instances '
                 '(hash.Number = hashUint64(uint64(key)), hash.String/Bytes = FNV-1, h*31+… in uint32, wrap-around monoid.Product, lexicographic '
                 'ord.Seq, None/nil-first ord.Option/ord.Ptr, eq.GoMap, monoid.Option/MergeSlice/MergeGoMap, clone.Slice/GoMap/Option/Ptr/Tuple2 …). '
                 'NOT modelled: instance resolution inside gombok (the harness computes the expected resolution from the declaration; a wrong '
                 'resolution shows as a mismatch through observably different instances), Show.',
        assumptions=GOMBOK_ASSUME + ['monoid.MergeGoMap is lawful only up to map content (property C11): the op lines compare its results, '
                                     'the Lean law theorem of C08Inst gives it the empty carrier'],
    ),
    'C15': dict(
        spec=['FpVerif.Spec.C15'],
        harnesses=[GOMBOK_H('C15', 'oracle_json')],
        level='translation_validation',
        level_note='Lean: Option.MarshalJSON/UnmarshalJSON, Unit and the generated struct methods over an abstract encoding/json codec; '
                   'harness: real encoding/json round trips for generated @fp.Json structs and for fp.Option/fp.Unit, marshal vs Mutable twin '
                   'byte-for-byte, arbitrary bytes with recover and identity-sensitive target comparison',
        modelled='FpVerif/Model/Json.lean: option.go MarshalJSON/UnmarshalJSON (first-byte test, empty input, nil receiver), fp.go Unit, generated '
                 'MarshalJSON/UnmarshalJSON of @fp.Json structs through AsMutable/AsImmutable. encoding/json itself is an abstract codec.',
        assumptions=GOMBOK_ASSUME,
    ),
})

HOOK_COMMITS = ['068ea8a', '2723e24', 'd1abfff', 'd51f3b4']

NOT_APPLICABLE = {
    'C13': "byte-level reproducibility of three generator executables over a file tree: no executable Lean model short of a model of "
           "gombok/text-template themselves expresses it; a `decide` over two byte strings would be a restated test, not a theorem",
}

# ---- session 6: regenerated ties (Tie A translators, Tie C atomic-step facts) -------------------------------------------------
_TIE_A_MONAD = (' Session 6, Tie A: harness/cmd/monad2lean TRANSLATES option/try/either/statet *_monad.go and *_traverse.go (89 functions x 4 packages) '
                'of the working tree into Lean definitions over MonadOps on every run (FpVerif/Gen/MonadGen.lean); Spec/C01Gen (163 theorems) states '
                'translated = Model/MonadFamily definition (rfl, or for every Lawful instance), that the four packages carry one template, the expected '
                'function table, and transports C01/C02/C17 theorems to the translated code. Trusted there: the translator and Model/MonadGenPrelude.lean '
                '(18 one-line readings of pure helpers).')
_TIE_A_ARITY = (' Session 6, Tie A: harness/cmd/go2lean2 TRANSLATES the 15 generated pure arity files (655 declarations: curried, as, fp tuple/labelled/func, '
                'hlist, product, fn1.Merge, unit.Func) of the working tree (FpVerif/Gen/ArityGen.lean); Spec/C14ArityGen (688 theorems): per family and '
                'arity translated = Model/Arity at n := N, coverage against internal/max/max.go, 9 C14 theorems transported.')
_TIE_C_ATOM = (' Session 6, Tie C: harness/cmd/atomfacts extracts from the working tree, per function, the shape of shared-memory events (yield, load, store, '
               'cas, lock, once.Do, append, callbacks) (FpVerif/Gen/AtomFacts.lean); Spec/C05Facts, C19Facts, C06Facts, C16AtomFacts (44 theorems, '
               'decide +kernel): one yield in front of every access on every path, Lipton-reducible blocks, per-function skeleton = the skeleton of the '
               'Lean step machine, the set of functions reaching the cell. Trusted there: the extractor and the mover classification of Model/AtomShape.lean.')
_TIE_A_CORE = (' harness/cmd/core2lean TRANSLATES the hand-written cores try.go, option.go, either.go, state.go, try/try_op.go, option/option_op.go, either/either_op.go, '
               'statet/statet_op.go of the working tree (143 functions; 12 listed exceptions: String renderings, panicError internals, option.Of (reflection), '
               'NonZero/String/NonEmptySlice (== / nil-ness on type parameters), Deref, TraverseOption, Traverse_; 41 functions belong to other ties) into '
               'FpVerif/Gen/CoreGen.lean; Spec/C01CoreGen (204 theorems): translated = model (rfl / case split / induction for the loop helpers), coverage = '
               'translated + exceptions + other ties, monad laws, of_spec (C02) and the StateT laws (C17) restated for the translated definitions.')
for _pid in ('C01', 'C02', 'C17'):
    CHECKS[_pid]['modelled'] = CHECKS[_pid].get('modelled', '') + _TIE_A_MONAD + _TIE_A_CORE
    CHECKS[_pid]['technique'] = ('Lean 4 proof over hand-written executable model + regenerated Go->Lean translation of the generated monad family and of the hand-written '
                                 'Option/Try/Either/StateT cores proved equal to the model (Tie A) + differential correspondence check')
CHECKS['C14']['modelled'] = CHECKS['C14'].get('modelled', '') + _TIE_A_MONAD + _TIE_A_ARITY
CHECKS['C14']['technique'] = ('Lean 4 proof over hand-written arity-generic model + regenerated Go->Lean translation of the generated families proved '
                              'equal to the model per arity (Tie A) + differential correspondence check')
_TIE_A_TC = (' Session 6, Tie A: harness/cmd/tc2lean TRANSLATES the hand-written combinators of typeclass.go, monoid.go, eq/eq_op.go, hash/hash_op.go, ord/ord_op.go, '
             'monoid/monoid_op.go, semigroup/semigroup.go, clone/clone.go found in the working tree (112 of 127 exported declarations; 15 listed exceptions: time, '
             'bytes, Go maps, fp.Map/Set, clone.Ptr/Generic, monoid.Future, two adapters) into FpVerif/Gen/TCGen.lean over a committed semantics of the Go fragment '
             '(Model/GoSem.lean: loop schemas, zero values); Spec/C09Gen, C09GenHash, C09GenPred, C10Gen, C11Gen, C18Gen (150 theorems): translated = model (rfl or '
             'proved extensional equality incl. index loops = list recursion), TCGenCover (7): exported declarations = translated + exceptions; laws transported to '
             'the translated code.')
for _pid in ('C09', 'C10', 'C11', 'C18'):
    CHECKS[_pid]['modelled'] = CHECKS[_pid].get('modelled', '') + _TIE_A_TC
    CHECKS[_pid]['technique'] = ('Lean 4 proof over hand-written executable model + regenerated Go->Lean translation of the typeclass combinators and the generated '
                                 'TupleN instances proved equal to the model (Tie A) + differential correspondence check')
CHECKS['C16']['modelled'] = CHECKS['C16'].get('modelled', '') + (' Session 6, Tie A: harness/cmd/lazy2lean TRANSLATES lazy/lazy.go and lazy/tailcall_gen.go of the working tree '
    '(the Eval struct as the model\'s defunctionalised inductive, 24 functions incl. the Run loop as a fuelled recursion with the same body; exception list empty) into '
    'FpVerif/Gen/LazyGen.lean; Spec/C16Gen (52 theorems): emitted type isomorphic to EvalM.Eval, every function = its model definition, Run n t log = runLoop n (toModel t) log '
    'for every fuel, coverage, and faithful / run_* / monad laws / runLoop_spec restated for the translated definitions. Memoize is read as the transparent first-request cell '
    '(pinned by memoSites_as_committed, C16Facts, C16AtomFacts).')
for _pid in ('C05', 'C06', 'C19', 'C16'):
    CHECKS[_pid]['modelled'] = CHECKS[_pid].get('modelled', '') + _TIE_C_ATOM
    CHECKS[_pid]['technique'] = ('Lean 4 proof over hand-written executable step-machine model + regenerated atomic-step facts decided by the kernel '
                                 '(Tie C) + differential correspondence check at yield-hook granularity')
_TIE_A_SEQ = (' Session 6, Tie A: harness/cmd/seq2lean TRANSLATES 57 of the 75 exported functions / methods of seq.go and seq/seq_op.go of the working tree (18 listed '
              'exceptions: iterators, Go maps, HAMT builders, sort.Sort, futures, MakeString, FilterNil) into FpVerif/Gen/SeqGen.lean over a committed GoM semantics of the Go '
              'fragment (Model/GoSemM.lean: one loop schema, index reads / writes that throw where Go panics); Spec/C12SeqGen (88 theorems): each translated function equals the '
              'list function the C12 / C01 / C11 theorems use as the EAGER REFERENCE, for all lists and all (logging, panicking) callbacks; 5 end-to-end corollaries relate the '
              'iterator machines to the translated eager code; Spec/SeqGenCover (6): exported = translated + exceptions. Values only (aliasing stays with Model/SliceHeap).')
for _pid in ('C12', 'C01', 'C11'):
    CHECKS[_pid]['modelled'] = CHECKS[_pid].get('modelled', '') + _TIE_A_SEQ
CHECKS['C12']['technique'] = ('Lean 4 proof over hand-written executable iterator / lazy-list machines + regenerated Go->Lean translation of the eager Seq reference '
                              'functions proved equal to the list functions of the theorems (Tie A) + differential correspondence check')
_TIE_A_FUT = (' Session 6, Tie A: harness/cmd/fut2lean TRANSLATES the DERIVED future combinators of future/future_op.go and future/func_gen.go found in the working tree '
              '(86 of 130 declarations; 9 primitives tied by Tie C + correspondence, 21 builder methods, 14 listed exceptions: Flap*, With, Chain1, Applicative1, Await, getExecutor) '
              'into FExpr-building definitions (FpVerif/Gen/FutGen.lean); Spec/C06Gen (111 theorems): each equals the model\'s derived program (rfl; Sequence / Traverse through '
              'fold inductions), coverage of the 130 (name, class) pairs, left-to-right short-circuit theorems restated for the translated definitions. Trusted: Model/FutGenPrelude '
              '(three helper readings) and the executor reading.')
for _pid in ('C06', 'C14'):
    CHECKS[_pid]['modelled'] = CHECKS[_pid].get('modelled', '') + _TIE_A_FUT
CHECKS['C06']['technique'] = ('Lean 4 proof over hand-written executable task-atomic model + regenerated Go->Lean translation of the derived future combinators proved equal to '
                              'the model programs (Tie A) + regenerated atomic-step facts (Tie C) + differential correspondence check')
_TIE_C_HAMT = (' Session 6, Tie C: harness/cmd/hamtfacts extracts from the working tree\'s immutable/map.go every constant, struct, node kind, threshold comparison, '
               'hash-fragment / shift / popcount expression, the iterator stack length and per function its normalised statement tree (FpVerif/Gen/HamtFacts.lean); '
               'Spec/C03Facts (81 theorems): constants == Model/Hamt.lean\'s, every promotion / demotion threshold has the model\'s operator and bound (model_* branch theorems), '
               'five node kinds = constructors of Hamt.Node, iterator stack >= ceil(32 / mapNodeBits) + 1, 55 per-function skeletons.')
for _pid in ('C03', 'C04'):
    CHECKS[_pid]['modelled'] = CHECKS[_pid].get('modelled', '') + _TIE_C_HAMT
    CHECKS[_pid]['technique'] = ('Lean 4 proof over hand-written executable model (value level and pointer level) + regenerated structure facts of immutable/map.go decided by the kernel '
                                 '(Tie C) + differential correspondence check incl. trie shape and sharing')
CHECKS['C16']['technique'] = ('Lean 4 proof over hand-written executable model + regenerated Go->Lean translation of lazy/lazy.go proved equal to the model (Tie A) '
                              '+ regenerated atomic-step / memoisation facts decided by the kernel (Tie C) + differential correspondence check')
