"""Per-property configuration of bin/check."""

import os, subprocess, json

def facts_factx(repo, lean):
    """Tie C: regenerate FpVerif/Gen/Facts.lean from the repository's source (deleted first)."""
    out = os.path.join(lean, 'FpVerif', 'Gen', 'Facts.lean')
    os.makedirs(os.path.dirname(out), exist_ok=True)
    if os.path.exists(out):
        os.remove(out)
    harness = os.path.join(os.path.dirname(lean), 'harness')
    env = dict(os.environ, GOFLAGS='-mod=mod', GOPROXY='off', GOSUMDB='off', GOTOOLCHAIN='local')
    p = subprocess.run(['go', 'run', './cmd/factx', repo, out], cwd=harness, env=env, stdout=subprocess.PIPE,
                       stderr=subprocess.STDOUT, text=True)
    if p.returncode != 0 or not os.path.exists(out):
        return dict(error='factx failed: ' + p.stdout[-800:], obligations=1)
    info = json.loads(p.stdout.strip().split('\n')[-1])
    info['obligations'] = 1
    info['generated'] = 'FpVerif/Gen/Facts.lean'
    return info


def H(cmd, oracle, quick, thorough, **kw):
    d = dict(cmd=cmd, oracle=oracle, n=dict(quick=quick, thorough=thorough))
    d.update(kw)
    return d

MONAD_H = [H('monad_' + p, 'oracle_monad', 3000, 150000, oracle_args=[p], spec_level=True) for p in ('try', 'option', 'either', 'statet')]
TRYOPT_H = H('tryopt', 'oracle_tryopt', 4000, 200000, spec_level=True)

CHECKS = {
    'C01': dict(
        spec=['FpVerif.Spec.C01', 'FpVerif.Spec.C01Inst'],
        harnesses=MONAD_H + [TRYOPT_H],
        level='proof',
        modelled='X_monad.go + X_traverse.go of option/try/either/statet (one generic model of the generator template, '
                 'instantiated four times; every arity through operand lists); FlatMap/Pure/FoldM and the hand-written cores of '
                 'try_op.go, option_op.go, either_op.go; methods of fp.Try/fp.Option/fp.Either. Iterator/List monads: C12; lazy.Eval: C16. '
                 'Not modelled: MonadChainN/ApplicativeFunctorN builders, SeqT/OptionT transformer functions, fn0/fn1.',
        assumptions=['Go evaluates call arguments before the call and left to right; every M-typed argument of the generated family is a '
                     'variable or a nested call used exactly once (checked by the correspondence, not proved)',
                     'iterators handed to FoldM/Traverse are viewed as the finite list they yield (pull behaviour: C12/C20)'],
    ),
    'C02': dict(
        spec=['FpVerif.Spec.C02'],
        harnesses=MONAD_H + [TRYOPT_H, H('statet', 'oracle_statet', 3000, 100000, spec_level=True)],
        level='proof',
        modelled='as C01; in addition try.Of/Call/CallUnit (recover -> tryCatch), Recover*/Or*/OrElse* of fp.Try/fp.Option/fp.StateT. '
                 'future.Apply/Apply2: C06.',
        assumptions=['panic values are compared by their canonical rendering', 'debug.Stack() content of try.panicError is not modelled'],
    ),
    'C06': dict(
        spec=['FpVerif.Spec.C06', 'FpVerif.Spec.C06Sound'],
        harnesses=[H('future', 'oracle_future', 3000, 150000, spec_level=True)],
        level='proof',
        level_note='trusted: Lean kernel (propext/Classical.choice/Quot.sound only); model fidelity checked by correspondence (statuses of every future, '
                   'callback log and pool size compared after EVERY scenario under the same schedule, i.e. the task structure itself is compared). '
                   'PARTIAL: proved at task granularity (one ExecuteUnsafe-d runnable = one atomic step; the reduction from atomic-step granularity is C05); '
                   'proved: single assignment and exactly-once task delivery under every event sequence, monotone three-valued Try semantics of every '
                   'derived combinator; Spec/C06Sound.lean: for EVERY schedule (construction moments, source completion order, task order) every completed '
                   'promise holds exactly what its first-order expression evaluates to over the statuses in that same state (never earlier, never different). '
                   'Not yet proved: completeness at quiescence (a determined future IS completed once no task is runnable) and absence of failed Complete attempts; '
                   'futures of futures (Flatten/LiftM) are outside the first-order fragment of the theorem — all three are covered by the correspondence and direct checks.',
        modelled='future.go (Promise cell, OnComplete, Future methods Map/FlatMap/Recover*/Or/OrFuture/Failed), future/future_op.go (Successful, Failed, '
                 'Apply/Apply2, FlatMap, Map, Map2, Zip, Zip3/LiftA3, LiftM via Flatten(Map), Compose, Method1, FlapMap, Transform, TransformWith, Sequence, '
                 'Traverse/TraverseSeq via iterator.FoldFuture). Not modelled: Await/timeouts, MonadChainN/ApplicativeFunctorN builders, inline executors.',
        assumptions=['a task body runs atomically (task-atomic model); promises are atomic single-assignment cells (justified by C05)',
                     'user callbacks do not panic inside tasks (a panic in a callback goroutine terminates the program; only Apply/Apply2 recover)'],
    ),
    'C16': dict(
        spec=['FpVerif.Spec.C16', 'FpVerif.Spec.C16Facts'],
        facts=facts_factx,
        harnesses=[H('eval', 'oracle_eval', 4000, 200000, spec_level=True,
                     extra=dict(quick=['-deep', '2000000'], thorough=['-deep', '20000000']))],
        level='proof',
        level_note='trusted: Lean kernel (propext/Classical.choice/Quot.sound only); model fidelity checked by correspondence; '
                   'sync.Once trusted to give the blocking exactly-once semantics modelled in Model/Memo.lean; PARTIAL: constant machine-stack '
                   'use per loop iteration is measured by the harness (call depth probes, 2e6 / 2e7 deep tail recursion under a 32 MB stack cap), '
                   'the Lean theorems give the structural part (no pending continuation accumulates; n tail calls = n loop iterations).',
        modelled='lazy/lazy.go (Eval, Resume, Run loop with fuel, FlatMap, Map, Map2, Done, Call, TailCall, TailCallN as TailCall) with '
                 'logging thunks; Memoize as a Once-guarded cell under arbitrary interleavings; facts: Call/TailCall/MakeList route through '
                 'Memoize, every Memoize uses sync.Once. Panicking thunks are not modelled.',
        assumptions=['thunks may log but do not panic', 'sync.Once semantics as in Model/Memo.lean'],
    ),
    'C17': dict(
        spec=['FpVerif.Spec.C17'],
        harnesses=[H('statet', 'oracle_statet', 4000, 200000, spec_level=True)],
        level='proof',
        modelled='state.go (all StateT methods), statet/statet_op.go (all functions); state_monad.go/state_traverse.go via C01',
        assumptions=['iterators handed to FoldM are viewed as the finite list they yield',
                     'user callbacks are arbitrary GoM computations (may log and panic)'],
    ),
}

HOOK_COMMITS = ['068ea8a']

NOT_APPLICABLE = {
    'C13': "byte-level reproducibility of three generator executables over a file tree: no executable Lean model short of a model of "
           "gombok/text-template themselves expresses it; a `decide` over two byte strings would be a restated test, not a theorem",
}
