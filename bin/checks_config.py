"""Per-property configuration of bin/check."""

def H(cmd, oracle, quick, thorough, **kw):
    d = dict(cmd=cmd, oracle=oracle, n=dict(quick=quick, thorough=thorough))
    d.update(kw)
    return d

CHECKS = {
    'C17': dict(
        spec=['FpVerif.Spec.C17'],
        harnesses=[H('statet', 'oracle_statet', 4000, 200000)],
        level='proof',
        modelled='state.go (all StateT methods), statet/statet_op.go (all functions); state_monad.go/state_traverse.go via C01',
        assumptions=['iterators handed to FoldM are viewed as the finite list they yield',
                     'user callbacks are arbitrary GoM computations (may log and panic)'],
    ),
}
