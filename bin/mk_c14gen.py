#!/usr/bin/env python3
"""Writes lean/FpVerif/Spec/C14Gen.lean: the (committed, static) statements tying the TRANSLATED generated TupleN
instance functions (FpVerif/Gen/TupleGen.lean, regenerated from /repo on every run by harness/cmd/go2lean) to the
arity-generic model instances of Model/TypeClasses.lean.  Run once; the output is under version control, so that the
statements cannot change silently when the source changes."""
import os
out = os.path.join(os.path.dirname(os.path.dirname(os.path.abspath(__file__))), 'lean', 'FpVerif', 'Spec', 'C14Gen.lean')
MAXN = 21
L = []
L.append('''import FpVerif.Gen.TupleGen
import FpVerif.Spec.C09
import FpVerif.Spec.C10
import FpVerif.Spec.C11
/-!
# C14 / C09 / C10 / C11 / C18 — the generated `TupleN` instance functions, TRANSLATED from the source on every run

`FpVerif/Gen/TupleGen.lean` is produced by `harness/cmd/go2lean` (a Go-AST → Lean translator for the pure fragment
these generated files are written in) from `eq/tuple_gen.go`, `hash/tuple_gen.go`, `ord/tuple_gen.go`,
`monoid/tuple_gen.go` and `clone/clone_gen.go` of the working tree: one Lean definition per Go function, same
structure (`pt := TupleN-1(ins2 …)`, the closures handed to `New`, the `if`/`return` chains, every `t1.Ik`).

The theorems below — one per family and arity, statements fixed here under version control — say that the translated
function IS the arity-generic model instance `tupleN i₁ (tupleN i₂ (… (tuple1 iₙ)))` about which `Spec/C09`, `C10`,
`C11` prove lawfulness and the characterisations (`tupleN_eqv_iff`, `tupleN_less_iff`, …), resp. for `clone` the
defining equation of C14 (component `k` is cloned by instance `k` and lands at position `k`).  All proofs are `rfl`:
the kernel unfolds both sides.  A wrong variable, swapped operands or a dropped component in ONE generated function
changes the translated definition and exactly that theorem stops checking.

`fp.TupleN[A1..AN]` is `A1 × (A2 × … × T1 AN)`; `t.Ik` is the k-th projection, `as.TupleN-1(t.Tail())` is `t.2`
(the C14 arity harness ties `Tail`/`as.TupleK`/`product.TupleN` themselves to the code).
-/
namespace FpVerif.Spec.C14Gen
open FpVerif.TC FpVerif.Gen.Tuple
''')

def tys(n): return ' '.join(f'A{i}' for i in range(1, n+1))
def insts(n, d): return ' '.join(f'(i{i} : {d} A{i})' for i in range(1, n+1))
def args(n): return ' '.join(f'i{i}' for i in range(1, n+1))
def model(n, d):
    s = f'{d}.tuple1 i{n}'
    for i in range(n-1, 0, -1):
        s = f'{d}.tupleN i{i} ({s})'
    return s
def proj(k, n):
    s = 't' + '.2'*(k-1)
    return s + ('.i1' if k == n else '.1')

for fam, d in (('eq', 'EqD'), ('hash', 'HashD'), ('ord', 'OrdD'), ('monoid', 'MonoidD')):
    L.append(f'-- {fam}.Tuple2 .. {fam}.Tuple{MAXN} ' + '-'*60)
    for n in range(2, MAXN+1):
        if n == 2 or fam == 'monoid':
            prf = 'rfl'
        else:
            # one unfolding (the function's own body against `tupleN i1 pt`), then the theorem for the arity below
            rest = ' '.join(f'i{i}' for i in range(2, n+1))
            prf = (f'\n    (rfl : {fam}Tuple{n} {args(n)} = {d}.tupleN i1 ({fam}Tuple{n-1} {rest})).trans\n'
                   f'      (congrArg ({d}.tupleN i1) ({fam}_tuple{n-1}_is_model {rest}))')
        L.append(f'theorem {fam}_tuple{n}_is_model {{{tys(n)} : Type}} {insts(n, d)} :\n'
                 f'    {fam}Tuple{n} {args(n)} = {model(n, d)} := {prf}')
    L.append('')
L.append(f'-- clone.Tuple3 .. clone.Tuple{MAXN} (clone.Tuple2 is hand-written: clone harness) ' + '-'*20)
for n in range(3, MAXN+1):
    comps = ', '.join(f'i{k} {proj(k, n)}' for k in range(1, n))
    last = f'(⟨i{n} {proj(n, n)}⟩ : T1 A{n})'
    ty = ' × '.join([f'A{i}' for i in range(1, n)] + [f'T1 A{n}'])
    L.append(f'theorem clone_tuple{n}_def {{{tys(n)} : Type}} {insts(n, "CloneD")} (t : {ty}) :\n'
             f'    cloneTuple{n} {args(n)} t = ({comps}, {last}) := rfl')
L.append('')
exp = ', '.join(f'("{fam}", {n})' for fam, lo in (('eq', 2), ('hash', 2), ('ord', 2), ('monoid', 2), ('clone', 3)) for n in range(lo, MAXN+1))
L.append(f'''/-- every generated function of the five files was found and translated, and there is no arity the theorems above
    do not speak about -/
theorem all_arities_translated : arities = [{exp}] := by decide

-- what the ties buy: the laws proved for the model instances hold for the translated code (two representatives per
-- family; every other arity is the same two lines) ---------------------------------------------------------------------

theorem eq_tuple3_lawful {{A1 A2 A3 : Type}} {{i1 : EqD A1}} {{i2 : EqD A2}} {{i3 : EqD A3}}
    (h1 : LawfulEq i1) (h2 : LawfulEq i2) (h3 : LawfulEq i3) : LawfulEq (eqTuple3 i1 i2 i3) := by
  rw [eq_tuple3_is_model]; exact FpVerif.Spec.C09.tupleN_lawful h1 (FpVerif.Spec.C09.tupleN_lawful h2 (FpVerif.Spec.C09.tuple1_lawful h3))

theorem hash_tuple3_lawful {{A1 A2 A3 : Type}} {{i1 : HashD A1}} {{i2 : HashD A2}} {{i3 : HashD A3}}
    (h1 : LawfulHash i1) (h2 : LawfulHash i2) (h3 : LawfulHash i3) : LawfulHash (hashTuple3 i1 i2 i3) := by
  rw [hash_tuple3_is_model]; exact FpVerif.Spec.C09.hash_tupleN_lawful h1 (FpVerif.Spec.C09.hash_tupleN_lawful h2 (FpVerif.Spec.C09.hash_tuple1_lawful h3))

end FpVerif.Spec.C14Gen''')
open(out, 'w').write('\n'.join(L) + '\n')
print(out)
