#!/usr/bin/env python3
"""Writes lean/FpVerif/Spec/C01Gen.lean: the (committed, static) statements tying the TRANSLATED generated monad family
(FpVerif/Gen/MonadGen.lean, regenerated from /repo on every run by harness/cmd/monad2lean) to the hand-written model of
Model/MonadFamily.lean.  Run once; the output is under version control, so that the statements cannot change silently when
the source changes.  (Only the per-arity statements are mechanical; the rest of the file is the literal text below.)"""
import os
out = os.path.join(os.path.dirname(os.path.dirname(os.path.abspath(__file__))), 'lean', 'FpVerif', 'Spec', 'C01Gen.lean')
LO, HI = 3, 9          # LiftA3..9, Map3..9, LiftM3..9, FlatMap3..9, Flap3..9, Method3..9, FlatMethod3..9
CLO, CHI = 3, 5        # Compose3..5
L = []

L.append('''import FpVerif.Gen.MonadGen
import FpVerif.Spec.C01Inst
import FpVerif.Spec.C02
import FpVerif.Spec.C17
/-!
# C01 / C02 / C14 / C17 — the generated monad function family, TRANSLATED from the source on every run

`FpVerif/Gen/MonadGen.lean` is produced by `harness/cmd/monad2lean` (a type-directed Go-AST → Lean translator for the
fragment the generated files are written in) from `option/option_monad.go`, `try/try_monad.go` (+ `try.Map` of
`try/try_op.go`), `either/either_monad.go`, `statet/state_monad.go` and the four `*_traverse.go` files of the working
tree: one Lean definition per Go function over the abstract signature `MonadOps C`, with the SAME structure as the Go
body (the same nesting of `FlatMap`, the same closures, calls of other family members by name — `Map` is a call of the
translated `Map`, not inlined; the pure helpers of fp / curried / product / xtr / iterator have the fixed readings of
`Model/MonadGenPrelude.lean`).  The four packages come from ONE template: the translator translates each package and emits
the common translation once; `divergent` lists every (package, function) that differs from it.

The theorems below — statements fixed here under version control — say, function by function, that the translated
definition IS the hand-written definition of `Model/MonadFamily.lean` about which `Spec/C01`, `C02`, `C14`, `C17` prove the
properties:

* for EVERY `MonadOps` (proof `rfl`: the kernel unfolds both sides) wherever the model mirrors the Go body;
* for every `o.Lawful` instance (hypothesis `L`, visible in the statement) where the Go code instantiates a plain-callback
  parameter with a monadic-result function (`LiftM = Flatten(Map(ta, fa))`, `LiftM2`, `FlatFlapMap`, `FlatMethod2`, and what
  is built on them): the translation wraps the callback's result with `Pure.pure` and runs it through `o.seq … o.pure'`,
  the model writes `o.pure'` directly; the two agree by `seq_pure` (the laws are proved for the four packages in
  `Spec/C01Inst`).

Arity families (`LiftA3..9`, `Map3..9`, `LiftM3..9`, `FlatMap3..9`, `Flap3..9`, `Method3..9`, `FlatMethod3..9`,
`Compose3..5`, `Zip3`): the model is arity-generic over operand LISTS; per arity found in the source there is
`<F>N_is_model` (the translated N-ary function on operands `m1 … mN` of one type is the list model on `[m1, …, mN]`; every
N-ary callback on one type is of the form `fun a1 … aN => f [a1, …, aN]`, see `nary_as_list3`) and `<F>N_def` (operands of
N DIFFERENT types: the flat left-to-right nest of `flatMap`s the property demands).

A swapped operand, a wrong nesting, a dropped `Flatten`, a supplier called at the wrong place, or an edit to only one of
the four packages changes the translated definitions (or `divergent`) and exactly the theorems about the touched
functions (and the functions built on them) stop checking.

Exception list (functions of the generated files NOT tied here): none.
-/
namespace FpVerif.Spec.C01Gen
open FpVerif FpVerif.MonadFamily FpVerif.MonadGenPrelude FpVerif.Gen

variable {C : Type → Type} (o : MonadOps C)
variable {A B D R : Type}

-- X_monad.go: the functions of fixed arity ----------------------------------------------------------------------------

theorem Flatten_is_model (tta : C (C A)) : MonadGen.Flatten o tta = flatten o tta := rfl

theorem Map_is_model (m : C A) (f : A → GoM R) : MonadGen.Map o m f = map o m f := rfl

theorem Replace_is_model (s : C A) (b : R) : MonadGen.Replace o s b = replace o s b := rfl

theorem Map2_is_model (first : C A) (second : C B) (fab : A → B → GoM R) :
    MonadGen.Map2 o first second fab = map2 o first second fab := rfl

theorem Zip_is_model (first : C A) (second : C B) : MonadGen.Zip o first second = zip o first second := rfl

theorem Ap_is_model (tfab : C (A → GoM B)) (ta : C A) : MonadGen.Ap o tfab ta = ap o tfab ta := rfl

theorem Compose_is_model (f1 : A → C B) (f2 : B → C D) : MonadGen.Compose o f1 f2 = compose o f1 f2 := rfl

theorem Compose2_is_model (f1 : A → C B) (f2 : B → C D) : MonadGen.Compose2 o f1 f2 = compose o f1 f2 := rfl

/-- the supplier `ta` is called inside the continuation of `tfab`, nowhere else -/
theorem ApFunc_is_model (tfab : C (A → GoM B)) (ta : Unit → C A) : MonadGen.ApFunc o tfab ta = apFunc o tfab ta := rfl

theorem MapSeqLift_is_model (ta : C (List A)) (f : A → GoM B) : MonadGen.MapSeqLift o ta f = mapSeqLift o ta f := rfl

theorem MapSliceLift_is_model (ta : C (List A)) (f : A → GoM B) : MonadGen.MapSliceLift o ta f = mapSeqLift o ta f := rfl

/-- `Lift(fa)(ta) = Map(ta, fa)` -/
theorem Lift_is_model (fa : A → GoM R) : MonadGen.Lift o fa = fun ta => map o ta fa := rfl

theorem LiftA2_is_model (fab : A → B → GoM R) : MonadGen.LiftA2 o fab = liftA2 o fab := rfl

/-- `LiftM(fa)(ta) = Flatten(Map(ta, fa))`: `Map`'s plain-callback parameter is instantiated with `fa`, whose result is
    monadic; for a lawful package this is the model's reading. -/
theorem LiftM_is_model (L : o.Lawful) (fa : A → C R) (ta : C A) : MonadGen.LiftM o fa ta = MonadFamily.liftM o fa ta := by
  rw [C01.liftM_def o L]
  simp only [MonadGen.LiftM, MonadGen.Map, MonadGen.Flatten, composeSeq_def, L.seq_pure, L.left_id, L.assoc]

theorem LiftM2_is_model (L : o.Lawful) (fab : A → B → C R) (a : C A) (b : C B) :
    MonadGen.LiftM2 o fab a b = liftM2 o fab a b := by
  rw [C01.liftM2_def o L]
  simp only [MonadGen.LiftM2, MonadGen.Map2, MonadGen.Map, MonadGen.Flatten, composeSeq_def, L.seq_pure, L.left_id, L.assoc]

theorem FlatMap2_is_model (L : o.Lawful) (first : C A) (second : C B) (fab : A → B → C R) :
    MonadGen.FlatMap2 o first second fab = flatMap2 o first second fab := LiftM2_is_model o L fab first second

theorem Flap_is_model (tfa : C (A → GoM R)) : MonadGen.Flap o tfa = flap o tfa := rfl

theorem Flap2_is_model (tfab : C (A → GoM (B → GoM R))) : MonadGen.Flap2 o tfab = flap2 o tfab := rfl

theorem FlapMap_is_model (tfab : A → B → GoM R) (a : C A) : MonadGen.FlapMap o tfab a = flapMap o tfab a := rfl

/-- `FlatFlapMap(fab, ta) = fp.Compose(FlapMap(fab, ta), Flatten)` with `FlapMap`'s `R := M[R]` -/
theorem FlatFlapMap_is_model (L : o.Lawful) (fab : A → B → C R) (ta : C A) (b : B) :
    MonadGen.FlatFlapMap o fab ta b = flatFlapMap o fab ta b := by
  rw [C01.flatFlapMap_def o L]
  simp only [MonadGen.FlatFlapMap, MonadGen.FlapMap, MonadGen.Flap, MonadGen.Ap, MonadGen.Map, MonadGen.Flatten,
    composeC_def, composeSeq_def, curriedFunc2_def, L.seq_pure, L.left_id, L.assoc]

theorem Method1_is_model (ta : C A) (fab : A → B → GoM R) : MonadGen.Method1 o ta fab = method1 o ta fab := rfl

theorem FlatMethod1_is_model (L : o.Lawful) (ta : C A) (fab : A → B → C R) (b : B) :
    MonadGen.FlatMethod1 o ta fab b = flatMethod1 o ta fab b := FlatFlapMap_is_model o L fab ta b

theorem Method2_is_model (ta : C A) (fabc : A → B → D → GoM R) : MonadGen.Method2 o ta fabc = method2 o ta fabc := rfl

/-- `FlatMethod2 = Revert2(Compose2(Flap2(Map(ta, Func3(fabc))), Flatten))` with `Func3`'s `R := M[R]` -/
theorem FlatMethod2_is_model (L : o.Lawful) (ta : C A) (fabc : A → B → D → C R) (b : B) (c : D) :
    MonadGen.FlatMethod2 o ta fabc b c = flatMethod2 o ta fabc b c := by
  rw [C01.flatMethod2_def o L]
  simp only [MonadGen.FlatMethod2, MonadGen.Flap2, MonadGen.Flap, MonadGen.Ap, MonadGen.Map, MonadGen.Flatten, revert2_def,
    curriedCompose2_def, curriedFunc3_def, composeSeq_def, L.seq_pure, L.left_id, L.assoc]

theorem UnZip_is_model (t : C (A × B)) : MonadGen.UnZip o t = unzip o t := rfl

theorem With_is_model (withf : A → B → GoM A) (v : C B) : MonadGen.With o withf v = with_ o withf v := rfl

/-- `Zip3(ta, tb, tc) = LiftA3(product.Tuple3)(ta, tb, tc)` -/
theorem Zip3_is_model (ta tb tc : C A) :
    MonadGen.Zip3 o ta tb tc
      = liftAList o [ta, tb, tc] (fun xs => match xs with | [a, b, c] => Pure.pure (a, b, c) | _ => throw "arity") := rfl

theorem Zip3_def (ta : C A) (tb : C B) (tc : C D) :
    MonadGen.Zip3 o ta tb tc
      = o.flatMap ta (fun a => o.flatMap tb (fun b => o.flatMap tc (fun c => o.seq (Pure.pure (a, b, c)) o.pure'))) := rfl

-- the members of small arity also are instances of the arity-generic list models -------------------------------------------

theorem Map_is_liftAList (f : List A → GoM R) (m1 : C A) :
    MonadGen.Map o m1 (fun a1 => f [a1]) = liftAList o [m1] f := rfl

theorem Map2_is_liftAList (f : List A → GoM R) (m1 m2 : C A) :
    MonadGen.Map2 o m1 m2 (fun a1 a2 => f [a1, a2]) = liftAList o [m1, m2] f := rfl

theorem LiftA2_is_liftAList (f : List A → GoM R) (m1 m2 : C A) :
    MonadGen.LiftA2 o (fun a1 a2 => f [a1, a2]) m1 m2 = liftAList o [m1, m2] f := rfl

theorem LiftM2_def (L : o.Lawful) (fab : A → B → C R) (a : C A) (b : C B) :
    MonadGen.LiftM2 o fab a b = o.flatMap a (fun x => o.flatMap b (fun y => fab x y)) :=
  (LiftM2_is_model o L fab a b).trans (C01.liftM2_def o L fab a b)

theorem LiftM2_is_liftMList (L : o.Lawful) (f : List A → C R) (m1 m2 : C A) :
    MonadGen.LiftM2 o (fun a1 a2 => f [a1, a2]) m1 m2 = liftMList o [m1, m2] f := by
  rw [LiftM2_def o L]; rfl

theorem Flap_is_flapN (tf : C (A → GoM R)) (a1 : A) :
    flapN o 0 tf [a1] = map o (MonadGen.Flap o tf a1) (fun r => Pure.pure (some r)) := rfl

theorem Flap2_is_flapN (tf : C (A → GoM (A → GoM R))) (a1 a2 : A) :
    flapN o 1 tf [a1, a2] = map o (MonadGen.Flap2 o tf a1 a2) (fun r => Pure.pure (some r)) := rfl

theorem Compose2_is_composeList (f1 f2 : A → C A) : MonadGen.Compose2 o f1 f2 = composeList o [f1, f2] := rfl

/-- every N-ary callback on one type is a function of the argument list (shown for N = 3; the other arities alike), so the
    `_is_model` statements below lose nothing -/
theorem nary_as_list3 (g : A → A → A → GoM R) :
    (fun a1 a2 a3 => (fun xs => match xs with | [x1, x2, x3] => g x1 x2 x3 | _ => throw "arity") [a1, a2, a3]) = g := rfl
''')


def tys(n): return ' '.join(f'A{i}' for i in range(1, n + 1))
def avars(n, lo=1): return ' '.join(f'a{i}' for i in range(lo, n + 1))
def alist(n, lo=1): return '[' + ', '.join(f'a{i}' for i in range(lo, n + 1)) + ']'
def mvars(n): return ' '.join(f'm{i}' for i in range(1, n + 1))
def mlist(n): return '[' + ', '.join(f'm{i}' for i in range(1, n + 1)) + ']'
def mbinders(n): return ' '.join(f'(m{i} : C A{i})' for i in range(1, n + 1))
def fty(n, res): return ' → '.join([f'A{i}' for i in range(1, n + 1)] + [res])
def nest(n, inner):
    s = inner
    for i in range(n, 0, -1):
        s = f'o.flatMap m{i} (fun a{i} => {s})'
    return s
def cur(n, res='R'):   # A → GoM (A → GoM (… R))
    s = res
    for _ in range(n):
        s = f'A → GoM ({s})' if s != res else f'A → GoM {s}'
    return s

L.append(f'-- LiftA{LO}..{HI}, Map{LO}..{HI}: run the operands left to right, then call f once ' + '-' * 40)
for n in range(LO, HI + 1):
    L.append(f'theorem LiftA{n}_is_model (f : List A → GoM R) ({mvars(n)} : C A) :\n'
             f'    MonadGen.LiftA{n} o (fun {avars(n)} => f {alist(n)}) {mvars(n)} = liftAList o {mlist(n)} f := rfl')
    L.append(f'theorem LiftA{n}_def {{{tys(n)} : Type}} (f : {fty(n, "GoM R")}) {mbinders(n)} :\n'
             f'    MonadGen.LiftA{n} o f {mvars(n)}\n      = {nest(n, f"o.seq (f {avars(n)}) o.pure{chr(39)}")} := rfl')
    L.append(f'theorem Map{n}_is_model (f : List A → GoM R) ({mvars(n)} : C A) :\n'
             f'    MonadGen.Map{n} o {mvars(n)} (fun {avars(n)} => f {alist(n)}) = liftAList o {mlist(n)} f := rfl')
    L.append(f'theorem Map{n}_def {{{tys(n)} : Type}} (f : {fty(n, "GoM R")}) {mbinders(n)} :\n'
             f'    MonadGen.Map{n} o {mvars(n)} f\n      = {nest(n, f"o.seq (f {avars(n)}) o.pure{chr(39)}")} := rfl')
    L.append('')

L.append(f'-- LiftM{LO}..{HI}, FlatMap{LO}..{HI} (built on LiftM2 = Flatten(Map2(…)): lawful packages) ' + '-' * 30)
for n in range(LO, HI + 1):
    prev = 'LiftM2_def' if n == 3 else f'LiftM{n-1}_def'
    L.append(f'theorem LiftM{n}_def (L : o.Lawful) {{{tys(n)} : Type}} (f : {fty(n, "C R")}) {mbinders(n)} :\n'
             f'    MonadGen.LiftM{n} o f {mvars(n)}\n      = {nest(n, f"f {avars(n)}")} := by\n'
             f'  simp only [MonadGen.LiftM{n}, {prev} o L]')
    L.append(f'theorem LiftM{n}_is_model (L : o.Lawful) (f : List A → C R) ({mvars(n)} : C A) :\n'
             f'    MonadGen.LiftM{n} o (fun {avars(n)} => f {alist(n)}) {mvars(n)} = liftMList o {mlist(n)} f := by\n'
             f'  rw [LiftM{n}_def o L]; rfl')
    L.append(f'theorem FlatMap{n}_def (L : o.Lawful) {{{tys(n)} : Type}} (f : {fty(n, "C R")}) {mbinders(n)} :\n'
             f'    MonadGen.FlatMap{n} o {mvars(n)} f\n      = {nest(n, f"f {avars(n)}")} :=\n'
             f'  LiftM{n}_def o L f {mvars(n)}')
    L.append(f'theorem FlatMap{n}_is_model (L : o.Lawful) (f : List A → C R) ({mvars(n)} : C A) :\n'
             f'    MonadGen.FlatMap{n} o {mvars(n)} (fun {avars(n)} => f {alist(n)}) = liftMList o {mlist(n)} f :=\n'
             f'  LiftM{n}_is_model o L f {mvars(n)}')
    L.append('')

L.append(f'-- Flap{LO}..{HI}: FlapN(tf)(a1)…(aN) unwraps tf once per stage ' + '-' * 50)
for n in range(LO, HI + 1):
    L.append(f'theorem Flap{n}_is_model (tf : C ({cur(n)})) ({avars(n)} : A) :\n'
             f'    flapN o {n-1} tf {alist(n)} = map o (MonadGen.Flap{n} o tf {avars(n)}) (fun r => Pure.pure (some r)) := rfl')
L.append('')

L.append(f'-- Method{LO}..{HI}, FlatMethod{LO}..{HI} ' + '-' * 80)
for n in range(LO, HI + 1):
    rest = ' '.join(f'(a{i} : A{i})' for i in range(2, n + 1))
    L.append(f'theorem Method{n}_is_model (f : List A → GoM R) (ta : C A) ({avars(n, 2)} : A) :\n'
             f'    MonadGen.Method{n} o ta (fun {avars(n)} => f {alist(n)}) {avars(n, 2)} = methodN o ta f {alist(n, 2)} := rfl')
    L.append(f'theorem Method{n}_def {{{tys(n)} : Type}} (ta : C A1) (f : {fty(n, "GoM R")}) {rest} :\n'
             f'    MonadGen.Method{n} o ta f {avars(n, 2)} = o.flatMap ta (fun a1 => o.seq (f {avars(n)}) o.pure\') := rfl')
    L.append(f'theorem FlatMethod{n}_is_model (f : List A → C R) (ta : C A) ({avars(n, 2)} : A) :\n'
             f'    MonadGen.FlatMethod{n} o ta (fun {avars(n)} => f {alist(n)}) {avars(n, 2)} = flatMethodN o ta f {alist(n, 2)} := rfl')
    L.append(f'theorem FlatMethod{n}_def {{{tys(n)} : Type}} (ta : C A1) (f : {fty(n, "C R")}) {rest} :\n'
             f'    MonadGen.FlatMethod{n} o ta f {avars(n, 2)} = o.flatMap ta (fun a1 => f {avars(n)}) := rfl')
    L.append('')

L.append(f'-- Compose{CLO}..{CHI}: the left-to-right Kleisli chain ' + '-' * 60)
for n in range(CLO, CHI + 1):
    fs = ' '.join(f'f{i}' for i in range(1, n + 1))
    fl = '[' + ', '.join(f'f{i}' for i in range(1, n + 1)) + ']'
    L.append(f'theorem Compose{n}_is_model ({fs} : A → C A) : MonadGen.Compose{n} o {fs} = composeList o {fl} := rfl')
    tysn = ' '.join(f'A{i}' for i in range(1, n + 1))
    fb = ' '.join(f'(f{i} : A{i} → C A{i+1})' for i in range(1, n)) + f' (f{n} : A{n} → C R)'
    s = f'f{n}'
    for i in range(n - 1, 1, -1):
        s = f'(fun x{i} => o.flatMap (f{i} x{i}) {s})'
    L.append(f'theorem Compose{n}_def {{{tysn} : Type}} {fb} (a : A1) :\n'
             f'    MonadGen.Compose{n} o {fs} a = o.flatMap (f1 a) {s} := rfl')
L.append('')

fam_order = []
fixed1 = ['Flatten', 'Map', 'Replace', 'Map2', 'Zip', 'Ap', 'Compose', 'Compose2', 'ApFunc', 'MapSeqLift', 'MapSliceLift', 'Lift',
          'LiftA2', 'LiftM', 'LiftM2', 'FlatMap2', 'Flap', 'Flap2', 'FlapMap', 'FlatFlapMap', 'Method1', 'FlatMethod1', 'Method2',
          'FlatMethod2', 'UnZip', 'Zip3', 'With']
names = list(fixed1)
for n in range(LO, HI + 1):
    names += [f'{fam}{n}' for fam in ('LiftA', 'Map', 'LiftM', 'FlatMap', 'Flap', 'Method', 'FlatMethod')]
names += [f'Compose{n}' for n in range(CLO, CHI + 1)]
names += ['Traverse', 'TraverseSeq', 'TraverseSlice', 'TraverseFunc', 'TraverseSeqFunc', 'TraverseSliceFunc', 'FlatMapTraverseSeq',
          'FlatMapTraverseSlice', 'Sequence', 'SequenceIterator']
import re
def split(nm):
    m = re.match(r'^(.*?)(\d*)$', nm)
    return f'("{m.group(1)}", {m.group(2) or 0})'
exp = ', '.join(split(nm) for nm in names)

L.append(f'''-- X_traverse.go (over the package's own FoldM, a parameter as in the model) ------------------------------------------------

section traverse
variable (fm : FoldMFn C)

theorem TraverseSeq_is_model (sa : List A) (fa : A → C R) :
    MonadGen.TraverseSeq o fm sa fa = traverseSeq o fm sa fa := rfl

theorem Traverse_is_model (ia : List A) (fn : A → C R) : MonadGen.Traverse o fm ia fn = traverse o fm ia fn := rfl

theorem TraverseSlice_is_model (sa : List A) (fa : A → C R) :
    MonadGen.TraverseSlice o fm sa fa = traverse o fm sa fa := rfl

theorem TraverseFunc_is_model (far : A → C R) :
    MonadGen.TraverseFunc o fm far = fun ia => traverse o fm ia far := rfl

theorem TraverseSeqFunc_is_model (far : A → C R) :
    MonadGen.TraverseSeqFunc o fm far = fun sa => traverseSeq o fm sa far := rfl

theorem TraverseSliceFunc_is_model (far : A → C R) :
    MonadGen.TraverseSliceFunc o fm far = fun sa => traverse o fm sa far := rfl

theorem FlatMapTraverseSeq_is_model (ta : C (List A)) (f : A → C B) :
    MonadGen.FlatMapTraverseSeq o fm ta f = flatMapTraverseSeq o fm ta f := rfl

theorem FlatMapTraverseSlice_is_model (ta : C (List A)) (f : A → C B) :
    MonadGen.FlatMapTraverseSlice o fm ta f = o.flatMap ta (fun sa => traverse o fm sa f) := rfl

theorem Sequence_is_model (tsa : List (C A)) : MonadGen.Sequence o fm tsa = sequence o fm tsa := rfl

/-- C01 (traverse): with the FlatMap chain as FoldM, the translated TraverseSeq visits the elements in order and collects
    the results in order (transport of `C01.traverseSeq_snoc`) -/
theorem TraverseSeq_snoc (L : o.Lawful) (xs : List A) (x : A) (fa : A → C R) :
    MonadGen.TraverseSeq o (foldM o) (xs ++ [x]) fa
      = o.flatMap (MonadGen.TraverseSeq o (foldM o) xs fa) (fun acc => o.flatMap (fa x) (fun r => o.pure' (acc ++ [r]))) :=
  C01.traverseSeq_snoc o L xs x fa

theorem SequenceIterator_is_model (ita : List (C A)) : MonadGen.SequenceIterator o fm ita = sequence o fm ita := rfl

end traverse

-- coverage -----------------------------------------------------------------------------------------------------------------

/-- every function of the generated files was found and translated, and there is no function the theorems above do not
    speak about (family name, arity suffix; 0 = none; source order) -/
theorem all_functions_translated : MonadGen.functions = [{exp}] := by decide

/-- the four packages (option, either, statet, try) carry the same template: no function of any package is missing,
    untranslatable or different from the common translation -/
theorem no_divergence : MonadGen.divergent = [] := rfl

/-- nothing in the generated files is outside the translated fragment -/
theorem nothing_untranslatable : MonadGen.untranslatable = 0 := rfl

-- what the ties buy: the property theorems speak about the translated code ------------------------------------------------------

/-- C01: Map(m, f) = FlatMap(m, unit ∘ f) -/
theorem Map_def (m : C A) (f : A → GoM R) : MonadGen.Map o m f = o.flatMap m (fun a => o.seq (f a) o.pure') :=
  (Map_is_model o m f).trans (C01.map_def o m f)

/-- C01: Ap unwraps the function, then the argument, then applies -/
theorem Ap_def (tfab : C (A → GoM B)) (ta : C A) :
    MonadGen.Ap o tfab ta = o.flatMap tfab (fun fab => o.flatMap ta (fun a => o.seq (fab a) o.pure')) :=
  (Ap_is_model o tfab ta).trans (C01.ap_def o tfab ta)

/-- C01: LiftM(f)(ta) = FlatMap(ta, f) -/
theorem LiftM_def (L : o.Lawful) (fa : A → C R) (ta : C A) : MonadGen.LiftM o fa ta = o.flatMap ta fa :=
  (LiftM_is_model o L fa ta).trans (C01.liftM_def o L fa ta)

theorem FlatFlapMap_def (L : o.Lawful) (fab : A → B → C R) (ta : C A) (b : B) :
    MonadGen.FlatFlapMap o fab ta b = o.flatMap ta (fun x => fab x b) :=
  (FlatFlapMap_is_model o L fab ta b).trans (C01.flatFlapMap_def o L fab ta b)

theorem FlatMethod2_def (L : o.Lawful) (ta : C A) (fabc : A → B → D → C R) (b : B) (c : D) :
    MonadGen.FlatMethod2 o ta fabc b c = o.flatMap ta (fun x => fabc x b c) :=
  (FlatMethod2_is_model o L ta fabc b c).trans (C01.flatMethod2_def o L ta fabc b c)

theorem Method2_def (L : o.Lawful) (ta : C A) (fabc : A → B → D → GoM R) (b : B) (c : D) :
    MonadGen.Method2 o ta fabc b c = o.flatMap ta (fun x => o.seq (fabc x b c) o.pure') := by
  rw [Method2_is_model]; exact C01.method2_def o L ta fabc b c

/-- C02, any position, shown for LiftA4 with the THIRD operand failing: the result is what the operands before it leave
    followed by that failure; the fourth operand and the callback are absent (never run) -/
theorem LiftA4_short_circuit (z : ∀ β : Type, C β) (hz : ∀ (α β : Type) (k : α → C β), o.flatMap (z α) k = z β)
    (m1 m2 m4 : C A) (f : List A → GoM R) :
    MonadGen.LiftA4 o (fun a1 a2 a3 a4 => f [a1, a2, a3, a4]) m1 m2 (z A) m4 = bindAll o [m1, m2] (fun _ => z R) := by
  rw [LiftA4_is_model]; exact C02.liftAList_short_circuit o z hz [m1, m2] [m4] f

/-- the same for operands of different types (Map3, second operand failing) -/
theorem Map3_short_circuit {{A1 A2 A3 : Type}} (z : ∀ β : Type, C β)
    (hz : ∀ (α β : Type) (k : α → C β), o.flatMap (z α) k = z β) (m1 : C A1) (m3 : C A3) (f : A1 → A2 → A3 → GoM R) :
    MonadGen.Map3 o m1 (z A2) m3 f = o.flatMap m1 (fun _ => z R) := by
  rw [Map3_def]; simp only [hz]

/-- … instantiated for Try: the failure of the second operand IS the result; the third operand and `f` did not run -/
theorem try_Map3_first_failure {{A1 A2 A3 : Type}} (e : Err) (he : e ≠ .nil) (a1 : A1) (m3 : GoM (Try A3))
    (f : A1 → A2 → A3 → GoM R) :
    MonadGen.Map3 TryM.ops (pure (.success a1)) (pure (.failure e) : GoM (Try A2)) m3 f = pure (.failure e) := by
  rw [Map3_short_circuit TryM.ops (fun _ => pure (.failure e)) (C02.try_failure_absorbing e he)]
  simp [TryM.ops, TryM.flatMap]

/-- C02: when the function operand of ApFunc fails the supplier is never called -/
theorem try_ApFunc_failure (e : Err) (he : e ≠ .nil) (ta : Unit → GoM (Try A)) :
    MonadGen.ApFunc TryM.ops (pure (.failure e) : GoM (Try (A → GoM B))) ta = pure (.failure e) := by
  rw [ApFunc_is_model]; exact C02.try_apFunc_failure e he ta

theorem option_ApFunc_none (ta : Unit → GoM (Option A)) :
    MonadGen.ApFunc OptM.ops (pure none : GoM (Option (A → GoM B))) ta = pure none := by
  rw [ApFunc_is_model]; exact C02.option_apFunc_none ta

-- C17: the translated state_monad.go at the StateT operations -----------------------------------------------------------------

section statet
variable {{S : Type}}

/-- the generated `statet.Map` is the hand-written model `StM.map` about which `Spec/C17` speaks -/
theorem statet_Map_eq (m : StM.StT S A) (f : A → GoM B) : MonadGen.Map (StM.ops S) m f = StM.map m f := by
  funext s
  simp only [MonadGen.Map, composeSeq_def, StM.ops, StM.map, StM.flatMap]
  congr 1; funext x
  rcases x with ⟨r, ns⟩
  cases r <;> simp

/-- C17 (failure): when the operand fails, `Map`'s callback is not run and the state reported is the state at the point
    of failure -/
theorem statet_Map_failure (st : StM.StT S A) (f : A → GoM B) (s ns : S) (e : Err) (he : e ≠ .nil)
    (h : st s = Pure.pure (.failure e, ns)) : MonadGen.Map (StM.ops S) st f s = Pure.pure (.failure e, ns) := by
  rw [statet_Map_eq, C17.map_def]; exact C17.flatMap_failure st _ s ns e he h

/-- C17 / C01: `statet.LiftM(f)(ta) = FlatMap(ta, f)` for the translated code -/
theorem statet_LiftM_def (fa : A → StM.StT S R) (ta : StM.StT S A) :
    MonadGen.LiftM (StM.ops S) fa ta = StM.flatMap ta (fun a => Pure.pure (fa a)) :=
  LiftM_def (StM.ops S) C01.statet_lawful fa ta

/-- C17: Map2 threads the state left to right: `second` starts from the state `first` left -/
theorem statet_Map2_def (first : StM.StT S A) (second : StM.StT S B) (fab : A → B → GoM R) :
    MonadGen.Map2 (StM.ops S) first second fab
      = StM.flatMap first (fun a => Pure.pure (StM.flatMap second (fun b => Pure.pure (fun s => do let r ← fab a b; StM.pure r s)))) := rfl

end statet

-- the hypotheses are satisfiable: the four packages are lawful, and their failures are absorbing ------------------------------

example : (OptM.ops).Lawful := C01.option_lawful
example : (TryM.ops).Lawful := C01.try_lawful
example {{Lf : Type}} : (EitM.ops Lf).Lawful := C01.either_lawful
example {{S : Type}} : (StM.ops S).Lawful := C01.statet_lawful
example : ∀ (α β : Type) (k : α → GoM (Option β)), (OptM.ops).flatMap (pure none) k = pure none := C02.option_none_absorbing

end FpVerif.Spec.C01Gen''')
open(out, 'w').write('\n'.join(L) + '\n')
print(out)
