#!/usr/bin/env python3
"""Hand mutations for FUTTIE: apply each to WS/repo, run fut2lean + lake build of Spec.C06Gen, report the theorems that
   stop checking, revert.  Usage: bin/futgen_mutations.py [name ...]"""
import os, re, subprocess, sys, json
ws = os.path.dirname(os.path.dirname(os.path.abspath(__file__)))
OP = os.path.join(ws, 'repo/future/future_op.go'); FG = os.path.join(ws, 'repo/future/func_gen.go')
M = [
 ('M1 Map2 binds the SECOND operand first', OP,
  'return FlatMap(a, func(v1 A) fp.Future[U] {\n\t\treturn Map(b, func(v2 B) U {',
  'return FlatMap(b, func(v2 B) fp.Future[U] {\n\t\treturn Map(a, func(v1 A) U {'),
 ('M2 LiftA3 via the wrong nesting (binds ins2 first, LiftA2 over ins1, ins3)', FG,
  '''		return FlatMap(ins1, func(a1 A1) fp.Future[R] {
			return LiftA2(func(a2 A2, a3 A3) R {
				return f(a1, a2, a3)
			}, exec...)(ins2, ins3)''',
  '''		return FlatMap(ins2, func(a2 A2) fp.Future[R] {
			return LiftA2(func(a1 A1, a3 A3) R {
				return f(a1, a2, a3)
			}, exec...)(ins1, ins3)'''),
 ('M3 Zip swaps the pair', OP, 'return Map2(c1, c2, product.Tuple2[A, B])',
  'return Map2(c2, c1, func(b B, a A) fp.Tuple2[A, B] { return product.Tuple2(a, b) })'),
 ('M4 Sequence folds right-to-left (accumulator is the inner operand)', OP,
  'ret := iterator.Fold(iterator.FromSlice(futureList), Successful(seq.Empty[T]()), LiftA2(fp.Seq[T].Add, ctx...))\n\treturn Map(ret, fp.Seq[T].Widen, ctx...)',
  'ret := iterator.Fold(iterator.FromSlice(futureList), Successful(seq.Empty[T]()), func(acc fp.Future[fp.Seq[T]], p fp.Future[T]) fp.Future[fp.Seq[T]] {\n\t\treturn Map2(p, acc, func(x T, xs fp.Seq[T]) fp.Seq[T] { return xs.Add(x) }, ctx...)\n\t})\n\treturn Map(ret, fp.Seq[T].Widen, ctx...)'),
 ('M5 Ap binds the ARGUMENT future before the function future', OP,
  '''	return FlatMap(t, func(f fp.Func1[T, U]) fp.Future[U] {
		return Map(a, f, ctx...)
	}, ctx...)
}

func ApFunc''',
  '''	return FlatMap(a, func(x T) fp.Future[U] {
		return Map(t, func(f fp.Func1[T, U]) U { return f(x) }, ctx...)
	}, ctx...)
}

func ApFunc'''),
 ('M6 Map2 drops ctx on the inner Map', OP,
  '''			return f(v1, v2)
		}, ctx...)
	}, ctx...)''', '''			return f(v1, v2)
		})
	}, ctx...)'''),
 ('M7 LiftM drops the Flatten/Map pair (LiftM = FlatMap)', OP, 'return Flatten(Map(ta, fa, ctx...))', 'return FlatMap(ta, fa, ctx...)'),
 ('M8 traverse passes ctx to FoldFuture', OP, '''		return Map(fn(v), acc.Add, ctx...)
	})''', '''		return Map(fn(v), acc.Add, ctx...)
	}, ctx...)'''),
 ('M9 Compose4 re-ordered (f2 and f3 swapped types permitting: Compose2(f1, Compose3(f3, f2, f4)))', FG,
  'return Compose2(f1, Compose3(f2, f3, f4, exec...), exec...)', 'return Compose2(f1, Compose3(f3, f2, f4, exec...), exec...)'),
 ('M10 Method3 maps with the default executor', FG, '''			return fa1(a1, a2, a3)
		}, exec...)
	}
}

func FlatMethod3''', '''			return fa1(a1, a2, a3)
		})
	}
}

func FlatMethod3'''),
 ('M11 a new derived function is added', OP, 'func Zip3[', 'func ZipRev[A, B any](c1 fp.Future[A], c2 fp.Future[B]) fp.Future[fp.Tuple2[B, A]] {\n\treturn Map2(c2, c1, product.Tuple2[B, A])\n}\n\nfunc Zip3['),
 ('M12 ComposeTry calls f1 inside a task (FlatMap over Successful(a))', OP,
  'return FlatMap(FromTry(f1(a)), f2, ctx...)', 'return FlatMap(FlatMap(Successful(a), func(x A) fp.Future[B] { return FromTry(f1(x)) }, ctx...), f2, ctx...)'),
 ('H1 harmless: Lift body re-formatted, parameter renamed', OP, 'return func(opt fp.Future[T]) fp.Future[U] {\n\t\treturn Map(opt, f, ctx...)', 'return func(o fp.Future[T]) fp.Future[U] {\n\n\t\treturn (Map(o, f, ctx...))'),
 ('H2 harmless: Zip written with a function literal instead of product.Tuple2', OP, 'return Map2(c1, c2, product.Tuple2[A, B])',
  'return Map2(c1, c2, func(a A, b B) fp.Tuple2[A, B] { return product.Tuple2(a, b) })'),
 ('H3 harmless: Sequence without the temporary', OP,
  'ret := iterator.Fold(iterator.FromSlice(futureList), Successful(seq.Empty[T]()), LiftA2(fp.Seq[T].Add, ctx...))\n\treturn Map(ret, fp.Seq[T].Widen, ctx...)',
  'return Map(iterator.Fold(iterator.FromSlice(futureList), Successful(seq.Empty[T]()), LiftA2(fp.Seq[T].Add, ctx...)), fp.Seq[T].Widen, ctx...)'),
]
env = dict(os.environ, GOFLAGS='-mod=mod', GOPROXY='off', GOSUMDB='off', GOTOOLCHAIN='local')
def check():
    gen = os.path.join(ws, 'lean/FpVerif/Gen/FutGen.lean')
    p = subprocess.run(['/tmp/futtie-scratch/fut2lean', os.path.join(ws, 'repo'), gen], stdout=subprocess.PIPE, stderr=subprocess.STDOUT, text=True)
    if p.returncode != 0:
        return dict(translator='FAILED: ' + p.stdout[-300:])
    info = json.loads(p.stdout.strip().split('\n')[-1])
    q = subprocess.run(['lake', 'build', 'FpVerif.Spec.C06Gen'], cwd=os.path.join(ws, 'lean'), stdout=subprocess.PIPE, stderr=subprocess.STDOUT, text=True)
    src = open(os.path.join(ws, 'lean/FpVerif/Spec/C06Gen.lean')).read().split('\n')
    failing = []
    for m in re.finditer(r'error: (FpVerif/\S+?\.lean):(\d+):', q.stdout):
        if 'C06Gen' in m.group(1):
            ln = int(m.group(2))
            for i in range(ln - 1, -1, -1):
                mm = re.match(r'(theorem|example)\s*(\S*)', src[i])
                if mm:
                    nm = mm.group(2) or 'example'
                    if nm not in failing: failing.append(nm)
                    break
        else:
            failing.append('GEN:' + m.group(1) + ':' + m.group(2))
    return dict(untranslatable={k: v[:90] for k, v in info['untranslatable'].items() if k not in
                ['Flap','With','Chain1','Applicative1','Await','getExecutor'] + ['Flap%d' % i for i in range(2, 10)]},
                build='ok' if q.returncode == 0 else 'FAILS', failing=failing)
res = {}
for name, path, old, new in M:
    if len(sys.argv) > 1 and not any(name.startswith(a) for a in sys.argv[1:]):
        continue
    s = open(path).read()
    if s.count(old) != 1:
        res[name] = 'PATTERN NOT FOUND (%d)' % s.count(old); print(name, res[name]); continue
    open(path, 'w').write(s.replace(old, new))
    try:
        g = subprocess.run(['go', 'build', './future/'], cwd=os.path.join(ws, 'repo'), env=env, stdout=subprocess.PIPE, stderr=subprocess.STDOUT, text=True)
        r = check(); r['go_build'] = 'ok' if g.returncode == 0 else g.stdout[-200:]
    finally:
        open(path, 'w').write(s)
    res[name] = r
    print(name, json.dumps(r)[:900]); sys.stdout.flush()
r = check(); print('BASELINE after revert', json.dumps(r)[:300])
json.dump(res, open(os.path.join(ws, 'futgen-mutations.json'), 'w'), indent=1)
