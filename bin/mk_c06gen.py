#!/usr/bin/env python3
"""Writes lean/FpVerif/Spec/C06Gen.lean (committed text; run once).  The expected coverage table is read from the
   CURRENT generated Gen/FutGen.lean of an unmodified tree and frozen into the Spec text."""
import re, sys, os
ws = os.path.dirname(os.path.dirname(os.path.abspath(__file__)))
gen = open(os.path.join(ws, 'lean/FpVerif/Gen/FutGen.lean')).read()
m = re.search(r'def functions : List \(String × String\) := \[\n(.*?)\n\]', gen, re.S)
functions = m.group(1)
m = re.search(r'def untranslatable : List \(String × String\) := \[\n(.*?)\n\]', gen, re.S)
untr = re.findall(r'\("([^"]+)", ', m.group(1))
m = re.search(r'def variants : List String := \[(.*?)\]', gen)
variants = m.group(1)

def vs(p, lo, hi): return ' '.join(f'{p}{i}' for i in range(lo, hi + 1))
def lst(p, lo, hi): return '[' + ', '.join(f'{p}{i}' for i in range(lo, hi + 1)) + ']'

out = []
w = out.append
w('''import FpVerif.Gen.FutGen
import FpVerif.Spec.C06
import FpVerif.Spec.C14Fut
import FpVerif.Model.FutureMisc
/-!
# Tie A for the DERIVED future combinators (C06, C14) — work package FUTTIE

`Gen/FutGen.lean` is REGENERATED on every check by `harness/cmd/fut2lean` from the working tree's
`future/future_op.go` and `future/func_gen.go`: every function whose body is a composition of other combinators
becomes an `FExpr`-building Lean definition of the same structure.  This file (committed text) proves that each
translated definition IS the model's derived program (`Model/Future.lean`, `Model/FutureChain.lean`,
`Model/FutureMisc.lean`) — by `rfl`, up to the model's encoding of closures (an n-ary user callback is
`fun c a1 … an => f c [a1, …, an]`; the executor a callback runs on is its first argument) — and transports the
left-to-right short-circuit theorems of `Spec/C06.lean` / `Spec/C14Fut.lean` to the translated definitions.
A change of the Go source that changes the structure (operand order, nesting, which executor is passed on) makes
the corresponding theorem below stop checking; a new / removed / reclassified function makes `coverage` fail.
-/
namespace FpVerif.Spec.C06Gen
open FpVerif FpVerif.Fut FpVerif.Gen.FutGen FpVerif.FutGenPrelude FpVerif.Spec.C06

-- coverage ----------------------------------------------------------------------------------------------------

/-- every function declaration of the two files, with its class: `primitive` (written with `promise.New` /
    `OnComplete`; the `FExpr` constructors, tied by the Tie C skeletons `Spec/C06Facts.lean` and the future harness;
    `FromTry` / `FromOption` are the two-way branches the model reads as `fromTry` / `fromOption`), `translated`,
    `method` (the builder structs `MonadChain1` / `ApplicativeFunctor1`: struct-of-handles state, modelled at Net level
    by `chainStep` / `applicativeStep`, tied by the future harness), `untranslatable` (= the explicit exceptions below) -/
def expectedFunctions : List (String × String) := [
''' + functions + '''
]

/-- the explicit exceptions: `Flap`, `Flap2..9`, `With` build `Successful(a)` and hand its HANDLE to `Ap`, whose inner
    task captures it — a let-bound handle, which an `FExpr` cannot express (the model has them as Net-level programs
    `flapRun` / `withRun`; tied by the future harness); `Chain1` / `Applicative1` return builder structs; `Await` blocks on a
    channel; `getExecutor` is executor selection. -/
def expectedExceptions : List String := [''' + ', '.join(f'"{u}"' for u in untr) + ''']

theorem coverage : functions = expectedFunctions := by decide
theorem exceptions_are_the_expected : untranslatable.map (·.1) = expectedExceptions := by decide
theorem variants_are_the_expected : variants = [''' + variants + '''] := by decide
theorem class_partition : functions.all (fun p => p.2 == "primitive" || p.2 == "translated" || p.2 == "method" || p.2 == "untranslatable") = true := by decide
theorem translated_count : (functions.filter (·.2 == "translated")).length = ''' + str(functions.count('"translated"')) + ''' := by decide

-- future_op.go: fixed arity -------------------------------------------------------------------------------------------

theorem Map_is_model (e : FExpr) (f : Ex → Val → W Val) (c cur : Ex) : Map e f c cur = Fut.map e (f c) := rfl
theorem Map2_is_model (a b : Nat) (f : Ex → Val → Val → W Val) (c cur : Ex) :
    Map2 (.ref a) b f c cur = Fut.map2 a b (f c) := rfl
theorem Zip_is_model (a b : Nat) (cur : Ex) : Zip (.ref a) b cur = Fut.zip a b := rfl
theorem Zip_is_zipN (a b : Nat) (cur : Ex) : Zip (.ref a) b cur = zipN [a, b] := rfl
theorem Zip3_is_model (a b c : Nat) (cur : Ex) : Zip3 (.ref a) b c cur = zipN [a, b, c] := rfl
theorem Ap_is_model (app : Ex → Val → Val → W Val) (t a : Nat) (c cur : Ex) : Ap app (.ref t) a c cur = Fut.ap app t a c := rfl
theorem ApFunc_is_model (app : Ex → Val → Val → W Val) (t : Nat) (a : Ex → FExpr) (c cur : Ex) :
    ApFunc app (.ref t) a c cur = Fut.apFunc app t a c := rfl
theorem Replace_is_model (ta : Nat) (b : Val) (cur : Ex) : Replace (.ref ta) b cur = Fut.replace ta b := rfl
theorem Flatten_is_model (e : FExpr) (cur : Ex) : Flatten e cur = Fut.flatten e := rfl
theorem Lift_is_model (f : NFn) (c cur0 cur : Ex) (p : Nat) :
    Lift (fun c a => f c [a]) c cur0 cur (.ref p) = liftA f c [p] := rfl
theorem LiftA2_is_model (f : NFn) (c cur0 cur : Ex) (p1 p2 : Nat) :
    LiftA2 (fun c a1 a2 => f c [a1, a2]) c cur0 cur (.ref p1) p2 = liftA f c [p1, p2] := rfl
theorem LiftA2_is_map2 (f : Ex → Val → Val → W Val) (c cur0 cur : Ex) (p1 p2 : Nat) :
    LiftA2 f c cur0 cur (.ref p1) p2 = Fut.map2 p1 p2 (f c) := rfl
theorem LiftM_is_model (fa : Ex → Val → FExpr) (c cur0 cur : Ex) (ta : Nat) :
    LiftM fa c cur0 cur (.ref ta) = Fut.liftM (fa c) ta := rfl
theorem LiftM_is_liftMN (f : Ex → List Val → FExpr) (c cur0 cur : Ex) (p : Nat) :
    LiftM (fun c a => f c [a]) c cur0 cur (.ref p) = liftMN f c [p] := rfl
theorem LiftM2_is_model (f : Ex → List Val → FExpr) (c cur0 cur : Ex) (p1 p2 : Nat) :
    LiftM2 (fun c a1 a2 => f c [a1, a2]) c cur0 cur (.ref p1) p2 = liftMN f c [p1, p2] := rfl
theorem Compose_is_model (f1 f2 : Ex → Val → FExpr) (c cur0 cur : Ex) (a : Val) :
    Compose f1 f2 c cur0 cur a = Fut.compose (f1 cur) (f2 c) a := rfl
theorem Compose_is_composeN (f1 f2 : Ex → Val → FExpr) (c cur0 cur : Ex) (a : Val) :
    Compose f1 f2 c cur0 cur a = composeN c [f1, f2] cur a := rfl
theorem Compose2_is_model (f1 f2 : Ex → Val → FExpr) (c cur0 cur : Ex) (a : Val) :
    Compose2 f1 f2 c cur0 cur a = composeN c [f1, f2] cur a := rfl
/-- the first function runs in the caller (`.s`) -/
theorem ComposeTry_is_model (f1 : Ex → Val → W (Try Val)) (f2 : Ex → Val → FExpr) (c cur0 : Ex) (a : Val) :
    ComposeTry f1 f2 c cur0 .s a = composeTry f1 f2 c a := rfl
theorem ComposeOption_is_model (f1 : Ex → Val → W (Option Val)) (f2 : Ex → Val → FExpr) (c cur0 : Ex) (a : Val) :
    ComposeOption f1 f2 c cur0 .s a = composeOption f1 f2 c a := rfl
theorem ComposePure_is_model (f : Ex → Val → W Val) (c cur0 : Ex) (a : Val) :
    ComposePure f c cur0 .s a = composePure f a := rfl
theorem MapSeqLift_is_model (ta : FExpr) (f : Ex → Val → W Val) (c cur : Ex) : MapSeqLift ta f c cur = mapSeqLift ta f c := rfl
theorem MapSliceLift_is_model (ta : FExpr) (f : Ex → Val → W Val) (c cur : Ex) : MapSliceLift ta f c cur = mapSeqLift ta f c := rfl
theorem FlapMap_is_model (ta : Nat) (f : NFn) (c cur0 cur : Ex) (b : Val) :
    FlapMap (fun c a b => f c [a, b]) (.ref ta) c cur0 cur b = methodN ta f c [b] := rfl
theorem Method1_is_model (ta : Nat) (f : NFn) (c cur0 cur : Ex) (b : Val) :
    Method1 ta (fun c a b => f c [a, b]) c cur0 cur b = methodN ta f c [b] := rfl
theorem Method2_is_model (ta : Nat) (f : NFn) (c cur0 cur : Ex) (b d : Val) :
    Method2 (.ref ta) (fun c a b d => f c [a, b, d]) c cur0 cur b d = methodN ta f c [b, d] := rfl
/-- `FlatFlapMap = fp.Compose(FlapMap(fab, ta, ctx...), Flatten)`: a future of a future -/
theorem FlatFlapMap_is_model (ta : Nat) (f : Ex → List Val → FExpr) (c cur0 cur : Ex) (b : Val) :
    FlatFlapMap (fun c a b => f c [a, b]) ta c cur0 cur b = flatMethodN 1 ta f c [b] := rfl
theorem FlatMethod1_is_model (ta : Nat) (f : Ex → List Val → FExpr) (c cur0 cur : Ex) (b : Val) :
    FlatMethod1 ta (fun c a b => f c [a, b]) c cur0 cur b = flatMethodN 1 ta f c [b] := rfl
/-- the hand-written `FlatMethod2` passes NO executor on (whatever `c`) -/
theorem FlatMethod2_is_model (ta : Nat) (f : Ex → List Val → FExpr) (c cur0 cur : Ex) (b d : Val) :
    FlatMethod2 (.ref ta) (fun c a b d => f c [a, b, d]) cur0 cur b d = flatMethodN 2 ta f c [b, d] := rfl
theorem Func0_is_model (f : Ex → List Val → W (Try Val)) (c cur0 cur : Ex) (u : Val) :
    Func0 (fun c => f c []) c cur0 cur u = func0 f c := rfl

-- Sequence / Traverse: the folds -----------------------------------------------------------------------------------------

theorem foldFuts_is_sequenceAcc (c cur : Ex) (ps : List Nat) (acc : FExpr) :
    foldFuts (fun acc p => LiftA2 (fun _ xs x => (snocV xs x, [])) c cur cur acc p) ps acc = sequenceAcc ps acc := by
  induction ps generalizing acc with
  | nil => rfl
  | cons p ps ih => exact ih _

/-- `Sequence` folds LEFT-to-right: the accumulator is the outer `FlatMap`, each future the inner `Map` -/
theorem Sequence_is_model (ps : List Nat) (c cur : Ex) : Sequence ps c cur = Fut.sequence ps := by
  simp only [Sequence, foldFuts_is_sequenceAcc]; rfl
theorem SequenceIterator_is_model (ps : List Nat) (c cur : Ex) : SequenceIterator ps c cur = Fut.sequence ps := by
  simp only [SequenceIterator, foldFuts_is_sequenceAcc]; rfl

theorem foldFutureAcc_is_traverseAcc (fn : Ex → Val → FExpr) (c : Ex) (xs : List Val) (acc : FExpr) :
    foldFutureAcc (fun acc v => Map (fn .d v) (fun _ x => (snocV acc x, [])) c .d) xs acc = traverseAcc (fn .d) xs acc := by
  induction xs generalizing acc with
  | nil => rfl
  | cons v vs ih => exact ih _

/-- `traverse` calls `iterator.FoldFuture` WITHOUT `ctx`: the user function runs on the default executor -/
theorem traverse_is_model (xs : List Val) (fn : Ex → Val → FExpr) (c cur : Ex) :
    traverse (.seq xs) fn c cur = traverseSeq xs (fn .d) := by
  simp only [traverse, foldFuture, elems, foldFutureAcc_is_traverseAcc]; rfl
theorem TraverseSeq_is_model (xs : List Val) (fn : Ex → Val → FExpr) (c cur : Ex) :
    TraverseSeq (.seq xs) fn c cur = traverseSeq xs (fn .d) := traverse_is_model xs fn c cur
theorem TraverseSeq_elems (xs : Val) (fn : Ex → Val → FExpr) (c cur : Ex) :
    TraverseSeq xs fn c cur = traverseSeq (elems xs) (fn .d) := by
  simp only [TraverseSeq, traverse, foldFuture, foldFutureAcc_is_traverseAcc]; rfl
theorem TraverseSeqFunc_is_model (xs : List Val) (fn : Ex → Val → FExpr) (c cur0 cur : Ex) :
    TraverseSeqFunc fn c cur0 cur (.seq xs) = traverseSeq xs (fn .d) := traverse_is_model xs fn c cur
theorem Traverse_is_model (xs : List Val) (fn : Ex → Val → FExpr) (c cur : Ex) :
    Traverse (.seq xs) fn c cur = traverseFunc (fn .d) xs := by
  simp only [Traverse, traverse_is_model]; rfl
theorem TraverseFunc_is_model (xs : List Val) (fn : Ex → Val → FExpr) (c cur0 cur : Ex) :
    TraverseFunc fn c cur0 cur (.seq xs) = traverseFunc (fn .d) xs := Traverse_is_model xs fn c cur
theorem TraverseSlice_is_model (xs : List Val) (fn : Ex → Val → FExpr) (c cur : Ex) :
    TraverseSlice (.seq xs) fn c cur = Fut.map (traverseSeq xs (fn .d)) (fun l => (l, [])) := by
  simp only [TraverseSlice, traverse_is_model]; rfl
theorem TraverseSlice_elems (xs : Val) (fn : Ex → Val → FExpr) (c cur : Ex) :
    TraverseSlice xs fn c cur = Fut.map (traverseSeq (elems xs) (fn .d)) (fun l => (l, [])) := by
  simp only [TraverseSlice, traverse, foldFuture, foldFutureAcc_is_traverseAcc]; rfl
theorem TraverseSliceFunc_is_model (xs : List Val) (fn : Ex → Val → FExpr) (c cur0 cur : Ex) :
    TraverseSliceFunc fn c cur0 cur (.seq xs) = Fut.map (traverseSeq xs (fn .d)) (fun l => (l, [])) :=
  TraverseSlice_is_model xs fn c cur
theorem FlatMapTraverseSeq_is_model (ta : FExpr) (f : Ex → Val → FExpr) (c cur : Ex) :
    FlatMapTraverseSeq ta f c cur = flatMapTraverseSeq ta (f .d) := by
  show FExpr.flatMap ta (fun xs => TraverseSeq xs f c c) = _
  simp only [TraverseSeq_elems]; rfl
theorem FlatMapTraverseSlice_is_model (ta : FExpr) (f : Ex → Val → FExpr) (c cur : Ex) :
    FlatMapTraverseSlice ta f c cur
      = .flatMap ta (fun xs => Fut.map (traverseSeq (elems xs) (f .d)) (fun l => (l, []))) := by
  show FExpr.flatMap ta (fun xs => TraverseSlice xs f c c) = _
  simp only [TraverseSlice_elems]

-- func_gen.go: per arity ---------------------------------------------------------------------------------------------------
''')
for n in range(3, 10):
    a = vs('a', 1, n); al = lst('a', 1, n); p2 = vs('p', 2, n); pl = lst('p', 1, n)
    r = vs('a', 2, n); rl = lst('a', 2, n)
    w(f'''theorem LiftA{n}_is_model (f : NFn) (c cur0 cur : Ex) ({vs('p',1,n)} : Nat) :
    LiftA{n} (fun c {a} => f c {al}) c cur0 cur (.ref p1) {p2} = liftA f c {pl} := rfl
theorem LiftM{n}_is_model (f : Ex → List Val → FExpr) (c cur0 cur : Ex) ({vs('p',1,n)} : Nat) :
    LiftM{n} (fun c {a} => f c {al}) c cur0 cur (.ref p1) {p2} = liftMN f c {pl} := rfl
theorem Method{n}_is_model (ta : Nat) (f : NFn) (c cur0 cur : Ex) ({r} : Val) :
    Method{n} (.ref ta) (fun c {a} => f c {al}) c cur0 cur {r} = methodN ta f c {rl} := rfl
theorem FlatMethod{n}_is_model (ta : Nat) (f : Ex → List Val → FExpr) (c cur0 cur : Ex) ({r} : Val) :
    FlatMethod{n} (.ref ta) (fun c {a} => f c {al}) c cur0 cur {r} = flatMethodN {n} ta f c {rl} := rfl
''')
for n in range(1, 10):
    a = vs('a', 1, n); al = lst('a', 1, n)
    w(f'''/-- `Func{n}` / `Unit{n}` do NOT pass `exec` on: the task runs on the default executor -/
theorem Func{n}_is_model (f : Ex → List Val → W (Try Val)) (c cur0 cur : Ex) ({a} : Val) :
    Func{n} (fun c {a} => f c {al}) c cur0 cur {a} = funcN f {al} := rfl
theorem Unit{n}_is_model (f : Ex → List Val → W (Try Val)) (c cur0 cur : Ex) ({a} : Val) :
    Unit{n} (fun c {a} => f c {al}) c cur0 cur {a} = funcN f {al} := rfl
''')
for n in range(3, 6):
    w(f'''theorem Compose{n}_is_model ({vs('f',1,n)} : Ex → Val → FExpr) (c cur0 cur : Ex) (a : Val) :
    Compose{n} {vs('f',1,n)} c cur0 cur a = composeN c {lst('f',1,n)} cur a := rfl
''')
w('''-- transported theorems: left-to-right short circuit ------------------------------------------------------------------------

abbrev TV := Option (Try Val)

/-- `Map2`: a failed FIRST operand is the result whatever the second is (C06 `evalS_map2_first_failure`) -/
theorem Map2_first_failure (σ : Nat → TV) (a b : Nat) (f : Ex → Val → Val → W Val) (c cur : Ex) (e : Err)
    (h : σ a = some (.failure e)) : evalS σ (Map2 (.ref a) b f c cur) = some (.failure e) :=
  evalS_map2_first_failure σ a b (f c) e h
theorem Map2_pending (σ : Nat → TV) (a b : Nat) (f : Ex → Val → Val → W Val) (c cur : Ex)
    (h : σ a = none) : evalS σ (Map2 (.ref a) b f c cur) = none :=
  evalS_map2_pending σ a b (f c) h
theorem Map2_denotation (σ : Nat → TV) (a b : Nat) (f : Ex → Val → Val → W Val) (c cur : Ex) :
    evalS σ (Map2 (.ref a) b f c cur) = bindOk (σ a) (fun x => bindOk (σ b) (fun y => some (.success (f c x y).1))) :=
  evalS_map2 σ a b (f c)
/-- `Zip` pairs in operand order -/
theorem Zip_denotation (σ : Nat → TV) (a b : Nat) (cur : Ex) :
    evalS σ (Zip (.ref a) b cur) = bindOk (σ a) (fun x => bindOk (σ b) (fun y => some (.success (.tup [x, y])))) :=
  evalS_map2 σ a b (fun x y => (Val.tup [x, y], []))
theorem Zip_first_failure (σ : Nat → TV) (a b : Nat) (cur : Ex) (e : Err) (h : σ a = some (.failure e)) :
    evalS σ (Zip (.ref a) b cur) = some (.failure e) :=
  evalS_map2_first_failure σ a b (fun x y => (Val.tup [x, y], [])) e h
/-- `Ap`: the FUNCTION future is bound first -/
theorem Ap_function_failure (σ : Nat → TV) (app : Ex → Val → Val → W Val) (t a : Nat) (c cur : Ex) (e : Err)
    (h : σ t = some (.failure e)) : evalS σ (Ap app (.ref t) a c cur) = some (.failure e) := by
  simp [Ap, evalS, bindOk, h]
theorem Ap_function_pending (σ : Nat → TV) (app : Ex → Val → Val → W Val) (t a : Nat) (c cur : Ex)
    (h : σ t = none) : evalS σ (Ap app (.ref t) a c cur) = none := by
  simp [Ap, evalS, bindOk, h]
theorem Ap_denotation (σ : Nat → TV) (app : Ex → Val → Val → W Val) (t a : Nat) (c cur : Ex) :
    evalS σ (Ap app (.ref t) a c cur)
      = bindOk (σ t) (fun f => bindOk (σ a) (fun x => some (.success (app c f x).1))) := by
  simp only [Ap, Map, evalS]
/-- `LiftA3`: the denotation of the model's `liftA`, hence first failure in operand order (C14 `liftASpec_first_failure`) -/
theorem LiftA3_denotation (σ : Nat → TV) (f : NFn) (c cur0 cur : Ex) (p1 p2 p3 : Nat) :
    evalS σ (LiftA3 (fun c a1 a2 a3 => f c [a1, a2, a3]) c cur0 cur (.ref p1) p2 p3)
      = FpVerif.Spec.C14Fut.liftASpec σ (f c) [p1, p2, p3] [] := by
  rw [LiftA3_is_model]; exact FpVerif.Spec.C14Fut.evalS_liftA σ f c _
theorem LiftA3_first_failure (σ : Nat → TV) (f : Ex → Val → Val → Val → W Val) (c cur0 cur : Ex) (p1 p2 p3 : Nat) (e : Err)
    (h : σ p1 = some (.failure e)) : evalS σ (LiftA3 f c cur0 cur (.ref p1) p2 p3) = some (.failure e) := by
  simp [LiftA3, evalS, bindOk, h]
theorem LiftA3_second_failure (σ : Nat → TV) (f : Ex → Val → Val → Val → W Val) (c cur0 cur : Ex) (p1 p2 p3 : Nat) (v : Val) (e : Err)
    (h1 : σ p1 = some (.success v)) (h2 : σ p2 = some (.failure e)) :
    evalS σ (LiftA3 f c cur0 cur (.ref p1) p2 p3) = some (.failure e) := by
  simp [LiftA3, LiftA2, Map2, evalS, bindOk, h1, h2]
/-- `Sequence`: a failed accumulator stays failed (C06 `evalS_sequenceAcc_failure`) — the first failure in list order wins -/
theorem Sequence_first_failure (σ : Nat → TV) (p : Nat) (ps : List Nat) (c cur : Ex) (e : Err)
    (h : σ p = some (.failure e)) : evalS σ (Sequence (p :: ps) c cur) = some (.failure e) := by
  rw [Sequence_is_model]
  simp only [Fut.sequence, evalS_map, Fut.sequenceAcc]
  rw [evalS_sequenceAcc_failure σ ps _ e (by simp [evalS, Fut.map, bindOk, h])]
  rfl

-- non-vacuity ---------------------------------------------------------------------------------------------------------------
example : evalS (fun p => if p = 0 then some (.failure .optionEmpty) else none)
    (Map2 (.ref 0) 1 (fun _ x _ => (x, [])) .d .s) = some (.failure .optionEmpty) := by
  apply Map2_first_failure; rfl
example : evalS (fun _ => some (.success (.int 1))) (Zip (.ref 0) 1 .s) = some (.success (.tup [.int 1, .int 1])) := by
  rw [Zip_denotation]; rfl

end FpVerif.Spec.C06Gen
''')
open(os.path.join(ws, 'lean/FpVerif/Spec/C06Gen.lean'), 'w').write('\n'.join(out))
