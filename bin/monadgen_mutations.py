#!/usr/bin/env python3
"""Hand mutations of the generated monad family in WS/repo: apply, re-run monad2lean + `lake build FpVerif.Spec.C01Gen`,
record what stops checking, revert.  usage: bin/monadgen_mutations.py [name ...]"""
import os, re, subprocess, sys, json
WS = os.path.dirname(os.path.dirname(os.path.abspath(__file__)))
REPO, LEAN, HARN = (os.path.join(WS, d) for d in ('repo', 'lean', 'harness'))
ENV = dict(os.environ, GOFLAGS='-mod=mod', GOPROXY='off', GOSUMDB='off', GOTOOLCHAIN='local')
PK = {'option': ('option/option_monad.go', 'fp.Option[', ''), 'try': ('try/try_monad.go', 'fp.Try[', ''),
      'either': ('either/either_monad.go', 'fp.Either[L, ', '[L]'), 'statet': ('statet/state_monad.go', 'fp.StateT[S, ', '[S]')}
ALL = ['option', 'try', 'either', 'statet']

MAP2_OLD = '''	return FlatMap(first, func(a A) M[R] {
		return Map(second, func(b B) R {
			return fab(a, b)
		})
	})'''
MAP2_NEW = '''	return FlatMap(second, func(b B) M[R] {
		return Map(first, func(a A) R {
			return fab(a, b)
		})
	})'''
MUT = {
  'M1_map2_second_first': (ALL, MAP2_OLD, MAP2_NEW),
  'M2_liftA4_second_first': (ALL, '''		return FlatMap(ins1, func(a1 A1) M[R] {
			return LiftA3{X}(func(a2 A2, a3 A3, a4 A4) R {
				return f(a1, a2, a3, a4)
			})(ins2, ins3, ins4)
		})''', '''		return FlatMap(ins2, func(a2 A2) M[R] {
			return LiftA3{X}(func(a1 A1, a3 A3, a4 A4) R {
				return f(a1, a2, a3, a4)
			})(ins1, ins3, ins4)
		})'''),
  'M3_apfunc_supplier_hoisted': (ALL, '''	return FlatMap(tfab, func(fab fp.Func1[A, B]) M[B] {
		return Map(ta(), fab)
	})''', '''	x := ta()
	return FlatMap(tfab, func(fab fp.Func1[A, B]) M[B] {
		return Map(x, fab)
	})'''),
  'M3b_apfunc_is_ap_of_call': (ALL, '''	return FlatMap(tfab, func(fab fp.Func1[A, B]) M[B] {
		return Map(ta(), fab)
	})''', '''	return Ap(tfab, ta())'''),
  'M4_ap_argument_first': (ALL, '''	return FlatMap(tfab, func(fab fp.Func1[A, B]) M[B] {
		return Map(ta, fab)
	})''', '''	return FlatMap(ta, func(a A) M[B] {
		return Map(tfab, func(fab fp.Func1[A, B]) B {
			return fab(a)
		})
	})'''),
  'M5_liftM_drop_flatten': (ALL, 'return Flatten(Map(ta, fa))', 'return Map(ta, fa)'),
  'M6_map2_only_statet': (['statet'], MAP2_OLD, MAP2_NEW),
  'M7_flatmethod3_ignores_operand': (ALL, '''		return FlatMap(ta1, func(a1 A1) M[R] {
			return fa1(a1, a2, a3)
		})''', '''		return FlatMap(Map(ta1, fp.Id[A1]), func(a1 A1) M[R] {
			return fa1(a1, a2, a3)
		})'''),
  'M8_zip_second_first': (ALL, 'return Map2(first, second, product.Tuple2)', '''return Map2(second, first, func(b B, a A) fp.Tuple2[A, B] {
		return product.Tuple2(a, b)
	})'''),
  'M9_flap3_skips_a_stage': (ALL, 'return Flap2(Ap(tf, Pure{X}(a1)))', 'return Flap2(Ap(Map(tf, fp.Id[fp.Func1[A1, fp.Func1[A2, fp.Func1[A3, R]]]]), Pure{X}(a1)))'),
  'H1_liftM_as_flatmap (harmless)': (ALL, 'return Flatten(Map(ta, fa))', 'return FlatMap(ta, fa)'),
  'H2_compose3_rebracketed (harmless)': (ALL, 'return Compose2(f1, Compose2(f2, f3))', 'return Compose2(Compose2(f1, f2), f3)'),
}

def inst(t, pk):
    return t.replace('M[', PK[pk][1]).replace('{X}', PK[pk][2])

def sh(cmd, cwd):
    p = subprocess.run(cmd, cwd=cwd, env=ENV, stdout=subprocess.PIPE, stderr=subprocess.STDOUT, text=True)
    return p.returncode, p.stdout

def run_check():
    gen = os.path.join(LEAN, 'FpVerif', 'Gen', 'MonadGen.lean')
    rc, out = sh(['go', 'run', './cmd/monad2lean', REPO, gen], HARN)
    info = json.loads(out.strip().split('\n')[-1]) if rc == 0 else dict(error=out[-500:])
    rc, out = sh(['lake', 'build', 'FpVerif.Spec.C01Gen'], LEAN)
    spec = open(os.path.join(LEAN, 'FpVerif', 'Spec', 'C01Gen.lean')).read().split('\n')
    failing, genfail = [], 'Gen/MonadGen.lean' in ''.join(l for l in out.split('\n') if l.startswith('error'))
    for m in re.finditer(r'error: FpVerif/Spec/C01Gen\.lean:(\d+):', out):
        ln = int(m.group(1))
        if spec[ln - 1].lstrip().startswith('/--'):   # an error reported at the doc comment of the NEXT theorem
            while not re.match(r'\s*(theorem|example)\b', spec[ln - 1]):
                ln += 1
        while ln > 0 and not re.match(r'\s*(theorem|example)\b', spec[ln - 1]):
            ln -= 1
        mm = re.match(r'\s*theorem\s+(\S+)', spec[ln - 1])
        nm = mm.group(1) if mm else 'example@%d' % ln
        if nm not in failing:
            failing.append(nm)
    return info, rc, failing, genfail

def main():
    keep = '-keep' in sys.argv
    names = [a for a in sys.argv[1:] if a != '-keep'] or list(MUT)
    results = {}
    for nm in names:
        pks, old, new = MUT[nm]
        files = []
        try:
            for pk in pks:
                f = os.path.join(REPO, PK[pk][0])
                s = open(f).read()
                o, n = inst(old, pk), inst(new, pk)
                assert s.count(o) == 1, (nm, pk, s.count(o))
                open(f, 'w').write(s.replace(o, n))
                files.append(PK[pk][0])
            info, rc, failing, genfail = run_check()
            results[nm] = dict(untranslatable=info.get('untranslatable'), divergent=info.get('divergent'), build_rc=rc,
                               gen_file_broken=genfail, failing_theorems=failing)
            print(nm, json.dumps(results[nm])[:1500], flush=True)
        finally:
            for f in ([] if keep else files):
                subprocess.run(['git', 'checkout', '--', f], cwd=REPO, check=True)
    if keep:
        return
    info, rc, failing, genfail = run_check()
    print('CLEAN', json.dumps(dict(untranslatable=info.get('untranslatable'), divergent=info.get('divergent'), build_rc=rc, failing=failing)))
    print(subprocess.run(['git', 'status', '--short'], cwd=REPO, stdout=subprocess.PIPE, text=True).stdout)
    json.dump(results, open(os.path.join(WS, 'mutation_results.json'), 'w'), indent=1)

main()
