#!/usr/bin/env python3
"""Writes lean/FpVerif/Spec/C14ArityGen.lean: the (committed, static) statements tying the TRANSLATED generated arity
families (FpVerif/Gen/ArityGen.lean, regenerated from /repo on every run by harness/cmd/go2lean2) to the arity-generic
model of Model/Arity.lean, the coverage theorem, and the C14 property theorems transported to the translated code.
Run once; the output is under version control, so that the statements cannot change silently when the source changes."""
import os
out = os.path.join(os.path.dirname(os.path.dirname(os.path.abspath(__file__))), 'lean', 'FpVerif', 'Spec', 'C14ArityGen.lean')
MAXP, MAXF, MAXC = 22, 10, 6          # internal/max/max.go: Product, Func, Compose (pinned by `max_pinned`)
P = range(1, MAXP)                     # product arities 1..21
L = []
def emit(s=''): L.append(s)

def vs(lo, hi, p='a'): return [f'{p}{i}' for i in range(lo, hi + 1)]
def sp(xs): return ' '.join(xs)
def lst(xs): return '[' + ', '.join(xs) + ']'
def As(n): return sp(['A'] * n)
def nf(n, f='f'): return f'(fun {sp(vs(1, n))} => {f} {lst(vs(1, n))})'          # the n-ary view of f : NFun A R
def hlit(xs, tail='⟨⟩'):                                                          # ⟨a1, ⟨a2, … ⟨aN, tail⟩⟩⟩
    s = tail
    for x in reversed(xs): s = f'⟨{x}, {s}⟩'
    return s
def hty(n, tail='hlist_Nil'):
    s = tail
    for _ in range(n): s = f'(hlist_Cons A {s})'
    return s
def nestlit(xs):                                                                  # fp.Tuple2[A1, fp.Tuple2[A2, … Tuple2[A(N-1), AN]]]
    s = f'⟨{xs[-2]}, {xs[-1]}⟩'
    for x in reversed(xs[:-2]): s = f'⟨{x}, {s}⟩'
    return s
def nestty(n):
    s = 'A'
    for _ in range(n - 1): s = f'(fp_Tuple2 A {s})'
    return s
def nestmodel(xs):
    s = f'(.pair {xs[-2]} {xs[-1]})'
    for x in reversed(xs[:-2]): s = f'(.cons {x} {s})'
    return s
def bind(xs, ty='A'): return f'({sp(xs)} : {ty})' if xs else ''

emit('''import FpVerif.Gen.ArityGen
import FpVerif.Spec.C14
/-!
# C14 — the generated PURE arity families, TRANSLATED from the source on every run (Tie A, second part)

`FpVerif/Gen/ArityGen.lean` is produced by `harness/cmd/go2lean2` (a generic Go-AST → Lean translator for the pure
functional fragment the generated files are written in: function literals, calls, struct literals, field selection,
`x := e`, `return`) from the working tree: every declaration of

    tuple_gen.go labelled_gen.go func_gen.go                         (fp.TupleN/LabelledN + accessors, FuncN.ApplyFirst/ApplyLast/Widen, ComposeN, IdN)
    as/func_gen.go as/tuple_gen.go as/labelled_gen.go                (as.FuncN/SupplierN/CurriedN/UnTupledN, TupleN/HListN, LabelledN/HListNLabelled)
    curried/curried_gen.go                                           (curried.FuncN/RevertN/FlipN/SlipLN/ComposeN/FlipApplyN)
    hlist/of_gen.go case_gen.go lift_gen.go reverse_gen.go           (hlist.OfN/CaseN/LiftN/RiftN/ReverseN)
    product/tuple_gen.go                                             (product.TupleN/TupleFromHListN/FlattenN/LabelledFromHListN/LiftN)
    fn1/arrow_func_gen.go unit/func_gen.go                           (fn1.MergeN, unit.FuncN)

and the hand-written arity-1/2 members they bottom out in becomes ONE Lean definition with the Go declaration's own
type (type parameters stay type parameters, `func(A1,…,AN) R` is `A1 → … → AN → GoM R`, `fp.TupleN` / `hlist.Cons` are
structures with the Go field names) and the Go body's own structure (closures, calls of the lower arity by name, every
call of a function value an effect bound in Go's evaluation order).

The theorems below — statements fixed here under version control, one per family and EVERY arity found in the source —
instantiate all element types at one `A` and say that the translated function computes the arity-generic model of
`Model/Arity.lean` at `n := N`: for all `a1 … aN` (and all user functions, viewed as `NFun A R` through
`fun a1 … aN => f [a1, …, aN]`; every N-ary function is of this form, `lfN`/`nf_lfN`).  A tuple is read as its field list
`I1..IN` (`tupListN`, `labListN`), an hlist as `[head, tail.head, …]` (`hlN`), a multi-valued result as its components
(`plN`).  Proofs are `rfl` (the kernel unfolds both sides) except where a monad law is needed.  A swapped argument, a
dropped component, a wrong index or a wrong order of application in ONE generated function changes the translated
definition and the theorems of that arity (and of the arities built on it) stop checking; a change Go's own type checker
would reject makes the translated definition itself ill-typed.

`all_families_translated` pins the set of (family, arity) pairs found to the table derived from `internal/max/max.go`;
`exceptions_pinned` the declarations deliberately not translated.  The last section transports C14's property theorems
to the translated code at every generated arity.
-/
namespace FpVerif.Spec.C14ArityGen
open FpVerif FpVerif.Arity FpVerif.Gen.Arity MonadFamily
set_option linter.unusedVariables false
set_option maxRecDepth 4096

variable {A R GA GR : Type}

-- ------------------------------------------------------------------------------------------------
-- how the translated data is read (part of the statements)
''')
for n in P:
    emit(f'/-- a `fp.Tuple{n}` is its field list -/\ndef tupList{n} (t : fp_Tuple{n} {As(n)}) : List A := {lst([f"t.I{i}" for i in range(1, n+1)])}')
for n in P:
    emit(f'def labList{n} (t : fp_Labelled{n} {As(n)}) : List A := {lst([f"t.I{i}" for i in range(1, n+1)])}')
for n in P:
    emit(f'/-- the first {n} elements of an hlist -/\ndef hl{n} {{T : Type}} (l : {hty(n, "T")}) : List A := {lst(["l" + ".tail"*i + ".head" for i in range(n)])}')
for n in range(2, MAXP):
    comps = ['p' + '.2'*(i-1) + ('.1' if i < n else '') for i in range(1, n+1)]
    emit(f'/-- the components of a {n}-valued result -/\ndef pl{n} (p : {" × ".join(["A"]*n)}) : List A := {lst(comps)}')
for n in range(1, MAXF):
    emit(f'/-- every {n}-ary function is the {n}-ary view of an `NFun` -/\n'
         f'def lf{n} (g : {" → ".join(["A"]*n)} → GoM R) : NFun A R := fun l => match l with | {lst(vs(1, n))} => g {sp(vs(1, n))} | _ => arityPanic\n'
         f'theorem nf_lf{n} (g : {" → ".join(["A"]*n)} → GoM R) : (fun {sp(vs(1, n))} => lf{n} g {lst(vs(1, n))}) = g := rfl')

# ---------------------------------------------------------------------------------------------------------------------
emit('''
-- ------------------------------------------------------------------------------------------------
-- curried/curried_gen.go (+ curried.go)
''')
emit('theorem curried_func1_is_model (f : NFun A R) : curried_Func1 (fun a1 => f [a1]) = curry 0 f := rfl')
for n in range(2, MAXF):
    emit(f'theorem curried_func{n}_is_model (f : NFun A R) : curried_Func{n} {nf(n)} = curry {n-1} f := rfl')
for n in range(2, MAXF):
    emit(f'theorem curried_revert{n}_is_model (f : CurF A R {n-1}) {bind(vs(1, n))} :\n    curried_Revert{n} f {sp(vs(1, n))} = revert {n-1} f {lst(vs(1, n))} := rfl')
emit('theorem curried_flip_is_model (f : CurF A R 1) : curried_Flip f = flip1 f := rfl')
for k in range(2, MAXF - 1):
    emit(f'theorem curried_flip{k}_is_model (f : CurF A R {k}) : curried_Flip{k} f = Arity.flip {k-1} f := rfl')
for n in range(3, MAXF):
    emit(f'theorem curried_slipL{n}_is_model (f : CurF A R {n-1}) : curried_SlipL{n} f = slipL {n-2} f := rfl')
emit('theorem curried_compose2_is_model (f : CurF A GA 1) (g : GA → GoM GR) : curried_Compose2 f g = composeCur 0 f g := rfl')
for n in range(3, MAXF):
    emit(f'theorem curried_compose{n}_is_model (f : CurF A GA {n-1}) (g : GA → GoM GR) : curried_Compose{n} f g = composeCur {n-2} f g := rfl')
emit('theorem curried_flipApply_is_model (f : CurF A R 1) (b : A) : curried_FlipApply f b = flipApply 0 f [b] := rfl')
for k in range(2, MAXF - 1):
    emit(f'theorem curried_flipApply{k}_is_model (f : CurF A R {k}) {bind(vs(2, k+1))} :\n    curried_FlipApply{k} f {sp(vs(2, k+1))} = flipApply {k-1} f {lst(vs(2, k+1))} := rfl')

emit('''
-- ------------------------------------------------------------------------------------------------
-- as/func_gen.go
''')
for n in range(1, MAXF):
    emit(f'theorem as_func{n}_is_model (f : NFun A R) {bind(vs(1, n))} : as_Func{n} {nf(n)} {sp(vs(1, n))} = asFunc f {lst(vs(1, n))} := rfl')
for n in range(1, MAXF):
    emit(f'theorem as_supplier{n}_is_model (f : NFun A R) {bind(vs(1, n))} : as_Supplier{n} {nf(n)} {sp(vs(1, n))} = supplier f {lst(vs(1, n))} := rfl')
for n in range(2, MAXF):
    emit(f'theorem as_curried{n}_is_model (f : NFun A R) : as_Curried{n} {nf(n)} = asCurried {n-2} f := rfl')
for n in range(2, MAXF):
    emit(f'theorem as_unTupled{n}_is_model (f : NFun A R) {bind(vs(1, n))} :\n    as_UnTupled{n} (fun t => f (tupList{n} t)) {sp(vs(1, n))} = unTupled f {lst(vs(1, n))} := rfl')
emit('theorem as_tupled2_is_model (f : NFun A R) (t : fp_Tuple2 A A) : as_Tupled2 (fun a1 a2 => f [a1, a2]) t = tupled f (tupList2 t) := rfl')

emit('''
-- ------------------------------------------------------------------------------------------------
-- as/tuple_gen.go, as/labelled_gen.go
''')
for n in P:
    emit(f'theorem as_tuple{n}_is_model {bind(vs(1, n))} : tupList{n} (as_Tuple{n} {sp(vs(1, n))}) = mkTuple {lst(vs(1, n))} := rfl')
for n in P:
    emit(f'theorem as_hlist{n}_is_model (t : fp_Tuple{n} {As(n)}) : some (hl{n} (as_HList{n} t)) = asHList {n-1} (tupList{n} t) := rfl')
for n in P:
    emit(f'theorem as_labelled{n}_is_model {bind(vs(1, n))} : labList{n} (as_Labelled{n} {sp(vs(1, n))}) = mkTuple {lst(vs(1, n))} := rfl')
for n in P:
    emit(f'theorem as_hlist{n}Labelled_is_model (t : fp_Labelled{n} {As(n)}) :\n    some (hl{n} (as_HList{n}Labelled t)) = asHListLabelled {n-1} (labList{n} t) := rfl')

emit('''
-- ------------------------------------------------------------------------------------------------
-- tuple_gen.go, labelled_gen.go: the accessors (+ Tuple1/Labelled1.Head of fp.go)
''')
for T, tl in (('Tuple', 'tupList'), ('Labelled', 'labList')):
    emit(f'theorem fp_{T.lower()}1_head_is_model (t : fp_{T}1 A) : some t.Head = tupHead ({tl}1 t) := rfl')
    for n in range(2, MAXP):
        ty = f'fp_{T}{n} {As(n)}'
        pre = f'fp_{T.lower()}{n}'
        emit(f'theorem {pre}_head_is_model (t : {ty}) : some t.Head = tupHead ({tl}{n} t) := rfl')
        emit(f'theorem {pre}_last_is_model (t : {ty}) : some t.Last = tupLast ({tl}{n} t) := rfl')
        ini = '[t.Init]' if n == 2 else f'pl{n-1} t.Init'
        tai = '[t.Tail]' if n == 2 else f'pl{n-1} t.Tail'
        emit(f'theorem {pre}_init_is_model (t : {ty}) : {ini} = tupInit ({tl}{n} t) := rfl')
        emit(f'theorem {pre}_tail_is_model (t : {ty}) : {tai} = tupTail ({tl}{n} t) := rfl')
        emit(f'theorem {pre}_unapply_is_model (t : {ty}) : pl{n} t.Unapply = tupUnapply ({tl}{n} t) := rfl')

emit('''
-- ------------------------------------------------------------------------------------------------
-- func_gen.go (+ Func2.ApplyFirst/ApplyLast/Widen, Compose2 of fp.go)
''')
emit('theorem fp_func1_type : fp_Func1 A R = (A → GoM R) := rfl')
for n in range(2, MAXF):
    emit(f'theorem fp_func{n}_type : fp_Func{n} {As(n)} R = ({" → ".join(["A"]*n)} → GoM R) := rfl')
emit('theorem fp_func2_applyFirst_is_model (f : NFun A R) (a1 : A) : fp_Func2.ApplyFirst (fun a1 a2 => f [a1, a2]) a1 = applyFirst f [a1] := rfl')
emit('theorem fp_func2_applyLast_is_model (f : NFun A R) (a2 : A) : fp_Func2.ApplyLast (fun a1 a2 => f [a1, a2]) a2 = applyLast f [a2] := rfl')
emit('theorem fp_func2_widen_is_model (f : NFun A R) (a1 a2 : A) : fp_Func2.Widen (fun a1 a2 => f [a1, a2]) a1 a2 = widen f [a1, a2] := rfl')
for n in range(3, MAXF):
    emit(f'theorem fp_func{n}_applyFirst_is_model (f : NFun A R) {bind(vs(1, n-1))} :\n    fp_Func{n}.ApplyFirst{n-1} {nf(n)} {sp(vs(1, n-1))} = applyFirst f {lst(vs(1, n-1))} := rfl')
    emit(f'theorem fp_func{n}_applyLast_is_model (f : NFun A R) {bind(vs(2, n))} :\n    fp_Func{n}.ApplyLast{n-1} {nf(n)} {sp(vs(2, n))} = applyLast f {lst(vs(2, n))} := rfl')
    emit(f'theorem fp_func{n}_widen_is_model (f : NFun A R) {bind(vs(1, n))} :\n    fp_Func{n}.Widen {nf(n)} {sp(vs(1, n))} = widen f {lst(vs(1, n))} := rfl')
emit('theorem fp_compose2_is_model (f1 f2 : A → GoM A) : fp_Compose2 f1 f2 = composeN [f1, f2] := rfl')
for n in range(3, MAXC):
    emit(f'theorem fp_compose{n}_is_model {bind(vs(1, n, "f"), "A → GoM A")} : fp_Compose{n} {sp(vs(1, n, "f"))} = composeN {lst(vs(1, n, "f"))} := rfl')
for n in range(2, MAXF):
    emit(f'theorem fp_id{n}_is_model {bind(vs(1, n-1) + ["r"])} : some (fp_Id{n} {sp(vs(1, n-1))} r) = idN {lst(vs(1, n-1) + ["r"])} := rfl')

emit('''
-- ------------------------------------------------------------------------------------------------
-- hlist/of_gen.go, case_gen.go, lift_gen.go, reverse_gen.go (+ Of1, Case1, Lift1, Rift1 of hlist.go)
''')
for n in P:
    emit(f'theorem hlist_of{n}_is_model {bind(vs(1, n))} : some (hl{n} (hlist_Of{n} {sp(vs(1, n))})) = hlistOf {n-1} {lst(vs(1, n))} := rfl')
for n in P:
    f = '(fun a1 => f [a1])' if n == 1 else nf(n)
    emit(f'theorem hlist_case{n}_is_model {{T : Type}} {bind(vs(1, n))} (t : T) (rest : List A) (f : NFun A R) :\n'
         f'    hlist_Case{n} {hlit(vs(1, n), "t")} {f} = hcase {n-1} ({" :: ".join(vs(1, n))} :: rest) f := rfl')
for n in range(1, MAXF):
    emit(f'theorem hlist_lift{n}_is_model {bind(vs(1, n))} (f : NFun A R) :\n'
         f'    hlist_Lift{n} {nf(n)} {hlit(vs(1, n))} = hlift {n-1} f {lst(vs(1, n))} := rfl')
for n in range(1, MAXF):
    rv = list(reversed(vs(1, n)))
    emit(f'/-- `Rift{n}(f)` takes the REVERSED hlist `(a{n}, …, a1)` -/\ntheorem hlist_rift{n}_is_model {bind(vs(1, n))} (f : NFun A R) :\n'
         f'    hlist_Rift{n} {nf(n)} {hlit(rv)} = hrift {n-1} f {lst(rv)} := rfl')
for n in range(2, MAXF):
    emit(f'theorem hlist_reverse{n}_is_model {bind(vs(1, n))} :\n'
         f'    (fun l => hl{n} l) <$> hlist_Reverse{n} ({hlit(vs(1, n))} : {hty(n)}) = hreverse {n-1} {lst(vs(1, n))} := rfl')

emit('''
-- ------------------------------------------------------------------------------------------------
-- product/tuple_gen.go (+ Tuple2, TupleFromHList1, LabelledFromHList1, Flatten3 of product_op.go)
''')
for n in range(2, MAXP):
    emit(f'theorem product_tuple{n}_is_model {bind(vs(1, n))} : tupList{n} (product_Tuple{n} {sp(vs(1, n))}) = mkTuple {lst(vs(1, n))} := rfl')
for n in P:
    emit(f'theorem product_tupleFromHList{n}_is_model {bind(vs(1, n))} :\n'
         f'    some (tupList{n} (product_TupleFromHList{n} {hlit(vs(1, n))})) = tupleFromHList {n-1} {lst(vs(1, n))} := rfl')
for n in P:
    emit(f'theorem product_labelledFromHList{n}_is_model {bind(vs(1, n))} :\n'
         f'    some (labList{n} (product_LabelledFromHList{n} {hlit(vs(1, n))})) = tupleFromHList {n-1} {lst(vs(1, n))} := rfl')
for n in range(3, MAXP):
    emit(f'theorem product_flatten{n}_is_model {bind(vs(1, n))} :\n'
         f'    some (tupList{n} (product_Flatten{n} ({nestlit(vs(1, n))} : {nestty(n)}))) = flatten {n-3} {nestmodel(vs(1, n))} := rfl')
for n in range(2, MAXP):
    emit(f'theorem product_lift{n}_is_model (f : NFun A R) (t : fp_Tuple{n} {As(n)}) : product_Lift{n} {nf(n)} t = tupled f (tupList{n} t) := rfl')

emit('''
-- ------------------------------------------------------------------------------------------------
-- fn1/arrow_func_gen.go, unit/func_gen.go (the struct literal's fields are evaluated in order; `fp.Unit{}` is read as `()`)
''')
for n in range(3, MAXF):
    emit(f'theorem fn1_merge{n}_is_model {bind(vs(1, n, "f"), "A → GoM A")} (a : A) :\n'
         f'    (fun t => tupList{n} t) <$> fn1_Merge{n} {sp(vs(1, n, "f"))} a = merge {lst(vs(1, n, "f"))} a := by\n'
         f'  simp [fn1_Merge{n}, merge, tupList{n}, List.mapM_cons, List.mapM_nil]')
for n in range(1, MAXF):
    emit(f'theorem unit_func{n}_is_model (f : List A → GoM Unit) {bind(vs(1, n))} :\n'
         f'    (fun _ => ()) <$> unit_Func{n} {nf(n)} {sp(vs(1, n))} = unitFunc f {lst(vs(1, n))} := by\n'
         f'  simp [unit_Func{n}, unitFunc]')

# ---------------------------------------------------------------------------------------------------------------------
emit('''
-- ------------------------------------------------------------------------------------------------
-- coverage: what was found in the source is exactly what the theorems above speak about

/-- `lo, lo+1, …, hi-1` -/
def rng (lo hi : Nat) : List Nat := (List.range (hi - lo)).map (· + lo)

/-- the (family ↦ arities) table the generator produces, as a function of the constants of `internal/max/max.go`
    (`genfp.MaxProduct`, `MaxFunc`, `MaxCompose`); a family is the declaration's name with its numbers replaced by `N`,
    the arity is the first number of the name -/
def expected (maxProduct maxFunc maxCompose : Nat) : List (String × List Nat) := [
  ("as.CurriedN", rng 2 maxFunc), ("as.FuncN", rng 1 maxFunc), ("as.HListN", rng 1 maxProduct),
  ("as.HListNLabelled", rng 1 maxProduct), ("as.LabelledN", rng 1 maxProduct), ("as.SupplierN", rng 1 maxFunc),
  ("as.TupleN", rng 1 maxProduct), ("as.UnTupledN", rng 2 maxFunc),
  ("curried.ComposeN", rng 3 maxFunc), ("curried.FlipApplyN", rng 2 (maxFunc - 1)), ("curried.FlipN", rng 2 (maxFunc - 1)),
  ("curried.FuncN", rng 2 maxFunc), ("curried.RevertN", rng 2 maxFunc), ("curried.SlipLN", rng 3 maxFunc),
  ("fn1.MergeN", rng 3 maxFunc),
  ("fp.ComposeN", rng 3 maxCompose), ("fp.FuncN", rng 3 maxFunc), ("fp.FuncN.ApplyFirstN", rng 3 maxFunc),
  ("fp.FuncN.ApplyLastN", rng 3 maxFunc), ("fp.FuncN.Widen", rng 3 maxFunc), ("fp.IdN", rng 2 maxFunc),
  ("fp.LabelledN", rng 2 maxProduct), ("fp.LabelledN.Head", rng 2 maxProduct), ("fp.LabelledN.Init", rng 2 maxProduct),
  ("fp.LabelledN.Last", rng 2 maxProduct), ("fp.LabelledN.Tail", rng 2 maxProduct), ("fp.LabelledN.Unapply", rng 2 maxProduct),
  ("fp.TupleN", rng 2 maxProduct), ("fp.TupleN.Head", rng 2 maxProduct), ("fp.TupleN.Init", rng 2 maxProduct),
  ("fp.TupleN.Last", rng 2 maxProduct), ("fp.TupleN.Tail", rng 2 maxProduct), ("fp.TupleN.Unapply", rng 2 maxProduct),
  ("hlist.CaseN", rng 2 maxProduct), ("hlist.LiftN", rng 2 maxFunc), ("hlist.OfN", rng 2 maxProduct),
  ("hlist.ReverseN", rng 2 maxFunc), ("hlist.RiftN", rng 2 maxFunc),
  ("product.FlattenN", rng 4 maxProduct), ("product.LabelledFromHListN", rng 2 maxProduct), ("product.LiftN", rng 2 maxProduct),
  ("product.TupleFromHListN", rng 2 maxProduct), ("product.TupleN", rng 3 maxProduct),
  ("unit.FuncN", rng 1 maxFunc)]
''')
emit(f'/-- the per-arity theorems of this file are written for these values -/\n'
     f'theorem max_pinned : (maxProduct, maxFunc, maxCompose) = ({MAXP}, {MAXF}, {MAXC}) := by decide\n')
emit('''/-- every declaration of the generated files was found and translated (a declaration outside the fragment has no
    definition and is missing here), and there is no (family, arity) the theorems above do not speak about -/
theorem all_families_translated : found = expected maxProduct maxFunc maxCompose := by decide

/-- the ONLY declarations of the generated files that are not translated: the `String()` methods of `TupleN`/`LabelledN` -/
theorem exceptions_pinned : exceptions =
    [("^fp\\\\.(Tuple|Labelled)\\\\d+\\\\.String$",
      "fmt.Sprintf of the fields (formatting, not a position claim; compared textually by the arity harness)",
      2 * (maxProduct - 2))] := by decide
''')

# ---------------------------------------------------------------------------------------------------------------------
emit('''-- ------------------------------------------------------------------------------------------------
-- C14's property theorems, transported to the TRANSLATED code at every generated arity
''')
emit('-- (1) `curried.RevertN(curried.FuncN(g)) = g` for every N-ary g (C14.revert_curry)')
for n in range(2, MAXF):
    a = vs(1, n)
    emit(f'theorem revert{n}_func{n} (g : {" → ".join(["A"]*n)} → GoM R) {bind(a)} :\n'
         f'    curried_Revert{n} (curried_Func{n} g) {sp(a)} = g {sp(a)} := by\n'
         f'  show revert {n-1} (curry {n-1} (lf{n} g)) {lst(a)} = lf{n} g {lst(a)}   -- curried_revert{n}_is_model, curried_func{n}_is_model\n'
         f'  exact C14.revert_curry {n-1} _ _ rfl')
emit('\n-- (2) `as.CurriedN` and `curried.FuncN` are the same function (C14.asCurried_eq_curry)')
for n in range(2, MAXF):
    emit(f'theorem as_curried{n}_eq_curried_func{n} (g : {" → ".join(["A"]*n)} → GoM R) : as_Curried{n} g = curried_Func{n} g := by\n'
         f'  show asCurried {n-2} (lf{n} g) = curry {n-1} (lf{n} g)   -- as_curried{n}_is_model, curried_func{n}_is_model\n'
         f'  exact C14.asCurried_eq_curry {n-2} _')
emit('\n-- (3) `curried.FlipK(f)(a2)…(aN)(a1) = f(a1)(a2)…(aN)`: the first argument moves to the last position (C14.flip_apply)')
for k in range(2, MAXF - 1):
    n = k + 1
    emit(f'theorem flip{k}_apply (f : CurF A R {k}) {bind(vs(1, n))} :\n'
         f'    curried_Revert{n} (curried_Flip{k} f) {sp(vs(2, n) + ["a1"])} = curried_Revert{n} f {sp(vs(1, n))} := by\n'
         f'  show revert {k} (Arity.flip {k-1} f) {lst(vs(2, n) + ["a1"])} = revert {k} f {lst(vs(1, n))}   -- curried_flip{k}_is_model, curried_revert{n}_is_model\n'
         f'  exact C14.flip_apply {k-1} f a1 {lst(vs(2, n))} rfl')
emit('\n-- (4) `curried.SlipLN(f)(aN)(a1)…(a(N-1)) = f(a1)…(aN)`: the last argument moves to the first position (C14.slipL_apply)')
for n in range(3, MAXF):
    emit(f'theorem slipL{n}_apply (f : CurF A R {n-1}) {bind(vs(1, n))} :\n'
         f'    curried_Revert{n} (curried_SlipL{n} f) {sp([f"a{n}"] + vs(1, n-1))} = curried_Revert{n} f {sp(vs(1, n))} := by\n'
         f'  show revert {n-1} (slipL {n-2} f) {lst([f"a{n}"] + vs(1, n-1))} = revert {n-1} f {lst(vs(1, n))}   -- curried_slipL{n}_is_model, curried_revert{n}_is_model\n'
         f'  exact C14.slipL_apply {n-2} f a{n} {lst(vs(1, n-1))} rfl')
emit('\n-- (5) `curried.ComposeN(f, g)(a1)…(aN) = g(f(a1)…(aN))` (C14.composeCur_apply)')
for n in range(3, MAXF):
    emit(f'theorem compose{n}_apply (f : CurF A GA {n-1}) (g : GA → GoM GR) {bind(vs(1, n))} :\n'
         f'    curried_Revert{n} (curried_Compose{n} f g) {sp(vs(1, n))} = (do let r ← curried_Revert{n} f {sp(vs(1, n))}; g r) := by\n'
         f'  show revert {n-1} (composeCur {n-2} f g) {lst(vs(1, n))} = (do let r ← revert {n-1} f {lst(vs(1, n))}; g r)   -- curried_compose{n}_is_model, curried_revert{n}_is_model\n'
         f'  exact C14.composeCur_apply {n-2} f g {lst(vs(1, n))} rfl')
emit('\n-- (6) `hlist.ReverseN(a1,…,aN) = (aN,…,a1)`, and it runs no user code (C14.hreverse_def)')
for n in range(2, MAXF):
    emit(f'theorem reverse{n}_def {bind(vs(1, n))} :\n'
         f'    (fun l => hl{n} l) <$> hlist_Reverse{n} ({hlit(vs(1, n))} : {hty(n)}) = pure {lst(list(reversed(vs(1, n))))} := by\n'
         f'  exact (hlist_reverse{n}_is_model {sp(vs(1, n))}).trans (C14.hreverse_def {n-1} {lst(vs(1, n))} rfl)')
emit('\n-- (7) `product.TupleFromHListN(as.HListN(t)) = t` (C14.tupleFromHList_asHList)')
for n in P:
    hs = [f'(as_HList{n} t)' + '.tail'*i + '.head' for i in range(n)]
    emit(f'theorem tupleFromHList{n}_asHList{n} (t : fp_Tuple{n} {As(n)}) :\n'
         f'    tupList{n} (product_TupleFromHList{n} (as_HList{n} t)) = tupList{n} t := by\n'
         f'  have h1 := as_hlist{n}_is_model t\n'
         f'  have h2 : some (tupList{n} (product_TupleFromHList{n} (as_HList{n} t))) = tupleFromHList {n-1} (hl{n} (as_HList{n} t)) :=\n'
         f'    product_tupleFromHList{n}_is_model {sp(hs)}\n'
         f'  have h3 := C14.tupleFromHList_asHList {n-1} (tupList{n} t) rfl\n'
         f'  rw [← h1] at h3\n'
         f'  exact Option.some.inj (h2.trans h3)')
emit('\n-- (8) `hlist.LiftN(f)(hlist.OfN(a1,…,aN)) = f(a1,…,aN)` (C14.hlift_def)')
for n in range(2, MAXF):
    a = vs(1, n)
    emit(f'theorem lift{n}_of{n} (g : {" → ".join(["A"]*n)} → GoM R) {bind(a)} :\n'
         f'    hlist_Lift{n} g (hlist_Of{n} {sp(a)}) = g {sp(a)} := by\n'
         f'  show hlift {n-1} (lf{n} g) {lst(a)} = lf{n} g {lst(a)}   -- hlist_lift{n}_is_model, hlist_of{n}_is_model\n'
         f'  exact C14.hlift_def {n-1} _ _ rfl')
emit('\n-- (9) `fp.ComposeN(f1,…,fN)(a) = fN(…f2(f1(a)))` (C14.composeN_pipeline)')
for n in range(3, MAXC):
    fs = vs(1, n, 'f')
    emit(f'theorem fp_compose{n}_pipeline {bind(fs, "A → GoM A")} (a : A) :\n'
         f'    fp_Compose{n} {sp(fs)} a = C14.pipeline {lst(fs)} a := by\n'
         f'  exact (congrFun (fp_compose{n}_is_model {sp(fs)}) a).trans (C14.composeN_pipeline {lst(fs)} (by simp) a)')

emit('''
-- ------------------------------------------------------------------------------------------------
-- the translated definitions compute (and the statements above are not vacuous): all by `rfl`

/-- a logging 3-ary Go function -/
def g3 : Nat → Nat → Nat → GoM (List Nat) := fun a b c => do emit "g"; pure [a, b, c]

example : (curried_Revert3 (curried_Func3 g3) 10 20 30).exec = (.ok [10, 20, 30], ["g"]) := by rfl
example : (curried_Revert3 (curried_Flip2 (curried_Func3 g3)) 20 30 10).exec = (.ok [10, 20, 30], ["g"]) := by rfl
example : (curried_Revert3 (curried_SlipL3 (curried_Func3 g3)) 30 10 20).exec = (.ok [10, 20, 30], ["g"]) := by rfl
example : (curried_FlipApply2 (curried_Func3 g3) 20 30 10).exec = (.ok [10, 20, 30], ["g"]) := by rfl
example : (hlist_Rift3 g3 (hlist_Of3 30 20 10)).exec = (.ok [10, 20, 30], ["g"]) := by rfl
example : (hlist_Case3 (hlist_Of4 10 20 30 40) g3).exec = (.ok [10, 20, 30], ["g"]) := by rfl
example : ((fun l => hl3 l) <$> hlist_Reverse3 (hlist_Of3 10 20 30)).exec = (.ok [30, 20, 10], []) := by rfl
example : tupList4 (product_Flatten4 ⟨10, ⟨20, ⟨30, 40⟩⟩⟩) = [10, 20, 30, 40] := by rfl
example : (fp_Func3.ApplyLast2 g3 20 30 10).exec = (.ok [10, 20, 30], ["g"]) := by rfl
example : (product_Lift3 g3 (product_TupleFromHList3 (hlist_Of3 10 20 30))).exec = (.ok [10, 20, 30], ["g"]) := by rfl

end FpVerif.Spec.C14ArityGen''')
os.makedirs(os.path.dirname(out), exist_ok=True)
open(out, 'w').write('\n'.join(L) + '\n')
print(out, len(L), 'blocks')
