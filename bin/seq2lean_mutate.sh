#!/bin/bash
# usage: mut.sh <name> <file> <python-replace-old> <python-replace-new>
export GOFLAGS=-mod=mod GOPROXY=off GOSUMDB=off GOTOOLCHAIN=local
WS=/tmp/ws-seq2lean
name="$1"; file="$2"
python3 - "$WS/repo/$file" "$3" "$4" <<'PY'
import sys
p,old,new=sys.argv[1],sys.argv[2],sys.argv[3]
s=open(p).read()
old=old.encode().decode('unicode_escape'); new=new.encode().decode('unicode_escape')
assert s.count(old)>=1, "pattern not found"
s=s.replace(old,new,1)
open(p,'w').write(s)
PY
[ $? -ne 0 ] && { echo "MUT $name: PATTERN NOT FOUND"; exit 1; }
(cd $WS/repo && go build ./ ./seq 2>&1 | head -3)
(cd $WS/harness && go run ./cmd/seq2lean $WS/repo $WS/lean/FpVerif/Gen/SeqGen.lean > /dev/null)
cd $WS/lean
out=$(lake build FpVerif.Spec.C12SeqGen FpVerif.Spec.SeqGenCover 2>&1)
if echo "$out" | grep -q 'Build completed successfully'; then echo "MUT $name: NOT CAUGHT"; else
  echo "MUT $name: CAUGHT"; echo "$out" | grep -E '^error: .*lean:[0-9]+' | head -3
  # name the failing theorems
  for ln in $(echo "$out" | grep -oE 'C12SeqGen.lean:[0-9]+' | cut -d: -f2 | sort -nu | head -4); do
    awk -v L=$ln 'NR<=L && /^theorem|^example/ {t=$0} END{print "   in: " substr(t,1,90)}' FpVerif/Spec/C12SeqGen.lean
  done
  echo "$out" | grep -E 'SeqGenCover.lean:[0-9]+' | head -2
fi
(cd $WS/repo && git checkout -- "$file")
