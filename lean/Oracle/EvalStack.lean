import FpVerif.Sexp
import FpVerif.Model.EvalStack
/-! Oracle for the stack-instrumented model of lazy.Eval (C16, stack depth): prints the value and the
    depth (frames above the frame that called `lazy.Run` / `Get`) of every user callback that logged. -/
open FpVerif FpVerif.Sexp FpVerif.EvalM FpVerif.EvalStack FpVerif.EvalStack.Cost

abbrev E := SEval Int

/-- Go `int` arithmetic -/
def wrap (x : Int) : Int := (x + 9223372036854775808) % 18446744073709551616 - 9223372036854775808

def f1 : Sexp → Option (Int → Cost Int)
  | .list [.atom "lin", id, a, b] => do
    let id ← id.asInt?; let a ← a.asInt?; let b ← b.asInt?
    pure fun x => do emit s!"f{id}:{x}"; pure (wrap (a * x + b))
  | _ => none

def f2 : Sexp → Option (Int → Int → Cost Int)
  | .list [.atom "lin", id, a, b] => do
    let id ← id.asInt?; let a ← a.asInt?; let b ← b.asInt?
    pure fun x y => do emit s!"g{id}:{x},{y}"; pure (wrap (a * x + b * y))
  | _ => none

/-- the user code emits when `i` is a multiple of `every` -/
def tick (tag : String) (every i : Nat) (v : Int) : Cost Unit :=
  if every != 0 && i % every == 0 then emit s!"{tag}{i}:{v}" else pure ()

/-- a library constructor called by user code: one frame (`Done`, `FlatMap`), two for `TailCall`/`Call` (→ `Memoize`) -/
def lib1 : Cost Unit := call (pure ())
def lib2 : Cost Unit := call (call (pure ()))

mutual
partial def evOf : Sexp → Option E
  | .list [.atom "done", n] => do pure (done (← n.asInt?))
  | .list [.atom "zero"] => pure (.leaf none)
  | .list [.atom "call", id, n] => do
    let id ← id.asInt?; let n ← n.asInt?
    pure (callE (fun _ => do emit s!"c{id}"; pure n))
  | .list [.atom "tailCall", id, e] => do
    let id ← id.asInt?; let e ← evOf e
    pure (tailCall (fun _ => do emit s!"t{id}"; pure e))
  | .list (.atom "tailCallN" :: id :: xs) => do
    let id ← id.asInt?; let xs ← xs.mapM Sexp.asInt?
    let t := (xs.zipIdx.map (fun (x, i) => ((i : Int) + 1) * x)).foldl (· + ·) 0
    pure (tailCallN (fun _ => do emit s!"t{id}:{",".intercalate (xs.map toString)}"; lib1; pure (done t)))
  | .list [.atom "map", e, f] => do pure (map (← evOf e) (← f1 f))
  | .list [.atom "pmap", e, f] => do pure (map (← evOf e) (← f1 f))
  | .list [.atom "flatMap", e, k] => do pure (flatMap (← evOf e) (← keOf k))
  | .list [.atom "pflatMap", e, k] => do pure (flatMap (← evOf e) (← keOf k))
  | .list [.atom "map2", a, b, f] => do pure (map2 (← evOf a) (← evOf b) (← f2 f))
  | .list [.atom "getIn", id, e] => do
    let id ← id.asInt?; let e ← evOf e
    pure (callE (fun _ => do emit s!"g{id}"; get e))
  | .list [.atom "runIn", id, e] => do
    let id ← id.asInt?; let e ← evOf e
    pure (callE (fun _ => do emit s!"r{id}"; run e))
  | .list [.atom "tailGet", id, e] => do
    let id ← id.asInt?; let e ← evOf e
    pure (tailCall (fun _ => do emit s!"tg{id}"; let v ← get e; lib1; pure (done v)))
  | .list [.atom "tailLoop", ar, n, acc, every] => do
    let ar ← ar.asNat?; let n ← n.asNat?; let acc ← acc.asInt?; let every ← every.asNat?
    pure (tailLoop (ar != 0) (fun i a => do tick "L" every i a; lib2; pure (a + 1)) n acc)
  | .list [.atom "callLoop", n, acc, every] => do
    let n ← n.asNat?; let acc ← acc.asInt?; let every ← every.asNat?
    pure (callLoop (fun i a => do tick "C" every i a; (if i != 0 then lib2 else pure ()); pure (a + 1)) (fun r => r + 1) n acc)
  | .list [.atom "nestLoop", n, acc, every] => do
    let n ← n.asNat?; let acc ← acc.asInt?; let every ← every.asNat?
    pure (nestLoop (fun i a => do tick "N" every i a; lib2; pure (a + 1)) n acc)
  | .list [.atom "lchain", n, every, e] => do
    let n ← n.asNat?; let every ← every.asNat?; let e ← evOf e
    pure (lchain (fun j v => do tick "lc" every j v; lib1; pure (done (v + 1))) n e)
  | .list [.atom "rchain", n, every, v] => do
    let n ← n.asNat?; let every ← every.asNat?; let v ← v.asInt?
    pure (rchain (fun j w => do tick "rc" every j w; lib2; pure (w + 1)) n v)
  | .list [.atom "mapTower", n, every, e] => do
    let n ← n.asNat?; let every ← every.asNat?; let e ← evOf e
    pure (mapTower (fun j x => do tick "mt" every j x; pure (x + 1)) n e)
  | .list [.atom "map2Left", n, every, e] => do
    let n ← n.asNat?; let every ← every.asNat?; let e ← evOf e
    pure (map2Left (done 1) (fun j x y => do tick "ml" every j x; pure (x + y)) n e)
  | .list [.atom "map2Right", n, every, e] => do
    let n ← n.asNat?; let every ← every.asNat?; let e ← evOf e
    pure (map2Right (done 1) (fun j x y => do tick "mr" every j y; pure (x + y)) n e)
  | .list [.atom "tailFlat", n, acc, every] => do
    let n ← n.asNat?; let acc ← acc.asInt?; let every ← every.asNat?
    pure (tailFlat (fun i v => do tick "F" every i v; lib2; pure (v + 1)) n acc)
  | _ => none

partial def keOf : Sexp → Option (Int → Cost E)
  | .list [.atom "kdone", id, a, b] => do
    let id ← id.asInt?; let a ← a.asInt?; let b ← b.asInt?
    pure fun v => do emit s!"ke{id}:{v}"; lib1; pure (done (wrap (a * v + b)))
  | .list [.atom "kcall", id] => do
    let id ← id.asInt?
    pure fun v => do emit s!"ke{id}:{v}"; lib2; pure (callE (fun _ => do emit s!"kc{id}"; pure (v + 1)))
  | .list [.atom "ktail", id, a] => do
    let id ← id.asInt?; let a ← a.asInt?
    pure fun v => do emit s!"ke{id}:{v}"; lib2; pure (tailCall (fun _ => do emit s!"kt{id}"; lib1; pure (done (v + a))))
  | .list [.atom "kconst", id, e] => do
    let id ← id.asInt?; let e ← evOf e
    pure fun v => do emit s!"ke{id}:{v}"; pure e
  | _ => none
end

def showEv (p : DEvent) : String := s!"{p.1}@{p.2}"

def render (r : Cost Int) : String :=
  let ds := r.log.map Prod.snd
  let n := ds.length
  let mx := ds.foldl max 0
  let sm := ds.foldl (· + ·) 0
  let chk := (ds.zipIdx.foldl (fun a (d, i) => (a + (i + 1) * d) % 1000003) 0)
  let evs := if n ≤ 48 then r.log.map showEv
    else (r.log.take 16).map showEv ++ ["..."] ++ (r.log.drop (n - 16)).map showEv
  s!"{r.val} | n={n} max={mx} sum={sm} chk={chk} | {",".intercalate evs}"

def step (line : String) : String :=
  match Sexp.parse line with
  | some (.list [.atom m, e]) =>
    if m == "run" || m == "get" then
      match evOf e with
      | some e =>
        -- the loop, exactly as `Run` does it, with a generous iteration budget; one frame for `Run`, one more for `Get`
        match runLoop 100000000 e (pure ()) with
        | some r => render (if m == "get" then call (call r) else call r)
        | none => "out-of-fuel"
      | none => "bad-op"
    else "bad-op"
  | _ => "bad-op"

partial def loop (h out : IO.FS.Stream) : IO Unit := do
  let line ← h.getLine
  if line.isEmpty then return ()
  out.putStrLn (step line)
  loop h out

def main : IO Unit := do
  let out ← IO.getStdout
  loop (← IO.getStdin) out
  out.flush
