import FpVerif.Funcs
import FpVerif.Model.CollExpr
/-! Line-protocol oracle for the collection monads `seq` / `iterator` / `list` (C01): monad laws and
derived combinators.  Op lines as produced by harness/cmd/coll:

    (seq SX)                     -- evaluate a Seq expression
    (it IX (calls H N D …))      -- build an iterator expression, then HasNext / Next / drain (ToSeq loop)
    (lst LX)                     -- build a lazy list expression, traverse it twice

It runs `SX.eval`, `IX.build` + `IX.machine`, `LX.eval` + `Coll.toSeq` of Model/CollExpr.lean, i.e.
the definitions of Model/CollMonad.lean and Model/CollList.lean. -/
open FpVerif FpVerif.Sexp FpVerif.It FpVerif.Coll

/-! ## callback tables (the Go side: harness/cmd/coll/table.go) -/

/-- `Val → Val → Val → GoM Val` -/
def F3interp : Sexp → Option (Val → Val → Val → GoM Val)
  | .list [.atom "sum3", id] => do
    let id ← id.asInt?
    pure fun x y z => do emit s!"h{id}:{x},{y},{z}"; pure (.int (x.asInt + y.asInt + z.asInt))
  | .list [.atom "lin3", id, a, b, c] => do
    let id ← id.asInt?; let a ← a.asInt?; let b ← b.asInt?; let c ← c.asInt?
    pure fun x y z => do emit s!"h{id}:{x},{y},{z}"; pure (.int (a * x.asInt + b * y.asInt + c * z.asInt))
  | .list [.atom "tup3", id] => do
    let id ← id.asInt?
    pure fun x y z => do emit s!"h{id}:{x},{y},{z}"; pure (.tup [x, y, z])
  | .list [.atom "h3panic", id, p] => do
    let id ← id.asInt?; let p ← p.asInt?
    pure fun x y z => do emit s!"h{id}:{x},{y},{z}"; goPanic s!"{p}"
  | _ => none

/-- the shared backing table of the harness (`tbl`): callbacks may return VIEWS `tbl[o:o+n]` of it.
    In the model a view is its contents; nothing the library does may change the table. -/
def tblV : List El := (List.range 8).map (fun (i : Nat) => El.v (.int (100 + (i : Int))))

def window (o n : Nat) : List El := (tblV.drop o).take n

/-- Kleisli functions `Val → GoM (List El)`: the carrier's `Of(x, x+1, …)` -/
def Kinterp : Sexp → Option Kl
  | .list [.atom "kwin", id, m] => do
    let id ← id.asInt?; let m ← m.asInt?
    pure fun x => do emit s!"k{id}:{x}"; pure (window (emod x.asInt 3).toNat (emod x.asInt m).toNat)
  | .list [.atom "kof", id, n] => do
    let id ← id.asInt?; let n ← n.asNat?
    pure fun x => do emit s!"k{id}:{x}"; pure (repList x n)
  | .list [.atom "kmod", id, m] => do
    let id ← id.asInt?; let m ← m.asInt?
    pure fun x => do emit s!"k{id}:{x}"; pure (repList x (emod x.asInt m).toNat)
  | .list [.atom "kpanic", id, p] => do
    let id ← id.asInt?; let p ← p.asInt?
    pure fun x => do emit s!"k{id}:{x}"; goPanic s!"{p}"
  | .list [.atom "kpanicif", id, m, p] => do
    let id ← id.asInt?; let m ← m.asInt?; let p ← p.asInt?
    pure fun x => do
      emit s!"k{id}:{x}"
      if emod x.asInt m == 0 then goPanic s!"{p}" else pure [El.v (.int (x.asInt + 1))]
  | _ => none

/-- `Val → GoM (Option Val)` -/
def Ointerp : Sexp → Option (Val → GoM (Option Val))
  | .list [.atom "omod", id, m] => do
    let id ← id.asInt?; let m ← m.asInt?
    pure fun x => do
      emit s!"o{id}:{x}"
      if emod x.asInt m == 0 then pure none else pure (some (.int (x.asInt + 1)))
  | .list [.atom "opanic", id, p] => do
    let id ← id.asInt?; let p ← p.asInt?
    pure fun x => do emit s!"o{id}:{x}"; goPanic s!"{p}"
  | _ => none

/-- function values -/
def Fninterp : Sexp → Option Fn
  | .list [.atom "frep", id, n] => do
    let id ← id.asInt?; let n ← n.asNat?
    pure (.rep id n)
  | .list [.atom "c2", g] => do let g ← F2.interp g; pure (.c2 g)
  | .list [.atom "c3", h] => do let h ← F3interp h; pure (.c3 h)
  | s => do let f ← F1.interp s; pure (.u1 f)

partial def Elinterp : Sexp → Option El
  | .atom s => do let n ← s.toInt?; pure (.v (.int n))
  | .list [.atom "fn", f] => do let f ← Fninterp f; pure (.fn f)
  | .list (.atom "s" :: xs) => do let xs ← xs.mapM Elinterp; pure (.coll none xs)
  | .list [.atom "w", o, n] => do let o ← o.asNat?; let n ← n.asNat?; pure (.coll none (window o n))
  | .list (.atom "its" :: id :: xs) => do
    let id ← id.asNat?; let xs ← xs.mapM Elinterp; pure (.coll (some id) xs)
  | _ => none

partial def SXinterp : Sexp → Option SX
  | .list (.atom "of" :: xs) => do let xs ← xs.mapM Elinterp; pure (.of xs)
  | .list [.atom "pure", x] => do let x ← Elinterp x; pure (.unit x)
  | .list [.atom "map", e, f] => do let e ← SXinterp e; let f ← Fninterp f; pure (.map e f)
  | .list [.atom "lift", f, e] => do let f ← Fninterp f; let e ← SXinterp e; pure (.lift f e)
  | .list [.atom "flatmap", e, k] => do let e ← SXinterp e; let k ← Kinterp k; pure (.flatMap e k)
  | .list [.atom "liftm", k, e] => do let k ← Kinterp k; let e ← SXinterp e; pure (.liftM k e)
  | .list [.atom "compose", k1, k2, a] => do
    let k1 ← Kinterp k1; let k2 ← Kinterp k2; let a ← Elinterp a; pure (.compose k1 k2 a)
  | .list [.atom "composepure", f, a] => do let f ← Fninterp f; let a ← Elinterp a; pure (.composePure f a)
  | .list [.atom "flatten", e] => do let e ← SXinterp e; pure (.flatten e)
  | .list [.atom "ap", t, a] => do let t ← SXinterp t; let a ← SXinterp a; pure (.ap t a)
  | .list [.atom "map2", a, b, g] => do
    let a ← SXinterp a; let b ← SXinterp b; let g ← F2.interp g; pure (.map2 a b g)
  | .list [.atom "filtermap", e, o] => do let e ← SXinterp e; let o ← Ointerp o; pure (.filterMap e o)
  | .list [.atom "concat", h, t] => do let h ← Elinterp h; let t ← SXinterp t; pure (.concat h t)
  | _ => none

partial def IXinterp : Sexp → Option IX
  | .list (.atom "src" :: id :: xs) => do let id ← id.asNat?; let xs ← xs.mapM Elinterp; pure (.src id xs)
  | .list (.atom "of" :: xs) => do let xs ← xs.mapM Elinterp; pure (.ofs xs)
  | .list [.atom "map", e, f] => do let e ← IXinterp e; let f ← Fninterp f; pure (.map e f)
  | .list [.atom "lift", f, e] => do let f ← Fninterp f; let e ← IXinterp e; pure (.lift f e)
  | .list [.atom "flatmap", e, k] => do let e ← IXinterp e; let k ← Kinterp k; pure (.flatMap e k)
  | .list [.atom "compose", k1, k2, a] => do
    let k1 ← Kinterp k1; let k2 ← Kinterp k2; let a ← Elinterp a; pure (.compose k1 k2 a)
  | .list [.atom "composepure", f, a] => do let f ← Fninterp f; let a ← Elinterp a; pure (.composePure f a)
  | .list [.atom "flatten", e] => do let e ← IXinterp e; pure (.flatten e)
  | .list [.atom "ap", t, a] => do let t ← IXinterp t; let a ← IXinterp a; pure (.ap t a)
  | .list [.atom "map2", a, b, g] => do
    let a ← IXinterp a; let b ← IXinterp b; let g ← F2.interp g; pure (.map2 a b g)
  | .list [.atom "flap", t, a] => do let t ← IXinterp t; let a ← Elinterp a; pure (.flap t a)
  | .list [.atom "flap2", t, a, b] => do
    let t ← IXinterp t; let a ← Elinterp a; let b ← Elinterp b; pure (.flap2 t a b)
  | .list [.atom "flapmap", g, a, b] => do
    let g ← F2.interp g; let a ← IXinterp a; let b ← Elinterp b; pure (.flapMap g a b)
  | .list [.atom "method1", ta, g, b] => do
    let ta ← IXinterp ta; let g ← F2.interp g; let b ← Elinterp b; pure (.method1 ta g b)
  | .list [.atom "method2", ta, h, b, c] => do
    let ta ← IXinterp ta; let h ← F3interp h; let b ← Elinterp b; let c ← Elinterp c; pure (.method2 ta h b c)
  | _ => none

partial def LXinterp : Sexp → Option LX
  | .list (.atom "of" :: xs) => do let xs ← xs.mapM Elinterp; pure (.of xs)
  | .list [.atom "map", e, f] => do let e ← LXinterp e; let f ← Fninterp f; pure (.map e f)
  | .list [.atom "lift", f, e] => do let f ← Fninterp f; let e ← LXinterp e; pure (.lift f e)
  | .list [.atom "flatmap", e, k] => do let e ← LXinterp e; let k ← Kinterp k; pure (.flatMap e k)
  | .list [.atom "compose", k1, k2, a] => do
    let k1 ← Kinterp k1; let k2 ← Kinterp k2; let a ← Elinterp a; pure (.compose k1 k2 a)
  | .list [.atom "composepure", f, a] => do let f ← Fninterp f; let a ← Elinterp a; pure (.composePure f a)
  | .list [.atom "flatten", e] => do let e ← LXinterp e; pure (.flatten e)
  | .list [.atom "ap", t, a] => do let t ← LXinterp t; let a ← LXinterp a; pure (.ap t a)
  | .list [.atom "map2", a, b, g] => do
    let a ← LXinterp a; let b ← LXinterp b; let g ← F2.interp g; pure (.map2 a b g)
  | .list [.atom "flap", t, a] => do let t ← LXinterp t; let a ← Elinterp a; pure (.flap t a)
  | .list [.atom "flap2", t, a, b] => do
    let t ← LXinterp t; let a ← Elinterp a; let b ← Elinterp b; pure (.flap2 t a b)
  | .list [.atom "flapmap", g, a, b] => do
    let g ← F2.interp g; let a ← LXinterp a; let b ← Elinterp b; pure (.flapMap g a b)
  | .list [.atom "method1", ta, g, b] => do
    let ta ← LXinterp ta; let g ← F2.interp g; let b ← Elinterp b; pure (.method1 ta g b)
  | .list [.atom "method2", ta, h, b, c] => do
    let ta ← LXinterp ta; let h ← F3interp h; let b ← Elinterp b; let c ← Elinterp c; pure (.method2 ta h b c)
  | _ => none

/-! ## running -/

def showEls (xs : List El) : String := (Val.seq (El.toVals xs)).toStr

def showRes {X : Type} (sh : X → String) : Except PanicVal X → String
  | .ok x => sh x
  | .error p => s!"panic({p})"

def evs (lg : List Event) : String := ",".intercalate lg

def runSeq (e : SX) : String := renderOutcome showEls e.eval.exec ++ " T=" ++ showEls tblV

def runSeq2 (e : SX) : String :=
  renderOutcome (fun (p : List El × List El) => showEls p.1 ++ " ;; " ++ showEls p.2) e.evalTwice.exec
    ++ " T=" ++ showEls tblV

/-- two iterators from the same expression (for `Compose` / `ComposePure`: the returned function applied
    twice), both built first, then both drained -/
def runIt2 (e : IX) : String :=
  match e.build.run.run [] with
  | (.error p, lg) => s!"build-panic({p}) | {evs lg}"
  | (.ok s1, lg1) =>
    match e.build.run.run lg1 with
    | (.error p, lg) => s!"build-panic({p}) | {evs lg}"
    | (.ok s2, lg2) =>
      let m := e.machine
      let (r1, s1', lg3) := It.toSeq m FUEL [] s1 lg2
      let (r2, s2', lg4) := It.toSeq m FUEL [] s2 lg3
      let ps := (e.pulls s1' ++ e.pulls s2').map (fun p => s!"{p.1}={p.2}")
      "D=" ++ showRes showEls r1 ++ " D=" ++ showRes showEls r2 ++ " | " ++ evs lg4 ++ " # " ++ ",".intercalate ps

def runLst2 (e : LX) : String :=
  match e.evalTwice {} [] with
  | (.error p, _, lg) => s!"build-panic({p}) | {evs lg}"
  | (.ok (l1, l2), hp, lg) =>
    match Coll.toSeq FUEL l1 [] hp lg with
    | (.error p, _, lg1) => s!"panic({p}) | {evs lg1}"
    | (.ok xs, hp1, lg1) =>
      match Coll.toSeq FUEL l2 [] hp1 lg1 with
      | (r2, _, lg2) => s!"{showEls xs} ;; {showRes showEls r2} | {evs lg2}"

def runIt (e : IX) (calls : List String) : String :=
  match e.build.run.run [] with
  | (.error p, lg) => s!"build-panic({p}) | {evs lg}"
  | (.ok st0, lg0) => Id.run do
    let m := e.machine
    let mut st := st0
    let mut lg := lg0
    let mut toks : Array String := #[]
    for c in calls do
      if c == "H" then
        let (r, st', lg') := m.hasNext st lg
        toks := toks.push ("H=" ++ showRes (fun b => toString b) r)
        st := st'; lg := lg'
      else if c == "N" then
        let (r, st', lg') := m.next st lg
        toks := toks.push ("N=" ++ showRes (fun (x : El) => x.toVal.toStr) r)
        st := st'; lg := lg'
      else
        let (r, st', lg') := It.toSeq m FUEL [] st lg
        toks := toks.push ("D=" ++ showRes showEls r)
        st := st'; lg := lg'
    let ps := (e.pulls st).map (fun p => s!"{p.1}={p.2}")
    return " ".intercalate toks.toList ++ " | " ++ evs lg ++ " # " ++ ",".intercalate ps

def runLst (e : LX) : String :=
  match e.eval {} [] with
  | (.error p, _, lg) => s!"build-panic({p}) | {evs lg}"
  | (.ok l, hp, lg) =>
    match Coll.toSeq FUEL l [] hp lg with
    | (.error p, _, lg1) => s!"panic({p}) | {evs lg1}"
    | (.ok xs, hp1, lg1) =>
      -- second traversal (memoised: nothing runs), and the denotation of the expression
      match Coll.toSeq FUEL l [] hp1 [] with
      | (r2, _, lg2) =>
        s!"{showEls xs} | {evs lg1} || {showRes showEls r2} | {evs lg2} || den={showEls e.den}"

def step (line : String) : String :=
  match Sexp.parse line with
  | some (.list [.atom "seq", e]) =>
    match SXinterp e with
    | some e => runSeq e
    | none => "bad-op"
  | some (.list [.atom "it", e, .list (.atom "calls" :: cs)]) =>
    match IXinterp e with
    | some e => runIt e (cs.map Sexp.toStr)
    | none => "bad-op"
  | some (.list [.atom "lst", e]) =>
    match LXinterp e with
    | some e => runLst e
    | none => "bad-op"
  | some (.list [.atom "seq2", e]) =>
    match SXinterp e with
    | some e => runSeq2 e
    | none => "bad-op"
  | some (.list [.atom "it2", e]) =>
    match IXinterp e with
    | some e => runIt2 e
    | none => "bad-op"
  | some (.list [.atom "lst2", e]) =>
    match LXinterp e with
    | some e => runLst2 e
    | none => "bad-op"
  | _ => "bad-op"

partial def loop (h : IO.FS.Stream) (out : IO.FS.Stream) : IO Unit := do
  let line ← h.getLine
  if line.isEmpty then return ()
  out.putStrLn (step line)
  loop h out

def main : IO Unit := do
  let out ← IO.getStdout
  loop (← IO.getStdin) out
  out.flush
