import Oracle.RecordStep
/-! Line-protocol oracle for the record model (C07): `oracle_record` (the answers are in
    `Oracle/RecordStep.lean`). -/
open FpVerif FpVerif.Sexp FpVerif.Rec

partial def loop (h : IO.FS.Stream) (out : IO.FS.Stream) : IO Unit := do
  let line ← h.getLine
  if line.isEmpty then return ()
  out.putStrLn (recordStep line)
  loop h out

def main : IO Unit := do
  let out ← IO.getStdout
  loop (← IO.getStdin) out
  out.flush
