import FpVerif.Funcs
import FpVerif.Model.ListX
/-!
Line-protocol oracle for the conversion / access functions of `fp.Seq`, the lazy `fp.List`, `xtr` (C12, LISTX).

  (lx  <lexpr> (<op> ...))        a lazy list and a script of operations on it (one heap: memoisation shows)
  (px  <pexpr> (<op> ...))        a list of pairs: ToGoMap / ToMap / …
  (rec <1|2> a1 a2 <rel> (<op> ...))   list.Recurrence1 / Recurrence2
  (sq  (x ...) <op>)              fp.Seq accessors, seq.*, xtr.*, seq.FoldRight, seq.FoldFuture
  (sqnil (x|nil ...))             seq.FilterNil
  (gm  (k v ...) <op>)            functions that enumerate a Go map (answers sorted)

Answer of `lx`/`px`/`rec`: one token `<op>=<result>{<events>}` per step, first token the construction `B`.
Answer of `sq`/`sqnil`/`gm`: `<value or panic(p)> | <events>`.
-/
open FpVerif FpVerif.Sexp FpVerif.It FpVerif.LL FpVerif.LX

def FUEL : Nat := 200000

def asVals? : List Sexp → Option (List Val)
  | xs => xs.mapM (fun x => do pure (Val.int (← x.asInt?)))

def wrap64 (n : Int) : Int :=
  let m := Int.emod n 18446744073709551616
  if m ≥ 9223372036854775808 then m - 18446744073709551616 else m

partial def wrapV : Val → Val
  | .int n => .int (wrap64 n)
  | .tup xs => .tup (xs.map wrapV)
  | v => v

def w1 (f : Val → GoM Val) : Val → GoM Val := fun x => do pure (wrapV (← f x))
def w2 (f : Val → Val → GoM Val) : Val → Val → GoM Val := fun x y => do pure (wrapV (← f x y))

def omod (id m : Int) : Val → GoM (Option Val) := fun x => do
  emit s!"o{id}:{x}"
  if emod x.asInt m == 0 then pure none else pure (some (.int (wrap64 (x.asInt + 1))))

def showRes {X : Type} (sh : X → String) : Except PanicVal X → String
  | .ok x => sh x
  | .error p => s!"panic({p})"

def tok (name res : String) (lg : Log) : String :=
  s!"{name}={res}" ++ "{" ++ ",".intercalate lg ++ "}"

def showOpt (o : Option Val) : String := toString (Val.ofOption o)
def showSeq (l : List Val) : String := toString (Val.seq l)
def showBool (b : Bool) : String := if b then "true" else "false"

/-- insertion sort of rendered entries (both sides sort the rendered strings) -/
def ssort (l : List String) : List String :=
  l.foldl (fun acc v =>
    let (lo, hi) := acc.span (fun w => decide (w ≤ v))
    lo ++ [v] ++ hi) []

def showKV (m : KV) : String :=
  "{" ++ ",".intercalate (ssort (m.map fun (k, v) => s!"{k}=>{v}")) ++ "}"

def showSet (s : List Val) : String :=
  "{" ++ ",".intercalate (ssort (s.map toString)) ++ "}"

def showSorted (l : List Val) : String :=
  "[" ++ ",".intercalate (ssort (l.map toString)) ++ "]"

def tryStep (g : Val → Val → GoM Val) (m e : Int) : Val → Val → GoM (Try Val) := fun b a => do
  let r ← g b a
  if emod r.asInt m == 0 then pure (.failure (.code e)) else pure (.success r)

/-! ## list expressions (same grammar as the `iter` harness, plus `lptr`, `lrevs`) -/

partial def parseL : Sexp → Option LExpr
  | .list [.atom "lempty"] => pure .empty
  | .list (.atom "lof" :: xs) => do pure (.of (← asVals? xs))
  | .list [.atom "larg", n] => do pure (.argOf (← n.asNat?))
  | .list [.atom "lapply", h, t] => do pure (.apply (.int (← h.asInt?)) (← parseL t))
  | .list [.atom "lgen", id, n] => do pure (.generate (← id.asInt?) (← n.asInt?))
  | .list [.atom "lrange", a, b] => do pure (.range false (← a.asInt?) (← b.asInt?))
  | .list [.atom "lrangec", a, b] => do pure (.range true (← a.asInt?) (← b.asInt?))
  | .list (.atom "lrev" :: xs) => do pure (.reverse (← asVals? xs))
  | .list (.atom "lrevs" :: xs) => do pure (.reverse (← asVals? xs))          -- list.ReverseSlice
  | .list (.atom "lcollect" :: id :: xs) => do pure (.collect (← id.asInt?) (← asVals? xs))
  | .list [.atom "lopt"] => pure (.fromOption none)
  | .list [.atom "lopt", x] => do pure (.fromOption (some (.int (← x.asInt?))))
  | .list [.atom "lptr"] => pure .empty                                          -- list.FromPtr(nil): see `fromPtr`
  | .list [.atom "lptr", x] => do pure (.of [.int (← x.asInt?)])
  | .list [.atom "lmap", e, f] => do pure (.map (← parseL e) (w1 (← F1.interp f)))
  | .list [.atom "lflatmap", e, id, k] => do pure (.flatMap (← parseL e) (← id.asInt?) (← parseL k))
  | .list [.atom "lfiltermap", e, .list [.atom "omod", id, m]] => do
      pure (.filterMap (← parseL e) (omod (← id.asInt?) (← m.asInt?)))
  | .list [.atom "lcombine", a, b] => do pure (.combine (← parseL a) (← parseL b))
  | .list [.atom "lzip", a, b] => do pure (.zip (← parseL a) (← parseL b))
  | .list [.atom "lzipidx", e] => do pure (.zipidx (← parseL e))
  | .list [.atom "lscan", e, z, g] => do pure (.scan (← parseL e) (.int (← z.asInt?)) (w2 (← F2.interp g)))
  | _ => none

def asPairs? : List Sexp → Option (List (Val × Val))
  | [] => some []
  | k :: v :: rest => do
    let ps ← asPairs? rest
    pure ((.int (← k.asInt?), .int (← v.asInt?)) :: ps)
  | _ => none

/-- lists of pairs: `fp.List[fp.Tuple2[any, any]]` -/
partial def parseP : Sexp → Option LExpr
  | .list [.atom "pzip", a, b] => do pure (.zip (← parseL a) (← parseL b))
  | .list [.atom "pkey", e, f] => do
      let f := w1 (← F1.interp f)
      pure (.map (← parseL e) (fun x => do let k ← f x; pure (.tup [k, x])))
  | .list (.atom "pof" :: kvs) => do pure (.of ((← asPairs? kvs).map pairVal))
  | .list [.atom "papply", k, v, p] => do
      pure (.apply (.tup [.int (← k.asInt?), .int (← v.asInt?)]) (← parseP p))
  | .list [.atom "pcombine", a, b] => do pure (.combine (← parseP a) (← parseP b))
  | _ => none

/-- `lptr` is `list.FromPtr`; the expression language has no constructor for it, the values are those of
    `LX.fromPtr` (checked here so that the oracle runs the model definition) -/
def fromPtrAgrees : Bool :=
  (match fromPtr none with | .nil => true | _ => false) &&
  (match fromPtr (some (.int 7)) with | .seq [.int 7] => true | _ => false)

def noSrc (lg : Log) : Log := lg.filter (fun e => !e.startsWith "s0:")

def stepL (l : LV) (op : Sexp) (hp : Heap) : Option (String × String × Heap × Log) :=
  let fin {X : Type} (name : String) (sh : X → String) (r : Except PanicVal X × Heap × Log) :=
    if r.2.1.maxEvals > 1 then some (name, "memo-violation", r.2.1, r.2.2)
    else some (name, showRes sh r.1, r.2.1, r.2.2)
  match op with
  | .list [.atom "isempty"] => fin "isempty" showBool (LL.isEmpty FUEL l hp [])
  | .list [.atom "nonempty"] => fin "nonempty" showBool (LX.nonEmpty FUEL l hp [])
  | .list [.atom "head"] => fin "head" showOpt (LL.headOpt FUEL l hp [])
  | .list [.atom "headm"] => fin "headm" toString (LL.head FUEL l hp [])
  | .list [.atom "tailhead", n] => do
      let n ← n.asNat?
      let m : HM (Option Val) := do
        let mut cur := l
        for _ in [0:n] do
          cur ← LL.tail FUEL cur
        LL.headOpt FUEL cur
      fin "tailhead" showOpt (m hp [])
  | .list [.atom "unapply"] =>
      let m : HM (Val × Option Val) := do
        let (h, t) ← LX.unapply FUEL l
        let th ← LL.headOpt FUEL t
        pure (h, th)
      fin "unapply" (fun (r : Val × Option Val) => s!"({r.1},{showOpt r.2})") (m hp [])
  | .list [.atom "foreach", f] => do
      let f ← F1.interp f
      fin "foreach" (fun _ => "unit") (LX.foreachL (fun v => do let _ ← f v; pure ()) FUEL l hp [])
  | .list [.atom "toseq"] => fin "toseq" showSeq (LX.toSeqM FUEL l [] hp [])
  | .list [.atom "toset", _] => fin "toset" showSet (LX.toSet FUEL l hp [])
  | .list [.atom "togoset"] => fin "togoset" showSet (LX.toGoSet FUEL l hp [])
  | .list [.atom "togomap"] => fin "togomap" showKV (LX.toGoMap FUEL l hp [])
  | .list [.atom "tomap", _] => fin "tomap" showKV (LX.toMap FUEL l hp [])
  | .list [.atom "foldfut", z, g, mm, e, _] => do
      fin "foldfut" (fun t => toString (Val.ofTry t))
        (LX.foldFuture (tryStep (w2 (← F2.interp g)) (← mm.asInt?) (← e.asInt?)) FUEL l (.int (← z.asInt?)) hp [])
  | _ => none

def runOpsL (l : LV) (hp : Heap) : List Sexp → List String → Option (List String)
  | [], acc => some acc.reverse
  | op :: ops, acc =>
    match stepL l op hp with
    | some (name, res, hp', lg) => runOpsL l hp' ops (tok name res lg :: acc)
    | none => none

def runList (e : LExpr) (ops : List Sexp) : Option String :=
  match LL.eval FUEL e (.int 0) {} [] with
  | (.ok l, hp, lg) => do
    let toks ← runOpsL l hp ops [tok "B" "ok" lg]
    pure (" ".intercalate toks)
  | (.error p, _, lg) => some ("B=panic(" ++ p ++ "){" ++ ",".intercalate lg ++ "}")

/-! ## recurrences -/

def parseRel (kind : Nat) (s : Sexp) : Option Rec.Rel :=
  if kind == 1 then do pure (.r1 (w1 (← F1.interp s)))
  else do pure (.r2 (w2 (← F2.interp s)))

def stepR (rel : Rec.Rel) (l : Rec.RV) (op : Sexp) (hp : Rec.RHeap) : Option (String × String × Rec.RHeap × Log) :=
  let fin {X : Type} (name : String) (sh : X → String) (r : Except PanicVal X × Rec.RHeap × Log) :=
    if r.2.1.maxEvals > 1 then some (name, "memo-violation", r.2.1, r.2.2)
    else some (name, showRes sh r.1, r.2.1, r.2.2)
  match op with
  | .list [.atom "isempty"] => fin "isempty" showBool (Rec.isEmpty l hp [])
  | .list [.atom "take", n] => do fin "take" showSeq (Rec.take rel (← n.asNat?) l [] hp [])
  | .list [.atom "nth", k] => do fin "nth" toString (Rec.nth rel (← k.asNat?) l hp [])
  | _ => none

def runOpsR (rel : Rec.Rel) (l : Rec.RV) (hp : Rec.RHeap) : List Sexp → List String → Option (List String)
  | [], acc => some acc.reverse
  | op :: ops, acc =>
    match stepR rel l op hp with
    | some (name, res, hp', lg) => runOpsR rel l hp' ops (tok name res lg :: acc)
    | none => none

def runRec (rel : Rec.Rel) (a1 a2 : Int) (ops : List Sexp) : Option String :=
  match Rec.recurrence rel (.int a1) (.int a2) {} [] with
  | (.ok l, hp, lg) => do
    let toks ← runOpsR rel l hp ops [tok "B" "ok" lg]
    pure (" ".intercalate toks)
  | (.error p, _, lg) => some ("B=panic(" ++ p ++ "){" ++ ",".intercalate lg ++ "}")

/-! ## seq -/

def outcome {X : Type} (sh : X → String) (m : GoM X) : String := renderOutcome sh m.exec

def liftE {X : Type} (e : Except PanicVal X) : GoM X :=
  match e with
  | .ok x => pure x
  | .error p => goPanic p

/-- the step functions of `seq.FoldRight` the harness uses -/
def parseRS : Sexp → Option (Val → GoM Val → GoM Val)
  | .list [.atom "rforce", g] => do
      let g := w2 (← F2.interp g)
      pure fun a th => do let b ← th; g a b
  | .list [.atom "rstop", p] => do
      let p ← P1.interp p
      pure fun a th => do if ← p a then pure a else th
  | .list [.atom "rconst", f] => do
      let f := w1 (← F1.interp f)
      pure fun a _ => f a
  | .list [.atom "rlog", id, g] => do
      let id ← id.asInt?
      let g := w2 (← F2.interp g)
      pure fun a th => do emit s!"r{id}:{a}"; let b ← th; g a b
  | _ => none

def stepSq (xs : List Val) (op : Sexp) : Option String :=
  match op with
  | .list [.atom "size"] => some (outcome toString (pure (Sq.size xs)))
  | .list [.atom "isempty"] => some (outcome showBool (pure (Sq.isEmpty xs)))
  | .list [.atom "nonempty"] => some (outcome showBool (pure (Sq.nonEmpty xs)))
  | .list [.atom "get", i] => do some (outcome showOpt (liftE (Sq.get xs (← i.asInt?))))
  | .list [.atom "head"] => some (outcome showOpt (pure (Sq.head xs)))
  | .list [.atom "init"] => some (outcome showSeq (pure (Sq.init xs)))
  | .list [.atom "last"] => some (outcome showOpt (pure (Sq.last xs)))
  | .list [.atom "tail"] => some (outcome showSeq (pure (Sq.tail xs)))
  | .list [.atom "xhead"] => some (outcome showOpt (pure (Sq.head xs)))
  | .list [.atom "xinit"] => some (outcome showSeq (pure (Sq.init xs)))
  | .list [.atom "xlast"] => some (outcome showOpt (pure (Sq.last xs)))
  | .list [.atom "xtail"] => some (outcome showSeq (pure (Sq.tail xs)))
  | .list [.atom "cast"] => some (outcome showSeq (pure (Sq.sliceCasting xs)))
  | .list [.atom "foreach", f] => do
      let f ← F1.interp f
      some (outcome (fun _ => "unit") (Sq.foreach (fun v => do let _ ← f v; pure ()) xs))
  | .list [.atom "foldr", z, rs] => do
      some (outcome toString (Sq.foldRight (.int (← z.asInt?)) (← parseRS rs) xs))
  | .list [.atom "foldfut", z, g, mm, e, _] => do
      some (outcome (fun t => toString (Val.ofTry t))
        (LX.seqFoldFuture (tryStep (w2 (← F2.interp g)) (← mm.asInt?) (← e.asInt?)) xs (.int (← z.asInt?))))
  | _ => none

def parseNil : List Sexp → Option (List (Option Val))
  | [] => some []
  | .atom "nil" :: r => do pure (none :: (← parseNil r))
  | x :: r => do pure (some (.int (← x.asInt?)) :: (← parseNil r))

/-- functions enumerating a Go map.  The oracle enumerates in insertion order; every answer is sorted
    (the theorems hold for every enumeration). -/
def stepGm (ps : List (Val × Val)) (op : Sexp) : Option String :=
  let enum := mapOfPairs ps
  let viaList (m : HM LV) : String :=
    let r : HM (List Val) := do
      let l ← m
      let a ← LX.toSeqM FUEL l []
      let b ← LX.toSeqM FUEL l []      -- memoised: the second traversal sees the same elements
      if showSeq a == showSeq b then pure a else IM.panic "second-traversal-differs"
    match r {} [] with
    | (res, hp, lg) =>
      if hp.maxEvals > 1 then "memo-violation" else showRes showSorted res ++ " | " ++ ",".intercalate (noSrc lg)
  match op with
  | .atom "seqfrommap" => some (outcome showSorted (pure (Sq.fromMap enum)))
  | .atom "seqkeys" => some (outcome showSorted (pure (Sq.fromMapKeys enum)))
  | .atom "seqvalues" => some (outcome showSorted (pure (Sq.fromMapValues enum)))
  | .atom "listfrommap" => some (viaList (LX.fromMap FUEL enum))
  | .atom "listkeys" => some (viaList (LX.fromMapKey FUEL enum))
  | .atom "listvalues" => some (viaList (LX.fromMapValue FUEL enum))
  | _ => none

def step (line : String) : String :=
  match Sexp.parse line with
  | some (.list [.atom "lx", e, .list ops]) =>
    match parseL e with
    | some e => if fromPtrAgrees then (runList e ops).getD "bad-op" else "model-divergence(fromPtr)"
    | none => "bad-op"
  | some (.list [.atom "px", e, .list ops]) =>
    match parseP e with
    | some e => (runList e ops).getD "bad-op"
    | none => "bad-op"
  | some (.list [.atom "rec", kind, a1, a2, rel, .list ops]) =>
    match kind.asNat?, a1.asInt?, a2.asInt? with
    | some kind, some a1, some a2 =>
      match parseRel kind rel with
      | some rel => (runRec rel a1 a2 ops).getD "bad-op"
      | none => "bad-op"
    | _, _, _ => "bad-op"
  | some (.list [.atom "sq", .list xs, op]) =>
    match asVals? xs with
    | some xs => (stepSq xs op).getD "bad-op"
    | none => "bad-op"
  | some (.list [.atom "sqnil", .list xs]) =>
    match parseNil xs with
    | some os => outcome showSeq (pure (Sq.filterNil os))
    | none => "bad-op"
  | some (.list [.atom "gm", .list kvs, op]) =>
    match asPairs? kvs with
    | some ps => (stepGm ps op).getD "bad-op"
    | none => "bad-op"
  | _ => "bad-op"

partial def loop (h : IO.FS.Stream) (out : IO.FS.Stream) : IO Unit := do
  let line ← h.getLine
  if line.isEmpty then return ()
  out.putStrLn (step line)
  loop h out

def main : IO Unit := do
  let out ← IO.getStdout
  loop (← IO.getStdin) out
  out.flush
