import FpVerif.Sexp
import FpVerif.Model.SliceHeap
/-! Oracle for the slice-heap persistence model of fp.Seq (C04). -/
open FpVerif FpVerif.Sexp FpVerif.SliceHeap

def emodI (x m : Int) : Int := if m == 0 then 0 else Int.emod x m

def opOf (live : List Slice) : Sexp → Option Op
  | .list [.atom "widen"] => some .widen
  | .list [.atom "init"] => some .init
  | .list [.atom "tail"] => some .tail
  | .list [.atom "take", n] => do pure (.take (← n.asNat?))
  | .list [.atom "drop", n] => do pure (.drop (← n.asNat?))
  | .list [.atom "filter", m, r] => do
      let m ← m.asInt?; let r ← r.asInt?
      pure (.filter (fun x => emodI x m == r))
  | .list [.atom "filterNot", m, r] => do
      let m ← m.asInt?; let r ← r.asInt?
      pure (.filterNot (fun x => emodI x m == r))
  | .list [.atom "map", k, c] => do
      let k ← k.asInt?; let c ← c.asInt?
      pure (.map (fun x => k * x + c))
  | .list [.atom "mapPkg", k, c] => do
      let k ← k.asInt?; let c ← c.asInt?
      pure (.mapPkg (fun x => k * x + c))
  | .list [.atom "add", x] => do pure (.add (← x.asInt?))
  | .list (.atom "append" :: xs) => do pure (.append (← xs.mapM Sexp.asInt?))
  | .list [.atom "concat", j] => do pure (.concat (live.getD (← j.asNat?) Slice.nil))
  | .list [.atom "reverse"] => some .reverse
  | .list [.atom "sort", .atom "asc"] => some (.sort (fun a b => decide (a < b)))
  | .list [.atom "sort", .atom "desc"] => some (.sort (fun a b => decide (b < a)))
  | .list [.atom "distinct"] => some .distinct
  | .list [.atom "scan", z] => do pure (.scan (← z.asInt?) (fun b x => b + x))
  | .list [.atom "span", m, r] => do
      let m ← m.asInt?; let r ← r.asInt?
      pure (.span (fun x => emodI x m == r))
  | .list [.atom "partition", m, r] => do
      let m ← m.asInt?; let r ← r.asInt?
      pure (.partition (fun x => emodI x m == r))
  | .list [.atom "fold"] => some .fold
  | .list [.atom "groupBy"] => some .groupBy
  | .list [.atom "toGoMap"] => some .toGoMap
  | .list [.atom "collect"] => some .collect
  | .list [.atom "flatten2"] => some .flatten2
  | _ => none

/-- canonical rendering: `nil`, `len0`, or `a<id>+<off>:[…]` with ids by first appearance among non-empty slices -/
def describe (h : Heap) (ids : List Nat) (s : Slice) : String × List Nat :=
  match s.arr with
  | none => ("nil", ids)
  | some a =>
    if s.len == 0 then ("len0", ids)
    else
      let (id, ids) := match ids.idxOf? a with
        | some i => (i, ids)
        | none => (ids.length, ids ++ [a])
      (s!"a{id}+{s.off}:[{",".intercalate ((view h s).map toString)}]", ids)

def describeAll (h : Heap) (ids : List Nat) (ss : List Slice) : List String × List Nat :=
  ss.foldl (fun (acc : List String × List Nat) s =>
    let (d, ids) := describe h acc.2 s
    (acc.1 ++ [d], ids)) ([], ids)

def runHist : Sexp → Option String
  | .list (.atom "hist" :: .list (.atom "arr" :: xs) :: rest) => do
      let base ← xs.mapM Sexp.asInt?
      let mut w : World := { heap := [base], live := [] }
      let mut ids : List Nat := []
      let mut out : List String := []
      for st in rest do
        match st with
        | .list [.atom "slice", off, len, cap] =>
          let off ← off.asNat?; let len ← len.asNat?; let cap ← cap.asNat?
          let s : Slice := { arr := some 0, off := off, len := len, cap := cap }
          -- a window of an empty base array is still non-nil
          let (d, ids') := describe w.heap ids s
          ids := ids'
          w := { w with live := w.live ++ [s] }
          out := out ++ [d]
        | .list [i, op] =>
          let i ← i.asNat?
          let op ← opOf w.live op
          let s := w.live.getD i Slice.nil
          let r := apply w.heap s op
          let h' := heapAfter w.heap r
          let (ds, ids') := describeAll h' ids (results w.heap r)
          ids := ids'
          w := { heap := h', live := w.live ++ results w.heap r }
          out := out ++ [" ".intercalate ds ++ "!"]
        | _ => none
      pure (" ; ".intercalate out ++ " | ")
  | _ => none

def stepLine (line : String) : String :=
  match Sexp.parse line with
  | some op => (runHist op).getD "bad-op"
  | none => "bad-op"

partial def loop (h out : IO.FS.Stream) : IO Unit := do
  let line ← h.getLine
  if line.isEmpty then return ()
  out.putStrLn (stepLine line)
  loop h out

def main : IO Unit := do
  let out ← IO.getStdout
  loop (← IO.getStdin) out
  out.flush
