import FpVerif.Sexp
import FpVerif.Model.SliceHeap
/-! Oracle for the slice-heap persistence model of fp.Seq (C04). -/
open FpVerif FpVerif.Sexp FpVerif.SliceHeap

def emodI (x m : Int) : Int := if m == 0 then 0 else Int.emod x m

def liveAt (live : List Slice) (j : Sexp) : Option Slice := do pure (live.getD (← j.asNat?) Slice.nil)

/-- the callback of FlatMap: the element selects one of the live slices -/
def pickLive (live : List Slice) (k : Int) : Int → Slice :=
  fun v => live.getD (emodI (v + k) live.length).toNat Slice.nil

def affine : Sexp → Option (Int → Int)
  | .list [k, c] => do
      let k ← k.asInt?; let c ← c.asInt?
      pure (fun x => k * x + c)
  | _ => none

def opOf (live : List Slice) : Sexp → Option Op
  | .list [.atom "widen"] => some .widen
  | .list [.atom "init"] => some .init
  | .list [.atom "tail"] => some .tail
  | .list [.atom "unSeq"] => some .unSeq
  | .list [.atom "take", n] => do pure (.take (← n.asNat?))
  | .list [.atom "drop", n] => do pure (.drop (← n.asNat?))
  | .list [.atom "filter", m, r] => do
      let m ← m.asInt?; let r ← r.asInt?
      pure (.filter (fun x => emodI x m == r))
  | .list [.atom "filterNot", m, r] => do
      let m ← m.asInt?; let r ← r.asInt?
      pure (.filterNot (fun x => emodI x m == r))
  | .list [.atom "map", k, c] => do
      let k ← k.asInt?; let c ← c.asInt?
      pure (.map (fun x => k * x + c))
  | .list [.atom "mapPkg", k, c] => do
      let k ← k.asInt?; let c ← c.asInt?
      pure (.mapPkg (fun x => k * x + c))
  | .list [.atom "flatMap", k] => do pure (.flatMap (pickLive live (← k.asInt?)))
  | .list [.atom "flatMapPkg", k] => do pure (.flatMapPkg (pickLive live (← k.asInt?)))
  | .list (.atom "flatten" :: js) => do pure (.flatten (← js.mapM (liveAt live)))
  | .list [.atom "flatten2"] => none
  | .list (.atom "ap" :: fs) => do pure (.ap (← fs.mapM affine))
  | .list [.atom "map2", j] => do pure (.map2 (← liveAt live j) (fun a b => 10 * a + b))
  | .list [.atom "filterMap", m, r] => do
      let m ← m.asInt?; let r ← r.asInt?
      pure (.filterMap (fun x => if emodI x m == r then some (x + 1) else none))
  | .list [.atom "concatPkg", x] => do pure (.concatPkg (← x.asInt?))
  | .list [.atom "ofPkg"] => some .ofPkg
  | .list [.atom "pure", x] => do pure (.pure (← x.asInt?))
  | .list [.atom "mergeCombine", _, j] => do pure (.mergeCombine (← liveAt live j))
  | .list [.atom "mergeEmpty", _] => some .mergeEmpty
  | .list (.atom "reduceMerge" :: js) => do pure (.reduceMerge (← js.mapM (liveAt live)))
  | .list [.atom "iterToSeq", _] => some .iterToSeq
  | .list [.atom "optToSeq", .atom "none"] => some (.optToSeq none)
  | .list [.atom "optToSeq", x] => do pure (.optToSeq (some (← x.asInt?)))
  | .list [.atom "add", x] => do pure (.add (← x.asInt?))
  | .list (.atom "append" :: xs) => do pure (.append (← xs.mapM Sexp.asInt?))
  | .list [.atom "concat", j] => do pure (.concat (← liveAt live j))
  | .list [.atom "reverse"] => some .reverse
  | .list [.atom "sort", .atom "asc"] => some (.sort (fun a b => decide (a < b)))
  | .list [.atom "sort", .atom "desc"] => some (.sort (fun a b => decide (b < a)))
  | .list [.atom "distinct"] => some .distinct
  | .list [.atom "scan", z] => do pure (.scan (← z.asInt?) (fun b x => b + x))
  | .list [.atom "span", m, r] => do
      let m ← m.asInt?; let r ← r.asInt?
      pure (.span (fun x => emodI x m == r))
  | .list [.atom "partition", m, r] => do
      let m ← m.asInt?; let r ← r.asInt?
      pure (.partition (fun x => emodI x m == r))
  | .list [.atom "fold"] => some .fold
  | .list [.atom "groupBy"] => some .groupBy
  | .list [.atom "toGoMap"] => some .toGoMap
  | .list [.atom "collect"] => some .collect
  | _ => none

/-- canonical rendering: `nil`, `len0`, or `a<id>+<off>:[…]` with ids by first appearance among non-empty slices -/
def describe (h : Heap) (ids : List Nat) (s : Slice) : String × List Nat :=
  match s.arr with
  | none => ("nil", ids)
  | some a =>
    if s.len == 0 then ("len0", ids)
    else
      let (id, ids) := match ids.idxOf? a with
        | some i => (i, ids)
        | none => (ids.length, ids ++ [a])
      (s!"a{id}+{s.off}:[{",".intercalate ((view h s).map toString)}]", ids)

def describeAll (h : Heap) (ids : List Nat) (ss : List Slice) : List String × List Nat :=
  ss.foldl (fun (acc : List String × List Nat) s =>
    let (d, ids) := describe h acc.2 s
    (acc.1 ++ [d], ids)) ([], ids)

def runHist : Sexp → Option String
  | .list (.atom "hist" :: .list (.atom "arr" :: xs) :: rest) => do
      let base ← xs.mapM Sexp.asInt?
      let mut w : World := { heap := [base], live := [] }
      let mut ids : List Nat := []
      let mut out : List String := []
      for st in rest do
        match st with
        | .list [.atom "slice", off, len, cap] =>
          let off ← off.asNat?; let len ← len.asNat?; let cap ← cap.asNat?
          let s : Slice := { arr := some 0, off := off, len := len, cap := cap }
          -- a window of an empty base array is still non-nil
          let (d, ids') := describe w.heap ids s
          ids := ids'
          w := { w with live := w.live ++ [s] }
          out := out ++ [d]
        | .list [i, op] =>
          let i ← i.asNat?
          let s := w.live.getD i Slice.nil
          let op ← match op with
            | .list [.atom "flatten2"] => some (Op.flatten [s, s])
            | _ => opOf w.live op
          let (rs, h') := exec w.heap s op
          let (ds, ids') := describeAll h' ids rs
          ids := ids'
          w := { heap := h', live := w.live ++ rs }
          out := out ++ [" ".intercalate ds ++ "!"]
        | _ => none
      pure (" ; ".intercalate out ++ " | ")
  | _ => none

def stepLine (line : String) : String :=
  match Sexp.parse line with
  | some op => (runHist op).getD "bad-op"
  | none => "bad-op"

partial def loop (h out : IO.FS.Stream) : IO Unit := do
  let line ← h.getLine
  if line.isEmpty then return ()
  out.putStrLn (stepLine line)
  loop h out

def main : IO Unit := do
  let out ← IO.getStdout
  loop (← IO.getStdin) out
  out.flush
