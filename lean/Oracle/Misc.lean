import FpVerif.Funcs
import FpVerif.Model.Misc
/-! Line-protocol oracle for the non-indexed conversions and adapters (C14 remainder, C11 adapters).
Op lines `(<function> args…)` as produced by harness/cmd/misc; every answer is computed by the
definitions of `FpVerif/Model/Misc.lean`, the very definitions `Spec/C14Misc.lean` is about. -/
open FpVerif FpVerif.Sexp FpVerif.Misc

/-- results: values, booleans (Go's `true`/`false`), slices of results -/
inductive Out where
  | v (x : Val)
  | b (x : Bool)
  | l (xs : List Out)
  | raw (s : String)

partial def Out.toStr : Out → String
  | .v x => toString x
  | .b true => "true"
  | .b false => "false"
  | .l xs => "[" ++ ",".intercalate (xs.map Out.toStr) ++ "]"
  | .raw s => s

def ret (o : Out) : GoM String := pure o.toStr

def vint (s : Sexp) : Option Val := do pure (.int (← s.asInt?))

def atomStr : Sexp → Option String
  | .atom a => some a
  | _ => none

def dynOf : Sexp → Option Dyn
  | .list [.atom "dyn", .atom "int", n] => do pure (.int (← n.asInt?))
  | .list [.atom "dyn", .atom "str", n] => do pure (.str s!"s{← n.asInt?}")
  | .list [.atom "dyn", .atom "nv", n] => do pure (.nv (← n.asInt?))
  | .list [.atom "dyn", .atom "err", n] => do pure (.cerr (← n.asInt?))
  | .list [.atom "dyn", .atom "unit"] => pure .unit
  | .list [.atom "dyn", .atom "nil"] => pure .nil
  | .list [.atom "dyn", .atom "nil", .atom "error"] => pure .nil
  | _ => none

def showDyn : Dyn → String
  | .int n => s!"int:{n}"
  | .str s => s!"str:{s}"
  | .nv n => s!"nv:{n}"
  | .cerr n => s!"err:{n}"
  | .unit => "unit"
  | .nil => "nil"

def tyOf : Sexp → Option GoTy
  | .atom "int" => some .int
  | .atom "str" => some .str
  | .atom "nv" => some .nv
  | .atom "err" => some .cerr
  | .atom "unit" => some .unit
  | .atom "Named" => some .iNamed
  | .atom "error" => some .iError
  | .atom "any" => some .iAny
  | _ => none

/-- `(p2lt id) | (p2eq id) | (p2panic id p)`: binary predicates logging `q<id>:a,b` -/
def p2Of : Sexp → Option (Val → Val → GoM Bool)
  | .list [.atom "p2lt", id] => do
    let id ← id.asInt?
    pure fun a b => do emit s!"q{id}:{a},{b}"; pure (decide (a.asInt < b.asInt))
  | .list [.atom "p2eq", id] => do
    let id ← id.asInt?
    pure fun a b => do emit s!"q{id}:{a},{b}"; pure (a.asInt == b.asInt)
  | .list [.atom "p2panic", id, p] => do
    let id ← id.asInt?; let p ← p.asInt?
    pure fun a b => do emit s!"q{id}:{a},{b}"; goPanic s!"{p}"
  | _ => none

def intTyOf : Sexp → Option IntTy
  | .atom "i8" => some ⟨8, true⟩
  | .atom "i16" => some ⟨16, true⟩
  | .atom "i32" => some ⟨32, true⟩
  | .atom "i64" => some ⟨64, true⟩
  | .atom "int" => some ⟨64, true⟩
  | .atom "u8" => some ⟨8, false⟩
  | .atom "u16" => some ⟨16, false⟩
  | .atom "u32" => some ⟨32, false⟩
  | .atom "u64" => some ⟨64, false⟩
  | .atom "uint" => some ⟨64, false⟩
  | _ => none

/-- Go's `any` as a carrier whose zero value is nil -/
structure AnyV where
  v : Val
instance : Inhabited AnyV := ⟨⟨.nil⟩⟩

def pairV (p : Val × Val) : Out := .v (.tup [p.1, p.2])

def fieldsOf (r : RuntimeNamed Val) : Out := .l [.v (.str r.i1), .v r.i2, .v (.str r.i3)]

def runOp (op : Sexp) : Option (GoM String) :=
  match op with
  | .list (.atom name :: a) =>
    match name, a with
    | "as.PartialFunc", [p, f, x] => do
      let p ← P1.interp p; let f ← F1.interp f; let x ← vint x
      let pf := asPartialFunc p f
      let (d, ap) := pf.unapply
      pure (do
        let r1 ← pf.isDefinedAt x
        let r2 ← pf.apply x
        let r3 ← d x
        let r4 ← ap x
        ret (.l [.b r1, .v r2, .b r3, .v r4]))
    | "pf.OrElse", [p1, f1, p2, f2, x] => do
      let p1 ← P1.interp p1; let f1 ← F1.interp f1; let p2 ← P1.interp p2; let f2 ← F1.interp f2; let x ← vint x
      let q := (asPartialFunc p1 f1).orElse (asPartialFunc p2 f2)
      pure (do
        let d ← q.isDefinedAt x
        let r ← q.apply x
        ret (.l [.b d, .v r]))
    | "as.SeqNonNil", es => do
      let ps ← es.mapM (fun e => match e with
        | .atom "nil" => some (none : Option Val)
        | e => (vint e).map some)
      let s := toString (Val.seq (seqNonNil ps))
      pure (pure (s ++ ";" ++ s))
    | "as.Ptr", [v, w] => do
      let v ← vint v; let w ← vint w
      let (p, h1) := ptr v ([] : Heap Val)
      let (q, h2) := ptr v h1
      let h3 := h2.store q w
      pure (ret (.l [.v ((h3.deref p).getD .nil), .v ((h3.deref q).getD .nil), .b (p != q)]))
    | "as.Any", [d] => do pure (pure (showDyn (asAny (← dynOf d))))
    | "as.InstanceOf", [d, t] => do
      let d ← dynOf d; let t ← tyOf t
      pure (do let r ← asInstanceOf Dyn.hasType d t; pure (showDyn r))
    | "as.Interface", [d, t] => do
      let d ← dynOf d; let t ← tyOf t
      pure (do let r ← asInterface Dyn.hasType d t; pure (showDyn r))
    | "fp.IsInstanceOf", [d, t] => do
      let d ← dynOf d; let t ← tyOf t
      pure (ret (.b (isInstanceOf Dyn.hasType d t)))
    | "as.Named", [n, v] => do
      pure (ret (fieldsOf (asNamed s!"n{← n.asInt?}" (← vint v))))
    | "as.NamedWithTag", [n, v, t] => do
      pure (ret (fieldsOf (asNamedWithTag s!"n{← n.asInt?}" (← vint v) s!"t{← t.asInt?}")))
    | "named.acc", [n, v, t, w, u] => do
      let r := asNamedWithTag s!"n{← n.asInt?}" (← vint v) s!"t{← t.asInt?}"
      let w ← vint w; let u ← u.asInt?
      pure (ret (.l [.v (.str r.name), .v r.value, .v (.str r.tag), fieldsOf (r.withValue w), fieldsOf (r.withTag s!"t{u}")]))
    | "as.MapEntry", [f, x] => do
      let f ← F1.interp f; let x ← vint x
      pure (do let r ← asMapEntry f x; ret (pairV r))
    | "as.Left", [x] => do
      let x ← vint x
      pure (ret (match (asLeft x : Sum Val Val) with | .inl l => .v (.left l) | .inr r => .v (.right r)))
    | "as.Right", [x] => do
      let x ← vint x
      pure (ret (match (asRight x : Sum Val Val) with | .inl l => .v (.left l) | .inr r => .v (.right r)))
    | "as.Generic", [to, frm, x] => do
      let to ← F1.interp to; let frm ← F1.interp frm; let xi ← x.asInt?
      let x := Val.int xi
      let g := asGeneric s!"T{xi}" "Struct" to frm
      pure (do
        let r1 ← g.to x
        let r2 ← g.from x
        let r3 ← g.to x
        let r4 ← g.from r3
        ret (.l [.v (.str g.type), .v (.str g.kind), .v r1, .v r2, .v r4]))
    | "as.Supplier", [v] => do
      let s := asSupplier (← vint v)
      pure (do let r1 ← s (); let r2 ← s (); ret (.l [.v r1, .v r2]))
    | "as.Predicate", [p, x] => do
      let p ← P1.interp p; let x ← vint x
      pure (do let b ← asPredicate p x; ret (.b b))
    | "product.FromHNil", [] => pure (pure (match fromHNil () with | () => "unit"))
    | "product.MapKey", [f, k, v] => do
      let f ← F1.interp f; let k ← vint k; let v ← vint v
      pure (do let r ← mapKey (k, v) f; ret (pairV r))
    | "product.MapValue", [f, k, v] => do
      let f ← F1.interp f; let k ← vint k; let v ← vint v
      pure (do let r ← mapValue (k, v) f; ret (pairV r))
    | "product.LiftKey", [g, k, v] => do
      let g ← F2.interp g; let k ← vint k; let v ← vint v
      pure (do let r ← liftKey g (k, v); ret (pairV r))
    | "product.LiftValue", [g, k, v] => do
      let g ← F2.interp g; let k ← vint k; let v ← vint v
      pure (do let r ← liftValue g (k, v); ret (pairV r))
    | "product.Split", [f1, f2, x] => do
      let f1 ← F1.interp f1; let f2 ← F1.interp f2; let x ← vint x
      pure (do let r ← split f1 f2 x; ret (pairV r))
    | "hlist.Unapply", xs => do
      let xs ← xs.mapM vint
      let (h, t) ← hUnapply xs
      pure (ret (.l [.v h, .v (.seq t)]))
    | "pred.Negate", [p, x] => do
      let p ← P1.interp p; let x ← vint x
      pure (do let b ← Pred.negate p x; ret (.b b))
    | "pred.And", [p, q, x] => do
      let p ← P1.interp p; let q ← P1.interp q; let x ← vint x
      pure (do let b ← Pred.and p q x; ret (.b b))
    | "pred.Or", [p, q, x] => do
      let p ← P1.interp p; let q ← P1.interp q; let x ← vint x
      pure (do let b ← Pred.or p q x; ret (.b b))
    | "fp.Not", [p, x] => do
      let p ← P1.interp p; let x ← vint x
      pure (do let b ← fpNot p x; ret (.b b))
    | "fp.And", x :: ps => do
      let ps ← ps.mapM P1.interp; let x ← vint x
      pure (do let b ← fpAnd ps x; ret (.b b))
    | "fp.Or", x :: ps => do
      let ps ← ps.mapM P1.interp; let x ← vint x
      pure (do let b ← fpOr ps x; ret (.b b))
    | "fp.ConvertNumber", [_from, to, x] => do
      let to ← intTyOf to; let x ← x.asInt?
      pure (pure (toString (convertNumber to x)))
    | "fp.ConstS", [id, v, b1, b2] => do
      let id ← id.asInt?; let v ← vint v; let b1 ← vint b1; let b2 ← vint b2
      let f : Val → GoM Val := constS (fun _ => do emit s!"s{id}"; pure v)
      pure (do
        emit "built"
        let r1 ← f b1
        let r2 ← f b2
        ret (.l [.v r1, .v r2]))
    | "fp.With", [g, v, x] => do
      let g ← F2.interp g; let v ← vint v; let x ← vint x
      pure (do let r ← fpWith g v x; ret (.v r))
    | "fp.Test", [q, v, x] => do
      let q ← p2Of q; let v ← vint v; let x ← vint x
      pure (do let b ← fpTest q v x; ret (.b b))
    | "fp.TestWith", [f, p, x] => do
      let f ← F1.interp f; let p ← P1.interp p; let x ← vint x
      pure (do let b ← testWith f p x; ret (.b b))
    | "fp.Max", [x, y] => do
      pure (pure (toString (fpMax (← x.asInt?) (← y.asInt?))))
    | "fp.MaxStr", [x, y] => do
      pure (ret (.v (.str (fpMax s!"s{← x.asInt?}" s!"s{← y.asInt?}"))))
    | "sg.Empty", [.atom "int"] => pure (ret (.v (.int (SemigroupFunc.empty (⟨fun a _ => pure a⟩ : SemigroupFunc Int)))))
    | "sg.Empty", [.atom "str"] => pure (ret (.v (.str (SemigroupFunc.empty (⟨fun a _ => pure a⟩ : SemigroupFunc String)))))
    | "sg.Empty", [.atom "any"] => pure (ret (.v (SemigroupFunc.empty (⟨fun a _ => pure a⟩ : SemigroupFunc AnyV)).v))
    | "ef.Empty", [id, v] => do
      let id ← id.asInt?; let v ← vint v
      let ef : Unit → GoM Val := fun _ => do emit s!"e{id}"; pure v
      pure (do
        emit "built"
        let r1 ← emptyFuncEmpty ef
        let r2 ← emptyFuncEmpty ef
        ret (.l [.v r1, .v r2]))
    | "sg.Curried", [g, x, y] => do
      let g ← F2.interp g; let x ← vint x; let y ← vint y
      let sg : SemigroupFunc Val := ⟨g⟩
      let c := sg.curried
      pure (do
        emit "built"
        let r1 ← c x y
        let r2 ← sg.combine x y
        ret (.l [.v r1, .v r2]))
    | "fpmonoid.ToMonoid", [id, e, x, y] => do
      let id ← id.asInt?; let e ← e.asInt?; let x ← x.asInt?; let y ← y.asInt?
      let p := fpProduct
      let m := p.toMonoid (fun _ => do emit s!"e{id}"; pure e)
      pure (do
        emit "built"
        let r1 ← m.empty
        let r2 ← m.comb x y
        let r3 ← m.curried x y
        let r4 ← p.empty
        let r5 ← p.curried x y
        ret (.l [.v (.int r1), .v (.int r2), .v (.int r3), .v (.int r4), .v (.int r5)]))
    | "monoid.ToMonoid", [g, id, e, x, y] => do
      let g ← F2.interp g; let id ← id.asInt?; let e ← vint e; let x ← vint x; let y ← vint y
      let m0 := monoidNew (fun _ => do emit s!"z{id}"; pure (Val.int 0)) g
      let m := m0.toMonoid (fun _ => do emit s!"e{id}"; pure e)
      pure (do
        emit "built"
        let r1 ← m.empty
        let r2 ← m.comb x y
        let r3 ← m.curried x y
        let r4 ← m0.empty
        let r5 ← m0.curried x y
        ret (.l [.v r1, .v r2, .v r3, .v r4, .v r5]))
    | "unit.Failure", [e] => do
      let e ← e.asInt?
      let t := unitFailure (if e == 0 then .nil else .code e)
      pure (pure (match t with
        | .success _ => "Success(unit)"
        | .failure .nil => "Failure(ErrNotInit)"
        | .failure err => s!"Failure({err})"))
    | _, _ => none
  | _ => none

def step (line : String) : String :=
  match Sexp.parse line with
  | some op => match runOp op with
    | some g => renderOutcome id (GoM.exec g)
    | none => "bad-op"
  | none => "bad-op"

partial def loop (h out : IO.FS.Stream) : IO Unit := do
  let line ← h.getLine
  if line.isEmpty then return ()
  out.putStrLn (step line)
  loop h out

def main : IO Unit := do
  let out ← IO.getStdout
  loop (← IO.getStdin) out
  out.flush
