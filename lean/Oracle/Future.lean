import FpVerif.Sexp
import FpVerif.Model.Future
/-! Oracle for fp.Future / package future (C06): replays a scenario script on the network model. -/
open FpVerif FpVerif.Sexp FpVerif.Fut

structure World where
  net : Net
  nsrc : Nat
  defs : List Nat

def hOf (w : World) : Sexp → Option Nat
  | .list [.atom "s", i] => i.asNat?
  | .list [.atom "d", j] => do w.defs[(← j.asNat?)]?
  | _ => none

def linW : Sexp → Option (Val → W Val)
  | .list [.atom "lin", id, a, b] => do
    let id ← id.asInt?; let a ← a.asInt?; let b ← b.asInt?
    pure fun x => (.int (a * x.asInt + b), [s!"f{id}:{x}"])
  | _ => none

def f2W : Sexp → Option (Val → Val → W Val)
  | .list [.atom "add", id] => do
    let id ← id.asInt?
    pure fun x y => (.int (x.asInt + 2 * y.asInt), [s!"g{id}:{x},{y}"])
  | .list [.atom "pair", id] => do
    let id ← id.asInt?
    pure fun x y => (.seq [x, y], [s!"g{id}:{x},{y}"])
  | _ => none

def tryOfS : Sexp → Option (Try Val)
  | .list [.atom "succ", n] => do pure (.success (.int (← n.asInt?)))
  | .list [.atom "fail", e] => do pure (.failure (.code (← e.asInt?)))
  | _ => none

def emodI (x m : Int) : Int := if m == 0 then 0 else Int.emod x m

/-- body of a `kf`: the future the user function returns (without its own log line) -/
def kfBody (w : World) : Sexp → Option (Val → FExpr)
  | .list [.atom "kf", _, .atom "succ", a, b] => do
    let a ← a.asInt?; let b ← b.asInt?
    pure fun v => .successful (.int (a * v.asInt + b))
  | .list [.atom "kf", _, .atom "fail", e] => do
    let e ← e.asInt?
    pure fun _ => .failed (.code e)
  | .list [.atom "kf", _, .atom "ref", h] => do
    let p ← hOf w h
    pure fun _ => .ref p
  | .list [.atom "kf", _, .atom "map", h, f] => do
    let p ← hOf w h; let f ← linW f
    pure fun _ => Fut.map (.ref p) f
  | .list [.atom "kf", id, .atom "apply", n] => do
    let id ← id.asInt?; let n ← n.asInt?
    pure fun v => .apply (fun _ => (.success (.int (v.asInt + n)), [s!"ap{id}"]))
  | .list [.atom "kf", _, .atom "failif", m, e] => do
    let m ← m.asInt?; let e ← e.asInt?
    pure fun v => if emodI v.asInt m == 0 then .failed (.code e) else .successful (.int (v.asInt + 1))
  | _ => none

def kfId : Sexp → Option Int
  | .list (.atom "kf" :: id :: _) => id.asInt?
  | _ => none

def kfOf (w : World) (s : Sexp) : Option (Val → FExpr) := do
  let body ← kfBody w s
  let id ← kfId s
  pure fun v => .logged [s!"kf{id}:{v}"] (body v)

def appendSeq (xs x : Val) : Val :=
  match xs with
  | .seq l => .seq (l ++ [x])
  | o => o

/-- `LiftAN(f)(ins…)` of future/func_gen.go: `FlatMap(ins1, a1 => LiftA(N-1)(f a1)(ins2…))`, bottoming out in `Map2`/`Map` -/
def liftAList : List Nat → (List Val → W Val) → FExpr
  | [], f => let (r, evs) := f []; .logged evs (.successful r)
  | p :: ps, f => .flatMap (.ref p) (fun v => liftAList ps (fun rest => f (v :: rest)))

def applyBody (id : Int) : Sexp → Option (Unit → W (Try Val))
  | .list [.atom "ret", n] => do
    let n ← n.asInt?
    pure fun _ => (.success (.int n), [s!"ap{id}"])
  | .list [.atom "panic", p] => do
    let p ← p.asInt?
    pure fun _ => (.failure (.panicErr s!"{p}"), [s!"ap{id}"])
  | .list [.atom "reterr", _, e] => do
    let e ← e.asInt?
    pure fun _ => (.failure (.code e), [s!"ap{id}"])
  | _ => none

def defOf (w : World) : Sexp → Option FExpr
  | .list [.atom "successful", n] => do pure (.successful (.int (← n.asInt?)))
  | .list [.atom "failed", e] => do pure (.failed (.code (← e.asInt?)))
  | .list [.atom "apply", id, b] => do pure (.apply (← applyBody (← id.asInt?) b))
  | .list [.atom "apply2", id, b] => do pure (.apply (← applyBody (← id.asInt?) b))
  | .list [.atom "map", h, f] => do pure (Fut.map (.ref (← hOf w h)) (← linW f))
  | .list [.atom "flatMap", h, k] => do pure (.flatMap (.ref (← hOf w h)) (← kfOf w k))
  | .list [.atom "map2", a, b, f] => do pure (Fut.map2 (← hOf w a) (← hOf w b) (← f2W f))
  | .list [.atom "zip", a, b] => do
      -- the harness maps the tuple to a slice with one more `Map`
      pure (Fut.map (Fut.map2 (← hOf w a) (← hOf w b) (fun x y => (.tup [x, y], []))) (fun t => (match t with | .tup l => .seq l | o => o, [])))
  | .list [.atom "liftM", h, k] => do
      -- LiftM(fa)(ta) = Flatten(Map(ta, fa)): fa's future is wrapped as a value, then unwrapped
      let k ← kfOf w k
      pure (Fut.liftM k (← hOf w h))
  | .list [.atom "compose", k1, k2, n] => do pure (Fut.compose (← kfOf w k1) (← kfOf w k2) (.int (← n.asInt?)))
  | .list [.atom "liftA3", .list [.atom "g3", g], a, b, c] => do
      let g ← g.asInt?
      pure (liftAList [← hOf w a, ← hOf w b, ← hOf w c] (fun xs => (.seq xs, [s!"g{g}:{",".intercalate (xs.map toString)}"])))
  | .list [.atom "zip3", a, b, c] => do
      pure (Fut.map (liftAList [← hOf w a, ← hOf w b, ← hOf w c] (fun xs => (.tup xs, []))) (fun t => (match t with | .tup l => .seq l | o => o, [])))
  | .list [.atom "method1", h, f, n] => do
      let f ← f2W f; let n ← n.asInt?
      pure (Fut.map (.ref (← hOf w h)) (fun x => f x (.int n)))
  | .list [.atom "flapMap", f, h, n] => do
      let f ← f2W f; let n ← n.asInt?
      pure (Fut.map (.ref (← hOf w h)) (fun x => f x (.int n)))
  | .list [.atom "transform", h, id] => do
      let id ← id.asInt?
      pure (.transform (.ref (← hOf w h)) (fun t =>
        (match t with
         | .success v => .success (.int (v.asInt + 1))
         | .failure (.code e) => .success (.int e)
         | o => o, [s!"tf{id}:{Val.ofTry t}"])))
  | .list [.atom "transformWith", h, id, alt] => do
      let id ← id.asInt?; let alt ← hOf w alt
      pure (.transformWith (.ref (← hOf w h)) (fun t =>
        .logged [s!"tw{id}:{Val.ofTry t}"] (match t with
          | .success v => .successful (.int (v.asInt * 2))
          | .failure _ => .ref alt)))
  | .list (.atom "sequence" :: hs) => do
      pure (Fut.map (Fut.sequence (← hs.mapM (hOf w))) (fun l => (l, [])))
  | .list (.atom "traverseSeq" :: k :: xs) => do
      let xs ← xs.mapM Sexp.asInt?
      pure (Fut.map (Fut.traverseSeq (xs.map Val.int) (← kfOf w k)) (fun l => (l, [])))
  | .list (.atom "traverse" :: k :: xs) => do
      let xs ← xs.mapM Sexp.asInt?
      -- Traverse = Map(traverse(…), iterator.FromSeq); the harness maps once more to a slice
      pure (Fut.map (Fut.map (Fut.traverseSeq (xs.map Val.int) (← kfOf w k)) (fun l => (l, []))) (fun l => (l, [])))
  | .list [.atom "m.map", h, f] => do
      let f ← linW f
      pure (.transform (.ref (← hOf w h)) (fun t => match t with
        | .success v => let (r, evs) := f v; (.success r, evs)
        | .failure e => (.failure e, [])))
  | .list [.atom "m.flatMap", h, k] => do pure (.flatMap (.ref (← hOf w h)) (← kfOf w k))
  | .list [.atom "m.recover", h, id, v] => do
      let id ← id.asInt?; let v ← v.asInt?
      pure (.transform (.ref (← hOf w h)) (fun t => match t with
        | .success x => (.success x, [])
        | .failure e => (.success (.int v), [s!"h{id}:{e}"])))
  | .list [.atom "m.recoverCase", h, id, e0, v] => do
      let id ← id.asInt?; let e0 ← e0.asInt?; let v ← v.asInt?
      pure (.transform (.ref (← hOf w h)) (fun t => match t with
        | .success x => (.success x, [])
        | .failure e =>
          if e == .code e0 then (.success (.int v), [s!"pe{id}:{e}", s!"h{id}:{e}"])
          else (.failure e, [s!"pe{id}:{e}"])))
  | .list [.atom "m.recoverWith", h, k] => do
      let body ← kfBody w k; let id ← kfId k
      pure (.recoverWith (.ref (← hOf w h)) (fun _ => true) (fun e => .logged [s!"ke{id}:{e}"] (body (.int 0))))
  | .list [.atom "m.recoverCaseWith", h, e0, k] => do
      let body ← kfBody w k; let id ← kfId k; let e0 ← e0.asInt?
      pure (.recoverWith (.ref (← hOf w h)) (fun e => e == .code e0) (fun e => .logged [s!"ke{id}:{e}"] (body (.int 0))))
  | .list [.atom "m.or", h, k] => do
      let body ← kfBody w k; let id ← kfId k
      pure (.recoverWith (.ref (← hOf w h)) (fun _ => true) (fun _ => .logged [s!"ke{id}"] (body (.int 0))))
  | .list [.atom "m.orFuture", a, b] => do pure (.orFuture (.ref (← hOf w a)) (.ref (← hOf w b)))
  | .list [.atom "m.failed", h] => do
      -- r.Failed() then the harness's Map(… ShowErr)
      pure (Fut.map (.transform (.ref (← hOf w h)) (fun t => match t with
        | .success _ => (.failure .futureNotFailed, [])
        | .failure e => (.success (.str e.toStr), []))) (fun v => (v, [])))
  | _ => none

def showStatus (o : Option (Try Val)) : String :=
  match o with
  | some t => toString (Val.ofTry t)
  | none => "pending"

def snapshot (w : World) : String :=
  let srcs := (List.range w.nsrc).map (fun i => s!"s{i}={showStatus (w.net.status i)}")
  let defs := w.defs.zipIdx.map (fun (p, j) => s!"d{j}={showStatus (w.net.status p)}")
  " ".intercalate (srcs ++ defs) ++ s!" pool={w.net.pool.length}"

partial def drain (n : Net) : Net :=
  match n.pool with
  | [] => n
  | _ => drain (step n (.run 0))

def runStmt (w : World) (out : List String) : Sexp → Option (World × List String)
  | .list [.atom "def", d] => do
      let e ← defOf w d
      let (p, n) := build e w.net
      pure ({ w with net := n, defs := w.defs ++ [p] }, out)
  | .list [.atom "obs", h, id] => do
      let p ← hOf w h; let id ← id.asNat?
      pure ({ w with net := onComplete p (.observe id) w.net }, out)
  | .list [.atom "src", i, t] => do
      let i ← i.asNat?; let t ← tryOfS t
      let ok := (w.net.status i).isNone
      let n := step w.net (.src i t)
      pure ({ w with net := { n with log := n.log ++ [s!"src{i}:{ok}"] } }, out)
  | .list [.atom "run", i] => do
      let i ← i.asNat?
      pure ({ w with net := step w.net (.run i) }, out)
  | .list [.atom "drain"] => pure ({ w with net := drain w.net }, out)
  | .list [.atom "snap"] => pure (w, out ++ [snapshot w])
  | _ => none

def runScenario : Sexp → Option String
  | .list (.atom "scenario" :: nsrc :: _mode :: stmts) => do
      let nsrc ← nsrc.asNat?
      let w0 : World := { net := Net.empty nsrc, nsrc := nsrc, defs := [] }
      let (w, out) ← stmts.foldlM (fun (acc : World × List String) st => runStmt acc.1 acc.2 st) (w0, [])
      pure (" ; ".intercalate (out ++ [snapshot w]) ++ " | " ++ ",".intercalate w.net.log)
  | _ => none

def stepLine (line : String) : String :=
  match Sexp.parse line with
  | some op => (runScenario op).getD "bad-op"
  | none => "bad-op"

partial def loop (h out : IO.FS.Stream) : IO Unit := do
  let line ← h.getLine
  if line.isEmpty then return ()
  out.putStrLn (stepLine line)
  loop h out

def main : IO Unit := do
  let out ← IO.getStdout
  loop (← IO.getStdin) out
  out.flush
