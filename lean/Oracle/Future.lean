import FpVerif.Sexp
import FpVerif.Model.Future
import FpVerif.Model.FutureChain
import FpVerif.Model.FutureMisc
/-! Oracle for fp.Future / package future (C06, and the arity-indexed builder families of C14): replays a scenario
    script on the network model. -/
open FpVerif FpVerif.Sexp FpVerif.Fut

/-- a `MonadChainN` / `ApplicativeFunctorN` value the script holds on to (staged building: `cnew`, `cstep`) -/
inductive Bld where
  | chain (app : Ex → Val → Val → W Val) (st : ChainSt) (remaining : Nat)
  | appl (app : Ex → Val → Val → W Val) (fn : Nat) (remaining : Nat)
  | done

structure World where
  net : Net
  nsrc : Nat
  defs : List Nat
  blds : List Bld := []

def hOf (w : World) : Sexp → Option Nat
  | .list [.atom "s", i] => i.asNat?
  | .list [.atom "d", j] => do w.defs[(← j.asNat?)]?
  | _ => none

def linW : Sexp → Option (Val → W Val)
  | .list [.atom "lin", id, a, b] => do
    let id ← id.asInt?; let a ← a.asInt?; let b ← b.asInt?
    pure fun x => (.int (a * x.asInt + b), [s!"f{id}:{x}"])
  | _ => none

def f2W : Sexp → Option (Val → Val → W Val)
  | .list [.atom "add", id] => do
    let id ← id.asInt?
    pure fun x y => (.int (x.asInt + 2 * y.asInt), [s!"g{id}:{x},{y}"])
  | .list [.atom "pair", id] => do
    let id ← id.asInt?
    pure fun x y => (.seq [x, y], [s!"g{id}:{x},{y}"])
  | _ => none

def tryOfS : Sexp → Option (Try Val)
  | .list [.atom "succ", n] => do pure (.success (.int (← n.asInt?)))
  | .list [.atom "fail", e] => do pure (.failure (.code (← e.asInt?)))
  | _ => none

def emodI (x m : Int) : Int := if m == 0 then 0 else Int.emod x m

/-- body of a `kf`: the future the user function returns (without its own log line) -/
def kfBody (w : World) : Sexp → Option (Val → FExpr)
  | .list [.atom "kf", _, .atom "succ", a, b] => do
    let a ← a.asInt?; let b ← b.asInt?
    pure fun v => .successful (.int (a * v.asInt + b))
  | .list [.atom "kf", _, .atom "fail", e] => do
    let e ← e.asInt?
    pure fun _ => .failed (.code e)
  | .list [.atom "kf", _, .atom "ref", h] => do
    let p ← hOf w h
    pure fun _ => .ref p
  | .list [.atom "kf", _, .atom "map", h, f] => do
    let p ← hOf w h; let f ← linW f
    pure fun _ => Fut.map (.ref p) f
  | .list [.atom "kf", id, .atom "apply", n] => do
    let id ← id.asInt?; let n ← n.asInt?
    pure fun v => .apply (fun _ => (.success (.int (v.asInt + n)), [s!"ap{id}"]))
  | .list [.atom "kf", _, .atom "failif", m, e] => do
    let m ← m.asInt?; let e ← e.asInt?
    pure fun v => if emodI v.asInt m == 0 then .failed (.code e) else .successful (.int (v.asInt + 1))
  | _ => none

def kfId : Sexp → Option Int
  | .list (.atom "kf" :: id :: _) => id.asInt?
  | _ => none

def kfOf (w : World) (s : Sexp) : Option (Val → FExpr) := do
  let body ← kfBody w s
  let id ← kfId s
  pure fun v => .logged [s!"kf{id}:{v}"] (body v)

def appendSeq (xs x : Val) : Val :=
  match xs with
  | .seq l => .seq (l ++ [x])
  | o => o

/-- `LiftAN(f)(ins…)` of future/func_gen.go: `FlatMap(ins1, a1 => LiftA(N-1)(f a1)(ins2…))`, bottoming out in `Map2`/`Map` -/
def liftAList : List Nat → (List Val → W Val) → FExpr
  | [], f => let (r, evs) := f []; .logged evs (.successful r)
  | p :: ps, f => .flatMap (.ref p) (fun v => liftAList ps (fun rest => f (v :: rest)))

def applyBody (id : Int) : Sexp → Option (Unit → W (Try Val))
  | .list [.atom "ret", n] => do
    let n ← n.asInt?
    pure fun _ => (.success (.int n), [s!"ap{id}"])
  | .list [.atom "panic", p] => do
    let p ← p.asInt?
    pure fun _ => (.failure (.panicErr s!"{p}"), [s!"ap{id}"])
  | .list [.atom "reterr", _, e] => do
    let e ← e.asInt?
    pure fun _ => (.failure (.code e), [s!"ap{id}"])
  | _ => none

def defOf (w : World) : Sexp → Option FExpr
  | .list [.atom "successful", n] => do pure (.successful (.int (← n.asInt?)))
  | .list [.atom "failed", e] => do pure (.failed (.code (← e.asInt?)))
  | .list [.atom "apply", id, b] => do pure (.apply (← applyBody (← id.asInt?) b))
  | .list [.atom "apply2", id, b] => do pure (.apply (← applyBody (← id.asInt?) b))
  | .list [.atom "map", h, f] => do pure (Fut.map (.ref (← hOf w h)) (← linW f))
  | .list [.atom "flatMap", h, k] => do pure (.flatMap (.ref (← hOf w h)) (← kfOf w k))
  | .list [.atom "map2", a, b, f] => do pure (Fut.map2 (← hOf w a) (← hOf w b) (← f2W f))
  | .list [.atom "zip", a, b] => do
      -- the harness maps the tuple to a slice with one more `Map`
      pure (Fut.map (Fut.map2 (← hOf w a) (← hOf w b) (fun x y => (.tup [x, y], []))) (fun t => (match t with | .tup l => .seq l | o => o, [])))
  | .list [.atom "liftM", h, k] => do
      -- LiftM(fa)(ta) = Flatten(Map(ta, fa)): fa's future is wrapped as a value, then unwrapped
      let k ← kfOf w k
      pure (Fut.liftM k (← hOf w h))
  | .list [.atom "compose", k1, k2, n] => do pure (Fut.compose (← kfOf w k1) (← kfOf w k2) (.int (← n.asInt?)))
  | .list [.atom "liftA3", .list [.atom "g3", g], a, b, c] => do
      let g ← g.asInt?
      pure (liftAList [← hOf w a, ← hOf w b, ← hOf w c] (fun xs => (.seq xs, [s!"g{g}:{",".intercalate (xs.map toString)}"])))
  | .list [.atom "zip3", a, b, c] => do
      pure (Fut.map (liftAList [← hOf w a, ← hOf w b, ← hOf w c] (fun xs => (.tup xs, []))) (fun t => (match t with | .tup l => .seq l | o => o, [])))
  | .list [.atom "method1", h, f, n] => do
      let f ← f2W f; let n ← n.asInt?
      pure (Fut.map (.ref (← hOf w h)) (fun x => f x (.int n)))
  | .list [.atom "flapMap", f, h, n] => do
      let f ← f2W f; let n ← n.asInt?
      pure (Fut.map (.ref (← hOf w h)) (fun x => f x (.int n)))
  | .list [.atom "transform", h, id] => do
      let id ← id.asInt?
      pure (.transform (.ref (← hOf w h)) (fun t =>
        (match t with
         | .success v => .success (.int (v.asInt + 1))
         | .failure (.code e) => .success (.int e)
         | o => o, [s!"tf{id}:{Val.ofTry t}"])))
  | .list [.atom "transformWith", h, id, alt] => do
      let id ← id.asInt?; let alt ← hOf w alt
      pure (.transformWith (.ref (← hOf w h)) (fun t =>
        .logged [s!"tw{id}:{Val.ofTry t}"] (match t with
          | .success v => .successful (.int (v.asInt * 2))
          | .failure _ => .ref alt)))
  | .list (.atom "sequence" :: hs) => do
      pure (Fut.map (Fut.sequence (← hs.mapM (hOf w))) (fun l => (l, [])))
  | .list (.atom "traverseSeq" :: k :: xs) => do
      let xs ← xs.mapM Sexp.asInt?
      pure (Fut.map (Fut.traverseSeq (xs.map Val.int) (← kfOf w k)) (fun l => (l, [])))
  | .list (.atom "traverse" :: k :: xs) => do
      let xs ← xs.mapM Sexp.asInt?
      -- Traverse = Map(traverse(…), iterator.FromSeq); the harness maps once more to a slice
      pure (Fut.map (Fut.map (Fut.traverseSeq (xs.map Val.int) (← kfOf w k)) (fun l => (l, []))) (fun l => (l, [])))
  | .list [.atom "m.map", h, f] => do
      let f ← linW f
      pure (.transform (.ref (← hOf w h)) (fun t => match t with
        | .success v => let (r, evs) := f v; (.success r, evs)
        | .failure e => (.failure e, [])))
  | .list [.atom "m.flatMap", h, k] => do pure (.flatMap (.ref (← hOf w h)) (← kfOf w k))
  | .list [.atom "m.recover", h, id, v] => do
      let id ← id.asInt?; let v ← v.asInt?
      pure (.transform (.ref (← hOf w h)) (fun t => match t with
        | .success x => (.success x, [])
        | .failure e => (.success (.int v), [s!"h{id}:{e}"])))
  | .list [.atom "m.recoverCase", h, id, e0, v] => do
      let id ← id.asInt?; let e0 ← e0.asInt?; let v ← v.asInt?
      pure (.transform (.ref (← hOf w h)) (fun t => match t with
        | .success x => (.success x, [])
        | .failure e =>
          if e == .code e0 then (.success (.int v), [s!"pe{id}:{e}", s!"h{id}:{e}"])
          else (.failure e, [s!"pe{id}:{e}"])))
  | .list [.atom "m.recoverWith", h, k] => do
      let body ← kfBody w k; let id ← kfId k
      pure (.recoverWith (.ref (← hOf w h)) (fun _ => true) (fun e => .logged [s!"ke{id}:{e}"] (body (.int 0))))
  | .list [.atom "m.recoverCaseWith", h, e0, k] => do
      let body ← kfBody w k; let id ← kfId k; let e0 ← e0.asInt?
      pure (.recoverWith (.ref (← hOf w h)) (fun e => e == .code e0) (fun e => .logged [s!"ke{id}:{e}"] (body (.int 0))))
  | .list [.atom "m.or", h, k] => do
      let body ← kfBody w k; let id ← kfId k
      pure (.recoverWith (.ref (← hOf w h)) (fun _ => true) (fun _ => .logged [s!"ke{id}"] (body (.int 0))))
  | .list [.atom "m.orFuture", a, b] => do pure (.orFuture (.ref (← hOf w a)) (.ref (← hOf w b)))
  | .list [.atom "m.failed", h] => do
      -- r.Failed() then the harness's Map(… ShowErr)
      pure (Fut.map (.transform (.ref (← hOf w h)) (fun t => match t with
        | .success _ => (.failure .futureNotFailed, [])
        | .failure e => (.success (.str e.toStr), []))) (fun v => (v, [])))
  | _ => none

-- arity-indexed families (Model/FutureChain.lean) --------------------------------------------------------------

def exOf : Sexp → Option Ex
  | .atom "u" => some .u
  | .atom "d" => some .d
  | _ => none

def joinV (xs : List Val) : String := ",".intercalate (xs.map toString)

def wsum (xs : List Val) : Int :=
  (xs.zipIdx.map (fun (x, i) => ((i : Int) + 1) * x.asInt)).foldl (· + ·) 0

/-- N-ary user functions `(sumN id) | (tupN id)`: log `fn<id>@<executor>:a1,…,aN` -/
def nfnOf : Sexp → Option NFn
  | .list [.atom "sumN", id] => do
    let id ← id.asInt?
    pure fun c xs => (.int (wsum xs), [s!"fn{id}@{c.tag}:{joinV xs}"])
  | .list [.atom "tupN", id] => do
    let id ← id.asInt?
    pure fun c xs => (.seq xs, [s!"fn{id}@{c.tag}:{joinV xs}"])
  | _ => none

def optOfS : Sexp → Option (Option Val)
  | .list [.atom "some", n] => do pure (some (.int (← n.asInt?)))
  | .list [.atom "none"] => pure none
  | _ => none

/-- the future a callback returns, from the number `v` it computed -/
def kindBody (w : World) (v : Int) : Sexp → Option FExpr
  | .atom "succ" => pure (.successful (.int v))
  | .list [.atom "failif", m, e] => do
    let m ← m.asInt?; let e ← e.asInt?
    pure (if emodI v m == 0 then .failed (.code e) else .successful (.int v))
  | .list [.atom "fail", e] => do pure (.failed (.code (← e.asInt?)))
  | .list [.atom "ref", h] => do pure (.ref (← hOf w h))
  | .list [.atom "map", h, f] => do pure (Fut.map (.ref (← hOf w h)) (← linW f))
  | _ => none

/-- `(sup id BODY)`: a supplier returning a future; logs `s<id>@<executor>` -/
def supFut (w : World) : Sexp → Option (Ex → FExpr)
  | .list [.atom "sup", id, .list [.atom "succ", n]] => do
    let id ← id.asInt?; let n ← n.asInt?
    pure fun c => .logged [s!"s{id}@{c.tag}"] (.successful (.int n))
  | .list [.atom "sup", id, body] => do
    let id ← id.asInt?
    let b ← kindBody w 0 body
    pure fun c => .logged [s!"s{id}@{c.tag}"] b
  | _ => none

def headInt : Val → Int
  | .seq [x] => x.asInt
  | _ => 0

def hlInts : Val → List Val
  | .seq l => l
  | _ => []

def stepOf (w : World) : Sexp → Option (Ex × Step)
  | .list [.atom "apFuture", h] => do pure (.d, .a (.apFuture (← hOf w h)))
  | .list [.atom "ap", n] => do pure (.d, .a (.ap (.int (← n.asInt?))))
  | .list [.atom "apTry", t] => do pure (.d, .a (.apTry (← tryOfS t)))
  | .list [.atom "apOption", o] => do pure (.d, .a (.apOption (← optOfS o)))
  | .list [.atom "apFutureFunc", x, sup] => do pure (← exOf x, .a (.apFutureFunc (← supFut w sup)))
  | .list [.atom "apTryFunc", x, .list [.atom "sup", id, t]] => do
    let id ← id.asInt?; let t ← tryOfS t
    pure (← exOf x, .a (.apTryFunc fun c => (t, [s!"s{id}@{c.tag}"])))
  | .list [.atom "apOptionFunc", x, .list [.atom "sup", id, o]] => do
    let id ← id.asInt?; let o ← optOfS o
    pure (← exOf x, .a (.apOptionFunc fun c => (o, [s!"s{id}@{c.tag}"])))
  | .list [.atom "apFunc", x, .list [.atom "sup", id, n]] => do
    let id ← id.asInt?; let n ← n.asInt?
    pure (← exOf x, .a (.apFunc fun c => (.int n, [s!"s{id}@{c.tag}"])))
  | .list [.atom "flatMap", x, .list [.atom "kh", id, a, b, kind]] => do
    let id ← id.asInt?; let a ← a.asInt?; let b ← b.asInt?
    -- every kind must parse now (a bad one makes the whole op `bad-op`)
    let _ ← kindBody w 0 kind
    pure (← exOf x, .flatMap fun c hd =>
      .logged [s!"k{id}@{c.tag}:{hd}"] ((kindBody w (a * headInt hd + b) kind).getD (.failed .nil)))
  | .list [.atom "map", x, .list [.atom "kh", id, a, b]] => do
    let id ← id.asInt?; let a ← a.asInt?; let b ← b.asInt?
    pure (← exOf x, .map fun c hd => (.int (a * headInt hd + b), [s!"k{id}@{c.tag}:{hd}"]))
  | .list [.atom "hlistFlatMap", x, .list [.atom "hk", id, kind]] => do
    let id ← id.asInt?
    let _ ← kindBody w 0 kind
    pure (← exOf x, .hlistFlatMap fun c h =>
      .logged [s!"hk{id}@{c.tag}:{h}"] ((kindBody w (wsum (hlInts h) + 1) kind).getD (.failed .nil)))
  | .list [.atom "hlistMap", x, .list [.atom "hk", id]] => do
    let id ← id.asInt?
    pure (← exOf x, .hlistMap fun c h => (.int (wsum (hlInts h) + 1), [s!"hk{id}@{c.tag}:{h}"]))
  | _ => none

def astepOf (w : World) (s : Sexp) : Option (Ex × AStep) := do
  match ← stepOf w s with
  | (c, .a s) => pure (c, s)
  | _ => none

/-- `(kn id KIND)`: an N-ary user function returning a future; logs `kn<id>@<executor>:a1,…,aN` -/
def knOf (w : World) : Sexp → Option (Ex → List Val → FExpr)
  | .list [.atom "kn", id, kind] => do
    let id ← id.asInt?
    let _ ← kindBody w 0 kind
    pure fun c xs => .logged [s!"kn{id}@{c.tag}:{joinV xs}"] ((kindBody w (wsum xs) kind).getD (.failed .nil))
  | _ => none

/-- `(kx id KIND)`: a unary user function returning a future; logs `kx<id>@<executor>:v` -/
def kxOf (w : World) : Sexp → Option (Ex → Val → FExpr)
  | .list [.atom "kx", id, kind] => do
    let id ← id.asInt?
    let _ ← kindBody w 0 kind
    pure fun c v => .logged [s!"kx{id}@{c.tag}:{v}"] ((kindBody w (v.asInt + 1) kind).getD (.failed .nil))
  | _ => none

/-- `(fe id mode e)`: `func(…) (R, error)`; mode 1 returns the error, mode 2 panics -/
def feOf : Sexp → Option (Ex → List Val → W (Try Val))
  | .list [.atom "fe", id, m, e] => do
    let id ← id.asInt?; let m ← m.asInt?; let e ← e.asInt?
    pure fun c xs =>
      (if m == 1 then .failure (.code e) else if m == 2 then .failure (.panicErr s!"{e}") else .success (.seq xs),
       [s!"fe{id}@{c.tag}:{joinV xs}"])
  | _ => none

/-- `(kt id a b m e)`: a unary user function; logs `kt<id>@<executor>:v`; `r = a*v + b`, failing when `m ≠ 0` divides `r` -/
def ktOf : Sexp → Option (Ex → Val → W (Try Val))
  | .list [.atom "kt", id, a, b, m, e] => do
    let id ← id.asInt?; let a ← a.asInt?; let b ← b.asInt?; let m ← m.asInt?; let e ← e.asInt?
    pure fun c v =>
      let r := a * v.asInt + b
      (if m != 0 && emodI r m == 0 then .failure (.code e) else .success (.int r), [s!"kt{id}@{c.tag}:{v}"])
  | _ => none

/-- the same callback used as a plain function: `a*v + b` -/
def ktRaw : Sexp → Option (Ex → Val → W Val)
  | .list [.atom "kt", id, a, b, _, _] => do
    let id ← id.asInt?; let a ← a.asInt?; let b ← b.asInt?
    pure fun c v => (.int (a * v.asInt + b), [s!"kt{id}@{c.tag}:{v}"])
  | _ => none

def toSeqW (v : Val) : W Val := (match v with | .seq l => .seq l | o => .seq [o], [])

def vInts (xs : List Sexp) : Option (List Val) := xs.mapM (fun x => do pure (Val.int (← x.asInt?)))

def tupToSeq (t : Val) : W Val := (match t with | .tup l => .seq l | o => o, [])

/-- definitions that are PROGRAMS of several constructions (builders, FlapN) -/
def defProg (w : World) : Sexp → Option (Net → Nat × Net)
  | .list (.atom "chain" :: n :: f :: steps) => do
    let n ← n.asNat?; let fn ← nfnOf f
    let steps ← steps.mapM (stepOf w)
    if steps.length != n || n == 0 then none
    pure (runChain fn steps)
  | .list (.atom "applicative" :: n :: f :: steps) => do
    let n ← n.asNat?; let fn ← nfnOf f
    let steps ← steps.mapM (astepOf w)
    if steps.length != n || n == 0 then none
    pure (runApplicative fn steps)
  | .list (.atom "flap" :: x :: f :: tf :: vs) => do
    let x ← exOf x; let fn ← nfnOf f; let vs ← vInts vs
    if vs.isEmpty then none
    let app := applyC vs.length fn
    match tf with
    | .list [.atom "tfs"] => pure fun n => let (t, n) := build (.successful (pa [])) n; flapRun app x t vs n
    | .list [.atom "tfm", h] => do
      let p ← hOf w h
      pure fun n => let (t, n) := build (Fut.map (.ref p) (fun _ => (pa [], []))) n; flapRun app x t vs n
    | _ => none
  | .list [.atom "apx", x, f, h1, h2] => do pure (apRun (← nfnOf f) (← exOf x) (← hOf w h1) (← hOf w h2))
  | .list [.atom "apFuncx", x, f, h1, sup] => do pure (apFuncRun (← nfnOf f) (← exOf x) (← hOf w h1) (← supFut w sup))
  | .list [.atom "withx", x, f, h, v] => do pure (withRun (← nfnOf f) (← exOf x) (← hOf w h) (.int (← v.asInt?)))
  | _ => none

/-- the func_gen.go families that are one construction expression -/
def defFam (w : World) : Sexp → Option FExpr
  | .list (.atom "liftAN" :: x :: f :: hs) => do
    let hs ← hs.mapM (hOf w)
    if hs.isEmpty then none
    pure (liftA (← nfnOf f) (← exOf x) hs)
  | .list (.atom "zipN" :: hs) => do
    let hs ← hs.mapM (hOf w)
    pure (Fut.map (zipN hs) tupToSeq)
  | .list (.atom "liftMN" :: x :: k :: hs) => do
    let hs ← hs.mapM (hOf w)
    if hs.isEmpty then none
    pure (liftMN (← knOf w k) (← exOf x) hs)
  | .list (.atom "method" :: _n :: x :: f :: h :: vs) => do
    -- Method1 / Method2 / MethodN all have the same body; `_n` is only the name suffix the harness calls
    pure (methodN (← hOf w h) (← nfnOf f) (← exOf x) (← vInts vs))
  | .list (.atom "flatMethod" :: n :: x :: k :: h :: vs) => do
    pure (flatMethodN (← n.asNat?) (← hOf w h) (← knOf w k) (← exOf x) (← vInts vs))
  | .list (.atom "func" :: _x :: f :: vs) => do pure (funcN (← feOf f) (← vInts vs))
  | .list (.atom "unitf" :: _x :: f :: vs) => do
    let f ← feOf f
    -- UnitN, then the harness's own Map(…, unit => any)
    pure (Fut.map (funcN (fun c xs => let (t, evs) := f c xs; (match t with | .success _ => .success .unit | o => o, evs)) (← vInts vs))
      (fun v => (v, [])))
  | .list [.atom "map2x", x, f, a, b] => do pure (liftA (← nfnOf f) (← exOf x) [← hOf w a, ← hOf w b])
  | .list [.atom "replace", h, v] => do pure (Fut.replace (← hOf w h) (.int (← v.asInt?)))
  | .list [.atom "fromTry", t] => do pure (fromTry (← tryOfS t))
  | .list [.atom "fromOption", o] => do pure (fromOption (← optOfS o))
  | .list [.atom "composeTry", x, v, k1, k2] => do
    pure (composeTry (← ktOf k1) (← kxOf w k2) (← exOf x) (.int (← v.asInt?)))
  | .list [.atom "composeOption", x, v, k1, k2] => do
    let k1 ← ktOf k1
    pure (composeOption (fun c a => let (t, evs) := k1 c a; (match t with | .success r => some r | .failure _ => none, evs))
      (← kxOf w k2) (← exOf x) (.int (← v.asInt?)))
  | .list [.atom "composePure", v, k1] => do
    pure (composePure (← ktRaw k1) (.int (← v.asInt?)))
  | .list (.atom "traverseSlice" :: k :: xs) => do
    let xs ← xs.mapM Sexp.asInt?
    -- TraverseSlice = Map(traverse(…), Widen); the harness maps once more to `any`
    pure (Fut.map (Fut.map (Fut.traverseSeq (xs.map Val.int) (← kfOf w k)) (fun l => (l, []))) (fun l => (l, [])))
  -- ARITY2: Model/FutureMisc.lean
  | .list (.atom "traverseFunc" :: k :: xs) => do
    let xs ← xs.mapM Sexp.asInt?
    -- the harness maps the iterator once more to a slice
    pure (Fut.map (traverseFunc (← kfOf w k) (xs.map Val.int)) (fun l => (l, [])))
  | .list [.atom "monoidFut", f, a, b] => do
    let fn ← nfnOf f
    pure (monoidFutureCombine (fun x y => fn .d [x, y]) (← hOf w a) (← hOf w b))
  | .list [.atom "monoidFutEmpty", v] => do pure (monoidFutureEmpty (.int (← v.asInt?)))
  | .list (.atom "sequenceIt" :: hs) => do
    pure (Fut.map (Fut.sequence (← hs.mapM (hOf w))) (fun l => (l, [])))
  | .list [.atom "flatMapTraverseSeq", h, k] => do
    pure (Fut.map (flatMapTraverseSeq (Fut.map (.ref (← hOf w h)) toSeqW) (← kfOf w k)) (fun l => (l, [])))
  | .list [.atom "flatMapTraverseSlice", h, k] => do
    -- FlatMap(ta, xs => TraverseSlice(xs, f)) where TraverseSlice = Map(traverse, Widen)
    let k ← kfOf w k
    pure (Fut.map (.flatMap (Fut.map (.ref (← hOf w h)) toSeqW) (fun xs => Fut.map (Fut.traverseSeq (elems xs) k) (fun l => (l, []))))
      (fun l => (l, [])))
  | .list [.atom "mapSeqLift", x, h, k] => do
    let k ← ktRaw k
    -- `(slice H)`: MapSliceLift, the same body on a slice
    let h := match h with | .list [.atom "slice", h'] => h' | o => o
    pure (Fut.map (mapSeqLift (Fut.map (.ref (← hOf w h)) toSeqW) k (← exOf x)) (fun l => (l, [])))
  | .list [.atom "func0", x, f] => do pure (func0 (← feOf f) (← exOf x))
  | .list (.atom "composeN" :: x :: v :: ks) => do
    let ks ← ks.mapM (kxOf w)
    if ks.isEmpty then none
    pure (composeN (← exOf x) ks .s (.int (← v.asInt?)))
  | _ => none

def showStatus (o : Option (Try Val)) : String :=
  match o with
  | some t => toString (Val.ofTry t)
  | none => "pending"

def snapshot (w : World) : String :=
  let srcs := (List.range w.nsrc).map (fun i => s!"s{i}={showStatus (w.net.status i)}")
  let defs := w.defs.zipIdx.map (fun (p, j) => s!"d{j}={showStatus (w.net.status p)}")
  " ".intercalate (srcs ++ defs) ++ s!" pool={w.net.pool.length}"

partial def drain (n : Net) : Net :=
  match n.pool with
  | [] => n
  | _ => drain (step n (.run 0))

/-- nested futures of futures (work package HOF): `Flatten(Successful(D))`, `Flatten(Flatten(Successful(Successful(D))))`,
    `LiftM(kf)(D)`, `LiftM(v => LiftM(kf2)(kf1 v))(h)` — the inner definition `D` is built in place -/
def defHO (w : World) : Sexp → Option FExpr
  | .list [.atom "flattenS", .list [.atom "flattenS", d]] => do
      let e ← defOf w d
      pure (Fut.flatten (.successfulOf (Fut.flatten (.successfulOf e))))
  | .list [.atom "flattenS", d] => do pure (Fut.flatten (.successfulOf (← defOf w d)))
  | .list [.atom "flattenSS", d] => do
      pure (Fut.flatten (Fut.flatten (.successfulOf (.successfulOf (← defOf w d)))))
  | .list [.atom "liftMF", d, k] => do
      let e ← defOf w d; let k ← kfOf w k
      pure (Fut.flatten (.flatMap e (fun v => .successfulOf (k v))))
  | .list [.atom "liftMM", h, k1, k2] => do
      let body1 ← kfBody w k1; let id1 ← kfId k1; let k2 ← kfOf w k2
      pure (Fut.liftM (fun v => .logged [s!"kf{id1}:{v}"]
        (Fut.flatten (.flatMap (body1 v) (fun x => .successfulOf (k2 x))))) (← hOf w h))
  | _ => none

def runStmt (w : World) (out : List String) : Sexp → Option (World × List String)
  | .list [.atom "def", d] => do
      match defProg w d with
      | some prog =>
        let (p, n) := prog w.net
        -- a builder used in one go occupies a builder slot of the script, like a staged one
        let isB := match d with | .list (.atom "chain" :: _) => true | .list (.atom "applicative" :: _) => true | _ => false
        pure ({ w with net := n, defs := w.defs ++ [p], blds := if isB then w.blds ++ [.done] else w.blds }, out)
      | none =>
        let e ← ((defHO w d).orElse (fun _ => defFam w d)).orElse (fun _ => defOf w d)
        let (p, n) := build e w.net
        pure ({ w with net := n, defs := w.defs ++ [p] }, out)
  | .list [.atom "cnew", .atom "chain", n, f] => do
      let n ← n.asNat?; let fn ← nfnOf f
      if n == 0 then none
      let (st, net) := chainNew w.net
      pure ({ w with net := net, blds := w.blds ++ [.chain (applyC n fn) st n] }, out)
  | .list [.atom "cnew", .atom "applicative", n, f] => do
      let n ← n.asNat?; let fn ← nfnOf f
      if n == 0 then none
      let (f0, net) := applicativeNew w.net
      pure ({ w with net := net, blds := w.blds ++ [.appl (applyC n fn) f0 n] }, out)
  | .list [.atom "cstep", b, st] => do
      let b ← b.asNat?
      match ← w.blds[b]? with
      | .chain app r (k + 2) =>
        let (c, s) ← stepOf w st
        let (r', net) := chainStep app r c s w.net
        pure ({ w with net := net, blds := w.blds.set b (.chain app r' (k + 1)) }, out)
      | .chain app r 1 =>
        let (c, s) ← stepOf w st
        let (q, net) := chainLast app r c s w.net
        pure ({ w with net := net, blds := w.blds.set b .done, defs := w.defs ++ [q] }, out)
      | .appl app f (k + 2) =>
        let (c, s) ← astepOf w st
        let (f', net) := applicativeStep app f false c s w.net
        pure ({ w with net := net, blds := w.blds.set b (.appl app f' (k + 1)) }, out)
      | .appl app f 1 =>
        let (c, s) ← astepOf w st
        let (q, net) := applicativeStep app f true c s w.net
        pure ({ w with net := net, blds := w.blds.set b .done, defs := w.defs ++ [q] }, out)
      | _ => none
  | .list [.atom "mark", k] => do
      let k ← k.asNat?
      pure ({ w with net := { w.net with log := w.net.log ++ [s!"mark{k}"] } }, out)
  | .list [.atom "obs", h, id] => do
      let p ← hOf w h; let id ← id.asNat?
      pure ({ w with net := onComplete p (.observe id) w.net }, out)
  | .list [.atom "src", i, t] => do
      let i ← i.asNat?; let t ← tryOfS t
      let ok := (w.net.status i).isNone
      let n := step w.net (.src i t)
      pure ({ w with net := { n with log := n.log ++ [s!"src{i}:{ok}"] } }, out)
  | .list [.atom "run", i] => do
      let i ← i.asNat?
      pure ({ w with net := step w.net (.run i) }, out)
  | .list [.atom "drain"] => pure ({ w with net := drain w.net }, out)
  | .list [.atom "snap"] => pure (w, out ++ [snapshot w])
  | _ => none

def runScenario : Sexp → Option String
  | .list (.atom "scenario" :: nsrc :: _mode :: stmts) => do
      let nsrc ← nsrc.asNat?
      let w0 : World := { net := Net.empty nsrc, nsrc := nsrc, defs := [] }
      let (w, out) ← stmts.foldlM (fun (acc : World × List String) st => runStmt acc.1 acc.2 st) (w0, [])
      pure (" ; ".intercalate (out ++ [snapshot w]) ++ " | " ++ ",".intercalate w.net.log)
  | _ => none

def stepLine (line : String) : String :=
  match Sexp.parse line with
  | some op => (runScenario op).getD "bad-op"
  | none => "bad-op"

partial def loop (h out : IO.FS.Stream) : IO Unit := do
  let line ← h.getLine
  if line.isEmpty then return ()
  out.putStrLn (stepLine line)
  loop h out

def main : IO Unit := do
  let out ← IO.getStdout
  loop (← IO.getStdin) out
  out.flush
