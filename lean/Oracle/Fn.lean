import FpVerif.Funcs
import FpVerif.Model.FnMonad
/-! Line-protocol oracle for the function monads `fn0` / `fn1` (C01; `Memoize`: C16; arrows: C14).
Op lines as produced by harness/cmd/fn.

Everything runs in `G = GoS Val` (`GoM` + heap of memo cells), so a memoised function may occur anywhere
in an expression and may be constructed at call time (inside a callback).

Sorts (X = `Val` for fn1, `Unit` for fn0;  `Lvl X 0 = Val`, `Lvl X (n+1) = X → G (Lvl X n)`):
* `E n`  — a function value of level `n+1` over the package's argument type:  `Lvl X (n+1)`
* `K n`  — a callback `func(any) Lvl n`:                                     `Val → G (Lvl X n)`
* `C n`  — a constant of level `n` (`n = 0`: integer literal; else an `E (n-1)`)
Building an expression is itself a computation in `G` (only `memo` has a build-time effect: it allocates). -/
open FpVerif FpVerif.Sexp

abbrev G := FnM.GoS Val

def Lvl (X : Type) : Nat → Type
  | 0 => Val
  | n + 1 => X → G (Lvl X n)

/-- what a package exports, at every type -/
structure Pkg (X : Type) where
  pure : {A : Type} → A → X → G A
  map : {A B : Type} → (X → G A) → (A → G B) → X → G B
  flatMap : {A B : Type} → (X → G A) → (A → G (X → G B)) → X → G B
  flatten : {A : Type} → (X → G (X → G A)) → X → G A
  withArg : Option ({A : Type} → (X → G (X → G A)) → X → G A)
  get : Option (X → G Val)
  memoize : Option ((X → G Val) → G (X → G Val))
  arrow : String → List (X → G Val) → Option (X → G Val)
  ofVal : Val → X
  toVal : X → Val

def untup : Val → Val × Val
  | .tup [a, b] => (a, b)
  | v => (v, v)

def tup2 (p : Val × Val) : Val := .tup [p.1, p.2]

/-- the two-argument / two-result arrows, driven through one tuple-valued argument -/
def fn1Arrow : String → List (Val → G Val) → Option (Val → G Val)
  | "first", [f] => some fun x => do let r ← FnM.first f (untup x).1 (untup x).2; pure (tup2 r)
  | "second", [f] => some fun x => do let r ← FnM.second f (untup x).1 (untup x).2; pure (tup2 r)
  | "split", [f1, f2] => some fun x => do let r ← FnM.split f1 f2 (untup x).1 (untup x).2; pure (tup2 r)
  | "merge", [f1, f2] => some fun x => do let r ← FnM.merge f1 f2 x; pure (tup2 r)
  | "merge2", [f1, f2] => some fun x => do let r ← FnM.merge2 f1 f2 x; pure (tup2 r)
  | _, _ => none

def fn1Pkg : Pkg Val where
  pure := FnM.pure
  map := FnM.map
  flatMap := FnM.flatMap
  flatten := FnM.flatten
  withArg := some FnM.withArg
  get := some FnM.get
  memoize := some (FnM.memoize Val.nil)        -- the zero value of `any` is nil
  arrow := fn1Arrow
  ofVal := fun v => v
  toVal := fun v => v

def fn0Pkg : Pkg Unit where
  pure := Fn0M.pure
  map := Fn0M.map
  flatMap := Fn0M.flatMap
  flatten := Fn0M.flatten
  withArg := none
  get := none
  memoize := none
  arrow := fun _ _ => none
  ofVal := fun _ => ()
  toVal := fun _ => .unit

def nilPanic : PanicVal := "runtime:runtime error: invalid memory address or nil pointer dereference"

section
variable {X : Type} (P : Pkg X)

/-- an inhabitant of every level (needed by `partial`; never used) -/
def Lvl.dflt : (n : Nat) → Lvl X n
  | 0 => Val.nil
  | n + 1 => fun _ => Pure.pure (Lvl.dflt n)

instance (n : Nat) : Inhabited (Lvl X n) := ⟨Lvl.dflt n⟩

mutual
/-- function values of level `n+1` -/
partial def buildE : (n : Nat) → Sexp → Option (G (Lvl X (n + 1)))
  | n, .list [.atom "pure", c] => do
      let c ← buildC n c
      some (do let c ← c; Pure.pure (P.pure c))
  | n, .list [.atom "map", e, k] => do
      let e ← buildE 0 e; let k ← buildK n k
      some (do let e ← e; let k ← k; Pure.pure (P.map e k))
  | n, .list [.atom "flatMap", e, k] => do
      let e ← buildE 0 e; let k ← buildK (n + 1) k
      some (do let e ← e; let k ← k; Pure.pure (P.flatMap e k))
  | n, .list [.atom "flatten", e] => do
      let e ← buildE (n + 1) e
      some (do let e ← e; Pure.pure (P.flatten e))
  | n, .list [.atom "withArg", e] =>
      match P.withArg, buildE (n + 1) e with
      | some w, some e => some (do let e ← e; Pure.pure (w e))
      | _, _ => none
  | _, .list [.atom "nilfn"] => some (Pure.pure (fun _ => throw nilPanic))
  | n, .list [.atom "ke", k] => do
      let k ← buildK n k
      some (do let k ← k; Pure.pure (fun x => k (P.toVal x)))
  | 0, .list [.atom "get"] => do
      let g ← P.get
      some (Pure.pure g)
  | 0, .list [.atom "memo", e] => do
      let mz ← P.memoize
      let e ← buildE 0 e
      some (do let e ← e; mz e)
  | 0, .list (.atom "arrow" :: .atom name :: es) => do
      let es ← es.mapM (buildE 0)
      -- operands are built left to right (Go evaluates call arguments left to right)
      let rec all : List (G (Lvl X 1)) → G (List (Lvl X 1))
        | [] => Pure.pure []
        | b :: bs => do let f ← b; let fs ← all bs; Pure.pure (f :: fs)
      -- an unknown name / wrong operand count is a parse error
      let _ ← P.arrow name (es.map (fun _ => (Lvl.dflt 1 : Lvl X 1)))
      some (do
        let fs ← all es
        match P.arrow name fs with
        | some f => Pure.pure f
        | none => Pure.pure (fun _ => throw "bad-arrow"))
  | _, _ => none

/-- callbacks `func(any) Lvl n` -/
partial def buildK : (n : Nat) → Sexp → Option (G (Val → G (Lvl X n)))
  | 0, .list [.atom "cb", f] => do
      let f ← F1.interp f
      some (Pure.pure (fun x => FnM.liftG (f x)))
  | n, .list [.atom "kconst", id, c] => do
      let id ← id.asInt?; let c ← buildC n c
      some (do let c ← c; Pure.pure (fun x => do FnM.emitS s!"kp{id}:{x}"; Pure.pure c))
  | n, .list [.atom "kfresh", id, c] => do
      let id ← id.asInt?; let c ← buildC n c
      some (Pure.pure (fun x => do FnM.emitS s!"kp{id}:{x}"; c))
  | _, .list [.atom "kpanic", id, p] => do
      let id ← id.asInt?; let p ← p.asInt?
      some (Pure.pure (fun x => do FnM.emitS s!"kp{id}:{x}"; throw s!"{p}"))
  | n, .list [.atom "kpanicif", id, m, p, c] => do
      let id ← id.asInt?; let m ← m.asInt?; let p ← p.asInt?; let c ← buildC n c
      some (do
        let c ← c
        Pure.pure (fun x => do
          FnM.emitS s!"kp{id}:{x}"
          if emod x.asInt m == 0 then throw s!"{p}" else Pure.pure c))
  | 1, .list [.atom "kadd", id] => do
      let id ← id.asInt?
      some (Pure.pure (fun x => do
        FnM.emitS s!"kp{id}:{x}"
        Pure.pure (fun u => do
          FnM.emitS s!"h{id}:{P.toVal u}"
          Pure.pure (Val.int (x.asInt + (P.toVal u).asInt)))))
  | 1, .list [.atom "kmap", id, e] => do
      let id ← id.asInt?; let e ← buildE 0 e
      some (do
        let e : X → G Val ← e
        Pure.pure (fun x => do
          FnM.emitS s!"kp{id}:{x}"
          Pure.pure (P.map e (fun (y : Val) => do
            FnM.emitS s!"h{id}:{y}"
            Pure.pure (Val.int (x.asInt + y.asInt))))))
  | _, .list [.atom "nilfn"] => some (Pure.pure (fun _ => throw nilPanic))
  | n, .list [.atom "ek", e] => do
      let e ← buildE n e
      some (do let e ← e; Pure.pure (fun v => e (P.ofVal v)))
  | _, _ => none

/-- constants of level `n` -/
partial def buildC : (n : Nat) → Sexp → Option (G (Lvl X n))
  | 0, s => do
      let i ← s.asInt?
      some (Pure.pure (Val.int i))
  | n + 1, s => buildE n s
end
end

/-- argument literals: integers and pairs `(t a b)` -/
partial def argOf : Sexp → Option Val
  | .list [.atom "t", a, b] => do pure (.tup [← argOf a, ← argOf b])
  | .atom "unit" => some .unit
  | s => do pure (.int (← s.asInt?))

def showOutcome : Except PanicVal Val → String
  | .ok v => v.toStr
  | .error p => s!"panic({p})"

/-- build, then one recovered call per argument; each call starts with a marker event `@<arg>` -/
def runCalls {X : Type} (P : Pkg X) (build : G (X → G Val)) (args : List Val) : String :=
  let prog : G (List (Except PanicVal Val)) := do
    let f ← build
    FnM.calls (fun a => do FnM.emitS s!"@{a}"; f (P.ofVal a)) args
  let r := FnM.GoS.exec prog
  let outs := match r.1 with
    | .ok rs => ";".intercalate (rs.map showOutcome)
    | .error p => s!"build-panic({p})"
  outs ++ " | " ++ ",".intercalate r.2.1

def step (line : String) : String :=
  match Sexp.parse line with
  | some (.list (.atom "run1" :: e :: args)) =>
    match buildE fn1Pkg 0 e, args.mapM argOf with
    | some b, some args => runCalls fn1Pkg b args
    | _, _ => "bad-op"
  | some (.list [.atom "run0", e, k]) =>
    match buildE fn0Pkg 0 e, k.asNat? with
    | some b, some k => runCalls fn0Pkg b (List.replicate k .unit)
    | _, _ => "bad-op"
  | _ => "bad-op"

partial def loop (h : IO.FS.Stream) (out : IO.FS.Stream) : IO Unit := do
  let line ← h.getLine
  if line.isEmpty then return ()
  out.putStrLn (step line)
  loop h out

def main : IO Unit := do
  let out ← IO.getStdout
  loop (← IO.getStdin) out
  out.flush
