import FpVerif.Sexp
import FpVerif.Model.CloneHeap
/-!
Line-protocol oracle for package clone (C18).

  (clone I V)  →  C=<clone, with alias labels> S=<number of cells shared with the original> O=<original after Clone>

`I` : int | (ptr I) | (slice I) | (seq I) | (gomap K I) | (option I) | (tuple I…) | (hcons I T) | hnil | (generic I)
`V` : a value GRAPH: n | nil | (ptr ID V) | (ref ID) | nilslice | (slice ID LEN V…) | (sref ID LEN) |
      nilmap | (map ID (K V)…) | (mref ID) | none | (some V) | (tup V…) | (hl V…) | (gen V)
The same ID is the same pointer target / backing array / map. Runs `FpVerif.CloneHeap.clone`.
-/
open FpVerif FpVerif.Sexp FpVerif.CloneHeap

partial def parseInst : Sexp → Option Inst
  | .atom "int" => some .given
  | .atom "hnil" => some .hnil
  | .list [.atom "ptr", e] => do pure (.ptr (← parseInst e))
  | .list [.atom "slice", e] => do pure (.slice (← parseInst e))
  | .list [.atom "seq", e] => do pure (.seq (← parseInst e))
  | .list [.atom "gomap", k, v] => do pure (.gomap (← parseInst k) (← parseInst v))
  | .list [.atom "option", e] => do pure (.option (← parseInst e))
  | .list [.atom "hcons", h, t] => do pure (.pair (← parseInst h) (← parseInst t))
  | .list [.atom "generic", e] => do pure (.generic (← parseInst e))
  | .list (.atom "tuple" :: es) => do
      let es ← es.mapM parseInst
      pure (es.foldr Inst.pair .hnil)
  | _ => none

structure PState where
  heap : Heap := []
  ids : List (Nat × Nat) := []      -- wire id ↦ address

abbrev PM := StateT PState Option

def alloc (id : Nat) (c : Cell) : PM Nat := do
  let s ← get
  set { s with heap := s.heap ++ [c], ids := (id, s.heap.length) :: s.ids }
  pure s.heap.length

def lookupId (id : Nat) : PM Nat := do
  match (← get).ids.lookup id with
  | some a => pure a
  | none => failure

partial def parseVal : Sexp → PM Val
  | .atom "nil" => pure .nilptr
  | .atom "nilslice" => pure .nilslice
  | .atom "nilmap" => pure .nilmap
  | .atom "none" => pure .none
  | .atom a => match a.toInt? with
    | some n => pure (.int n)
    | none => failure
  | .list [.atom "ptr", id, v] => do
      let id ← (id.asNat? : Option Nat)
      let v ← parseVal v
      pure (.ptr (← alloc id (.box v)))
  | .list [.atom "ref", id] => do
      let id ← (id.asNat? : Option Nat)
      pure (.ptr (← lookupId id))
  | .list (.atom "slice" :: id :: len :: vs) => do
      let id ← (id.asNat? : Option Nat)
      let len ← (len.asNat? : Option Nat)
      let vs ← vs.mapM parseVal
      pure (.slice (← alloc id (.arr vs)) len)
  | .list [.atom "sref", id, len] => do
      let id ← (id.asNat? : Option Nat)
      let len ← (len.asNat? : Option Nat)
      pure (.slice (← lookupId id) len)
  | .list (.atom "map" :: id :: kvs) => do
      let id ← (id.asNat? : Option Nat)
      let kvs ← kvs.mapM fun kv => match kv with
        | .list [k, v] => do
            let k ← parseVal k
            let v ← parseVal v
            pure (k, v)
        | _ => failure
      pure (.map (← alloc id (.mp kvs)))
  | .list [.atom "mref", id] => do
      let id ← (id.asNat? : Option Nat)
      pure (.map (← lookupId id))
  | .list [.atom "some", v] => do pure (.some (← parseVal v))
  | .list [.atom "gen", v] => parseVal v
  | .list (.atom "tup" :: vs) => do
      let vs ← vs.mapM parseVal
      pure (vs.foldr Val.pair .unit)
  | .list (.atom "hl" :: vs) => do
      let vs ← vs.mapM parseVal
      pure (vs.foldr Val.pair .unit)
  | _ => failure

-- ---------------------------------------------------------------------------------- rendering

/-- label-free structural rendering (what `view` sees) -/
partial def plain : Ty → Heap → Val → String
  | .int, _, .int n => toString n
  | .ptr _, _, .nilptr => "nil"
  | .ptr t, h, .ptr a => match h[a]? with
    | some (.box v) => "&" ++ plain t h v
    | _ => "?"
  | .slice _, _, .nilslice => "[]"
  | .slice t, h, .slice a len => match h[a]? with
    | some (.arr vs) => "[" ++ ",".intercalate ((vs.take len).map (plain t h)) ++ "]"
    | _ => "?"
  | .map _ _, _, .nilmap => "{}"
  | .map k v, h, .map a => match h[a]? with
    | some (.mp kvs) =>
      let es := kvs.map fun kv => plain k h kv.1 ++ ":" ++ plain v h kv.2
      "{" ++ ",".intercalate (es.mergeSort (fun a b => decide (a ≤ b))) ++ "}"
    | _ => "?"
  | .option _, _, .none => "None"
  | .option t, h, .some v => "Some(" ++ plain t h v ++ ")"
  | .unit, _, _ => "()"
  | .pair ta tb, h, .pair a b => "(" ++ plain ta h a ++ "," ++ plain tb h b ++ ")"
  | _, _, _ => "?"

abbrev LM := StateM (List (Nat × Nat))   -- address ↦ label, in order of first visit

def labelOf (a : Nat) : LM (Nat × Bool) := do
  let s ← get
  match s.lookup a with
  | some l => pure (l, false)
  | none =>
    set ((a, s.length + 1) :: s)
    pure (s.length + 1, true)

/-- rendering with alias labels: a cell is `#n` on its first visit (followed by its content) and on
    every later visit (without); cells without storage (empty arrays, nil) carry no label -/
partial def labelled : Ty → Heap → Val → LM String
  | .int, _, .int n => pure (toString n)
  | .ptr _, _, .nilptr => pure "nil"
  | .ptr t, h, .ptr a => do
    match h[a]? with
    | some (.box v) =>
      let (l, first) ← labelOf a
      if first then pure (s!"&#{l}(" ++ (← labelled t h v) ++ ")") else pure s!"&#{l}"
    | _ => pure "?"
  | .slice _, _, .nilslice => pure "[]"
  | .slice t, h, .slice a len => do
    match h[a]? with
    | some (.arr []) => pure "[]"
    | some (.arr vs) =>
      let (l, first) ← labelOf a
      if first then
        -- the whole backing array is visited (elements beyond len are reachable by reslicing)
        let es ← vs.mapM (labelled t h)
        pure (s!"[#{l}|{len}:" ++ ",".intercalate es ++ "]")
      else pure s!"[#{l}|{len}]"
    | _ => pure "?"
  | .map _ _, _, .nilmap => pure "{}"
  | .map k v, h, .map a => do
    match h[a]? with
    | some (.mp kvs) =>
      let (l, first) ← labelOf a
      if first then
        let sorted := kvs.mergeSort fun x y => decide (plain k h x.1 ++ ":" ++ plain v h x.2 ≤ plain k h y.1 ++ ":" ++ plain v h y.2)
        let es ← sorted.mapM fun kv => do
          let ks ← labelled k h kv.1
          let vs ← labelled v h kv.2
          pure (ks ++ ":" ++ vs)
        pure ("{" ++ s!"#{l}:" ++ ",".intercalate es ++ "}")
      else pure ("{" ++ s!"#{l}" ++ "}")
    | _ => pure "?"
  | .option _, _, .none => pure "None"
  | .option t, h, .some v => do pure ("Some(" ++ (← labelled t h v) ++ ")")
  | .unit, _, _ => pure "()"
  | .pair ta tb, h, .pair a b => do
    let x ← labelled ta h a
    let y ← labelled tb h b
    pure ("(" ++ x ++ "," ++ y ++ ")")
  | _, _, _ => pure "?"

/-- cells with storage reachable from a value (whole backing arrays) -/
partial def cells : Ty → Heap → Val → List Nat → List Nat
  | .ptr t, h, .ptr a, acc =>
    if acc.contains a then acc else
    match h[a]? with
    | some (.box v) => cells t h v (a :: acc)
    | _ => acc
  | .slice t, h, .slice a _, acc =>
    if acc.contains a then acc else
    match h[a]? with
    | some (.arr []) => acc
    | some (.arr vs) => vs.foldl (fun acc v => cells t h v acc) (a :: acc)
    | _ => acc
  | .map k v, h, .map a, acc =>
    if acc.contains a then acc else
    match h[a]? with
    | some (.mp kvs) => kvs.foldl (fun acc kv => cells v h kv.2 (cells k h kv.1 acc)) (a :: acc)
    | _ => acc
  | .option t, h, .some v, acc => cells t h v acc
  | .pair ta tb, h, .pair a b, acc => cells tb h b (cells ta h a acc)
  | _, _, _, acc => acc

def step (line : String) : String :=
  match Sexp.parse line with
  | some (.list [.atom "clone", i, v]) =>
    match parseInst i with
    | none => "bad-op"
    | some inst =>
      match (parseVal v).run {} with
      | none => "bad-op"
      | some (val, st) =>
        let r := clone inst val st.heap
        let c := (labelled inst.ty r.2 r.1).run' []
        let o := (labelled inst.ty r.2 val).run' []
        let cc := cells inst.ty r.2 r.1 []
        let oc := cells inst.ty r.2 val []
        let shared := (cc.filter oc.contains).length
        s!"C={c} S={shared} O={o}"
  | _ => "bad-op"

partial def loop (h : IO.FS.Stream) (out : IO.FS.Stream) : IO Unit := do
  let line ← h.getLine
  if line.isEmpty then return ()
  out.putStrLn (step line)
  loop h out

def main : IO Unit := do
  let out ← IO.getStdout
  loop (← IO.getStdin) out
  out.flush
