import FpVerif.Funcs
import FpVerif.Model.TryOptExt
import FpVerif.Model.StateTExt
/-! Oracle for the transformer functions / hand-written Option, Try, Either, StateT functions of
    `Model/TryOptExt.lean` and `Model/StateTExt.lean` (harness `cmd/transx`).  It only parses operands and
    renders results; every operation is the model definition of the same name. -/
open FpVerif FpVerif.Sexp

-- operands ------------------------------------------------------------------------------------------

def elemOf : Sexp → Option Val
  | .atom "nil" => some .nil
  | s => do pure (.int (← s.asInt?))

def tOf : Sexp → Option (Try Val)
  | .list [.atom "succ", n] => do pure (.success (← elemOf n))
  | .list [.atom "fail", e] => do pure (.failure (.code (← e.asInt?)))
  | .list [.atom "zero"] => pure (.failure .nil)
  | _ => none

def oOf : Sexp → Option (Option Val)
  | .list [.atom "some", n] => do pure (some (← elemOf n))
  | .list [.atom "none"] => pure none
  | _ => none

def eOf : Sexp → Option (Either Val Val)
  | .list [.atom "right", n] => do pure (.right (← elemOf n))
  | .list [.atom "left", n] => do pure (.left (← elemOf n))
  | _ => none

/-- pointers `*any`: `(nilp)` | `(ptr e)` -/
def pOf : Sexp → Option (Option Val)
  | .list [.atom "ptr", n] => do pure (some (← elemOf n))
  | .list [.atom "nilp"] => pure none
  | _ => none

def toOf : Sexp → Option (Try (Option Val))
  | .list [.atom "tsome", n] => do pure (.success (some (← elemOf n)))
  | .list [.atom "tnone"] => pure (.success none)
  | .list [.atom "tfail", e] => do pure (.failure (.code (← e.asInt?)))
  | .list [.atom "tzero"] => pure (.failure .nil)
  | _ => none

def tsOf : Sexp → Option (Try (List Val))
  | .list (.atom "tseq" :: xs) => do pure (.success (← xs.mapM elemOf))
  | .list [.atom "tfail", e] => do pure (.failure (.code (← e.asInt?)))
  | .list [.atom "tzero"] => pure (.failure .nil)
  | _ => none

def sepOf : Sexp → Option String
  | .atom "comma" => some ","
  | .atom "empty" => some ""
  | .atom "dash" => some "--"
  | _ => none

/-- `fmt.Sprint` on the element shapes the harness generates -/
def sprintVal : Val → String
  | .int n => toString n
  | .nil => "<nil>"
  | v => v.toStr

/-- the Ord instances of the harness: `given` = `ord.ContraMap(ord.Given[int](), AsInt)`, `rev` = its `Reversed()`,
    `div4` = `ord.ContraMap(ord.Given[int](), x => x - x mod 4)` (distinct elements that are `Eqv`) -/
def ordOf : Sexp → Option (TC.OrdD Val)
  | .atom "given" => some (TC.OrdD.contraMap (TC.OrdD.given : TC.OrdD Int) Val.asInt)
  | .atom "rev" => some (TC.OrdD.contraMap (TC.OrdD.given : TC.OrdD Int) Val.asInt).reversed
  | .atom "div4" => some (TC.OrdD.contraMap (TC.OrdD.given : TC.OrdD Int) (fun v => v.asInt - emod v.asInt 4))
  | _ => none

/-- any correct sort: the harness only sorts with orders whose `Eqv` elements are indistinguishable -/
def sortImpl : TC.SortImpl Val := fun less xs => xs.mergeSort fun a b => !less b a

def sup : Sexp → Option (Unit → GoM Val)
  | .list [.atom "sup", id, .list [.atom "ret", n]] => do
    let id ← id.asInt?; let n ← n.asInt?
    pure fun _ => do emit s!"s{id}"; pure (.int n)
  | .list [.atom "sup", id, .list [.atom "panic", p]] => do
    let id ← id.asInt?; let p ← p.asInt?
    pure fun _ => do emit s!"s{id}"; goPanic s!"{p}"
  | _ => none

/-- replay the log of a writer thunk inside `GoM` -/
def replayW {α : Type} (w : EvalM.W α) : GoM α := do
  for e in w.2 do emit e
  pure w.1

/-- callbacks of FoldRight: `Val → Eval Val → GoM (Eval Val)` -/
def frOf : Sexp → Option (Val → EvalM.Eval Val → GoM (EvalM.Eval Val))
  | .list [.atom "frmap", id, a, b] => do
    let id ← id.asInt?; let a ← a.asInt?; let b ← b.asInt?
    pure fun x acc => do
      emit s!"fr{id}:{x}"
      pure (EvalM.map acc (fun v => (.int (a * x.asInt + b * v.asInt), [s!"frm{id}:{v}"])))
  | .list [.atom "frconst", id, c] => do
    let id ← id.asInt?; let c ← c.asInt?
    pure fun x _ => do emit s!"fr{id}:{x}"; pure (EvalM.done (.int c))
  | .list [.atom "frforce", id] => do
    let id ← id.asInt?
    pure fun x acc => do
      emit s!"fr{id}:{x}"
      let v ← replayW (EvalM.run acc)
      pure (EvalM.done (.tup [x, v]))
  | .list [.atom "frpanic", id, p] => do
    let id ← id.asInt?; let p ← p.asInt?
    pure fun x _ => do emit s!"fr{id}:{x}"; goPanic s!"{p}"
  | _ => none

/-- FoldRight is observed as: call it, log `ret`, then force the returned Eval -/
def forceEval (g : GoM (EvalM.Eval Val)) : GoM String := do
  let e ← g
  emit "ret"
  let v ← replayW (EvalM.run e)
  pure (toString v)

-- option.Of arguments -----------------------------------------------------------------------------
structure OfArg where
  shown : String
  ifaceNil : Bool
  kindNil : Bool

def ofArgOf : Sexp → Option OfArg
  | .atom "nil" => some ⟨"nil", true, false⟩
  | .list [.atom "int", n] => do pure ⟨toString (← n.asInt?), false, false⟩
  | .list [.atom "str", .atom "empty"] => some ⟨"\"\"", false, false⟩
  | .list [.atom "str", .atom s] => some ⟨"\"" ++ s ++ "\"", false, false⟩
  | .list [.atom "ptr", n] => do pure ⟨"&" ++ toString (← n.asInt?), false, false⟩
  | .list (.atom "slice" :: xs) => do pure ⟨toString (Val.seq ((← xs.mapM Sexp.asInt?).map Val.int)), false, false⟩
  | .list [.atom "map"] => some ⟨"map", false, false⟩
  | .list [.atom "func"] => some ⟨"func", false, false⟩
  | .list [.atom "chan"] => some ⟨"chan", false, false⟩
  | .list [.atom "nilptr"] => some ⟨"nilptr", false, true⟩
  | .list [.atom "nilslice"] => some ⟨"nilslice", false, true⟩
  | .list [.atom "nilmap"] => some ⟨"nilmap", false, true⟩
  | .list [.atom "nilfunc"] => some ⟨"nilfunc", false, true⟩
  | .list [.atom "nilchan"] => some ⟨"nilchan", false, true⟩
  | _ => none

def strOf : Sexp → Option String
  | .atom "empty" => some ""
  | .atom s => some s
  | _ => none

/-- slices where nil matters: `(nilslice)` | `(slice n...)` -/
def sliceOf : Sexp → Option (Option (List Val))
  | .list [.atom "nilslice"] => some none
  | .list (.atom "slice" :: xs) => do pure (some ((← xs.mapM Sexp.asInt?).map Val.int))
  | _ => none

/-- `Option[*any]` -/
def opOf : Sexp → Option (Option (Option Val))
  | .list [.atom "none"] => some none
  | .list [.atom "some", p] => do pure (some (← pOf p))
  | _ => none

/-- `Option[*cell]`; `(*cell).Deref` logs `deref:<v>` and returns the content; a nil receiver faults -/
def odOf : Sexp → Option (Option (Option Val))
  | .list [.atom "none"] => some none
  | .list [.atom "some", .list [.atom "nilcell"]] => some (some none)
  | .list [.atom "some", .list [.atom "cell", n]] => do pure (some (some (← elemOf n)))
  | _ => none

def cellDeref : Option Val → GoM Val
  | none => throw "runtime:runtime error: invalid memory address or nil pointer dereference"
  | some v => do emit s!"deref:{v}"; pure v

-- rendering ---------------------------------------------------------------------------------------
def sB (b : Bool) : String := if b then "true" else "false"
def sO (o : Option Val) : String := toString (Val.ofOption o)
def sP : Option Val → String
  | none => "nil"
  | some v => s!"&{v}"
def sE : Either Val Val → String
  | .left l => s!"Left({l})"
  | .right r => s!"Right({r})"
def sTry {α : Type} (f : α → String) : Try α → String
  | .success v => s!"Success({f v})"
  | .failure .nil => "Failure(ErrNotInit)"
  | .failure e => s!"Failure({e})"
def sT : Try Val → String := sTry toString
def sTO : Try (Option Val) → String := sTry sO
def sTS : Try (List Val) → String := sTry (fun l => toString (Val.seq l))
def sTB : Try Bool → String := sTry sB
def sTStr : Try String → String := sTry (fun s => "\"" ++ s ++ "\"")

/-- the zero value of the type parameter: `any` → nil, `int` → 0 -/
def zeroOf : Sexp → Option Val
  | .atom "any" => some .nil
  | .atom "int" => some (.int 0)
  | _ => none

instance : BEq Val := ⟨fun a b => a.toStr == b.toStr⟩

/-- Min/Max are rendered by the equivalence class of the result under the order used (C10 fixes "a least element",
    not which of several equivalent ones): given/rev ↦ `asInt v`, div4 ↦ `asInt v - asInt v mod 4` -/
def canonTO (o : Sexp) (t : Try (Option Val)) : Try (Option Val) :=
  match t with
  | .success (some v) =>
    let k := v.asInt
    .success (some (.int (if o.toStr == "div4" then k - emod k 4 else k)))
  | t => t

-- statet operands -----------------------------------------------------------------------------------
abbrev StF := StM.StT Int (Val → GoM Val)

def sI (f : Val → GoM Val) : Int → GoM Int := fun s => do pure (← f (.int s)).asInt

def stfOf : Sexp → Option StF
  | .list [.atom "fpure", f] => do pure (StM.pure (← F1.interp f))
  | .list [.atom "fmods", g, f] => do
      let g ← F1.interp g; let f ← F1.interp f
      pure (StM.modifyS (sI g) (fun _ => pure f))
  | .list [.atom "ffail", g, e] => do
      let g ← F1.interp g; let e ← e.asInt?
      pure (StM.flatMap (StM.modify (sI g)) (fun _ => pure (StM.fromTry (.failure (.code e)))))
  | .list [.atom "fzero", g] => do
      let g ← F1.interp g
      pure (StM.flatMap (StM.modify (sI g)) (fun _ => pure (StM.fromTry (.failure .nil))))
  | _ => none

def showRes (r : Try Val × Int) : String := s!"{Val.ofTry r.1} @{r.2}"

-- operations ----------------------------------------------------------------------------------------
open FpVerif.TryT in
def runOp : Sexp → Option (GoM String)
  -- try_seqt.go
  | .list [.atom "seqT.append", t, x] => do pure (sTS <$> appendSeqT (pure (← tsOf t)) (← elemOf x))
  | .list [.atom "seqT.concat", t, .list xs] => do pure (sTS <$> concatSeqT (pure (← tsOf t)) (← xs.mapM elemOf))
  | .list [.atom "seqT.get", t, i] => do pure (sTO <$> getSeqT (pure (← tsOf t)) (← i.asInt?))
  | .list [.atom "seqT.isEmpty", t] => do pure (sTB <$> isEmptySeqT (pure (← tsOf t)))
  | .list [.atom "seqT.nonEmpty", t] => do pure (sTB <$> nonEmptySeqT (pure (← tsOf t)))
  | .list [.atom "seqT.makeString", t, sep] => do pure (sTStr <$> makeStringSeqT sprintVal (pure (← tsOf t)) (← sepOf sep))
  | .list [.atom "seqT.scan", t, z, f] => do pure (sTS <$> scanSeqT (pure (← tsOf t)) (← elemOf z) (← F2.interp f))
  | .list [.atom "seqT.sort", t, o] => do pure (sTS <$> sortSeqT sortImpl (pure (← tsOf t)) (← ordOf o))
  | .list [.atom "seqT.min", t, o] => do pure ((sTO ∘ canonTO o) <$> minSeqT (pure (← tsOf t)) (← ordOf o))
  | .list [.atom "seqT.max", t, o] => do pure ((sTO ∘ canonTO o) <$> maxSeqT (pure (← tsOf t)) (← ordOf o))
  -- try_optiont.go
  | .list [.atom "optT.orZero", ty, t] => do pure (sT <$> orZeroOptionT (← zeroOf ty) (pure (← toOf t)))
  | .list [.atom "optT.orPtr", t, p] => do pure (sTO <$> orPtrOptionT (pure (← toOf t)) (← pOf p))
  -- try_op.go
  | .list [.atom "try.traverseOption", o, k] => do pure (sTO <$> TryM.traverseOption (← oOf o) (← KT.interp k))
  | .list [.atom "try.foldRight", t, z, f] => do pure (forceEval (TryM.foldRight (← tOf t) (← elemOf z) (← frOf f)))
  -- option_op.go
  | .list [.atom "option.constNone", x] => do
      let x ← elemOf x
      pure (pure (sO (OptM.constNone x)))
  | .list [.atom "option.of", a] => do
      let a ← ofArgOf a
      pure (pure (match OptM.of OfArg.ifaceNil OfArg.kindNil a with
        | some v => s!"Some({v.shown})"
        | none => "None"))
  | .list [.atom "option.ptr", p] => do pure (pure (sO (OptM.ptr (← pOf p))))
  | .list [.atom "option.string", s] => do
      pure (pure (match OptM.string (← strOf s) with
        | some v => "Some(\"" ++ v ++ "\")"
        | none => "None"))
  | .list [.atom "option.nonZero.int", n] => do
      pure (pure (match OptM.nonZero (0 : Int) (← n.asInt?) with
        | some v => s!"Some({v})"
        | none => "None"))
  | .list [.atom "option.nonZero.str", s] => do
      pure (pure (match OptM.nonZero "" (← strOf s) with
        | some v => "Some(\"" ++ v ++ "\")"
        | none => "None"))
  | .list [.atom "option.nonZero.any", x] => do pure (pure (sO (OptM.nonZero Val.nil (← elemOf x))))
  | .list [.atom "option.nonEmptySlice", s] => do
      pure (pure (match OptM.nonEmptySlice (← sliceOf s) with
        | some (some l) => s!"Some({Val.seq l})"
        | some none => "Some(nilslice)"
        | none => "None"))
  | .list [.atom "option.composePure", f, x] => do pure (sO <$> OptM.composePure (← F1.interp f) (← elemOf x))
  | .list [.atom "option.flatPtr", o] => do pure (sO <$> OptM.flatPtr (← opOf o))
  | .list [.atom "option.foldRight", o, z, f] => do pure (forceEval (OptM.foldRight (← oOf o) (← elemOf z) (← frOf f)))
  | .list [.atom "option.deref", o] => do pure (sO <$> OptM.deref (← odOf o) cellDeref)
  | .list [.atom "option.pure0", s] => do pure (sO <$> OptM.pure0 (← sup s) ())
  | .list [.atom "option.pure1", f, x] => do pure (sO <$> OptM.pure1 (← F1.interp f) (← elemOf x))
  -- option.go
  | .list [.atom "o.all", o, b] => do
      let o ← oOf o
      let b := b.toStr == "true"
      pure (do OptM.all o (fun v => do emit s!"y:{v}"; pure b); pure "unit")
  | .list [.atom "o.foreach", o] => do
      let o ← oOf o
      pure (do OptM.foreach o (fun v => emit s!"fe:{v}"); pure "unit")
  | .list [.atom "o.unapply", ty, o] => do
      let r := OptM.unapply (← zeroOf ty) (← oOf o)
      pure (pure s!"({r.1},{sB r.2})")
  | .list [.atom "o.orZero", ty, o] => do pure (toString <$> OptM.orZero (← zeroOf ty) (← oOf o))
  | .list [.atom "o.orPtr", o, p] => do pure (pure (sO (OptM.orPtr (← oOf o) (← pOf p))))
  | .list [.atom "o.ptr", o] => do pure (pure (sP (OptM.mPtr (← oOf o))))
  -- try.go
  | .list [.atom "t.all", t, b] => do
      let t ← tOf t
      let b := b.toStr == "true"
      pure (do TryM.all t (fun v => do emit s!"y:{v}"; pure b); pure "unit")
  | .list [.atom "t.orZero", ty, t] => do pure (toString <$> TryM.orZero (← zeroOf ty) (← tOf t))
  -- either_op.go
  | .list [.atom "either.notRight", l] => do pure (pure (sE (EitM.notRight (← elemOf l))))
  | .list [.atom "either.foreach", e] => do
      let e ← eOf e
      pure (do EitM.foreach e (fun v => emit s!"fe:{v}"); pure "unit")
  -- statet_op.go
  | .list [.atom "st.run", s0, fa, fs] => do
      let s0 ← s0.asInt?; let fa ← F1.interp fa; let fs ← F1.interp fs
      pure (showRes <$> StM.run (fun s => do
        let a ← fa (.int s)
        let ns ← fs (.int s)
        pure (a, ns.asInt)) s0)
  | .list [.atom "st.merge", s0, fss, fsa] => do
      let s0 ← s0.asInt?; let fss ← F1.interp fss; let fsa ← F1.interp fsa
      pure (showRes <$> StM.merge (sI fss) (fun s => fsa (.int s)) s0)
  | .list [.atom "st.apTry", s0, st, t] => do
      pure (showRes <$> StM.apTry (← stfOf st) (← tOf t) (← s0.asInt?))
  | .list [.atom "st.apOption", s0, st, o] => do
      pure (showRes <$> StM.apOption (← stfOf st) (← oOf o) (← s0.asInt?))
  | _ => none

def step (line : String) : String :=
  match Sexp.parse line with
  | some op => match runOp op with
    | some g => renderOutcome id (GoM.exec g)
    | none => "bad-op"
  | none => "bad-op"

partial def loop (h out : IO.FS.Stream) : IO Unit := do
  let line ← h.getLine
  if line.isEmpty then return ()
  out.putStrLn (step line)
  loop h out

def main : IO Unit := do
  let out ← IO.getStdout
  loop (← IO.getStdin) out
  out.flush
