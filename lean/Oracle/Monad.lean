import FpVerif.Funcs
import FpVerif.Model.TryOpt
/-! Line-protocol oracle for the generated monad family of packages try/option/either/statet
(C01, C02, C14).  `oracle_monad <pkg>`; op lines as produced by harness/cmd/monad_<pkg>. -/
open FpVerif FpVerif.Sexp FpVerif.MonadFamily

structure Inst (C : Type → Type) where
  o : MonadOps C
  fm : FoldMFn C
  conv : {α : Type} → Try α → C α
  obs : {α : Type} → (α → Val) → C α → GoM String

def showTry {α : Type} (f : α → Val) (t : Try α) : String :=
  match t with
  | .success a => s!"Success({f a})"
  | .failure .nil => "Failure(ErrNotInit)"
  | .failure e => s!"Failure({e})"

def tryInst : Inst (fun X => GoM (Try X)) where
  o := TryM.ops
  fm := TryM.foldM
  conv t := pure t
  obs f m := do let t ← m; pure (showTry f t)

def optInst : Inst (fun X => GoM (Option X)) where
  o := OptM.ops
  fm := OptM.foldM
  conv t := pure (OptM.fromTry t)
  obs f m := do
    match ← m with
    | some a => pure s!"Some({f a})"
    | none => pure "None"

def eitInst : Inst (fun X => GoM (Either Val X)) where
  o := EitM.ops Val
  fm := EitM.foldM
  conv t := match t with
    | .success a => pure (.right a)
    | .failure e => pure (.left (.str e.toStr))
  obs f m := do
    match ← m with
    | .right a => pure s!"Right({f a})"
    | .left l => pure s!"Left({l})"

def stInst : Inst (StM.StT Int) where
  o := StM.ops Int
  fm := fun xs z f => StM.foldM xs z (fun b a => pure (f b a))
  conv t := fun s => do
    emit s!"st:{s}"
    match t with
    | .success a => pure (.success a, s + 1)
    | .failure e => pure (.failure e, s + 100)
  obs f m := do
    let (t, ns) ← m 5
    pure s!"{showTry f t} @{ns}"

section
variable {C : Type → Type} (I : Inst C)

def mOf : Sexp → Option (C Val)
  | .list [.atom "succ", n] => do pure (I.conv (.success (.int (← n.asInt?))))
  | .list [.atom "fail", e] => do pure (I.conv (.failure (.code (← e.asInt?))))
  | _ => none

def kOf (s : Sexp) : Option (Val → C Val) := do
  let k ← KT.interp s
  pure fun x => I.o.seq (k x) (fun t => I.conv t)

/-- the same callback seen as a plain Go function returning a monadic VALUE (for `Map(m, k)`) -/
def kValOf (s : Sexp) : Option (Val → GoM (C Val)) := do
  let k ← KT.interp s
  pure fun x => do let t ← k x; pure (I.conv t)

def wsum (xs : List Val) : Int :=
  (xs.zipIdx.map (fun (x, i) => ((i : Int) + 1) * x.asInt)).foldl (· + ·) 0

def fnOf : Sexp → Option (List Val → GoM Val)
  | .list [.atom "sumN", id] => do
    let id ← id.asInt?
    pure fun xs => do emit s!"fn{id}:{",".intercalate (xs.map toString)}"; pure (.int (wsum xs))
  | .list [.atom "tupN", id] => do
    let id ← id.asInt?
    pure fun xs => do emit s!"fn{id}:{",".intercalate (xs.map toString)}"; pure (.seq xs)
  | .list [.atom "panicN", id, p] => do
    let id ← id.asInt?; let p ← p.asInt?
    pure fun xs => do emit s!"fn{id}:{",".intercalate (xs.map toString)}"; goPanic s!"{p}"
  | _ => none

def knOf : Sexp → Option (List Val → C Val)
  | .list [.atom "kn", id, m, e] => do
    let id ← id.asInt?; let m ← m.asInt?; let e ← e.asInt?
    pure fun xs => I.o.seq (do
        emit s!"kn{id}:{",".intercalate (xs.map toString)}"
        if m != 0 && emod (wsum xs) m == 0 then pure (Try.failure (.code e)) else pure (Try.success (Val.int (wsum xs))))
      (fun t => I.conv t)
  | _ => none

def mfOf : Sexp → Option (C (Val → GoM Val))
  | .list [.atom "pureF", f] => do pure (I.o.pure' (← F1.interp f))
  | .list [.atom "failF", e] => do pure (I.conv (.failure (.code (← e.asInt?))))
  | _ => none

def mkCur : (n : Nat) → (lvl : Nat) → List Val → (List Val → GoM Val) → (Val → GoM (Cur Val Val n))
  | 0, _, acc, fn => fun x => fn (acc ++ [x])
  | n + 1, lvl, acc, fn => fun x => do
    emit s!"cur{lvl}:{x}"
    pure (mkCur n (lvl + 1) (acc ++ [x]) fn)

def vInts (xs : List Sexp) : Option (List Val) := xs.mapM (fun x => do pure (Val.int (← x.asInt?)))

def three (x : Val) : GoM (List Val) := pure [x, .int (x.asInt + 1), .int (x.asInt + 2)]
def two (x : Val) : GoM (List Val) := pure [x, .int (x.asInt + 1)]

def obsV (m : C Val) : GoM String := I.obs id m
def obsL (m : C (List Val)) : GoM String := I.obs Val.seq m

def runOp (op : Sexp) : Option (GoM String) :=
  let o := I.o
  match op with
  | .list [.atom "flatMap", m, k] => do pure (obsV I (o.flatMap (← mOf I m) (← kOf I k)))
  | .list [.atom "map", m, f] => do pure (obsV I (map o (← mOf I m) (← F1.interp f)))
  | .list [.atom "flatten", m, k] => do pure (obsV I (flatten o (map o (← mOf I m) (← kValOf I k))))
  | .list [.atom "replace", m, n] => do pure (obsV I (replace o (← mOf I m) (.int (← n.asInt?))))
  | .list [.atom "map2", a, b, f] => do pure (obsV I (map2 o (← mOf I a) (← mOf I b) (← F2.interp f)))
  | .list [.atom "zip", a, b] => do
      pure (I.obs (fun (p : Val × Val) => .tup [p.1, p.2]) (zip o (← mOf I a) (← mOf I b)))
  | .list [.atom "ap", f, m] => do pure (obsV I (ap o (← mfOf I f) (← mOf I m)))
  | .list [.atom "apFunc", f, m] => do
      let m ← mOf I m
      pure (obsV I (apFunc o (← mfOf I f) (fun _ => o.seq (emit "sup") (fun _ => m))))
  | .list [.atom "compose", k1, k2, n] => do
      pure (obsV I (compose o (← kOf I k1) (← kOf I k2) (.int (← n.asInt?))))
  | .list [.atom "compose2", k1, k2, n] => do
      pure (obsV I (compose o (← kOf I k1) (← kOf I k2) (.int (← n.asInt?))))
  | .list [.atom "mapSeqLift", m, f] => do
      pure (obsL I (mapSeqLift o (map o (← mOf I m) three) (← F1.interp f)))
  | .list [.atom "mapSliceLift", m, f] => do
      pure (obsL I (mapSeqLift o (map o (← mOf I m) two) (← F1.interp f)))
  | .list [.atom "lift", f, m] => do pure (obsV I (map o (← mOf I m) (← F1.interp f)))
  | .list [.atom "liftA2", f, a, b] => do pure (obsV I (liftA2 o (← F2.interp f) (← mOf I a) (← mOf I b)))
  | .list [.atom "liftM", k, m] => do pure (obsV I (MonadFamily.liftM o (← kOf I k) (← mOf I m)))
  | .list [.atom "liftM2", k, a, b] => do
      let kn ← knOf I k
      pure (obsV I (liftM2 o (fun x y => kn [x, y]) (← mOf I a) (← mOf I b)))
  | .list [.atom "flatMap2", a, b, k] => do
      let kn ← knOf I k
      pure (obsV I (flatMap2 o (← mOf I a) (← mOf I b) (fun x y => kn [x, y])))
  | .list [.atom "flap", f, n] => do pure (obsV I (flap o (← mfOf I f) (.int (← n.asInt?))))
  | .list [.atom "flapMap", f, m, n] => do
      pure (obsV I (flapMap o (← F2.interp f) (← mOf I m) (.int (← n.asInt?))))
  | .list [.atom "flatFlapMap", k, m, n] => do
      let kn ← knOf I k
      pure (obsV I (flatFlapMap o (fun x y => kn [x, y]) (← mOf I m) (.int (← n.asInt?))))
  | .list [.atom "method1", m, f, n] => do
      pure (obsV I (method1 o (← mOf I m) (← F2.interp f) (.int (← n.asInt?))))
  | .list [.atom "flatMethod1", m, k, n] => do
      let kn ← knOf I k
      pure (obsV I (flatMethod1 o (← mOf I m) (fun x y => kn [x, y]) (.int (← n.asInt?))))
  | .list [.atom "method2", m, f, b, c] => do
      let fn ← fnOf f
      pure (obsV I (method2 o (← mOf I m) (fun x y z => fn [x, y, z]) (.int (← b.asInt?)) (.int (← c.asInt?))))
  | .list [.atom "flatMethod2", m, k, b, c] => do
      let kn ← knOf I k
      pure (obsV I (flatMethod2 o (← mOf I m) (fun x y z => kn [x, y, z]) (.int (← b.asInt?)) (.int (← c.asInt?))))
  | .list [.atom "unzip", a, b] => do
      let t := zip o (← mOf I a) (← mOf I b)
      let (x, y) := unzip o t
      pure (do let sx ← obsV I x; let sy ← obsV I y; pure (sx ++ " ; " ++ sy))
  | .list [.atom "with", f, m, n] => do
      pure (obsV I (with_ o (← F2.interp f) (← mOf I m) (.int (← n.asInt?))))
  | .list [.atom "flap2", tf, b, c] => do
      let tf : C (Val → GoM (Val → GoM Val)) ← match tf with
        | .list [.atom "pureF", f] => do
            let fn ← fnOf f
            pure (o.pure' (fun x => do emit s!"cur1:{x}"; pure (fun y => fn [x, y])))
        | .list [.atom "failF", e] => do pure (I.conv (.failure (.code (← e.asInt?))))
        | _ => none
      pure (obsV I (flap2 o tf (.int (← b.asInt?)) (.int (← c.asInt?))))
  | .list (.atom "foldM" :: z :: k :: xs) => do
      let kn ← knOf I k
      pure (obsV I (I.fm (← vInts xs) (.int (← z.asInt?)) (fun b x => kn [b, x])))
  | .list (.atom "traverse" :: k :: xs) => do pure (obsL I (traverse o I.fm (← vInts xs) (← kOf I k)))
  | .list (.atom "traverseFunc" :: k :: xs) => do pure (obsL I (traverse o I.fm (← vInts xs) (← kOf I k)))
  | .list (.atom "traverseSeq" :: k :: xs) => do pure (obsL I (traverseSeq o I.fm (← vInts xs) (← kOf I k)))
  | .list (.atom "traverseSeqFunc" :: k :: xs) => do pure (obsL I (traverseSeq o I.fm (← vInts xs) (← kOf I k)))
  | .list (.atom "traverseSlice" :: k :: xs) => do pure (obsL I (traverse o I.fm (← vInts xs) (← kOf I k)))
  | .list (.atom "traverseSliceFunc" :: k :: xs) => do pure (obsL I (traverse o I.fm (← vInts xs) (← kOf I k)))
  | .list [.atom "flatMapTraverseSeq", m, k] => do
      pure (obsL I (flatMapTraverseSeq o I.fm (map o (← mOf I m) three) (← kOf I k)))
  | .list [.atom "flatMapTraverseSlice", m, k] => do
      let k ← kOf I k
      pure (obsL I (o.flatMap (map o (← mOf I m) two) (fun sa => traverse o I.fm sa k)))
  | .list (.atom "sequence" :: ms) => do pure (obsL I (sequence o I.fm (← ms.mapM (mOf I))))
  | .list (.atom "sequenceIterator" :: ms) => do pure (obsL I (sequence o I.fm (← ms.mapM (mOf I))))
  | .list [.atom "zip3", a, b, c] => do
      pure (obsV I (liftAList o [← mOf I a, ← mOf I b, ← mOf I c] (fun xs => pure (.tup xs))))
  | .list (.atom "composeN" :: a :: ks) => do
      pure (obsV I (composeList o (← ks.mapM (kOf I)) (.int (← a.asInt?))))
  | .list (.atom "liftAN" :: f :: ms) => do pure (obsV I (liftAList o (← ms.mapM (mOf I)) (← fnOf f)))
  | .list (.atom "mapN" :: f :: ms) => do pure (obsV I (liftAList o (← ms.mapM (mOf I)) (← fnOf f)))
  | .list (.atom "liftMN" :: k :: ms) => do pure (obsV I (liftMList o (← ms.mapM (mOf I)) (← knOf I k)))
  | .list (.atom "flatMapN" :: k :: ms) => do pure (obsV I (liftMList o (← ms.mapM (mOf I)) (← knOf I k)))
  | .list (.atom "flapN" :: tf :: args) => do
      let args ← vInts args
      match args.length with
      | 0 => none
      | n + 1 =>
        let tf : C (Val → GoM (Cur Val Val n)) ← match tf with
          | .list [.atom "pureF", f] => do pure (o.pure' (mkCur n 1 [] (← fnOf f)))
          | .list [.atom "failF", e] => do pure (I.conv (.failure (.code (← e.asInt?))))
          | _ => none
        pure (I.obs (fun (r : Option Val) => r.getD (.str "arity-mismatch")) (flapN o n tf args))
  | .list (.atom "methodN" :: m :: f :: rest) => do
      pure (obsV I (methodN o (← mOf I m) (← fnOf f) (← vInts rest)))
  | .list (.atom "flatMethodN" :: m :: k :: rest) => do
      pure (obsV I (flatMethodN o (← mOf I m) (← knOf I k) (← vInts rest)))
  | _ => none

def step (line : String) : String :=
  match Sexp.parse line with
  | some op => match runOp I op with
    | some g => renderOutcome id (GoM.exec g)
    | none => "bad-op"
  | none => "bad-op"
end

partial def loop {C : Type → Type} (I : Inst C) (h out : IO.FS.Stream) : IO Unit := do
  let line ← h.getLine
  if line.isEmpty then return ()
  out.putStrLn (step I line)
  loop I h out

def main (args : List String) : IO Unit := do
  let out ← IO.getStdout
  let inp ← IO.getStdin
  match args with
  | ["try"] => loop tryInst inp out
  | ["option"] => loop optInst inp out
  | ["either"] => loop eitInst inp out
  | ["statet"] => loop stInst inp out
  | _ => out.putStrLn "usage: oracle_monad try|option|either|statet"
  out.flush
