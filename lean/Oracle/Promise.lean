import FpVerif.Sexp
import FpVerif.Model.Promise
/-!
Line-protocol oracle for `fp.Promise` (C05).

op:     `(promise|promise-asis <zero 0|1> (progs P…) (sched t…))`
        P = `(complete <api> (succ n)|(fail n))` | `(register <api> id <executor>)` | `(observe)`
        head `promise` runs the repaired model (`Variant.copyFirst`), `promise-asis` the model of
        future.go as written (`Variant.asIs`)
answer: `<trace> ; <finishing trace> | <delivered callbacks> | <final state>`
-/
open FpVerif FpVerif.Sexp FpVerif.Sched FpVerif.Promise

abbrev R := Try Int

def interpR : Sexp → Option R
  | .list [.atom "succ", n] => do pure (.success (← n.asInt?))
  | .list [.atom "fail", n] => do pure (.failure (.code (← n.asInt?)))
  | _ => none

def interpFilter : String → Option Filter
  | "oncomplete" => some .all
  | "onsuccess" => some .succ
  | "foreach" => some .succ
  | "onfailure" => some .fail
  | _ => none

def interpProg : Sexp → Option (Prog R)
  | .list [.atom "complete", .atom _, r] => do pure (.complete (← interpR r))
  | .list [.atom "register", .atom api, id, .atom _] => do pure (.register ⟨← id.asNat?, ← interpFilter api⟩)
  | .list [.atom "observe"] => pure .observe
  | _ => none

def showR : R → String
  | .success v => s!"Success({v})"
  | .failure e => s!"Failure({e})"

def showDelivery (p : Cb × R) : String :=
  match p.1.filter, p.2 with
  | .all, r => s!"c{p.1.id}:{showR r}"
  | .succ, .success v => s!"c{p.1.id}:{v}"
  | .fail, .failure e => s!"c{p.1.id}:{e}"
  | _, _ => s!"c{p.1.id}:?"

def showTrace (tr : List (Tid × Option (Local R))) (skips : Bool) : String :=
  " ".intercalate (tr.filterMap fun (t, l) =>
    match l with
    | some l => some s!"{t}>{l.point}"
    | none => if skips then some s!"{t}>-" else none)

def answer (v : Variant) (zero : Bool) (progs : List (Prog R)) (sched : List Tid) : String :=
  let s0 := init zero progs
  let (s1, tr1) := runTrace (stepT v) s0 sched
  let (s2, tr2) := runTrace (stepT v) s1 (finishSched s1)
  let rets := ",".intercalate (s2.threads.map Local.point)
  let fin := match s2.shared.cell with
    | .done r => s!"completed=true value={showR r}"
    | _ => "completed=false"
  let q := if allFinished s2 then "" else " UNFINISHED"
  s!"{showTrace tr1 true} ; {showTrace tr2 false} | {",".intercalate ((delivered s2.shared.log).map showDelivery)} | rets=[{rets}] {fin}{q}"

def step (line : String) : String :=
  match Sexp.parse line with
  | some (.list [.atom head, z, .list (.atom "progs" :: ps), .list (.atom "sched" :: ts)]) =>
    let v? : Option Variant := match head with
      | "promise" => some .copyFirst
      | "promise-asis" => some .asIs
      | _ => none
    match v?, z.asNat?, ps.mapM interpProg, ts.mapM Sexp.asNat? with
    | some v, some z, some ps, some ts => answer v (z != 0) ps ts
    | _, _, _, _ => "bad-op"
  | _ => "bad-op"

partial def loop (h : IO.FS.Stream) (out : IO.FS.Stream) : IO Unit := do
  let line ← h.getLine
  if line.isEmpty then return ()
  out.putStrLn (step line)
  loop h out

def main : IO Unit := do
  let out ← IO.getStdout
  loop (← IO.getStdin) out
  out.flush
