import FpVerif.Sexp
import FpVerif.Model.Eval
/-! Oracle for lazy.Eval (C16). -/
open FpVerif FpVerif.Sexp FpVerif.EvalM

abbrev E := Eval Int

def f1 : Sexp → Option (Int → W Int)
  | .list [.atom "lin", id, a, b] => do
    let id ← id.asInt?; let a ← a.asInt?; let b ← b.asInt?
    pure fun x => (a * x + b, [s!"f{id}:{x}"])
  | _ => none

def f2 : Sexp → Option (Int → Int → W Int)
  | .list [.atom "lin", id, a, b] => do
    let id ← id.asInt?; let a ← a.asInt?; let b ← b.asInt?
    pure fun x y => (a * x + b * y, [s!"g{id}:{x},{y}"])
  | _ => none

def tailLoopE : Nat → Int → E
  | 0, acc => done acc
  | n + 1, acc => tailCall (fun _ => tailLoopE n (acc + 1))

mutual
partial def evOf : Sexp → Option E
  | .list [.atom "done", n] => do pure (done (← n.asInt?))
  | .list [.atom "zero"] => pure (.leaf none)
  | .list [.atom "call", id, n] => do
    let id ← id.asInt?; let n ← n.asInt?
    pure (call (fun _ => (n, [s!"c{id}"])))
  | .list [.atom "tailCall", id, e] => do
    let id ← id.asInt?; let e ← evOf e
    pure (tailCall (fun _ => .logged [s!"t{id}"] e))
  | .list (.atom "tailCallN" :: id :: xs) => do
    let id ← id.asInt?; let xs ← xs.mapM Sexp.asInt?
    let t := (xs.zipIdx.map (fun (x, i) => ((i : Int) + 1) * x)).foldl (· + ·) 0
    pure (tailCall (fun _ => .logged [s!"t{id}:{",".intercalate (xs.map toString)}"] (done t)))
  | .list [.atom "tailCall2", id, x, y] => do
    let id ← id.asInt?; let x ← x.asInt?; let y ← y.asInt?
    pure (tailCall (fun _ => .logged [s!"t{id}:{x},{y}"] (done (x - y))))
  | .list [.atom "tailCall3", id, x, y, z] => do
    let id ← id.asInt?; let x ← x.asInt?; let y ← y.asInt?; let z ← z.asInt?
    pure (tailCall (fun _ => .logged [s!"t{id}:{x},{y},{z}"] (done (x - y + 2 * z))))
  | .list [.atom "map", e, f] => do pure (map (← evOf e) (← f1 f))
  | .list [.atom "pmap", e, f] => do pure (map (← evOf e) (← f1 f))
  | .list [.atom "flatMap", e, k] => do pure (flatMap (← evOf e) (← keOf k))
  | .list [.atom "pflatMap", e, k] => do pure (flatMap (← evOf e) (← keOf k))
  | .list [.atom "map2", a, b, f] => do pure (map2 (← evOf a) (← evOf b) (← f2 f))
  | .list [.atom "tailLoop", n, acc] => do pure (tailLoopE (← n.asNat?) (← acc.asInt?))
  | _ => none

partial def keOf : Sexp → Option (Int → E)
  | .list [.atom "kdone", id, a, b] => do
    let id ← id.asInt?; let a ← a.asInt?; let b ← b.asInt?
    pure fun v => .logged [s!"ke{id}:{v}"] (done (a * v + b))
  | .list [.atom "kcall", id] => do
    let id ← id.asInt?
    pure fun v => .logged [s!"ke{id}:{v}"] (call (fun _ => (v + 1, [s!"kc{id}"])))
  | .list [.atom "ktail", id, a] => do
    let id ← id.asInt?; let a ← a.asInt?
    pure fun v => .logged [s!"ke{id}:{v}"] (tailCall (fun _ => .logged [s!"kt{id}"] (done (v + a))))
  | .list [.atom "kconst", id, e] => do
    let id ← id.asInt?; let e ← evOf e
    pure fun v => .logged [s!"ke{id}:{v}"] e
  | _ => none
end

def step (line : String) : String :=
  match Sexp.parse line with
  | some (.list [.atom m, e]) =>
    if m == "run" || m == "get" then
      match evOf e with
      | some e =>
        -- the loop, exactly as `Run` does it, with a generous iteration budget
        match runLoop 100000000 e [] with
        | some (v, log) => s!"{v} | {",".intercalate log}"
        | none => "out-of-fuel"
      | none => "bad-op"
    else "bad-op"
  | _ => "bad-op"

partial def loop (h out : IO.FS.Stream) : IO Unit := do
  let line ← h.getLine
  if line.isEmpty then return ()
  out.putStrLn (step line)
  loop h out

def main : IO Unit := do
  let out ← IO.getStdout
  loop (← IO.getStdin) out
  out.flush
