import FpVerif.Sexp
import FpVerif.Model.Record
/-! The answers of the record model (C07) to the lines of the line protocol (shared by
    `oracle_record` and `oracle_derive`).

  (methods SPEC)                     which methods / Mutable fields exist
  (eval SPEC X B C M1 M2)            what every generated method returns on x (base builder b, new values from c, maps m1 m2)
  (clash SPEC)                       does the model predict that the generated file cannot compile
-/
open FpVerif FpVerif.Sexp FpVerif.Rec

def hexVal (c : Char) : Option Nat :=
  if '0' ≤ c ∧ c ≤ '9' then some (c.toNat - '0'.toNat)
  else if 'A' ≤ c ∧ c ≤ 'F' then some (c.toNat - 'A'.toNat + 10)
  else if 'a' ≤ c ∧ c ≤ 'f' then some (c.toNat - 'a'.toNat + 10)
  else none

/-- undo the harness's %XX escaping (ASCII payloads only) -/
def unescL : List Char → List Char
  | '%' :: a :: b :: rest =>
    match hexVal a, hexVal b with
    | some x, some y => if x * 16 + y == 0 then unescL rest else Char.ofNat (x * 16 + y) :: unescL rest
    | _, _ => '%' :: unescL (a :: b :: rest)
  | c :: rest => c :: unescL rest
  | [] => []

def unesc (s : String) : String := String.ofList (unescL s.toList)

def hexDigit (n : Nat) : Char := if n < 10 then Char.ofNat (48 + n) else Char.ofNat (55 + n)

def esc (s : String) : String :=
  if s.isEmpty then "%00" else
  String.ofList (s.toList.flatMap fun c =>
    if c.toNat ≤ 32 ∨ c == '(' ∨ c == ')' ∨ c == '%' ∨ c == ';' ∨ c == '=' ∨ c == '|' ∨ c.toNat ≥ 127 then
      ['%', hexDigit (c.toNat / 16), hexDigit (c.toNat % 16)]
    else [c])

partial def parseTy : Sexp → Option Ty
  | .list [.atom "c", .atom n] => some (.conc n)
  | .list [.atom "i", .atom n, .atom "all"] => some (.iface n true [])
  | .list (.atom "i" :: .atom n :: .atom "some" :: impls) =>
    some (.iface n false (impls.filterMap fun | .atom a => some a | _ => none))
  | .list [.atom "o", e] => do pure (.opt (← parseTy e))
  | _ => none

partial def parseRV : Sexp → Option RV
  | .list [.atom "a", .atom t] => some (.atom t)
  | .atom "n" => some .none
  | .list [.atom "s", v] => do pure (.some (← parseRV v))
  | .atom "z" => some .nilIface
  | .list [.atom "i", .atom d, v] => do pure (.iface d (← parseRV v))
  | _ => none

def atoms : List Sexp → List String := fun xs => xs.filterMap fun | .atom a => some a | _ => none

def parseField : Sexp → Option Field
  | .list [.atom "f", .atom name, ty, .atom emb, .atom empty, .atom nilable, .atom tag, zero] => do
    pure { name := name, ty := ← parseTy ty, embedded := emb == "emb", emptyStruct := empty == "empty",
           nilable := nilable == "nilable", tag := unesc tag, zero := ← parseRV zero }
  | _ => none

def parseSpec : Sexp → Option StructSpec
  | .list [.atom "spec", .atom name, .list (.atom "origin" :: _), .list (.atom "ann" :: anns), .list (.atom "usert" :: ut),
           .list (.atom "userb" :: ub), .list (.atom "userm" :: um), .list (.atom "defs" :: defs), .list (.atom "fields" :: fs)] => do
    let a := atoms anns
    let fields ← fs.mapM parseField
    pure { name := name, fields := fields,
           ann := { value := a.contains "value", json := a.contains "json", genLabelled := a.contains "genlabelled",
                    getter := a.contains "getter", with_ := a.contains "with", builder := a.contains "builder",
                    getterPub := a.contains "getterpub", withPub := a.contains "withpub", allArgs := a.contains "allargs" },
           userT := atoms ut, userB := atoms ub, userM := atoms um,
           builderDefined := (atoms defs).contains "b", mutableDefined := (atoms defs).contains "m" }
  | _ => none

def parseRec : Sexp → Option Rec
  | .list (.atom "r" :: vs) => vs.mapM parseRV
  | _ => none

def parseDyn : Sexp → Option Dyn
  | .atom "z" => some none
  | .list [.atom "d", .atom t, v] => do pure (some (t, ← parseRV v))
  | _ => none

def parseMap : Sexp → Option GoMap
  | .list (.atom "m" :: es) => es.mapM fun
    | .list [.atom k, d] => do pure (k, ← parseDyn d)
    | _ => none
  | _ => none

/-- display form of a field value (== zzDispV of the harness) -/
def FpVerif.Rec.RV.disp : RV → String
  | .atom s => s
  | .none => "None"
  | .some v => "Some(" ++ v.disp ++ ")"
  | .nilIface => "nil"
  | .iface d v => "<" ++ d ++ ">" ++ v.disp

def recDisp (x : Rec) : String := "{" ++ ",".intercalate (x.map RV.disp) ++ "}"
def listDisp (x : List RV) : String := "[" ++ ",".intercalate (x.map RV.disp) ++ "]"

def sortStrings (l : List String) : List String := l.mergeSort (fun a b => decide (a ≤ b))

def dynDisp : Dyn → String
  | none => "nil"
  | some (d, v) => "<" ++ d ++ ">" ++ v.disp

def mapDisp (m : GoMap) : String :=
  let keys := sortStrings (m.map (·.1))
  "map{" ++ ",".intercalate (keys.map fun k => k ++ ":" ++ dynDisp (GoMap.get m k)) ++ "}"

def labDisp (l : List Lab) : String :=
  "[" ++ ",".intercalate (l.map fun e => e.name ++ ":" ++ e.value.disp ++ ":" ++ esc e.tag) ++ "]"

def hasMeth (t : Table) (m : Meth) : Bool := t.any (·.2 == m)

def inner? : RV → Option RV
  | .some w => some w
  | _ => none

def evalLine (s : StructSpec) (x b c : Rec) (m1 m2 : GoMap) : String :=
  let tT := methodsT s
  let tB := methodsB s
  let tM := methodsM s
  let hasBuild := hasMeth tB .build
  let fromT : List String := tT.flatMap fun (n, m) =>
    match m with
    | .getter i | .getPub i => [n ++ "=" ++ (getF i x).disp]
    | .withF i | .withPub i => [n ++ "=" ++ recDisp (withF i (getF i c) x)]
    | .withSome i => match inner? (getF i c) with
      | some w => [n ++ "=" ++ recDisp (withSome i w x)]
      | none => [n ++ "=-"]
    | .withNone i => [n ++ "=" ++ recDisp (withNone i x)]
    | .asTuple => [n ++ "=" ++ listDisp (asTuple s x)]
    | .unapply => [n ++ "=" ++ listDisp (unapply s x)]
    | .asMap => [n ++ "=" ++ mapDisp (asMap s x)]
    | .asLabelled => [n ++ "=" ++ labDisp (asLabelled s x)]
    | .builder => if hasBuild then [n ++ "=" ++ recDisp (build (toBuilder x))] else []
    | .asMutable =>
      [n ++ "=" ++ recDisp (asMutable s x)] ++
        (if hasMeth tM .asImmutable then ["AsImmutable=" ++ recDisp (asImmutable s (asMutable s x))] else [])
    | _ => []
  let fromB : List String := if !hasBuild then [] else tB.flatMap fun (n, m) =>
    match m with
    | .bSet i => ["B." ++ n ++ "=" ++ recDisp (build (withF i (getF i c) b))]
    | .bSome i => match inner? (getF i c) with
      | some w => ["B." ++ n ++ "=" ++ recDisp (build (withSome i w b))]
      | none => ["B." ++ n ++ "=-"]
    | .bNone i => ["B." ++ n ++ "=" ++ recDisp (build (withNone i b))]
    | .fromTuple => if s.nApp > 0 then ["B.FromTuple=" ++ recDisp (build (fromTuple s b (project s.fields x)))] else []
    | .apply => ["B.Apply=" ++ recDisp (build (apply s b (project s.fields x)))]
    | .fromMap => ["B.FromMap=" ++ recDisp (build (fromMap s.fields b m1)), "B.FromMap2=" ++ recDisp (build (fromMap s.fields b m2))]
    | .fromLabelled =>
      if hasMeth tT .asLabelled then ["B.FromLabelled=" ++ recDisp (build (fromLabelled s b (asLabelled s x)))] else []
    | _ => []
  let fromF : List String := if s.ann.allArgs then ["New=" ++ recDisp (newAllArgs s (project s.fields x))] else []
  ";".intercalate (fromT ++ fromB ++ fromF)

def methodsLine (s : StructSpec) : String :=
  let hasB := s.valueRuns || s.ann.builder || s.builderDefined
  let names (t : Table) (user : List String) := ",".intercalate (sortStrings (t.names ++ user))
  "T:" ++ names (methodsT s) s.userT ++
  "|B:" ++ (if hasB then names (methodsB s) s.userB else "-") ++
  "|M:" ++ (if s.valueRuns then names (methodsM s) s.userM else "-") ++
  "|MF:" ++ (if s.valueRuns then
      ",".intercalate ((s.fields.zip (mutableFieldNames s)).map fun (f, n) => n ++ ":" ++ esc (mutableTag s f))
    else "-")

def recordStep (line : String) : String :=
  match Sexp.parse line with
  | some (.list [.atom "methods", sp]) =>
    match parseSpec sp with
    | some s => methodsLine s
    | none => "bad-op"
  | some (.list [.atom "clash", sp]) =>
    match parseSpec sp with
    | some s => if (clashes s).isEmpty then "ok" else "clash"
    | none => "bad-op"
  | some (.list [.atom "eval", sp, x, b, c, m1, m2]) =>
    match parseSpec sp, parseRec x, parseRec b, parseRec c, parseMap m1, parseMap m2 with
    | some s, some x, some b, some c, some m1, some m2 => evalLine s x b c m1 m2
    | _, _, _, _, _, _ => "bad-op"
  | _ => "bad-op"

