import FpVerif.Sexp
import FpVerif.Model.Json
import Oracle.RecordStep
/-! Line-protocol oracle for the JSON methods of `fp.Option` (C15): `oracle_json`.

  (optjson direct HEX TARGET)   (&target).UnmarshalJSON(bytes)            — `Opt.unmarshalJSON` of the model
  (optjson via HEX TARGET)      json.Unmarshal(bytes, &target)            — syntax check, trimmed literal, then the method
  (optenc TARGET)               json.Marshal(target)

with `T = int`.  The element codec is a concrete rendering of what `encoding/json` does for `int` on
the byte strings the harness generates (alphabet `nul tre0129-.eE+" x`, no brackets, no backslash):
whitespace, the literals `null`/`true`, numbers, strings.  TARGET is `n` (None) or `(s K)`.
-/
open FpVerif FpVerif.Sexp FpVerif.Json

def isSpace (b : UInt8) : Bool := b == 32 || b == 9 || b == 10 || b == 13
def isDigit (b : UInt8) : Bool := 48 ≤ b && b ≤ 57

def trimL : Bytes → Bytes
  | b :: bs => if isSpace b then trimL bs else b :: bs
  | [] => []

def trim (b : Bytes) : Bytes := (trimL (trimL b).reverse).reverse

def takeDigits : Bytes → Bytes × Bytes
  | b :: bs => if isDigit b then let (d, r) := takeDigits bs; (b :: d, r) else ([], b :: bs)
  | [] => ([], [])

/-- what a JSON scalar literal is -/
inductive Lit where
  | null | true_ | int (neg : Bool) (digits : Bytes) | nonInt | str
  deriving Repr

/-- JSON number grammar: -?(0|[1-9][0-9]*)(\.[0-9]+)?([eE][+-]?[0-9]+)? ; returns the literal kind if the WHOLE input is a number -/
def parseNumber (b : Bytes) : Option Lit :=
  let (neg, r) := match b with
    | 45 :: r => (true, r)
    | r => (false, r)
  let (ds, r) := takeDigits r
  if ds.isEmpty then none
  else if ds.length > 1 && ds.head? == some 48 then none
  else
    let (hasFrac, r, ok1) := match r with
      | 46 :: r' => let (fs, r'') := takeDigits r'; (true, r'', !fs.isEmpty)
      | r => (false, r, true)
    if !ok1 then none else
    let (hasExp, r, ok2) := match r with
      | c :: r' =>
        if c == 101 || c == 69 then
          let r'' := match r' with
            | s :: t => if s == 43 || s == 45 then t else s :: t
            | [] => []
          let (es, r3) := takeDigits r''
          (true, r3, !es.isEmpty)
        else (false, c :: r', true)
      | [] => (false, [], true)
    if !ok2 then none
    else if !r.isEmpty then none
    else if hasFrac || hasExp then some .nonInt
    else some (.int neg ds)

/-- the scalar literal a (trimmed) input is, if it is valid JSON -/
def parseLit (b : Bytes) : Option Lit :=
  if b == nullLit then some .null
  else if b == [116, 114, 117, 101] then some .true_
  else match b with
    | 34 :: rest =>
      -- a string without escapes: closing quote is the last byte, no quote / control byte / backslash inside
      match rest.reverse with
      | 34 :: innerRev => if innerRev.all (fun c => c != 34 && c != 92 && c ≥ 32) then some .str else none
      | _ => none
    | _ => parseNumber b

def digitsVal (ds : Bytes) : Int := ds.foldl (fun acc d => acc * 10 + (d.toNat - 48 : Nat)) 0

/-- `json.Unmarshal(b, &t)` for `t int` (current value `cur`) -/
def intDec (b : Bytes) (cur : Int) : Except String Int :=
  match parseLit (trim b) with
  | none => .error "syntax"
  | some .null => .ok cur                      -- null into a non-pointer: no-op
  | some (.int neg ds) => .ok (if neg then - digitsVal ds else digitsVal ds)
  | some _ => .error "type"

def intEnc (v : Int) : Bytes := (toString v).toUTF8.toList

def intCodec : Codec String Int := ⟨intEnc, intDec⟩

def hexNibble (c : Char) : Option Nat :=
  if '0' ≤ c ∧ c ≤ '9' then some (c.toNat - 48) else if 'a' ≤ c ∧ c ≤ 'f' then some (c.toNat - 87) else none

def unhex : List Char → Option Bytes
  | a :: b :: rest => do
    let x ← hexNibble a; let y ← hexNibble b
    let r ← unhex rest
    pure (UInt8.ofNat (x * 16 + y) :: r)
  | [] => some []
  | _ => none

def parseTarget : Sexp → Option (Option Int)
  | .atom "n" => some none
  | .list [.atom "s", k] => do pure (some (← k.asInt?))
  | _ => none

def showOpt : Option Int → String
  | none => "None"
  | some k => s!"Some({k})"

def showRes (r : Res (UErr String) (Option Int)) (cur : Option Int) : String :=
  (match r.err with | none => "ok " | some _ => "err ") ++ showOpt (r.mem.getD cur)

def step (line : String) : String :=
  match Sexp.parse line with
  | some (.list [.atom "optjson", .atom mode, .atom hex, tgt]) =>
    match unhex (if hex == "-" then [] else hex.toList), parseTarget tgt with
    | some b, some cur =>
      if mode == "direct" then showRes (Opt.unmarshalJSON intCodec 0 b (some cur)) cur
      else
        -- json.Unmarshal: checkValid over the whole input, then the method gets the literal without the white space around it
        match parseLit (trim b) with
        | none => "err " ++ showOpt cur
        | some _ => showRes (Opt.unmarshalJSON intCodec 0 (trim b) (some cur)) cur
    | _, _ => "bad-op"
  | some (.list [.atom "optenc", tgt]) =>
    match parseTarget tgt with
    | some v => String.ofList ((Opt.marshalJSON intCodec v).map (fun b => Char.ofNat b.toNat))
    | none => "bad-op"
  | some (.list (.atom "methods" :: _)) => recordStep line   -- struct tags of the Mutable twin: the record model
  | _ => "bad-op"

partial def loop (h : IO.FS.Stream) (out : IO.FS.Stream) : IO Unit := do
  let line ← h.getLine
  if line.isEmpty then return ()
  out.putStrLn (step line)
  loop h out

def main : IO Unit := do
  let out ← IO.getStdout
  loop (← IO.getStdin) out
  out.flush
