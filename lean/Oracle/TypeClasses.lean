import FpVerif.Model.TCValue
/-!
Line-protocol oracle for the type-class instances (C09, C10, C11).

One operation per line:
  (eqv eq|hash|ord I a b)   (hash I a)
  (less I a b) (compare I a b) (lesseq I a b) (min I a b) (max I a b)
  (sort seq|iter|list I xs) (minof seq|iter|list I xs) (maxof seq|iter|list I xs)
  (empty M) (combine M a b) (sgcombine S a b)
  (reduce seq|iter|list M xs) (foldmap seq|list M (tbl v…) xs)
`I`, `M`, `S` are instance expressions, interpreted with the combinators of
`FpVerif/Model/TypeClasses.lean` at concrete carrier types; values travel as `V`.
-/
open FpVerif FpVerif.Sexp FpVerif.TC

/-- an instance together with its carrier type and the conversions from/to wire values -/
structure Pack (D : Type → Type) where
  α : Type
  d : D α
  ofV : V → α
  toV : α → V
  isNil : Bool := false      -- the carrier is `hlist.Nil` (decides `hlist.IsNil` in `hash.HCons`)

def idPack {D : Type → Type} (d : D V) : Pack D := ⟨V, d, id, id, false⟩

-- ---------------------------------------------------------------------------------- function table

/-- functions `U → T` for ContraMap, on wire values -/
def contraFn : String → Option (V → V)
  | "neg" => some fun v => V.ofInt64 (- v.asInt64)
  | "mod3" => some fun v => V.int (v.asInt64.toInt.emod 3)
  | "len" => some fun v => V.int v.asStr.utf8ByteSize
  | "some" => some fun v => V.some v
  | "single" => some fun v => V.seq [v]
  | "fst" => some fun v => v.asTup.headD V.unit
  | "id" => some id
  | _ => none

/-- user supplied strict orders / comparisons on ints for `as.Ord`, `ord.New`, `ord.FromCompare` -/
def lessFn : Sexp → Option (V → V → Bool)
  | .atom "lt" => some fun a b => decide (a.asInt64 < b.asInt64)
  | .atom "gt" => some fun a b => decide (b.asInt64 < a.asInt64)
  | .list [.atom "ltmod", m] => do
      let m ← m.asInt?
      pure fun a b => decide (a.asInt64.toInt.emod m < b.asInt64.toInt.emod m)
  | _ => none

def cmpFn : Sexp → Option (V → V → Int)
  | .atom "cmp" => some fun a b => if a.asInt64 < b.asInt64 then -1 else if b.asInt64 < a.asInt64 then 1 else 0
  | .list [.atom "cmpscaled", k] => do
      let k ← k.asInt?
      pure fun a b => if a.asInt64 < b.asInt64 then -k else if b.asInt64 < a.asInt64 then k else 0
  | .list [.atom "cmpmod", m] => do
      let m ← m.asInt?
      pure fun a b => a.asInt64.toInt.emod m - b.asInt64.toInt.emod m
  | _ => none

-- ---------------------------------------------------------------------------------- Eq

def mapOfV {κ ν : Type} [DecidableEq κ] (kf : V → κ) (vf : V → ν) (v : V) : GoMap κ ν :=
  GoMap.ofList (v.asMap.map fun kv => (kf kv.1, vf kv.2))

partial def eqPack : Sexp → Option (Pack EqD)
  | .atom "int" => some ⟨Int64, EqD.given, V.asInt64, V.ofInt64, false⟩
  | .atom "string" => some ⟨String, EqD.given, V.asStr, V.str, false⟩
  | .atom "bool" => some ⟨Bool, EqD.given, V.asBool, V.bool, false⟩
  | .atom "bytes" => some ⟨List UInt8, EqD.bytes, V.asBytes, fun bs => .bytes (bs.map UInt8.toNat), false⟩
  | .atom "time" => some ⟨TimeV, EqD.time, V.asTime, fun t => .time t.instant t.zone, false⟩
  | .atom "hnil" => some ⟨Unit, EqD.hnil, fun _ => (), fun _ => .hl [], true⟩
  | .atom "ptrgiven" => some ⟨Ptr Int64, EqD.ptrGiven,
      fun v => v.asPtr.map fun r => ⟨r.addr, r.val.asInt64⟩,
      fun p => V.ofPtr (p.map fun r => ⟨r.addr, V.ofInt64 r.val⟩), false⟩
  | .list [.atom "option", i] => do
      let p ← eqPack i
      pure ⟨Option p.α, EqD.option p.d, fun v => v.asOption.map p.ofV, fun o => V.ofOption (o.map p.toV), false⟩
  | .list [.atom "seq", i] => do
      let p ← eqPack i
      pure ⟨List p.α, EqD.seq p.d, fun v => v.asSeq.map p.ofV, fun l => .seq (l.map p.toV), false⟩
  | .list [.atom "slice", i] => do
      let p ← eqPack i
      pure ⟨List p.α, EqD.slice p.d, fun v => v.asSeq.map p.ofV, fun l => .seq (l.map p.toV), false⟩
  | .list [.atom "ptr", i] => do
      let p ← eqPack i
      pure ⟨Ptr p.α, EqD.ptr fun _ => p.d, fun v => v.asPtr.map fun r => ⟨r.addr, p.ofV r.val⟩,
        fun q => V.ofPtr (q.map fun r => ⟨r.addr, p.toV r.val⟩), false⟩
  | .list [.atom "hcons", h, t] => do
      let p ← eqPack h
      let q ← eqPack t
      pure ⟨p.α × q.α, EqD.hcons p.d q.d,
        fun v => (p.ofV (v.asHl.headD .unit), q.ofV (.hl v.asHl.tail)),
        fun a => .hl (p.toV a.1 :: (q.toV a.2).asHl), false⟩
  | .list [.atom "tuple", i] => do
      let p ← eqPack i
      pure ⟨T1 p.α, EqD.tuple1 p.d, fun v => ⟨p.ofV (v.asTup.headD .unit)⟩, fun a => .tup [p.toV a.i1], false⟩
  | .list (.atom "tuple" :: i :: rest) => do
      let p ← eqPack i
      let q ← eqPack (.list (.atom "tuple" :: rest))
      pure ⟨p.α × q.α, EqD.tupleN p.d q.d,
        fun v => (p.ofV (v.asTup.headD .unit), q.ofV (.tup v.asTup.tail)),
        fun a => .tup (p.toV a.1 :: (q.toV a.2).asTup), false⟩
  | .list [.atom "contramap", .atom f, i] =>
      match eqPack i, contraFn f with
      | some p, some f => some (idPack (EqD.contraMap p.d fun v => p.ofV (f v)))
      | _, _ => none
  | .list [.atom "gomap", .atom "int", i] => do
      let p ← eqPack i
      pure ⟨GoMap Int64 p.α, EqD.goMap p.d, mapOfV V.asInt64 p.ofV,
        fun m => .map (m.entries.map fun kv => (V.ofInt64 kv.1, p.toV kv.2)), false⟩
  | .list [.atom "gomap", .atom "string", i] => do
      let p ← eqPack i
      pure ⟨GoMap String p.α, EqD.goMap p.d, mapOfV V.asStr p.ofV,
        fun m => .map (m.entries.map fun kv => (V.str kv.1, p.toV kv.2)), false⟩
  | .list [.atom "fpmap", .atom "int", i] => do
      let p ← eqPack i
      pure ⟨GoMap Int64 p.α, EqD.fpMap p.d, mapOfV V.asInt64 p.ofV,
        fun m => .map (m.entries.map fun kv => (V.ofInt64 kv.1, p.toV kv.2)), false⟩
  | .list [.atom "fpmap", .atom "string", i] => do
      let p ← eqPack i
      pure ⟨GoMap String p.α, EqD.fpMap p.d, mapOfV V.asStr p.ofV,
        fun m => .map (m.entries.map fun kv => (V.str kv.1, p.toV kv.2)), false⟩
  | _ => none

-- ---------------------------------------------------------------------------------- Hashable

partial def hashPack : Sexp → Option (Pack HashD)
  | .atom "int" => some ⟨Int64, HashD.numberInt64, V.asInt64, V.ofInt64, false⟩
  | .atom "string" => some ⟨String, HashD.string, V.asStr, V.str, false⟩
  | .atom "bytes" => some ⟨List UInt8, HashD.bytes, V.asBytes, fun bs => .bytes (bs.map UInt8.toNat), false⟩
  | .atom "hnil" => some ⟨Unit, HashD.hnil, fun _ => (), fun _ => .hl [], true⟩
  | .list [.atom "option", i] => do
      let p ← hashPack i
      pure ⟨Option p.α, HashD.option p.d, fun v => v.asOption.map p.ofV, fun o => V.ofOption (o.map p.toV), false⟩
  | .list [.atom "seq", i] => do
      let p ← hashPack i
      pure ⟨List p.α, HashD.seq p.d, fun v => v.asSeq.map p.ofV, fun l => .seq (l.map p.toV), false⟩
  | .list [.atom "slice", i] => do
      let p ← hashPack i
      pure ⟨List p.α, HashD.slice p.d, fun v => v.asSeq.map p.ofV, fun l => .seq (l.map p.toV), false⟩
  | .list [.atom "ptr", i] => do
      let p ← hashPack i
      pure ⟨Ptr p.α, HashD.ptr fun _ => p.d, fun v => v.asPtr.map fun r => ⟨r.addr, p.ofV r.val⟩,
        fun q => V.ofPtr (q.map fun r => ⟨r.addr, p.toV r.val⟩), false⟩
  | .list [.atom "hcons", h, t] => do
      let p ← hashPack h
      let q ← hashPack t
      pure ⟨p.α × q.α, @HashD.hcons _ _ ⟨q.isNil⟩ p.d q.d,
        fun v => (p.ofV (v.asHl.headD .unit), q.ofV (.hl v.asHl.tail)),
        fun a => .hl (p.toV a.1 :: (q.toV a.2).asHl), false⟩
  | .list [.atom "tuple", i] => do
      let p ← hashPack i
      pure ⟨T1 p.α, HashD.tuple1 p.d, fun v => ⟨p.ofV (v.asTup.headD .unit)⟩, fun a => .tup [p.toV a.i1], false⟩
  | .list (.atom "tuple" :: i :: rest) => do
      let p ← hashPack i
      let q ← hashPack (.list (.atom "tuple" :: rest))
      pure ⟨p.α × q.α, HashD.tupleN p.d q.d,
        fun v => (p.ofV (v.asTup.headD .unit), q.ofV (.tup v.asTup.tail)),
        fun a => .tup (p.toV a.1 :: (q.toV a.2).asTup), false⟩
  | .list [.atom "contramap", .atom f, i] =>
      match hashPack i, contraFn f with
      | some p, some f => some (idPack (HashD.contraMap p.d fun v => p.ofV (f v)))
      | _, _ => none
  | _ => none

-- ---------------------------------------------------------------------------------- Ord

/-- representation change of a dictionary (the analogue of the Go harness' boxing adaptor): the
    same `Compare`/`Less` function read through a conversion of the arguments -/
def comapRaw {α β : Type} (o : OrdD β) (f : α → β) : OrdD α :=
  match o with
  | .compareFunc r => .compareFunc fun a b => r (f a) (f b)
  | .lessFunc r => .lessFunc fun a b => r (f a) (f b)

partial def ordPack : Sexp → Option (Pack OrdD)
  | .atom "int" => some ⟨Int64, OrdD.given, V.asInt64, V.ofInt64, false⟩
  | .atom "string" => some ⟨String, OrdD.given, V.asStr, V.str, false⟩
  | .atom "time" => some ⟨TimeV, OrdD.time, V.asTime, fun t => .time t.instant t.zone, false⟩
  | .atom "hnil" => some ⟨Unit, OrdD.hnil, fun _ => (), fun _ => .hl [], true⟩
  | .list [.atom "option", i] => do
      let p ← ordPack i
      pure ⟨Option p.α, OrdD.option p.d, fun v => v.asOption.map p.ofV, fun o => V.ofOption (o.map p.toV), false⟩
  | .list [.atom "seq", i] => do
      let p ← ordPack i
      pure ⟨List p.α, OrdD.seq p.d, fun v => v.asSeq.map p.ofV, fun l => .seq (l.map p.toV), false⟩
  | .list [.atom "slice", i] => do
      let p ← ordPack i
      pure ⟨List p.α, OrdD.slice p.d, fun v => v.asSeq.map p.ofV, fun l => .seq (l.map p.toV), false⟩
  | .list [.atom "ptr", i] => do
      let p ← ordPack i
      pure ⟨Ptr p.α, OrdD.ptr fun _ => p.d, fun v => v.asPtr.map fun r => ⟨r.addr, p.ofV r.val⟩,
        fun q => V.ofPtr (q.map fun r => ⟨r.addr, p.toV r.val⟩), false⟩
  | .list [.atom "hcons", h, t] => do
      let p ← ordPack h
      let q ← ordPack t
      pure ⟨p.α × q.α, OrdD.hcons p.d q.d,
        fun v => (p.ofV (v.asHl.headD .unit), q.ofV (.hl v.asHl.tail)),
        fun a => .hl (p.toV a.1 :: (q.toV a.2).asHl), false⟩
  | .list [.atom "tuple", i] => do
      let p ← ordPack i
      pure ⟨T1 p.α, OrdD.tuple1 p.d, fun v => ⟨p.ofV (v.asTup.headD .unit)⟩, fun a => .tup [p.toV a.i1], false⟩
  | .list (.atom "tuple" :: i :: rest) => do
      let p ← ordPack i
      let q ← ordPack (.list (.atom "tuple" :: rest))
      pure ⟨p.α × q.α, OrdD.tupleN p.d q.d,
        fun v => (p.ofV (v.asTup.headD .unit), q.ofV (.tup v.asTup.tail)),
        fun a => .tup (p.toV a.1 :: (q.toV a.2).asTup), false⟩
  | .list [.atom "contramap", .atom f, i] =>
      match ordPack i, contraFn f with
      | some p, some f => some (idPack (OrdD.contraMap p.d fun v => p.ofV (f v)))
      | _, _ => none
  | .list [.atom "givenfield", .atom f] =>
      match contraFn f with
      | some f => some (idPack (OrdD.givenField fun v => (f v).asInt64))
      | none => none
  | .list [.atom "asord", l] =>
      match lessFn l with
      | some l => some (idPack (OrdD.asOrd l))
      | none => none
  | .list [.atom "fromcompare", c] =>
      match cmpFn c with
      | some c => some (idPack (OrdD.fromCompare c))
      | none => none
  | .list [.atom "new", e, l] =>
      match eqPack e, lessFn l with
      | some e, some l => some (idPack (OrdD.new ⟨fun a b => e.d.eqv (e.ofV a) (e.ofV b)⟩ l))
      | _, _ => none
  | .list [.atom "then", i, j] => do
      let p ← ordPack i
      let q ← ordPack j
      pure (idPack ((comapRaw p.d p.ofV).thenComparing (comapRaw q.d q.ofV)))
  | .list [.atom "rev", i] => do
      let p ← ordPack i
      pure ⟨p.α, p.d.reversed, p.ofV, p.toV, p.isNil⟩
  | _ => none

-- ---------------------------------------------------------------------------------- Monoid

def mapToV {κ : Type} [DecidableEq κ] (kf : κ → V) (m : GoMap κ V) : V :=
  .map (m.entries.map fun kv => (kf kv.1, kv.2))

def isoFn : Sexp → Option ((Int64 → Int64) × (Int64 → Int64))
  | .atom "neg" => some (fun x => -x, fun x => -x)
  | .list [.atom "addk", k] => do
      let k ← k.asInt?
      pure (fun x => x + Int64.ofInt k, fun x => x - Int64.ofInt k)
  | _ => none

partial def monPack : Sexp → Option (Pack MonoidD)
  | .atom "string" => some ⟨String, MonoidD.string, V.asStr, V.str, false⟩
  | .atom "sum" => some ⟨Int64, MonoidD.sum, V.asInt64, V.ofInt64, false⟩
  | .atom "fpsum" => some ⟨Int64, MonoidD.sum, V.asInt64, V.ofInt64, false⟩
  | .atom "sumstr" => some ⟨String, MonoidD.sumString, V.asStr, V.str, false⟩
  | .atom "product" => some ⟨Int64, MonoidD.product, V.asInt64, V.ofInt64, false⟩
  | .atom "fpproduct" => some ⟨Int64, MonoidD.product, V.asInt64, V.ofInt64, false⟩
  | .atom "any" => some ⟨Bool, MonoidD.any, V.asBool, V.bool, false⟩
  | .atom "all" => some ⟨Bool, MonoidD.all, V.asBool, V.bool, false⟩
  | .atom "unit" => some ⟨Unit, MonoidD.unit, fun _ => (), fun _ => .unit, false⟩
  | .atom "hnil" => some ⟨Unit, MonoidD.hnil, fun _ => (), fun _ => .hl [], true⟩
  | .atom "mergeseq" => some ⟨List V, MonoidD.mergeSeq, V.asSeq, V.seq, false⟩
  | .atom "mergeslice" => some ⟨List V, MonoidD.mergeSlice, V.asSeq, V.seq, false⟩
  | .atom "endo" => some ⟨Endo Int64, MonoidD.endo, V.asEndo, V.ofEndo, false⟩
  | .list [.atom "mergegomap", .atom "int"] =>
      some ⟨GoMap Int64 V, MonoidD.mergeGoMap, mapOfV V.asInt64 id, mapToV V.ofInt64, false⟩
  | .list [.atom "mergegomap", .atom "string"] =>
      some ⟨GoMap String V, MonoidD.mergeGoMap, mapOfV V.asStr id, mapToV V.str, false⟩
  | .list [.atom "mergemap", .atom "int"] =>
      some ⟨GoMap Int64 V, MonoidD.mergeMap, mapOfV V.asInt64 id, mapToV V.ofInt64, false⟩
  | .list [.atom "mergemap", .atom "string"] =>
      some ⟨GoMap String V, MonoidD.mergeMap, mapOfV V.asStr id, mapToV V.str, false⟩
  | .list [.atom "mergeset", .atom "int"] =>
      some ⟨GoMap Int64 Unit, MonoidD.mergeSet, mapOfV V.asInt64 (fun _ => ()),
        fun m => .map (m.entries.map fun kv => (V.ofInt64 kv.1, V.unit)), false⟩
  | .list [.atom "mergeset", .atom "string"] =>
      some ⟨GoMap String Unit, MonoidD.mergeSet, mapOfV V.asStr (fun _ => ()),
        fun m => .map (m.entries.map fun kv => (V.str kv.1, V.unit)), false⟩
  | .list [.atom "option", i] => do
      let p ← monPack i
      pure ⟨Option p.α, MonoidD.option p.d, fun v => v.asOption.map p.ofV, fun o => V.ofOption (o.map p.toV), false⟩
  | .list [.atom "try", i] => do
      let p ← monPack i
      pure ⟨TryV p.α, MonoidD.try_ p.d,
        fun v => match v with | .succ x => .success (p.ofV x) | .fail e => .failure e | _ => .failure 0,
        fun t => match t with | .success x => .succ (p.toV x) | .failure e => .fail e, false⟩
  | .list [.atom "dual", i] => do
      let p ← monPack i
      pure ⟨Dual p.α, MonoidD.dual p.d, fun v => ⟨p.ofV v.asDual⟩, fun d => .dual (p.toV d.getDual), false⟩
  | .list [.atom "eval", i] => do
      let p ← monPack i
      pure ⟨Eval p.α, MonoidD.eval p.d, fun v => Eval.done (p.ofV v.asEval), fun e => .eval (p.toV e.get), false⟩
  | .list [.atom "ptr", i] => do
      let p ← monPack i
      pure ⟨Option p.α, MonoidD.ptr fun _ => p.d, fun v => v.asPtr.map fun r => p.ofV r.val,
        fun o => match o with | some x => .ptr 0 (p.toV x) | none => .nil, false⟩
  | .list [.atom "hcons", h, t] => do
      let p ← monPack h
      let q ← monPack t
      pure ⟨p.α × q.α, MonoidD.hcons p.d q.d,
        fun v => (p.ofV (v.asHl.headD .unit), q.ofV (.hl v.asHl.tail)),
        fun a => .hl (p.toV a.1 :: (q.toV a.2).asHl), false⟩
  | .list [.atom "tuple", i] => do
      let p ← monPack i
      pure ⟨T1 p.α, MonoidD.tuple1 p.d, fun v => ⟨p.ofV (v.asTup.headD .unit)⟩, fun a => .tup [p.toV a.i1], false⟩
  | .list (.atom "tuple" :: i :: rest) => do
      let p ← monPack i
      let q ← monPack (.list (.atom "tuple" :: rest))
      pure ⟨p.α × q.α, MonoidD.tupleN p.d q.d,
        fun v => (p.ofV (v.asTup.headD .unit), q.ofV (.tup v.asTup.tail)),
        fun a => .tup (p.toV a.1 :: (q.toV a.2).asTup), false⟩
  | .list [.atom "imap", .atom "box", i] => do
      let p ← monPack i
      pure ⟨T1 p.α, MonoidD.imap p.d (fun a => ⟨a⟩) (fun t => t.i1),
        fun v => ⟨p.ofV (v.asTup.headD .unit)⟩, fun a => .tup [p.toV a.i1], false⟩
  | .list [.atom "imap", iso, i] =>
      match monPack i, isoFn iso with
      | some p, some (fab, fba) =>
        some ⟨Int64, MonoidD.imap p.d (fun a => fab (p.toV a).asInt64) (fun b => p.ofV (V.ofInt64 (fba b))),
          V.asInt64, V.ofInt64, false⟩
      | _, _ => none
  | _ => none

partial def sgPack : Sexp → Option (Pack SemigroupD)
  | .atom "sum" => some ⟨Int64, SemigroupD.sum, V.asInt64, V.ofInt64, false⟩
  | .atom "product" => some ⟨Int64, SemigroupD.product, V.asInt64, V.ofInt64, false⟩
  | .atom "endo" => some ⟨Endo Int64, SemigroupD.endo, V.asEndo, V.ofEndo, false⟩
  | .atom "any" => some ⟨Bool, SemigroupD.any, V.asBool, V.bool, false⟩
  | .atom "all" => some ⟨Bool, SemigroupD.all, V.asBool, V.bool, false⟩
  | .list [.atom "m", m] => do
      let p ← monPack m
      pure ⟨p.α, p.d.toSemigroup, p.ofV, p.toV, false⟩
  | .list [.atom "dual", i] => do
      let p ← sgPack i
      pure ⟨Dual p.α, SemigroupD.dual p.d, fun v => ⟨p.ofV v.asDual⟩, fun d => .dual (p.toV d.getDual), false⟩
  | .list [.atom "eval", i] => do
      let p ← sgPack i
      pure ⟨Eval p.α, SemigroupD.eval p.d, fun v => Eval.done (p.ofV v.asEval), fun e => .eval (p.toV e.get), false⟩
  | .list [.atom "ptr", i] => do
      let p ← sgPack i
      pure ⟨Option p.α, SemigroupD.ptr fun _ => p.d, fun v => v.asPtr.map fun r => p.ofV r.val,
        fun o => match o with | some x => .ptr 0 (p.toV x) | none => .nil, false⟩
  | .list [.atom "option", i] => do
      let p ← sgPack i
      pure ⟨Option p.α, SemigroupD.option p.d, fun v => v.asOption.map p.ofV, fun o => V.ofOption (o.map p.toV), false⟩
  | .list [.atom "imap", .atom "box", i] => do
      let p ← sgPack i
      pure ⟨T1 p.α, SemigroupD.imap p.d (fun a => ⟨a⟩) (fun t => t.i1),
        fun v => ⟨p.ofV (v.asTup.headD .unit)⟩, fun a => .tup [p.toV a.i1], false⟩
  | .list [.atom "imap", iso, i] =>
      match sgPack i, isoFn iso with
      | some p, some (fab, fba) =>
        some ⟨Int64, SemigroupD.imap p.d (fun a => fab (p.toV a).asInt64) (fun b => p.ofV (V.ofInt64 (fba b))),
          V.asInt64, V.ofInt64, false⟩
      | _, _ => none
  | _ => none

-- ---------------------------------------------------------------------------------- operations

/-- the stand-in for `sort.Sort`: any sorting algorithm will do (`SortSpec`), here merge sort -/
def sortImpl {α : Type} : SortImpl α := fun less xs => xs.mergeSort fun a b => !less b a

/-- Elements that the order cannot tell apart may come out of an unstable sort in any order: the
    renderings inside each maximal run of `Eqv` elements are sorted (both sides do this). -/
partial def canonRuns {α : Type} (eqv : α → α → Bool) (render : α → String) : List α → List String
  | [] => []
  | x :: xs =>
    let (run, rest) := xs.span (eqv x)
    V.sortStrings ((x :: run).map render) ++ canonRuns eqv render rest

def showB (b : Bool) : String := if b then "true" else "false"

def pickSort {α : Type} (kind : String) : Option (SortImpl α → List α → OrdD α → List α) :=
  match kind with
  | "seq" => some seqSort
  | "iter" => some iteratorSort
  | "list" => some listSort
  | _ => none

def stepOrd2 (op : String) (i a b : Sexp) : String :=
  match ordPack i, V.parse a, V.parse b with
  | some p, some a, some b =>
    let x := p.ofV a
    let y := p.ofV b
    match op with
    | "less" => showB (p.d.less x y)
    | "compare" => toString (p.d.compare x y)
    | "lesseq" => showB (p.d.lessEq x y)
    | "min" => (p.toV (p.d.min x y)).toStr
    | "max" => (p.toV (p.d.max x y)).toStr
    | _ => "bad-op"
  | _, _, _ => "bad-op"

def step (line : String) : String :=
  match Sexp.parse line with
  | some (.list [.atom "eqv", .atom "eq", i, a, b]) =>
    match eqPack i, V.parse a, V.parse b with
    | some p, some a, some b => showB (p.d.eqv (p.ofV a) (p.ofV b))
    | _, _, _ => "bad-op"
  | some (.list [.atom "eqv", .atom "hash", i, a, b]) =>
    match hashPack i, V.parse a, V.parse b with
    | some p, some a, some b => showB (p.d.eqv (p.ofV a) (p.ofV b))
    | _, _, _ => "bad-op"
  | some (.list [.atom "eqv", .atom "ord", i, a, b]) =>
    match ordPack i, V.parse a, V.parse b with
    | some p, some a, some b => showB (p.d.eqv (p.ofV a) (p.ofV b))
    | _, _, _ => "bad-op"
  | some (.list [.atom "hash", i, a]) =>
    match hashPack i, V.parse a with
    | some p, some a => toString (p.d.hash (p.ofV a)).toNat
    | _, _ => "bad-op"
  | some (.list [.atom "combine", i, a, b]) =>
    match monPack i, V.parse a, V.parse b with
    | some p, some a, some b => (p.toV (p.d.combine (p.ofV a) (p.ofV b))).toStr
    | _, _, _ => "bad-op"
  | some (.list [.atom "sgcombine", i, a, b]) =>
    match sgPack i, V.parse a, V.parse b with
    | some p, some a, some b => (p.toV (p.d.combine (p.ofV a) (p.ofV b))).toStr
    | _, _, _ => "bad-op"
  | some (.list [.atom "empty", i]) =>
    match monPack i with
    | some p => (p.toV p.d.empty).toStr
    | none => "bad-op"
  | some (.list [.atom "sort", .atom kind, i, xs]) =>
    match ordPack i, V.parse xs with
    | some p, some xs =>
      match pickSort (α := p.α) kind with
      | some srt =>
        let out := srt sortImpl (xs.asSeq.map p.ofV) p.d
        "[" ++ ",".intercalate (canonRuns p.d.eqv (fun a => (p.toV a).toStr) out) ++ "]"
      | none => "bad-op"
    | _, _ => "bad-op"
  | some (.list [.atom "minof", .atom _, i, xs]) =>
    match ordPack i, V.parse xs with
    | some p, some xs => (V.ofOption ((foldMin (xs.asSeq.map p.ofV) p.d).map p.toV)).toStr
    | _, _ => "bad-op"
  | some (.list [.atom "maxof", .atom _, i, xs]) =>
    match ordPack i, V.parse xs with
    | some p, some xs => (V.ofOption ((foldMax (xs.asSeq.map p.ofV) p.d).map p.toV)).toStr
    | _, _ => "bad-op"
  | some (.list [.atom "reduce", .atom kind, i, xs]) =>
    match monPack i, V.parse xs with
    | some p, some xs =>
      let ys := xs.asSeq.map p.ofV
      match kind with
      | "seq" => (p.toV (seqReduce ys p.d)).toStr
      | "iter" => (p.toV (iteratorReduce ys p.d)).toStr
      | "list" => (p.toV (listReduce ys p.d)).toStr
      | _ => "bad-op"
    | _, _ => "bad-op"
  | some (.list [.atom "foldmap", .atom kind, i, .list (.atom "tbl" :: tbl), xs]) =>
    match monPack i, tbl.mapM V.parse, V.parse xs with
    | some p, some tbl, some xs =>
      let f : V → p.α := fun x =>
        p.ofV (tbl.getD ((x.asInt64.toInt.emod tbl.length).toNat) V.unit)
      match kind with
      | "seq" => (p.toV (seqFoldMap xs.asSeq p.d f)).toStr
      | "list" => (p.toV (listFoldMap xs.asSeq p.d f)).toStr
      | _ => "bad-op"
    | _, _, _ => "bad-op"
  | some (.list [.atom op, i, a, b]) => stepOrd2 op i a b
  | _ => "bad-op"

partial def loop (h : IO.FS.Stream) (out : IO.FS.Stream) : IO Unit := do
  let line ← h.getLine
  if line.isEmpty then return ()
  out.putStrLn (step line)
  loop h out

def main : IO Unit := do
  let out ← IO.getStdout
  loop (← IO.getStdin) out
  out.flush
