import FpVerif.Sexp
import FpVerif.Model.Cow
/-!
Line-protocol oracle for `mutable.CopyOnWriteMap` (C19).

op:     `(cow|cow-asis (threads (t OP…) (t OP…) …) (sched t…))`
        OP = `(get k)` `(size)` `(iter)` `(updated k v)` `(removed k…)` `(updatedWith k id REMAP)`
             `(computeIf k id PRED id v)` `(computeIfAbsent k id v)`
        REMAP = `(rset v)` `(rdel)` `(rinc d)` `(rkeep)`;  PRED = `(plt c)` `(peven)` `(ptrue)` `(pfalse)`
        head `cow` runs the repaired model (`Variant.recheck`), `cow-asis` copyonwrite.go as written
answer: `<trace> ; <finishing trace> | <returns per thread> | <final map> | <callback invocations>`
-/
open FpVerif FpVerif.Sexp FpVerif.Sched FpVerif.Cow

def interpRemap : Sexp → Option (Option V → Option V)
  | .list [.atom "rset", v] => do let v ← v.asInt?; pure fun _ => some v
  | .list [.atom "rdel"] => pure fun _ => none
  | .list [.atom "rinc", d] => do let d ← d.asInt?; pure fun o => some (o.getD 0 + d)
  | .list [.atom "rkeep"] => pure fun o => o
  | _ => none

def interpPred : Sexp → Option (V → Bool)
  | .list [.atom "plt", c] => do let c ← c.asInt?; pure fun x => decide (x < c)
  | .list [.atom "peven"] => pure fun x => x % 2 == 0
  | .list [.atom "ptrue"] => pure fun _ => true
  | .list [.atom "pfalse"] => pure fun _ => false
  | _ => none

def interpOp : Sexp → Option Op
  | .list [.atom "get", k] => do pure (.get (← k.asNat?))
  | .list [.atom "size"] => pure .size
  | .list [.atom "iter"] => pure .iter
  | .list [.atom "updated", k, v] => do pure (.updated (← k.asNat?) (← v.asInt?))
  | .list (.atom "removed" :: ks) => do pure (.removed (← ks.mapM Sexp.asNat?))
  | .list [.atom "updatedWith", k, id, f] => do pure (.updatedWith (← k.asNat?) (← id.asNat?) (← interpRemap f))
  | .list [.atom "computeIf", k, pid, p, fid, v] => do
      pure (.computeIf (← k.asNat?) (some (← pid.asNat?)) (← interpPred p) (← fid.asNat?) (← v.asInt?))
  | .list [.atom "computeIfAbsent", k, fid, v] => do
      pure (.computeIf (← k.asNat?) none (fun _ => false) (← fid.asNat?) (← v.asInt?))
  | _ => none

def interpThread : Sexp → Option (List Op)
  | .list (.atom "t" :: ops) => ops.mapM interpOp
  | _ => none

def insertKV (p : K × V) : List (K × V) → List (K × V)
  | [] => [p]
  | q :: qs => if p.1 ≤ q.1 then p :: q :: qs else q :: insertKV p qs

def sortKV (m : AMap) : AMap := m.foldr insertKV []

def showMap (m : AMap) : String :=
  "[" ++ ",".intercalate ((sortKV m).map fun p => s!"({p.1},{p.2})") ++ "]"

def showRet : Ret → String
  | .opt none => "None"
  | .opt (some v) => s!"Some({v})"
  | .nat n => toString n
  | .kvs m => showMap m
  | .unit => "unit"
  | .val v => toString v
  | .panic => "panic"

def showCall (c : Call) : String :=
  match c.arg with
  | none => s!"c{c.id}:-"
  | some v => s!"c{c.id}:{v}"

def showTrace (tr : List (Tid × Option Local)) (skips : Bool) : String :=
  " ".intercalate (tr.filterMap fun (t, l) =>
    match l with
    | some l => some s!"{t}>{l.point}"
    | none => if skips then some s!"{t}>-" else none)

def answer (v : Variant) (progs : List (List Op)) (sched : List Tid) : String :=
  let s0 := init progs
  let (s1, tr1) := runTrace (stepT v) s0 sched
  let (s2, tr2) := runTrace (stepT v) s1 (finishSched s1)
  let rets := " ".intercalate (s2.threads.map fun l => "[" ++ ",".intercalate (l.rets.map showRet) ++ "]")
  let q := if allFinished s2 then "" else " UNFINISHED"
  s!"{showTrace tr1 true} ; {showTrace tr2 false} | {rets} | {showMap s2.shared.map} | {",".intercalate (s2.shared.calls.map showCall)}{q}"

def step (line : String) : String :=
  match Sexp.parse line with
  | some (.list [.atom head, .list (.atom "threads" :: ts), .list (.atom "sched" :: sc)]) =>
    let v? : Option Variant := match head with
      | "cow" => some .recheck
      | "cow-asis" => some .asIs
      | _ => none
    match v?, ts.mapM interpThread, sc.mapM Sexp.asNat? with
    | some v, some ts, some sc => answer v ts sc
    | _, _, _ => "bad-op"
  | _ => "bad-op"

partial def loop (h : IO.FS.Stream) (out : IO.FS.Stream) : IO Unit := do
  let line ← h.getLine
  if line.isEmpty then return ()
  out.putStrLn (step line)
  loop h out

def main : IO Unit := do
  let out ← IO.getStdout
  loop (← IO.getStdin) out
  out.flush
