import FpVerif.Funcs
import FpVerif.Model.TryOpt
/-! Oracle for the methods of fp.Try / fp.Option / fp.Either and the hand-written package cores. -/
open FpVerif FpVerif.Sexp

def tOf : Sexp → Option (Try Val)
  | .list [.atom "succ", n] => do pure (.success (.int (← n.asInt?)))
  | .list [.atom "fail", e] => do pure (.failure (.code (← e.asInt?)))
  | .list [.atom "zero"] => pure (.failure .nil)
  | _ => none

def oOf : Sexp → Option (Option Val)
  | .list [.atom "some", n] => do pure (some (.int (← n.asInt?)))
  | .list [.atom "none"] => pure none
  | _ => none

def eOf : Sexp → Option (Either Val Val)
  | .list [.atom "right", n] => do pure (.right (.int (← n.asInt?)))
  | .list [.atom "left", n] => do pure (.left (.int (← n.asInt?)))
  | _ => none

def hErr : Sexp → Option (Err → GoM Val)
  | .list [.atom "h", id, c] => do
    let id ← id.asInt?; let c ← c.asInt?
    pure fun e => do emit s!"h{id}:{e}"; pure (.int c)
  | .list [.atom "hpanic", id, c] => do
    let id ← id.asInt?; let c ← c.asInt?
    pure fun e => do emit s!"h{id}:{e}"; goPanic s!"{c}"
  | _ => none

def hErrT : Sexp → Option (Err → GoM (Try Val))
  | .list [.atom "ht", id, t] => do
    let id ← id.asInt?; let t ← tOf t
    pure fun e => do emit s!"h{id}:{e}"; pure t
  | _ => none

def pErr : Sexp → Option (Err → GoM Bool)
  | .list [.atom "pe", id, c] => do
    let id ← id.asInt?; let c ← c.asInt?
    pure fun e => do emit s!"pe{id}:{e}"; pure (e == .code c)
  | _ => none

def sup : Sexp → Option (Unit → GoM Val)
  | .list [.atom "sup", id, .list [.atom "ret", n]] => do
    let id ← id.asInt?; let n ← n.asInt?
    pure fun _ => do emit s!"s{id}"; pure (.int n)
  | .list [.atom "sup", id, .list [.atom "panic", p]] => do
    let id ← id.asInt?; let p ← p.asInt?
    pure fun _ => do emit s!"s{id}"; goPanic s!"{p}"
  | _ => none

def sup2 : Sexp → Option (Unit → GoM (Val × Err))
  | .list [.atom "sup", id, .list [.atom "ret", n]] => do
    let id ← id.asInt?; let n ← n.asInt?
    pure fun _ => do emit s!"s{id}"; pure (.int n, .nil)
  | .list [.atom "sup", id, .list [.atom "panic", p]] => do
    let id ← id.asInt?; let p ← p.asInt?
    pure fun _ => do emit s!"s{id}"; goPanic s!"{p}"
  | .list [.atom "sup", id, .list [.atom "reterr", n, e]] => do
    let id ← id.asInt?; let n ← n.asInt?; let e ← e.asInt?
    pure fun _ => do emit s!"s{id}"; pure (.int n, .code e)
  | _ => none

def koOf (s : Sexp) : Option (Val → GoM (Option Val)) := do
  let k ← KT.interp s
  pure fun x => do pure (OptM.fromTry (← k x))

def sT (t : Try Val) : String := toString (Val.ofTry t)
def sO (o : Option Val) : String := toString (Val.ofOption o)
def sB (b : Bool) : String := if b then "true" else "false"
def sE : Either Val Val → String
  | .left l => s!"Left({l})"
  | .right r => s!"Right({r})"
def sSeq (l : List Val) : String := toString (Val.seq l)

-- transformer operands ------------------------------------------------------------------------------
def toOf : Sexp → Option (Try (Option Val))
  | .list [.atom "tsome", n] => do pure (.success (some (.int (← n.asInt?))))
  | .list [.atom "tsomenil"] => pure (.success (some .nil))
  | .list [.atom "tnone"] => pure (.success none)
  | .list [.atom "tfail", e] => do pure (.failure (.code (← e.asInt?)))
  | _ => none

def tsOf : Sexp → Option (Try (List Val))
  | .list (.atom "tseq" :: xs) => do pure (.success ((← xs.mapM Sexp.asInt?).map Val.int))
  | .list [.atom "tfail", e] => do pure (.failure (.code (← e.asInt?)))
  | _ => none

def ktoOf (s : Sexp) : Option (Val → GoM (Try (Option Val))) := do
  let k ← KT.interp s
  pure fun x => do
    match ← k x with
    | .success v => if emod v.asInt 2 == 0 then pure (.success none) else pure (.success (some v))
    | .failure e => do let e ← Try.failedGet (.failure e : Try Val); pure (.failure e)

def ktsOf (s : Sexp) : Option (Val → GoM (Try (List Val))) := do
  let k ← KT.interp s
  pure fun x => do
    match ← k x with
    | .success v => pure (.success [v, x])
    | .failure e => do let e ← Try.failedGet (.failure e : Try Val); pure (.failure e)

def sTO (t : Try (Option Val)) : String :=
  match t with
  | .success o => s!"Success({Val.ofOption o})"
  | .failure .nil => "Failure(ErrNotInit)"
  | .failure e => s!"Failure({e})"
def sTS (t : Try (List Val)) : String :=
  match t with
  | .success l => s!"Success({Val.seq l})"
  | .failure .nil => "Failure(ErrNotInit)"
  | .failure e => s!"Failure({e})"
def sTB (t : Try Bool) : String :=
  match t with
  | .success b => s!"Success({sB b})"
  | .failure .nil => "Failure(ErrNotInit)"
  | .failure e => s!"Failure({e})"

def seqFind (l : List Val) (p : Val → GoM Bool) : GoM (Option Val) := do
  for v in l do
    if ← p v then return some v
  return none
def seqExists (l : List Val) (p : Val → GoM Bool) : GoM Bool := do
  for v in l do
    if ← p v then return true
  return false
def seqForAll (l : List Val) (p : Val → GoM Bool) : GoM Bool := do
  for v in l do
    if !(← p v) then return false
  return true
def seqFilter (l : List Val) (p : Val → GoM Bool) : GoM (List Val) := do
  let mut r := []
  for v in l do
    if ← p v then r := r ++ [v]
  return r

open FpVerif.TryT in
def runTOp : Sexp → Option (GoM String)
  | .list [.atom "optT.pure", n] => do pure (sTO <$> pureOptionT (.int (← n.asInt?)))
  | .list [.atom "optT.lift", t] => do pure (sTO <$> liftOptionT (pure (← tOf t)))
  | .list [.atom "optT.map", t, f] => do pure (sTO <$> mapOptionT (pure (← toOf t)) (← F1.interp f))
  | .list [.atom "optT.subFlatMap", t, k] => do pure (sTO <$> subFlatMapOptionT (pure (← toOf t)) (← koOf k))
  | .list [.atom "optT.traverse", t, k] => do pure (sTO <$> traverseOptionT (pure (← toOf t)) (← KT.interp k))
  | .list [.atom "optT.flatMap", t, k] => do pure (sTO <$> flatMapOptionT (pure (← toOf t)) (← ktoOf k))
  | .list [.atom "optT.filter", t, p] => do
      let p ← P1.interp p
      pure (sTO <$> transformT (pure (← toOf t)) (fun o => OptM.filter o p))
  | .list [.atom "optT.orElse", t, n] => do
      let n ← n.asInt?
      pure (sT <$> transformT (pure (← toOf t)) (fun o => pure (OptM.orElse o (.int n))))
  | .list [.atom "optT.orElseGet", t, s] => do
      let s ← sup s
      pure (sT <$> transformT (pure (← toOf t)) (fun o => OptM.orElseGet o s))
  | .list [.atom "optT.or", t, id, o2] => do
      let id ← id.asInt?; let o2 ← oOf o2
      pure (sTO <$> transformT (pure (← toOf t)) (fun o => OptM.or o (fun _ => do emit s!"s{id}"; pure o2)))
  | .list [.atom "optT.orOption", t, o2] => do
      let o2 ← oOf o2
      pure (sTO <$> transformT (pure (← toOf t)) (fun o => pure (OptM.orOption o o2)))
  | .list [.atom "optT.recover", t, s] => do
      let s ← sup s
      pure (sTO <$> transformT (pure (← toOf t)) (fun o => OptM.recover o s))
  | .list [.atom "optT.fold", t, z, f] => do
      let z ← z.asInt?; let f ← F2.interp f
      pure (sT <$> transformT (pure (← toOf t)) (fun o => OptM.fold o (.int z) f))
  | .list [.atom "seqT.pure", n] => do pure (sTS <$> pureSeqT (.int (← n.asInt?)))
  | .list [.atom "seqT.lift", t] => do pure (sTS <$> liftSeqT (pure (← tOf t)))
  | .list [.atom "seqT.map", t, f] => do pure (sTS <$> mapSeqT (pure (← tsOf t)) (← F1.interp f))
  | .list [.atom "seqT.subFlatMap", t, f] => do
      let f ← F1.interp f
      pure (sTS <$> subFlatMapSeqT (pure (← tsOf t)) (fun x => do let y ← f x; pure [y, x]))
  | .list [.atom "seqT.traverse", t, k] => do pure (sTS <$> traverseSeqT (pure (← tsOf t)) (← KT.interp k))
  | .list [.atom "seqT.flatMap", t, k] => do pure (sTS <$> flatMapSeqT (pure (← tsOf t)) (← ktsOf k))
  | .list [.atom "seqT.filter", t, p] => do
      let p ← P1.interp p
      pure (sTS <$> transformT (pure (← tsOf t)) (fun l => seqFilter l p))
  | .list [.atom "seqT.filterNot", t, p] => do
      let p ← P1.interp p
      pure (sTS <$> transformT (pure (← tsOf t)) (fun l => seqFilter l (fun v => do pure (!(← p v)))))
  | .list [.atom "seqT.exists", t, p] => do
      let p ← P1.interp p
      pure (sTB <$> transformT (pure (← tsOf t)) (fun l => seqExists l p))
  | .list [.atom "seqT.forAll", t, p] => do
      let p ← P1.interp p
      pure (sTB <$> transformT (pure (← tsOf t)) (fun l => seqForAll l p))
  | .list [.atom "seqT.find", t, p] => do
      let p ← P1.interp p
      pure (sTO <$> transformT (pure (← tsOf t)) (fun l => seqFind l p))
  | .list [.atom "seqT.add", t, n] => do
      let n ← n.asInt?
      pure (sTS <$> transformT (pure (← tsOf t)) (fun l => pure (l ++ [.int n])))
  | .list [.atom "seqT.take", t, n] => do
      let n ← n.asNat?
      pure (sTS <$> transformT (pure (← tsOf t)) (fun l => pure (l.take n)))
  | .list [.atom "seqT.drop", t, n] => do
      let n ← n.asNat?
      pure (sTS <$> transformT (pure (← tsOf t)) (fun l => pure (l.drop n)))
  | .list [.atom "seqT.head", t] => do pure (sTO <$> transformT (pure (← tsOf t)) (fun l => pure l.head?))
  | .list [.atom "seqT.last", t] => do pure (sTO <$> transformT (pure (← tsOf t)) (fun l => pure l.getLast?))
  | .list [.atom "seqT.tail", t] => do pure (sTS <$> transformT (pure (← tsOf t)) (fun l => pure l.tail))
  | .list [.atom "seqT.init", t] => do pure (sTS <$> transformT (pure (← tsOf t)) (fun l => pure l.dropLast))
  | .list [.atom "seqT.reverse", t] => do pure (sTS <$> transformT (pure (← tsOf t)) (fun l => pure l.reverse))
  | .list [.atom "seqT.size", t] => do
      pure ((fun (t : Try Val) => sT t) <$> transformT (pure (← tsOf t)) (fun l => pure (Val.int l.length)))
  | .list [.atom "seqT.fold", t, z, f] => do
      let z ← z.asInt?; let f ← F2.interp f
      pure (sT <$> transformT (pure (← tsOf t)) (fun l => l.foldlM f (.int z)))
  | _ => none

def runOp : Sexp → Option (GoM String)
  | .list [.atom "t.map", t, f] => do pure (sT <$> TryM.mMap (← tOf t) (← F1.interp f))
  | .list [.atom "t.flatMap", t, k] => do pure (sT <$> TryM.mFlatMap (← tOf t) (← KT.interp k))
  | .list [.atom "t.mapError", t, id] => do
      let id ← id.asInt?
      pure (sT <$> TryM.mapError (← tOf t) (fun e => do emit s!"me{id}:{e}"; pure (.code (id + 10))))
  | .list [.atom "t.orElse", t, n] => do pure (pure (toString (TryM.orElse (← tOf t) (.int (← n.asInt?)))))
  | .list [.atom "t.orElseGet", t, s] => do pure (toString <$> TryM.orElseGet (← tOf t) (← sup s))
  | .list [.atom "t.or", t, id, t2] => do
      let id ← id.asInt?; let t2 ← tOf t2
      pure (sT <$> TryM.or (← tOf t) (fun _ => do emit s!"s{id}"; pure t2))
  | .list [.atom "t.orTry", t, t2] => do pure (pure (sT (TryM.orTry (← tOf t) (← tOf t2))))
  | .list [.atom "t.recover", t, h] => do pure (sT <$> TryM.recover (← tOf t) (← hErr h))
  | .list [.atom "t.recoverWith", t, h] => do pure (sT <$> TryM.recoverWith (← tOf t) (← hErrT h))
  | .list [.atom "t.recoverCase", t, p, h] => do pure (sT <$> TryM.recoverCase (← tOf t) (← pErr p) (← hErr h))
  | .list [.atom "t.recoverCaseWith", t, p, h] => do
      pure (sT <$> TryM.recoverCaseWith (← tOf t) (← pErr p) (← hErrT h))
  | .list [.atom "t.get", t] => do pure (toString <$> TryM.get (← tOf t))
  | .list [.atom "t.foreach", t] => do
      let t ← tOf t
      pure (do TryM.foreach t (fun v => emit s!"fe:{v}"); pure "unit")
  | .list [.atom "t.toSeq", t] => do pure (pure (sSeq (TryM.toSeq (← tOf t))))
  | .list [.atom "t.isSuccess", t] => do
      let t ← tOf t
      pure (pure (sB t.isSuccess))
  | .list [.atom "try.fromOption", o] => do pure (pure (sT (TryM.fromOption (← oOf o))))
  | .list [.atom "try.of", s] => do pure (sT <$> TryM.of (← sup s))
  | .list [.atom "try.call", s] => do pure (sT <$> TryM.call (← sup2 s))
  | .list [.atom "try.callUnit", s] => do
      let f ← sup2 s
      pure ((fun (t : Try Unit) => sT (match t with | .success _ => .success .unit | .failure e => .failure e))
        <$> TryM.callUnit (fun _ => do let (_, e) ← f (); pure e))
  | .list [.atom "try.apply", n, e] => do
      let e ← e.asInt?
      pure (pure (sT (TryM.apply (.int (← n.asInt?)) (if e == 0 then .nil else .code e))))
  | .list [.atom "try.composeOption", k1, k2, n] => do
      pure (sT <$> TryM.composeOption (← koOf k1) (← KT.interp k2) (.int (← n.asInt?)))
  | .list [.atom "try.composePure", f, n] => do
      let f ← F1.interp f
      let n ← n.asInt?
      pure (sT <$> (do let v ← f (.int n); pure (.success v)))
  | .list [.atom "try.fold", t, z, f] => do pure (toString <$> TryM.fold (← tOf t) (.int (← z.asInt?)) (← F2.interp f))
  | .list [.atom "try.toSeq", t] => do pure (pure (sSeq (TryM.toSeq (← tOf t))))
  | .list [.atom "try.flatMap", t, k] => do pure (sT <$> TryM.flatMap (← tOf t) (← KT.interp k))
  | .list [.atom "o.filter", o, p] => do pure (sO <$> OptM.filter (← oOf o) (← P1.interp p))
  | .list [.atom "o.filterNot", o, p] => do pure (sO <$> OptM.filterNot (← oOf o) (← P1.interp p))
  | .list [.atom "o.map", o, f] => do pure (sO <$> OptM.mMap (← oOf o) (← F1.interp f))
  | .list [.atom "o.flatMap", o, k] => do pure (sO <$> OptM.mFlatMap (← oOf o) (← koOf k))
  | .list [.atom "o.orElse", o, n] => do pure (pure (toString (OptM.orElse (← oOf o) (.int (← n.asInt?)))))
  | .list [.atom "o.orElseGet", o, s] => do pure (toString <$> OptM.orElseGet (← oOf o) (← sup s))
  | .list [.atom "o.or", o, id, o2] => do
      let id ← id.asInt?; let o2 ← oOf o2
      pure (sO <$> OptM.or (← oOf o) (fun _ => do emit s!"s{id}"; pure o2))
  | .list [.atom "o.orOption", o, o2] => do pure (pure (sO (OptM.orOption (← oOf o) (← oOf o2))))
  | .list [.atom "o.recover", o, s] => do pure (sO <$> OptM.recover (← oOf o) (← sup s))
  | .list [.atom "o.exists", o, p] => do pure (sB <$> OptM.exists_ (← oOf o) (← P1.interp p))
  | .list [.atom "o.forAll", o, p] => do pure (sB <$> OptM.forAll (← oOf o) (← P1.interp p))
  | .list [.atom "o.get", o] => do pure (toString <$> OptM.get (← oOf o))
  | .list [.atom "o.toSeq", o] => do
      let o ← oOf o
      pure (pure (sSeq o.toList))
  | .list [.atom "option.fromTry", t] => do pure (pure (sO (OptM.fromTry (← tOf t))))
  | .list [.atom "option.fold", o, z, f] => do pure (toString <$> OptM.fold (← oOf o) (.int (← z.asInt?)) (← F2.interp f))
  | .list [.atom "option.flatMap", o, k] => do pure (sO <$> OptM.flatMap (← oOf o) (← koOf k))
  | .list [.atom "either.swap", e] => do pure (pure (sE (EitM.swap (← eOf e))))
  | .list [.atom "either.fold", e, f, g] => do pure (toString <$> EitM.fold (← eOf e) (← F1.interp f) (← F1.interp g))
  | .list [.atom "either.orElse", e, n] => do pure (pure (toString (EitM.orElse (← eOf e) (.int (← n.asInt?)))))
  | .list [.atom "either.orElseGet", e, s] => do pure (toString <$> EitM.orElseGet (← eOf e) (← sup s))
  | .list [.atom "either.exists", e, p] => do pure (sB <$> EitM.exists_ (← eOf e) (← P1.interp p))
  | .list [.atom "either.forAll", e, p] => do pure (sB <$> EitM.forAll (← eOf e) (← P1.interp p))
  | .list [.atom "e.get", e] => do pure (toString <$> EitM.get (← eOf e))
  | .list [.atom "e.left", e] => do pure (toString <$> EitM.getLeft (← eOf e))
  | .list [.atom "e.recover", e, s] => do pure (sE <$> EitM.recover (← eOf e) (← sup s))
  | _ => none

def step (line : String) : String :=
  match Sexp.parse line with
  | some op => match (runTOp op).orElse (fun _ => runOp op) with
    | some g => renderOutcome id (GoM.exec g)
    | none => "bad-op"
  | none => "bad-op"

partial def loop (h out : IO.FS.Stream) : IO Unit := do
  let line ← h.getLine
  if line.isEmpty then return ()
  out.putStrLn (step line)
  loop h out

def main : IO Unit := do
  let out ← IO.getStdout
  loop (← IO.getStdin) out
  out.flush
