import FpVerif.Funcs
import FpVerif.Model.TryOpt
/-! Oracle for the methods of fp.Try / fp.Option / fp.Either and the hand-written package cores. -/
open FpVerif FpVerif.Sexp

def tOf : Sexp → Option (Try Val)
  | .list [.atom "succ", n] => do pure (.success (.int (← n.asInt?)))
  | .list [.atom "fail", e] => do pure (.failure (.code (← e.asInt?)))
  | .list [.atom "zero"] => pure (.failure .nil)
  | _ => none

def oOf : Sexp → Option (Option Val)
  | .list [.atom "some", n] => do pure (some (.int (← n.asInt?)))
  | .list [.atom "none"] => pure none
  | _ => none

def eOf : Sexp → Option (Either Val Val)
  | .list [.atom "right", n] => do pure (.right (.int (← n.asInt?)))
  | .list [.atom "left", n] => do pure (.left (.int (← n.asInt?)))
  | _ => none

def hErr : Sexp → Option (Err → GoM Val)
  | .list [.atom "h", id, c] => do
    let id ← id.asInt?; let c ← c.asInt?
    pure fun e => do emit s!"h{id}:{e}"; pure (.int c)
  | .list [.atom "hpanic", id, c] => do
    let id ← id.asInt?; let c ← c.asInt?
    pure fun e => do emit s!"h{id}:{e}"; goPanic s!"{c}"
  | _ => none

def hErrT : Sexp → Option (Err → GoM (Try Val))
  | .list [.atom "ht", id, t] => do
    let id ← id.asInt?; let t ← tOf t
    pure fun e => do emit s!"h{id}:{e}"; pure t
  | _ => none

def pErr : Sexp → Option (Err → GoM Bool)
  | .list [.atom "pe", id, c] => do
    let id ← id.asInt?; let c ← c.asInt?
    pure fun e => do emit s!"pe{id}:{e}"; pure (e == .code c)
  | _ => none

def sup : Sexp → Option (Unit → GoM Val)
  | .list [.atom "sup", id, .list [.atom "ret", n]] => do
    let id ← id.asInt?; let n ← n.asInt?
    pure fun _ => do emit s!"s{id}"; pure (.int n)
  | .list [.atom "sup", id, .list [.atom "panic", p]] => do
    let id ← id.asInt?; let p ← p.asInt?
    pure fun _ => do emit s!"s{id}"; goPanic s!"{p}"
  | _ => none

def sup2 : Sexp → Option (Unit → GoM (Val × Err))
  | .list [.atom "sup", id, .list [.atom "ret", n]] => do
    let id ← id.asInt?; let n ← n.asInt?
    pure fun _ => do emit s!"s{id}"; pure (.int n, .nil)
  | .list [.atom "sup", id, .list [.atom "panic", p]] => do
    let id ← id.asInt?; let p ← p.asInt?
    pure fun _ => do emit s!"s{id}"; goPanic s!"{p}"
  | .list [.atom "sup", id, .list [.atom "reterr", n, e]] => do
    let id ← id.asInt?; let n ← n.asInt?; let e ← e.asInt?
    pure fun _ => do emit s!"s{id}"; pure (.int n, .code e)
  | _ => none

def koOf (s : Sexp) : Option (Val → GoM (Option Val)) := do
  let k ← KT.interp s
  pure fun x => do pure (OptM.fromTry (← k x))

def sT (t : Try Val) : String := toString (Val.ofTry t)
def sO (o : Option Val) : String := toString (Val.ofOption o)
def sB (b : Bool) : String := if b then "true" else "false"
def sE : Either Val Val → String
  | .left l => s!"Left({l})"
  | .right r => s!"Right({r})"
def sSeq (l : List Val) : String := toString (Val.seq l)

def runOp : Sexp → Option (GoM String)
  | .list [.atom "t.map", t, f] => do pure (sT <$> TryM.mMap (← tOf t) (← F1.interp f))
  | .list [.atom "t.flatMap", t, k] => do pure (sT <$> TryM.mFlatMap (← tOf t) (← KT.interp k))
  | .list [.atom "t.mapError", t, id] => do
      let id ← id.asInt?
      pure (sT <$> TryM.mapError (← tOf t) (fun e => do emit s!"me{id}:{e}"; pure (.code (id + 10))))
  | .list [.atom "t.orElse", t, n] => do pure (pure (toString (TryM.orElse (← tOf t) (.int (← n.asInt?)))))
  | .list [.atom "t.orElseGet", t, s] => do pure (toString <$> TryM.orElseGet (← tOf t) (← sup s))
  | .list [.atom "t.or", t, id, t2] => do
      let id ← id.asInt?; let t2 ← tOf t2
      pure (sT <$> TryM.or (← tOf t) (fun _ => do emit s!"s{id}"; pure t2))
  | .list [.atom "t.orTry", t, t2] => do pure (pure (sT (TryM.orTry (← tOf t) (← tOf t2))))
  | .list [.atom "t.recover", t, h] => do pure (sT <$> TryM.recover (← tOf t) (← hErr h))
  | .list [.atom "t.recoverWith", t, h] => do pure (sT <$> TryM.recoverWith (← tOf t) (← hErrT h))
  | .list [.atom "t.recoverCase", t, p, h] => do pure (sT <$> TryM.recoverCase (← tOf t) (← pErr p) (← hErr h))
  | .list [.atom "t.recoverCaseWith", t, p, h] => do
      pure (sT <$> TryM.recoverCaseWith (← tOf t) (← pErr p) (← hErrT h))
  | .list [.atom "t.get", t] => do pure (toString <$> TryM.get (← tOf t))
  | .list [.atom "t.foreach", t] => do
      let t ← tOf t
      pure (do TryM.foreach t (fun v => emit s!"fe:{v}"); pure "unit")
  | .list [.atom "t.toSeq", t] => do pure (pure (sSeq (TryM.toSeq (← tOf t))))
  | .list [.atom "t.isSuccess", t] => do
      let t ← tOf t
      pure (pure (sB t.isSuccess))
  | .list [.atom "try.fromOption", o] => do pure (pure (sT (TryM.fromOption (← oOf o))))
  | .list [.atom "try.of", s] => do pure (sT <$> TryM.of (← sup s))
  | .list [.atom "try.call", s] => do pure (sT <$> TryM.call (← sup2 s))
  | .list [.atom "try.callUnit", s] => do
      let f ← sup2 s
      pure ((fun (t : Try Unit) => sT (match t with | .success _ => .success .unit | .failure e => .failure e))
        <$> TryM.callUnit (fun _ => do let (_, e) ← f (); pure e))
  | .list [.atom "try.apply", n, e] => do
      let e ← e.asInt?
      pure (pure (sT (TryM.apply (.int (← n.asInt?)) (if e == 0 then .nil else .code e))))
  | .list [.atom "try.composeOption", k1, k2, n] => do
      pure (sT <$> TryM.composeOption (← koOf k1) (← KT.interp k2) (.int (← n.asInt?)))
  | .list [.atom "try.composePure", f, n] => do
      let f ← F1.interp f
      let n ← n.asInt?
      pure (sT <$> (do let v ← f (.int n); pure (.success v)))
  | .list [.atom "try.fold", t, z, f] => do pure (toString <$> TryM.fold (← tOf t) (.int (← z.asInt?)) (← F2.interp f))
  | .list [.atom "try.toSeq", t] => do pure (pure (sSeq (TryM.toSeq (← tOf t))))
  | .list [.atom "try.flatMap", t, k] => do pure (sT <$> TryM.flatMap (← tOf t) (← KT.interp k))
  | .list [.atom "o.filter", o, p] => do pure (sO <$> OptM.filter (← oOf o) (← P1.interp p))
  | .list [.atom "o.filterNot", o, p] => do pure (sO <$> OptM.filterNot (← oOf o) (← P1.interp p))
  | .list [.atom "o.map", o, f] => do pure (sO <$> OptM.mMap (← oOf o) (← F1.interp f))
  | .list [.atom "o.flatMap", o, k] => do pure (sO <$> OptM.mFlatMap (← oOf o) (← koOf k))
  | .list [.atom "o.orElse", o, n] => do pure (pure (toString (OptM.orElse (← oOf o) (.int (← n.asInt?)))))
  | .list [.atom "o.orElseGet", o, s] => do pure (toString <$> OptM.orElseGet (← oOf o) (← sup s))
  | .list [.atom "o.or", o, id, o2] => do
      let id ← id.asInt?; let o2 ← oOf o2
      pure (sO <$> OptM.or (← oOf o) (fun _ => do emit s!"s{id}"; pure o2))
  | .list [.atom "o.orOption", o, o2] => do pure (pure (sO (OptM.orOption (← oOf o) (← oOf o2))))
  | .list [.atom "o.recover", o, s] => do pure (sO <$> OptM.recover (← oOf o) (← sup s))
  | .list [.atom "o.exists", o, p] => do pure (sB <$> OptM.exists_ (← oOf o) (← P1.interp p))
  | .list [.atom "o.forAll", o, p] => do pure (sB <$> OptM.forAll (← oOf o) (← P1.interp p))
  | .list [.atom "o.get", o] => do pure (toString <$> OptM.get (← oOf o))
  | .list [.atom "o.toSeq", o] => do
      let o ← oOf o
      pure (pure (sSeq o.toList))
  | .list [.atom "option.fromTry", t] => do pure (pure (sO (OptM.fromTry (← tOf t))))
  | .list [.atom "option.fold", o, z, f] => do pure (toString <$> OptM.fold (← oOf o) (.int (← z.asInt?)) (← F2.interp f))
  | .list [.atom "option.flatMap", o, k] => do pure (sO <$> OptM.flatMap (← oOf o) (← koOf k))
  | .list [.atom "either.swap", e] => do pure (pure (sE (EitM.swap (← eOf e))))
  | .list [.atom "either.fold", e, f, g] => do pure (toString <$> EitM.fold (← eOf e) (← F1.interp f) (← F1.interp g))
  | .list [.atom "either.orElse", e, n] => do pure (pure (toString (EitM.orElse (← eOf e) (.int (← n.asInt?)))))
  | .list [.atom "either.orElseGet", e, s] => do pure (toString <$> EitM.orElseGet (← eOf e) (← sup s))
  | .list [.atom "either.exists", e, p] => do pure (sB <$> EitM.exists_ (← eOf e) (← P1.interp p))
  | .list [.atom "either.forAll", e, p] => do pure (sB <$> EitM.forAll (← eOf e) (← P1.interp p))
  | .list [.atom "e.get", e] => do pure (toString <$> EitM.get (← eOf e))
  | .list [.atom "e.left", e] => do pure (toString <$> EitM.getLeft (← eOf e))
  | .list [.atom "e.recover", e, s] => do pure (sE <$> EitM.recover (← eOf e) (← sup s))
  | _ => none

def step (line : String) : String :=
  match Sexp.parse line with
  | some op => match runOp op with
    | some g => renderOutcome id (GoM.exec g)
    | none => "bad-op"
  | none => "bad-op"

partial def loop (h out : IO.FS.Stream) : IO Unit := do
  let line ← h.getLine
  if line.isEmpty then return ()
  out.putStrLn (step line)
  loop h out

def main : IO Unit := do
  let out ← IO.getStdout
  loop (← IO.getStdin) out
  out.flush
