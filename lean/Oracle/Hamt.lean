import FpVerif.Sexp
import FpVerif.Model.Hamt
import FpVerif.Model.HamtHeap
import Std.Data.HashMap
/-!
Line-protocol oracle for `immutable.Map` / `immutable.Set` / builders / `fp.Map` / `fp.Set` (C03, C04).

The oracle keeps a table of VERSIONS (every value ever produced in the current history) and a
current version; it runs the definitions of `FpVerif/Model/Hamt.lean`.

  (new H map (k v)...) | (new H set k...) | (new H zmap) | (new H zset)
        forget everything; hasher H; version 0 = immutable.Map(h, …) / immutable.Set(h, …) /
        fp.Map{} / fp.Set{}
  (use I)                       current version := I
  (set k v) (del k...) (updwith k F) (concat (k v)...)            fp.Map operations -> new version
  (incl k) (excl k) (sconcat k...) (diff I) (intersect I)        fp.Set operations -> new version
  (subsetof I)                                                    bool
  (get k...) (has k...) (size) (iter) (keys) (values) (dump) (overrun)   queries on the current version
  (check I)                     summary of version I (persistence re-check)
  (mb new) (mb add k v) (mb build)     immutable.MapBuilder;  (sb new) (sb add k) (sb build)  SetBuilder
  (hist op...)                  run the ops in order, answers joined by " ; "
Answer of an operation that creates version I:
`vI size=N sh=<shape digest> it=<count>:<iteration digest> al=<cells>/<fresh>:<alias digest>`.

Next to the value-level model (`Model/Hamt.lean`) the oracle EXECUTES the heap-level model
(`Model/HamtHeap.lean`: addresses, cells, in-place writes on the `mutable` path) on the same operations:
* after every operation that creates a version (and on every builder step, and on `(check I)` for the old
  version I in the CURRENT heap) the abstraction of the heap-level object is compared with the value-level
  object; a difference (or a heap-level panic) is reported as ` model-divergence(...)` appended to the
  answer, which makes the line differ from the implementation's;
* `al=`: the sharing the heap model predicts.  Every cell (the `*hamt` header, node structs, backing arrays
  of `entries` / `nodes` slices) gets a canonical number when it is first reached from a version (pre-order,
  header, node, its backing array, children in slot order; the walk does not descend below a cell that
  already has a number).  `cells` = cells visited, `fresh` = cells numbered now, digest = fold of the
  numbers.  The harness computes the same from the REAL pointers (`immutable.VerifAlias`), so a node
  that is shared where the model allocates (or vice versa) changes the token.  `al=-` for values that are
  not trie-backed.
-/
open FpVerif FpVerif.Sexp FpVerif.Hamt FpVerif.HamtHeap

-- hashers ---------------------------------------------------------------------------------------

def u32 (k : Int) : UInt32 := UInt32.ofNat (k.emod 4294967296).toNat

/-- The lawful hashers of the harness (same table in harness/cmd/hamt/main.go). -/
def hasherOf (id : Nat) : Hasher Int :=
  match id with
  | 0 => { hash := fun k => u32 k, eqv := fun a b => a == b }                       -- identity
  | 1 => { hash := fun _ => 7, eqv := fun a b => a == b }                           -- constant
  | 2 => { hash := fun k => u32 k % 5, eqv := fun a b => a == b }                   -- low entropy
  | 3 => { hash := fun k => u32 k <<< 27, eqv := fun a b => a == b }                -- high bits only
  | 4 => { hash := fun k => let x := u32 k * 2654435761; x ^^^ (x >>> 15), eqv := fun a b => a == b } -- good
  | 5 => { hash := fun k => u32 (k.emod 97) * 40503, eqv := fun a b => a.emod 97 == b.emod 97 } -- coarse Eqv
  | 6 => { hash := fun k => (u32 k % 64) <<< 5, eqv := fun a b => a == b }          -- second level only
  | _ => { hash := fun k => (u32 k % 3) <<< 30 ||| (u32 k % 40), eqv := fun a b => a == b } -- top + bottom bits

-- digests ---------------------------------------------------------------------------------------

def mix (a b : UInt64) : UInt64 := ((a ^^^ b) * (1099511628211 : UInt64)) + (a >>> 29)
def dI (x : Int) : UInt64 := UInt64.ofNat (x.emod 18446744073709551616).toNat
def dN (x : Nat) : UInt64 := UInt64.ofNat x
def dB (b : Bool) : UInt64 := if b then 1 else 0

partial def nodeDigest {V : Type} (dv : V → UInt64) : Node Int V → UInt64
  | .array es => mix (es.foldl (fun a e => mix (mix a (dI e.1)) (dv e.2)) 11) (dN es.length)
  | .bitmap bm ns => ns.foldl (fun a c => mix a (nodeDigest dv c)) (mix 13 (dN bm))
  | .hashArray cnt ns => ns.foldl (fun a o => mix a (match o with | some c => nodeDigest dv c | none => 2)) (mix 17 (dN cnt))
  | .value kh k v => mix (mix (mix 19 kh.toUInt64) (dI k)) (dv v)
  | .collision kh es => es.foldl (fun a e => mix (mix a (dI e.1)) (dv e.2)) (mix 23 kh.toUInt64)

def hamtDigest {V : Type} (dv : V → UInt64) (m : Hamt Int V) : UInt64 :=
  mix (mix 29 (dN m.size)) (match m.root with | some r => nodeDigest dv r | none => 1)

def hex (x : UInt64) : String := String.ofList (Nat.toDigits 16 x.toNat)

-- rendering -------------------------------------------------------------------------------------

partial def dumpNode {V : Type} (sv : V → String) : Node Int V → String
  | .array es => "(array" ++ String.join (es.map fun e => s!" ({e.1} {sv e.2})") ++ ")"
  | .bitmap bm ns => s!"(bitmap {bm}" ++ String.join (ns.map fun c => " " ++ dumpNode sv c) ++ ")"
  | .hashArray cnt ns => s!"(harray {cnt}" ++ String.join (ns.map fun o =>
      match o with | some c => " " ++ dumpNode sv c | none => " _") ++ ")"
  | .value kh k v => s!"(value {kh.toNat} {k} {sv v})"
  | .collision kh es => s!"(coll {kh.toNat}" ++ String.join (es.map fun e => s!" ({e.1} {sv e.2})") ++ ")"

def dumpHamt {V : Type} (sv : V → String) (m : Hamt Int V) : String :=
  s!"(hamt {m.size} " ++ (match m.root with | some r => dumpNode sv r | none => "nil") ++ ")"

def sortPairs (l : List (Int × Int)) : List (Int × Int) :=
  (l.toArray.qsort (fun a b => a.1 < b.1 || (a.1 == b.1 && a.2 < b.2))).toList
def sortInts (l : List Int) : List Int := (l.toArray.qsort (· < ·)).toList

def showPairs (l : List (Int × Int)) : String := "[" ++ ",".intercalate (l.map fun e => s!"({e.1},{e.2})") ++ "]"
def showInts (l : List Int) : String := "[" ++ ",".intercalate (l.map toString) ++ "]"
def showOpt : Option Int → String
  | some v => s!"Some({v})"
  | none => "None"

-- state -----------------------------------------------------------------------------------------

inductive Obj where
  | map (m : FMap Int Int)
  | set (s : FSet Int)

/-- heap-level counterpart of `Obj` -/
inductive HObj where
  | map (m : HFMap Int Int)
  | set (s : HFSet Int)

/-- the heap-level world: one heap per instantiation (`hamt[int,int]` and `hamt[int,bool]` cannot share
    cells), the heap-level versions (parallel to `St.vers`), builders, canonical cell numbers -/
structure HW where
  mh : Heap Int Int := #[]
  sh : Heap Int Bool := #[]
  vers : Array HObj := #[]
  mb : Option HMapBuilder := none
  sb : Option HSetBuilder := none
  ids : Std.HashMap Nat Nat := {}     -- 2*addr (map heap) / 2*addr+1 (set heap) -> number
  /-- first divergence between the two models in this history (sticky) -/
  div : Option String := none

structure St where
  hid : Nat := 0
  vers : Array Obj := #[]
  cur : Nat := 0
  mb : Option (MapBuilder Int Int) := none
  sb : Option (SetBuilder Int) := none
  hw : HW := {}

def St.h (st : St) : Hasher Int := hasherOf st.hid

def dumpObj : Obj → String
  | .map ⟨none⟩ => "(zero)"
  | .map ⟨some (.hamt m)⟩ => dumpHamt toString m
  | .map ⟨some (.goMap m)⟩ => "(gomap" ++ String.join ((sortPairs m).map fun e => s!" ({e.1} {e.2})") ++ ")"
  | .set ⟨e, none⟩ => s!"(set {repr e} nil)"
  | .set ⟨_, some (.hamt m)⟩ => "(set " ++ dumpHamt toString m ++ ")"
  | .set ⟨_, some (.goSet m)⟩ => "(set (goset" ++ String.join ((sortInts m).map fun k => s!" {k}") ++ "))"

def shapeDigest : Obj → UInt64
  | .map ⟨none⟩ => 3
  | .map ⟨some (.hamt m)⟩ => hamtDigest dI m
  | .map ⟨some (.goMap m)⟩ => (sortPairs m).foldl (fun a e => mix (mix a (dI e.1)) (dI e.2)) 5
  | .set ⟨_, none⟩ => 7
  | .set ⟨_, some (.hamt m)⟩ => hamtDigest dB m
  | .set ⟨_, some (.goSet m)⟩ => (sortInts m).foldl (fun a k => mix a (dI k)) 9

/-- what the iterator of the object yields (hash-trie order; sorted for the Go-map fallbacks) -/
def iterObj : Obj → GoE (List (Int × Int))
  | .map ⟨some (.goMap m)⟩ => pure (sortPairs m)
  | .map m => m.iterList
  | .set ⟨_, some (.goSet m)⟩ => pure ((sortInts m).map (fun k => (k, 1)))
  | .set s => do pure ((← s.iterList).map (fun k => (k, 1)))

def sizeObj : Obj → Nat
  | .map m => m.size
  | .set s => s.size


-- heap-level model: abstraction check and sharing token ------------------------------------------------

def absObj (w : HW) : HObj → Option Obj
  | .map m => (absFMap w.mh m).map .map
  | .set s => (absFSet w.sh s).map .set

/-- does the heap-level object represent the value-level one? -/
def agrees (w : HW) (ho : HObj) (o : Obj) : Option String :=
  match absObj w ho with
  | none => some "abstraction-undefined"
  | some a =>
    if shapeDigest a == shapeDigest o && sizeObj a == sizeObj o then none
    else some s!"abs={hex (shapeDigest a)}/{sizeObj a}"

structure Walk where
  ids : Std.HashMap Nat Nat
  n : Nat := 0
  k : Nat := 0
  d : UInt64 := 41

/-- number a cell; `true` if it was known already -/
def Walk.visit (w : Walk) (key : Nat) : Walk × Bool :=
  match w.ids[key]? with
  | some id => ({ w with n := w.n + 1, d := mix w.d (dN id) }, true)
  | none =>
    let id := w.ids.size
    ({ ids := w.ids.insert key id, n := w.n + 1, k := w.k + 1, d := mix w.d (dN id) }, false)

partial def walkNode {V : Type} (H : Heap Int V) (tag : Nat) (w : Walk) (p : Addr) : Walk :=
  let (w, known) := w.visit (2 * p + tag)
  if known then w else
  match H[p]? with
  | some (.array sl) => (w.visit (2 * sl.arr + tag)).1
  | some (.collision _ sl) => (w.visit (2 * sl.arr + tag)).1
  | some (.bitmap _ sl) =>
    let w := (w.visit (2 * sl.arr + tag)).1
    match viewPtrs H sl with
    | some ps => ps.foldl (walkNode H tag) w
    | none => w
  | some (.hashArray _ slots) => slots.foldl (fun w o => match o with | some c => walkNode H tag w c | none => w) w
  | _ => w

def walkHamt {V : Type} (H : Heap Int V) (tag : Nat) (w : Walk) (m : Addr) : Walk :=
  let (w, known) := w.visit (2 * m + tag)
  if known then w else
  match H[m]? with
  | some (.hamt _ (some r)) => walkNode H tag w r
  | _ => w

def aliasTok (w : HW) (o : HObj) : HW × String :=
  let fin (wk : Walk) : HW × String := ({ w with ids := wk.ids }, s!"al={wk.n}/{wk.k}:{hex wk.d}")
  match o with
  | .map ⟨some (.hamt m)⟩ => fin (walkHamt w.mh 0 { ids := w.ids } m)
  | .set ⟨_, some (.hamt m)⟩ => fin (walkHamt w.sh 1 { ids := w.ids } m)
  | _ => (w, "al=-")

def HW.runMap {α : Type} (w : HW) (x : HM Int Int α) : Except String (α × HW) :=
  match x w.mh with
  | .ok (r, H) => .ok (r, { w with mh := H })
  | .error e => .error e

def HW.runSet {α : Type} (w : HW) (x : HM Int Bool α) : Except String (α × HW) :=
  match x w.sh with
  | .ok (r, H) => .ok (r, { w with sh := H })
  | .error e => .error e

def divTag (w : HW) : String :=
  match w.div with
  | some d => s!" model-divergence({d})"
  | none => ""

def run (r : GoE String) : String :=
  match r with
  | .ok s => s
  | .error p => s!"panic({p})"

def summary (o : Obj) : GoE String := do
  let it ← iterObj o
  let d := it.foldl (fun a e => mix (mix a (dI e.1)) (dI e.2)) 31
  pure s!"size={sizeObj o} sh={hex (shapeDigest o)} it={it.length}:{hex d}"

/-- a new version: value-level object `o`, heap-level object from `hr` -/
def push (st : St) (o : Obj) (hr : HW → Except String (HObj × HW)) : St × String :=
  let id := st.vers.size
  -- heap-level model
  let (w, ho) : HW × HObj :=
    match st.hw.div with
    | some _ => (st.hw, .map ⟨none⟩)
    | none =>
      match hr st.hw with
      | .ok (ho, w) =>
        match agrees w ho o with
        | none => (w, ho)
        | some d => ({ w with div := some s!"v{id}:{d}" }, ho)
      | .error e => ({ st.hw with div := some s!"v{id}:heap-panic:{e}" }, .map ⟨none⟩)
  let (w, al) := match w.div with
    | none => aliasTok w ho
    | some _ => (w, "al=?")
  let w := { w with vers := w.vers.push ho }
  ({ st with vers := st.vers.push o, cur := id, hw := w },
    run (do pure s!"v{id} {← summary o} {al}{divTag w}"))

def remapOf : Sexp → Option (Option Int → Option Int)
  | .list [.atom "inc", d] => do
    let d ← d.asInt?
    pure fun o => match o with | some v => some (v + d) | none => some d
  | .list [.atom "del"] => pure fun _ => none
  | .list [.atom "keep"] => pure id
  | .list [.atom "const", c] => do let c ← c.asInt?; pure fun _ => some c
  | .list [.atom "ifsome", c] => do let c ← c.asInt?; pure fun o => o.map (fun _ => c)
  | _ => none

def asPair? : Sexp → Option (Int × Int)
  | .list [k, v] => do pure (← k.asInt?, ← v.asInt?)
  | _ => none

/-- an operation producing a new version -/
def newVersion (st : St) (r : GoE Obj) (hr : HW → Except String (HObj × HW)) : St × String :=
  match r with
  | .ok o => push st o hr
  | .error p => (st, s!"panic({p})")

def curHObj (st : St) : HObj := st.hw.vers.getD st.cur (.map ⟨none⟩)

/-- heap-level map operation on the current version -/
def hmapOp (st : St) (f : HFMap Int Int → HM Int Int (HFMap Int Int)) : HW → Except String (HObj × HW) := fun w =>
  match curHObj st with
  | .map hm => do let (r, w) ← w.runMap (f hm); pure (.map r, w)
  | _ => throw "heap-level version is not a map"

def hsetOp (st : St) (f : HFSet Int → HM Int Bool (HFSet Int)) : HW → Except String (HObj × HW) := fun w =>
  match curHObj st with
  | .set hs => do let (r, w) ← w.runSet (f hs); pure (.set r, w)
  | _ => throw "heap-level version is not a set"

def hsetOp2 (st : St) (i : Sexp) (f : HFSet Int → HFSet Int → HM Int Bool (HFSet Int)) :
    HW → Except String (HObj × HW) := fun w =>
  match curHObj st, i.asNat? >>= (w.vers[·]?) with
  | .set hs, some (.set ho) => do let (r, w) ← w.runSet (f hs ho); pure (.set r, w)
  | _, _ => throw "heap-level versions are not sets"

/-- builder step: run the heap-level builder and compare its trie with the value-level builder's -/
def builderStep (st : St) (hr : HW → Except String HW) (chk : HW → Option String) : St × String :=
  match st.hw.div with
  | some _ => (st, "ok" ++ divTag st.hw)
  | none =>
    match hr st.hw with
    | .ok w =>
      let w := match chk w with
        | none => w
        | some d => { w with div := some s!"builder:{d}" }
      ({ st with hw := w }, "ok" ++ divTag w)
    | .error e =>
      let w := { st.hw with div := some s!"builder:heap-panic:{e}" }
      ({ st with hw := w }, "ok" ++ divTag w)

def hamtAgrees {V : Type} (dv : V → UInt64) (H : Heap Int V) (m : Addr) (v : Hamt Int V) : Option String :=
  match absHamt H m with
  | none => some "abstraction-undefined"
  | some a => if hamtDigest dv a.1 == hamtDigest dv v then none else some s!"abs={hex (hamtDigest dv a.1)}"

def curObj (st : St) : Option Obj := st.vers[st.cur]?

partial def step (st : St) (e : Sexp) : St × String :=
  let h := st.h
  match e with
  | .list (.atom "hist" :: ops) =>
    let (st, outs) := ops.foldl (fun (acc : St × List String) op =>
      let (st', o) := step acc.1 op; (st', acc.2 ++ [o])) (st, [])
    (st, " ; ".intercalate outs)
  | .list (.atom "new" :: hid :: .atom kind :: args) =>
    match hid.asNat? with
    | none => (st, "bad-op")
    | some hid =>
      let st : St := { hid := hid }
      let h := hasherOf hid
      match kind with
      | "map" => match args.mapM asPair? with
        | some ps => newVersion st (do pure (.map (← FMap.ofList h ps)))
            (fun w => do let (r, w) ← w.runMap (HFMap.ofList h ps); pure (.map r, w))
        | none => (st, "bad-op")
      | "set" => match args.mapM Sexp.asInt? with
        | some ks => newVersion st (do pure (.set (← FSet.ofList h ks)))
            (fun w => do let (r, w) ← w.runSet (HFSet.ofList h ks); pure (.set r, w))
        | none => (st, "bad-op")
      | "zmap" => newVersion st (pure (.map ⟨none⟩)) (fun w => pure (.map ⟨none⟩, w))
      | "zset" => newVersion st (pure (.set ⟨.nil, none⟩)) (fun w => pure (.set ⟨.nil, none⟩, w))
      | _ => (st, "bad-op")
  | .list [.atom "use", i] =>
    match i.asNat? with
    | some i => if i < st.vers.size then ({ st with cur := i }, "ok") else (st, "bad-op")
    | none => (st, "bad-op")
  | .list [.atom "check", i] =>
    match i.asNat? >>= (st.vers[·]?) with
    | some o =>
      -- persistence at the heap level: the OLD pointer, read in the CURRENT heap
      let w := st.hw
      let w := match w.div, i.asNat? >>= (w.vers[·]?) with
        | none, some ho =>
          (match agrees w ho o with
           | none => w
           | some d => { w with div := some s!"check:{d}" })
        | _, _ => w
      ({ st with hw := w }, run (summary o) ++ divTag w)
    | none => (st, "bad-op")
  | .list [.atom "mb", .atom "new"] =>
    builderStep { st with mb := some MapBuilder.new }
      (fun w => do let (b, w) ← w.runMap HMapBuilder.new; pure { w with mb := some b }) (fun _ => none)
  | .list [.atom "mb", .atom "add", k, v] =>
    match st.mb, k.asInt?, v.asInt? with
    | some b, some k, some v =>
      match b.add h k v with
      | .ok b' =>
        builderStep { st with mb := some b' }
          (fun w => match w.mb with
            | some hb => do let (hb', w) ← w.runMap (hb.add h k v); pure { w with mb := some hb' }
            | none => throw "no heap-level builder")
          (fun w => match w.mb, b'.m with
            | some ⟨some p⟩, some vm => hamtAgrees dI w.mh p vm
            | _, _ => some "builder-state")
      | .error p => (st, s!"panic({p})")
    | _, _, _ => (st, "bad-op")
  | .list [.atom "mb", .atom "build"] =>
    match st.mb with
    | some b =>
      match b.build with
      | .ok (m, b') => push { st with mb := some b' } (.map ⟨some (.hamt m)⟩)
          (fun w => match w.mb with
            | some hb => do
              let ((p, hb'), w) ← w.runMap hb.build
              pure (.map ⟨some (.hamt p)⟩, { w with mb := some hb' })
            | none => throw "no heap-level builder")
      | .error p => (st, s!"panic({p})")
    | none => (st, "bad-op")
  | .list [.atom "sb", .atom "new"] =>
    builderStep { st with sb := some SetBuilder.new }
      (fun w => do let (b, w) ← w.runSet HSetBuilder.new; pure { w with sb := some b }) (fun _ => none)
  | .list [.atom "sb", .atom "add", k] =>
    match st.sb, k.asInt? with
    | some b, some k =>
      match b.add h k with
      | .ok b' =>
        builderStep { st with sb := some b' }
          (fun w => match w.sb with
            | some hb => do let (hb', w) ← w.runSet (hb.add h k true); pure { w with sb := some hb' }
            | none => throw "no heap-level builder")
          (fun w => match w.sb with
            | some hb => hamtAgrees dB w.sh hb.m b'.m
            | none => some "builder-state")
      | .error p => (st, s!"panic({p})")
    | _, _ => (st, "bad-op")
  | .list [.atom "sb", .atom "build"] =>
    match st.sb with
    | some b => push { st with sb := some b.build.2 } (.set ⟨.hamt, some (.hamt b.build.1)⟩)
        (fun w => match w.sb with
          | some hb => pure (.set ⟨.hamt, some (.hamt hb.build.1)⟩, { w with sb := some hb.build.2 })
          | none => throw "no heap-level builder")
    | none => (st, "bad-op")
  | .list (.atom op :: args) =>
    match curObj st with
    | none => (st, "bad-op")
    | some (.map m) =>
      match op, args with
      | "set", [k, v] => match k.asInt?, v.asInt? with
        | some k, some v => newVersion st (do pure (.map (← m.updated h k v))) (hmapOp st (·.updated h k v))
        | _, _ => (st, "bad-op")
      | "del", ks => match ks.mapM Sexp.asInt? with
        | some ks => newVersion st (do pure (.map (← m.removed h ks))) (hmapOp st (·.removed h ks))
        | none => (st, "bad-op")
      | "updwith", [k, f] => match k.asInt?, remapOf f with
        | some k, some f => newVersion st (do pure (.map (← m.updatedWith h k f))) (hmapOp st (·.updatedWith h k f))
        | _, _ => (st, "bad-op")
      | "concat", ps => match ps.mapM asPair? with
        | some ps => newVersion st (do pure (.map (← m.concat h ps))) (hmapOp st (·.concat h ps))
        | none => (st, "bad-op")
      | "get", ks => match ks.mapM Sexp.asInt? with
        | some ks => (st, run (do pure (" ".intercalate ((← ks.mapM (m.get h ·)).map showOpt))))
        | none => (st, "bad-op")
      | "has", ks => match ks.mapM Sexp.asInt? with
        | some ks => (st, run (do pure (" ".intercalate ((← ks.mapM (m.contains h ·)).map toString))))
        | none => (st, "bad-op")
      | "size", [] => (st, s!"{m.size} {m.isEmpty} {m.nonEmpty}")
      | "iter", [] => (st, run (do pure (showPairs (← iterObj (.map m)))))
      | "keys", [] => (st, run (do
          let ks ← m.keys
          pure (showInts (match m.base with | some (.goMap _) => sortInts ks | _ => ks))))
      | "values", [] => (st, run (do
          let vs ← m.values
          pure (showInts (match m.base with | some (.goMap _) => sortInts vs | _ => vs))))
      | "dump", [] => (st, dumpObj (.map m))
      | "overrun", [] => (st, run (do
          -- drain the iterator, then call Next() once more
          match m.base with
          | some (.hamt hm) =>
            let it ← hm.iterator
            let rec drain : Nat → MapIter Int Int → GoE (MapIter Int Int)
              | 0, it => pure it
              | f + 1, it => if it.hasNext then do drain f (← it.next).2 else pure it
            let it ← drain (hm.size + 1) it
            let _ ← it.next
            pure "no-panic"
          | none => throw "next on empty iterator"
          | some (.goMap _) => pure "unspecified"))
      | _, _ => (st, "bad-op")
    | some (.set s) =>
      let other (i : Sexp) : Option (FSet Int) :=
        match i.asNat? >>= (st.vers[·]?) with
        | some (.set o) => some o
        | _ => none
      match op, args with
      | "incl", [k] => match k.asInt? with
        | some k => newVersion st (do pure (.set (← s.incl h k))) (hsetOp st (·.incl h k))
        | none => (st, "bad-op")
      | "excl", [k] => match k.asInt? with
        | some k => newVersion st (do pure (.set (← s.excl h k))) (hsetOp st (·.excl h k))
        | none => (st, "bad-op")
      | "sconcat", ks => match ks.mapM Sexp.asInt? with
        | some ks => newVersion st (do pure (.set (← s.concat h ks))) (hsetOp st (·.concat h ks))
        | none => (st, "bad-op")
      | "diff", [i] => match other i with
        | some o => newVersion st (do pure (.set (← s.diff h o))) (hsetOp2 st i (fun a b => a.diff h b))
        | none => (st, "bad-op")
      | "intersect", [i] => match other i with
        | some o => newVersion st (do pure (.set (← s.intersect h o))) (hsetOp2 st i (fun a b => a.intersect h b))
        | none => (st, "bad-op")
      | "subsetof", [i] => match other i with
        | some o => (st, run (do pure (toString (← s.subsetOf h o))))
        | none => (st, "bad-op")
      | "has", ks => match ks.mapM Sexp.asInt? with
        | some ks => (st, run (do pure (" ".intercalate ((← ks.mapM (s.contains h ·)).map toString))))
        | none => (st, "bad-op")
      | "size", [] => (st, s!"{s.size} {s.isEmpty} {!s.isEmpty}")
      | "iter", [] => (st, run (do pure (showInts ((← iterObj (.set s)).map (·.1)))))
      | "dump", [] => (st, dumpObj (.set s))
      | _, _ => (st, "bad-op")
  | _ => (st, "bad-op")

partial def loop (h : IO.FS.Stream) (out : IO.FS.Stream) (st : St) : IO Unit := do
  let line ← h.getLine
  if line.isEmpty then return ()
  match Sexp.parse line with
  | some e =>
    let (st', ans) := step st e
    out.putStrLn ans
    loop h out st'
  | none =>
    out.putStrLn "bad-op"
    loop h out st

def main : IO Unit := do
  let out ← IO.getStdout
  loop (← IO.getStdin) out {}
  out.flush
