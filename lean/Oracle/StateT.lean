import FpVerif.Funcs
import FpVerif.Model.StateT
/-! Line-protocol oracle for `fp.StateT` / package `statet` (C17). -/
open FpVerif FpVerif.Sexp

abbrev P := StM.StT Int Val

def interpT : Sexp → Option (Try Val)
  | .list [.atom "succ", n] => do pure (.success (.int (← n.asInt?)))
  | .list [.atom "fail", e] => do pure (.failure (.code (← e.asInt?)))
  | .list [.atom "zero"] => pure (.failure .nil)
  | _ => none

def sI (f : Val → GoM Val) : Int → GoM Int := fun s => do pure (← f (.int s)).asInt
def sV (f : Val → GoM Val) : Int → GoM Val := fun s => f (.int s)
def sT (f : Val → GoM (Try Val)) : Int → GoM (Try Val) := fun s => f (.int s)
def sTI (f : Val → GoM (Try Val)) : Int → GoM (Try Int) := fun s => do
  match ← f (.int s) with
  | .success v => pure (.success v.asInt)
  | .failure e => pure (.failure e)

def unitV (p : StM.StT Int Unit) : P := fun s => do
  let (r, ns) ← p s
  match r with
  | .success _ => pure (.success .unit, ns)
  | .failure e => pure (.failure e, ns)

mutual
partial def interpP : Sexp → Option P
  | .list [.atom "pure", n] => do pure (StM.pure (.int (← n.asInt?)))
  | .list [.atom "put", n] => do pure (unitV (StM.put (← n.asInt?)))
  | .list [.atom "get"] => pure (fun s => do let (r, ns) ← StM.get s; match r with
      | .success v => pure (.success (.int v), ns) | .failure e => pure (.failure e, ns))
  | .list [.atom "modify", f] => do pure (unitV (StM.modify (sI (← F1.interp f))))
  | .list [.atom "modifyT", k] => do pure (unitV (StM.modifyT (sTI (← KT.interp k))))
  | .list [.atom "modifyS", f, g] => do pure (StM.modifyS (sI (← F1.interp f)) (sV (← F1.interp g)))
  | .list [.atom "getS", f] => do pure (StM.getS (sV (← F1.interp f)))
  | .list [.atom "getST", k] => do pure (StM.getST (sT (← KT.interp k)))
  | .list [.atom "putWith", g, v] => do
      let g ← F2.interp g; let v ← v.asInt?
      pure (unitV (StM.putWith (fun s v => do pure (← g (.int s) v).asInt) (Val.int v)))
  | .list [.atom "fromTry", t] => do pure (StM.fromTry (← interpT t))
  | .list [.atom "flatMap", p, k] => do pure (StM.flatMap (← interpP p) (← interpKP k))
  | .list [.atom "flatMapConst", p, q] => do pure (StM.flatMapConst (← interpP p) (← interpP q))
  | .list [.atom "withState", k] => do
      let k ← interpKP k
      pure (StM.withState (fun s => k (.int s)))
  | .list [.atom "map", p, f] => do pure (StM.map (← interpP p) (← F1.interp f))
  | .list [.atom "mapT", p, k] => do pure (StM.mapT (← interpP p) (← KT.interp k))
  | .list [.atom "mapWithState", p, g] => do
      let g ← F2.interp g
      pure (StM.mapWithState (← interpP p) (fun s a => g (.int s) a))
  | .list [.atom "mapWithStateT", p, g] => do
      let g ← F2.interp g
      pure (StM.mapWithStateT (← interpP p) (fun s a => do
        let r ← g (.int s) a
        if emod r.asInt 3 == 0 then pure (.failure (.code 77)) else pure (.success r)))
  | .list [.atom "peekState", p, id] => do
      let id ← id.asInt?
      pure (StM.peekState (← interpP p) (fun s => emit s!"peek{id}:{s}"))
  | .list [.atom "transform", p, id] => do
      let id ← id.asInt?
      pure (StM.transform (← interpP p) (fun s t => do
        emit s!"tr{id}:{s},{Val.ofTry t}"
        match t with
        | .success v => pure (s + 1, .success (.tup [v]))
        | .failure (.code e) => pure (s + 2, .success (.int e))
        | .failure e => pure (s + 3, .failure e)))
  | .list [.atom "transformWith", p, id, q, r] => do
      let id ← id.asInt?; let q ← interpP q; let r ← interpP r
      pure (StM.transformWith (← interpP p) (fun t => do
        emit s!"tw{id}:{Val.ofTry t}"
        match t with
        | .success _ => pure q
        | .failure _ => pure r))
  | .list (.atom "foldM" :: z :: k :: xs) => do
      let z ← z.asInt?; let xs ← xs.mapM Sexp.asInt?; let k ← interpK2P k
      pure (StM.foldM (xs.map Val.int) (.int z) k)
  | .list (.atom "concat" :: p :: ps) => do
      pure (StM.concat (← interpP p) (← ps.mapM interpP))
  | .list [.atom "recover", p, h] => do pure (StM.recover (← interpP p) (← interpH h))
  | .list [.atom "recoverT", p, h] => do pure (StM.recoverT (← interpP p) (← interpHT h))
  | .list [.atom "recoverWithState", p, h] => do pure (StM.recoverWithState (← interpP p) (← interpH2 h))
  | .list [.atom "recoverWithStateT", p, h] => do pure (StM.recoverWithStateT (← interpP p) (← interpH2T h))
  | .list [.atom "recoverWith", p, h] => do pure (StM.recoverWith (← interpP p) (← interpHP h))
  | .list [.atom "recoverCase", p, c, h] => do pure (StM.recoverCase (← interpP p) (← interpPE c) (← interpH h))
  | .list [.atom "recoverCaseT", p, c, h] => do pure (StM.recoverCaseT (← interpP p) (← interpPE c) (← interpHT h))
  | .list [.atom "recoverCaseWith", p, c, h] => do pure (StM.recoverCaseWith (← interpP p) (← interpPE c) (← interpHP h))
  | _ => none

/-- continuations `Val → GoM P` -/
partial def interpKP : Sexp → Option (Val → GoM P)
  | .list [.atom "kconst", id, p] => do
      let id ← id.asInt?; let p ← interpP p
      pure fun x => do emit s!"kp{id}:{x}"; pure p
  | .list [.atom "kput", id] => do
      let id ← id.asInt?
      pure fun x => do emit s!"kp{id}:{x}"; pure (unitV (StM.put x.asInt))
  | .list [.atom "kpure", id, f] => do
      let id ← id.asInt?; let f ← F1.interp f
      pure fun x => do emit s!"kp{id}:{x}"; pure (StM.pure (← f x))
  | .list [.atom "kmodadd", id] => do
      let id ← id.asInt?
      pure fun x => do
        emit s!"kp{id}:{x}"
        pure (StM.modifyS (fun s => pure (s + x.asInt)) (fun s => pure (.int (2 * x.asInt + s))))
  | .list [.atom "kfailif", id, m, e] => do
      let id ← id.asInt?; let m ← m.asInt?; let e ← e.asInt?
      pure fun x => do
        emit s!"kp{id}:{x}"
        if emod x.asInt m == 0 then pure (StM.fromTry (.failure (.code e)))
        else pure (StM.pure (.int (x.asInt + 1)))
  | .list [.atom "kpanic", id, p] => do
      let id ← id.asInt?; let p ← p.asInt?
      pure fun x => do emit s!"kp{id}:{x}"; goPanic s!"{p}"
  | _ => none

partial def interpK2P : Sexp → Option (Val → Val → GoM P)
  | .list [.atom "k2", k] => do
      let k ← interpKP k
      pure fun b a => k (.int (b.asInt + a.asInt))
  | _ => none

partial def interpH : Sexp → Option (Err → GoM Val)
  | .list [.atom "h", id, c] => do
      let id ← id.asInt?; let c ← c.asInt?
      pure fun e => do emit s!"h{id}:{e}"; pure (.int c)
  | _ => none

partial def interpHT : Sexp → Option (Err → GoM (Try Val))
  | .list [.atom "ht", id, t] => do
      let id ← id.asInt?; let t ← interpT t
      pure fun e => do emit s!"h{id}:{e}"; pure t
  | _ => none

partial def interpH2 : Sexp → Option (Int → Err → GoM Val)
  | .list [.atom "h2", id] => do
      let id ← id.asInt?
      pure fun s e => do emit s!"h{id}:{s},{e}"; pure (.int (s * 10))
  | _ => none

partial def interpH2T : Sexp → Option (Int → Err → GoM (Try Val))
  | .list [.atom "h2t", id, m] => do
      let id ← id.asInt?; let m ← m.asInt?
      pure fun s e => do
        emit s!"h{id}:{s},{e}"
        if emod s m == 0 then pure (.failure (.code 99)) else pure (.success (.int (s * 10)))
  | _ => none

partial def interpHP : Sexp → Option (Err → GoM P)
  | .list [.atom "hp", id, p] => do
      let id ← id.asInt?; let p ← interpP p
      pure fun e => do emit s!"h{id}:{e}"; pure p
  | _ => none

partial def interpPE : Sexp → Option (Err → GoM Bool)
  | .list [.atom "pe", id, c] => do
      let id ← id.asInt?; let c ← c.asInt?
      pure fun e => do emit s!"pe{id}:{e}"; pure (e == .code c)
  | _ => none
end

def showRes (r : Try Val × Int) : String := s!"{Val.ofTry r.1} @{r.2}"

def step (line : String) : String :=
  match Sexp.parse line with
  | some (.list [.atom "run", s0, p]) =>
    match s0.asInt?, interpP p with
    | some s0, some p => renderOutcome showRes (GoM.exec (p s0))
    | _, _ => "bad-op"
  | some (.list [.atom "run2", s0, s1, p]) =>
    -- the same program value run twice: a `StM` is a function of the initial state, nothing else
    match s0.asInt?, s1.asInt?, interpP p with
    | some s0, some s1, some p =>
      renderOutcome (fun (r : (Try Val × Int) × (Try Val × Int)) => s!"{showRes r.1} ; {showRes r.2}")
        (GoM.exec (do let r0 ← p s0; let r1 ← p s1; pure (r0, r1)))
    | _, _, _ => "bad-op"
  | some (.list [.atom "exec", s0, p]) =>
    match s0.asInt?, interpP p with
    | some s0, some p => renderOutcome (fun (t : Try Int) => match t with
        | .success v => s!"Success({v})" | .failure e => s!"Failure({e})") (GoM.exec (StM.exec p s0))
    | _, _ => "bad-op"
  | some (.list [.atom "eval", s0, p]) =>
    match s0.asInt?, interpP p with
    | some s0, some p => renderOutcome (fun t => toString (Val.ofTry t)) (GoM.exec (StM.eval p s0))
    | _, _ => "bad-op"
  | _ => "bad-op"

partial def loop (h : IO.FS.Stream) (out : IO.FS.Stream) : IO Unit := do
  let line ← h.getLine
  if line.isEmpty then return ()
  out.putStrLn (step line)
  loop h out

def main : IO Unit := do
  let out ← IO.getStdout
  loop (← IO.getStdin) out
  out.flush
