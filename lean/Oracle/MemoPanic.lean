import FpVerif.Sexp
import FpVerif.Model.MemoPanic
import FpVerif.Model.EvalPanic
import FpVerif.Model.ListPanic
/-! Line-protocol oracle for memoised / deferred computations whose thunk panics (C16, work package ONCEPANIC).

It runs `MemoPanic.getN` / `getArgs` (lazy.Memoize, fp.Memoize, fn1.Memoize), `MemoPanic.runSched` under the
round-robin schedule (the schedule-independent summary of a concurrent run), `EvalP.execAll` (lazy.Call / TailCall /
TailCallN / Map / FlatMap / Map2 with memo cells in a heap, `Get` repeated) and `ListP.execAll` (fp.MakeList cells,
list.GenerateFrom, list.Recurrence1).  Everything at `T = Int` (Go: `int`, zero value 0). -/
open FpVerif FpVerif.Sexp FpVerif.It

-- behaviours ------------------------------------------------------------------------------------------------

/-- the behaviour a thunk shows in its `k`-th execution: the `k`-th of the list, the last one from then on -/
def pick {α : Type} (bs : List α) (dflt : α) (k : Nat) : α :=
  match bs[k]? with
  | some b => b
  | none => bs.getLast?.getD dflt

inductive Beh where
  | v (n : Int)
  | p (n : Int)

def behOf : Sexp → Option Beh
  | .list [.atom "v", n] => do pure (.v (← n.asInt?))
  | .list [.atom "p", n] => do pure (.p (← n.asInt?))
  | _ => none

/-- `(th id b0 b1 …)`: execution `k` logs `t<id>#<k>` and then returns / panics -/
def thOf : Sexp → Option (Nat → GoM Int)
  | .list [.atom "thnil"] => pure fun _ => goPanic "nil-deref"        -- calling a nil func
  | .list (.atom "th" :: id :: bs) => do
    let id ← id.asInt?
    let bs ← bs.mapM behOf
    pure fun k => do
      emit s!"t{id}#{k}"
      match pick bs (.v 0) k with
      | .v n => pure n
      | .p n => goPanic s!"{n}"
  | _ => none

/-- the same thunk as a function of one argument (fn1.Memoize): logs `t<id>#<k>:<a>`, returns `n + a` -/
def th1Of : Sexp → Option (Int → Nat → GoM Int)
  | .list [.atom "thnil"] => pure fun _ _ => goPanic "nil-deref"
  | .list (.atom "th" :: id :: bs) => do
    let id ← id.asInt?
    let bs ← bs.mapM behOf
    pure fun a k => do
      emit s!"t{id}#{k}:{a}"
      match pick bs (.v 0) k with
      | .v n => pure (n + a)
      | .p n => goPanic s!"{n}"
  | _ => none

def outOf : Sexp → Option (Nat → MemoPanic.Out Int)
  | .list (.atom "th" :: _ :: bs) => do
    let bs ← bs.mapM behOf
    pure fun k =>
      match pick bs (.v 0) k with
      | .v n => .value n
      | .p n => .panic s!"{n}"
  | _ => none

def showRes {α : Type} (sh : α → String) : Except PanicVal α → String
  | .ok a => sh a
  | .error p => s!"panic({p})"

def showList (xs : List String) : String := "[" ++ ",".intercalate xs ++ "]"

def line (vals : List String) (lg : List Event) : String := showList vals ++ " | " ++ ",".intercalate lg

-- callbacks of the Eval programs ------------------------------------------------------------------------------------

def f1Of : Sexp → Option (Int → GoM Int)
  | .list [.atom "lin", id, a, b] => do
    let id ← id.asInt?; let a ← a.asInt?; let b ← b.asInt?
    pure fun x => do emit s!"f{id}:{x}"; pure (a * x + b)
  | .list [.atom "fpanic", id, n] => do
    let id ← id.asInt?; let n ← n.asInt?
    pure fun x => do emit s!"f{id}:{x}"; goPanic s!"{n}"
  | .list [.atom "fpanicif", id, m, n] => do
    let id ← id.asInt?; let m ← m.asInt?; let n ← n.asInt?
    pure fun x => do
      emit s!"f{id}:{x}"
      if (if m == 0 then 0 else Int.emod x m) == 0 then goPanic s!"{n}" else pure (x + 1)
  | _ => none

def f2Of : Sexp → Option (Int → Int → GoM Int)
  | .list [.atom "lin2", id, a, b] => do
    let id ← id.asInt?; let a ← a.asInt?; let b ← b.asInt?
    pure fun x y => do emit s!"g{id}:{x},{y}"; pure (a * x + b * y)
  | .list [.atom "g2panic", id, n] => do
    let id ← id.asInt?; let n ← n.asInt?
    pure fun x y => do emit s!"g{id}:{x},{y}"; goPanic s!"{n}"
  | _ => none

open FpVerif.EvalP in
mutual
partial def progOf : Sexp → Option (Prog Int)
  | .list [.atom "done", n] => do pure (.done (← n.asInt?))
  | .list [.atom "zero"] => pure .zero
  | .list [.atom "call", th] => do pure (.call (← thOf th))
  | .list [.atom "tailCall", the] => do pure (.tailCall (← theOf the []))
  | .list (.atom "tailCallN" :: the :: args) => do
    let args ← args.mapM Sexp.asInt?
    pure (.tailCall (← theOf the args))
  | .list [.atom "flatMap", p, k] => do pure (.flatMap (← progOf p) (← kOf k))
  | .list [.atom "pflatMap", p, k] => do pure (.flatMap (← progOf p) (← kOf k))
  | .list [.atom "map", p, f] => do pure (.map (← progOf p) (← f1Of f))
  | .list [.atom "pmap", p, f] => do pure (.map (← progOf p) (← f1Of f))
  | .list [.atom "map2", p, q, f] => do pure (.map2 (← progOf p) (← progOf q) (← f2Of f))
  | .list [.atom "ref", j] => do pure (.ref (← j.asNat?))
  | _ => none

/-- `(the id e0 e1 …)`, `e = (e P) | (p n)`: execution `k` of the `func() Eval[T]` logs `u<id>#<k>` (with the
    arguments of a TailCallN) and then evaluates the expression `P` / panics -/
partial def theOf : Sexp → List Int → Option (Nat → Prog Int)
  | .list (.atom "the" :: id :: es), args => do
    let id ← id.asInt?
    let es ← es.mapM (fun e => match e with
      | .list [.atom "e", p] => progOf p
      | .list [.atom "p", n] => do pure (Prog.panic s!"{← n.asInt?}")
      | _ => none)
    let sfx := if args.isEmpty then "" else ":" ++ ",".intercalate (args.map toString)
    pure fun k => .logged [s!"u{id}#{k}{sfx}"] (pick es .zero k)
  | _, _ => none

partial def kOf : Sexp → Option (Int → Prog Int)
  | .list [.atom "klin", id, a, b] => do
    let id ← id.asInt?; let a ← a.asInt?; let b ← b.asInt?
    pure fun v => .logged [s!"k{id}:{v}"] (.done (a * v + b))
  | .list [.atom "kprog", id, p] => do
    let id ← id.asInt?; let p ← progOf p
    pure fun v => .logged [s!"k{id}:{v}"] p
  | .list [.atom "kpanic", id, n] => do
    let id ← id.asInt?; let n ← n.asInt?
    pure fun v => .logged [s!"k{id}:{v}"] (.panic s!"{n}")
  | _ => none
end

def evalCmdOf : Sexp → Option (EvalP.Cmd Int)
  | .list [.atom "def", p] => do pure (.define (← progOf p))
  | .list [.atom "get", j] => do pure (.get (← j.asNat?))
  | _ => none

def showEvalAns : Except PanicVal (Option Int) → String
  | .ok none => "ok"
  | .ok (some v) => toString v
  | .error p => s!"panic({p})"

-- lists ---------------------------------------------------------------------------------------------------------

inductive HBeh where
  | some (n : Int)
  | none
  | p (n : Int)

def hbehOf : Sexp → Option HBeh
  | .list [.atom "some", n] => do pure (.some (← n.asInt?))
  | .list [.atom "none"] => pure .none
  | .list [.atom "p", n] => do pure (.p (← n.asInt?))
  | _ => Option.none

/-- `(hth id b0 b1 …)`: a head thunk; execution `k` logs `h<id>#<k>` -/
def hthOf : Sexp → Option (Nat → GoM (Option Int))
  | .list (.atom "hth" :: id :: bs) => do
    let id ← id.asInt?
    let bs ← bs.mapM hbehOf
    pure fun k => do
      emit s!"h{id}#{k}"
      match pick bs .none k with
      | .some n => pure (some n)
      | .none => pure none
      | .p n => goPanic s!"{n}"
  | _ => none

/-- `(g id n (i b0 b1 …) …)`: generator; the `k`-th call with index `i` logs `g<id>:<i>#<k>`; listed indices
    behave as given, the others yield `Some(10*i)` while `i < n` -/
def genOf : Sexp → Option (Int → Nat → GoM (Option Int))
  | .list (.atom "g" :: id :: n :: specs) => do
    let id ← id.asInt?; let n ← n.asInt?
    let specs ← specs.mapM (fun s => match s with
      | .list (i :: bs) => do pure ((← i.asInt?), (← bs.mapM hbehOf))
      | _ => none)
    pure fun i k => do
      emit s!"g{id}:{i}#{k}"
      let dflt : HBeh := if i < n then .some (10 * i) else .none
      let b := match specs.find? (fun s => s.1 == i) with
        | some (_, bs) => pick bs dflt k
        | none => dflt
      match b with
      | .some v => pure (some v)
      | .none => pure none
      | .p v => goPanic s!"{v}"
  | _ => none

/-- `(r id (x b0 b1 …) …)`: relation of a Recurrence1; the `k`-th call with argument `x` logs `r<id>:<x>#<k>`;
    listed arguments behave as given (`(v n)` / `(p n)`), the others yield `x + 1` -/
def relOf : Sexp → Option (Int → Nat → GoM Int)
  | .list (.atom "r" :: id :: specs) => do
    let id ← id.asInt?
    let specs ← specs.mapM (fun s => match s with
      | .list (x :: bs) => do pure ((← x.asInt?), (← bs.mapM behOf))
      | _ => none)
    pure fun x k => do
      emit s!"r{id}:{x}#{k}"
      let b := match specs.find? (fun s => s.1 == x) with
        | some (_, bs) => pick bs (.v (x + 1)) k
        | none => .v (x + 1)
      match b with
      | .v n => pure n
      | .p n => goPanic s!"{n}"
  | _ => none

open FpVerif.ListP in
mutual
partial def lprogOf : Sexp → Option (LProg Int)
  | .list [.atom "empty"] => pure .empty
  | .list [.atom "cons", h, t] => do pure (.cons (← h.asInt?) (← lprogOf t))
  | .list [.atom "make", h, t] => do pure (.make (← hthOf h) (← tthOf t))
  | .list [.atom "gen", i, g] => do pure (.generateFrom (← i.asInt?) (← genOf g))
  | .list [.atom "gen0", g] => do pure (.generateFrom 0 (← genOf g))              -- list.Generate(g) = GenerateFrom(0, g)
  | .list [.atom "rec1", a, r] => do pure (.recurrence1 (← a.asInt?) (← relOf r))
  | .list [.atom "ref", j] => do pure (.ref (← j.asNat?))
  | _ => none

/-- `(tth id e0 e1 …)`, `e = (e LP) | (p n)`: a tail thunk; execution `k` logs `l<id>#<k>` -/
partial def tthOf : Sexp → Option (Nat → LProg Int)
  | .list (.atom "tth" :: id :: es) => do
    let id ← id.asInt?
    let es ← es.mapM (fun e => match e with
      | .list [.atom "e", p] => lprogOf p
      | .list [.atom "p", n] => do pure (LProg.panic s!"{← n.asInt?}")
      | _ => none)
    pure fun k => .logged [s!"l{id}#{k}"] (pick es .empty k)
  | _ => none
end

def listCmdOf : Sexp → Option (ListP.Cmd Int)
  | .list [.atom "def", p] => do pure (.define (← lprogOf p))
  | .list [.atom "isEmpty", j] => do pure (.isEmpty (← j.asNat?))
  | .list [.atom "head", j] => do pure (.head (← j.asNat?))
  | .list [.atom "tail", j] => do pure (.tailOf (← j.asNat?))
  | .list [.atom "toSeq", j] => do pure (.toSeq (← j.asNat?))
  | _ => none

def showListAns : Except PanicVal (ListP.Ans Int) → String
  | .ok .unit => "ok"
  | .ok (.bool b) => if b then "true" else "false"
  | .ok (.val v) => toString v
  | .ok (.isNil b) => if b then "nil" else "list"
  | .ok (.seq xs) => showList (xs.map toString)
  | .error p => s!"panic({p})"

-- the protocol --------------------------------------------------------------------------------------------------

def dedupSorted (xs : List Int) : List Int :=
  (xs.toArray.qsort (· < ·)).toList.eraseDups

def step (ln : String) : String :=
  match Sexp.parse ln with
  | some (.list [.atom "memo", .atom _kind, th, n]) =>
    -- lazy.Memoize / fp.Memoize: the same model
    match thOf th, n.asNat? with
    | some f, some n =>
      match MemoPanic.getN f n (MemoPanic.Cell.fresh 0) [] with
      | (.ok rs, _, lg) => line (rs.map (showRes toString)) lg
      | (.error p, _, _) => s!"model-panic({p})"
    | _, _ => "bad-op"
  | some (.list (.atom "memo1" :: th :: args)) =>
    match th1Of th, args.mapM Sexp.asInt? with
    | some f, some as =>
      match MemoPanic.getArgs f as (MemoPanic.Cell.fresh 0) [] with
      | (.ok rs, _, lg) => line (rs.map (showRes toString)) lg
      | (.error p, _, _) => s!"model-panic({p})"
    | _, _ => "bad-op"
  | some (.list (.atom "conc" :: .atom _kind :: th :: progs)) =>
    -- the schedule-independent summary of a concurrent run (Spec/C16Panic: once_complete, …exactly_one)
    match outOf th, progs.mapM Sexp.asNat? with
    | some out, some progs =>
      let rounds := 6 * progs.sum + 1
      let s := MemoPanic.runSched out (MemoPanic.init 0 progs) (MemoPanic.roundRobin progs.length rounds)
      let panics := (s.threads.map (fun t => (t.results.filter MemoPanic.Res.isPanic).length)).sum
      let vals := dedupSorted (s.threads.flatMap (fun t => t.results.filterMap (fun r =>
        match r with | .returned v => some v | .panicked _ => none)))
      s!"runs={s.runs} panics={panics} answers={showList (s.threads.map (fun t => toString t.results.length))} values={showList (vals.map toString)} quiescent={s.quiescent}"
    | _, _ => "bad-op"
  | some (.list (.atom "evalp" :: cmds)) =>
    match cmds.mapM evalCmdOf with
    | some cs =>
      match EvalP.execAll (0 : Int) 100000 cs {} [] with
      | (.ok rs, _, lg) => line (rs.map showEvalAns) lg
      | (.error p, _, _) => s!"model-panic({p})"
    | none => "bad-op"
  | some (.list (.atom "listp" :: cmds)) =>
    match cmds.mapM listCmdOf with
    | some cs =>
      match ListP.execAll 100000 cs {} [] with
      | (.ok rs, _, lg) => line (rs.map showListAns) lg
      | (.error p, _, _) => s!"model-panic({p})"
    | none => "bad-op"
  | _ => "bad-op"

partial def loop (h out : IO.FS.Stream) : IO Unit := do
  let ln ← h.getLine
  if ln.isEmpty then return ()
  out.putStrLn (step ln)
  loop h out

def main : IO Unit := do
  let out ← IO.getStdout
  loop (← IO.getStdin) out
  out.flush
