import Oracle.RecordStep
import FpVerif.Model.DeriveInst
/-! Line-protocol oracle for the derived type-class instances (C08): `oracle_derive`.

  (derive eq     SPEC INSTS PINSTS X Y Z)        Eqv on the pairs of the triple
  (derive ord    SPEC INSTS PINSTS X Y Z)        Eqv / Less on the pairs of the triple
  (derive hash   SPEC INSTS PINSTS X Y Z)        Eqv(x,y), Hash(x), Hash(y), Hash(z)
  (derive monoid SPEC INSTS PINSTS ZERO X Y Z)   Empty, Combine(x,y), (xy)z, x(yz), Combine(Empty,x), Combine(x,Empty)
  (derive clone  SPEC INSTS PINSTS ZERO X)       Clone(x) with alias classes

  SPEC   = (spec NAME (origin …) (params T …) (fields (f NAME TYPE emb|plain empty|nonempty) …))
  INSTS  = (insts I …)   one instance expression per APPLICABLE field
  PINSTS = (pinsts (T I) …)  the expressions passed for the type parameters
  I      = (prim NAME) | (option I) | (seq I) | (slice I) | (ptr I) | (gomap I) | (tuple2 I I)
         | (struct SPEC INSTS) | self | (tparam T)

Every answer is computed by `Decl.eqInst / ordInst / hashInst / monoidInst / cloneInst` of
`FpVerif/Model/DeriveInst.lean`, i.e. by `derivedEqG … derivedClone` of `FpVerif/Model/Derive.lean`
(the definitions `Spec/C08.lean` is about) applied to the component dictionaries the instance
expressions denote.  All other lines are answered by the record model (`Oracle/RecordStep.lean`).
-/
open FpVerif FpVerif.Sexp FpVerif.Rec FpVerif.Derive

namespace DeriveOracle

/-- undo the %XX escaping of the harness, byte-wise -/
def unescBytes : List Char → List UInt8
  | '%' :: a :: b :: rest =>
    match hexVal a, hexVal b with
    | some x, some y => UInt8.ofNat (x * 16 + y) :: unescBytes rest
    | _, _ => UInt8.ofNat '%'.toNat :: unescBytes (a :: b :: rest)
  | c :: rest => UInt8.ofNat c.toNat :: unescBytes rest
  | [] => []

def escByte (b : UInt8) : List Char :=
  let n := b.toNat
  let c := Char.ofNat n
  if n ≤ 32 ∨ c == '(' ∨ c == ')' ∨ c == '%' ∨ c == ';' ∨ c == '=' ∨ c == '|' ∨ n ≥ 127 then
    ['%', hexDigit (n / 16), hexDigit (n % 16)]
  else [c]

def escBytes (bs : List UInt8) : String := String.ofList (bs.flatMap escByte)

partial def parseDV : Sexp → Option DV
  | .list [.atom "i", .atom n] => do pure (.int (← n.toInt?))
  | .list [.atom "s"] => some (.str [])
  | .list [.atom "s", .atom t] => some (.str (unescBytes t.toList))
  | .list [.atom "b", .atom "true"] => some (.bool true)
  | .list [.atom "b", .atom "false"] => some (.bool false)
  | .atom "n" => some .none
  | .list [.atom "o", v] => do pure (.some (← parseDV v))
  | .atom "z" => some .nil
  | .list [.atom "p", v] => do pure (.ptr (← parseDV v))
  | .list (.atom "l" :: vs) => do pure (.list (← vs.mapM parseDV))
  | .list (.atom "m" :: es) => do
    let kvs ← es.mapM fun
      | .list [k, v] => do
        match ← parseDV k with
        | .str bs => pure (bs, ← parseDV v)
        | _ => none
      | _ => none
    pure (.map (kvs.map (·.1)) (kvs.map (·.2)))
  | .list (.atom "u" :: vs) => do pure (.tup (← vs.mapM parseDV))
  | .list (.atom "r" :: vs) => do pure (.record (← vs.mapM parseDV))
  | .list [.atom "q", .atom t] => some (.opaque t)
  | _ => none

partial def showDV : DV → String
  | .int i => "(i " ++ toString i ++ ")"
  | .str [] => "(s)"
  | .str bs => "(s " ++ escBytes bs ++ ")"
  | .bool b => if b then "(b true)" else "(b false)"
  | .none => "n"
  | .some v => "(o " ++ showDV v ++ ")"
  | .nil => "z"
  | .ptr v => "(p " ++ showDV v ++ ")"
  | .list vs => "(" ++ " ".intercalate ("l" :: vs.map showDV) ++ ")"
  | .map ks vs => "(" ++ " ".intercalate ("m" :: (ks.zip vs).map fun kv =>
      "(" ++ showDV (.str kv.1) ++ " " ++ showDV kv.2 ++ ")") ++ ")"
  | .tup vs => "(" ++ " ".intercalate ("u" :: vs.map showDV) ++ ")"
  | .record vs => "(" ++ " ".intercalate ("r" :: vs.map showDV) ++ ")"
  | .opaque t => "(q " ++ t ++ ")"

def showRec (x : List DV) : String := showDV (.record x)

def parseDRec : Sexp → Option (List DV)
  | .list (.atom "r" :: vs) => vs.mapM parseDV
  | _ => none

partial def parseHV : Sexp → Option HV
  | .list [.atom "L", .atom t] => some (.leaf t)
  | .list [.atom "R", .atom a, c] => do pure (.ref (← a.toNat?) (← parseHV c))
  | .list [.atom "P", l, r] => do pure (.pair (← parseHV l) (← parseHV r))
  | _ => none

def parseHRec : Sexp → Option HRec
  | .list (.atom "h" :: vs) => vs.mapM parseHV
  | _ => none

/-- rendering with alias classes: storage that existed before the call (`addr < n0`) keeps its
    number (`@oN`), storage allocated by the call is numbered in order of first occurrence (`@nK`) -/
partial def showHV (n0 : Nat) : HV → StateM (List Nat) String
  | .leaf t => pure ("(L " ++ t ++ ")")
  | .ref a c => do
    let tag ←
      if a < n0 then pure ("o" ++ toString a)
      else do
        let seen ← get
        match seen.idxOf? a with
        | some k => pure ("n" ++ toString k)
        | none => do
          set (seen ++ [a])
          pure ("n" ++ toString seen.length)
    let cs ← showHV n0 c
    pure ("(R " ++ tag ++ " " ++ cs ++ ")")
  | .pair l r => do
    let ls ← showHV n0 l
    let rs ← showHV n0 r
    pure ("(P " ++ ls ++ " " ++ rs ++ ")")

def showHRec (n0 : Nat) (x : HRec) : String :=
  let go : StateM (List Nat) (List String) := x.mapM (showHV n0)
  "(" ++ " ".intercalate ("h" :: (go.run []).1) ++ ")"

def parseDField : Sexp → Option Field
  | .list [.atom "f", .atom name, .atom ty, .atom emb, .atom empty] =>
    some { name := name, ty := .conc ty, embedded := emb == "emb", emptyStruct := empty == "empty" }
  | _ => none

def parseDSpec : Sexp → Option (StructSpec × List String)
  | .list [.atom "spec", .atom name, .list (.atom "origin" :: _), .list (.atom "params" :: ps),
           .list (.atom "fields" :: fs)] => do
    pure ({ name := name, fields := ← fs.mapM parseDField }, atoms ps)
  | _ => none

partial def parseInst : Sexp → Option Inst
  | .list [.atom "prim", .atom n] => some (.prim n)
  | .list [.atom "option", i] => do pure (.option (← parseInst i))
  | .list [.atom "seq", i] => do pure (.seq (← parseInst i))
  | .list [.atom "slice", i] => do pure (.slice (← parseInst i))
  | .list [.atom "ptr", i] => do pure (.ptr (← parseInst i))
  | .list [.atom "gomap", i] => do pure (.gomap (← parseInst i))
  | .list [.atom "tuple2", a, b] => do pure (.tuple2 (← parseInst a) (← parseInst b))
  | .list [.atom "struct", sp, .list (.atom "insts" :: is)] => do
    let (s, _) ← parseDSpec sp
    let is ← is.mapM parseInst
    if is.length != s.nApp then none else pure (.struct s is)
  | .atom "self" => some .self
  | .list [.atom "tparam", .atom n] => some (.tparam n)
  | _ => none

def parseDecl (sp insts pinsts : Sexp) : Option Decl := do
  let (s, params) ← parseDSpec sp
  let is ← match insts with
    | .list (.atom "insts" :: is) => is.mapM parseInst
    | _ => none
  let ps ← match pinsts with
    | .list (.atom "pinsts" :: ps) => ps.mapM fun
      | .list [.atom n, i] => do pure (n, ← parseInst i)
      | _ => none
    | _ => none
  if is.length != s.nApp then none
  else pure { spec := s, params := params, insts := is, pinsts := ps }

def declKnown (d : Decl) (ok : String → Bool) : Bool :=
  Inst.knowns ok d.insts && Inst.knowns ok (d.pinsts.map (·.2))

/-- unfoldings of a recursive instance: more than any value of the grammar is deep -/
def fuel : Nat := 24

def tf (b : Bool) : String := if b then "T" else "F"

def eqLine (d : Decl) (x y z : List DV) : String :=
  let e := d.eqInst fuel
  s!"xy={tf (e.eqv x y)} yx={tf (e.eqv y x)} yz={tf (e.eqv y z)} xz={tf (e.eqv x z)} xx={tf (e.eqv x x)}"

def ordLine (d : Decl) (x y z : List DV) : String :=
  let o := d.ordInst fuel
  s!"eqv:xy={tf (o.eqv x y)} yz={tf (o.eqv y z)} xx={tf (o.eqv x x)} " ++
  s!"less:xy={tf (o.less x y)} yx={tf (o.less y x)} yz={tf (o.less y z)} zy={tf (o.less z y)} " ++
  s!"xz={tf (o.less x z)} zx={tf (o.less z x)} xx={tf (o.less x x)}"

def hashLine (d : Decl) (x y z : List DV) : String :=
  let h := d.hashInst fuel
  s!"eqv:xy={tf (h.eqv x y)} yz={tf (h.eqv y z)} hash:x={h.hash x} y={h.hash y} z={h.hash z}"

def monoidLine (d : Decl) (zero x y z : List DV) : String :=
  let m := d.monoidInst zero
  let xy := m.combine x y
  s!"empty={showRec m.empty} xy={showRec xy} xy_z={showRec (m.combine xy z)} " ++
  s!"x_yz={showRec (m.combine x (m.combine y z))} ex={showRec (m.combine m.empty x)} " ++
  s!"xe={showRec (m.combine x m.empty)}"

/-- the zero value of a field enters `derivedClone` through the declaration (`zeroH`) -/
def withZero (s : StructSpec) (zero : HRec) : StructSpec :=
  { s with fields := (s.fields.zip zero).map fun (f, z) =>
      match z with
      | .leaf t => { f with zero := .atom t }
      | _ => f }

def cloneLine (d : Decl) (zero x : HRec) : String :=
  let d := { d with spec := withZero d.spec zero }
  let n0 := (addrsL x).foldl (fun m a => max m (a + 1)) 0
  let r := (runAlloc ((d.cloneInst fuel).clone x) n0).1
  "clone=" ++ showHRec n0 r

def isSome {α : Type} (o : Option α) : Bool := o.isSome

def step (line : String) : String :=
  match Sexp.parse line with
  | some (.list (.atom "derive" :: .atom cls :: sp :: insts :: pinsts :: vals)) =>
    match parseDecl sp insts pinsts with
    | none => "bad-op"
    | some d =>
      let n := d.spec.fields.length
      match cls, vals with
      | "eq", [x, y, z] =>
        match parseDRec x, parseDRec y, parseDRec z with
        | some x, some y, some z =>
          if !(declKnown d fun p => (primEq? p).isSome) || x.length != n || y.length != n || z.length != n then "bad-op"
          else eqLine d x y z
        | _, _, _ => "bad-op"
      | "ord", [x, y, z] =>
        match parseDRec x, parseDRec y, parseDRec z with
        | some x, some y, some z =>
          if !(declKnown d fun p => (primOrd? p).isSome) || x.length != n || y.length != n || z.length != n then "bad-op"
          else ordLine d x y z
        | _, _, _ => "bad-op"
      | "hash", [x, y, z] =>
        match parseDRec x, parseDRec y, parseDRec z with
        | some x, some y, some z =>
          if !(declKnown d fun p => (primHash? p).isSome) || x.length != n || y.length != n || z.length != n then "bad-op"
          else hashLine d x y z
        | _, _, _ => "bad-op"
      | "monoid", [zero, x, y, z] =>
        match parseDRec zero, parseDRec x, parseDRec y, parseDRec z with
        | some zero, some x, some y, some z =>
          if !(declKnown d fun p => (primMonoid? p).isSome) || zero.length != n || x.length != n || y.length != n
              || z.length != n then "bad-op"
          else monoidLine d zero x y z
        | _, _, _, _ => "bad-op"
      | "clone", [zero, x] =>
        match parseHRec zero, parseHRec x with
        | some zero, some x =>
          if !(declKnown d fun p => (primClone? p).isSome) || zero.length != n || x.length != n then "bad-op"
          else cloneLine d zero x
        | _, _ => "bad-op"
      | _, _ => "bad-op"
  | _ => recordStep line

end DeriveOracle

partial def loop (h : IO.FS.Stream) (out : IO.FS.Stream) : IO Unit := do
  let line ← h.getLine
  if line.isEmpty then return ()
  out.putStrLn (DeriveOracle.step line)
  loop h out

def main : IO Unit := do
  let out ← IO.getStdout
  loop (← IO.getStdin) out
  out.flush
