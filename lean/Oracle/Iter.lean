import FpVerif.Funcs
import FpVerif.Model.IterPipe
import FpVerif.Model.LazyList
/-!
Line-protocol oracle for `fp.Iterator` / package `iterator` (C12, C20).

  (it <pipe> (<op> ...))                      one iterator, a script of calls / terminal operations
  (dup <pipe> (<LH|LN|RH|RN|LS|RS> ...))      iterator.Duplicate, calls on the two sides
  (span <pipe> <p> (...))                     iterator.Span
  (part <pipe> <p> (...))                     iterator.Partition

Answer: one token per step, `<op>=<result>#<pulls so far>{<events of this step>}`, the first token
is the construction (`B`).
-/
open FpVerif FpVerif.Sexp FpVerif.It FpVerif.LL

def asVals? : List Sexp → Option (List Val)
  | xs => xs.mapM (fun x => do pure (Val.int (← x.asInt?)))

/-- Go's `int` is 64 bit: results of the table functions are reduced to the signed 64-bit range
    (the model is parametric in the callbacks; the wrapped functions are what the harness runs). -/
def wrap64 (n : Int) : Int :=
  let m := Int.emod n 18446744073709551616
  if m ≥ 9223372036854775808 then m - 18446744073709551616 else m

partial def wrapV : Val → Val
  | .int n => .int (wrap64 n)
  | .tup xs => .tup (xs.map wrapV)
  | v => v

def w1 (f : Val → GoM Val) : Val → GoM Val := fun x => do pure (wrapV (← f x))
def w2 (f : Val → Val → GoM Val) : Val → Val → GoM Val := fun x y => do pure (wrapV (← f x y))

def omod (id m : Int) : Val → GoM (Option Val) := fun x => do
  emit s!"o{id}:{x}"
  if emod x.asInt m == 0 then pure none else pure (some (.int (wrap64 (x.asInt + 1))))

partial def parsePipe : Sexp → Option Pipe
  | .list (.atom "src" :: id :: xs) => do pure (.src (← id.asNat?) (← asVals? xs))
  | .list (.atom "seq" :: xs) => do pure (.seq (← asVals? xs))
  | .list [.atom "arg", n] => do pure (.arg (← n.asNat?))
  | .list [.atom "gen", id, a, b] => do pure (.gen (← id.asNat?) (← a.asInt?) (← b.asInt?))
  | .list [.atom "range", a, b] => do pure (.range false (← a.asInt?) (← b.asInt?))
  | .list [.atom "rangec", a, b] => do pure (.range true (← a.asInt?) (← b.asInt?))
  | .list [.atom "opt"] => pure (.opt none)
  | .list [.atom "opt", x] => do pure (.opt (some (.int (← x.asInt?))))
  | .list [.atom "empty"] => pure .empty
  | .list [.atom "zero"] => pure .zero
  | .list (.atom "rev" :: xs) => do pure (.rev (← asVals? xs))
  | .list (.atom "pullseq" :: id :: xs) => do pure (.pullseq (← id.asNat?) (← asVals? xs))
  | .list [.atom "map", p, f] => do pure (.map (← parsePipe p) (w1 (← F1.interp f)))
  | .list [.atom "mmap", p, f] => do pure (.map (← parsePipe p) (w1 (← F1.interp f)))
  | .list [.atom "tap", p, id] => do
      let id ← id.asInt?
      pure (.tap (← parsePipe p) (fun v => emit s!"t{id}:{v}"))
  | .list [.atom "take", p, n] => do pure (.take (← parsePipe p) (← n.asInt?))
  | .list [.atom "drop", p, n] => do pure (.drop (← parsePipe p) (← n.asInt?))
  | .list [.atom "takew", p, f] => do pure (.takew (← parsePipe p) (← P1.interp f))
  | .list [.atom "dropw", p, f] => do pure (.dropw (← parsePipe p) (← P1.interp f))
  | .list [.atom "filter", p, f] => do pure (.filter (← parsePipe p) (← P1.interp f))
  | .list [.atom "filternot", p, f] => do pure (.filternot (← parsePipe p) (← P1.interp f))
  | .list [.atom "concat", p, q] => do pure (.concat (← parsePipe p) (← parsePipe q))
  | .list [.atom "appended", p, x] => do pure (.concat (← parsePipe p) (.seq [.int (← x.asInt?)]))
  | .list [.atom "cons", x, p] => do pure (.concat (.seq [.int (← x.asInt?)]) (← parsePipe p))
  | .list [.atom "flatmap", p, id, k] => do
      let id ← id.asInt?
      pure (.flatmap (← parsePipe p) (fun x => do emit s!"k{id}:{x}"; pure x) (← parsePipe k))
  | .list [.atom "mflatmap", p, id, k] => do
      let id ← id.asInt?
      pure (.flatmap (← parsePipe p) (fun x => do emit s!"k{id}:{x}"; pure x) (← parsePipe k))
  | .list [.atom "filtermap", p, .list [.atom "omod", id, m]] => do
      pure (.filtermap (← parsePipe p) (omod (← id.asInt?) (← m.asInt?)))
  | .list [.atom "scan", p, z, g] => do pure (.scan (← parsePipe p) (.int (← z.asInt?)) (w2 (← F2.interp g)))
  | .list [.atom "zip", p, q] => do pure (.zip (← parsePipe p) (← parsePipe q))
  | .list [.atom "zip3", p, q, r] => do pure (.zip3 (← parsePipe p) (← parsePipe q) (← parsePipe r))
  | .list [.atom "zipidx", p] => do pure (.zipidx (← parsePipe p))
  | _ => none

def showRes {X : Type} (sh : X → String) : Except PanicVal X → String
  | .ok x => sh x
  | .error p => s!"panic({p})"

def tok (name res : String) (pulls : Nat) (lg : Log) : String :=
  s!"{name}={res}#{pulls}" ++ "{" ++ ",".intercalate lg ++ "}"

def showOpt (o : Option Val) : String := toString (Val.ofOption o)
def showSeq (l : List Val) : String := toString (Val.seq l)
def showBool (b : Bool) : String := if b then "true" else "false"
def showErr : Option Err → String
  | none => "nil"
  | some e => toString e

/-- insertion sort by integer value (the harness sorts ints) -/
def leV (w v : Val) : Bool :=
  decide (w.asInt < v.asInt) || (w.asInt == v.asInt && decide (toString w ≤ toString v))

def isort (l : List Val) : List Val :=
  l.foldl (fun acc v =>
    let (lo, hi) := acc.span (fun w => leV w v)
    lo ++ [v] ++ hi) []

def showGroups (gs : List (Int × List Val)) : String :=
  let sorted := gs.foldl (fun acc g =>
    let (lo, hi) := acc.span (fun w => decide (w.1 ≤ g.1))
    lo ++ [g] ++ hi) []
  "{" ++ ",".intercalate (sorted.map fun (k, vs) => s!"{k}:{showSeq vs}") ++ "}"

/-- the step function `b, a ↦ Try` / `Option` built from a table function: fails when the
    result is divisible by `m` -/
def tryStep (g : Val → Val → GoM Val) (m e : Int) : Val → Val → GoM (Try Val) := fun b a => do
  let r ← g b a
  if emod r.asInt m == 0 then pure (.failure (.code e)) else pure (.success r)

def optStep (g : Val → Val → GoM Val) (m : Int) : Val → Val → GoM (Option Val) := fun b a => do
  let r ← g b a
  if emod r.asInt m == 0 then pure none else pure (some r)

def errStep (id m e : Int) : Val → GoM (Option Err) := fun a => do
  emit s!"e{id}:{a}"
  if emod a.asInt m == 0 then pure (some (.code e)) else pure none

def lessLog (id : Int) : Val → Val → GoM Bool := fun a b => do
  emit s!"l{id}:{a},{b}"
  pure (decide (a.asInt < b.asInt))

def mkString (sep : String) (l : List Val) : String :=
  "\"" ++ sep.intercalate (l.map toString) ++ "\""

/-- one step of a script on machine `m` in state `s`: result text, new state, events -/
def stepOp {σ : Type} (m : Machine σ Val) (op : Sexp) (s : σ) : Option (String × String × σ × Log) :=
  let fin {X : Type} (name : String) (sh : X → String) (r : Except PanicVal X × σ × Log) :=
    some (name, showRes sh r.1, r.2.1, r.2.2)
  match op with
  | .atom "H" => fin "H" showBool (m.hasNext s [])
  | .atom "N" => fin "N" toString (m.next s [])
  | .list [.atom "toseq"] => fin "toseq" showSeq (toSeq m FUEL [] s [])
  | .list [.atom "count"] => fin "count" toString (count m FUEL 0 s [])
  | .list [.atom "nextopt"] => fin "nextopt" showOpt (nextOption m s [])
  | .list [.atom "isempty"] => fin "isempty" showBool (isEmpty m s [])
  | .list [.atom "nonempty"] => fin "nonempty" showBool (nonEmpty m s [])
  | .list [.atom "find", p] => do fin "find" showOpt (find (← P1.interp p) m FUEL s [])
  | .list [.atom "exists", p] => do fin "exists" showBool («exists» (← P1.interp p) m FUEL s [])
  | .list [.atom "forall", p] => do fin "forall" showBool (forAll (← P1.interp p) m FUEL s [])
  | .list [.atom "foreach", id] => do
      let id ← id.asInt?
      fin "foreach" (fun _ => "unit") (foreach (fun v => emit s!"t{id}:{v}") m FUEL s [])
  | .list [.atom "all", p] => do fin "all" (fun _ => "unit") (all (← P1.interp p) m FUEL s [])
  | .list [.atom "mkstring"] =>
      fin "mkstring" (mkString ",") (toSeq m FUEL [] s [])
  | .list [.atom "fold", z, g] => do
      fin "fold" toString (fold (w2 (← F2.interp g)) m FUEL (.int (← z.asInt?)) s [])
  | .list [.atom "foldtry", z, g, mm, e] => do
      fin "foldtry" (fun t => toString (Val.ofTry t))
        (foldTry (tryStep (w2 (← F2.interp g)) (← mm.asInt?) (← e.asInt?)) m FUEL (.int (← z.asInt?)) s [])
  | .list [.atom "foldopt", z, g, mm] => do
      fin "foldopt" showOpt (foldOption (optStep (w2 (← F2.interp g)) (← mm.asInt?)) m FUEL (.int (← z.asInt?)) s [])
  | .list [.atom "folderr", id, mm, e] => do
      fin "folderr" showErr (foldError (errStep (← id.asInt?) (← mm.asInt?) (← e.asInt?)) m FUEL s [])
  | .list [.atom "foldr", z, g] => do
      let g := w2 (← F2.interp g)
      fin "foldr" toString
        (foldRight (.int (← z.asInt?)) (fun a th => do let b ← th; IM.liftG (g a b)) m FUEL s [])
  | .list [.atom "foldrs", p, z] => do
      let p ← P1.interp p
      fin "foldrs" toString
        (foldRight (.int (← z.asInt?)) (fun a th => do if ← IM.liftG (p a) then pure a else th) m FUEL s [])
  | .list [.atom "reduce", id] => do
      let id ← id.asInt?
      fin "reduce" toString
        (reduce (.int 0) (fun a b => do emit s!"m{id}:{a},{b}"; pure (.int (wrap64 (a.asInt + b.asInt)))) m FUEL s [])
  | .list [.atom "min", id] => do fin "min" showOpt (It.min (lessLog (← id.asInt?)) m FUEL s [])
  | .list [.atom "max", id] => do fin "max" showOpt (It.max (lessLog (← id.asInt?)) m FUEL s [])
  | .list [.atom "groupby", f] => do
      let f := w1 (← F1.interp f)
      fin "groupby" showGroups (groupBy (fun a => do pure (← f a).asInt) m FUEL s [])
  | .list [.atom "sort"] => fin "sort" (fun l => showSeq (isort l)) (toSeq m FUEL [] s [])
  | _ => none

/-- pulls = events of instrumented sources (`s<id>:<v>`), also those of the short-lived iterators
    a `FlatMap` callback creates -/
def srcEvents (lg : Log) : Nat := (lg.filter (fun e => e.startsWith "s")).length

def runOps (p : Pipe) (s : p.St) (n : Nat) : List Sexp → List String → Option (List String)
  | [], acc => some acc.reverse
  | op :: ops, acc =>
    match stepOp p.machine op s with
    | some (name, res, s', lg) =>
      let n' := n + srcEvents lg
      runOps p s' n' ops (tok name res n' lg :: acc)
    | none => none

def runIt (p : Pipe) (ops : List Sexp) : Option String :=
  match (p.build (.int 0)).run.run [] with
  | (.ok s, lg) => do
    let toks ← runOps p s (srcEvents lg) ops [tok "B" "ok" (srcEvents lg) lg]
    pure (" ".intercalate toks)
  | (.error e, lg) => some ("B=panic(" ++ e ++ "){" ++ ",".intercalate lg ++ "}")

/-- two-sided scripts -/
def step2 {σ : Type} (mL mR : Machine σ Val) (op : Sexp) (s : σ) : Option (String × String × σ × Log) :=
  let fin {X : Type} (name : String) (sh : X → String) (r : Except PanicVal X × σ × Log) :=
    some (name, showRes sh r.1, r.2.1, r.2.2)
  match op with
  | .atom "LH" => fin "LH" showBool (mL.hasNext s [])
  | .atom "LN" => fin "LN" toString (mL.next s [])
  | .atom "RH" => fin "RH" showBool (mR.hasNext s [])
  | .atom "RN" => fin "RN" toString (mR.next s [])
  | .atom "LS" => fin "LS" showSeq (toSeq mL FUEL [] s [])
  | .atom "RS" => fin "RS" showSeq (toSeq mR FUEL [] s [])
  | _ => none

def runOps2 {σ : Type} (mL mR : Machine σ Val) (s : σ) (n : Nat) :
    List Sexp → List String → Option (List String)
  | [], acc => some acc.reverse
  | op :: ops, acc =>
    match step2 mL mR op s with
    | some (name, res, s', lg) =>
      let n' := n + srcEvents lg
      runOps2 mL mR s' n' ops (tok name res n' lg :: acc)
    | none => none

def run2 (kind : String) (p : Pipe) (f : Option (Val → GoM Bool)) (ops : List Sexp) : Option String :=
  match (p.build (.int 0)).run.run [] with
  | (.error e, lg) => some ("B=panic(" ++ e ++ "){" ++ ",".intercalate lg ++ "}")
  | (.ok s, lg) => do
    let n := srcEvents lg
    let b := tok "B" "ok" n lg
    let toks ← match kind, f with
      | "dup", _ =>
        runOps2 (dupLeft p.machine) (dupRight p.machine) (s, {}) n ops [b]
      | "span", some f =>
        runOps2 (spanLeft f p.machine) (spanRight FUEL f p.machine) ((s, {}), {}, {}) n ops [b]
      | "part", some f =>
        runOps2 (partitionLeft FUEL f p.machine) (partitionRight FUEL f p.machine) ((s, {}), {}, {}) n ops [b]
      | _, _ => none
    pure (" ".intercalate toks)

/-! ## lazy lists -/

partial def parseL : Sexp → Option LExpr
  | .list [.atom "lempty"] => pure .empty
  | .list (.atom "lof" :: xs) => do pure (.of (← asVals? xs))
  | .list [.atom "larg", n] => do pure (.argOf (← n.asNat?))
  | .list [.atom "lapply", h, t] => do pure (.apply (.int (← h.asInt?)) (← parseL t))
  | .list [.atom "lgen", id, n] => do pure (.generate (← id.asInt?) (← n.asInt?))
  | .list [.atom "lrange", a, b] => do pure (.range false (← a.asInt?) (← b.asInt?))
  | .list [.atom "lrangec", a, b] => do pure (.range true (← a.asInt?) (← b.asInt?))
  | .list (.atom "lrev" :: xs) => do pure (.reverse (← asVals? xs))
  | .list (.atom "lcollect" :: id :: xs) => do pure (.collect (← id.asInt?) (← asVals? xs))
  | .list [.atom "lopt"] => pure (.fromOption none)
  | .list [.atom "lopt", x] => do pure (.fromOption (some (.int (← x.asInt?))))
  | .list [.atom "lmap", e, f] => do pure (.map (← parseL e) (w1 (← F1.interp f)))
  | .list [.atom "lflatmap", e, id, k] => do pure (.flatMap (← parseL e) (← id.asInt?) (← parseL k))
  | .list [.atom "lfiltermap", e, .list [.atom "omod", id, m]] => do
      pure (.filterMap (← parseL e) (omod (← id.asInt?) (← m.asInt?)))
  | .list [.atom "lcombine", a, b] => do pure (.combine (← parseL a) (← parseL b))
  | .list [.atom "lzip", a, b] => do pure (.zip (← parseL a) (← parseL b))
  | .list [.atom "lzipidx", e] => do pure (.zipidx (← parseL e))
  | .list [.atom "lscan", e, z, g] => do pure (.scan (← parseL e) (.int (← z.asInt?)) (w2 (← F2.interp g)))
  | _ => none

def parseCalls : List Sexp → Option (List Call)
  | [] => some []
  | .atom "H" :: r => do pure (.H :: (← parseCalls r))
  | .atom "N" :: r => do pure (.N :: (← parseCalls r))
  | _ => none

def showObs : Obs Val → String
  | .has b => "H:" ++ showBool b
  | .val a => "N:" ++ toString a
  | .panic p => "N:panic(" ++ p ++ ")"

/-- the `iter` script of the harness: `N` is called under `recover` (a panic is one observation and the
    script goes on), `H` is not (a panicking `HasNext` — a list closure that panics, or the nil list after
    one — ends the whole operation with that panic).  Without panics this is `runScript`. -/
def runIterScript (m : Machine (Heap × LV) Val) :
    List Call → (Heap × LV) → Log → List (Obs Val) → Except PanicVal (List (Obs Val)) × (Heap × LV) × Log
  | [], s, lg, acc => (.ok acc.reverse, s, lg)
  | c :: cs, s, lg, acc =>
    match runCall m c s lg with
    | (.panic p, s', lg') =>
      if c = .H then (.error p, s', lg') else runIterScript m cs s' lg' (.panic p :: acc)
    | (o, s', lg') => runIterScript m cs s' lg' (o :: acc)

/-- did this answer report a panic other than `Next` on the exhausted iterator? (after such a panic the
    memo cells of the closures that panicked hold zero values, so the list no longer denotes
    `LExpr.denote`: the internal cross-check below is only meaningful before) -/
def sawPanic (res : String) : Bool :=
  ((res.replace "panic(next on empty iterator)" "").splitOn "panic(").length > 1

/-- one operation on the list value `l` (the list itself is immutable; only memo cells change);
    `clean`: no operation of this case has panicked so far -/
def stepL (l : LV) (den : List Val) (clean : Bool) (op : Sexp) (hp : Heap) : Option (String × String × Heap × Log) :=
  let fin {X : Type} (name : String) (sh : X → String) (r : Except PanicVal X × Heap × Log) :=
    if r.2.1.maxEvals > 1 then some (name, "memo-violation", r.2.1, r.2.2)
    else some (name, showRes sh r.1, r.2.1, r.2.2)
  match op with
  | .list [.atom "isempty"] => fin "isempty" showBool (LL.isEmpty FUEL l hp [])
  | .list [.atom "head"] => fin "head" showOpt (LL.headOpt FUEL l hp [])
  | .list [.atom "toseq"] =>
      -- cross-check of the heap semantics against the denotation of the expression
      let r := LL.toSeq FUEL l [] hp []
      match r.1 with
      | .ok xs => if !clean || showSeq xs == showSeq den then fin "toseq" showSeq r
                  else some ("toseq", "model-divergence(" ++ showSeq xs ++ " vs " ++ showSeq den ++ ")", r.2.1, r.2.2)
      | .error _ => fin "toseq" showSeq r
  | .list [.atom "tailhd"] =>
      fin "tailhd" showOpt ((do let t ← LL.tail FUEL l; LL.headOpt FUEL t : HM (Option Val)) hp [])
  | .list [.atom "fold", z, g] => do
      fin "fold" toString (LL.fold (w2 (← F2.interp g)) FUEL l (.int (← z.asInt?)) hp [])
  | .list [.atom "foldleft", z, g] => do
      fin "foldleft" toString (LL.foldLeft (w2 (← F2.interp g)) FUEL l (.int (← z.asInt?)) hp [])
  | .list [.atom "foldtry", z, g, mm, e] => do
      fin "foldtry" (fun t => toString (Val.ofTry t))
        (LL.foldTry (tryStep (w2 (← F2.interp g)) (← mm.asInt?) (← e.asInt?)) FUEL l (.int (← z.asInt?)) hp [])
  | .list [.atom "foldopt", z, g, mm] => do
      fin "foldopt" showOpt (LL.foldOption (optStep (w2 (← F2.interp g)) (← mm.asInt?)) FUEL l (.int (← z.asInt?)) hp [])
  | .list [.atom "folderr", id, mm, e] => do
      fin "folderr" showErr (LL.foldError (errStep (← id.asInt?) (← mm.asInt?) (← e.asInt?)) FUEL l hp [])
  | .list [.atom "foldr", z, g] => do
      let g := w2 (← F2.interp g)
      fin "foldr" toString
        (LL.foldRight (.int (← z.asInt?)) (fun a th => do let b ← th; IM.liftG (g a b)) FUEL l hp [])
  | .list [.atom "foldrs", p, z] => do
      let p ← P1.interp p
      fin "foldrs" toString
        (LL.foldRight (.int (← z.asInt?)) (fun a th => do if ← IM.liftG (p a) then pure a else th) FUEL l hp [])
  | .list [.atom "reduce", id] => do
      let id ← id.asInt?
      fin "reduce" toString
        (LL.reduce (.int 0) (fun a b => do emit s!"m{id}:{a},{b}"; pure (.int (wrap64 (a.asInt + b.asInt)))) FUEL l hp [])
  | .list (.atom "iter" :: calls) => do
      let cs ← parseCalls calls
      let r := runIterScript (LL.fromList FUEL) cs (hp, l) [] []
      fin "iter" (fun (os : List (Obs Val)) => "[" ++ " ".intercalate (os.map showObs) ++ "]")
        (r.1, r.2.1.1, r.2.2)
  | _ => none

def runOpsL (l : LV) (den : List Val) (hp : Heap) (n : Nat) (clean : Bool) : List Sexp → List String → Option (List String)
  | [], acc => some acc.reverse
  | op :: ops, acc =>
    match stepL l den clean op hp with
    | some (name, res, hp', lg) =>
      let n' := n + srcEvents lg
      runOpsL l den hp' n' (clean && !sawPanic res) ops (tok name res n' lg :: acc)
    | none => none

def runList (e : LExpr) (ops : List Sexp) : Option String :=
  match LL.eval FUEL e (.int 0) {} [] with
  | (.ok l, hp, lg) => do
    let toks ← runOpsL l (e.denote (.int 0)) hp (srcEvents lg) true ops [tok "B" "ok" (srcEvents lg) lg]
    pure (" ".intercalate toks)
  | (.error p, _, lg) => some ("B=panic(" ++ p ++ "){" ++ ",".intercalate lg ++ "}")

def step (line : String) : String :=
  match Sexp.parse line with
  | some (.list [.atom "it", p, .list ops]) =>
    match parsePipe p with
    | some p => (runIt p ops).getD "bad-op"
    | none => "bad-op"
  | some (.list [.atom "list", e, .list ops]) =>
    match parseL e with
    | some e => (runList e ops).getD "bad-op"
    | none => "bad-op"
  | some (.list [.atom "dup", p, .list ops]) =>
    match parsePipe p with
    | some p => (run2 "dup" p none ops).getD "bad-op"
    | none => "bad-op"
  | some (.list [.atom "span", p, f, .list ops]) =>
    match parsePipe p, P1.interp f with
    | some p, some f => (run2 "span" p (some f) ops).getD "bad-op"
    | _, _ => "bad-op"
  | some (.list [.atom "part", p, f, .list ops]) =>
    match parsePipe p, P1.interp f with
    | some p, some f => (run2 "part" p (some f) ops).getD "bad-op"
    | _, _ => "bad-op"
  | _ => "bad-op"

partial def loop (h : IO.FS.Stream) (out : IO.FS.Stream) : IO Unit := do
  let line ← h.getLine
  if line.isEmpty then return ()
  out.putStrLn (step line)
  loop h out

def main : IO Unit := do
  let out ← IO.getStdout
  loop (← IO.getStdin) out
  out.flush
