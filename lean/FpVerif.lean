import FpVerif.Sexp
import FpVerif.Base
import FpVerif.Funcs
