import FpVerif.Gen.SeqGen
/-!
# C12 / C01 / C11 — coverage of the translation tie for the eager `Seq` functions

`harness/cmd/seq2lean` lists in `FpVerif/Gen/SeqGen.lean` (regenerated from the working tree on every check)

* `found`        every exported function, and every exported method of an exported type, with a body in `seq.go` and
                 `seq/seq_op.go`;
* `translated`   those it translated (each has its theorem `…_eq` in `Spec/C12SeqGen.lean`; the check at the end of that
                 file fails the build if one is missing);
* `untranslated` those outside the fragment, with the translator's reason.

The lists below are fixed under version control.  A NEW exported function added to one of the two files is `found`; it
is then either translated (`translated_as_expected` fails: there is no theorem for it) or untranslated
(`exceptions_as_expected` fails: it is not a listed exception).  A listed function that disappears, or one that leaves
the fragment after an edit, fails the same theorems.
-/
namespace FpVerif.Spec.SeqGenCover
open FpVerif.Gen.SeqGen

set_option maxRecDepth 8192

/-- the exceptions: functions that stay tied by the differential harnesses only, WITH REASONS -/
def exceptions : List (String × String) := [
  ("fp.IteratorOfOption", "builds an fp.Iterator (closures over mutable captured state): the machine `It.ofOption`, C12 `ofOption_represents`, cmd/iter"),
  ("fp.IteratorOfSeq", "builds an fp.Iterator (closures over a mutable index): the machine `It.ofSeq`, C12 `ofSeq_represents`, cmd/iter"),
  ("fp.Seq.MakeString", "bytes.Buffer / fmt.Sprint (standard library, reflection-based formatting); cmd/coll"),
  ("fp.SliceCasting", "a conversion between named slice types over a TYPE PARAMETER (`To(a)`); identity on values, nothing to compute"),
  ("seq.Collect", "consumes an fp.Iterator (`for r.HasNext()`): `It.toSeq`, C12 `toSeq_eq`, cmd/iter"),
  ("seq.Distinct", "Go map as a mutable set captured by the fold closure; Model/ListX, cmd/listx"),
  ("seq.FilterNil", "pointers (`option.Ptr`): a pointer has an identity; cmd/coll"),
  ("seq.FoldFuture", "fp.Future / fp.Promise: asynchronous, C06"),
  ("seq.FromMap", "range over a Go map: no iteration order that is a function of the value; cmd/listx compares as sets"),
  ("seq.FromMapKeys", "range over a Go map"),
  ("seq.FromMapValues", "range over a Go map"),
  ("seq.GroupBy", "Go map result mutated in place by the fold closure (`b[k] = b[k].Append(a)`); the association-list reference `It.groupInsert` (C12 `groupBy_eq`) is tied by cmd/iter, cmd/listx"),
  ("seq.Iterator", "returns an fp.Iterator (fp.IteratorOfSeq)"),
  ("seq.Sort", "sort.Sort of the standard library over a copied slice: C10 `seqSort_spec`, Model/SliceHeap, cmd/seqheap"),
  ("seq.ToGoMap", "Go map result"),
  ("seq.ToGoSet", "Go map result (mutable.Set)"),
  ("seq.ToMap", "fp.Map via immutable.MapBuilder (HAMT: C03)"),
  ("seq.ToSet", "fp.Set via immutable.SetBuilder (HAMT: C03)")]

/-- what is expected to be translated; every entry has its `…_eq` theorem in `Spec/C12SeqGen.lean` -/
def expectedTranslated : List String := [
  "fp.Seq.Add", "fp.Seq.Append", "fp.Seq.Concat", "fp.Seq.Drop", "fp.Seq.Exists", "fp.Seq.Filter", "fp.Seq.FilterNot",
  "fp.Seq.Find", "fp.Seq.FlatMap", "fp.Seq.ForAll", "fp.Seq.Foreach", "fp.Seq.Get", "fp.Seq.Head", "fp.Seq.Init",
  "fp.Seq.IsEmpty", "fp.Seq.Last", "fp.Seq.Map", "fp.Seq.NonEmpty", "fp.Seq.Reverse", "fp.Seq.Size", "fp.Seq.Tail",
  "fp.Seq.Take", "fp.Seq.UnSeq", "fp.Seq.Widen", "seq.Ap", "seq.Compose", "seq.ComposePure", "seq.Concat", "seq.Empty",
  "seq.FilterMap", "seq.FlatMap", "seq.Flatten", "seq.Fold", "seq.FoldError", "seq.FoldMap", "seq.FoldOption",
  "seq.FoldRight", "seq.FoldTry", "seq.Head", "seq.Init", "seq.Last", "seq.Lift", "seq.LiftM", "seq.Map", "seq.Map2",
  "seq.Max", "seq.Min", "seq.Of", "seq.Partition", "seq.Pure", "seq.Reduce", "seq.Scan", "seq.Size", "seq.Span",
  "seq.Tail", "seq.Zip", "seq.ZipWithIndex"]

/-- the translator translated exactly the functions the theorems of `Spec/C12SeqGen.lean` speak about -/
theorem translated_as_expected : translated = expectedTranslated := by decide

/-- … and what it left out is exactly the listed exceptions -/
theorem exceptions_as_expected : untranslated.map Prod.fst = exceptions.map Prod.fst := by decide

/-- coverage: the translator's lists are one list split by a flag — every exported function found in the two files is
    EITHER translated OR untranslated (= a listed exception), never both -/
theorem coverage_found : found = foundFlags.map Prod.fst := by decide

theorem coverage_translated : translated = (foundFlags.filter fun p => p.2).map Prod.fst := by decide

theorem coverage_untranslated : untranslated.map Prod.fst = (foundFlags.filter fun p => !p.2).map Prod.fst := by decide

theorem coverage_count : found.length = expectedTranslated.length + exceptions.length := by decide

end FpVerif.Spec.SeqGenCover
