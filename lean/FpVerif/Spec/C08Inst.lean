import FpVerif.Spec.C08
import FpVerif.Lemmas.DeriveInst
import FpVerif.Lemmas.DeriveFuel
/-!
# C08 — the concrete component instances satisfy the law bundles (non-vacuity made concrete)

`Spec/C08.lean` proves: *if* the components `ds` of a derived instance are lawful, the derived
instance is lawful and field-wise.  The oracle `oracle_derive` runs `derivedEqG` … on the concrete
dictionaries `Inst.eq / Inst.ord / Inst.hash / Inst.monoid / Inst.clone` of `Model/DeriveInst.lean`
(primitive instances of the packages eq/ord/hash/monoid/clone, the local overriding instances and
the instances of package `dep` the grammar emits, `Option`/`Seq`/`Slice`/`Ptr`/`GoMap`/`Tuple2`
combinators, derived instances of nested structs, the recursive reference, parameter dictionaries).
This file proves that EVERY well-formed instance expression denotes a lawful component, and hence
that the instance of every declaration the oracle evaluates (`Decl.eqInst` …, every unfolding depth)
is lawful: the general theorems instantiate to the concrete oracle dictionaries.
-/
namespace FpVerif.Spec.C08Inst
open FpVerif.Rec FpVerif.Derive FpVerif.Spec.C08

/-! ## Eq -/

theorem primEq_lawful (n : String) : LawfulEq ((primEq? n).getD EqD.trivial) := by
  unfold primEq?
  split <;> simp only [Option.getD_some, Option.getD_none]
  all_goals first
    | exact eqInt_lawful | exact eqStr_lawful | exact eqBool_lawful | exact eqMod10_lawful
    | exact eqMoney100_lawful | exact eqMoney7_lawful | exact eqTrivial_lawful

/-- the derived `Eq` of a nested struct is a lawful component -/
theorem eqRec_lawful (s : StructSpec) (ds : List (EqD DV)) (h : ∀ d ∈ ds, LawfulEq d)
    (hd : ds.length = s.nApp) : LawfulEq (eqRec s ds) :=
  (derivedEq_lawful s ds h hd).comap _ fun v _ => DV.asN_length _ v

mutual
  /-- every well-formed instance expression denotes an equivalence relation (in a lawful environment) -/
  theorem eq_lawful (env : Env (EqD DV)) (hs : LawfulEq env.self) (hp : ∀ n, LawfulEq (env.param n)) :
      (i : Inst) → i.WF → LawfulEq (i.eq env)
    | .prim n, _ => by simpa [Inst.eq] using primEq_lawful n
    | .option i, h => by simpa [Inst.eq] using eqOption_lawful (eq_lawful env hs hp i h)
    | .seq i, h => by simpa [Inst.eq] using eqSeq_lawful (eq_lawful env hs hp i h)
    | .slice i, h => by simpa [Inst.eq] using eqSlice_lawful (eq_lawful env hs hp i h)
    | .ptr i, h => by simpa [Inst.eq] using eqPtr_lawful (eq_lawful env hs hp i h)
    | .gomap i, h => by simpa [Inst.eq] using eqGoMap_lawful (eq_lawful env hs hp i h)
    | .tuple2 a b, h => by
      simpa [Inst.eq] using eqTuple2_lawful (eq_lawful env hs hp a h.1) (eq_lawful env hs hp b h.2)
    | .struct s is, h => by
      simpa [Inst.eq] using eqRec_lawful s _ (eqs_lawful env hs hp is h.2)
        (by rw [eqs_length]; exact h.1)
    | .self, _ => by simpa [Inst.eq] using hs
    | .tparam n, _ => by simpa [Inst.eq] using hp n
  theorem eqs_lawful (env : Env (EqD DV)) (hs : LawfulEq env.self) (hp : ∀ n, LawfulEq (env.param n)) :
      (is : List Inst) → Inst.WFs is → ∀ d ∈ Inst.eqs env is, LawfulEq d
    | [], _ => by simp [Inst.eqs]
    | i :: is, h => by
      intro d hd
      simp only [Inst.eqs, List.mem_cons] at hd
      rcases hd with rfl | hd
      · exact eq_lawful env hs hp i h.1
      · exact eqs_lawful env hs hp is h.2 d hd
end

/-- The `Eq` instance the oracle evaluates for a declaration — at every unfolding depth of a
    recursive type — is an equivalence relation on the values of the struct. -/
theorem eqInst_lawful (d : Decl) (wf : d.WF) :
    ∀ fuel, LawfulEqOn (WFG d.spec) (d.eqInst fuel)
  | 0 => ⟨fun _ _ => rfl, fun _ _ _ _ _ => rfl, fun _ _ _ _ _ _ _ _ => rfl⟩
  | fuel + 1 => by
    have hs : LawfulEq ((d.eqInst fuel).comap (DV.asN d.spec.fields.length)) :=
      (eqInst_lawful d wf fuel).comap _ fun v _ => DV.asN_length _ v
    have hpd : ∀ n, LawfulEq ((d.paramInst n).eq ⟨_, fun _ => EqD.trivial⟩) := fun n =>
      eq_lawful _ hs (fun _ => eqTrivial_lawful) _ (paramInst_WF d wf n)
    simp only [Decl.eqInst, derivedEqG]
    exact derivedEq_lawful _ _
      (components_all LawfulEq _ _ _ _
        (fun t => eq_lawful _ hs hpd _ (givenInst_WF d wf t)) hpd)
      (components_length _ _ _ _)

/-- … and is the conjunction of the component equalities (`derivedEq_iff_fields` at the oracle's
    component list).  (Existential form kept for compatibility; the statement that names the
    component of every field is `eqInst_fieldwise_real` / `eqInst_structural` below.) -/
theorem eqInst_fieldwise (d : Decl) (fuel : Nat) :
    ∃ ds : List (EqD DV), ds.length = d.spec.nApp ∧ d.eqInst (fuel + 1) = derivedEq d.spec ds :=
  ⟨_, components_length _ _ _ _, rfl⟩

/-! ## Hashable -/

theorem primHash_lawful (n : String) : LawfulHash ((primHash? n).getD HashD.trivial) := by
  unfold primHash?
  split <;> simp only [Option.getD_some, Option.getD_none]
  all_goals first
    | exact hashNumber_lawful | exact hashStr_lawful | exact hashMod10_lawful
    | exact hashMoney100_lawful | exact hashTrivial_lawful

theorem hashRec_lawful (s : StructSpec) (ds : List (HashD DV)) (h : ∀ d ∈ ds, LawfulHash d)
    (hd : ds.length = s.nApp) : LawfulHash (hashRec s ds) :=
  (derivedHash_lawful s ds h hd).comap _ fun v _ => DV.asN_length _ v

mutual
  /-- every well-formed instance expression denotes a `Hashable` that agrees with its `Eqv` -/
  theorem hash_lawful (env : Env (HashD DV)) (hs : LawfulHash env.self)
      (hp : ∀ n, LawfulHash (env.param n)) : (i : Inst) → i.WF → LawfulHash (i.hash env)
    | .prim n, _ => by simpa [Inst.hash] using primHash_lawful n
    | .option i, h => by simpa [Inst.hash] using hashOption_lawful (hash_lawful env hs hp i h)
    | .seq i, h => by simpa [Inst.hash] using hashSeq_lawful (hash_lawful env hs hp i h)
    | .slice i, h => by simpa [Inst.hash] using hashSlice_lawful (hash_lawful env hs hp i h)
    | .ptr i, h => by simpa [Inst.hash] using hashPtr_lawful (hash_lawful env hs hp i h)
    | .gomap _, _ => by simpa [Inst.hash] using hashTrivial_lawful
    | .tuple2 a b, h => by
      simpa [Inst.hash] using
        hashTuple2_lawful (hash_lawful env hs hp a h.1) (hash_lawful env hs hp b h.2)
    | .struct s is, h => by
      simpa [Inst.hash] using hashRec_lawful s _ (hashes_lawful env hs hp is h.2)
        (by rw [hashes_length]; exact h.1)
    | .self, _ => by simpa [Inst.hash] using hs
    | .tparam n, _ => by simpa [Inst.hash] using hp n
  theorem hashes_lawful (env : Env (HashD DV)) (hs : LawfulHash env.self)
      (hp : ∀ n, LawfulHash (env.param n)) :
      (is : List Inst) → Inst.WFs is → ∀ d ∈ Inst.hashes env is, LawfulHash d
    | [], _ => by simp [Inst.hashes]
    | i :: is, h => by
      intro d hd
      simp only [Inst.hashes, List.mem_cons] at hd
      rcases hd with rfl | hd
      · exact hash_lawful env hs hp i h.1
      · exact hashes_lawful env hs hp is h.2 d hd
end

/-- The `Hashable` instance the oracle evaluates for a declaration agrees with its `Eqv`. -/
theorem hashInst_lawful (d : Decl) (wf : d.WF) :
    ∀ fuel, LawfulHashOn (WFG d.spec) (d.hashInst fuel)
  | 0 => ⟨fun _ _ _ _ _ => rfl⟩
  | fuel + 1 => by
    have hs : LawfulHash ((d.hashInst fuel).comap (DV.asN d.spec.fields.length)) :=
      (hashInst_lawful d wf fuel).comap _ fun v _ => DV.asN_length _ v
    have hpd : ∀ n, LawfulHash ((d.paramInst n).hash ⟨_, fun _ => HashD.trivial⟩) := fun n =>
      hash_lawful _ hs (fun _ => hashTrivial_lawful) _ (paramInst_WF d wf n)
    simp only [Decl.hashInst, derivedHashG]
    exact derivedHash_lawful _ _
      (components_all LawfulHash _ _ _ _
        (fun t => hash_lawful _ hs hpd _ (givenInst_WF d wf t)) hpd)
      (components_length _ _ _ _)

/-! ## Ord -/

theorem primOrd_lawful (n : String) : LawfulOrd ((primOrd? n).getD OrdD.trivial) := by
  unfold primOrd?
  split <;> simp only [Option.getD_some, Option.getD_none]
  all_goals first
    | exact ordInt_lawful | exact ordStr_lawful | exact ordMod10_lawful
    | exact ordMoney100_lawful | exact ordTrivial_lawful

theorem ordRec_lawful (s : StructSpec) (ds : List (OrdD DV)) (h : ∀ d ∈ ds, LawfulOrd d)
    (hd : ds.length = s.nApp) : LawfulOrd (ordRec s ds) :=
  (derivedOrd_lawful s ds h hd).comap _ fun v _ => DV.asN_length _ v

mutual
  /-- every well-formed instance expression denotes a lawful order (irreflexive, transitive,
      `Eqv` = "neither is less", `Eqv` transitive) — `ord.Seq` / `ord.Slice` included -/
  theorem ord_lawful (env : Env (OrdD DV)) (hs : LawfulOrd env.self)
      (hp : ∀ n, LawfulOrd (env.param n)) : (i : Inst) → i.WF → LawfulOrd (i.ord env)
    | .prim n, _ => by simpa [Inst.ord] using primOrd_lawful n
    | .option i, h => by simpa [Inst.ord] using ordOption_lawful (ord_lawful env hs hp i h)
    | .seq i, h => by simpa [Inst.ord] using ordSeq_lawful (ord_lawful env hs hp i h)
    | .slice i, h => by simpa [Inst.ord] using ordSlice_lawful (ord_lawful env hs hp i h)
    | .ptr i, h => by simpa [Inst.ord] using ordPtr_lawful (ord_lawful env hs hp i h)
    | .gomap _, _ => by simpa [Inst.ord] using ordTrivial_lawful
    | .tuple2 a b, h => by
      simpa [Inst.ord] using
        ordTuple2_lawful (ord_lawful env hs hp a h.1) (ord_lawful env hs hp b h.2)
    | .struct s is, h => by
      simpa [Inst.ord] using ordRec_lawful s _ (ords_lawful env hs hp is h.2)
        (by rw [ords_length]; exact h.1)
    | .self, _ => by simpa [Inst.ord] using hs
    | .tparam n, _ => by simpa [Inst.ord] using hp n
  theorem ords_lawful (env : Env (OrdD DV)) (hs : LawfulOrd env.self)
      (hp : ∀ n, LawfulOrd (env.param n)) :
      (is : List Inst) → Inst.WFs is → ∀ d ∈ Inst.ords env is, LawfulOrd d
    | [], _ => by simp [Inst.ords]
    | i :: is, h => by
      intro d hd
      simp only [Inst.ords, List.mem_cons] at hd
      rcases hd with rfl | hd
      · exact ord_lawful env hs hp i h.1
      · exact ords_lawful env hs hp is h.2 d hd
end

/-- The `Ord` instance the oracle evaluates for a declaration is a lawful order on the values of
    the struct … -/
theorem ordInst_lawful (d : Decl) (wf : d.WF) :
    ∀ fuel, LawfulOrdOn (WFG d.spec) (d.ordInst fuel)
  | 0 => ⟨fun _ _ => rfl, fun _ _ _ _ _ _ h => by simp [Decl.ordInst] at h,
      fun _ _ _ _ => by simp [Decl.ordInst], fun _ _ _ _ _ _ _ _ => rfl⟩
  | fuel + 1 => by
    have hs : LawfulOrd ((d.ordInst fuel).comap (DV.asN d.spec.fields.length)) :=
      (ordInst_lawful d wf fuel).comap _ fun v _ => DV.asN_length _ v
    have hpd : ∀ n, LawfulOrd ((d.paramInst n).ord ⟨_, fun _ => OrdD.trivial⟩) := fun n =>
      ord_lawful _ hs (fun _ => ordTrivial_lawful) _ (paramInst_WF d wf n)
    simp only [Decl.ordInst, derivedOrdG]
    exact derivedOrd_lawful _ _
      (components_all LawfulOrd _ _ _ _
        (fun t => ord_lawful _ hs hpd _ (givenInst_WF d wf t)) hpd)
      (components_length _ _ _ _)

/-- … namely the lexicographic order of the applicable fields, compared with the components the
    expressions denote (`derivedOrd_less_iff_lex` applies: every component is `OrdCompat`). -/
theorem ordInst_components_compat (d : Decl) (wf : d.WF) (fuel : Nat) :
    ∃ ds : List (OrdD DV), ds.length = d.spec.nApp ∧ (∀ c ∈ ds, OrdCompat c) ∧
      d.ordInst (fuel + 1) = derivedOrd d.spec ds := by
  have hs : LawfulOrd ((d.ordInst fuel).comap (DV.asN d.spec.fields.length)) :=
    (ordInst_lawful d wf fuel).comap _ fun v _ => DV.asN_length _ v
  have hpd : ∀ n, LawfulOrd ((d.paramInst n).ord ⟨_, fun _ => OrdD.trivial⟩) := fun n =>
    ord_lawful _ hs (fun _ => ordTrivial_lawful) _ (paramInst_WF d wf n)
  refine ⟨_, components_length _ _ _ _, ?_, rfl⟩
  exact components_all OrdCompat _ _ _ _
    (fun t => (ord_lawful _ hs hpd _ (givenInst_WF d wf t)).compat) (fun n => (hpd n).compat)

/-! ## Monoid

Lawful on the carrier of the expression (`Inst.carrier`: the values of the field type).  Excluded
(empty carrier): `monoid.MergeGoMap` (laws up to map content: C11), `monoid.Ptr` and the recursive
reference (the grammar derives no `Monoid` for them). -/

theorem primMonoidTable_lawful (n : String) :
    ∀ p, primMonoidTable n = some p → LawfulMonoidOn p.2 p.1 := by
  unfold primMonoidTable
  split <;> intro p hp <;> simp only [Option.some.injEq, reduceCtorEq] at hp <;> subst hp
  all_goals first
    | exact monoidProduct_lawful _ | exact monoidSum_lawful _ | exact monoidStr_lawful
    | exact monoidMerge_lawful | exact monoid_vacuous _

theorem primMonoid_lawful (n : String) :
    LawfulMonoidOn (primCarrier n) ((primMonoid? n).getD MonoidD.trivial) := by
  unfold primCarrier primMonoid?
  cases h : primMonoidTable n with
  | none => exact monoid_vacuous _
  | some p => exact primMonoidTable_lawful n p h

/-- the derived `Monoid` of a nested struct (all of whose fields are applicable) is a lawful
    component on the struct's values -/
theorem monoidRec_lawful (s : StructSpec) (ds : List (MonoidD DV)) (Ps : List (DV → Prop))
    (h : LawfulMonoids ds Ps) (hd : ds.length = s.nApp)
    (happ : ∀ f ∈ s.fields, f.applicable = true) :
    LawfulMonoidOn (fun v => ∃ vs, v = .record vs ∧ vs.length = s.fields.length ∧
        InCarriers Ps (unapplyG s vs)) (monoidRec s (nestedZero s) ds) := by
  have hz := nestedZero_WFG s
  have he : (derivedMonoid s (nestedZero s) ds).empty.length = s.fields.length :=
    fromZero_WFG s _ _ hz
  have hc : ∀ a b, ((derivedMonoid s (nestedZero s) ds).combine a b).length = s.fields.length :=
    fun a b => combine_WF s _ ds a b hz
  refine ⟨fun v pv => ?_, fun v pv => ?_, fun u v w pu pv pw => ?_⟩
  · obtain ⟨vs, rfl, hl, hcar⟩ := pv
    simp only [monoidRec, asN_record _ _ he, asN_record _ _ hl]
    rw [combine_left_id_all_applicable s _ ds Ps h hz hd vs hl hcar happ]
  · obtain ⟨vs, rfl, hl, hcar⟩ := pv
    simp only [monoidRec, asN_record _ _ he, asN_record _ _ hl]
    rw [combine_right_id_all_applicable s _ ds Ps h hz hd vs hl hcar happ]
  · obtain ⟨us, rfl, hu, cu⟩ := pu
    obtain ⟨vs, rfl, hv, cv⟩ := pv
    obtain ⟨ws, rfl, hw, cw⟩ := pw
    simp only [monoidRec, asN_record _ _ hu, asN_record _ _ hv, asN_record _ _ hw,
      asN_record _ _ (hc _ _)]
    rw [combine_assoc s _ ds Ps h hz hd us vs ws hu hv hw cu cv cw]

mutual
  /-- every instance expression denotes a monoid that is lawful on the carrier of the expression -/
  theorem monoid_lawful (env : Env (MonoidD DV)) (penv : String → DV → Prop)
      (hp : ∀ n, LawfulMonoidOn (penv n) (env.param n)) :
      (i : Inst) → i.WFm → LawfulMonoidOn (i.carrier penv) (i.monoid env)
    | .prim n, _ => by simpa [Inst.monoid, Inst.carrier] using primMonoid_lawful n
    | .option i, h => by
      simpa [Inst.monoid, Inst.carrier] using monoidOption_lawful (monoid_lawful env penv hp i h)
    | .seq _, _ => by simpa [Inst.monoid, Inst.carrier] using monoidMerge_lawful
    | .slice _, _ => by simpa [Inst.monoid, Inst.carrier] using monoidMerge_lawful
    | .ptr _, _ => by simpa [Inst.monoid, Inst.carrier] using monoid_vacuous _
    | .gomap _, _ => by simpa [Inst.monoid, Inst.carrier] using monoid_vacuous _
    | .tuple2 a b, h => by
      simpa [Inst.monoid, Inst.carrier] using
        monoidTuple2_lawful (monoid_lawful env penv hp a h.1) (monoid_lawful env penv hp b h.2)
    | .struct s is, h => by
      simpa [Inst.monoid, Inst.carrier] using
        monoidRec_lawful s _ _ (monoids_lawful env penv hp is h.2.2)
          (by rw [monoids_length]; exact h.1) h.2.1
    | .self, _ => by simpa [Inst.monoid, Inst.carrier] using monoid_vacuous _
    | .tparam n, _ => by simpa [Inst.monoid, Inst.carrier] using hp n
  theorem monoids_lawful (env : Env (MonoidD DV)) (penv : String → DV → Prop)
      (hp : ∀ n, LawfulMonoidOn (penv n) (env.param n)) :
      (is : List Inst) → Inst.WFms is →
        LawfulMonoids (Inst.monoids env is) (Inst.carriers penv is)
    | [], _ => by
      simpa [Inst.monoids, Inst.carriers] using Forall2.nil (R := fun d P => LawfulMonoidOn P d)
    | i :: is, h => by
      simpa [Inst.monoids, Inst.carriers] using
        Forall2.cons (R := fun d P => LawfulMonoidOn P d) (monoid_lawful env penv hp i h.1)
          (monoids_lawful env penv hp is h.2)
end

/-- the carriers of the components of a declaration's `Monoid` instance -/
def monoidCarriers (d : Decl) : List (DV → Prop) :=
  let penv : String → DV → Prop := fun n => (d.paramInst n).carrier fun _ _ => False
  components d.spec d.params (fun t => (d.givenInst t).carrier penv) penv

/-- The `Monoid` instance the oracle evaluates for a declaration is a lawful monoid on the values
    it produces (non-applicable fields zero) whose applicable fields lie in the carriers of their
    component expressions; `Combine(Empty, a)` is `a` with the non-applicable fields reset
    (`combine_left_id` applies with these carriers). -/
theorem monoidInst_lawful (d : Decl) (hi : Inst.WFms d.insts) (hpi : Inst.WFms (d.pinsts.map (·.2)))
    (zero : List DV) (hz : WFG d.spec zero) :
    LawfulMonoidOn
      (fun a => WFG d.spec a ∧ maskG d.spec.fields zero a = a ∧
        InCarriers (monoidCarriers d) (unapplyG d.spec a))
      (d.monoidInst zero) := by
  have wg : ∀ t, (d.givenInst t).WFm := by
    intro t
    unfold Decl.givenInst
    split
    · rename_i p hp
      exact WFms_mem hi (List.of_mem_zip (List.mem_of_find?_eq_some hp)).2
    · simp [Inst.WFm]
  have wp : ∀ n, (d.paramInst n).WFm := by
    intro n
    unfold Decl.paramInst
    split
    · rename_i p hp
      exact WFms_mem hpi (List.mem_map.2 ⟨p, List.mem_of_find?_eq_some hp, rfl⟩)
    · simp [Inst.WFm]
  have hpd : ∀ n, LawfulMonoidOn ((d.paramInst n).carrier fun _ _ => False)
      ((d.paramInst n).monoid ⟨MonoidD.trivial, fun _ => MonoidD.trivial⟩) := fun n =>
    monoid_lawful _ _ (fun _ => monoid_vacuous _) _ (wp n)
  simp only [Decl.monoidInst, derivedMonoidG]
  exact derivedMonoid_lawful d.spec zero _ (monoidCarriers d)
    (components_forall2 (fun m P => LawfulMonoidOn P m) _ _ _ _ _ _
      (fun t => monoid_lawful _ _ hpd _ (wg t)) hpd)
    hz (components_length _ _ _ _)

/-! ## Clone

`CloneOK d v` = at the value `v` the clone `d` returns an equal copy all of whose storage is fresh
and pairwise distinct.  Every instance expression denotes such a clone at every value of its shape
(`Inst.shape`: the heap values of the field type). -/

/-- the derived `Clone` of a nested struct all of whose fields are applicable, at a struct value -/
theorem cloneRec_ok (s : StructSpec) (ds : List (CloneD HV)) (vs : List HV)
    (hl : vs.length = s.fields.length) (happ : ∀ f ∈ s.fields, f.applicable = true)
    (h : Forall2 CloneOK ds (projectG s.fields vs)) : CloneOK (cloneRec s ds) (spine vs) := by
  have K := derivedClone_ok s ds vs hl h
  refine cloneOK_of_run fun n => ?_
  have run : runAlloc ((cloneRec s ds).clone (spine vs)) n =
      (spine (runAlloc ((derivedClone s ds).clone vs) n).1,
        (runAlloc ((derivedClone s ds).clone vs) n).2) := by
    simp only [cloneRec, unspine_spine]
    rfl
  rw [run]
  have hR : (runAlloc ((derivedClone s ds).clone vs) n).1.length = s.fields.length := by
    show (injectG s.fields (zeroH s) _).length = _
    simp [injectG_length, zeroH]
  refine ⟨?_, K.mono n, ?_⟩
  · rw [spine_same]
    have := K.same n
    rwa [projectG_all_applicable _ _ hR happ, projectG_all_applicable _ _ hl happ] at this
  · rw [spine_addrs]
    exact ⟨K.fresh n, K.nodup n⟩

mutual
  /-- every instance expression denotes a lawful clone at every value of its shape -/
  theorem clone_ok (env : Env (CloneD HV)) (senv : String → HV → Prop) (self : HV → Prop)
      (hs : ∀ v, self v → CloneOK env.self v) (hp : ∀ n v, senv n v → CloneOK (env.param n) v) :
      (i : Inst) → i.WFm → ∀ v, i.shape senv self v → CloneOK (i.clone env) v
    | .prim n, _, v, hv => by
      simp only [Inst.clone, primClone_given]
      exact given_ok v (by simpa [Inst.shape] using hv)
    | .option i, h, v, hv => by
      simp only [Inst.clone]
      simp only [Inst.shape] at hv
      rcases hv with ⟨t, rfl⟩ | ⟨w, rfl, hw⟩
      · exact pure_ok_leaf _ t fun n => rfl
      · exact cloneOption_ok (clone_ok env senv self hs hp i h w hw)
    | .seq i, h, v, hv => by
      simp only [Inst.clone, cloneSlice, sliceClone]
      simp only [Inst.shape] at hv
      rcases hv with ⟨t, rfl⟩ | ⟨a, sp, rfl, hsp⟩
      · exact ptrCloneDeep_ok_nil _ t
      · exact ptrCloneDeep_ok _ a sp
          (spineClone_ok (fun w pw => clone_ok env senv self hs hp i h w pw) hsp)
    | .slice i, h, v, hv => by
      simp only [Inst.clone, cloneSlice, sliceClone]
      simp only [Inst.shape] at hv
      rcases hv with ⟨t, rfl⟩ | ⟨a, sp, rfl, hsp⟩
      · exact ptrCloneDeep_ok_nil _ t
      · exact ptrCloneDeep_ok _ a sp
          (spineClone_ok (fun w pw => clone_ok env senv self hs hp i h w pw) hsp)
    | .ptr i, h, v, hv => by
      simp only [Inst.clone]
      simp only [Inst.shape] at hv
      rcases hv with ⟨t, rfl⟩ | ⟨a, w, rfl, hw⟩
      · exact ptrCloneDeep_ok_nil _ t
      · exact ptrCloneDeep_ok _ a w (clone_ok env senv self hs hp i h w hw)
    | .gomap i, h, v, hv => by
      simp only [Inst.clone, cloneGoMap, sliceClone]
      simp only [Inst.shape] at hv
      rcases hv with ⟨t, rfl⟩ | ⟨a, sp, rfl, hsp⟩
      · exact ptrCloneDeep_ok_nil _ t
      · exact ptrCloneDeep_ok _ a sp
          (spineClone_ok
            (fun e he => cloneEntry_ok (fun k hk => given_ok k hk)
              (fun w pw => clone_ok env senv self hs hp i h w pw) e he) hsp)
    | .tuple2 a b, h, v, hv => by
      simp only [Inst.clone]
      simp only [Inst.shape] at hv
      obtain ⟨x, y, rfl, hx, hy⟩ := hv
      exact spineTuple_ok _ [a.clone env, b.clone env] [x, y]
        (.cons (clone_ok env senv self hs hp a h.1 x hx)
          (.cons (clone_ok env senv self hs hp b h.2 y hy) .nil))
        (fun n => by simp only [cloneTuple2, unspine_spine]; rfl)
    | .struct s is, h, v, hv => by
      simp only [Inst.clone]
      simp only [Inst.shape] at hv
      obtain ⟨vs, rfl, hl, hc⟩ := hv
      exact cloneRec_ok s _ vs hl h.2.1 (clones_ok env senv self hs hp is h.2.2 _ hc)
    | .self, _, v, hv => by
      simp only [Inst.clone]
      exact hs v (by simpa [Inst.shape] using hv)
    | .tparam n, _, v, hv => by
      simp only [Inst.clone]
      exact hp n v (by simpa [Inst.shape] using hv)
  theorem clones_ok (env : Env (CloneD HV)) (senv : String → HV → Prop) (self : HV → Prop)
      (hs : ∀ v, self v → CloneOK env.self v) (hp : ∀ n v, senv n v → CloneOK (env.param n) v) :
      (is : List Inst) → Inst.WFms is → ∀ vs, InCarriers (Inst.shapes senv self is) vs →
        Forall2 CloneOK (Inst.clones env is) vs
    | [], _, vs, hv => by
      simp only [Inst.shapes] at hv
      cases hv
      simpa [Inst.clones] using Forall2.nil (R := CloneOK)
    | i :: is, h, vs, hv => by
      simp only [Inst.shapes] at hv
      cases hv with
      | cons pv hrest =>
        simpa [Inst.clones] using
          Forall2.cons (R := CloneOK) (clone_ok env senv self hs hp i h.1 _ pv)
            (clones_ok env senv self hs hp is h.2 _ hrest)
end

/-- the shapes of the components of a declaration's `Clone` instance, when the values behind a
    recursive reference satisfy `S` -/
def cloneShapes (d : Decl) (S : HV → Prop) : List (HV → Prop) :=
  let penv : String → HV → Prop := fun n => (d.paramInst n).shape (fun _ _ => False) S
  components d.spec d.params (fun t => (d.givenInst t).shape penv S) penv

/-- values of the (possibly recursive) struct whose recursive references nest at most `k` deep -/
def selfShape (d : Decl) : Nat → HV → Prop
  | 0 => fun _ => False
  | k + 1 => fun v => ∃ vs, v = spine vs ∧ vs.length = d.spec.fields.length ∧
      InCarriers (cloneShapes d (selfShape d k)) (projectG d.spec.fields vs)

/-- component-wise: the clone of every component is lawful on the shape of that component -/
theorem components_clone_ok (d : Decl) (hi : Inst.WFms d.insts)
    (hpi : Inst.WFms (d.pinsts.map (·.2))) (selfC : CloneD HV) (S : HV → Prop)
    (hs : ∀ v, S v → CloneOK selfC v) (vs : List HV) (hc : InCarriers (cloneShapes d S) vs) :
    Forall2 CloneOK
      (components d.spec d.params
        (fun t => (d.givenInst t).clone
          ⟨selfC, fun n => (d.paramInst n).clone ⟨selfC, fun _ => CloneD.given⟩⟩)
        (fun n => (d.paramInst n).clone ⟨selfC, fun _ => CloneD.given⟩)) vs := by
  have hpar : ∀ n v, (d.paramInst n).shape (fun _ _ => False) S v →
      CloneOK ((d.paramInst n).clone ⟨selfC, fun _ => CloneD.given⟩) v := fun n v hv =>
    clone_ok _ _ S hs (fun _ _ h => h.elim) _ (paramInst_WFm d hpi n) v hv
  unfold cloneShapes components at hc
  unfold components
  simp only at hc
  generalize d.spec.applicableFields = fs at hc ⊢
  induction fs generalizing vs with
  | nil => cases hc; exact .nil
  | cons f fs ih =>
    simp only [List.map_cons] at hc ⊢
    cases hc with
    | cons pv hrest =>
      refine .cons ?_ (ih _ hrest)
      cases hty : f.ty with
      | conc n =>
        by_cases hn : d.params.contains n = true
        · simp only [resolve, hty, hn, if_true] at pv ⊢
          exact hpar _ _ pv
        · simp only [resolve, hty, hn] at pv ⊢
          exact clone_ok _ _ S hs hpar _ (givenInst_WFm d hi _) _ pv
      | iface nm all impls =>
        simp only [resolve, hty] at pv ⊢
        exact clone_ok _ _ S hs hpar _ (givenInst_WFm d hi _) _ pv
      | opt e =>
        simp only [resolve, hty] at pv ⊢
        exact clone_ok _ _ S hs hpar _ (givenInst_WFm d hi _) _ pv

/-- one step: if the previous unfolding is a lawful clone on the values behind the recursive
    reference, this unfolding is a lawful clone of every struct value over them -/
theorem cloneInst_step (d : Decl) (hi : Inst.WFms d.insts) (hpi : Inst.WFms (d.pinsts.map (·.2)))
    (fuel : Nat) (S : HV → Prop)
    (hs : ∀ v, S v → CloneOK ⟨fun v => do
      let r ← (d.cloneInst fuel).clone (unspine v)
      pure (spine r)⟩ v)
    (x : HRec) (hx : x.length = d.spec.fields.length)
    (hc : InCarriers (cloneShapes d S) (projectG d.spec.fields x)) :
    CloneOKRec d.spec (d.cloneInst (fuel + 1)) x := by
  simp only [Decl.cloneInst]
  exact derivedClone_ok d.spec _ x hx (components_clone_ok d hi hpi _ S hs _ hc)

/-- The `Clone` instance the oracle evaluates for a NON-recursive declaration is an equal copy
    sharing no mutable storage at every value whose fields have the shapes of their components. -/
theorem cloneInst_ok (d : Decl) (hi : Inst.WFms d.insts) (hpi : Inst.WFms (d.pinsts.map (·.2)))
    (fuel : Nat) (x : HRec) (hx : x.length = d.spec.fields.length)
    (hc : InCarriers (cloneShapes d fun _ => False) (projectG d.spec.fields x)) :
    CloneOKRec d.spec (d.cloneInst (fuel + 1)) x :=
  cloneInst_step d hi hpi fuel _ (fun _ h => h.elim) x hx hc

/-- … and for a recursive declaration (all of whose fields are applicable): unfolding `k + 1` times
    clones every value whose recursive references nest at most `k` deep. -/
theorem cloneInst_ok_rec (d : Decl) (hi : Inst.WFms d.insts) (hpi : Inst.WFms (d.pinsts.map (·.2)))
    (happ : ∀ f ∈ d.spec.fields, f.applicable = true) :
    ∀ k (x : HRec), x.length = d.spec.fields.length →
      InCarriers (cloneShapes d (selfShape d k)) (projectG d.spec.fields x) →
      CloneOKRec d.spec (d.cloneInst (k + 1)) x
  | 0, x, hx, hc => cloneInst_step d hi hpi 0 _ (fun _ h => h.elim) x hx hc
  | k + 1, x, hx, hc => by
    refine cloneInst_step d hi hpi (k + 1) _ ?_ x hx hc
    intro v hv
    obtain ⟨vs, rfl, hl, hcs⟩ := hv
    have K := cloneInst_ok_rec d hi hpi happ k vs hl hcs
    refine cloneOK_of_run fun n => ?_
    have run : runAlloc ((⟨fun v => do
          let r ← (d.cloneInst (k + 1)).clone (unspine v)
          pure (spine r)⟩ : CloneD HV).clone (spine vs)) n =
        (spine (runAlloc ((d.cloneInst (k + 1)).clone vs) n).1,
          (runAlloc ((d.cloneInst (k + 1)).clone vs) n).2) := by
      simp only [unspine_spine]
      rfl
    rw [run]
    have hR : (runAlloc ((d.cloneInst (k + 1)).clone vs) n).1.length = d.spec.fields.length := by
      show (injectG d.spec.fields (zeroH d.spec) _).length = _
      simp [injectG_length, zeroH]
    refine ⟨?_, K.mono n, ?_⟩
    · rw [spine_same]
      have := K.same n
      rwa [projectG_all_applicable _ _ hR happ, projectG_all_applicable _ _ hl happ] at this
    · rw [spine_addrs]
      exact ⟨K.fresh n, K.nodup n⟩

/-! ## Fuel adequacy (audit finding 10)

`eqInst_lawful` & co. hold for EVERY fuel, including the degenerate fuel-0 instance (all values
equal), so by themselves they do not say that the oracle's fuel computes the real recursive
instance.  This section does: `d.depthLE k x` (`Lemmas/DeriveFuel.lean`) says that the recursive
references inside the struct value `x` nest less than `k` deep — defined by following exactly the
projections the instance expressions of the fields use (`Inst.within`); on such values EVERY
unfolding with at least `k` levels computes the same function, and that function satisfies the
recursive equation of the Go code `EqS = eq.ContraMap(eq.TupleN(d1..dn), S.AsTuple)` in which the
component behind `lazy.Call(func() fp.Eq[S] { return EqS() })` is the instance ITSELF
(`eqInst_structural`).  The oracle uses fuel 24 (`Oracle/Derive.lean: fuel`); the grammar's value
generator stops following recursive references at depth 3 (`harness/gombokgen/emit.go`:
`if r.Depth < 3`: at most three nested values of the recursive struct), far below 24, so 24 is
adequate for everything the harness sends (`oracle_fuel_adequate`). -/

/-- `Eq`: on values of depth `≤ k` the unfolding with `k + 1` levels and every deeper one agree. -/
theorem eqInst_fuel_adequate (d : Decl) (k j : Nat) (x y : List DV)
    (hx : d.depthLE (k + 1) x) (hy : d.depthLE (k + 1) y) :
    (d.eqInst (k + 1 + j)).eqv x y = (d.eqInst (k + 1)).eqv x y :=
  eqInst_agree d (k + 1) j x y hx hy

/-- `Ord`: the same for `Eqv` and `Less`. -/
theorem ordInst_fuel_adequate (d : Decl) (k j : Nat) (x y : List DV)
    (hx : d.depthLE (k + 1) x) (hy : d.depthLE (k + 1) y) :
    (d.ordInst (k + 1 + j)).eqv x y = (d.ordInst (k + 1)).eqv x y ∧
      (d.ordInst (k + 1 + j)).less x y = (d.ordInst (k + 1)).less x y :=
  ordInst_agree d (k + 1) j x y hx hy

/-- `Hashable`: the same for `Eqv` and `Hash`. -/
theorem hashInst_fuel_adequate (d : Decl) (k j : Nat) (x y : List DV)
    (hx : d.depthLE (k + 1) x) (hy : d.depthLE (k + 1) y) :
    (d.hashInst (k + 1 + j)).eqv x y = (d.hashInst (k + 1)).eqv x y ∧
      (d.hashInst (k + 1 + j)).hash x = (d.hashInst (k + 1)).hash x :=
  ⟨(hashInst_agree d (k + 1) j).1 x y hx hy, (hashInst_agree d (k + 1) j).2 x hx⟩

/-- Any two fuels above the depth of both values give the same answer (the values may have
    different depths: `depthLE` is monotone, `Decl.depthLE_mono`). -/
theorem eqInst_fuel_irrelevant (d : Decl) (k f1 f2 : Nat) (h1 : k ≤ f1) (h2 : k ≤ f2)
    (x y : List DV) (hx : d.depthLE k x) (hy : d.depthLE k y) :
    (d.eqInst f1).eqv x y = (d.eqInst f2).eqv x y := by
  obtain ⟨j1, rfl⟩ := Nat.exists_eq_add_of_le h1
  obtain ⟨j2, rfl⟩ := Nat.exists_eq_add_of_le h2
  rw [eqInst_agree d k j1 x y hx hy, eqInst_agree d k j2 x y hx hy]

theorem ordInst_fuel_irrelevant (d : Decl) (k f1 f2 : Nat) (h1 : k ≤ f1) (h2 : k ≤ f2)
    (x y : List DV) (hx : d.depthLE k x) (hy : d.depthLE k y) :
    (d.ordInst f1).eqv x y = (d.ordInst f2).eqv x y ∧
      (d.ordInst f1).less x y = (d.ordInst f2).less x y := by
  obtain ⟨j1, rfl⟩ := Nat.exists_eq_add_of_le h1
  obtain ⟨j2, rfl⟩ := Nat.exists_eq_add_of_le h2
  rw [(ordInst_agree d k j1 x y hx hy).1, (ordInst_agree d k j2 x y hx hy).1,
    (ordInst_agree d k j1 x y hx hy).2, (ordInst_agree d k j2 x y hx hy).2]
  exact ⟨rfl, rfl⟩

theorem hashInst_fuel_irrelevant (d : Decl) (k f1 f2 : Nat) (h1 : k ≤ f1) (h2 : k ≤ f2)
    (x y : List DV) (hx : d.depthLE k x) (hy : d.depthLE k y) :
    (d.hashInst f1).eqv x y = (d.hashInst f2).eqv x y ∧
      (d.hashInst f1).hash x = (d.hashInst f2).hash x := by
  obtain ⟨j1, rfl⟩ := Nat.exists_eq_add_of_le h1
  obtain ⟨j2, rfl⟩ := Nat.exists_eq_add_of_le h2
  rw [(hashInst_agree d k j1).1 x y hx hy, (hashInst_agree d k j2).1 x y hx hy,
    (hashInst_agree d k j1).2 x hx, (hashInst_agree d k j2).2 x hx]
  exact ⟨rfl, rfl⟩

/-- The oracle's fuel (24) answers like every deeper unfolding on all values whose recursive
    references nest less than 24 deep — in particular on everything the grammar generates. -/
theorem oracle_fuel_adequate (d : Decl) (x y : List DV) (hx : d.depthLE 24 x)
    (hy : d.depthLE 24 y) (j : Nat) :
    (d.eqInst (24 + j)).eqv x y = (d.eqInst 24).eqv x y ∧
      ((d.ordInst (24 + j)).eqv x y = (d.ordInst 24).eqv x y ∧
        (d.ordInst (24 + j)).less x y = (d.ordInst 24).less x y) ∧
      ((d.hashInst (24 + j)).eqv x y = (d.hashInst 24).eqv x y ∧
        (d.hashInst (24 + j)).hash x = (d.hashInst 24).hash x) :=
  ⟨eqInst_agree d 24 j x y hx hy, ordInst_agree d 24 j x y hx hy,
    (hashInst_agree d 24 j).1 x y hx hy, (hashInst_agree d 24 j).2 x hx⟩

/-- The component that compares field `f` in the unfolding `fuel + 1`: the dictionary of the type
    parameter when `f`'s type is one, else the denotation of the expression resolved for `f`'s
    type — in both the recursive reference is `eqInst fuel` (on the fields of the record value). -/
def eqField (d : Decl) (fuel : Nat) (f : Field) : EqD DV :=
  let self : EqD DV := (d.eqInst fuel).comap (DV.asN d.spec.fields.length)
  let pd : String → EqD DV := fun n => (d.paramInst n).eq ⟨self, fun _ => EqD.trivial⟩
  resolve d.params pd (fun t => (d.givenInst t).eq ⟨self, pd⟩) f

/-- which component compares which field: the component list of `eqInst (fuel + 1)` is `eqField`
    mapped over the applicable fields in declaration order -/
theorem eqInst_succ (d : Decl) (fuel : Nat) :
    d.eqInst (fuel + 1) = derivedEq d.spec (d.spec.applicableFields.map (eqField d fuel)) := rfl

/-- The real field-wise statement (replaces the existential `eqInst_fieldwise`): two values are
    `Eqv` iff for every applicable field — the `i`-th in declaration order — the two field values
    are `Eqv` under THAT field's component. -/
theorem eqInst_fieldwise_real (d : Decl) (fuel : Nat) (x y : List DV) (hx : WFG d.spec x)
    (hy : WFG d.spec y) :
    (d.eqInst (fuel + 1)).eqv x y = true ↔
      ∀ i (h : i < d.spec.nApp),
        (eqField d fuel (d.spec.applicableFields[i]'h)).eqv
          ((unapplyG d.spec x)[i]'(by rw [unapplyG_length d.spec x hx]; exact h))
          ((unapplyG d.spec y)[i]'(by rw [unapplyG_length d.spec y hy]; exact h)) = true := by
  rw [eqInst_succ, derivedEq_iff_fields d.spec _ x y hx hy (by simp [StructSpec.nApp])]
  simp only [List.getElem_map]
  exact Iff.rfl

/-- At adequate fuel the instance satisfies the recursive equation of the generated code: `E x y`
    iff every applicable field is `Eqv` under its component, where the component of a recursive
    reference is `E` ITSELF (same fuel on both sides; no fuel-0 degenerate instance is involved as
    soon as `1 ≤ k`, and for `k = 0` the hypothesis is empty). -/
theorem eqInst_structural (d : Decl) (k fuel : Nat) (hk : k ≤ fuel) (x y : List DV)
    (hx : WFG d.spec x) (hy : WFG d.spec y) (dx : d.depthLE k x) (dy : d.depthLE k y) :
    (d.eqInst fuel).eqv x y = true ↔
      ∀ i (h : i < d.spec.nApp),
        (eqField d fuel (d.spec.applicableFields[i]'h)).eqv
          ((unapplyG d.spec x)[i]'(by rw [unapplyG_length d.spec x hx]; exact h))
          ((unapplyG d.spec y)[i]'(by rw [unapplyG_length d.spec y hy]; exact h)) = true := by
  rw [eqInst_fuel_irrelevant d k fuel (fuel + 1) hk (by omega) x y dx dy]
  exact eqInst_fieldwise_real d fuel x y hx hy

/-! ## The hypotheses are satisfiable, the denotations compute -/

/-- `type S struct { a MyInt; _p int; b fp.Option[string]; next *S }` in a package with the local
    overriding `EqMyInt` (mod 10) -/
def sampleDecl : Decl where
  spec := { name := "S", fields := [{ name := "a", ty := .conc "MyInt" }, { name := "_p", ty := .conc "int" },
    { name := "b", ty := .conc "fp.Option[string]" }, { name := "next", ty := .conc "*S" }] }
  params := []
  insts := [.prim "EqMyInt", .option (.prim "eq.String"), .ptr .self]
  pinsts := []

example : sampleDecl.WF :=
  ⟨by decide +kernel, by simp [sampleDecl, Inst.WFs, Inst.WF], by simp [sampleDecl, Inst.WFs]⟩

/-- 13 and 3 are `Eqv` under the local mod-10 instance, `_p` is ignored, the pointees are compared
    through the recursive reference -/
example : (sampleDecl.eqInst 3).eqv
    [.int 13, .opaque "1", .some (.str [97]), .ptr (.record [.int 7, .opaque "5", .none, .nil])]
    [.int 3, .opaque "2", .some (.str [97]), .ptr (.record [.int 17, .opaque "6", .none, .nil])] = true := by
  decide +kernel

example : (sampleDecl.eqInst 3).eqv
    [.int 13, .opaque "1", .some (.str [97]), .ptr (.record [.int 7, .opaque "5", .none, .nil])]
    [.int 3, .opaque "2", .some (.str [97]), .ptr (.record [.int 18, .opaque "6", .none, .nil])] = false := by
  decide +kernel

/-- `hash.Tuple2`-style combination at the concrete primitive hashers: `Hash(a)*31 + Hash(b)` with
    `hash.Number` and FNV-1 -/
example : (derivedHash { name := "T", fields := [{ name := "a", ty := .conc "int" }, { name := "b", ty := .conc "string" }] }
      [hashNumber, hashStr]).hash [.int 1, .str [97, 98]] = 1886858583 := by
  decide +kernel

example : IntKind.i64.InRange (.int (-5)) := ⟨-5, rfl, by decide +kernel⟩
example : IntKind.u64.InRange (.int 18446744073709551615) := ⟨_, rfl, by decide +kernel⟩
/-- `monoid.Product[int8]`: 100 * 2 wraps to -56 -/
example : ((monoidProduct .i8).combine (.int 100) (.int 2)).asInt = -56 := by decide +kernel
example : Inst.WFm (.option (.prim "monoid.String")) := by simp [Inst.WFm]
example : (Inst.option (.prim "monoid.String")).carrier (fun _ _ => False) (.some (.str [1])) := by
  simp [Inst.carrier, primCarrier, primMonoidTable, DV.IsStr]

/-- the clone of `B{p: &A{"x", []string{"e"}}, n: 7}` through the expression gombok resolves
    (`clone.Ptr(lazy CloneA)`, `CloneA = Tuple2(Given, Slice(Given))`): all storage is new -/
example :
    let iA : Inst := .struct { name := "A", fields := [{ name := "name", ty := .conc "string" },
      { name := "sl", ty := .conc "[]string" }] } [.prim "clone.Given", .slice (.prim "clone.Given")]
    let dB : Decl := { spec := specB, params := [], insts := [.ptr iA, .prim "clone.Given"], pinsts := [] }
    (runAlloc ((dB.cloneInst 2).clone
        [.ref 0 (spine [.leaf "x", .ref 1 (spine [.leaf "e"])]), .leaf "7"]) 2).1 =
      [.ref 2 (spine [.leaf "x", .ref 3 (spine [.leaf "e"])]), .leaf "7"] := by
  decide +kernel

/-! ### Fuel adequacy: the hypotheses are satisfiable and needed -/

theorem sample_applicableFields :
    sampleDecl.spec.applicableFields = [{ name := "a", ty := .conc "MyInt" },
      { name := "b", ty := .conc "fp.Option[string]" }, { name := "next", ty := .conc "*S" }] := by
  have a1 : Field.applicable { name := "a", ty := .conc "MyInt" } = true := by decide +kernel
  have a2 : Field.applicable { name := "_p", ty := .conc "int" } = false := by decide +kernel
  have a3 : Field.applicable { name := "b", ty := .conc "fp.Option[string]" } = true := by
    decide +kernel
  have a4 : Field.applicable { name := "next", ty := .conc "*S" } = true := by decide +kernel
  simp [StructSpec.applicableFields, sampleDecl, List.filter, a1, a2, a3, a4]

/-- which expression compares which field of `S` (resolution by field type) -/
theorem sample_givenInst :
    sampleDecl.givenInst (.conc "MyInt") = .prim "EqMyInt" ∧
      sampleDecl.givenInst (.conc "fp.Option[string]") = .option (.prim "eq.String") ∧
      sampleDecl.givenInst (.conc "*S") = .ptr .self := by
  refine ⟨?_, ?_, ?_⟩ <;> simp [Decl.givenInst, sample_applicableFields] <;> simp [sampleDecl]

/-- every `S` value whose `next` is nil or points to an `S` whose `next` is nil has depth `≤ 2`
    (here: one concrete such value with a non-nil pointer, so `self` IS reached) -/
theorem sample_depthLE (a a' : Int) (p p' : String) (b b' : DV) :
    sampleDecl.depthLE 2 [.int a, .opaque p, b, .ptr (.record [.int a', .opaque p', b', .nil])] := by
  have hp : sampleDecl.params = [] := rfl
  have a1 : Field.applicable { name := "a", ty := .conc "MyInt" } = true := by decide +kernel
  have a2 : Field.applicable { name := "_p", ty := .conc "int" } = false := by decide +kernel
  have a3 : Field.applicable { name := "b", ty := .conc "fp.Option[string]" } = true := by
    decide +kernel
  have a4 : Field.applicable { name := "next", ty := .conc "*S" } = true := by decide +kernel
  have hf : sampleDecl.spec.fields = [{ name := "a", ty := .conc "MyInt" },
      { name := "_p", ty := .conc "int" }, { name := "b", ty := .conc "fp.Option[string]" },
      { name := "next", ty := .conc "*S" }] := rfl
  simp only [Decl.depthLE, Decl.withinFields, components, sample_applicableFields, List.map_cons,
    List.map_nil, resolve, hp, List.contains_nil, sample_givenInst.1, sample_givenInst.2.1,
    sample_givenInst.2.2, Inst.within, unapplyG, hf, projectG, a1, a2, a3, a4, if_true, DV.asPtr,
    DV.asOpt, Bool.false_eq_true, if_false]
  refine .cons trivial (.cons (fun _ _ => trivial) (.cons ?_ .nil))
  intro w hw
  cases hw
  simp only [DV.asN, List.length_cons, List.length_nil, if_true, projectG, a1, a2, a3, a4,
    Bool.false_eq_true, if_false]
  refine .cons trivial (.cons (fun _ _ => trivial) (.cons ?_ .nil))
  intro w hw
  cases hw

/-- … hence on these values the oracle's fuel-24 instance is the fuel-2 instance, and the latter
    really looks behind the pointer (`7` vs `18` differ mod 10) -/
example : (sampleDecl.eqInst 24).eqv
    [.int 13, .opaque "1", .some (.str [97]), .ptr (.record [.int 7, .opaque "5", .none, .nil])]
    [.int 3, .opaque "2", .some (.str [97]), .ptr (.record [.int 18, .opaque "6", .none, .nil])] = false := by
  rw [eqInst_fuel_irrelevant sampleDecl 2 24 2 (by omega) (by omega) _ _
    (sample_depthLE _ _ _ _ _ _) (sample_depthLE _ _ _ _ _ _)]
  decide +kernel

/-- the depth hypothesis cannot be dropped: with ONE unfolding the recursive reference is the
    degenerate all-equal instance and the same two values (depth 2) are wrongly `Eqv` -/
example : (sampleDecl.eqInst 1).eqv
    [.int 13, .opaque "1", .some (.str [97]), .ptr (.record [.int 7, .opaque "5", .none, .nil])]
    [.int 3, .opaque "2", .some (.str [97]), .ptr (.record [.int 18, .opaque "6", .none, .nil])] = true := by
  decide +kernel

end FpVerif.Spec.C08Inst
