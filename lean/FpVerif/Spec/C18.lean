import FpVerif.Lemmas.CloneHeap
/-!
# C18 — Clone instances produce equal copies that share no mutable storage.

For every instance expression `i` built from the clone package's combinators (any nesting), every
heap `h` and every value `v` that is a well-formed inhabitant of `i`'s type in `h` — including nil
pointers/slices/maps, empty containers and values whose parts alias one another:

* `clone_frame`        the heap only grows: every existing cell is left as it was;
* `clone_deep_equal`   the clone reads exactly like the original (structural equality of the two
                       reachable graphs; a nil and an empty slice/map view alike);
* `clone_fresh` / `clone_disjoint`   every mutable cell (pointer target, slice backing array, Go
                       map) reachable from the clone was allocated by `Clone`; none is reachable from
                       the original;
* `mutate_clone_keeps_original` / `mutate_original_keeps_clone`   hence writing — through any
                       path — to cells reachable from one never changes what the other reads.

`ptrAsIs_shares` refutes the property for `clone.Ptr` as it stands in the library (defect D9).
-/
namespace FpVerif.Spec.C18
open FpVerif.CloneHeap

/-- The central invariant, for every instance expression as the property demands them. -/
theorem clone_ok : ∀ (i : Inst), i.asDemanded → ∀ (v : Val) (h : Heap), WT i.ty h v → StepOK i.ty (clone i) v h := by
  intro i
  induction i with
  | given =>
    intro _ v h hw
    cases v <;> simp [Inst.ty, WT] at hw
    exact ⟨⟨[], by simp [clone]⟩, by simp [clone, Inst.ty, WT], rfl, by simp [clone, Inst.ty, reach]⟩
  | ptrAsIs e _ => intro hd; exact hd.elim
  | ptr e ih =>
    intro hd v h hw
    cases v <;> simp [Inst.ty, WT] at hw
    · exact ⟨⟨[], by simp [clone]⟩, by simp [clone, Inst.ty, WT], rfl, by simp [clone, Inst.ty, reach]⟩
    · rename_i a
      obtain ⟨w, hc, hw'⟩ := hw
      have s := ih hd w h hw'
      obtain ⟨e1, he1⟩ := s.ext
      have hcl : clone (.ptr e) (.ptr a) h = (.ptr (clone e w h).2.length, (clone e w h).2 ++ [.box (clone e w h).1]) := by
        simp [clone, hc]
      have hnew := get_new (clone e w h).2 (.box (clone e w h).1)
      refine ⟨?_, ?_, ?_, ?_⟩ <;> rw [hcl] <;> simp only [Inst.ty]
      · exact ⟨e1 ++ [Cell.box (clone e w h).1], by rw [he1]; simp⟩
      · simp only [WT]
        exact ⟨_, hnew, wt_mono _ s.wt⟩
      · simp only [view, hnew, hc, view_mono _ s.wt, s.view]
      · simp only [reach, hnew, reach_mono _ s.wt, List.mem_cons, forall_eq_or_imp]
        refine ⟨?_, s.fresh⟩
        rw [he1]; simp
  | slice e ih =>
    intro hd v h hw
    cases v <;> simp [Inst.ty, WT] at hw
    · refine ⟨⟨[Cell.arr []], by simp [clone]⟩, ?_, ?_, ?_⟩ <;> simp [clone, Inst.ty, WT, view, reach]
    · rename_i a len
      obtain ⟨vs, hc, hl, hall⟩ := hw
      obtain ⟨⟨e1, he1⟩, hlen, hwt, hrd, hfr⟩ := cloneList_ok e.ty (clone e) (ih hd) (vs.take len) h hall
      have hlen' : (cloneList (clone e) (vs.take len) h).1.length = len := by
        rw [hlen, List.length_take]; omega
      have hcl : clone (.slice e) (.slice a len) h =
          (.slice (cloneList (clone e) (vs.take len) h).2.length len,
           (cloneList (clone e) (vs.take len) h).2 ++ [.arr (cloneList (clone e) (vs.take len) h).1]) := by
        simp [clone, hc]
      generalize cloneList (clone e) (List.take len vs) h = r at *
      have hnew := get_new r.2 (.arr r.1)
      have htake : r.1.take len = r.1 := by rw [List.take_of_length_le]; omega
      refine ⟨?_, ?_, ?_, ?_⟩ <;> rw [hcl] <;> simp only [Inst.ty]
      · exact ⟨e1 ++ [Cell.arr r.1], by rw [he1]; simp⟩
      · simp only [WT]
        exact ⟨r.1, hnew, by omega, fun v hv => wt_mono _ (hwt v (htake ▸ hv))⟩
      · simp only [view, hnew, hc, htake]
        congr 1
        rw [← hrd]
        exact List.map_congr_left fun v hv => view_mono _ (hwt v hv)
      · simp only [reach, hnew, htake, List.mem_cons, forall_eq_or_imp, List.mem_flatten]
        refine ⟨by rw [he1]; simp, fun a ⟨l, hl1, hl2⟩ => ?_⟩
        obtain ⟨v, hv, rfl⟩ := List.mem_map.mp hl1
        rw [reach_mono _ (hwt v hv)] at hl2
        exact hfr v hv a hl2
  | seq e ih =>
    intro hd v h hw
    cases v <;> simp [Inst.ty, WT] at hw
    · refine ⟨⟨[Cell.arr []], by simp [clone]⟩, ?_, ?_, ?_⟩ <;> simp [clone, Inst.ty, WT, view, reach]
    · rename_i a len
      obtain ⟨vs, hc, hl, hall⟩ := hw
      obtain ⟨⟨e1, he1⟩, hlen, hwt, hrd, hfr⟩ := cloneList_ok e.ty (clone e) (ih hd) (vs.take len) h hall
      have hlen' : (cloneList (clone e) (vs.take len) h).1.length = len := by
        rw [hlen, List.length_take]; omega
      have hcl : clone (.seq e) (.slice a len) h =
          (.slice (cloneList (clone e) (vs.take len) h).2.length len,
           (cloneList (clone e) (vs.take len) h).2 ++ [.arr (cloneList (clone e) (vs.take len) h).1]) := by
        simp [clone, hc]
      generalize cloneList (clone e) (List.take len vs) h = r at *
      have hnew := get_new r.2 (.arr r.1)
      have htake : r.1.take len = r.1 := by rw [List.take_of_length_le]; omega
      refine ⟨?_, ?_, ?_, ?_⟩ <;> rw [hcl] <;> simp only [Inst.ty]
      · exact ⟨e1 ++ [Cell.arr r.1], by rw [he1]; simp⟩
      · simp only [WT]
        exact ⟨r.1, hnew, by omega, fun v hv => wt_mono _ (hwt v (htake ▸ hv))⟩
      · simp only [view, hnew, hc, htake]
        congr 1
        rw [← hrd]
        exact List.map_congr_left fun v hv => view_mono _ (hwt v hv)
      · simp only [reach, hnew, htake, List.mem_cons, forall_eq_or_imp, List.mem_flatten]
        refine ⟨by rw [he1]; simp, fun a ⟨l, hl1, hl2⟩ => ?_⟩
        obtain ⟨v, hv, rfl⟩ := List.mem_map.mp hl1
        rw [reach_mono _ (hwt v hv)] at hl2
        exact hfr v hv a hl2
  | gomap k v ihk ihv =>
    intro hd x h hw
    cases x <;> simp [Inst.ty, WT] at hw
    · refine ⟨⟨[Cell.mp []], by simp [clone]⟩, ?_, ?_, ?_⟩ <;> simp [clone, Inst.ty, WT, view, reach]
    · rename_i a
      obtain ⟨kvs, hc, hall⟩ := hw
      obtain ⟨⟨e1, he1⟩, hwt, hrd, hfr⟩ :=
        cloneEntries_ok k.ty v.ty (clone k) (clone v) (ihk hd.1) (ihv hd.2) kvs h (fun kv hm => hall kv.1 kv.2 hm)
      have hcl : clone (.gomap k v) (.map a) h =
          (.map (cloneEntries (clone k) (clone v) kvs h).2.length,
           (cloneEntries (clone k) (clone v) kvs h).2 ++ [.mp (cloneEntries (clone k) (clone v) kvs h).1]) := by
        simp [clone, hc]
      generalize cloneEntries (clone k) (clone v) kvs h = r at *
      have hnew := get_new r.2 (.mp r.1)
      refine ⟨?_, ?_, ?_, ?_⟩ <;> rw [hcl] <;> simp only [Inst.ty]
      · exact ⟨e1 ++ [Cell.mp r.1], by rw [he1]; simp⟩
      · simp only [WT]
        exact ⟨r.1, hnew, fun kv hm => ⟨wt_mono _ (hwt kv hm).1, wt_mono _ (hwt kv hm).2⟩⟩
      · simp only [view, hnew, hc]
        congr 1
        rw [← hrd]
        exact List.map_congr_left fun kv hm => by
          rw [view_mono _ (hwt kv hm).1, view_mono _ (hwt kv hm).2]
      · simp only [reach, hnew, List.mem_cons, forall_eq_or_imp, List.mem_flatten]
        refine ⟨by rw [he1]; simp, fun a ⟨l, hl1, hl2⟩ => ?_⟩
        obtain ⟨kv, hm, rfl⟩ := List.mem_map.mp hl1
        rw [reach_mono _ (hwt kv hm).1, reach_mono _ (hwt kv hm).2] at hl2
        exact hfr kv hm a hl2
  | option e ih =>
    intro hd v h hw
    cases v <;> simp [Inst.ty, WT] at hw
    · exact ⟨⟨[], by simp [clone]⟩, by simp [clone, Inst.ty, WT], rfl, by simp [clone, Inst.ty, reach]⟩
    · rename_i w
      have s := ih hd w h hw
      exact ⟨s.ext, by simpa [clone, Inst.ty, WT] using s.wt, by simpa [clone, Inst.ty, view] using s.view,
        by simpa [clone, Inst.ty, reach] using s.fresh⟩
  | hnil =>
    intro _ v h hw
    cases v <;> simp [Inst.ty, WT] at hw
    exact ⟨⟨[], by simp [clone]⟩, by simp [clone, Inst.ty, WT], rfl, by simp [clone, Inst.ty, reach]⟩
  | pair i j ihi ihj =>
    intro hd v h hw
    cases v <;> simp [Inst.ty, WT] at hw
    rename_i a b
    have s1 := ihi hd.1 a h hw.1
    obtain ⟨e1, he1⟩ := s1.ext
    have s2 := ihj hd.2 b (clone i a h).2 (by rw [he1]; exact wt_mono e1 hw.2)
    obtain ⟨e2, he2⟩ := s2.ext
    have hcl : clone (.pair i j) (.pair a b) h =
        (.pair (clone i a h).1 (clone j b (clone i a h).2).1, (clone j b (clone i a h).2).2) := by
      simp [clone]
    refine ⟨?_, ?_, ?_, ?_⟩ <;> rw [hcl] <;> simp only [Inst.ty]
    · exact ⟨e1 ++ e2, by rw [he2, he1]; simp⟩
    · simp only [WT]
      exact ⟨by rw [he2]; exact wt_mono e2 s1.wt, s2.wt⟩
    · simp only [view]
      rw [s2.view, he2, view_mono e2 s1.wt, s1.view, he1, view_mono e1 hw.2]
    · intro x hx
      simp only [reach, List.mem_append] at hx
      rcases hx with hx | hx
      · rw [he2, reach_mono e2 s1.wt] at hx
        exact s1.fresh x hx
      · have := s2.fresh x hx
        rw [he1] at this
        simp only [List.length_append] at this
        omega
  | generic e ih =>
    intro hd v h hw
    have s := ih hd v h hw
    exact ⟨s.ext, s.wt, s.view, s.fresh⟩

section
variable (i : Inst) (hd : i.asDemanded) (v : Val) (h : Heap) (hw : WT i.ty h v)
include hd hw

/-- `Clone` writes to no existing cell: the old heap is a prefix of the new one. -/
theorem clone_frame : ∃ ext, (clone i v h).2 = h ++ ext := (clone_ok i hd v h hw).ext

/-- … so the original still is the same well-formed value, reads the same and reaches the same cells. -/
theorem clone_keeps_original :
    WT i.ty (clone i v h).2 v ∧ view i.ty (clone i v h).2 v = view i.ty h v ∧
    reach i.ty (clone i v h).2 v = reach i.ty h v := by
  obtain ⟨e, he⟩ := clone_frame i hd v h hw
  rw [he]
  exact ⟨wt_mono e hw, view_mono e hw, reach_mono e hw⟩

/-- The clone is a well-formed value of the same type … -/
theorem clone_wellformed : WT i.ty (clone i v h).2 (clone i v h).1 := (clone_ok i hd v h hw).wt

/-- … structurally equal to the original. -/
theorem clone_deep_equal : view i.ty (clone i v h).2 (clone i v h).1 = view i.ty h v := (clone_ok i hd v h hw).view

/-- Every mutable cell reachable from the clone is new. -/
theorem clone_fresh : ∀ a ∈ reach i.ty (clone i v h).2 (clone i v h).1, h.length ≤ a := (clone_ok i hd v h hw).fresh

/-- No pointer target, slice backing array or Go map is reachable from both. -/
theorem clone_disjoint : ∀ a, a ∈ reach i.ty (clone i v h).2 v → a ∉ reach i.ty (clone i v h).2 (clone i v h).1 := by
  intro a ha hb
  rw [(clone_keeps_original i hd v h hw).2.2] at ha
  have h1 := reach_lt hw a ha
  have h2 := clone_fresh i hd v h hw a hb
  omega

/-- Mutating the clone through any path (any change of cells that did not exist before `Clone`, in
    particular of every cell reachable from the clone) never changes the original. -/
theorem mutate_clone_keeps_original (h2 : Heap) (hsame : ∀ a, a < h.length → h2[a]? = (clone i v h).2[a]?) :
    view i.ty h2 v = view i.ty h v ∧ WT i.ty h2 v := by
  have hk := clone_keeps_original i hd v h hw
  have := local_eq (h1 := (clone i v h).2) (h2 := h2) hk.1 fun a ha => by
    rw [hk.2.2] at ha
    exact hsame a (reach_lt hw a ha)
  exact ⟨this.1.trans hk.2.1, this.2.2⟩

/-- Mutating the original through any path (any change of the cells that existed before `Clone`)
    never changes the clone. -/
theorem mutate_original_keeps_clone (h2 : Heap) (hsame : ∀ a, h.length ≤ a → h2[a]? = (clone i v h).2[a]?) :
    view i.ty h2 (clone i v h).1 = view i.ty h v ∧ WT i.ty h2 (clone i v h).1 := by
  have s := clone_ok i hd v h hw
  have := local_eq (h1 := (clone i v h).2) (h2 := h2) s.wt fun a ha => hsame a (s.fresh a ha)
  exact ⟨this.1.trans s.view, this.2.2⟩

end

-- ---------------------------------------------------------------------------------- non-vacuity

/-- a pointer to a slice of pointers, two of which are the same pointer (internal aliasing), one nil -/
def exHeap : Heap := [.box (.int 7), .arr [.ptr 0, .ptr 0, .nilptr], .box (.slice 1 3)]
def exInst : Inst := .ptr (.slice (.ptr .given))

example : WT exInst.ty exHeap (.ptr 2) := by
  simp [exInst, Inst.ty, WT, exHeap]

example : exInst.asDemanded := by simp [exInst, Inst.asDemanded]

example : (clone exInst (.ptr 2) exHeap).1 = .ptr 6 ∧
    reach exInst.ty (clone exInst (.ptr 2) exHeap).2 (clone exInst (.ptr 2) exHeap).1 = [6, 5, 3, 4] := by
  decide

-- ---------------------------------------------------------------------------------- the library as it stands

/-- D9: `clone.Ptr` as written ignores its element instance (`var t = *pt; return &t`): for a pointer
    to a slice the copy of the pointee still refers to the original's backing array. -/
theorem ptrAsIs_shares :
    ∃ (i : Inst) (h : Heap) (v : Val), WT i.ty h v ∧
      ∃ a, a ∈ reach i.ty (clone i v h).2 v ∧ a ∈ reach i.ty (clone i v h).2 (clone i v h).1 :=
  ⟨.ptrAsIs (.slice .given), [.arr [.int 1], .box (.slice 0 1)], .ptr 1,
    by simp [Inst.ty, WT], 0, by decide, by decide⟩

end FpVerif.Spec.C18
