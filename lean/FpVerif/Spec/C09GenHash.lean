import FpVerif.Gen.TCGen
import FpVerif.Lemmas.TCGenCheck
import FpVerif.Lemmas.GoSemLoops
import FpVerif.Spec.C09Gen
/-!
# C09 — the HAND-WRITTEN combinators of `hash/hash_op.go`, TRANSLATED from the source on every run, are the model
# definitions

Conventions: `Spec/C09Gen.lean`.  The `Eq` half of every `hash` instance is the translated `eq` combinator (the Go code
passes the `fp.Hashable` where an `fp.Eq` is wanted: `.toEq`), so these theorems rest on those of `Spec/C09Gen`.
`hash.Bytes` (hash/fnv) is an exception; `hashUint64` (a `for cond {}` loop, unexported) is not translated: `hash.Number`
calls the model's `HashD.hashUint64`.
-/
namespace FpVerif.Spec.C09GenHash
open FpVerif.TC FpVerif.GoSem FpVerif.Gen.TC FpVerif.Spec.C09Gen

variable {T U A H : Type}

-- hash/hash_op.go ----------------------------------------------------------------------------------------------------

theorem hash_hasher_Hash_is_model [GoZero T] (e : EqD T) (f : T → UInt32) : hash_hasher_Hash e f = (HashD.mk e f).hash := rfl
theorem hash_New_is_model [GoZero T] (e : EqD T) (f : T → UInt32) : hash_New e f = HashD.new e f := rfl
/-- `hash.Number` at the two integer carriers of the model (`hashUint64` itself, a `for cond {}` loop, is not translated) -/
theorem hash_Number_int_is_model : (hash_Number : HashD Int) = HashD.numberInt := rfl
theorem hash_Number_int64_is_model : (hash_Number : HashD Int64) = HashD.numberInt64 := rfl
theorem hash_Tuple1_is_model [GoZero A] (i : HashD A) : hash_Tuple1 i = HashD.tuple1 i := rfl
theorem hash_HNil_is_model : hash_HNil = HashD.hnil := rfl
theorem hash_ContraMap_is_model [GoZero T] [GoZero U] (teq : HashD T) (fn : U → T) :
    hash_ContraMap teq fn = HashD.contraMap teq fn := rfl

/-- proved (`Bool`-`if` on `hlist.IsNil`) -/
theorem hash_HCons_is_model [GoZero H] [HListT T] [GoZero T] (heq : HashD H) (teq : HashD T) :
    hash_HCons heq teq = HashD.hcons heq teq := rfl

/-- the callee `seq.Fold` (accumulator loop `for _, v := range s { sum = f(sum, v) }`) is `foldl` — proved -/
theorem seq_Fold_is_model {B : Type} [GoZero A] [GoZero B] (s : List A) (zero : B) (f : B → A → B) :
    seq_Fold s zero f = s.foldl f zero := by
  unfold seq_Fold; exact forAcc_idx_eq_foldl f s zero

/-- proved: FNV-1 by index over the bytes of the string is the model's `foldl` over the byte list -/
theorem hash_String_is_model : hash_String = HashD.string := by
  unfold hash_String HashD.string
  rw [hash_New_is_model, eq_Given_is_model]
  congr 1; funext value
  exact forAcc_idx_eq_foldl (fun h (b : UInt8) => (h * HashD.prime32) ^^^ b.toUInt32) (strBytes value) HashD.offset32

theorem hash_Seq_is_model [GoZero T] (hashT : HashD T) : hash_Seq hashT = HashD.seq hashT := by
  unfold hash_Seq HashD.seq
  rw [hash_New_is_model, eq_Seq_is_model]
  congr 1; funext a
  exact seq_Fold_is_model _ _ _

theorem hash_Slice_is_model [GoZero T] (hashT : HashD T) : hash_Slice hashT = HashD.slice hashT := by
  unfold hash_Slice HashD.slice; rw [hash_ContraMap_is_model, hash_Seq_is_model]

theorem hash_Ptr_is_model [GoZero T] (hashT : Unit → HashD T) : hash_Ptr hashT = HashD.ptr hashT := by
  unfold hash_Ptr HashD.ptr
  rw [hash_New_is_model, eq_Ptr_is_model]
  congr 1; funext a
  cases a <;> rfl

theorem hash_Option_is_model [GoZero T] (hashT : HashD T) : hash_Option hashT = HashD.option hashT := by
  unfold hash_Option HashD.option
  rw [hash_New_is_model, eq_Option_is_model]
  congr 1; funext a
  cases a <;> rfl

-- what the ties buy: laws of Spec/C09 hold for the translated code ---------------------------------------------------

theorem hash_Seq_lawful [GoZero T] {h : HashD T} (hl : LawfulHash h) : LawfulHash (hash_Seq h) := by
  rw [hash_Seq_is_model]; exact FpVerif.Spec.C09.hash_seq_lawful hl

theorem hash_Option_lawful [GoZero T] {h : HashD T} (hl : LawfulHash h) : LawfulHash (hash_Option h) := by
  rw [hash_Option_is_model]; exact FpVerif.Spec.C09.hash_option_lawful hl

theorem hash_String_lawful : LawfulHash hash_String := by
  rw [hash_String_is_model]; exact FpVerif.Spec.C09.string_lawful

/-- the hypotheses are satisfiable -/
example : LawfulHash (hash_Seq (hash_Option hash_String)) := hash_Seq_lawful (hash_Option_lawful hash_String_lawful)

end FpVerif.Spec.C09GenHash

-- every translated declaration of this file has its tie theorem above (fails the build otherwise)
#tc_ties FpVerif.Spec.C09GenHash "hash."
