import FpVerif.Gen.LazyGen
import FpVerif.Spec.C16
/-!
# C16 / C01 (lazy.Eval) — Tie A: the REGENERATED translation of lazy/lazy.go + lazy/tailcall_gen.go is the model

`FpVerif/Gen/LazyGen.lean` is written by `harness/cmd/lazy2lean` from the working tree on every run (never committed).  It contains
the inductive type the translator emits for `type Eval[T] struct { firstFunc func() T; getNextFunc func(T) Eval[T] }` — the SAME
defunctionalisation as `Model/Eval.lean` (`leaf` = getNextFunc nil, `cont`, `logged` = events of the user function that produced the
Eval), but a type of its own — and one definition per function / method found.  This file is committed and states

* `toModel` / `ofModel`: the translated type and `EvalM.Eval` are isomorphic (`toModel_ofModel`, `ofModel_toModel`);
* per declaration `<name>_is_model` (the translated definition, seen through `toModel`, IS the definition of `Model/Eval.lean` the
  theorems of `Spec/C16.lean` are about) or `<name>_def` (no model existed: the statement is the specification);
* coverage: the functions found in lazy/*.go are exactly the translated ones and the listed exceptions (there are none), nothing is
  untranslatable, `Eval` is the only type, `Call` and `TailCall` (and nothing else) route their thunk through `Memoize`;
* the headline theorems of C16 / C01 restated for the translated definitions (`runG` = what the translated `Run` loop returns for
  every sufficient fuel: `Run_spec`).
-/
namespace FpVerif.Spec.C16Gen
open FpVerif FpVerif.Gen
open FpVerif.EvalM (W)

variable {T : Type}

-- the two representations -----------------------------------------------------------------------------------------------

def toModel : LazyGen.Eval T → EvalM.Eval T
  | .leaf f => .leaf f
  | .cont f n => .cont f (fun v => toModel (n v))
  | .logged evs e => .logged evs (toModel e)

def ofModel : EvalM.Eval T → LazyGen.Eval T
  | .leaf f => .leaf f
  | .cont f n => .cont f (fun v => ofModel (n v))
  | .logged evs e => .logged evs (ofModel e)

theorem toModel_ofModel (e : EvalM.Eval T) : toModel (ofModel e) = e := by
  induction e with
  | leaf f => rfl
  | cont f n ih => simp only [ofModel, toModel]; congr 1; funext v; exact ih v
  | logged evs e ih => simp only [ofModel, toModel, ih]

theorem ofModel_toModel (e : LazyGen.Eval T) : ofModel (toModel e) = e := by
  induction e with
  | leaf f => rfl
  | cont f n ih => simp only [ofModel, toModel]; congr 1; funext v; exact ih v
  | logged evs e ih => simp only [ofModel, toModel, ih]

/-- the translated struct has the model's three shapes (`getNextFunc == nil`, `!= nil`, pending events) -/
theorem Eval_is_model : Function.LeftInverse (ofModel (T := T)) toModel ∧ Function.RightInverse (ofModel (T := T)) toModel :=
  ⟨ofModel_toModel, toModel_ofModel⟩

variable [Inhabited T]

-- ties: one per translated declaration ------------------------------------------------------------------------------------------

theorem Done_is_model (t : T) : toModel (LazyGen.Done t) = EvalM.done t := rfl

theorem Memoize_is_model {α : Type} (f : Unit → α) : LazyGen.Memoize f = EvalM.memoCell f := rfl

omit [Inhabited T] in
/-- the first request of the fresh cell `Memoize(f)` is the first `get` of the Once-guarded cell of `Model/Memo.lean` -/
theorem Memoize_first_get (f : Unit → W T) :
    LazyGen.Memoize f () = ((Memo.get f none).1, (Memo.get f none).2.2) := rfl

theorem Call_is_model (f : Unit → W T) : toModel (LazyGen.Call f) = EvalM.call f := rfl

theorem TailCall_is_model (f : Unit → LazyGen.Eval T) :
    toModel (LazyGen.TailCall f) = EvalM.tailCall (fun u => toModel (f u)) := rfl

theorem Eval_FlatMap_is_model (r : LazyGen.Eval T) (f : T → LazyGen.Eval T) :
    toModel (LazyGen.Eval.FlatMap r f) = EvalM.flatMap (toModel r) (fun v => toModel (f v)) := by
  induction r with
  | leaf first => rfl
  | cont first next ih =>
    simp only [LazyGen.Eval.FlatMap, toModel, EvalM.flatMap]; congr 1; funext v; exact ih v
  | logged evs e ih => simp only [LazyGen.Eval.FlatMap, toModel, EvalM.flatMap, ih]

theorem Eval_Map_is_model (r : LazyGen.Eval T) (f : T → W T) :
    toModel (LazyGen.Eval.Map r f) = EvalM.map (toModel r) f := by
  simp only [LazyGen.Eval.Map, Eval_FlatMap_is_model, EvalM.map]
  rfl

theorem Map2_is_model (a b : LazyGen.Eval T) (f : T → T → W T) :
    toModel (LazyGen.Map2 a b f) = EvalM.map2 (toModel a) (toModel b) f := by
  simp only [LazyGen.Map2, Eval_FlatMap_is_model, Eval_Map_is_model, EvalM.map2]

theorem Map_is_model (t : LazyGen.Eval T) (f : T → W T) : toModel (LazyGen.Map t f) = EvalM.map (toModel t) f :=
  Eval_Map_is_model t f

theorem FlatMap_is_model (t : LazyGen.Eval T) (f : T → LazyGen.Eval T) :
    toModel (LazyGen.FlatMap t f) = EvalM.flatMap (toModel t) (fun v => toModel (f v)) :=
  Eval_FlatMap_is_model t f

/-- Go's `Resume` returns `(value, closure)`; the model's `resume` is `Resume` followed by the call of the closure (which is what the
    loop of `Run` does next, in the same iteration) -/
def resumeView (x : W (T × Option (Unit → W (LazyGen.Eval T)))) : W (T ⊕ EvalM.Eval T) :=
  match x with
  | ((v, none), l) => (.inl v, l)
  | ((_, some k), l) => ((.inr (toModel (k ()).1)), l ++ (k ()).2)

theorem Eval_Resume_is_model (r : LazyGen.Eval T) : resumeView (LazyGen.Eval.Resume r) = EvalM.resume (toModel r) := by
  cases r with
  | leaf first => cases first <;> rfl
  | cont first next => cases first <;> simp [LazyGen.Eval.Resume, resumeView, toModel, EvalM.resume, EvalM.callFirst]
  | logged evs e => simp [LazyGen.Eval.Resume, resumeView, toModel, EvalM.resume]

/-- a finished Eval resumes to its value and NO continuation; an unfinished one to a continuation -/
theorem Eval_Resume_nil_iff (r : LazyGen.Eval T) :
    (LazyGen.Eval.Resume r).1.2.isNone = true ↔ ∃ first, r = .leaf first := by
  cases r with
  | leaf first => cases first <;> simp [LazyGen.Eval.Resume]
  | cont first next => cases first <;> simp [LazyGen.Eval.Resume]
  | logged evs e => simp [LazyGen.Eval.Resume]

/-- the translated `for` loop of `Run` IS the model's fuelled loop, for every fuel, start and log -/
theorem Run_is_model (n : Nat) (t : LazyGen.Eval T) (log : List Event) :
    LazyGen.Run n t log = EvalM.runLoop n (toModel t) log := by
  induction n generalizing t log with
  | zero => rfl
  | succ n ih =>
    cases t with
    | leaf first => cases first <;> simp [LazyGen.Run, LazyGen.Eval.Resume, EvalM.runLoop, EvalM.resume, toModel, EvalM.callFirst]
    | cont first next =>
      cases first <;>
        simp [LazyGen.Run, LazyGen.Eval.Resume, EvalM.runLoop, EvalM.resume, toModel, EvalM.callFirst, ih]
    | logged evs e =>
      simp [LazyGen.Run, LazyGen.Eval.Resume, EvalM.runLoop, EvalM.resume, toModel, ih]

theorem Eval_Get_def (n : Nat) (r : LazyGen.Eval T) : LazyGen.Eval.Get n r = LazyGen.Run n r [] := rfl

theorem Eval_Get_is_model (n : Nat) (r : LazyGen.Eval T) : LazyGen.Eval.Get n r = EvalM.runLoop n (toModel r) [] :=
  Run_is_model n r []

-- lazy.Func1..3: a deferred call of `f` (nothing runs when the Eval is built; the closure itself has no events)
theorem Func1_def {A R : Type} [Inhabited A] [Inhabited R] (f : A → W R) (a : A) :
    LazyGen.Func1 f a = (LazyGen.Call (fun _ => f a), []) := rfl
theorem Func2_def {A B R : Type} [Inhabited A] [Inhabited B] [Inhabited R] (f : A → B → W R) (a : A) (b : B) :
    LazyGen.Func2 f a b = (LazyGen.Call (fun _ => f a b), []) := rfl
theorem Func3_def {A B C R : Type} [Inhabited A] [Inhabited B] [Inhabited C] [Inhabited R] (f : A → B → C → W R) (a : A) (b : B) (c : C) :
    LazyGen.Func3 f a b c = (LazyGen.Call (fun _ => f a b c), []) := rfl

-- lazy.TailCall1..9 (tailcall_gen.go): `TailCall` of the closure that applies `f`
section tailCallN
variable {A1 A2 A3 A4 A5 A6 A7 A8 A9 : Type} [Inhabited A1] [Inhabited A2] [Inhabited A3] [Inhabited A4] [Inhabited A5]
  [Inhabited A6] [Inhabited A7] [Inhabited A8] [Inhabited A9]
theorem TailCall1_is_model (f : A1 → LazyGen.Eval T) (a1 : A1) :
    toModel (LazyGen.TailCall1 f a1) = EvalM.tailCall (fun _ => toModel (f a1)) := rfl
theorem TailCall2_is_model (f : A1 → A2 → LazyGen.Eval T) (a1 : A1) (a2 : A2) :
    toModel (LazyGen.TailCall2 f a1 a2) = EvalM.tailCall (fun _ => toModel (f a1 a2)) := rfl
theorem TailCall3_is_model (f : A1 → A2 → A3 → LazyGen.Eval T) (a1 : A1) (a2 : A2) (a3 : A3) :
    toModel (LazyGen.TailCall3 f a1 a2 a3) = EvalM.tailCall (fun _ => toModel (f a1 a2 a3)) := rfl
theorem TailCall4_is_model (f : A1 → A2 → A3 → A4 → LazyGen.Eval T) (a1 : A1) (a2 : A2) (a3 : A3) (a4 : A4) :
    toModel (LazyGen.TailCall4 f a1 a2 a3 a4) = EvalM.tailCall (fun _ => toModel (f a1 a2 a3 a4)) := rfl
theorem TailCall5_is_model (f : A1 → A2 → A3 → A4 → A5 → LazyGen.Eval T) (a1 : A1) (a2 : A2) (a3 : A3) (a4 : A4) (a5 : A5) :
    toModel (LazyGen.TailCall5 f a1 a2 a3 a4 a5) = EvalM.tailCall (fun _ => toModel (f a1 a2 a3 a4 a5)) := rfl
theorem TailCall6_is_model (f : A1 → A2 → A3 → A4 → A5 → A6 → LazyGen.Eval T) (a1 : A1) (a2 : A2) (a3 : A3) (a4 : A4) (a5 : A5) (a6 : A6) :
    toModel (LazyGen.TailCall6 f a1 a2 a3 a4 a5 a6) = EvalM.tailCall (fun _ => toModel (f a1 a2 a3 a4 a5 a6)) := rfl
theorem TailCall7_is_model (f : A1 → A2 → A3 → A4 → A5 → A6 → A7 → LazyGen.Eval T) (a1 : A1) (a2 : A2) (a3 : A3) (a4 : A4) (a5 : A5)
    (a6 : A6) (a7 : A7) :
    toModel (LazyGen.TailCall7 f a1 a2 a3 a4 a5 a6 a7) = EvalM.tailCall (fun _ => toModel (f a1 a2 a3 a4 a5 a6 a7)) := rfl
theorem TailCall8_is_model (f : A1 → A2 → A3 → A4 → A5 → A6 → A7 → A8 → LazyGen.Eval T) (a1 : A1) (a2 : A2) (a3 : A3) (a4 : A4) (a5 : A5)
    (a6 : A6) (a7 : A7) (a8 : A8) :
    toModel (LazyGen.TailCall8 f a1 a2 a3 a4 a5 a6 a7 a8) = EvalM.tailCall (fun _ => toModel (f a1 a2 a3 a4 a5 a6 a7 a8)) := rfl
theorem TailCall9_is_model (f : A1 → A2 → A3 → A4 → A5 → A6 → A7 → A8 → A9 → LazyGen.Eval T) (a1 : A1) (a2 : A2) (a3 : A3) (a4 : A4)
    (a5 : A5) (a6 : A6) (a7 : A7) (a8 : A8) (a9 : A9) :
    toModel (LazyGen.TailCall9 f a1 a2 a3 a4 a5 a6 a7 a8 a9) = EvalM.tailCall (fun _ => toModel (f a1 a2 a3 a4 a5 a6 a7 a8 a9)) := rfl
end tailCallN

-- coverage ----------------------------------------------------------------------------------------------------------------------

/-- the functions / methods with a committed tie above -/
def translatedFns : List String :=
  ["Call", "Done", "Eval.FlatMap", "Eval.Get", "Eval.Map", "Eval.Resume", "FlatMap", "Func1", "Func2", "Func3", "Map", "Map2", "Memoize",
   "Run", "TailCall", "TailCall1", "TailCall2", "TailCall3", "TailCall4", "TailCall5", "TailCall6", "TailCall7", "TailCall8", "TailCall9"]

/-- declarations deliberately left to the differential tie (cmd/eval, cmd/evalstack, cmd/memopanic): none -/
def exceptionFns : List String := []

theorem nothing_untranslatable : LazyGen.untranslatable = [] := by decide
theorem translated_as_committed : LazyGen.translated = translatedFns := by decide
theorem exceptions_as_committed : LazyGen.exceptions = exceptionFns := by decide
/-- every function / method with a body in lazy/*.go is translated or a listed exception, and nothing else is -/
theorem coverage :
    (LazyGen.found.all (fun x => translatedFns.contains x || exceptionFns.contains x)
      && (translatedFns ++ exceptionFns).all LazyGen.found.contains
      && LazyGen.found.length == translatedFns.length + exceptionFns.length) = true := by decide
/-- `Eval` is the only type declared (its fields are checked by the translator: a changed struct is untranslatable) -/
theorem types_as_committed : LazyGen.types = ["Eval"] := by decide
/-- exactly `Call` and `TailCall` route their thunk through `Memoize`, once each (the cell is transparent for `toModel`, so this
    is the statement a `Call` WITHOUT `Memoize` breaks) -/
theorem memoSites_as_committed : LazyGen.memoSites = ["Call:1", "TailCall:1"] := by decide

-- the headline theorems of C16 / C01, for the translated definitions ---------------------------------------------------------------

/-- the denotation of a translated Eval -/
def runG (e : LazyGen.Eval T) : W T := EvalM.run (toModel e)
/-- the number of iterations the translated loop needs -/
def stepsG (e : LazyGen.Eval T) : Nat := EvalM.steps (toModel e)

/-- `runLoop_spec`: the translated `for` loop of `Run` terminates, for EVERY fuel ≥ `stepsG e`, with `runG e` (so `runG` is what the
    translated loop computes, independent of the fuel) -/
theorem Run_spec (e : LazyGen.Eval T) (log : List Event) (n : Nat) (h : stepsG e ≤ n) :
    LazyGen.Run n e log = some ((runG e).1, log ++ (runG e).2) := by
  rw [Run_is_model]; exact C16.runLoop_spec (toModel e) log n h

theorem Eval_Get_spec (e : LazyGen.Eval T) (n : Nat) (h : stepsG e ≤ n) : LazyGen.Eval.Get n e = some (runG e) := by
  rw [Eval_Get_def, Run_spec e [] n h]; simp

/-- the result does not depend on the fuel: two sufficient budgets agree, an insufficient one gives no result rather than a wrong one -/
theorem Run_fuel_irrelevant (e : LazyGen.Eval T) (log : List Event) (n : Nat) (r : W T) (h : LazyGen.Run n e log = some r) :
    r = ((runG e).1, log ++ (runG e).2) := by
  rcases Nat.le_total (stepsG e) n with hn | hn
  · rw [Run_spec e log n hn] at h; exact (Option.some.inj h).symm
  · -- more fuel never changes a result already obtained
    have mono : ∀ (n : Nat) (t : EvalM.Eval T) (log : List Event) (r : W T), EvalM.runLoop n t log = some r →
        EvalM.runLoop (n + 1) t log = some r := by
      intro n
      induction n with
      | zero => intro t log r h; simp [EvalM.runLoop] at h
      | succ n ih =>
        intro t log r h
        rw [EvalM.runLoop] at h ⊢
        rcases hres : EvalM.resume t with ⟨x, l⟩
        rw [hres] at h
        cases x with
        | inl v => simpa using h
        | inr t' => simp only at h ⊢; exact ih t' _ r h
    have monoK : ∀ (k : Nat), EvalM.runLoop (n + k) (toModel e) log = some r := by
      intro k
      induction k with
      | zero => rw [← Run_is_model]; exact h
      | succ k ih => exact mono _ _ _ _ ih
    have h2 := monoK (stepsG e - n)
    rw [C16.runLoop_spec (toModel e) log _ (by simp only [stepsG] at hn ⊢; omega)] at h2
    exact (Option.some.inj h2).symm

theorem run_done (t : T) : runG (LazyGen.Done t) = (t, []) := rfl
theorem run_call (f : Unit → W T) : runG (LazyGen.Call f) = f () := rfl

/-- `TailCall(f)` evaluates to what `f()` evaluates to -/
theorem run_tailCall (f : Unit → LazyGen.Eval T) : runG (LazyGen.TailCall f) = runG (f ()) := by
  simp only [runG, TailCall_is_model]; exact C16.run_tailCall _

/-- `Run(r.FlatMap(f)) = Run(f(Run(r)))`, including the order of all side effects -/
theorem run_flatMap (r : LazyGen.Eval T) (f : T → LazyGen.Eval T) :
    runG (LazyGen.Eval.FlatMap r f) = (let (v, l1) := runG r; let (w, l2) := runG (f v); (w, l1 ++ l2)) := by
  simp only [runG, Eval_FlatMap_is_model]; exact C16.run_flatMap _ _

theorem run_map (r : LazyGen.Eval T) (f : T → W T) :
    runG (LazyGen.Eval.Map r f) = (let (v, l1) := runG r; let (w, l2) := f v; (w, l1 ++ l2)) := by
  simp only [runG, Eval_Map_is_model]; exact C16.run_map _ _

theorem run_map2 (a b : LazyGen.Eval T) (f : T → T → W T) :
    runG (LazyGen.Map2 a b f)
      = (let (v1, l1) := runG a; let (v2, l2) := runG b; let (w, l3) := f v1 v2; (w, l1 ++ (l2 ++ l3))) := by
  simp only [runG, Map2_is_model]; exact C16.run_map2 _ _ _

/-- monad laws of the translated `Done` / `FlatMap` under the translated loop (C01 for lazy.Eval) -/
theorem left_id (t : T) (f : T → LazyGen.Eval T) : runG (LazyGen.FlatMap (LazyGen.Done t) f) = runG (f t) := by
  simp only [runG, FlatMap_is_model, Done_is_model]; exact C16.left_id t _

theorem right_id (r : LazyGen.Eval T) : runG (LazyGen.FlatMap r LazyGen.Done) = runG r := by
  simp only [runG, FlatMap_is_model]; exact C16.right_id _

theorem assoc (r : LazyGen.Eval T) (f g : T → LazyGen.Eval T) :
    runG (LazyGen.FlatMap (LazyGen.FlatMap r f) g) = runG (LazyGen.FlatMap r (fun v => LazyGen.FlatMap (f v) g)) := by
  simp only [runG, FlatMap_is_model]; exact C16.assoc _ _ _

/-- what the TRANSLATED library builds for a program tree of `Spec/C16.lean` -/
def denoteG : C16.Prog T → LazyGen.Eval T
  | .done t => LazyGen.Done t
  | .call f => LazyGen.Call f
  | .tailCall f => LazyGen.TailCall (fun u => denoteG (f u))
  | .map p f => LazyGen.Eval.Map (denoteG p) f
  | .flatMap p k => LazyGen.Eval.FlatMap (denoteG p) (fun v => denoteG (k v))
  | .map2 p q f => LazyGen.Map2 (denoteG p) (denoteG q) f

theorem denoteG_is_model (p : C16.Prog T) : toModel (denoteG p) = C16.denote p := by
  induction p with
  | done t => rfl
  | call f => rfl
  | tailCall f ih => simp only [denoteG, TailCall_is_model, C16.denote, ih]
  | map p f ih => simp only [denoteG, Eval_Map_is_model, C16.denote, ih]
  | flatMap p k ihp ihk => simp only [denoteG, Eval_FlatMap_is_model, C16.denote, ihp, ihk]
  | map2 p q f ihp ihq => simp only [denoteG, Map2_is_model, C16.denote, ihp, ihq]

/-- Faithfulness for the translated code: for every program tree, the translated trampoline = strict evaluation -/
theorem faithful (p : C16.Prog T) : runG (denoteG p) = C16.strict p := by
  simp only [runG, denoteG_is_model]; exact C16.faithful p

/-- … and in terms of the translated `Get` alone: with enough fuel `Get` returns the strict result, value and events in program order -/
theorem Get_faithful (p : C16.Prog T) : ∃ n, ∀ m, n ≤ m → LazyGen.Eval.Get m (denoteG p) = some (C16.strict p) :=
  ⟨stepsG (denoteG p), fun m h => by rw [Eval_Get_spec _ m h, faithful]⟩

/-- one iteration of the translated loop on a `TailCall` node hands the loop the Eval that `f()` returns directly -/
theorem resume_tailCall (f : Unit → LazyGen.Eval T) :
    resumeView (LazyGen.Eval.Resume (LazyGen.TailCall f)) = (.inr (toModel (f ())), []) := by
  rw [Eval_Resume_is_model, TailCall_is_model]; exact C16.resume_tailCall _

-- non-vacuity: the translated definitions compute ---------------------------------------------------------------------------------

/-- `Map2(Call(f1), TailCall(Call(f2)), +)`: events in program order, 4 iterations -/
example :
    LazyGen.Eval.Get 10 (LazyGen.Map2 (LazyGen.Call (fun _ => ((1 : Nat), ["a"])))
        (LazyGen.TailCall (fun _ => LazyGen.Call (fun _ => (2, ["b"])))) (fun x y => (x + y, ["f"])))
      = some (3, ["a", "b", "f"]) := by decide
/-- too little fuel: no result -/
example : LazyGen.Eval.Get 1 (LazyGen.TailCall (fun _ => LazyGen.Done (5 : Nat))) = none := by decide
example : LazyGen.Eval.Get 2 (LazyGen.TailCall (fun _ => LazyGen.Done (5 : Nat))) = some (5, []) := by decide
/-- the zero value `Eval[T]{}` evaluates to the zero value of `T` -/
example : LazyGen.Eval.Get 1 (LazyGen.Eval.leaf none : LazyGen.Eval Nat) = some (0, []) := by decide

end FpVerif.Spec.C16Gen
