import FpVerif.Model.TryOptExt
import FpVerif.Model.StateTExt
import FpVerif.Spec.C01TExt
/-!
# C02 (extension) — short circuit and pass-through for the transformer functions, `TraverseOption`, `FoldRight`,
`OrZero` / `OrPtr`, `statet.ApTry` / `ApOption`

An equation between `GoM` computations fixes which callbacks ran and in which order; a callback that is absent
from the right-hand side was not invoked.  `e ≠ .nil` excludes the zero-value `Try` (the library panics on it,
see `transformT_zero`).
-/
namespace FpVerif.Spec.C02
open FpVerif MonadFamily TryT FpVerif.Spec.C01

variable {A B R I O S : Type}

-- ------------------------------------------------------------------------------------------ transformers

/-- EVERY transformer function (`transformT` is the body of each `XSeqT` / `XOptionT`): a Failure passes through
    with its own error and the inner function — hence every user callback handed to it — is not run. -/
theorem transformT_failure_untouched (e : Err) (he : e ≠ .nil) (g : I → GoM O) :
    transformT (pure (.failure e : Try I)) g = pure (.failure e) := by
  simp [transformT_def, tryMap, he]

/-- … and on a Success the inner function runs exactly once -/
theorem transformT_success_once (i : I) (g : I → GoM O) :
    transformT (pure (.success i)) g = (do let o ← g i; pure (.success o)) := by
  simp [transformT_def, tryMap]

/-- the zero-value Try is rejected with the library's panic, the inner function is not run -/
theorem transformT_zero (g : I → GoM O) :
    transformT (pure (.failure .nil : Try I)) g = throw "ErrNotInit" := by
  simp [transformT_def, tryMap]

/-- ScanSeqT on a Failure: `f` is never invoked, the error is unchanged -/
theorem scanSeqT_failure (e : Err) (he : e ≠ .nil) (zero : B) (f : B → A → GoM B) :
    scanSeqT (pure (.failure e : Try (List A))) zero f = pure (.failure e) := by
  simp [scanSeqT, transformT_failure_untouched e he]

/-- ScanSeqT stops at a panicking callback: later elements are not visited (`f` panics at the first element here;
    the general statement is `seq_scan_spec`: the callbacks are sequenced left to right in `GoM`) -/
theorem scanSeqT_panic (x : A) (xs : List A) (zero : B) (f : B → A → GoM B) (p : PanicVal)
    (hf : f zero x = throw p) :
    scanSeqT (pure (.success (x :: xs))) zero f = throw p := by
  simp [scanSeqT_law, tryMap, scanTail, hf]

theorem getSeqT_failure (e : Err) (he : e ≠ .nil) (idx : Int) :
    getSeqT (pure (.failure e : Try (List A))) idx = pure (.failure e) := by
  simp [getSeqT, transformT_failure_untouched e he]

/-- OrZeroOptionT / OrPtrOptionT: a Failure is not "recovered" to the zero value / the pointer -/
theorem orZeroOptionT_failure (zero : A) (e : Err) (he : e ≠ .nil) :
    orZeroOptionT zero (pure (.failure e : Try (Option A))) = pure (.failure e) := by
  simp [orZeroOptionT, transformT_failure_untouched e he]

theorem orPtrOptionT_failure (e : Err) (he : e ≠ .nil) (v : Option A) :
    orPtrOptionT (pure (.failure e : Try (Option A))) v = pure (.failure e) := by
  simp [orPtrOptionT, transformT_failure_untouched e he]

/-- successes pass through `Or*` untouched: a defined option ignores the zero value / the pointer -/
theorem orZeroOptionT_some (zero x : A) :
    orZeroOptionT zero (pure (.success (some x))) = pure (.success x) := by
  simp [orZeroOptionT_law, tryMap]

theorem orPtrOptionT_some (x : A) (v : Option A) :
    orPtrOptionT (pure (.success (some x))) v = pure (.success (some x)) := by
  simp [orPtrOptionT_law, tryMap]

/-- … and on `None` the pointer decides: nil gives `None` (NOT a pointer to the zero value), non-nil its target -/
theorem orPtrOptionT_none (v : Option A) :
    orPtrOptionT (pure (.success (none : Option A))) v = pure (.success v) := by
  simp [orPtrOptionT_law, tryMap]

theorem option_orPtr_some (x : A) (v : Option A) : OptM.orPtr (some x) v = some x := by
  simp [option_orPtr_spec]

theorem option_orZero_some (zero x : A) : OptM.orZero zero (some x) = pure x := by
  simp [option_orZero_spec]

theorem try_orZero_success (zero x : A) : TryM.orZero zero (.success x) = pure x := by
  simp [try_orZero_spec, TryM.orElse]

theorem try_orZero_failure (zero : A) (e : Err) : TryM.orZero zero (.failure e : Try A) = pure zero := by
  simp [try_orZero_spec, TryM.orElse]

-- ------------------------------------------------------------------------------------------ TraverseOption / FoldRight

/-- `None`: the traverse function is not invoked -/
theorem traverseOption_none (fa : A → GoM (Try R)) :
    TryM.traverseOption none fa = pure (.success none) := by
  simp [traverseOption_def]

/-- `Some(a)` with a failing function: that very error, the function ran once -/
theorem traverseOption_failure (a : A) (fa : A → GoM (Try R)) (e : Err) (he : e ≠ .nil) (l : List Event)
    (hfa : fa a = (do (l.forM emit : GoM Unit); pure (.failure e))) :
    TryM.traverseOption (some a) fa = (do (l.forM emit : GoM Unit); pure (.failure e)) := by
  simp [traverseOption_def, hfa, he]

/-- GENERAL form (audit finding 14; the shape of `traverseOption_failure`): the succeeding function may LOG (`l`)
    before it returns; the log is kept, once. -/
theorem traverseOption_success_log (a : A) (fa : A → GoM (Try R)) (r : R) (l : List Event)
    (hfa : fa a = (do (l.forM emit : GoM Unit); pure (.success r))) :
    TryM.traverseOption (some a) fa = (do (l.forM emit : GoM Unit); pure (.success (some r))) := by
  simp [traverseOption_def, hfa]

/-- … and with an arbitrary effect `act` (other callbacks, any result type) in front, success and failure -/
theorem traverseOption_success_eff {X : Type} (a : A) (fa : A → GoM (Try R)) (r : R) (act : GoM X)
    (hfa : fa a = act >>= fun _ => pure (.success r)) :
    TryM.traverseOption (some a) fa = act >>= fun _ => pure (.success (some r)) := by
  simp [traverseOption_def, hfa]

theorem traverseOption_failure_eff {X : Type} (a : A) (fa : A → GoM (Try R)) (e : Err) (he : e ≠ .nil) (act : GoM X)
    (hfa : fa a = act >>= fun _ => pure (.failure e)) :
    TryM.traverseOption (some a) fa = act >>= fun _ => pure (.failure e) := by
  simp [traverseOption_def, hfa, he]

/-- HYPOTHESIS-FREE: on `Some(a)` the function runs exactly once — with all its effects — and its outcome decides -/
theorem traverseOption_some_eq (a : A) (fa : A → GoM (Try R)) :
    TryM.traverseOption (some a) fa = (fa a >>= fun t =>
      match t with
      | .success r => pure (.success (some r))
      | .failure .nil => throw "ErrNotInit"
      | .failure e => pure (.failure e)) := by
  simp only [traverseOption_def]
  congr 1
  funext t
  cases t with
  | success r => simp
  | failure e => cases e <;> simp [Try.failedGet]

/-- the effect-free instance of `traverseOption_success_eff` -/
theorem traverseOption_success (a : A) (fa : A → GoM (Try R)) (r : R) (hfa : fa a = pure (.success r)) :
    TryM.traverseOption (some a) fa = pure (.success (some r)) := by
  simpa using traverseOption_success_eff a fa r (pure ()) (by simpa using hfa)

/-- FoldRight on an empty container: `f` is never invoked, the result is the (effect-free) zero -/
theorem option_foldRight_none (zero : B) (f : A → EvalM.Eval B → GoM (EvalM.Eval B)) :
    OptM.foldRight none zero f = pure (EvalM.done zero) := rfl

theorem try_foldRight_failure (e : Err) (bzero : B) (fab : A → EvalM.Eval B → GoM (EvalM.Eval B)) :
    TryM.foldRight (.failure e : Try A) bzero fab = pure (EvalM.done bzero) := rfl

/-- … otherwise `f` is called exactly once, with the element and the unevaluated `Done(zero)` -/
theorem option_foldRight_some (a : A) (zero : B) (f : A → EvalM.Eval B → GoM (EvalM.Eval B)) :
    OptM.foldRight (some a) zero f = f a (EvalM.done zero) := rfl

theorem try_foldRight_success (a : A) (bzero : B) (fab : A → EvalM.Eval B → GoM (EvalM.Eval B)) :
    TryM.foldRight (.success a) bzero fab = fab a (EvalM.done bzero) := rfl

-- ------------------------------------------------------------------------------------------ statet.ApTry / ApOption

/-- HYPOTHESIS-FREE (audit finding 14): `ApTry` for EVERY function side `st` (it may log, panic, fail, return the zero
    value) and every argument: `st` runs first, once; then — no further effects except the applied function's —
    the outcome decides, and the state is ALWAYS the one the function side left. -/
theorem apTry_eq (st : StM.StT S (A → GoM B)) (a : Try A) (s : S) :
    StM.apTry st a s = (st s >>= fun x =>
      match x.1, a with
      | .failure .nil, _ => throw "ErrNotInit"
      | .failure e, _ => Pure.pure (.failure e, x.2)
      | .success _, .failure .nil => throw "ErrNotInit"
      | .success _, .failure e => Pure.pure (.failure e, x.2)
      | .success f, .success v => do let b ← f v; Pure.pure (.success b, x.2)) := by
  simp only [StM.apTry]
  congr 1
  funext ⟨af, ns⟩
  cases af with
  | success f =>
    cases a with
    | success v => simp [ap, map, lift, TryM.ops, TryM.flatMap]
    | failure e => cases e <;> simp [ap, map, lift, TryM.ops, TryM.flatMap, Try.failedGet]
  | failure e => cases e <;> simp [ap, TryM.ops, TryM.flatMap, Try.failedGet]

/-- GENERAL form: the function side may have effects `act` before it fails; they are kept; its error and ITS state
    come back; the argument is not looked at, nothing is applied -/
theorem apTry_function_failure_eff {X : Type} (st : StM.StT S (A → GoM B)) (a : Try A) (s ns : S) (e : Err)
    (he : e ≠ .nil) (act : GoM X) (h : st s = act >>= fun _ => Pure.pure (.failure e, ns)) :
    StM.apTry st a s = act >>= fun _ => Pure.pure (.failure e, ns) := by
  simp [StM.apTry, h, ap, TryM.ops, TryM.flatMap, he]

/-- the function side fails: its error and ITS state come back; the argument is not looked at, nothing is applied
    (the effect-free instance of `apTry_function_failure_eff`) -/
theorem apTry_function_failure (st : StM.StT S (A → GoM B)) (a : Try A) (s ns : S) (e : Err) (he : e ≠ .nil)
    (h : st s = Pure.pure (.failure e, ns)) :
    StM.apTry st a s = Pure.pure (.failure e, ns) := by
  simpa using apTry_function_failure_eff st a s ns e he (Pure.pure ()) (by simpa using h)

/-- GENERAL form: the function side succeeds after effects `act`, the argument is a Failure: the effects, then
    that error; the function is not applied -/
theorem apTry_argument_failure_eff {X : Type} (st : StM.StT S (A → GoM B)) (s ns : S) (f : A → GoM B) (e : Err)
    (he : e ≠ .nil) (act : GoM X) (h : st s = act >>= fun _ => Pure.pure (.success f, ns)) :
    StM.apTry st (.failure e) s = act >>= fun _ => Pure.pure (.failure e, ns) := by
  simp [StM.apTry, h, ap, map, lift, TryM.ops, TryM.flatMap, he]

/-- the function side succeeds, the argument is a Failure: that error, the function is not applied -/
theorem apTry_argument_failure (st : StM.StT S (A → GoM B)) (s ns : S) (f : A → GoM B) (e : Err) (he : e ≠ .nil)
    (h : st s = Pure.pure (.success f, ns)) :
    StM.apTry st (.failure e) s = Pure.pure (.failure e, ns) := by
  simpa using apTry_argument_failure_eff st s ns f e he (Pure.pure ()) (by simpa using h)

theorem apOption_none_eff {X : Type} (st : StM.StT S (A → GoM B)) (s ns : S) (f : A → GoM B) (act : GoM X)
    (h : st s = act >>= fun _ => Pure.pure (.success f, ns)) :
    StM.apOption st none s = act >>= fun _ => Pure.pure (.failure .optionEmpty, ns) := by
  simp [StM.apOption, h, ap, map, lift, TryM.ops, TryM.flatMap, TryM.fromOption]

theorem apOption_none (st : StM.StT S (A → GoM B)) (s ns : S) (f : A → GoM B)
    (h : st s = Pure.pure (.success f, ns)) :
    StM.apOption st none s = Pure.pure (.failure .optionEmpty, ns) := by
  simpa using apOption_none_eff st s ns f (Pure.pure ()) (by simpa using h)

/-- excluded branches: a zero-value function side or argument makes `ApTry` panic (after the function side's effects) -/
theorem apTry_zero {X : Type} (st : StM.StT S (A → GoM B)) (a : Try A) (s ns : S) (f : A → GoM B) (act : GoM X) :
    (st s = (act >>= fun _ => Pure.pure (.failure .nil, ns)) →
      StM.apTry st a s = act >>= fun _ => throw "ErrNotInit") ∧
    (st s = (act >>= fun _ => Pure.pure (.success f, ns)) →
      StM.apTry st (.failure .nil) s = act >>= fun _ => throw "ErrNotInit") := by
  constructor <;> intro h <;> simp [StM.apTry, h, ap, map, lift, TryM.ops, TryM.flatMap]

-- non-vacuity
example : (Err.code 3) ≠ .nil := by decide
example : ∃ (fa : Nat → GoM (Try Nat)) (l : List Event), fa 1 = (do (l.forM emit : GoM Unit); pure (.failure (.code 3))) :=
  ⟨fun _ => do (["k"].forM emit : GoM Unit); pure (.failure (.code 3)), ["k"], rfl⟩

/-- a function side that LOGS, moves the state and fails: meets the `_eff` hypothesis, not the effect-free one -/
example : ∃ (st : StM.StT Nat (Nat → GoM Nat)) (act : GoM Unit),
    st 1 = (act >>= fun _ => Pure.pure (.failure (.code 2), 5)) ∧ st 1 ≠ Pure.pure (.failure (.code 2), 5) :=
  ⟨fun _ => do emit "k"; Pure.pure (.failure (.code 2), 5), emit "k", rfl, by
    intro h
    have := congrArg (fun m => (GoM.exec m).2) h
    revert this
    decide⟩

end FpVerif.Spec.C02
