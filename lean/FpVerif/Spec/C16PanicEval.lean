import FpVerif.Lemmas.EvalPanic
import FpVerif.Lemmas.ListPanic
/-!
# C16, run-once with panicking thunks — the Eval level (`lazy.Call`, `lazy.TailCall`) and the list cells (`fp.MakeList`)

Models: `Model/EvalPanic.lean`, `Model/ListPanic.lean` (memo cells in a heap; a cell is forced by `MemoPanic.get`).
What the Go code does (checked against the real code by the `memopanic` harness before it was proved):

* `c := lazy.Call(f)`, `f` panics: the first `c.Get()` panics with `f`'s panic; every later `c.Get()` returns the
  ZERO value of `T`, runs nothing.
* `t := lazy.TailCall(f)`, `f` panics before returning its Eval: the first `t.Get()` panics; the memo then holds the
  zero `Eval[T]{}`, which `Run` evaluates to the zero value of `T`: every later `t.Get()` returns zero, runs nothing.
* `l := fp.MakeList(head, tail)`, `head` panics: the first `l.Head()` / `l.IsEmpty()` panics; afterwards the cell holds
  `None`: `l.IsEmpty()` is true and `l.Head()` panics with "List.empty" — the list has silently become empty.
  `tail` panics: the first `l.Tail()` panics, afterwards `l.Tail()` returns the nil interface.
In all cases the thunk is never started a second time, whatever the client program does in between.
-/
namespace FpVerif.Spec.C16PanicEval
open FpVerif FpVerif.It FpVerif.MemoPanic

deriving instance DecidableEq for Except
deriving instance DecidableEq for FpVerif.ListP.Ans

-- ================================================================================== lazy.Eval
section Eval
open FpVerif.EvalP
variable {T : Type}

/-- For EVERY client program (any sequence of `x_j := <Eval expression>` and `x_j.Get()`, expressions built from Done,
    Call, TailCall(N), Map, FlatMap, Map2 and earlier variables, thunks that log, panic and change behaviour between
    executions, every iteration budget): at the end every `Call` / `TailCall` thunk has been started at most once, and
    exactly once iff its `Once` has fired. -/
theorem evalp_run_once (zero : T) (fuel : Nat) (cmds : List (Cmd T)) (lg : Log) :
    (∀ cc ∈ (execAll zero fuel cmds {} lg).2.1.calls, cc.cell.runs ≤ 1 ∧ (cc.cell.runs = 1 ↔ cc.cell.done = true))
    ∧ (∀ tc ∈ (execAll zero fuel cmds {} lg).2.1.tails, tc.cell.runs ≤ 1 ∧ (tc.cell.runs = 1 ↔ tc.cell.done = true)) := by
  have h := (goodE_execAll zero fuel cmds {} lg).ok ok_empty
  have key : ∀ {α : Type} (c : Cell α), CellOK c → c.runs ≤ 1 ∧ (c.runs = 1 ↔ c.done = true) := by
    intro α c hc
    unfold CellOK at hc
    cases hd : c.done <;> simp [hd] at hc ⊢ <;> omega
  exact ⟨fun cc hcc => key _ (h.1 cc hcc), fun tc htc => key _ (h.2 tc htc)⟩

/-- a cell, once fired, is frozen: no later statement of the client program changes it -/
theorem evalp_fired_cell_frozen (zero : T) (fuel : Nat) (cmds : List (Cmd T)) (hp : Heap T) (lg : Log)
    (c : Nat) (cc : CallCell T) (hc : hp.calls[c]? = some cc) (hd : cc.cell.done = true) :
    (execAll zero fuel cmds hp lg).2.1.calls[c]? = some cc := by
  obtain ⟨cc', h1, _, h3⟩ := (goodE_execAll zero fuel cmds hp lg).calls c cc hc
  rw [h1, h3 hd]

/-- `c := lazy.Call(f); c.Get(); …anything…; c.Get()`: the first `Get` IS the first execution of `f` (value or panic,
    its events); every later `Get` — after any further statements of the program — returns the memoised value,
    the ZERO value if `f` panicked, logs nothing and changes nothing. -/
theorem call_get_then_get (zero : T) (f : Nat → GoM T) (hp : Heap T) (lg : Log) (fuel : Nat) :
    ∃ e hp1, build zero (.call f) hp lg = (.ok e, hp1, lg)
      ∧ ∃ hp2, runLoop zero (fuel + 1) e hp1 lg = (((f 0).run.run lg).1, hp2, ((f 0).run.run lg).2)
      ∧ ∀ (between : List (Cmd T)) (fuel' fuel'' : Nat) (lg2 lg3 : Log),
          runLoop zero (fuel'' + 1) e (execAll zero fuel' between hp2 lg2).2.1 lg3
            = (.ok (memoOf zero ((f 0).run.run lg).1), (execAll zero fuel' between hp2 lg2).2.1, lg3) := by
  refine ⟨_, _, build_call zero f hp lg, ?_⟩
  obtain ⟨hp2, h2, cc, hcc, hd, hr⟩ := call_first zero fuel hp.calls.length f
    { hp with calls := hp.calls ++ [{ f := f, cell := Cell.fresh zero }] } lg (getElem?_concat_self _ _)
  refine ⟨hp2, h2, ?_⟩
  intro between fuel' fuel'' lg2 lg3
  rw [← hr]
  exact call_later zero hp.calls.length cc hp2 hcc hd between fuel' fuel'' lg2 lg3

/-- specialisation: the thunk panics — first `Get` panics, every later `Get` returns the zero value -/
theorem call_panics_get_then_get (zero : T) (f : Nat → GoM T) (hp : Heap T) (lg lg' : Log) (p : PanicVal) (fuel : Nat)
    (hf : (f 0).run.run lg = (.error p, lg')) :
    ∃ e hp1, build zero (.call f) hp lg = (.ok e, hp1, lg)
      ∧ ∃ hp2, runLoop zero (fuel + 1) e hp1 lg = (.error p, hp2, lg')
      ∧ ∀ (between : List (Cmd T)) (fuel' fuel'' : Nat) (lg2 lg3 : Log),
          runLoop zero (fuel'' + 1) e (execAll zero fuel' between hp2 lg2).2.1 lg3
            = (.ok zero, (execAll zero fuel' between hp2 lg2).2.1, lg3) := by
  obtain ⟨e, hp1, h1, hp2, h2, h3⟩ := call_get_then_get zero f hp lg fuel
  rw [hf] at h2 h3
  exact ⟨e, hp1, h1, hp2, h2, h3⟩

theorem evalp_fired_tail_frozen (zero : T) (fuel : Nat) (cmds : List (Cmd T)) (hp : Heap T) (lg : Log)
    (c : Nat) (tc : TailCell T) (hc : hp.tails[c]? = some tc) (hd : tc.cell.done = true) :
    (execAll zero fuel cmds hp lg).2.1.tails[c]? = some tc := by
  obtain ⟨tc', h1, _, h3⟩ := (goodE_execAll zero fuel cmds hp lg).tails c tc hc
  rw [h1, h3 hd]

/-- `t := lazy.TailCall(f); t.Get(); …anything…; t.Get()` where `f` panics (after logging whatever it logs) instead of
    returning its Eval: the first `Get` panics with that panic; every later `Get` returns the ZERO value of `T`
    (the memo holds the zero `Eval[T]{}`), logs nothing, changes nothing: `f` is not started again. -/
theorem tailCall_panics_get_then_get (zero : T) (f : Nat → Prog T) (hp : Heap T) (lg : Log) (fuel : Nat) :
    ∃ e hp1, build zero (.tailCall f) hp lg = (.ok e, hp1, lg)
      ∧ ∀ (p : PanicVal) (hp1' : Heap T) (lg' : Log), build zero (f 0) hp1 lg = (.error p, hp1', lg') →
        ∃ hp2, runLoop zero (fuel + 1) e hp1 lg = (.error p, hp2, lg')
        ∧ ∀ (between : List (Cmd T)) (fuel' fuel'' : Nat) (lg2 lg3 : Log),
            runLoop zero (fuel'' + 2) e (execAll zero fuel' between hp2 lg2).2.1 lg3
              = (.ok zero, (execAll zero fuel' between hp2 lg2).2.1, lg3) := by
  refine ⟨_, _, build_tailCall zero f hp lg, ?_⟩
  intro p hp1' lg' hb
  obtain ⟨hp2, h2, tc', htc, hd, hr⟩ := tail_first_panic zero fuel hp.tails.length
    { f := f, cell := Cell.fresh (.leaf .nil) }
    { hp with tails := hp.tails ++ [{ f := f, cell := Cell.fresh (.leaf .nil) }] } hp1' lg lg' p
    (getElem?_concat_self _ _) rfl hb
  refine ⟨hp2, h2, ?_⟩
  intro between fuel' fuel'' lg2 lg3
  rw [tail_later zero hp.tails.length tc' hp2 htc hd between fuel' (fuel'' + 1) lg2 lg3, hr]
  exact runLoop_zero zero fuel'' _ lg3

/-- … where `f` returns the Eval `e'`: the first `Get` continues with `e'`; every later `Get` continues with the SAME
    `e'` (the memo) without consulting `f` again — what `f` would do in a second execution is irrelevant. -/
theorem tailCall_returns_get_then_get (zero : T) (f : Nat → Prog T) (hp : Heap T) (lg : Log) (fuel : Nat) :
    ∃ e hp1, build zero (.tailCall f) hp lg = (.ok e, hp1, lg)
      ∧ ∀ (e' : EvalV T) (hp1' : Heap T) (lg' : Log), build zero (f 0) hp1 lg = (.ok e', hp1', lg') →
        ∃ hp2, runLoop zero (fuel + 1) e hp1 lg = runLoop zero fuel e' hp2 lg'
        ∧ ∀ (between : List (Cmd T)) (fuel' fuel'' : Nat) (lg2 lg3 : Log),
            runLoop zero (fuel'' + 1) e (execAll zero fuel' between hp2 lg2).2.1 lg3
              = runLoop zero fuel'' e' (execAll zero fuel' between hp2 lg2).2.1 lg3 := by
  refine ⟨_, _, build_tailCall zero f hp lg, ?_⟩
  intro e' hp1' lg' hb
  obtain ⟨hp2, h2, tc', htc, hd, hr⟩ := tail_first_ok zero fuel hp.tails.length
    { f := f, cell := Cell.fresh (.leaf .nil) }
    { hp with tails := hp.tails ++ [{ f := f, cell := Cell.fresh (.leaf .nil) }] } hp1' lg lg' e'
    (getElem?_concat_self _ _) rfl hb
  refine ⟨hp2, h2, ?_⟩
  intro between fuel' fuel'' lg2 lg3
  rw [tail_later zero hp.tails.length tc' hp2 htc hd between fuel' fuel'' lg2 lg3, hr]

-- non-vacuity: the two scenarios of the task, computed by the model ------------------------------------------------

/-- logs `run<k>`, panics "boom" the first time, would return 42 the second time -/
def flaky : Nat → GoM Int := fun k => do
  emit s!"run{k}"
  if k = 0 then goPanic "boom" else pure 42

/-- `c := lazy.Call(flaky); c.Get(); c.Get()` -/
example : (execAll (0 : Int) 10 [.define (.call flaky), .get 0, .get 0] {} []).1
    = .ok [.ok none, .error "boom", .ok (some 0)] := by decide
example : (execAll (0 : Int) 10 [.define (.call flaky), .get 0, .get 0] {} []).2.2 = ["run0"] := by decide

/-- `t := lazy.TailCall(func() Eval { log; panic / return Done(42) }); t.Get(); t.Get()` -/
def flakyE : Nat → Prog Int := fun k => .logged [s!"run{k}"] (if k = 0 then .panic "boom" else .done 42)
example : (execAll (0 : Int) 10 [.define (.tailCall flakyE), .get 0, .get 0] {} []).1
    = .ok [.ok none, .error "boom", .ok (some 0)] := by decide
example : (execAll (0 : Int) 10 [.define (.tailCall flakyE), .get 0, .get 0] {} []).2.2 = ["run0"] := by decide

/-- `c.Map(f)` after the panic: `f` is applied to the zero value (`Call.Map#2 = 100` on the real code) -/
example : (execAll (0 : Int) 10 [.define (.map (.call flaky) (fun x => pure (x + 100))), .get 0, .get 0] {} []).1
    = .ok [.ok none, .error "boom", .ok (some 100)] := by decide

end Eval

-- ================================================================================== fp.MakeList cells
section Lists
open FpVerif.ListP
variable {T : Type}

/-- For EVERY client program over lists built with `fp.MakeList`, `list.GenerateFrom`, `list.Recurrence1`, `list.Apply`
    (statements: define, IsEmpty, Head, Tail, ToSeq; thunks that log, panic and change behaviour between executions):
    every head / tail thunk has been started at most once, exactly once iff its `Once` has fired. -/
theorem listp_run_once (fuel : Nat) (cmds : List (Cmd T)) (lg : Log) :
    (∀ hc ∈ (execAll fuel cmds {} lg).2.1.heads, hc.cell.runs ≤ 1 ∧ (hc.cell.runs = 1 ↔ hc.cell.done = true))
    ∧ (∀ tc ∈ (execAll fuel cmds {} lg).2.1.tails, tc.cell.runs ≤ 1 ∧ (tc.cell.runs = 1 ↔ tc.cell.done = true)) := by
  have h := (goodE_execAll fuel cmds {} lg).ok ok_empty
  have key : ∀ {α : Type} (c : Cell α), CellOK c → c.runs ≤ 1 ∧ (c.runs = 1 ↔ c.done = true) := by
    intro α c hc
    unfold CellOK at hc
    cases hd : c.done <;> simp [hd] at hc ⊢ <;> omega
  exact ⟨fun hc hhc => key _ (h.1 hc hhc), fun tc htc => key _ (h.2 tc htc)⟩

theorem listp_fired_head_frozen (fuel : Nat) (cmds : List (Cmd T)) (hp : Heap T) (lg : Log)
    (c : Nat) (hc : HCell T) (h : hp.heads[c]? = some hc) (hd : hc.cell.done = true) :
    (execAll fuel cmds hp lg).2.1.heads[c]? = some hc := by
  obtain ⟨hc', h1, _, h3⟩ := (goodE_execAll fuel cmds hp lg).heads c hc h
  rw [h1, h3 hd]

theorem listp_fired_tail_frozen (fuel : Nat) (cmds : List (Cmd T)) (hp : Heap T) (lg : Log)
    (c : Nat) (tc : TCell T) (h : hp.tails[c]? = some tc) (hd : tc.cell.done = true) :
    (execAll fuel cmds hp lg).2.1.tails[c]? = some tc := by
  obtain ⟨tc', h1, _, h3⟩ := (goodE_execAll fuel cmds hp lg).tails c tc h
  rw [h1, h3 hd]

/-- `l := fp.MakeList(head, tl)` whose HEAD thunk panics: the first `l.Head()` (and likewise a first `l.IsEmpty()`)
    panics with the thunk's panic; from then on — after any further statements — `l.IsEmpty()` is `true` and
    `l.Head()` panics with "List.empty", nothing is logged, nothing changes: the head thunk is not started again. -/
theorem makeList_head_panics (head : Nat → GoM (Option T)) (tl : Nat → LProg T) (hp : Heap T) (lg lg' : Log)
    (p : PanicVal) (hf : (head 0).run.run lg = (.error p, lg')) :
    ∃ l hp1, build (.make head tl) hp lg = (.ok l, hp1, lg)
      ∧ ∃ hp2, ListP.head l hp1 lg = (.error p, hp2, lg') ∧ ListP.isEmpty l hp1 lg = (.error p, hp2, lg')
      ∧ ∀ (between : List (Cmd T)) (fuel' : Nat) (lg2 lg3 : Log),
          ListP.isEmpty l (execAll fuel' between hp2 lg2).2.1 lg3 = (.ok true, (execAll fuel' between hp2 lg2).2.1, lg3)
          ∧ ListP.head l (execAll fuel' between hp2 lg2).2.1 lg3
              = (.error listEmpty, (execAll fuel' between hp2 lg2).2.1, lg3) := by
  refine ⟨_, _, build_make head tl hp lg, ?_⟩
  obtain ⟨hp2, h2, hcell, hc2, hd, hr⟩ := head_first hp.heads.length head
    { hp with heads := hp.heads ++ [{ f := head, cell := Cell.fresh none }],
              tails := hp.tails ++ [{ f := tl, cell := Cell.fresh .nilIface }] } lg (getElem?_concat_self _ _)
  rw [hf] at h2 hr
  refine ⟨hp2, ?_, ?_, ?_⟩
  · simp only [ListP.head, im_bind_apply, h2]
  · simp only [ListP.isEmpty, im_bind_apply, h2]
  · intro between fuel' lg2 lg3
    have hl := head_later hp.heads.length hcell hp2 hc2 hd between fuel' lg2 lg3
    rw [hr] at hl
    constructor
    · simp only [ListP.isEmpty, im_bind_apply, hl]; rfl
    · simp only [ListP.head, im_bind_apply, hl]; rfl

/-- … whose head thunk returns `Some v` / `None`: every later `Head()` / `IsEmpty()` answers from the memo -/
theorem makeList_head_returns (head : Nat → GoM (Option T)) (tl : Nat → LProg T) (hp : Heap T) (lg lg' : Log)
    (o : Option T) (hf : (head 0).run.run lg = (.ok o, lg')) :
    ∃ l hp1, build (.make head tl) hp lg = (.ok l, hp1, lg)
      ∧ ∃ hp2, ListP.isEmpty l hp1 lg = (.ok o.isNone, hp2, lg')
      ∧ ∀ (between : List (Cmd T)) (fuel' : Nat) (lg2 lg3 : Log),
          ListP.isEmpty l (execAll fuel' between hp2 lg2).2.1 lg3
            = (.ok o.isNone, (execAll fuel' between hp2 lg2).2.1, lg3) := by
  refine ⟨_, _, build_make head tl hp lg, ?_⟩
  obtain ⟨hp2, h2, hcell, hc2, hd, hr⟩ := head_first hp.heads.length head
    { hp with heads := hp.heads ++ [{ f := head, cell := Cell.fresh none }],
              tails := hp.tails ++ [{ f := tl, cell := Cell.fresh .nilIface }] } lg (getElem?_concat_self _ _)
  rw [hf] at h2 hr
  refine ⟨hp2, ?_, ?_⟩
  · simp only [ListP.isEmpty, im_bind_apply, h2]; rfl
  · intro between fuel' lg2 lg3
    have hl := head_later hp.heads.length hcell hp2 hc2 hd between fuel' lg2 lg3
    rw [hr] at hl
    simp only [ListP.isEmpty, im_bind_apply, hl]; rfl

/-- `l := fp.MakeList(head, tl)` whose TAIL thunk panics: the first `l.Tail()` panics with the thunk's panic; from
    then on `l.Tail()` returns the NIL interface, logs nothing, changes nothing (and every method call on that nil
    value is a nil dereference): the tail thunk is not started again. -/
theorem makeList_tail_panics (head : Nat → GoM (Option T)) (tl : Nat → LProg T) (hp : Heap T) (lg : Log) :
    ∃ l hp1, build (.make head tl) hp lg = (.ok l, hp1, lg)
      ∧ ∀ (p : PanicVal) (hp1' : Heap T) (lg' : Log), build (tl 0) hp1 lg = (.error p, hp1', lg') →
        ∃ hp2, ListP.tail l hp1 lg = (.error p, hp2, lg')
        ∧ ∀ (between : List (Cmd T)) (fuel' : Nat) (lg2 lg3 : Log),
            ListP.tail l (execAll fuel' between hp2 lg2).2.1 lg3
              = (.ok .nilIface, (execAll fuel' between hp2 lg2).2.1, lg3) := by
  refine ⟨_, _, build_make head tl hp lg, ?_⟩
  intro p hp1' lg' hb
  obtain ⟨hp2, h2, tc', htc, hd, hr⟩ := tail_first_panic hp.tails.length
    { f := tl, cell := Cell.fresh .nilIface }
    { hp with heads := hp.heads ++ [{ f := head, cell := Cell.fresh none }],
              tails := hp.tails ++ [{ f := tl, cell := Cell.fresh .nilIface }] } hp1' lg lg' p
    (getElem?_concat_self _ _) rfl hb
  refine ⟨hp2, h2, ?_⟩
  intro between fuel' lg2 lg3
  have hl := tail_later hp.tails.length tc' hp2 htc hd between fuel' lg2 lg3
  rw [hr] at hl
  exact hl

/-- every method of the nil interface is a nil dereference -/
theorem nilIface_methods (hp : Heap T) (lg : Log) :
    ListP.isEmpty (.nilIface : LV T) hp lg = (.error nilDeref, hp, lg)
    ∧ ListP.head (.nilIface : LV T) hp lg = (.error nilDeref, hp, lg)
    ∧ ListP.tail (.nilIface : LV T) hp lg = (.error nilDeref, hp, lg) := ⟨rfl, rfl, rfl⟩

-- non-vacuity ---------------------------------------------------------------------------------------------------

def flakyHead : Nat → GoM (Option Int) := fun k => do
  emit s!"head{k}"
  if k = 0 then goPanic "boom" else pure (some 42)

/-- `l := MakeList(flakyHead, …); l.Head(); l.Head(); l.IsEmpty()` -/
example : (execAll 10 [.define (.make flakyHead (fun _ => .empty)), .head 0, .head 0, .isEmpty 0] {} []).2.2
    = ["head0"] := by decide

/-- a generated list `0, 10, 20` whose element 1 panics once: the second traversal silently stops before it -/
def gen3 : Int → Nat → GoM (Option Int) := fun i k =>
  if i = 1 ∧ k = 0 then goPanic "boom" else pure (if i < 3 then some (10 * i) else none)

example : (execAll 5 [.define (.generateFrom 0 gen3), .toSeq 0, .toSeq 0] ({} : Heap Int) []).1
    = .ok [.ok .unit, .error "boom", .ok (.seq [0])] := by decide

end Lists

end FpVerif.Spec.C16PanicEval
