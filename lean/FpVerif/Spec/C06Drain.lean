import FpVerif.Lemmas.FutDrain
import FpVerif.Spec.C06Live
/-!
# C06 — "always complete": the task queue of the future network always drains

`Spec/C06Live.lean` shows: whenever the queue is EMPTY every promise holds exactly what its expression
determines.  What was missing for "the derived future completes … as soon as the sources that evaluation
depends on are complete" is that the queue DOES become empty: that callback chains terminate.  This file
proves it, with no assumption on the net other than that it was reached from the initial one by scheduler
events (any events, not even `Valid` ones):

* `runs_terminate`        — every sequence of task runs from a reachable net is finite (`Acc`), hence
* `no_infinite_run`       — there is no infinite sequence of task runs, whatever the executor picks;
* `drains`                — a schedule of task runs that empties the queue exists (run the first task until none is left), and
  `any_strategy_drains`   — EVERY strategy that keeps picking an existing task empties it after finitely many steps;
* `eventually_exact`      — from every reachable state of a valid run, letting the executor work off the queue (no further
                             source completes, nothing new is constructed) ends, and ends in the state where every promise
                             holds exactly the three-valued value of its expression (`exact_at_quiescence`).

The termination argument (`Lemmas/FutDrain.lean`) is a multiset ("hydra") ordering: a task either completes a
promise — which only MOVES registered callbacks into the pool — or applies ONE continuation to ONE value and
builds the resulting expression, all of whose continuations are structural sub-terms of the one consumed.
`FExpr` is infinitely branching, so no natural-number measure exists; well-foundedness of the multiset
extension is Mathlib's `WellFounded.cutExpand` (the only use of Mathlib in the project; axioms unchanged:
propext, Classical.choice, Quot.sound).

Audit finding 1 (session 6): `Valid` now includes the well-formedness side condition (`EvOK`: a source is never completed
with `Try{}` / `Failure(nil)`, every constructed program is `WFE` — Lemmas/FutWF.lean).  The theorems of this file take
`Valid` as hypothesis, so they no longer speak about runs in which a task of the Go code would panic in
`t.Failed().Get()` and leave its promise pending (`C06.illformed_source_excluded`); along a valid run no ill-formed Try
ever exists (`C06.wellformed_every_schedule`).
-/
namespace FpVerif.Spec.C06
open FpVerif FpVerif.Fut FpVerif.Fut.Drain

/-- Every sequence of task runs that starts in a net reachable from `nsrc` pending sources by ANY events is finite. -/
theorem runs_terminate (nsrc : Nat) (evs : List Ev) : Acc RunRel (runEvs (Net.empty nsrc) evs) :=
  acc_runRel _ (supp_runEvs evs _ (supp_empty nsrc))

/-- … there is no infinite run of the executor. -/
theorem no_infinite_run (nsrc : Nat) (evs : List Ev) :
    ¬ ∃ f : Nat → Net, f 0 = runEvs (Net.empty nsrc) evs ∧ ∀ k, RunRel (f (k + 1)) (f k) := by
  rintro ⟨f, h0, hf⟩
  have key : ∀ n, Acc RunRel n → ∀ k, f k = n → False := by
    intro n hacc
    induction hacc with
    | intro n _ ih => intro k hk; exact ih (f (k + 1)) (hk ▸ hf k) (k + 1) rfl
  exact key _ (runs_terminate nsrc evs) 0 h0

/-- a strategy: which queued task the executor runs next (any function of the whole net) -/
def follow (pick : Net → Nat) : Nat → Net → Net
  | 0, n => n
  | k + 1, n => follow pick k (step n (.run (pick n)))

/-- Every strategy that always picks an existing task while there is one empties the queue after finitely many steps. -/
theorem any_strategy_drains_acc (pick : Net → Nat) (hpick : ∀ n : Net, n.pool ≠ [] → pick n < n.pool.length)
    (n : Net) (h : Acc RunRel n) : ∃ k, (follow pick k n).pool = [] := by
  induction h with
  | intro n _ ih =>
    by_cases hp : n.pool = []
    · exact ⟨0, hp⟩
    · have hlt := hpick n hp
      have hr : RunRel (step n (.run (pick n))) n :=
        ⟨pick n, n.pool[pick n], by simp [List.getElem?_eq_getElem hlt], rfl⟩
      obtain ⟨k, hk⟩ := ih _ hr
      exact ⟨k + 1, hk⟩

theorem any_strategy_drains (nsrc : Nat) (evs : List Ev) (pick : Net → Nat)
    (hpick : ∀ n : Net, n.pool ≠ [] → pick n < n.pool.length) :
    ∃ k, (follow pick k (runEvs (Net.empty nsrc) evs)).pool = [] :=
  any_strategy_drains_acc pick hpick _ (runs_terminate nsrc evs)

/-- the events a strategy produces -/
def followEvs (pick : Net → Nat) : Nat → Net → List Ev
  | 0, _ => []
  | k + 1, n => .run (pick n) :: followEvs pick k (step n (.run (pick n)))

theorem follow_eq_runEvs (pick : Net → Nat) : ∀ (k : Nat) (n : Net), follow pick k n = runEvs n (followEvs pick k n) := by
  intro k
  induction k with
  | zero => intro n; rfl
  | succ k ih => intro n; simp [follow, followEvs, runEvs, ih]

theorem followEvs_runs (pick : Net → Nat) : ∀ (k : Nat) (n : Net), ∀ ev ∈ followEvs pick k n, ∃ i, ev = .run i := by
  intro k
  induction k with
  | zero => intro n ev h; simp [followEvs] at h
  | succ k ih =>
    intro n ev h
    simp only [followEvs, List.mem_cons] at h
    rcases h with rfl | h
    · exact ⟨_, rfl⟩
    · exact ih _ ev h

/-- A schedule of task runs that empties the queue exists from every reachable net. -/
theorem drains (nsrc : Nat) (evs : List Ev) :
    ∃ runs : List Ev, (∀ ev ∈ runs, ∃ i, ev = .run i) ∧ (runEvs (Net.empty nsrc) (evs ++ runs)).pool = [] := by
  obtain ⟨k, hk⟩ := any_strategy_drains nsrc evs (fun _ => 0) (fun n hn => List.length_pos_iff.2 hn)
  refine ⟨followEvs (fun _ => 0) k (runEvs (Net.empty nsrc) evs), followEvs_runs _ k _, ?_⟩
  rw [follow_eq_runEvs] at hk
  simpa [runEvs, List.foldl_append] using hk

theorem valid_append_runs (nsrc : Nat) : ∀ (evs : List Ev) (n : Net) (runs : List Ev),
    Valid nsrc n evs → (∀ ev ∈ runs, ∃ i, ev = .run i) → Valid nsrc n (evs ++ runs) := by
  intro evs
  induction evs with
  | nil =>
    intro n runs _ hr
    clear * - hr
    induction runs generalizing n with
    | nil => trivial
    | cons r rs ih =>
      obtain ⟨i, rfl⟩ := hr _ (List.mem_cons_self)
      exact ⟨trivial, ih _ (fun ev h => hr ev (List.mem_cons_of_mem _ h))⟩
  | cons ev evs ih =>
    intro n runs hv hr
    exact ⟨hv.1, ih _ runs hv.2 hr⟩

/-- **Always complete.**  After any valid run (program constructs first-order futures, environment completes
    sources, executor runs tasks — in any order), if from then on the executor just works off its queue, in
    WHATEVER order, it gets done after finitely many tasks, and then every promise holds exactly the
    three-valued value of its expression over the statuses: each derived future whose expression is determined
    by the sources completed so far IS completed, with that value. -/
theorem eventually_exact (nsrc : Nat) (evs : List Ev) (hv : Valid nsrc (Net.empty nsrc) evs)
    (pick : Net → Nat) (hpick : ∀ n : Net, n.pool ≠ [] → pick n < n.pool.length) :
    ∃ k, let n := follow pick k (runEvs (Net.empty nsrc) evs)
      n.pool = [] ∧ ∀ p, p < n.next → n.status p = evalS n.status (n.spec p) := by
  obtain ⟨k, hk⟩ := any_strategy_drains nsrc evs pick hpick
  refine ⟨k, hk, ?_⟩
  have heq : follow pick k (runEvs (Net.empty nsrc) evs)
      = runEvs (Net.empty nsrc) (evs ++ followEvs pick k (runEvs (Net.empty nsrc) evs)) := by
    rw [follow_eq_runEvs]; simp [runEvs, List.foldl_append]
  intro p hp
  rw [heq] at hk hp ⊢
  exact exact_at_quiescence nsrc _ (valid_append_runs nsrc evs _ _ hv (followEvs_runs pick k _)) hk p hp

/-- non-vacuity: a reachable net with three queued tasks; the "always the last task" strategy empties it. -/
example :
    let evs : List Ev := [.mk (Fut.map2 0 1 (fun x y => (.tup [x, y], []))), .obs 0 7, .obs 1 8,
                          .src 1 (.success (.int 5)), .src 0 (.success (.int 4))]
    (runEvs (Net.empty 2) evs).pool.length = 3 ∧
    (follow (fun n => n.pool.length - 1) 6 (runEvs (Net.empty 2) evs)).pool = [] ∧
    (follow (fun n => n.pool.length - 1) 6 (runEvs (Net.empty 2) evs)).status 2 = some (.success (.tup [.int 4, .int 5])) := by
  refine ⟨rfl, rfl, rfl⟩

end FpVerif.Spec.C06
