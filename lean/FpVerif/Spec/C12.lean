import FpVerif.Lemmas.IterTerm
import FpVerif.Lemmas.IterPre
import FpVerif.Lemmas.PipeSim
import FpVerif.Lemmas.PipeBound
import FpVerif.Lemmas.IterPanic
import FpVerif.Lemmas.PipeDemand
import FpVerif.Lemmas.IterCbPanic
/-!
# C12 — Iterator combinators agree with eager Seq semantics, terminate, and are lazy

For every combinator `C` of `fp.Iterator` / package `iterator`:

    Represents it s [] l  →  Represents (C it) (s, c₀) [] (C_seq l)

where `C_seq` is the plain `List` function and `c₀` the initial value of the closure's captured
variables.  `Represents` is closed under these steps, so every pipeline built from the
combinators represents the composed list function — for all finite inputs `l`, all parameters,
all callbacks that do not panic (`Total p g`: `p` logs whatever it likes and returns `g a`).
Termination on finite inputs: the only unbounded Go loops are modelled with fuel and every theorem
holds for every fuel `> l.length`.

Terminal operations (folds, `ToSeq`, `Count`, `Find`, …) equal the list computation and leave the
iterator where the Go loop stops (`FoldTry`/`FoldOption`/`FoldError`/`Exists`/`ForAll`/`Find` stop
pulling at the first failure / hit).

Every pipeline: `pipe_joint` / `pipe_represents` — ONE theorem by induction over the `Pipe` AST (the
data type of library calls that the oracle executes): building any pipeline succeeds and its
iterator represents `Pipe.denote`; the invariant carried through the induction is the joint
invariant of the iterator and its `concat` field, with `ConcatInv` saying that the components before
`currentItr` are exhausted — so `x.Concat(y).Drop(n).Concat(z)` is covered (`concat_drop_concat`).

Laziness: see section "demand" — the instrumented source's pull counter after any script is bounded
by the number of elements the consumer obtained plus at most one (`Take`, `TakeWhile`, `Map`, `Scan`,
`Filter`, `DropWhile`, `FlatMap`, `Concat`, `Zip`).

Callbacks that may panic: section "callbacks that may panic" — for the terminal operations the step
function may panic (`Outcome`); the panic propagates and the iterator is left as after the last
completed pull.  Section "callbacks INSIDE a pipeline that panic or log" (audit finding 12): `Map`,
`Filter`, `TakeWhile` with a panicking callback under ANY script over any pipeline below
(`map_script_panic`, `filter_script_panic`, `takeWhile_script_panic`), `FlatMap` step, and the log of
`Map` with a logging callback in pull order (`map_log_pull_order`).

Demand over the pipeline AST (audit finding 13): section "demand, compositionally" — `pipe_demand`:
for EVERY linear pipeline (sources, `Map`, `TapEach`, `Take`, `TakeWhile`, `Scan`, `Zip*`,
`MakePullIterator`, `Concat`; with `Drop`: `pipe_demand_drop`), arbitrary callbacks and sources,
`Pipe.pulls ≤ width · (handed out + panicked) + lookahead`.

The lazy `List` part of the property is in `Spec/C12List.lean`.
-/
namespace FpVerif.Spec.C12
open FpVerif FpVerif.It

variable {σ σ₂ τ α β γ : Type}

/-! ## sources -/

theorem ofSeq_represents (tag : Option (α → Event)) (xs : List α) :
    Represents (ofSeq tag xs) 0 [] xs :=
  ⟨_, ofSeq_sim tag xs, by simp [ofSeqRel]⟩

theorem ofOption_represents (o : Option α) : Represents (ofOption o) true [] o.toList :=
  ⟨_, ofOption_sim o, by simp⟩

theorem empty_represents : Represents (empty : Machine Unit α) () [] [] := ⟨_, empty_sim, rfl⟩

/-- `Range(a, b)` yields `a, a+1, …, b-1`; `RangeClosed(a, b)` yields `a, …, b`. -/
theorem range_represents (closed : Bool) (from_ bound : Int) :
    Represents (range closed bound) from_ [] (intRange from_ (rangeCount closed bound from_)) :=
  ⟨_, range_sim closed bound, rfl⟩

theorem reverseSeq_represents (xs : List α) : Represents (reverseSeq xs) xs.length [] xs.reverse :=
  ⟨_, reverseSeq_sim xs, by simp⟩

/-- the history argument of `Represents` is ghost: it can be reset. -/
theorem represents_reset (m : Machine σ α) (s : σ) (d r : List α) (h : Represents m s d r) :
    Represents m s [] r := by
  obtain ⟨R, hS, hR⟩ := h
  refine ⟨fun s d' r => ∃ d0, R s (d0 ++ d') r, ⟨?_, ?_, ?_⟩, d, by simpa using hR⟩
  · rintro s d' r lg ⟨d0, h⟩
    obtain ⟨s', lg', e, h'⟩ := hS.hasNext s _ r lg h
    exact ⟨s', lg', e, d0, h'⟩
  · rintro s d' a r lg ⟨d0, h⟩
    obtain ⟨s', lg', e, h'⟩ := hS.next_cons s _ a r lg h
    exact ⟨s', lg', e, d0, by simpa using h'⟩
  · rintro s d' lg ⟨d0, h⟩
    obtain ⟨p, s', lg', e, h'⟩ := hS.next_nil s _ lg h
    exact ⟨p, s', lg', e, d0, h'⟩

/-! ## combinators: `Represents it l → Represents (C it) (C_seq l)` -/

theorem map_represents (f : α → GoM β) (g : α → β) (hf : Total f g) (m : Machine σ α) (s : σ)
    (l : List α) (h : Represents m s [] l) : Represents (map f m) s [] (l.map g) :=
  ⟨_, map_sim hf (Represents.sim m), [], l, h, rfl, rfl⟩

theorem tapEach_represents (f : α → GoM Unit) (hf : Total f (fun _ => ())) (m : Machine σ α) (s : σ)
    (l : List α) (h : Represents m s [] l) : Represents (tapEach f m) s [] l :=
  ⟨_, tapEach_sim hf (Represents.sim m), h⟩

/-- `Take(n)` for every `n`, also `n ≤ 0` and `n` beyond the end. -/
theorem take_represents (n : Int) (m : Machine σ α) (s : σ) (l : List α) (h : Represents m s [] l) :
    Represents (take n m) (s, 0) [] (l.take n.toNat) :=
  ⟨_, take_sim n (Represents.sim m), l, h, rfl, by simp⟩

/-- `Drop(n)` runs at construction time and returns the same iterator, advanced. -/
theorem drop_represents (n : Int) (m : Machine σ α) (s : σ) (l : List α) (h : Represents m s [] l)
    (lg : Log) :
    ∃ s' lg', drop n m s lg = (.ok (), s', lg') ∧ Represents m s' [] (l.drop n.toNat) := by
  obtain ⟨s', lg', e, hR⟩ := dropLoop_spec (Represents.sim m) n.toNat s [] l lg h
  exact ⟨s', lg', e, represents_reset m s' _ _ hR⟩

theorem takeWhile_represents (p : α → GoM Bool) (g : α → Bool) (hp : Total p g) (m : Machine σ α)
    (s : σ) (l : List α) (h : Represents m s [] l) :
    Represents (takeWhile p m) (s, {}) [] (l.takeWhile g) :=
  ⟨_, takeWhile_sim hp (Represents.sim m), [], l, h, by simp [TakeWhileInv]⟩

theorem dropWhile_represents (p : α → GoM Bool) (g : α → Bool) (hp : Total p g) (m : Machine σ α)
    (s : σ) (l : List α) (h : Represents m s [] l) (fuel : Nat) (hfuel : l.length < fuel) :
    Represents (dropWhile fuel p m) (s, {}) [] (l.dropWhile g) :=
  ⟨_, dropWhile_sim hp fuel (Represents.sim m), [], l, h, by simp [DropWhileInv, hfuel]⟩

theorem filter_represents (p : α → GoM Bool) (g : α → Bool) (hp : Total p g) (m : Machine σ α)
    (s : σ) (l : List α) (h : Represents m s [] l) (fuel : Nat) (hfuel : l.length < fuel) :
    Represents (filter fuel p m) (s, {}) [] (l.filter g) :=
  ⟨_, filter_sim hp fuel (Represents.sim m), [], l, h, by simp [FilterInvF, FilterInv, hfuel]⟩

theorem filterNot_represents (p : α → GoM Bool) (g : α → Bool) (hp : Total p g) (m : Machine σ α)
    (s : σ) (l : List α) (h : Represents m s [] l) (fuel : Nat) (hfuel : l.length < fuel) :
    Represents (filterNot fuel p m) (s, {}) [] (l.filter (fun x => !g x)) :=
  filter_represents _ _ (total_bind_pure hp (fun b => !b)) m s l h fuel hfuel

/-- `FlatMap`: `mf a` builds an iterator (state `gf a` of machine `inner`) that represents `hl a`. -/
theorem flatMap_represents (mf : α → GoM τ) (gf : α → τ) (hmf : Total mf gf) (inner : Machine τ β)
    (hl : α → List β) (hinner : ∀ a, Represents inner (gf a) [] (hl a))
    (m : Machine σ α) (s : σ) (l : List α) (h : Represents m s [] l) (fuel : Nat) (hfuel : l.length < fuel) :
    Represents (flatMap fuel mf inner m) (s, none) [] (l.flatMap hl) :=
  ⟨_, flatMap_sim hmf (Represents.sim inner) hinner fuel (Represents.sim m), [], l, h, hfuel, [], rfl, by simp⟩

/-- `FilterMap(it, fn) = FlatMap(it, IteratorOfOption ∘ fn)` keeps the defined results. -/
theorem filterMap_represents (fn : α → GoM (Option β)) (g : α → Option β) (hfn : Total fn g)
    (m : Machine σ α) (s : σ) (l : List α) (h : Represents m s [] l) (fuel : Nat) (hfuel : l.length < fuel) :
    Represents (filterMap fuel fn m) (s, none) [] (l.filterMap g) := by
  have hmf : Total (fun a => do let o ← fn a; pure (o, true)) (fun a => (g a, true)) :=
    total_bind_pure hfn (fun o => (o, true))
  have := flatMap_sim hmf optionIter_sim (h := fun a => (g a).toList) (fun a => by simp) fuel (Represents.sim m)
  refine ⟨_, this, [], l, h, hfuel, [], rfl, ?_⟩
  simp only [List.nil_append]
  have key : ∀ l : List α, l.filterMap g = l.flatMap (fun a => (g a).toList) := by
    intro l
    induction l with
    | nil => rfl
    | cons a l ih => cases hg : g a <;> simp [hg, List.flatMap_cons, ih]
  exact key l

theorem scan_represents (f : β → α → GoM β) (g : β → α → β) (hf : Total2 f g) (zero : β)
    (m : Machine σ α) (s : σ) (l : List α) (h : Represents m s [] l) :
    Represents (scan f m) (s, { sum := zero }) [] (scanl g zero l) :=
  ⟨_, scan_sim hf (Represents.sim m), [], l, h, by simp [ScanInv]⟩

theorem zip_represents (a : Machine σ α) (b : Machine σ₂ β) (sa : σ) (sb : σ₂) (la : List α) (lb : List β)
    (ha : Represents a sa [] la) (hb : Represents b sb [] lb) :
    Represents (zip a b) (sa, sb) [] (la.zip lb) :=
  ⟨_, zip_sim (Represents.sim a) (Represents.sim b), [], la, [], lb, ha, hb, rfl⟩

theorem zipWithIndex_represents (m : Machine σ α) (s : σ) (l : List α) (h : Represents m s [] l) :
    Represents (zipWithIndex m) (0, s) [] (zipIdx 0 l) :=
  ⟨_, zipWithIndex_sim (Represents.sim m), [], l, h, rfl⟩

/-- `a.Concat(b)` for two iterators that are not themselves `Concat` results. -/
theorem concat_represents (a : Machine σ α) (b : Machine σ₂ α) (sa : σ) (sb : σ₂) (la lb : List α)
    (ha : Represents a sa [] la) (hb : Represents b sb [] lb) :
    Represents (concat ((MMachine.single a).join (MMachine.single b))) ((sa, sb), {}) [] (la ++ lb) := by
  have hms := join_msim (single_msim (Represents.sim a)) (single_msim (Represents.sim b))
  refine ⟨_, concat_sim hms, fun i => if i = 0 then la else lb, ?_, ?_⟩
  · exact ⟨fun _ => la, fun _ => lb, ⟨[], ha⟩, ⟨[], hb⟩, by intro i; simp [MMachine.single]⟩
  · simp [ConcatInv, MMachine.join, MMachine.single, flatFrom]

/-- `a.Concat(b).Concat(c)`: the second `Concat` iterates over the flattened components
    `[a, b, c]` (field `concat`), sharing their state with the first result. -/
theorem concat_flatten_represents {σ₃ : Type} (a : Machine σ α) (b : Machine σ₂ α) (c : Machine σ₃ α)
    (sa : σ) (sb : σ₂) (sc : σ₃) (la lb lc : List α)
    (ha : Represents a sa [] la) (hb : Represents b sb [] lb) (hc : Represents c sc [] lc) (c1 : ConcatSt) :
    Represents (concat ((concatParts ((MMachine.single a).join (MMachine.single b))).join (MMachine.single c)))
      ((((sa, sb), c1), sc), {}) [] (la ++ lb ++ lc) := by
  have hab := concatParts_msim (join_msim (single_msim (Represents.sim a)) (single_msim (Represents.sim b)))
  have hms := join_msim hab (single_msim (Represents.sim c))
  refine ⟨_, concat_sim hms, fun i => if i = 0 then la else if i = 1 then lb else lc, ?_, ?_⟩
  · refine ⟨fun i => if i = 0 then la else lb, fun _ => lc, ?_, ⟨[], hc⟩, ?_⟩
    · exact ⟨fun _ => la, fun _ => lb, ⟨[], ha⟩, ⟨[], hb⟩, by intro i; simp [MMachine.single]⟩
    · intro i
      simp only [concatParts, MMachine.join, MMachine.single]
      rcases i with _ | _ | i <;> simp
      intro h; exact absurd h (by omega)
  · simp [ConcatInv, MMachine.join, MMachine.single, concatParts, flatFrom]

/-- `MakePullIterator(seq)`: construction pulls one element ahead; the result represents `l`. -/
theorem pull_represents (m : Machine σ α) (s : σ) (l : List α) (h : Represents m s [] l)
    (v0 : Option α) (lg : Log) :
    ∃ s' v lg', pullInit m (s, v0) lg = (.ok (), (s', v), lg') ∧ Represents (pull m) (s', v) [] l := by
  obtain ⟨s', lg', v, e, hrel⟩ := pullInit_spec (Represents.sim m) s v0 l lg h
  exact ⟨s', v, lg', e, _, pull_sim (Represents.sim m), hrel⟩

/-- a three-stage pipeline, as an instance of composition:
    `src.Filter(p).Map(f).Take(n)` represents `((l.filter p).map f).take n`. -/
theorem pipeline_example (p : α → GoM Bool) (gp : α → Bool) (hp : Total p gp)
    (f : α → GoM β) (gf : α → β) (hf : Total f gf) (n : Int) (tag : Option (α → Event)) (xs : List α) :
    Represents (take n (map f (filter (xs.length + 1) p (ofSeq tag xs)))) ((0, {}), 0) []
      (((xs.filter gp).map gf).take n.toNat) :=
  take_represents n _ _ _ (map_represents f gf hf _ _ _
    (filter_represents p gp hp _ _ _ (ofSeq_represents tag xs) _ (Nat.lt_succ_self _)))

/-! ## every pipeline: induction over the `Pipe` AST

`Pipe` is the AST of library calls (ten sources, fifteen combinators, nested arbitrarily, also
inside `FlatMap` callbacks); `Pipe.build` runs the constructors (`Drop`'s loop, `MakePullIterator`'s
first pull), `Pipe.machine` is the resulting iterator and `Pipe.parts` its `concat` field.  The
oracle runs exactly these definitions. -/

/-- EVERY pipeline, EVERY fuel above the bound, lists of EVERY length: building the pipeline
    succeeds, and the iterator represents the list its denotation computes.  `Pipe.WB` asks only that
    the callbacks do not panic (and excludes the unbounded `Generate`); there is NO bound on the
    length of the data: `fuel` is a parameter of the machines (`Pipe.machineF fuel`), and the
    statement holds for every `fuel > Pipe.need p x` — the longest list that reaches one of the loops
    that are unbounded in Go.  (Go has no fuel: `fuel` only makes the model's loops structurally
    recursive; `outOfFuel` never arises above the bound.)

    The statement is the joint invariant `Pipe.JointF` of the iterator and its `concat`
    field, which is what makes the induction go through `x.Concat(y).Drop(n).Concat(z)`: `Drop`
    consumes through the first `Concat` iterator, the second `Concat` then iterates over the
    flattened components `[x, y, z]` sharing that state — and finds the components before
    `currentItr` exhausted (`ConcatInv`). -/
theorem pipe_jointF (p : Pipe) : ∀ (x : Val), p.WB x → ∀ (fuel : Nat), p.need x < fuel → ∀ lg : Log,
    ∃ (s : p.St) (lg' : Log), (p.buildF fuel x).run.run lg = (.ok s, lg') ∧ Pipe.JointF fuel p s (p.denote x) := by
  induction p with
  | src id xs =>
    intro x _ fuel _ lg
    refine ⟨(0 : Nat), lg, by rw [Pipe.buildF]; rfl, Pipe.JointF.ofRepresents (Pipe.partsF_single _ _ (by intros; simp) (by intros; simp)) ?_⟩
    rw [Pipe.machineF]; exact ofSeq_represents _ xs
  | seq xs =>
    intro x _ fuel _ lg
    refine ⟨(0 : Nat), lg, by rw [Pipe.buildF]; rfl, Pipe.JointF.ofRepresents (Pipe.partsF_single _ _ (by intros; simp) (by intros; simp)) ?_⟩
    rw [Pipe.machineF]; exact ofSeq_represents _ xs
  | arg n =>
    intro x _ fuel _ lg
    refine ⟨((List.range n).map (fun (i : Nat) => Val.int (x.asInt + (i : Int))), (0 : Nat)), lg,
      by rw [Pipe.buildF]; rfl, Pipe.JointF.ofRepresents (Pipe.partsF_single _ _ (by intros; simp) (by intros; simp)) ?_⟩
    rw [Pipe.machineF]
    exact ⟨_, ofSeqS_sim _, rfl, by simp [ofSeqRel, Pipe.denote]⟩
  | gen id start step => intro x h; exact absurd h (by simp [Pipe.WB])
  | range closed a b =>
    intro x _ fuel _ lg
    refine ⟨a, lg, by rw [Pipe.buildF]; rfl, Pipe.JointF.ofRepresents (Pipe.partsF_single _ _ (by intros; simp) (by intros; simp)) ?_⟩
    rw [Pipe.machineF]
    exact map_represents _ Val.int (total_pure Val.int) _ _ _ (range_represents closed a b)
  | opt o =>
    intro x _ fuel _ lg
    refine ⟨true, lg, by rw [Pipe.buildF]; rfl, Pipe.JointF.ofRepresents (Pipe.partsF_single _ _ (by intros; simp) (by intros; simp)) ?_⟩
    rw [Pipe.machineF]; exact ofOption_represents o
  | empty =>
    intro x _ fuel _ lg
    refine ⟨(), lg, by rw [Pipe.buildF]; rfl, Pipe.JointF.ofRepresents (Pipe.partsF_single _ _ (by intros; simp) (by intros; simp)) ?_⟩
    rw [Pipe.machineF]; exact empty_represents
  | zero =>
    intro x _ fuel _ lg
    refine ⟨(), lg, by rw [Pipe.buildF]; rfl, Pipe.JointF.ofRepresents (Pipe.partsF_single _ _ (by intros; simp) (by intros; simp)) ?_⟩
    rw [Pipe.machineF]; exact ⟨_, zero_sim, rfl⟩
  | rev xs =>
    intro x _ fuel _ lg
    refine ⟨xs.length, lg, by rw [Pipe.buildF]; rfl, Pipe.JointF.ofRepresents (Pipe.partsF_single _ _ (by intros; simp) (by intros; simp)) ?_⟩
    rw [Pipe.machineF]; exact reverseSeq_represents xs
  | pullseq id xs =>
    intro x _ fuel _ lg
    obtain ⟨s', v, lg', e, hR⟩ := pull_represents (ofSeq (some (srcTag id)) xs) 0 xs (ofSeq_represents _ xs) none lg
    refine ⟨(s', v), lg', ?_, Pipe.JointF.ofRepresents (Pipe.partsF_single _ _ (by intros; simp) (by intros; simp)) ?_⟩
    · rw [Pipe.buildF]
      show Pipe.buildF.runInit (pullInit (ofSeq (some (srcTag id)) xs)) ((0 : Nat), none) lg = _
      simp only [Pipe.buildF.runInit, e]
      rfl
    · rw [Pipe.machineF]; exact hR
  | map p f ih =>
    intro x hok fuel hneed lg
    obtain ⟨s, lg', e, hJ⟩ := ih x hok.1 fuel hneed lg
    refine ⟨s, lg', by rw [Pipe.buildF]; exact e, Pipe.JointF.ofRepresents (Pipe.partsF_single _ _ (by intros; simp) (by intros; simp)) ?_⟩
    rw [Pipe.machineF]; exact map_represents f _ hok.2 _ _ _ hJ.represents
  | tap p f ih =>
    intro x hok fuel hneed lg
    obtain ⟨s, lg', e, hJ⟩ := ih x hok.1 fuel hneed lg
    refine ⟨s, lg', by rw [Pipe.buildF]; exact e, Pipe.JointF.ofRepresents (Pipe.partsF_single _ _ (by intros; simp) (by intros; simp)) ?_⟩
    rw [Pipe.machineF]; exact tapEach_represents f hok.2 _ _ _ hJ.represents
  | take p n ih =>
    intro x hok fuel hneed lg
    obtain ⟨s, lg', e, hJ⟩ := ih x hok fuel hneed lg
    refine ⟨(s, (0 : Nat)), lg', by rw [Pipe.buildF, gom_bind_ok e]; rfl, Pipe.JointF.ofRepresents (Pipe.partsF_single _ _ (by intros; simp) (by intros; simp)) ?_⟩
    rw [Pipe.machineF]; exact take_represents n _ _ _ hJ.represents
  | drop p n ih =>
    intro x hok fuel hneed lg
    obtain ⟨s, lg1, e, hJ⟩ := ih x hok fuel hneed lg
    obtain ⟨s', lg', e2, hJ'⟩ := hJ.drop n lg1
    refine ⟨s', lg', ?_, hJ'⟩
    rw [Pipe.buildF, gom_bind_ok e]
    show Pipe.buildF.runInit (It.drop n (Pipe.machineF fuel p)) s lg1 = _
    simp only [Pipe.buildF.runInit, e2]
    rfl
  | takew p f ih =>
    intro x hok fuel hneed lg
    obtain ⟨s, lg', e, hJ⟩ := ih x hok.1 fuel hneed lg
    refine ⟨(s, {}), lg', by rw [Pipe.buildF, gom_bind_ok e]; rfl, Pipe.JointF.ofRepresents (Pipe.partsF_single _ _ (by intros; simp) (by intros; simp)) ?_⟩
    rw [Pipe.machineF]; exact takeWhile_represents f _ hok.2 _ _ _ hJ.represents
  | dropw p f ih =>
    intro x hok fuel hneed lg
    obtain ⟨hn1, hn2⟩ := Nat.max_lt.mp hneed
    obtain ⟨s, lg', e, hJ⟩ := ih x hok.1 fuel hn1 lg
    refine ⟨(s, {}), lg', by rw [Pipe.buildF, gom_bind_ok e]; rfl, Pipe.JointF.ofRepresents (Pipe.partsF_single _ _ (by intros; simp) (by intros; simp)) ?_⟩
    rw [Pipe.machineF]; exact dropWhile_represents f _ hok.2 _ _ _ hJ.represents fuel hn2
  | filter p f ih =>
    intro x hok fuel hneed lg
    obtain ⟨hn1, hn2⟩ := Nat.max_lt.mp hneed
    obtain ⟨s, lg', e, hJ⟩ := ih x hok.1 fuel hn1 lg
    refine ⟨(s, {}), lg', by rw [Pipe.buildF, gom_bind_ok e]; rfl, Pipe.JointF.ofRepresents (Pipe.partsF_single _ _ (by intros; simp) (by intros; simp)) ?_⟩
    rw [Pipe.machineF]; exact filter_represents f _ hok.2 _ _ _ hJ.represents fuel hn2
  | filternot p f ih =>
    intro x hok fuel hneed lg
    obtain ⟨hn1, hn2⟩ := Nat.max_lt.mp hneed
    obtain ⟨s, lg', e, hJ⟩ := ih x hok.1 fuel hn1 lg
    refine ⟨(s, {}), lg', by rw [Pipe.buildF, gom_bind_ok e]; rfl, Pipe.JointF.ofRepresents (Pipe.partsF_single _ _ (by intros; simp) (by intros; simp)) ?_⟩
    rw [Pipe.machineF]; exact filterNot_represents f _ hok.2 _ _ _ hJ.represents fuel hn2
  | concat p q ihp ihq =>
    intro x hok fuel hneed lg
    obtain ⟨hn1, hn2⟩ := Nat.max_lt.mp hneed
    obtain ⟨s, lg1, e1, hJ1⟩ := ihp x hok.1 fuel hn1 lg
    obtain ⟨t, lg2, e2, hJ2⟩ := ihq x hok.2 fuel hn2 lg1
    exact ⟨((s, t), {}), lg2, by rw [Pipe.buildF, gom_bind_ok e1, gom_bind_ok e2]; rfl, hJ1.concat hJ2⟩
  | flatmap p pre k ihp ihk =>
    intro x hok fuel hneed lg
    obtain ⟨hokp, hpre, hokk⟩ := hok
    obtain ⟨hn1, hn23⟩ := Nat.max_lt.mp hneed
    obtain ⟨hlen, hn3⟩ := Nat.max_lt.mp hn23
    obtain ⟨s, lg', e, hJ⟩ := ihp x hokp fuel hn1 lg
    refine ⟨(s, none), lg', by rw [Pipe.buildF, gom_bind_ok e]; rfl, Pipe.JointF.ofRepresents (Pipe.partsF_single _ _ (by intros; simp) (by intros; simp)) ?_⟩
    rw [Pipe.machineF]
    refine ⟨_, flatMap_simG (Represents.sim (Pipe.machineF fuel k)) (fun a => k.denote a) fuel
      (Represents.sim (Pipe.machineF fuel p)), [], p.denote x, hJ.represents, hlen, ?_, [], rfl, by simp [Pipe.denote],
      by simp⟩
    intro a ha lg0
    obtain ⟨lg1, e1⟩ := hpre a lg0
    have hka : k.need a < fuel :=
      Nat.lt_of_le_of_lt (Pipe.le_listMax (List.mem_map_of_mem (f := fun a => k.need a) ha)) hn3
    obtain ⟨t, lg2, e2, hJk⟩ := ihk a (hokk a ha) fuel hka lg1
    exact ⟨t, lg2, by rw [gom_bind_ok e1]; exact e2, hJk.represents⟩
  | filtermap p f ih =>
    intro x hok fuel hneed lg
    obtain ⟨hn1, hn2⟩ := Nat.max_lt.mp hneed
    obtain ⟨s, lg', e, hJ⟩ := ih x hok.1 fuel hn1 lg
    refine ⟨(s, none), lg', by rw [Pipe.buildF, gom_bind_ok e]; rfl, Pipe.JointF.ofRepresents (Pipe.partsF_single _ _ (by intros; simp) (by intros; simp)) ?_⟩
    rw [Pipe.machineF]; exact filterMap_represents f _ hok.2 _ _ _ hJ.represents fuel hn2
  | scan p z f ih =>
    intro x hok fuel hneed lg
    obtain ⟨s, lg', e, hJ⟩ := ih x hok.1 fuel hneed lg
    refine ⟨(s, { sum := z }), lg', by rw [Pipe.buildF, gom_bind_ok e]; rfl, Pipe.JointF.ofRepresents (Pipe.partsF_single _ _ (by intros; simp) (by intros; simp)) ?_⟩
    rw [Pipe.machineF]; exact scan_represents f _ hok.2 z _ _ _ hJ.represents
  | zip p q ihp ihq =>
    intro x hok fuel hneed lg
    obtain ⟨hn1, hn2⟩ := Nat.max_lt.mp hneed
    obtain ⟨s, lg1, e1, hJ1⟩ := ihp x hok.1 fuel hn1 lg
    obtain ⟨t, lg2, e2, hJ2⟩ := ihq x hok.2 fuel hn2 lg1
    refine ⟨(s, t), lg2, by rw [Pipe.buildF, gom_bind_ok e1, gom_bind_ok e2]; rfl, Pipe.JointF.ofRepresents (Pipe.partsF_single _ _ (by intros; simp) (by intros; simp)) ?_⟩
    rw [Pipe.machineF]
    exact map_represents _ (fun ab => Pipe.tupV ab.1 ab.2) (total_pure _) _ _ _
      (zip_represents _ _ _ _ _ _ hJ1.represents hJ2.represents)
  | zip3 p q r ihp ihq ihr =>
    intro x hok fuel hneed lg
    obtain ⟨hn1, hn23⟩ := Nat.max_lt.mp hneed
    obtain ⟨hn2, hn3⟩ := Nat.max_lt.mp hn23
    obtain ⟨s, lg1, e1, hJ1⟩ := ihp x hok.1 fuel hn1 lg
    obtain ⟨t, lg2, e2, hJ2⟩ := ihq x hok.2.1 fuel hn2 lg1
    obtain ⟨u, lg3, e3, hJ3⟩ := ihr x hok.2.2 fuel hn3 lg2
    refine ⟨(s, t, u), lg3, by rw [Pipe.buildF, gom_bind_ok e1, gom_bind_ok e2, gom_bind_ok e3]; rfl, Pipe.JointF.ofRepresents (Pipe.partsF_single _ _ (by intros; simp) (by intros; simp)) ?_⟩
    rw [Pipe.machineF, zip3_eq]
    exact map_represents _ (fun abc => Val.tup [abc.1, abc.2.1, abc.2.2]) (total_pure _) _ _ _
      (zip_represents _ _ _ _ _ _ hJ1.represents (zip_represents _ _ _ _ _ _ hJ2.represents hJ3.represents))
  | zipidx p ih =>
    intro x hok fuel hneed lg
    obtain ⟨s, lg', e, hJ⟩ := ih x hok fuel hneed lg
    refine ⟨((0 : Nat), s), lg', by rw [Pipe.buildF, gom_bind_ok e]; rfl, Pipe.JointF.ofRepresents (Pipe.partsF_single _ _ (by intros; simp) (by intros; simp)) ?_⟩
    rw [Pipe.machineF]
    exact map_represents _ (fun ia => Pipe.tupV (.int ia.1) ia.2) (total_pure _) _ _ _
      (zipWithIndex_represents _ _ _ hJ.represents)

/-- C12 for lists of EVERY length: every pipeline whose callbacks do not panic, run with any fuel
    above the bound `Pipe.need`, yields exactly the elements of the eager computation
    `Pipe.denote`, in the same order. -/
theorem pipe_representsF (p : Pipe) (x : Val) (hwb : p.WB x) (fuel : Nat) (hfuel : p.need x < fuel) (lg : Log) :
    ∃ (s : p.St) (lg' : Log), (p.buildF fuel x).run.run lg = (.ok s, lg') ∧
      Represents (Pipe.machineF fuel p) s [] (p.denote x) := by
  obtain ⟨s, lg', e, hJ⟩ := pipe_jointF p x hwb fuel hfuel lg
  exact ⟨s, lg', e, hJ.represents⟩

/-- "terminates on every finite input": for every well-behaved pipeline SUFFICIENT FUEL EXISTS —
    the explicit bound `Pipe.need p x + 1` — and with it or any larger fuel, building the pipeline
    and draining it (`ToSeq`, whose own loop needs `(denote).length + 1`) returns normally with the
    eager result; in particular the model panic `outOfFuel` does not occur.  One number
    `max (need) (length) + 1` serves both. -/
theorem pipe_terminates (p : Pipe) (x : Val) (hwb : p.WB x) :
    ∃ fuel0, fuel0 = Max.max (p.need x) (p.denote x).length + 1 ∧ ∀ fuel, fuel0 ≤ fuel → ∀ lg : Log,
      ∃ s lg1 s' lg', (p.buildF fuel x).run.run lg = (.ok s, lg1) ∧
        toSeq (Pipe.machineF fuel p) fuel [] s lg1 = (.ok (p.denote x), s', lg') ∧
        Represents (Pipe.machineF fuel p) s' (p.denote x) [] := by
  refine ⟨_, rfl, fun fuel hfuel lg => ?_⟩
  have h1 : p.need x < fuel := Nat.lt_of_lt_of_le (Nat.lt_succ_of_le (Nat.le_max_left _ _)) hfuel
  have h2 : (p.denote x).length < fuel := Nat.lt_of_lt_of_le (Nat.lt_succ_of_le (Nat.le_max_right _ _)) hfuel
  obtain ⟨s, lg1, e, hR⟩ := pipe_representsF p x hwb fuel h1 lg
  obtain ⟨s', lg', e2, hR'⟩ : ∃ s' lg', toSeq (Pipe.machineF fuel p) fuel [] s lg1 = (.ok (p.denote x), s', lg') ∧
      Represents (Pipe.machineF fuel p) s' (p.denote x) [] := by
    simpa using toSeq_spec (Represents.sim _) (p.denote x) fuel s [] [] lg1 h2 hR
  exact ⟨s, lg1, s', lg', e, e2, hR'⟩

/-- the bound, syntactically: `Pipe.needB p` and `Pipe.lenB p` are computed from the AST alone (lengths
    of the source slices, nesting of the combinators — no callback is evaluated, no `FlatMap`
    argument is needed).  Every fuel above `max (needB p) (lenB p)` builds and drains the pipeline
    with the eager result, whatever the callbacks compute. -/
theorem pipe_terminates_syntactic (p : Pipe) (x : Val) (hwb : p.WB x) (fuel : Nat)
    (hfuel : Max.max p.needB p.lenB < fuel) (lg : Log) :
    p.need x ≤ p.needB ∧ (p.denote x).length ≤ p.lenB ∧
    ∃ s lg1 s' lg', (p.buildF fuel x).run.run lg = (.ok s, lg1) ∧
      toSeq (Pipe.machineF fuel p) fuel [] s lg1 = (.ok (p.denote x), s', lg') ∧
      Represents (Pipe.machineF fuel p) s' (p.denote x) [] := by
  have h1 := Pipe.need_le_needB p x
  have h2 := Pipe.denote_length_le p x
  refine ⟨h1, h2, ?_⟩
  obtain ⟨fuel0, rfl, h⟩ := pipe_terminates p x hwb
  exact h fuel (by omega) lg

/-- the amount of fuel is irrelevant above the bound: two fuels above `Pipe.need` give iterators on
    which EVERY script of `HasNext`/`Next` calls observes the same thing (panic messages erased:
    `Next` on the exhausted iterator panics either way) — namely what it observes on the list
    `Pipe.denote p x`.  So the fuel constant of the oracle is not a semantic parameter. -/
theorem pipe_fuel_irrelevant (p : Pipe) (x : Val) (hwb : p.WB x) (f1 f2 : Nat) (h1 : p.need x < f1) (h2 : p.need x < f2)
    (cs : List Call) (lg : Log) :
    ∃ s1 lg1 s2 lg2, (p.buildF f1 x).run.run lg = (.ok s1, lg1) ∧ (p.buildF f2 x).run.run lg = (.ok s2, lg2) ∧
      (runScript (Pipe.machineF f1 p) cs s1 lg1).1.map Obs.erase = specScript cs (p.denote x) ∧
      (runScript (Pipe.machineF f2 p) cs s2 lg2).1.map Obs.erase = specScript cs (p.denote x) := by
  obtain ⟨s1, lg1, e1, hR1⟩ := pipe_representsF p x hwb f1 h1 lg
  obtain ⟨s2, lg2, e2, hR2⟩ := pipe_representsF p x hwb f2 h2 lg
  obtain ⟨_, _, _, _, ho1, _⟩ := runScript_sim (Represents.sim _) cs s1 [] (p.denote x) lg1 hR1
  obtain ⟨_, _, _, _, ho2, _⟩ := runScript_sim (Represents.sim _) cs s2 [] (p.denote x) lg2 hR2
  exact ⟨s1, lg1, s2, lg2, e1, e2, ho1, ho2⟩

/-- EVERY pipeline (the machines the oracle runs: fuel constant `FUEL`; `Pipe.OK` = `Pipe.WB` and
    `Pipe.need < FUEL`, `Pipe.OK_iff`): corollary of `pipe_jointF`. -/
theorem pipe_joint (p : Pipe) : ∀ (x : Val), p.OK x → ∀ lg : Log,
    ∃ (s : p.St) (lg' : Log), (p.build x).run.run lg = (.ok s, lg') ∧ Pipe.Joint p s (p.denote x) := by
  intro x hok lg
  obtain ⟨hwb, hneed⟩ := (Pipe.OK_iff p x).mp hok
  exact pipe_jointF p x hwb FUEL hneed lg

/-- EVERY pipeline represents the list its denotation computes. -/
theorem pipe_represents (p : Pipe) (x : Val) (hok : p.OK x) (lg : Log) :
    ∃ (s : p.St) (lg' : Log), (p.build x).run.run lg = (.ok s, lg') ∧
      Represents (Pipe.machine p) s [] (p.denote x) := by
  obtain ⟨s, lg', e, hJ⟩ := pipe_joint p x hok lg
  exact ⟨s, lg', e, hJ.represents⟩

/-- the case the per-combinator theorems could not reach: `x.Concat(y).Drop(n).Concat(z)`. -/
theorem concat_drop_concat (xs ys zs : List Val) (n : Int) (x : Val) (lg : Log) :
    ∃ s lg', ((Pipe.concat (.drop (.concat (.seq xs) (.seq ys)) n) (.seq zs)).build x).run.run lg = (.ok s, lg') ∧
      Represents (Pipe.machine (Pipe.concat (.drop (.concat (.seq xs) (.seq ys)) n) (.seq zs))) s []
        ((xs ++ ys).drop n.toNat ++ zs) :=
  pipe_represents (Pipe.concat (.drop (.concat (.seq xs) (.seq ys)) n) (.seq zs)) x ⟨⟨trivial, trivial⟩, trivial⟩ lg

/-- the hypothesis `Pipe.OK` is satisfiable for pipelines with callbacks, `FlatMap` and fuel-bounded
    loops (`FUEL` = 200000 covers every list shorter than that). -/
example (x : Val) : (Pipe.flatmap (.filter (.src 1 [.int 1, .int 2]) (fun _ => pure true)) (fun v => pure v)
    (.zipidx (.take (.arg 3) 2))).OK x := by
  refine ⟨⟨trivial, LL.Total.pure1 (total_pure (fun _ => true)), by simp [Pipe.denote, FUEL]⟩,
    LL.Total.pure1 (total_pure id), fun a _ => trivial, ?_⟩
  exact Nat.lt_of_le_of_lt (List.length_filter_le _ _) (by simp [Pipe.denote, FUEL])

/-- the hypotheses of `pipe_representsF` are satisfiable — for a source of ANY length `n` (no bound):
    `src.Filter(p).FlatMap(k)` over `n` elements is well-behaved and needs fuel `n` (+1). -/
example (n : Nat) (x : Val) :
    let p := Pipe.flatmap (.filter (.src 1 ((List.range n).map (fun (i : Nat) => Val.int i))) (fun _ => pure true)) (fun v => pure v)
      (.zipidx (.take (.arg 3) 2))
    p.WB x ∧ p.need x = n := by
  intro p
  have hlen : ((List.range n).map (fun (i : Nat) => Val.int i)).length = n := by simp
  have hfl : (((List.range n).map (fun (i : Nat) => Val.int i)).filter (LL.pure1 (fun _ => (pure true : GoM Bool)))).length ≤ n :=
    Nat.le_trans (List.length_filter_le _ _) (Nat.le_of_eq hlen)
  refine ⟨⟨⟨trivial, LL.Total.pure1 (total_pure (fun _ => true))⟩, LL.Total.pure1 (total_pure id), fun a _ => trivial⟩, ?_⟩
  show Max.max (Max.max 0 _) (Max.max _ (Pipe.listMax _)) = n
  have hz : ∀ l : List Val, Pipe.listMax (l.map (fun a => (Pipe.zipidx (.take (.arg 3) 2)).need a)) = 0 := by
    intro l; induction l with
    | nil => rfl
    | cons a l ih => simp only [List.map_cons, Pipe.listMax, ih]; rfl
  rw [hz]
  simp only [Pipe.denote, hlen]
  omega

/-! ## terminal operations -/

theorem toSeq_eq (m : Machine σ α) (s : σ) (l : List α) (h : Represents m s [] l) (fuel : Nat)
    (hfuel : l.length < fuel) (lg : Log) :
    ∃ s' lg', toSeq m fuel [] s lg = (.ok l, s', lg') ∧ Represents m s' l [] := by
  simpa using toSeq_spec (Represents.sim m) l fuel s [] [] lg hfuel h

theorem count_eq (m : Machine σ α) (s : σ) (l : List α) (h : Represents m s [] l) (fuel : Nat)
    (hfuel : l.length < fuel) (lg : Log) :
    ∃ s' lg', count m fuel 0 s lg = (.ok l.length, s', lg') ∧ Represents m s' l [] := by
  simpa using count_spec (Represents.sim m) l fuel s [] 0 lg hfuel h

/-- `Fold` = `foldl` (also the definition of `FoldLeft` on iterators). -/
theorem fold_eq (f : β → α → GoM β) (g : β → α → β) (hf : Total2 f g) (z : β)
    (m : Machine σ α) (s : σ) (l : List α) (h : Represents m s [] l) (fuel : Nat)
    (hfuel : l.length < fuel) (lg : Log) :
    ∃ s' lg', fold f m fuel z s lg = (.ok (l.foldl g z), s', lg') ∧ Represents m s' l [] := by
  simpa using fold_spec hf (Represents.sim m) l fuel s [] z lg hfuel h

/-- `Reduce(it, monoid)` = `foldl combine empty` (what the property demands; the Go code drops the
    result of `Combine`, defect D3). -/
theorem reduce_eq (combine : β → β → GoM β) (g : β → β → β) (hf : Total2 combine g) (empty : β)
    (m : Machine σ β) (s : σ) (l : List β) (h : Represents m s [] l) (fuel : Nat)
    (hfuel : l.length < fuel) (lg : Log) :
    ∃ s' lg', reduce empty combine m fuel s lg = (.ok (l.foldl g empty), s', lg') ∧ Represents m s' l [] :=
  fold_eq combine g hf empty m s l h fuel hfuel lg

/-- `FoldTry` = the list fold that stops at the first failure; the elements after the failing one
    are NOT pulled (they are still in the iterator). -/
theorem foldTry_eq (f : β → α → GoM (Try β)) (g : β → α → Try β) (hf : Total2 f g) (z : β)
    (m : Machine σ α) (s : σ) (l : List α) (h : Represents m s [] l) (fuel : Nat)
    (hfuel : l.length < fuel) (lg : Log) :
    ∃ s' lg' d', foldTry f m fuel z s lg = (.ok (foldTryL g z l).1, s', lg') ∧
      Represents m s' d' (foldTryL g z l).2 ∧ d' ++ (foldTryL g z l).2 = l := by
  simpa using foldTry_spec hf (Represents.sim m) l fuel s [] z lg hfuel h

theorem foldOption_eq (f : β → α → GoM (Option β)) (g : β → α → Option β) (hf : Total2 f g) (z : β)
    (m : Machine σ α) (s : σ) (l : List α) (h : Represents m s [] l) (fuel : Nat)
    (hfuel : l.length < fuel) (lg : Log) :
    ∃ s' lg' d', foldOption f m fuel z s lg = (.ok (foldOptionL g z l).1, s', lg') ∧
      Represents m s' d' (foldOptionL g z l).2 ∧ d' ++ (foldOptionL g z l).2 = l := by
  simpa using foldOption_spec hf (Represents.sim m) l fuel s [] z lg hfuel h

theorem foldError_eq (f : α → GoM (Option Err)) (g : α → Option Err) (hf : Total f g)
    (m : Machine σ α) (s : σ) (l : List α) (h : Represents m s [] l) (fuel : Nat)
    (hfuel : l.length < fuel) (lg : Log) :
    ∃ s' lg' d', foldError f m fuel s lg = (.ok (foldErrorL g l).1, s', lg') ∧
      Represents m s' d' (foldErrorL g l).2 ∧ d' ++ (foldErrorL g l).2 = l := by
  simpa using foldError_spec hf (Represents.sim m) l fuel s [] lg hfuel h

/-- the reference folds agree with the usual definitions: success iff no step fails, and the
    unconsumed rest is what follows the first failing element. -/
theorem foldTryL_all_success (g : β → α → β) (z : β) (l : List α) :
    foldTryL (fun b a => .success (g b a)) z l = (.success (l.foldl g z), []) := by
  induction l generalizing z with
  | nil => rfl
  | cons a l ih => simp [foldTryL, ih]

theorem foldTryL_first_failure (g : β → α → Try β) (z z' : β) (pre post : List α) (a : α) (e : Err)
    (hpre : foldTryL g z pre = (.success z', [])) (ha : g z' a = .failure e) :
    foldTryL g z (pre ++ a :: post) = (.failure e, post) := by
  induction pre generalizing z with
  | nil => simp [foldTryL] at hpre; subst hpre; simp [foldTryL, ha]
  | cons b pre ih =>
    simp only [foldTryL, List.cons_append] at hpre ⊢
    cases hg : g z b with
    | success z1 => rw [hg] at hpre; exact ih z1 hpre
    | failure e1 => rw [hg] at hpre; simp at hpre

/-- `FoldRight` with a step that forces the lazy tail = `foldr`. -/
theorem foldRight_eq (f : α → β → GoM β) (g : α → β → β) (hf : Total2 f g) (zero : β)
    (m : Machine σ α) (s : σ) (l : List α) (h : Represents m s [] l) (fuel : Nat)
    (hfuel : l.length < fuel) (lg : Log) :
    ∃ s' lg', foldRight zero (fun a th => do let b ← th; IM.liftG (f a b)) m fuel s lg =
      (.ok (l.foldr g zero), s', lg') ∧ Represents m s' l [] := by
  simpa using foldRight_strict_spec hf (Represents.sim m) zero l fuel s [] lg hfuel h

/-- `FoldRight` is lazy in its second argument: a step that does not force the tail stops the
    traversal, the elements after the first hit are never pulled. -/
theorem foldRight_lazy (p : α → GoM Bool) (g : α → Bool) (hp : Total p g) (hv : α → β) (zero : β)
    (m : Machine σ α) (s : σ) (l : List α) (h : Represents m s [] l) (fuel : Nat)
    (hfuel : l.length < fuel) (lg : Log) :
    ∃ s' lg' d', foldRight zero (fun a th => do if ← IM.liftG (p a) then pure (hv a) else th) m fuel s lg =
        (.ok (((l.find? g).map hv).getD zero), s', lg') ∧ Represents m s' d' (afterHit g l) ∧
      d' ++ afterHit g l = l := by
  simpa using foldRight_shortcut_spec hp hv (Represents.sim m) zero l fuel s [] lg hfuel h

theorem find_eq (p : α → GoM Bool) (g : α → Bool) (hp : Total p g)
    (m : Machine σ α) (s : σ) (l : List α) (h : Represents m s [] l) (fuel : Nat)
    (hfuel : l.length < fuel) (lg : Log) :
    ∃ s' lg' d', find p m fuel s lg = (.ok (l.find? g), s', lg') ∧ Represents m s' d' (afterHit g l) ∧
      d' ++ afterHit g l = l := by
  obtain ⟨s', lg', d1, e, hR, hd, _⟩ := find_spec hp (Represents.sim m) l fuel s [] lg hfuel h
  exact ⟨s', lg', d1, e, by simpa using hR, hd⟩

theorem exists_eq (p : α → GoM Bool) (g : α → Bool) (hp : Total p g)
    (m : Machine σ α) (s : σ) (l : List α) (h : Represents m s [] l) (fuel : Nat)
    (hfuel : l.length < fuel) (lg : Log) :
    ∃ s' lg' d', «exists» p m fuel s lg = (.ok (l.any g), s', lg') ∧ Represents m s' d' (afterHit g l) ∧
      d' ++ afterHit g l = l := by
  simpa using exists_spec hp (Represents.sim m) l fuel s [] lg hfuel h

theorem forAll_eq (p : α → GoM Bool) (g : α → Bool) (hp : Total p g)
    (m : Machine σ α) (s : σ) (l : List α) (h : Represents m s [] l) (fuel : Nat)
    (hfuel : l.length < fuel) (lg : Log) :
    ∃ s' lg' d', forAll p m fuel s lg = (.ok (l.all g), s', lg') ∧
      Represents m s' d' (afterHit (fun x => !g x) l) ∧ d' ++ afterHit (fun x => !g x) l = l := by
  simpa using forAll_spec hp (Represents.sim m) l fuel s [] lg hfuel h

theorem foreach_eq (p : α → GoM Unit) (hp : Total p (fun _ => ()))
    (m : Machine σ α) (s : σ) (l : List α) (h : Represents m s [] l) (fuel : Nat)
    (hfuel : l.length < fuel) (lg : Log) :
    ∃ s' lg', foreach p m fuel s lg = (.ok (), s', lg') ∧ Represents m s' l [] := by
  simpa using foreach_spec hp (Represents.sim m) l fuel s [] lg hfuel h

/-- range-over-func `All()`: stops pulling as soon as `yield` returns false. -/
theorem all_eq (p : α → GoM Bool) (g : α → Bool) (hp : Total p g)
    (m : Machine σ α) (s : σ) (l : List α) (h : Represents m s [] l) (fuel : Nat)
    (hfuel : l.length < fuel) (lg : Log) :
    ∃ s' lg' d', all p m fuel s lg = (.ok (), s', lg') ∧
      Represents m s' d' (afterHit (fun x => !g x) l) ∧ d' ++ afterHit (fun x => !g x) l = l := by
  simpa using all_spec hp (Represents.sim m) l fuel s [] lg hfuel h

theorem nextOption_eq (m : Machine σ α) (s : σ) (l : List α) (h : Represents m s [] l) (lg : Log) :
    ∃ s' lg', nextOption m s lg = (.ok l.head?, s', lg') ∧ Represents m s' l.head?.toList l.tail := by
  simpa using nextOption_spec (Represents.sim m) s [] l lg h

/-- the pure step functions of `Min` / `Max` -/
def minStepP (lt : α → α → Bool) (acc : Option α) (v : α) : Option α :=
  match acc with
  | some m => if lt m v then acc else some v
  | none => some v

def maxStepP (lt : α → α → Bool) (acc : Option α) (v : α) : Option α :=
  match acc with
  | some m => if lt v m then acc else some v
  | none => some v

theorem minStep_total (less : α → α → GoM Bool) (lt : α → α → Bool) (h : Total2 less lt) :
    Total2 (minStep less) (minStepP lt) := by
  intro acc v lg
  cases acc with
  | none => exact ⟨lg, rfl⟩
  | some m =>
    obtain ⟨lg', h'⟩ := h m v lg
    refine ⟨lg', ?_⟩
    simp only [minStep, minStepP, ExceptT.run_bind]
    simp only [bind, StateT.bind, StateT.run] at h' ⊢
    have h'' : ExceptT.run (less m v) lg = (Except.ok (lt m v), lg') := h'
    rw [h'']
    cases lt m v <;> rfl

theorem maxStep_total (less : α → α → GoM Bool) (lt : α → α → Bool) (h : Total2 less lt) :
    Total2 (maxStep less) (maxStepP lt) := by
  intro acc v lg
  cases acc with
  | none => exact ⟨lg, rfl⟩
  | some m =>
    obtain ⟨lg', h'⟩ := h v m lg
    refine ⟨lg', ?_⟩
    simp only [maxStep, maxStepP, ExceptT.run_bind]
    simp only [bind, StateT.bind, StateT.run] at h' ⊢
    have h'' : ExceptT.run (less v m) lg = (Except.ok (lt v m), lg') := h'
    rw [h'']
    cases lt v m <;> rfl

/-- `Min` / `Max` = the left fold with the "keep the smaller (larger), later wins on ties" step. -/
theorem min_eq (less : α → α → GoM Bool) (lt : α → α → Bool) (hl : Total2 less lt)
    (m : Machine σ α) (s : σ) (l : List α) (h : Represents m s [] l) (fuel : Nat)
    (hfuel : l.length < fuel) (lg : Log) :
    ∃ s' lg', It.min less m fuel s lg = (.ok (l.foldl (minStepP lt) none), s', lg') ∧ Represents m s' l [] :=
  fold_eq _ _ (minStep_total less lt hl) none m s l h fuel hfuel lg

theorem max_eq (less : α → α → GoM Bool) (lt : α → α → Bool) (hl : Total2 less lt)
    (m : Machine σ α) (s : σ) (l : List α) (h : Represents m s [] l) (fuel : Nat)
    (hfuel : l.length < fuel) (lg : Log) :
    ∃ s' lg', It.max less m fuel s lg = (.ok (l.foldl (maxStepP lt) none), s', lg') ∧ Represents m s' l [] :=
  fold_eq _ _ (maxStep_total less lt hl) none m s l h fuel hfuel lg

/-- for a strict total order `Min` returns a minimum of the list -/
theorem minStepP_le (lt : α → α → Bool) (le : α → α → Prop)
    (hle_refl : ∀ a, le a a) (hle_trans : ∀ a b c, le a b → le b c → le a c)
    (hlt : ∀ a b, lt a b = true → le a b) (hnlt : ∀ a b, lt a b = false → le b a)
    (l : List α) (acc : Option α) :
    match l.foldl (minStepP lt) acc with
    | some r => (∀ x ∈ l, le r x) ∧ (∀ a, acc = some a → le r a) ∧ (r ∈ l ∨ acc = some r)
    | none => l = [] ∧ acc = none := by
  induction l generalizing acc with
  | nil => cases acc <;> simp [hle_refl]
  | cons v l ih =>
    simp only [List.foldl_cons]
    have := ih (minStepP lt acc v)
    cases hres : l.foldl (minStepP lt) (minStepP lt acc v) with
    | none => rw [hres] at this; cases acc <;> simp [minStepP] at this; split at this <;> simp at this
    | some r =>
      rw [hres] at this
      obtain ⟨h1, h2, h3⟩ := this
      cases acc with
      | none =>
        simp only [minStepP] at h2 h3
        refine ⟨?_, by simp, ?_⟩
        · intro x hx
          rcases List.mem_cons.mp hx with rfl | hx
          · exact h2 _ rfl
          · exact h1 x hx
        · rcases h3 with h3 | h3
          · exact Or.inl (List.mem_cons_of_mem _ h3)
          · simp only [Option.some.injEq] at h3; subst h3; exact Or.inl (List.mem_cons_self ..)
      | some a =>
        simp only [minStepP] at h2 h3
        cases hc : lt a v
        · simp only [hc, Bool.false_eq_true, if_false] at h2 h3
          have hrv := h2 v rfl
          refine ⟨?_, ?_, ?_⟩
          · intro x hx
            rcases List.mem_cons.mp hx with rfl | hx
            · exact hrv
            · exact h1 x hx
          · intro a' ha'; simp only [Option.some.injEq] at ha'; subst ha'
            exact hle_trans _ _ _ hrv (hnlt _ _ hc)
          · rcases h3 with h3 | h3
            · exact Or.inl (List.mem_cons_of_mem _ h3)
            · simp only [Option.some.injEq] at h3; subst h3; exact Or.inl (List.mem_cons_self ..)
        · simp only [hc, if_true] at h2 h3
          have hra := h2 a rfl
          refine ⟨?_, ?_, ?_⟩
          · intro x hx
            rcases List.mem_cons.mp hx with rfl | hx
            · exact hle_trans _ _ _ hra (hlt _ _ hc)
            · exact h1 x hx
          · intro a' ha'; simp only [Option.some.injEq] at ha'; subst ha'; exact hra
          · rcases h3 with h3 | h3
            · exact Or.inl (List.mem_cons_of_mem _ h3)
            · exact Or.inr h3

/-- `GroupBy` = the left fold that appends each element to its key's group. -/
theorem groupBy_eq {κ : Type} [BEq κ] (kf : α → GoM κ) (kg : α → κ) (hk : Total kf kg)
    (m : Machine σ α) (s : σ) (l : List α) (h : Represents m s [] l) (fuel : Nat)
    (hfuel : l.length < fuel) (lg : Log) :
    ∃ s' lg', groupBy kf m fuel s lg = (.ok (l.foldl (fun b a => groupInsert (kg a) a b) []), s', lg') ∧
      Represents m s' l [] := by
  have : Total2 (fun (b : List (κ × List α)) a => do let k ← kf a; pure (groupInsert k a b))
      (fun b a => groupInsert (kg a) a b) := by
    intro b a lg
    exact total_bind_pure hk (fun k => groupInsert k a b) a lg
  exact fold_eq _ _ this [] m s l h fuel hfuel lg

/-! ## demand: how far the source is pulled

The source is the instrumented slice iterator `ofSeq tag xs`, whose state is its pull counter.
After ANY script `cs` of `HasNext`/`Next` calls on the combinator, the consumer has obtained
`got` elements and the counter is bounded in terms of `got` — never the whole source. -/

/-- what is common to the statements below: run a script on a one-stage pipeline over the
    instrumented source and look at the source's pull counter and the combinator's variables. -/
theorem demand_frame {γ β : Type} (C : Machine (Nat × γ) β) (c0 : γ)
    (Inv : γ → List α → List α → List β → List β → Prop) (xs : List α) (out : List β)
    (hC : Sim C (liftRel Inv (ofSeqRel xs))) (h0 : Inv c0 [] xs [] out)
    (cs : List Call) (lg : Log) :
    ∃ d r d', Inv (runScript C cs (0, c0) lg).2.1.2 d r d' (specRest cs out) ∧
      d.length = (runScript C cs (0, c0) lg).2.1.1 ∧ d ++ r = xs ∧ d' ++ specRest cs out = out := by
  obtain ⟨s', lg', d', e, _, ⟨d, r, ⟨hle, hd, hr⟩, hI⟩, hd'⟩ :=
    runScript_sim hC cs (0, c0) [] out lg ⟨[], xs, ⟨by simp, by simp, by simp⟩, h0⟩
  rw [e]
  refine ⟨d, r, d', hI, ?_, ?_, by simpa using hd'⟩
  · rw [hd]; simp; omega
  · rw [hd, hr]; simp

/-- `TakeWhile`: at most one element beyond what was handed out (the look-ahead `fv`, or the
    element that ended the run). -/
theorem takeWhile_demand (p : α → GoM Bool) (g : α → Bool) (hp : Total p g) (tag : Option (α → Event))
    (xs : List α) (cs : List Call) (lg : Log) :
    let got := (xs.takeWhile g).length - (specRest cs (xs.takeWhile g)).length
    (runScript (takeWhile p (ofSeq tag xs)) cs (0, {}) lg).2.1.1 ≤ got + 1 := by
  intro got
  obtain ⟨d, r, d', hI, hlen, _, hd'⟩ := demand_frame (takeWhile p (ofSeq tag xs)) {} (TakeWhileInv g) xs
    (xs.takeWhile g) (takeWhile_sim hp (ofSeq_sim tag xs)) (by simp [TakeWhileInv]) cs lg
  have hgot : d'.length = got := by
    have := congrArg List.length hd'; rw [List.length_append] at this; omega
  rw [← hlen, ← hgot]
  generalize (runScript (takeWhile p (ofSeq tag xs)) cs (0, {}) lg).2.1.2 = c at hI
  rcases c with ⟨_ | _, _ | v⟩ <;> simp only [TakeWhileInv] at hI
  · rw [hI.1]; omega
  · rw [hI.1]; simp
  · obtain ⟨⟨v, hv, _⟩, _⟩ := hI; rw [hv]; simp

/-- `Take(n)`: exactly as many as were handed out. -/
theorem take_demand (n : Int) (tag : Option (α → Event)) (xs : List α) (cs : List Call) (lg : Log) :
    let got := (xs.take n.toNat).length - (specRest cs (xs.take n.toNat)).length
    (runScript (take n (ofSeq tag xs)) cs (0, 0) lg).2.1.1 = got := by
  intro got
  obtain ⟨s', lg', d', e, _, ⟨r, ⟨hle, hd, hr⟩, hi, _⟩, hd'⟩ :=
    runScript_sim (take_sim n (ofSeq_sim tag xs)) cs (0, 0) [] (xs.take n.toNat) lg
      ⟨xs, ⟨by simp, by simp, by simp⟩, rfl, by simp⟩
  rw [e]
  have hgot : d'.length = got := by
    have := congrArg List.length hd'; simp only [List.nil_append, List.length_append] at this; omega
  have : d'.length = s'.1 := by rw [hd]; simp; omega
  show s'.1 = got
  omega

/-- `Map`: exactly as many as were handed out. -/
theorem map_demand (f : α → GoM β) (g : α → β) (hf : Total f g) (tag : Option (α → Event))
    (xs : List α) (cs : List Call) (lg : Log) :
    let got := xs.length - (specRest cs (xs.map g)).length
    (runScript (map f (ofSeq tag xs)) cs 0 lg).2.1 = got := by
  intro got
  obtain ⟨s', lg', d', e, _, ⟨d, r, ⟨hle, hd, hr⟩, hdm, _⟩, hd'⟩ :=
    runScript_sim (map_sim hf (ofSeq_sim tag xs)) cs 0 [] (xs.map g) lg
      ⟨[], xs, ⟨by simp, by simp, by simp⟩, rfl, rfl⟩
  rw [e]
  have h1 : d'.length = got := by
    have := congrArg List.length hd'
    simp only [List.nil_append, List.length_append, List.length_map] at this
    have hg : got = xs.length - (specRest cs (List.map g xs)).length := rfl
    omega
  have h2 : d'.length = d.length := by rw [hdm]; simp
  have h3 : d.length = s' := by rw [hd]; simp; omega
  show s' = got
  omega

/-- `Scan`: never ahead of the consumer (the first element, `zero`, needs no pull at all). -/
theorem scan_demand (f : β → α → GoM β) (g : β → α → β) (hf : Total2 f g) (zero : β)
    (tag : Option (α → Event)) (xs : List α) (cs : List Call) (lg : Log) :
    let got := (scanl g zero xs).length - (specRest cs (scanl g zero xs)).length
    (runScript (scan f (ofSeq tag xs)) cs (0, { sum := zero }) lg).2.1.1 ≤ got := by
  intro got
  obtain ⟨d, r, d', hI, hlen, _, hd'⟩ := demand_frame (scan f (ofSeq tag xs)) { sum := zero } (ScanInv g) xs
    (scanl g zero xs) (scan_sim hf (ofSeq_sim tag xs)) (by simp [ScanInv]) cs lg
  have hgot : d'.length = got := by
    have := congrArg List.length hd'; rw [List.length_append] at this; omega
  rw [← hlen, ← hgot]
  simp only [ScanInv] at hI
  split at hI <;> omega

/-- `Filter`: the source has been pulled exactly up to (and including) the next hit after the
    elements handed out — the look-ahead `fv` — or, before the first call, not at all; it is
    pulled to the end only when no further hit exists. -/
theorem filter_demand (p : α → GoM Bool) (g : α → Bool) (hp : Total p g) (tag : Option (α → Event))
    (xs : List α) (cs : List Call) (lg : Log) :
    ∃ d r d', d ++ r = xs ∧ d.length = (runScript (filter (xs.length + 1) p (ofSeq tag xs)) cs (0, {}) lg).2.1.1 ∧
      d' ++ specRest cs (xs.filter g) = xs.filter g ∧
      (d = [] ∨ (d.filter g = d' ∧ r = []) ∨ (∃ v d0, d = d0 ++ [v] ∧ g v = true ∧ d.filter g = d' ++ [v])) := by
  obtain ⟨d, r, d', hI, hlen, hdr, hd'⟩ := demand_frame (filter (xs.length + 1) p (ofSeq tag xs)) {}
    (FilterInvF (xs.length + 1) g) xs (xs.filter g) (filter_sim hp _ (ofSeq_sim tag xs))
    (by simp [FilterInvF, FilterInv]) cs lg
  refine ⟨d, r, d', hdr, hlen, hd', ?_⟩
  generalize (runScript (filter (xs.length + 1) p (ofSeq tag xs)) cs (0, {}) lg).2.1.2 = c at hI
  obtain ⟨_, hI⟩ := hI
  rcases c with ⟨_ | _, _ | v⟩ <;> simp only [FilterInv] at hI
  · exact Or.inr (Or.inl ⟨hI.2.2.symm, hI.1⟩)
  · obtain ⟨⟨d0, hd0⟩, hg, hf, _⟩ := hI
    exact Or.inr (Or.inr ⟨v, d0, hd0, hg, hf⟩)
  · exact Or.inl hI.1

/-- `DropWhile`: the dropped prefix is pulled, then the source runs at most one element (the
    look-ahead `first`) ahead of the consumer; once the first kept element has been seen the pull
    count is exact. -/
theorem dropWhile_demand (p : α → GoM Bool) (g : α → Bool) (hp : Total p g) (tag : Option (α → Event))
    (xs : List α) (fuel : Nat) (hfuel : xs.length < fuel) (cs : List Call) (lg : Log) :
    let got := (xs.dropWhile g).length - (specRest cs (xs.dropWhile g)).length
    let st := (runScript (dropWhile fuel p (ofSeq tag xs)) cs (0, {}) lg).2.1
    st.1 ≤ (xs.takeWhile g).length + got + 1 ∧
    (st.2.found = true → st.1 = (xs.takeWhile g).length + got + (if st.2.first.isSome then 1 else 0)) := by
  intro got st
  obtain ⟨d, r, d', hI, hlen, hdr, hd'⟩ := demand_frame (dropWhile fuel p (ofSeq tag xs)) {} (DropWhileInv fuel g) xs
    (xs.dropWhile g) (dropWhile_sim hp fuel (ofSeq_sim tag xs)) (by simp [DropWhileInv, hfuel]) cs lg
  have hsplit : (xs.takeWhile g).length + (xs.dropWhile g).length = xs.length := by
    rw [← List.length_append, List.takeWhile_append_dropWhile]
  have hgot : d'.length = got := by
    have := congrArg List.length hd'; rw [List.length_append] at this; omega
  have hxs : d.length + r.length = xs.length := by rw [← hdr, List.length_append]
  have hout : d'.length + (specRest cs (xs.dropWhile g)).length = (xs.dropWhile g).length := by
    rw [← List.length_append, hd']
  have hst : st.1 = d.length := hlen.symm
  have hc : (runScript (dropWhile fuel p (ofSeq tag xs)) cs (0, {}) lg).2.1.2 = st.2 := rfl
  rw [hc] at hI
  generalize st.2 = c at hI ⊢
  obtain ⟨_, hI⟩ := hI
  rcases c with ⟨fd, fst⟩
  cases fd <;> cases fst <;> simp only at hI
  · have hle : (specRest cs (xs.dropWhile g)).length ≤ r.length := by
      rw [hI]; exact (List.dropWhile_sublist g).length_le
    exact ⟨by omega, by simp⟩
  · have : (specRest cs (xs.dropWhile g)).length = r.length := by rw [hI]
    exact ⟨by omega, fun _ => by simp; omega⟩
  · have : (specRest cs (xs.dropWhile g)).length = r.length + 1 := by rw [hI]; simp
    exact ⟨by omega, fun _ => by simp; omega⟩

/-- `FlatMap`: the source is pulled only as far as needed — everything the source elements before
    the last pulled one expand to has already been handed out, and nothing is handed out that does
    not come from a pulled element.  (`h a`: the list the iterator returned by the callback
    represents; the callback needs to behave only on the elements of `xs`.) -/
theorem flatMap_demand (mf : α → GoM τ) (inner : Machine τ β) (Ri : τ → List β → List β → Prop)
    (hI : Sim inner Ri) (h : α → List β) (tag : Option (α → Event)) (xs : List α)
    (hmf : ∀ a, a ∈ xs → MfOK mf Ri h a) (fuel : Nat) (hfuel : xs.length < fuel) (cs : List Call) (lg : Log) :
    let got := (xs.flatMap h).length - (specRest cs (xs.flatMap h)).length
    let n := (runScript (flatMap fuel mf inner (ofSeq tag xs)) cs (0, none) lg).2.1.1
    ((xs.take n).dropLast.flatMap h).length ≤ got ∧ got ≤ ((xs.take n).flatMap h).length := by
  intro got n
  obtain ⟨d, r, d', hInv, hlen, hdr, hd'⟩ := demand_frame (flatMap fuel mf inner (ofSeq tag xs)) none
    (FlatMapInvG fuel mf Ri h) xs (xs.flatMap h) (flatMap_simG hI h fuel (ofSeq_sim tag xs))
    ⟨hfuel, hmf, [], rfl, by simp, by simp⟩ cs lg
  have hgot : d'.length = got := by
    have := congrArg List.length hd'; rw [List.length_append] at this; omega
  have hd : xs.take n = d := by
    have : n = d.length := hlen.symm
    rw [this, ← hdr]; simp
  obtain ⟨_, _, rc, _, hrest, hhist⟩ := hInv
  have hcat : d' ++ rc = d.flatMap h := by
    have h1 : d' ++ (rc ++ r.flatMap h) = d.flatMap h ++ r.flatMap h := by
      rw [← hrest, hd', ← hdr, List.flatMap_append]
    rw [← List.append_assoc] at h1
    exact List.append_cancel_right h1
  have hl : d'.length + rc.length = (d.flatMap h).length := by rw [← hcat, List.length_append]
  rw [hd, ← hgot]
  refine ⟨?_, by omega⟩
  cases hrc : rc with
  | nil =>
    rw [hrc] at hl
    have : (d.dropLast.flatMap h).length ≤ (d.flatMap h).length := by
      rcases List.eq_nil_or_concat d with rfl | ⟨d0, a, rfl⟩
      · simp
      · simp [List.flatMap_append]
    simp only [List.length_nil, Nat.add_zero] at hl
    rw [hl]; exact this
  | cons b bs =>
    obtain ⟨d0, a, pre, hd0, hpre⟩ := hhist (by rw [hrc]; simp)
    subst hd0
    have h2 : ((d0 ++ [a]).flatMap h).length = (d0.flatMap h).length + (h a).length := by
      simp [List.flatMap_append]
    have h3 : rc.length ≤ (h a).length := by rw [← hpre, List.length_append]; omega
    rw [hrc] at hl h3
    simp only [List.dropLast_concat]
    omega

/-- `Concat`: no look-ahead at all — the two sources together have been pulled exactly as often
    as elements were handed out. -/
theorem concat_demand (t1 t2 : Option (α → Event)) (xs ys : List α) (cs : List Call) (lg : Log) :
    let got := (xs ++ ys).length - (specRest cs (xs ++ ys)).length
    let st := (runScript (concat ((MMachine.single (ofSeq t1 xs)).join (MMachine.single (ofSeq t2 ys)))) cs
      ((0, 0), {}) lg).2.1
    st.1.1 + st.1.2 = got := by
  intro got st
  have hms := join_msim (single_msim (ofSeq_sim t1 xs)) (single_msim (ofSeq_sim t2 ys))
  obtain ⟨s', lg', d', e, _, ⟨L, ⟨La, Lb, ⟨da, hRa⟩, ⟨db, hRb⟩, hL⟩, hInv⟩, hd'⟩ :=
    runScript_sim (concat_sim hms) cs ((0, 0), {}) [] (xs ++ ys) lg
      ⟨fun i => if i < 1 then xs else ys,
        ⟨fun _ => xs, fun _ => ys, ⟨[], by simp [ofSeqRel]⟩, ⟨[], by simp [ofSeqRel]⟩, fun i => by simp [MMachine.single]⟩,
        by simp [ConcatInv, MMachine.join, MMachine.single, flatFrom]⟩
  have hst : st = s' := by show (runScript _ cs ((0, 0), {}) lg).2.1 = s'; rw [e]
  rw [hst]
  have hflat := hInv.flat
  have hn : ((MMachine.single (ofSeq t1 xs)).join (MMachine.single (ofSeq t2 ys))).n = 2 := rfl
  rw [hn] at hflat
  simp only [flatFrom, List.append_nil] at hflat
  have h0 : L 0 = La 0 := by rw [hL 0]; simp [MMachine.single]
  have h1 : L 1 = Lb 0 := by rw [hL 1]; simp [MMachine.single]
  obtain ⟨hlea, _, hra⟩ := hRa
  obtain ⟨hleb, _, hrb⟩ := hRb
  have hlen : (specRest cs (xs ++ ys)).length = (xs.length - s'.1.1) + (ys.length - s'.1.2) := by
    rw [hflat, List.length_append, h0, h1, hra, hrb, List.length_drop, List.length_drop]
  have hout : d'.length + (specRest cs (xs ++ ys)).length = (xs ++ ys).length := by
    rw [← List.length_append, hd']; simp
  have : got = (xs ++ ys).length - (specRest cs (xs ++ ys)).length := rfl
  rw [List.length_append] at hout this
  omega

/-- `Zip(a, b)`: `b` is pulled exactly once per pair handed out; so is `a`, except that a `Next`
    called although `b` is exhausted (it panics) still consumes an element of `a`. -/
theorem zip_demand (t1 : Option (α → Event)) (t2 : Option (β → Event)) (xs : List α) (ys : List β)
    (cs : List Call) (lg : Log) :
    let got := (xs.zip ys).length - (specRest cs (xs.zip ys)).length
    let st := (runScript (zip (ofSeq t1 xs) (ofSeq t2 ys)) cs (0, 0) lg).2.1
    st.2 = got ∧ got ≤ st.1 ∧ (got < st.1 → got = ys.length) := by
  intro got st
  obtain ⟨s', lg', d', e, _, ⟨d1, r1, d2, r2, hRa, hRb, _, hl2, hl1, hex⟩, hd'⟩ :=
    runScript_sim (zip_simH (ofSeq_sim t1 xs) (ofSeq_sim t2 ys)) cs (0, 0) [] (xs.zip ys) lg
      ⟨[], xs, [], ys, by simp [ofSeqRel], by simp [ofSeqRel], rfl, rfl, Nat.le_refl _, by simp⟩
  have hst : st = s' := by show (runScript _ cs (0, 0) lg).2.1 = s'; rw [e]
  rw [hst]
  obtain ⟨hlea, hda, _⟩ := hRa
  obtain ⟨hleb, hdb, hrb⟩ := hRb
  have h1 : d1.length = s'.1 := by rw [hda, List.length_take]; omega
  have h2 : d2.length = s'.2 := by rw [hdb, List.length_take]; omega
  have hgot : d'.length = got := by
    have := congrArg List.length hd'
    simp only [List.nil_append, List.length_append] at this
    have hg : got = (xs.zip ys).length - (specRest cs (xs.zip ys)).length := rfl
    omega
  refine ⟨by omega, by omega, fun hlt => ?_⟩
  have hr2 : r2 = [] := hex (by omega)
  rw [hr2] at hrb
  have : ys.length ≤ s'.2 := by
    have := congrArg List.length hrb
    simp only [List.length_nil, List.length_drop] at this
    omega
  omega

/-! ## callbacks that may panic

`Outcome f g` / `Outcome2 f g`: whatever the log, the callback ends as `g` says — a value or a
panic (`Total` is the special case without panics; `outcome_panic_example` shows a callback that
panics on some inputs).  The iterator itself represents `l`; the step function of the terminal
operation may panic.  Then the operation returns what the reference (`foldE`, `foldTryE`, …: the list
computation up to the first panic / failure / hit) returns — a panic propagates with its value —
and the iterator is left as after the last completed pull: it represents exactly the elements after
the one whose step panicked (`d' ++ rest = l`). -/

theorem fold_panic (f : β → α → GoM β) (g : β → α → Except PanicVal β) (hf : Outcome2 f g) (z : β)
    (m : Machine σ α) (s : σ) (l : List α) (h : Represents m s [] l) (fuel : Nat)
    (hfuel : l.length < fuel) (lg : Log) :
    ∃ s' lg' d', fold f m fuel z s lg = ((foldE g z l).1, s', lg') ∧
      Represents m s' d' (foldE g z l).2 ∧ d' ++ (foldE g z l).2 = l := by
  simpa using fold_pspec hf (Represents.sim m) l fuel s [] z lg hfuel h

/-- the reference `foldE`: without panics it is `foldl`; the first panicking step ends it with that
    panic value and the elements after the panicking one unpulled. -/
theorem foldE_without_panic (g : β → α → β) (z : β) (l : List α) :
    foldE (fun b a => .ok (g b a)) z l = (.ok (l.foldl g z), []) := foldE_ok g z l

theorem foldE_at_first_panic (g : β → α → Except PanicVal β) (z z' : β) (pre post : List α) (a : α) (p : PanicVal)
    (hpre : foldE g z pre = (.ok z', [])) (ha : g z' a = .error p) :
    foldE g z (pre ++ a :: post) = (.error p, post) := foldE_first_panic g z z' pre post a p hpre ha

/-- `Reduce` (= `Fold` with the monoid's `Combine`) with a panicking `Combine`. -/
theorem reduce_panic (combine : β → β → GoM β) (g : β → β → Except PanicVal β) (hf : Outcome2 combine g) (empty : β)
    (m : Machine σ β) (s : σ) (l : List β) (h : Represents m s [] l) (fuel : Nat)
    (hfuel : l.length < fuel) (lg : Log) :
    ∃ s' lg' d', reduce empty combine m fuel s lg = ((foldE g empty l).1, s', lg') ∧
      Represents m s' d' (foldE g empty l).2 ∧ d' ++ (foldE g empty l).2 = l :=
  fold_panic combine g hf empty m s l h fuel hfuel lg

theorem foldTry_panic (f : β → α → GoM (Try β)) (g : β → α → Except PanicVal (Try β)) (hf : Outcome2 f g) (z : β)
    (m : Machine σ α) (s : σ) (l : List α) (h : Represents m s [] l) (fuel : Nat)
    (hfuel : l.length < fuel) (lg : Log) :
    ∃ s' lg' d', foldTry f m fuel z s lg = ((foldTryE g z l).1, s', lg') ∧
      Represents m s' d' (foldTryE g z l).2 ∧ d' ++ (foldTryE g z l).2 = l := by
  simpa using foldTry_pspec hf (Represents.sim m) l fuel s [] z lg hfuel h

theorem foldOption_panic (f : β → α → GoM (Option β)) (g : β → α → Except PanicVal (Option β)) (hf : Outcome2 f g)
    (z : β) (m : Machine σ α) (s : σ) (l : List α) (h : Represents m s [] l) (fuel : Nat)
    (hfuel : l.length < fuel) (lg : Log) :
    ∃ s' lg' d', foldOption f m fuel z s lg = ((foldOptionE g z l).1, s', lg') ∧
      Represents m s' d' (foldOptionE g z l).2 ∧ d' ++ (foldOptionE g z l).2 = l := by
  simpa using foldOption_pspec hf (Represents.sim m) l fuel s [] z lg hfuel h

theorem foldError_panic (f : α → GoM (Option Err)) (g : α → Except PanicVal (Option Err)) (hf : Outcome f g)
    (m : Machine σ α) (s : σ) (l : List α) (h : Represents m s [] l) (fuel : Nat)
    (hfuel : l.length < fuel) (lg : Log) :
    ∃ s' lg' d', foldError f m fuel s lg = ((foldErrorE g l).1, s', lg') ∧
      Represents m s' d' (foldErrorE g l).2 ∧ d' ++ (foldErrorE g l).2 = l := by
  simpa using foldError_pspec hf (Represents.sim m) l fuel s [] lg hfuel h

theorem foreach_panic (f : α → GoM Unit) (g : α → Except PanicVal Unit) (hf : Outcome f g)
    (m : Machine σ α) (s : σ) (l : List α) (h : Represents m s [] l) (fuel : Nat)
    (hfuel : l.length < fuel) (lg : Log) :
    ∃ s' lg' d', foreach f m fuel s lg = ((foreachE g l).1, s', lg') ∧
      Represents m s' d' (foreachE g l).2 ∧ d' ++ (foreachE g l).2 = l := by
  simpa using foreach_pspec hf (Represents.sim m) l fuel s [] lg hfuel h

theorem exists_panic (f : α → GoM Bool) (g : α → Except PanicVal Bool) (hf : Outcome f g)
    (m : Machine σ α) (s : σ) (l : List α) (h : Represents m s [] l) (fuel : Nat)
    (hfuel : l.length < fuel) (lg : Log) :
    ∃ s' lg' d', «exists» f m fuel s lg = ((existsE g l).1, s', lg') ∧
      Represents m s' d' (existsE g l).2 ∧ d' ++ (existsE g l).2 = l := by
  simpa using exists_pspec hf (Represents.sim m) l fuel s [] lg hfuel h

theorem forAll_panic (f : α → GoM Bool) (g : α → Except PanicVal Bool) (hf : Outcome f g)
    (m : Machine σ α) (s : σ) (l : List α) (h : Represents m s [] l) (fuel : Nat)
    (hfuel : l.length < fuel) (lg : Log) :
    ∃ s' lg' d', forAll f m fuel s lg = ((forAllE g l).1, s', lg') ∧
      Represents m s' d' (forAllE g l).2 ∧ d' ++ (forAllE g l).2 = l := by
  simpa using forAll_pspec hf (Represents.sim m) l fuel s [] lg hfuel h

/-- `iterator.Fold` with a panicking step over EVERY pipeline, lists of every length, every fuel above
    the bounds. -/
theorem pipe_fold_panicF (p : Pipe) (x : Val) (hwb : p.WB x) (f : Val → Val → GoM Val)
    (g : Val → Val → Except PanicVal Val) (hf : Outcome2 f g) (z : Val) (pfuel : Nat) (hpfuel : p.need x < pfuel)
    (fuel : Nat) (hfuel : (p.denote x).length < fuel) (lg : Log) :
    ∃ s lg1 s' lg' d', (p.buildF pfuel x).run.run lg = (.ok s, lg1) ∧
      fold f (Pipe.machineF pfuel p) fuel z s lg1 = ((foldE g z (p.denote x)).1, s', lg') ∧
      Represents (Pipe.machineF pfuel p) s' d' (foldE g z (p.denote x)).2 ∧ d' ++ (foldE g z (p.denote x)).2 = p.denote x := by
  obtain ⟨s, lg1, e, hR⟩ := pipe_representsF p x hwb pfuel hpfuel lg
  obtain ⟨s', lg', d', e2, hR', hd⟩ := fold_panic f g hf z _ s _ hR fuel hfuel lg1
  exact ⟨s, lg1, s', lg', d', e, e2, hR', hd⟩

/-- put together with `pipe_represents`: `iterator.Fold` with a panicking step over EVERY pipeline. -/
theorem pipe_fold_panic (p : Pipe) (x : Val) (hok : p.OK x) (f : Val → Val → GoM Val)
    (g : Val → Val → Except PanicVal Val) (hf : Outcome2 f g) (z : Val) (fuel : Nat)
    (hfuel : (p.denote x).length < fuel) (lg : Log) :
    ∃ s lg1 s' lg' d', (p.build x).run.run lg = (.ok s, lg1) ∧
      fold f (Pipe.machine p) fuel z s lg1 = ((foldE g z (p.denote x)).1, s', lg') ∧
      Represents (Pipe.machine p) s' d' (foldE g z (p.denote x)).2 ∧ d' ++ (foldE g z (p.denote x)).2 = p.denote x := by
  obtain ⟨s, lg1, e, hR⟩ := pipe_represents p x hok lg
  obtain ⟨s', lg', d', e2, hR', hd⟩ := fold_panic f g hf z _ s _ hR fuel hfuel lg1
  exact ⟨s, lg1, s', lg', d', e, e2, hR', hd⟩

/-! ## unbounded generators: the lazy combinators make finite iterators out of `Generate`

`iterator.Generate` never ends, so it represents no list; `PreSim` ("at least this prefix will be
delivered") is what `Take` / `TakeWhile` need — these combinators contain no fuel at all: they
terminate because they stop asking. -/

/-- `Generate(g).Take(n)` is the finite iterator over the first `n` values. -/
theorem take_generate (g : Nat → GoM α) (gf : Nat → α) (hg : Total g gf) (n : Int) (n0 : Nat) :
    Represents (take n (generate g)) (n0, 0) [] (genList gf n0 n.toNat) := by
  refine ⟨_, take_of_presim n (generate_presim hg), genList gf n0 n.toNat, ⟨n.toNat, rfl⟩, ?_, ?_⟩
  · simp [List.take_of_length_le, genList_length]
  · simp [genList_length]

/-- `Generate(g).Map(f).Take(n)`. -/
theorem take_map_generate (g : Nat → GoM α) (gf : Nat → α) (hg : Total g gf) (f : α → GoM β) (h : α → β)
    (hf : Total f h) (n : Int) (n0 : Nat) :
    Represents (take n (map f (generate g))) (n0, 0) [] ((genList gf n0 n.toNat).map h) := by
  refine ⟨_, take_of_presim n (map_presim hf (generate_presim hg)), (genList gf n0 n.toNat).map h,
    ⟨_, ⟨n.toNat, rfl⟩, rfl⟩, ?_, ?_⟩
  · simp [List.take_of_length_le, genList_length]
  · simp [genList_length]

/-- `Generate(g).TakeWhile(p)` is finite as soon as some generated value fails `p`. -/
theorem takeWhile_generate (g : Nat → GoM α) (gf : Nat → α) (hg : Total g gf) (p : α → GoM Bool) (gp : α → Bool)
    (hp : Total p gp) (n0 k : Nat) (hk : gp (gf (n0 + k)) = false) :
    Represents (takeWhile p (generate g)) (n0, {}) [] ((genList gf n0 (k + 1)).takeWhile gp) :=
  ⟨_, takeWhile_of_presim hp (generate_presim hg), genList gf n0 (k + 1), ⟨k + 1, rfl⟩,
    ⟨gf (n0 + k), genList_mem_last gf n0 k, hk⟩, rfl⟩

/-! ## demand, compositionally: the pull counter of EVERY linear pipeline (audit finding 13)

`Pipe.pulls` (Model/IterPipe.lean) is the number of elements handed out by the instrumented sources
of a pipeline.  The theorems of the section "demand" above are about ONE combinator over ONE
instrumented slice and need `Total` callbacks.  Here: an induction over the `Pipe` AST by a potential
argument on single closure calls (`Lemmas/PipeDemand.lean`, `StepB`): every `HasNext` / `Next` raises
`pulls − held` (`held` = pulls that sit in a look-ahead variable) by at most `width p` (the number of
instrumented sources), a `HasNext` that returns by nothing.  NO hypothesis on the callbacks (they may
log and panic), none on the sources (`Generate` included — no `Pipe.WB`), none on the script, none on
the fuel.  A panicking call may lose the element it was working on, which is why the panicking calls
are counted next to the elements handed out.

`Pipe.Linear` — sources, `Map`, `TapEach`, `Take`, `TakeWhile`, `Scan`, `Zip`, `Zip3`,
`ZipWithIndex`, `MakePullIterator`, `Concat` (over the shared component list `parts`, any nesting) —
are the combinators for which "pulls ≤ elements handed out + constant" is TRUE; `Pipe.LinearD` adds
`Drop(n)`, which spends `n` elements ONCE at construction (`Pipe.dropped`; `pipe_demand_drop`, so also
`x.Concat(y).Drop(n).Concat(z)`).  `Filter`, `FilterNot`, `DropWhile`, `FlatMap`, `FilterMap` skip a
data-dependent number of elements: for them such a bound is FALSE (`filter_no_linear_bound`); what
they pull is stated per combinator in `filter_demand`, `dropWhile_demand`, `flatMap_demand` above. -/

/-- EVERY linear pipeline `p`, every argument, every fuel, every log: building `p` succeeds, and
    after ANY script of `HasNext` / `Next` calls the instrumented sources have handed out at most

        width p · (elements handed out + calls that panicked) + lookahead p

    elements; `lookahead p` is the structural constant `Pipe.lookahead` (one per `MakePullIterator`,
    `width` of the underlying pipeline per `TakeWhile`).  Nothing is assumed about callbacks or
    sources. -/
theorem pipe_demand (p : Pipe) (hl : p.Linear) (fuel : Nat) (x : Val) (lg : Log) :
    ∃ (s0 : p.St) (lg0 : Log), (p.buildF fuel x).run.run lg = (.ok s0, lg0) ∧
      ∀ cs : List Call,
        p.pulls (runScript (p.machineF fuel) cs s0 lg0).2.1
          ≤ p.width * (vals (runScript (p.machineF fuel) cs s0 lg0).1 + panics (runScript (p.machineF fuel) cs s0 lg0).1)
            + p.lookahead := by
  obtain ⟨s0, lg0, e, h0⟩ := Pipe.build_linear fuel p hl x lg
  exact ⟨s0, lg0, e, fun cs => Pipe.pulls_le_of_stepB fuel p hl s0 h0 cs lg0⟩

/-- the same for what the oracle runs (`Pipe.build`, `Pipe.machine`: fuel `FUEL`) -/
theorem pipe_demand_oracle (p : Pipe) (hl : p.Linear) (x : Val) (lg : Log) :
    ∃ (s0 : p.St) (lg0 : Log), (p.build x).run.run lg = (.ok s0, lg0) ∧
      ∀ cs : List Call,
        p.pulls (runScript p.machine cs s0 lg0).2.1
          ≤ p.width * (vals (runScript p.machine cs s0 lg0).1 + panics (runScript p.machine cs s0 lg0).1) + p.lookahead :=
  pipe_demand p hl FUEL x lg

/-- the step form: one call of a linear pipeline's iterator, from ANY state. -/
theorem pipe_demand_step (p : Pipe) (hl : p.Linear) (fuel : Nat) :
    StepB (p.machineF fuel) p.pot p.width p.width := Pipe.stepB fuel p hl

/-- the look-ahead really is bounded by the structural constant, in every state -/
theorem pipe_held_le (p : Pipe) (s : p.St) : p.held s ≤ p.lookahead := Pipe.held_le_lookahead p s

/-- pipelines that also contain `Drop(n)`: IF construction returns (a panicking callback can abort
    a `Drop` loop; for `Pipe.WB` pipelines it does return: `pipe_jointF`), then after any script

        pulls ≤ width p · (handed out + panicked) + lookahead p + dropped p

    where `dropped p` is the sum of `n · width` over the `Drop(n)` of the pipeline. -/
theorem pipe_demand_drop (p : Pipe) (hl : p.LinearD) (fuel : Nat) (x : Val) (lg : Log) (s0 : p.St) (lg0 : Log)
    (hb : (p.buildF fuel x).run.run lg = (.ok s0, lg0)) (cs : List Call) :
    p.pulls (runScript (p.machineF fuel) cs s0 lg0).2.1
      ≤ p.width * (vals (runScript (p.machineF fuel) cs s0 lg0).1 + panics (runScript (p.machineF fuel) cs s0 lg0).1)
        + p.lookahead + p.dropped :=
  Pipe.pulls_le_of_stepBD fuel p hl s0 p.dropped (Pipe.build_linearD fuel p hl x lg s0 lg0 hb) cs lg0

/-- `x.Concat(y).Drop(n).Concat(z)` over three instrumented slices (the pipeline of
    `concat_drop_concat`), followed by `Map(f)` with an arbitrary `f`: every element handed out
    costs ONE pull, `Drop` has spent at most `n`, there is no look-ahead. -/
theorem concat_drop_concat_demand (xs ys zs : List Val) (n : Int) (f : Val → GoM Val) (fuel : Nat) (x : Val) (lg : Log)
    (s0 : (Pipe.map (.concat (.drop (.concat (.src 0 xs) (.src 1 ys)) n) (.src 2 zs)) f).St) (lg0 : Log)
    (hb : ((Pipe.map (.concat (.drop (.concat (.src 0 xs) (.src 1 ys)) n) (.src 2 zs)) f).buildF fuel x).run.run lg = (.ok s0, lg0))
    (cs : List Call) :
    let P := Pipe.map (.concat (.drop (.concat (.src 0 xs) (.src 1 ys)) n) (.src 2 zs)) f
    P.pulls (runScript (P.machineF fuel) cs s0 lg0).2.1
      ≤ vals (runScript (P.machineF fuel) cs s0 lg0).1 + panics (runScript (P.machineF fuel) cs s0 lg0).1 + n.toNat := by
  intro P
  have := pipe_demand_drop P (by simp [P, Pipe.LinearD]) fuel x lg s0 lg0 hb cs
  simpa [P, Pipe.width, Pipe.lookahead, Pipe.dropped] using this

/-- `q.Take(n)` for a linear `q` (also over `Generate`, also `n` huge or negative): however long the
    script, every source is pulled at most `n` times plus the look-ahead of `q` plus once per
    panicking call.  The number of calls does not enter: `Take` stops asking. -/
theorem take_pipe_demand (q : Pipe) (hl : q.Linear) (n : Int) (fuel : Nat) (x : Val) (lg : Log) :
    ∃ (s0 : (Pipe.take q n).St) (lg0 : Log), ((Pipe.take q n).buildF fuel x).run.run lg = (.ok s0, lg0) ∧
      ∀ cs : List Call,
        (Pipe.take q n).pulls (runScript ((Pipe.take q n).machineF fuel) cs s0 lg0).2.1
          ≤ q.width * (n.toNat + panics (runScript ((Pipe.take q n).machineF fuel) cs s0 lg0).1) + q.lookahead := by
  obtain ⟨s0, lg0, e, h0⟩ := Pipe.build_linear fuel q hl x lg
  refine ⟨(s0, (0 : Nat)), lg0, by rw [Pipe.buildF, gom_bind_ok e]; rfl, fun cs => ?_⟩
  have em : (Pipe.take q n).machineF fuel = It.take n (q.machineF fuel) := by rw [Pipe.machineF]
  rw [em]
  exact Pipe.take_pulls_le fuel q hl n s0 h0 cs lg0

/-- `Generate(g).Map(f).TakeWhile(p).Take(n)` with ARBITRARY `f`, `p` (logging, panicking): the
    generator is called at most `n + 1` times plus once per panicking call, whatever the script. -/
theorem take_takeWhile_map_generate_demand (id : Nat) (a b : Int) (f : Val → GoM Val) (p : Val → GoM Bool) (n : Int)
    (fuel : Nat) (x : Val) (lg : Log) :
    let P := Pipe.take (.takew (.map (.gen id a b) f) p) n
    ∃ (s0 : P.St) (lg0 : Log), (P.buildF fuel x).run.run lg = (.ok s0, lg0) ∧
      ∀ cs : List Call,
        P.pulls (runScript (P.machineF fuel) cs s0 lg0).2.1 ≤ n.toNat + panics (runScript (P.machineF fuel) cs s0 lg0).1 + 1 := by
  intro P
  obtain ⟨s0, lg0, e, h⟩ := take_pipe_demand (.takew (.map (.gen id a b) f) p) (by simp [Pipe.Linear]) n fuel x lg
  refine ⟨s0, lg0, e, fun cs => ?_⟩
  have := h cs
  simpa [Pipe.width, Pipe.lookahead] using this

/-- For the skipping combinators NO bound of the shape `c · (handed out + panicked) + c'` holds with
    structural constants: `Filter(never)` over a five element slice — ONE `HasNext`, nothing handed
    out, nothing panicked, the whole source pulled.  (Replace the slice by a longer one for any
    given constants.)  What `Filter` pulls is "up to the next hit": `filter_demand`. -/
theorem filter_no_linear_bound :
    let p : Pipe := .filter (.src 0 [.int 1, .int 2, .int 3, .int 4, .int 5]) (fun _ => pure false)
    ∃ s0 : p.St, (p.buildF 10 (.int 0)).run.run [] = (.ok s0, []) ∧
      vals (runScript (p.machineF 10) [.H] s0 []).1 = 0 ∧ panics (runScript (p.machineF 10) [.H] s0 []).1 = 0 ∧
      p.pulls (runScript (p.machineF 10) [.H] s0 []).2.1 = 5 := by
  intro p
  have em : p.machineF 10 = filter 10 (fun _ => pure false) (ofSeq (some (srcTag 0)) [.int 1, .int 2, .int 3, .int 4, .int 5]) := by
    show Pipe.machineF 10 (.filter (.src 0 _) _) = _
    rw [Pipe.machineF, Pipe.machineF]; rfl
  have eb : (p.buildF 10 (.int 0)).run.run [] = (.ok (((0 : Nat), {}) : p.St), []) := by
    show (Pipe.buildF 10 (.filter (.src 0 _) _) _).run.run [] = _
    rw [Pipe.buildF, Pipe.buildF]; rfl
  refine ⟨((0 : Nat), {}), eb, ?_⟩
  rw [em]
  exact ⟨rfl, rfl, rfl⟩

/-- non-vacuity of `pipe_demand`: a linear pipeline with two instrumented sources, a pull iterator
    and a `TakeWhile`; its constants -/
example : (Pipe.concat (.concat (.src 0 [.int 1]) (.gen 1 0 1)) (.pullseq 2 [.int 5])).Linear := by simp [Pipe.Linear]
example : (Pipe.concat (.concat (.src 0 [.int 1]) (.gen 1 0 1)) (.pullseq 2 [.int 5])).width = 1 := rfl
example : (Pipe.concat (.concat (.src 0 [.int 1]) (.gen 1 0 1)) (.pullseq 2 [.int 5])).lookahead = 1 := rfl
example : (Pipe.takew (.zip (.pullseq 1 [.int 1, .int 2]) (.map (.gen 2 0 1) (fun v => pure v))) (fun _ => pure true)).Linear := by
  simp [Pipe.Linear]
example : (Pipe.takew (.zip (.pullseq 1 [.int 1, .int 2]) (.map (.gen 2 0 1) (fun v => pure v))) (fun _ => pure true)).width = 2 := rfl
example : (Pipe.takew (.zip (.pullseq 1 [.int 1, .int 2]) (.map (.gen 2 0 1) (fun v => pure v))) (fun _ => pure true)).lookahead = 3 := rfl

/-! ## callbacks INSIDE a pipeline that panic or log (audit finding 12)

`Total f g` (all the `…_represents` theorems, `Pipe.WB`) lets a callback log but not panic, and says
nothing about WHAT is logged.  Here the callback of `Map`, `Filter`, `TakeWhile`, `FlatMap` is any
`Outcome f g` (`g a : Except PanicVal _`: returns or panics; logs at will), the iterator below is
ANY iterator that represents a list (any pipeline of this file).  The demand side needs no
hypothesis at all: `pipe_demand` above holds for panicking and logging callbacks. -/

/-- `Map(f)`: `Next` returns `g a` or panics with `g a`'s panic — the panic comes out of the `Next`
    that evaluates `f a` — and in both cases the iterator then represents exactly the elements
    AFTER `a` (the state of `Map` is the state of the iterator below). -/
theorem map_next_panic (f : α → GoM β) (g : α → Except PanicVal β) (hf : Outcome f g) (m : Machine σ α) (s : σ)
    (a : α) (r : List α) (h : Represents m s [] (a :: r)) (lg : Log) :
    ∃ s' lg', (map f m).next s lg = (g a, s', lg') ∧ Represents m s' [] r := by
  obtain ⟨s', lg', e, hR⟩ := map_next_outcome hf (Represents.sim m) s [] a r lg h
  exact ⟨s', lg', e, represents_reset m s' _ _ hR⟩

/-- `Map(f)` under ANY script: the observations are those of the reference `mapSpecObs g` on the
    list (`val (g a)` or `panic q` per element pulled, in order; a panicking element is consumed),
    and the iterator is left representing exactly what the script has not consumed. -/
theorem map_script_panic (f : α → GoM β) (g : α → Except PanicVal β) (hf : Outcome f g) (m : Machine σ α) (s : σ)
    (l : List α) (h : Represents m s [] l) (cs : List Call) (lg : Log) :
    ObsAgreeL (runScript (map f m) cs s lg).1 (mapSpecObs g cs l) ∧
      Represents m (runScript (map f m) cs s lg).2.1 [] (specRest cs l) := by
  obtain ⟨ho, hR⟩ := map_outcome_script hf (Represents.sim m) cs s [] l lg h
  exact ⟨ho, represents_reset m _ _ _ hR⟩

/-- with `Total` callbacks `mapSpecObs` is the plain `specScript` of the mapped list: the new
    theorem specialises to the old reading -/
theorem mapSpecObs_total (g : α → β) : ∀ (cs : List Call) (l : List α),
    (mapSpecObs (fun a => .ok (g a)) cs l).map Obs.erase = specScript cs (l.map g) := by
  intro cs
  induction cs with
  | nil => intro l; rfl
  | cons c cs ih =>
    intro l
    cases c with
    | H => simp [mapSpecObs, specScript, ih, Obs.erase]
    | N =>
      cases l with
      | nil => simpa [mapSpecObs, specScript, Obs.erase] using ih []
      | cons a r => simp [mapSpecObs, specScript, ih, Obs.erase, outcomeObs]

/-- LOGGING callbacks: `Map(f)` over the (instrumented) slice iterator, `f a` logging `ev a` and then
    returning / panicking as `g a`; ANY script.  Observations, position of the source and the LOG are
    the reference's — the log of the run is, in pull order, for every element pulled: the source's
    event, then the callback's events.  Nothing is evaluated ahead of the consumer, nothing twice. -/
theorem map_log_pull_order (f : α → GoM β) (g : α → Except PanicVal β) (ev : α → List Event) (hf : Logs f g ev)
    (tag : Option (α → Event)) (xs : List α) (cs : List Call) (lg : Log) :
    runScript (map f (ofSeq tag xs)) cs 0 lg =
      (mapSpecObs g cs xs, xs.length - (specRest cs xs).length, lg ++ mapSpecLog (tagEvs tag) ev cs xs) := by
  simpa using map_ofSeq_script hf tag xs cs 0 lg (Nat.zero_le _)

/-- a full run of `Next` calls over a callback that never panics: the log is the concatenation of
    the callback logs (interleaved with the source's events) in element order -/
theorem map_log_all (tagEv ev : α → List Event) : ∀ (xs : List α),
    mapSpecLog tagEv ev (List.replicate xs.length Call.N) xs = xs.flatMap (fun a => tagEv a ++ ev a) := by
  intro xs
  induction xs with
  | nil => rfl
  | cons a r ih => simp [List.replicate_succ, mapSpecLog, ih]

/-- `Filter(p).HasNext` before the first look-ahead, `p` panicking where `g` says so: `findE g l` is
    the reference (outcome of the search, elements not pulled).  A panic propagates out of `HasNext`,
    the captured variables are untouched, and the iterator below represents exactly the elements
    AFTER the offending one — the Filter iterator is a fresh Filter over them. -/
theorem filter_hasNext_panic (p : α → GoM Bool) (g : α → Except PanicVal Bool) (hp : Outcome p g) (m : Machine σ α)
    (s : σ) (l : List α) (h : Represents m s [] l) (fuel : Nat) (hfuel : l.length < fuel) (lg : Log) :
    ∃ s' lg', Represents m s' [] (findE g l).2 ∧
      (filter fuel p m).hasNext (s, {}) lg =
        match (findE g l).1 with
        | .ok fv => (.ok fv.isSome, (s', { first := false, fv := fv }), lg')
        | .error q => (.error q, (s', {}), lg') := by
  obtain ⟨s', lg', d1, hR, _, e⟩ := filter_hasNext_first hp (Represents.sim m) fuel s none [] l lg hfuel h
  exact ⟨s', lg', represents_reset m s' _ _ hR, e⟩

/-- `Filter(p).Next` with look-ahead `ret`: it runs the search for the NEXT look-ahead before
    returning.  If `p` panics there, the panic comes out of this `Next` (one element early), `ret`
    is NOT lost (`fv` still holds it) and the iterator below represents the elements after the
    offending one: a client that recovers gets `ret` next, then the later hits. -/
theorem filter_next_panic (p : α → GoM Bool) (g : α → Except PanicVal Bool) (hp : Outcome p g) (m : Machine σ α)
    (s : σ) (ret : α) (l : List α) (h : Represents m s [] l) (fuel : Nat) (hfuel : l.length < fuel) (lg : Log) :
    ∃ s' lg', Represents m s' [] (findE g l).2 ∧
      (filter fuel p m).next (s, { first := false, fv := some ret }) lg =
        match (findE g l).1 with
        | .ok fv => (.ok ret, (s', { first := false, fv := fv }), lg')
        | .error q => (.error q, (s', { first := false, fv := some ret }), lg') := by
  obtain ⟨s', lg', d1, hR, _, e⟩ := filter_next_lookahead hp (Represents.sim m) fuel s ret [] l lg hfuel h
  exact ⟨s', lg', represents_reset m s' _ _ hR, e⟩

/-- `Filter(p)` under ANY script, over any iterator that represents `l`, `p` panicking where `g` says
    so: the observations are EXACTLY those of the reference `filterSpec g` (a small state machine over
    the list: `filterStep`), the captured variables end in the reference's mode, and the iterator
    below represents the reference's rest.  Together with `map_script_panic` this is the outcome
    semantics of the two combinators for every script. -/
theorem filter_script_panic (p : α → GoM Bool) (g : α → Except PanicVal Bool) (hp : Outcome p g) (m : Machine σ α)
    (s : σ) (l : List α) (h : Represents m s [] l) (fuel : Nat) (hfuel : l.length < fuel) (cs : List Call) (lg : Log) :
    (runScript (filter fuel p m) cs (s, {}) lg).1 = (filterSpec g cs none l).1 ∧
      filterMode (runScript (filter fuel p m) cs (s, {}) lg).2.1.2 = (filterSpec g cs none l).2.1 ∧
      Represents m (runScript (filter fuel p m) cs (s, {}) lg).2.1.1 [] (filterSpec g cs none l).2.2 := by
  obtain ⟨h1, h2, d', h3⟩ := filter_outcome_script hp (Represents.sim m) fuel cs s {} [] l lg hfuel h
  exact ⟨h1, h2, represents_reset m _ _ _ h3⟩

/-- the reference at work: the predicate panics on `2`.  `HasNext` finds `1`; the first `Next` panics
    ("boom" — raised while looking for the element AFTER `1`) and keeps `1`; the second `Next` hands
    out `1`, the third `3`.  A recovering client sees the panic one element early and loses only `2`. -/
example :
    (filterSpec (fun n : Nat => if n = 2 then (.error "boom" : Except PanicVal Bool) else .ok true)
      [.H, .N, .N, .N, .H] none [1, 2, 3]).1 = [.has true, .panic "boom", .val 1, .val 3, .has false] := by decide

/-- `findE` at the first panic: everything before is rejected, the offending element is consumed,
    what follows has not been pulled -/
theorem findE_at_first_panic (g : α → Except PanicVal Bool) (pre post : List α) (a : α) (q : PanicVal)
    (hpre : ∀ b ∈ pre, g b = .ok false) (ha : g a = .error q) :
    findE g (pre ++ a :: post) = (.error q, post) := by
  induction pre with
  | nil => simp [findE, ha]
  | cons b pre ih =>
    have hb := hpre b (by simp)
    simp only [List.cons_append, findE, hb]
    exact ih (fun c hc => hpre c (by simp [hc]))

/-- `TakeWhile(p).HasNext` without look-ahead: the outcome of `p` on the next element decides; a
    panic propagates, the element is consumed, `breaking` stays `false` — the iterator continues as
    a fresh TakeWhile over the elements after it. -/
theorem takeWhile_hasNext_panic (p : α → GoM Bool) (g : α → Except PanicVal Bool) (hp : Outcome p g) (m : Machine σ α)
    (s : σ) (a : α) (r : List α) (h : Represents m s [] (a :: r)) (lg : Log) :
    ∃ s' lg', Represents m s' [] r ∧
      (takeWhile p m).hasNext (s, {}) lg =
        match g a with
        | .ok true => (.ok true, (s', { breaking := false, fv := some a }), lg')
        | .ok false => (.ok false, (s', { breaking := true, fv := none }), lg')
        | .error q => (.error q, (s', {}), lg') := by
  obtain ⟨s', lg', hR, e⟩ := takeWhile_hasNext_outcome hp (Represents.sim m) s [] a r lg h
  exact ⟨s', lg', represents_reset m s' _ _ hR, e⟩

/-- `TakeWhile(p)` under ANY script, over any iterator that represents `l`, `p` panicking where `g`
    says so: observations and captured variables are EXACTLY the reference's (`twSpec g` /
    `twStep`), the iterator below represents the reference's rest. -/
theorem takeWhile_script_panic (p : α → GoM Bool) (g : α → Except PanicVal Bool) (hp : Outcome p g) (m : Machine σ α)
    (s : σ) (l : List α) (h : Represents m s [] l) (cs : List Call) (lg : Log) :
    (runScript (takeWhile p m) cs (s, {}) lg).1 = (twSpec g cs {} l).1 ∧
      (runScript (takeWhile p m) cs (s, {}) lg).2.1.2 = (twSpec g cs {} l).2.1 ∧
      Represents m (runScript (takeWhile p m) cs (s, {}) lg).2.1.1 [] (twSpec g cs {} l).2.2 := by
  obtain ⟨h1, h2, d', h3⟩ := takeWhile_outcome_script hp (Represents.sim m) cs s {} [] l lg h
  exact ⟨h1, h2, represents_reset m _ _ _ h3⟩

/-- the reference at work: the predicate panics on `2` and rejects `4`: the panic comes out of the
    call that evaluates it, `2` is lost, the iterator CONTINUES with `3` and ends at `4`. -/
example :
    (twSpec (fun n : Nat => if n = 2 then (.error "boom" : Except PanicVal Bool) else .ok (decide (n < 4)))
      [.N, .H, .N, .N, .H] {} [1, 2, 3, 4, 5]).1 = [.val 1, .panic "boom", .val 3, .panic nextOnEmpty, .has false] := by decide

/-- `FlatMap(mf).HasNext` when `mf` panics on the next element (no inner iterator yet): the panic
    propagates, the element is consumed, `current` stays `None`. -/
theorem flatMap_hasNext_cb_panic (mf : α → GoM τ) (gm : α → Except PanicVal τ) (hmf : Outcome mf gm) (inner : Machine τ β)
    (m : Machine σ α) (s : σ) (a : α) (r : List α) (h : Represents m s [] (a :: r)) (q : PanicVal) (hq : gm a = .error q)
    (fuel : Nat) (lg : Log) :
    ∃ s' lg', (flatMap (fuel + 1) mf inner m).hasNext (s, none) lg = (.error q, (s', none), lg') ∧ Represents m s' [] r := by
  obtain ⟨s', lg', e, hR⟩ := flatMap_hasNext_panic hmf inner (Represents.sim m) fuel s [] a r lg q h hq
  exact ⟨s', lg', e, represents_reset m s' _ _ hR⟩

/-- non-vacuity: a callback that logs and panics on some elements satisfies `Logs` (hence `Outcome`) -/
example (t : α → Event) (bad : α → Bool) (q : PanicVal) (h : α → β) :
    Logs (fun a => (do emit (t a); if bad a then throw q else pure (h a) : GoM β))
      (fun a => if bad a then .error q else .ok (h a)) (fun a => [t a]) := logs_example t bad q h
