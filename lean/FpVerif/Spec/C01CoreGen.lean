import FpVerif.Gen.CoreGen
import FpVerif.Model.Arity
import FpVerif.Spec.C01Inst
import FpVerif.Spec.C02
import FpVerif.Spec.C17
import FpVerif.Spec.C17Ext
import FpVerif.Spec.C02Ext
/-!
# C01 / C02 / C17 — the hand-written cores of Option / Try / Either / StateT, TRANSLATED from the source on every run

`FpVerif/Gen/CoreGen.lean` is produced by `harness/cmd/core2lean` (a Go-AST → Lean translator into the effect monad
`GoM`) from `try.go`, `option.go`, `either.go`, `state.go`, `try/try_op.go`, `option/option_op.go`,
`either/either_op.go`, `statet/statet_op.go` of the working tree: one Lean definition per Go function / method, same
structure (the `if`/`return` chains become `match`/`if`, every user callback is an `A → GoM B` bound in Go's evaluation
order, `defer`/`recover` is `tryCatch`, loops over an iterator are recursion over the elements it yields).

The theorems below — statements fixed here under version control — say, function by function, that the translated
definition IS the hand-written model (`Model/TryOpt.lean`, `TryOptExt.lean`, `StateT.lean`, `StateTExt.lean`) about
which `Spec/C01Inst`, `C02`, `C02Ext`, `C17`, `C17Ext`, `C01TExt` prove the properties.  Most proofs are `rfl` (the
kernel unfolds both sides), the rest a case split.  A change of ONE Go function (wrong operand, dropped branch,
swapped state, callback applied on the wrong side) changes its translated definition and exactly its theorem stops
checking; a function outside the translated fragment is a failing obligation of the extractor; a NEW exported
function makes the coverage theorem fail.

Representation (trusted, see REPORT): `fp.Try[T]{success, v, err}` is `Try T` (`.failure .nil` = the zero value),
`fp.Option[T]` is `Option T`, the interface `fp.Either` is the inductive `Either` and a method call on it dispatches on
the constructor (`left` / `right` structs), `fp.StateT[S,A]` is `S → GoM (Try A × S)`, `*T` is `Option T`,
`fp.Seq` / `fp.Iterator` are `List`, `error` is `Err`, a recovered panic value is its rendering.
`t.Failed().Get()` is the primitive `Try.failedGet`; `Try_Failed_Get_is_failedGet` ties the primitive to the
translated `Failed` and `Get`.
-/
set_option linter.unusedSimpArgs false
namespace FpVerif.Spec.C01CoreGen
open FpVerif FpVerif.Gen.CoreGen

variable {A B C D R S T U V L X : Type}

-- ============================================================================================== try.go (type fp.Try)
theorem fp_Success_is_model (t : T) : fp.Success t = Try.success t := rfl
theorem fp_Failure_is_model (e : Err) : (fp.Failure e : Try T) = Try.failure e := rfl
theorem fp_Try_All_is_model (r : Try T) : fp.Try_All r = TryM.all r := rfl
theorem fp_Try_IsSuccess_is_model (r : Try T) : fp.Try_IsSuccess r = Try.isSuccess r := rfl
theorem fp_Try_IsFailure_is_model (r : Try T) : fp.Try_IsFailure r = !Try.isSuccess r := rfl
theorem fp_Try_Get_is_model : @fp.Try_Get T = TryM.get := rfl
/-- `Unapply` has no separate model: success gives `(v, nil)`, failure `(zero, the error)` (panicking on the zero value) -/
theorem fp_Try_Unapply_def (zero : T) (r : Try T) : fp.Try_Unapply zero r =
    (match r with
     | .success v => pure (v, Err.nil)
     | .failure e => do let e ← Try.failedGet (.failure e : Try T); pure (zero, e)) := rfl
theorem fp_Try_Map_is_model : @fp.Try_Map T = TryM.mMap := rfl
theorem fp_Try_MapError_is_model : @fp.Try_MapError T = TryM.mapError := rfl
theorem fp_Try_FlatMap_is_model : @fp.Try_FlatMap T = TryM.mFlatMap := rfl
theorem fp_Try_Foreach_is_model : @fp.Try_Foreach T = TryM.foreach := rfl
/-- `Failed()`: `Failure(ErrTryNotFailed)` on a success, `Failure(not initialised)` on the zero value, else `Success(err)` -/
theorem fp_Try_Failed_def (r : Try T) : fp.Try_Failed r =
    (match r with
     | .success _ => .failure .tryNotFailed
     | .failure e => if e = .nil then .failure .notInit else .success e) := rfl
/-- the primitive the translator uses for `t.Failed().Get()` IS the translated `Get` of the translated `Failed` -/
theorem Try_Failed_Get_is_failedGet (r : Try T) : fp.Try_Get (fp.Try_Failed r) = Try.failedGet r := by
  cases r with
  | success v => rfl
  | failure e => cases e <;> rfl
theorem fp_Try_OrElse_is_model : @fp.Try_OrElse T = TryM.orElse := rfl
theorem fp_Try_OrElseGet_is_model : @fp.Try_OrElseGet T = TryM.orElseGet := rfl
theorem fp_Try_OrZero_is_model : @fp.Try_OrZero T = TryM.orZero := rfl
theorem fp_Try_Or_is_model : @fp.Try_Or T = TryM.or := rfl
theorem fp_Try_OrTry_is_model : @fp.Try_OrTry T = TryM.orTry := rfl
theorem fp_Try_Recover_is_model : @fp.Try_Recover T = TryM.recover := rfl
theorem fp_Try_RecoverWith_is_model : @fp.Try_RecoverWith T = TryM.recoverWith := rfl
/-- the Go code evaluates `r.Failed().Get()` twice (once for `isDefinedAt`, once for `then`), the model once: the second
    evaluation cannot panic where the first did not -/
theorem fp_Try_RecoverCase_is_model (r : Try T) (p : Err → GoM Bool) (f : Err → GoM T) :
    fp.Try_RecoverCase r p f = TryM.recoverCase r p f := by
  cases r with
  | success v => rfl
  | failure e => cases e <;> simp [fp.Try_RecoverCase, TryM.recoverCase, Try.failedGet, fp.Success]
theorem fp_Try_RecoverCaseWith_is_model (r : Try T) (p : Err → GoM Bool) (f : Err → GoM (Try T)) :
    fp.Try_RecoverCaseWith r p f = TryM.recoverCaseWith r p f := by
  cases r with
  | success v => rfl
  | failure e => cases e <;> simp [fp.Try_RecoverCaseWith, TryM.recoverCaseWith, Try.failedGet]
theorem fp_Try_ToSeq_is_model : @fp.Try_ToSeq T = TryM.toSeq := rfl

-- ============================================================================================== option.go (type fp.Option)
theorem fp_Some_is_model (v : T) : fp.Some v = some v := rfl
theorem fp_None_is_model : (fp.None : Option T) = none := rfl
theorem fp_Option_All_is_model : @fp.Option_All T = OptM.all := rfl
theorem fp_Option_Foreach_is_model : @fp.Option_Foreach T = OptM.foreach := rfl
theorem fp_Option_IsDefined_is_model (r : Option T) : fp.Option_IsDefined r = r.isSome := rfl
theorem fp_Option_IsEmpty_is_model (r : Option T) : fp.Option_IsEmpty r = !r.isSome := rfl
theorem fp_Option_Get_is_model : @fp.Option_Get T = OptM.get := rfl
theorem fp_Option_Unapply_is_model : @fp.Option_Unapply T = OptM.unapply := rfl
theorem fp_Option_Filter_is_model : @fp.Option_Filter T = OptM.filter := rfl
theorem fp_Option_FilterNot_is_model (r : Option T) (p : T → GoM Bool) : fp.Option_FilterNot r p = OptM.filterNot r p := by
  cases r with
  | none => rfl
  | some v =>
    simp only [fp.Option_FilterNot, OptM.filterNot]
    congr 1; funext c; cases c <;> rfl
theorem fp_Option_Map_is_model : @fp.Option_Map T = OptM.mMap := rfl
theorem fp_Option_FlatMap_is_model : @fp.Option_FlatMap T = OptM.mFlatMap := rfl
theorem fp_Option_OrElse_is_model (r : Option T) (t : T) : fp.Option_OrElse r t = OptM.orElse r t := by cases r <;> rfl
theorem fp_Option_OrZero_is_model : @fp.Option_OrZero T = OptM.orZero := rfl
theorem fp_Option_OrElseGet_is_model : @fp.Option_OrElseGet T = OptM.orElseGet := rfl
theorem fp_Option_Or_is_model : @fp.Option_Or T = OptM.or := rfl
theorem fp_Option_OrOption_is_model : @fp.Option_OrOption T = OptM.orOption := rfl
theorem fp_Option_OrPtr_is_model (r v : Option T) : fp.Option_OrPtr r v = OptM.orPtr r v := by cases r <;> cases v <;> rfl
theorem fp_Option_Recover_is_model : @fp.Option_Recover T = OptM.recover := rfl
theorem fp_Option_ToSeq_def (r : Option T) : fp.Option_ToSeq r = r.toList := by cases r <;> rfl
theorem fp_Option_Ptr_is_model : @fp.Option_Ptr T = OptM.mPtr := rfl
theorem fp_Option_Exists_is_model : @fp.Option_Exists T = OptM.exists_ := rfl
theorem fp_Option_ForAll_is_model (r : Option T) (p : T → GoM Bool) : fp.Option_ForAll r p = OptM.forAll r p := by
  cases r <;> rfl

-- ============================================================================================== either.go (interface fp.Either, structs left / right)
theorem fp_Left_is_model (l : L) : (fp.Left l : Either L R) = .left l := rfl
theorem fp_Right_is_model (r : R) : (fp.Right r : Either L R) = .right r := rfl
theorem fp_left_IsLeft_def (v : L) : fp.left_IsLeft L R v = true := rfl
theorem fp_left_IsRight_def (v : L) : fp.left_IsRight L R v = false := rfl
theorem fp_left_Left_def (v : L) : fp.left_Left L R v = v := rfl
theorem fp_left_Get_def (v : L) : fp.left_Get L R v = throw "Either.left" := rfl
theorem fp_left_Recover_def (v : L) (f : Unit → GoM R) :
    fp.left_Recover L R v f = (do let r ← f (); pure (.right r)) := rfl
theorem fp_right_IsLeft_def (v : R) : fp.right_IsLeft L R v = false := rfl
theorem fp_right_IsRight_def (v : R) : fp.right_IsRight L R v = true := rfl
theorem fp_right_Left_def (v : R) : fp.right_Left L R v = throw "Either.right" := rfl
theorem fp_right_Get_def (v : R) : fp.right_Get L R v = v := rfl
theorem fp_right_Recover_def (v : R) (f : Unit → GoM R) : fp.right_Recover L R v f = (.right v : Either L R) := rfl
/-- the guards the translator reads as a `match` on the constructor ARE the translated methods -/
theorem fp_Either_IsLeft_def (e : Either L R) : fp.Either_IsLeft e = (match e with | .left _ => true | .right _ => false) := by cases e <;> rfl
theorem fp_Either_IsRight_def (e : Either L R) : fp.Either_IsRight e = (match e with | .left _ => false | .right _ => true) := by cases e <;> rfl
theorem fp_Either_Get_is_model (e : Either L R) : fp.Either_Get e = EitM.get e := by cases e <;> rfl
theorem fp_Either_Left_is_model (e : Either L R) : fp.Either_Left e = EitM.getLeft e := by cases e <;> rfl
theorem fp_Either_Recover_is_model (e : Either L R) (f : Unit → GoM R) : fp.Either_Recover e f = EitM.recover e f := by
  cases e <;> rfl

-- ============================================================================================== state.go (type fp.StateT)
/-- both sides run the same state function and then split on the `Try` it returned -/
local macro "st_cases" : tactic => `(tactic| (congr 1; funext ⟨t, ns⟩; cases t <;> rfl))
theorem fp_StateT_Run_def (r : StM.StT S A) (s : S) : fp.StateT_Run r s = r s := rfl
theorem fp_StateT_Exec_is_model : @fp.StateT_Exec S A = StM.exec := rfl
theorem fp_StateT_Eval_is_model : @fp.StateT_Eval S A = StM.eval := rfl
theorem fp_StateT_Recover_is_model : @fp.StateT_Recover S A = StM.recover := by
  funext r f s; simp only [fp.StateT_Recover, StM.recover, fp.StateT_Run]; st_cases
theorem fp_StateT_RecoverT_is_model : @fp.StateT_RecoverT S A = StM.recoverT := by
  funext r f s; simp only [fp.StateT_RecoverT, StM.recoverT, fp.StateT_Run]; st_cases
theorem fp_StateT_RecoverWithState_is_model : @fp.StateT_RecoverWithState S A = StM.recoverWithState := by
  funext r f s; simp only [fp.StateT_RecoverWithState, StM.recoverWithState, fp.StateT_Run]; st_cases
theorem fp_StateT_RecoverWithStateT_is_model : @fp.StateT_RecoverWithStateT S A = StM.recoverWithStateT := by
  funext r f s; simp only [fp.StateT_RecoverWithStateT, StM.recoverWithStateT, fp.StateT_Run]; st_cases
theorem fp_StateT_RecoverWith_is_model : @fp.StateT_RecoverWith S A = StM.recoverWith := by
  funext r f s; simp only [fp.StateT_RecoverWith, StM.recoverWith, fp.StateT_Run]
  congr 1; funext ⟨t, ns⟩; cases t <;> simp

/-- as for `Try.RecoverCase`: the Go code evaluates `at.Failed().Get()` twice, the model once -/
theorem fp_StateT_RecoverCase_is_model : @fp.StateT_RecoverCase S A = StM.recoverCase := by
  funext r p f s; simp only [fp.StateT_RecoverCase, StM.recoverCase, fp.StateT_Run]
  congr 1; funext ⟨t, ns⟩
  cases t with
  | success v => rfl
  | failure e => cases e <;> simp [Try.failedGet, fp.Success]
theorem fp_StateT_RecoverCaseT_is_model : @fp.StateT_RecoverCaseT S A = StM.recoverCaseT := by
  funext r p f s; simp only [fp.StateT_RecoverCaseT, StM.recoverCaseT, fp.StateT_Run]
  congr 1; funext ⟨t, ns⟩
  cases t with
  | success v => rfl
  | failure e => cases e <;> simp [Try.failedGet]
theorem fp_StateT_RecoverCaseWith_is_model : @fp.StateT_RecoverCaseWith S A = StM.recoverCaseWith := by
  funext r p f s; simp only [fp.StateT_RecoverCaseWith, StM.recoverCaseWith, fp.StateT_Run]
  congr 1; funext ⟨t, ns⟩
  cases t with
  | success v => rfl
  | failure e => cases e <;> simp [Try.failedGet]

-- ============================================================================================== try/try_op.go
theorem try_Pure_is_model (t : T) : try_.Pure t = Try.success t := rfl
theorem try_Success_is_model (t : T) : try_.Success t = Try.success t := rfl
theorem try_Failure_is_model (e : Err) : (try_.Failure e : Try T) = Try.failure e := rfl
/-- the unit of the `MonadOps` instance the C01 laws are proved about is the translated `Pure` -/
theorem try_ops_pure_is_Pure (a : A) : TryM.ops.pure' a = pure (try_.Pure a) := rfl
theorem try_FromOption_is_model : @try_.FromOption T = TryM.fromOption := rfl
theorem try_FromPtr_is_model : @try_.FromPtr T = Arity.fromPtr := rfl
theorem try_Of_is_model : @try_.Of T = TryM.of := rfl
theorem try_Call_is_model : @try_.Call T = TryM.call := rfl
theorem try_CallUnit_is_model : try_.CallUnit = TryM.callUnit := rfl
theorem try_Apply_is_model (v : T) (e : Err) : try_.Apply v e = TryM.apply v e := by
  unfold try_.Apply TryM.apply; split <;> rfl
theorem try_ComposeOption_is_model : @try_.ComposeOption A B C = TryM.composeOption := rfl
/-- `ComposePure(fab) = fp.Compose(fab, Success)` -/
theorem try_ComposePure_def (fab : A → GoM B) :
    try_.ComposePure fab = (fun a => do let b ← fab a; pure (.success b)) := rfl
/-- the hand-written `try.Map` is the family's `Map` (`FlatMap(opt, Compose2(f, Pure))`) -/
theorem try_Map_is_model (opt : Try T) (f : T → GoM U) : try_.Map opt f = MonadFamily.map TryM.ops (pure opt) f := rfl
theorem try_FlatMap_is_model : @try_.FlatMap A B = TryM.flatMap := rfl
/-- the `flatMap` of the `MonadOps` instance is the translated `FlatMap` after running the operand -/
theorem try_ops_flatMap_is_FlatMap (m : GoM (Try A)) (k : A → GoM (Try B)) :
    TryM.ops.flatMap m k = (do let t ← m; try_.FlatMap t k) := rfl
theorem try_Fold_is_model (ta : Try A) (z : B) (f : B → A → GoM B) : try_.Fold ta z f = TryM.fold ta z f := by
  cases ta <;> rfl
theorem try_FoldRight_is_model (ta : Try A) (z : B) (f : A → EvalM.Eval B → GoM (EvalM.Eval B)) :
    try_.FoldRight ta z f = TryM.foldRight ta z f := by cases ta <;> rfl
theorem try_ToSeq_is_model : @try_.ToSeq A = TryM.toSeq := rfl
/-- `try.Iterator(ta) = fp.IteratorOfSeq(ToSeq(ta))`: an iterator is the list it yields -/
theorem try_Iterator_def (ta : Try A) : try_.Iterator ta = TryM.toSeq ta := rfl
theorem try_FoldM_loop_is_model (z0 : B) (f : B → A → GoM (Try B)) (xs : List A) (z : B) :
    try_.FoldM_loop z0 f xs z = TryM.foldM xs z f := by
  induction xs generalizing z with
  | nil => rfl
  | cons x xs ih =>
    simp only [try_.FoldM_loop, TryM.foldM]
    congr 1; funext t; cases t with
    | success v => exact ih v
    | failure e => rfl
theorem try_FoldM_is_model (xs : List A) (z : B) (f : B → A → GoM (Try B)) : try_.FoldM xs z f = TryM.foldM xs z f :=
  try_FoldM_loop_is_model z f xs z

-- ============================================================================================== option/option_op.go
/-- `option.Some(v) = fp.None().Recover(func() T { return v })` … -/
theorem option_Some_is_model : @option.Some T = OptM.some' := rfl
/-- … which is `Some(v)` without effects -/
theorem option_Some_pure (v : T) : option.Some v = pure (some v) := rfl
theorem option_Pure_is_model (v : T) : option.Pure v = pure (some v) := rfl
theorem option_ops_pure_is_Pure (a : A) : OptM.ops.pure' a = option.Pure a := rfl
theorem option_None_is_model : (option.None : Option T) = none := rfl
theorem option_ConstNone_is_model : @option.ConstNone A B = OptM.constNone := rfl
theorem option_Ptr_is_model (v : Option T) : option.Ptr v = pure (OptM.ptr v) := by cases v <;> rfl
theorem option_FromTry_is_model (t : Try T) : option.FromTry t = pure (OptM.fromTry t) := by cases t <;> rfl
theorem option_ComposePure_is_model (fab : A → GoM B) : option.ComposePure fab = OptM.composePure fab := by
  funext a; simp [option.ComposePure, OptM.composePure, option.Some, fp.Option_Recover, fp.None]
theorem option_FlatMap_is_model : @option.FlatMap T U = OptM.flatMap := rfl
theorem option_ops_flatMap_is_FlatMap (m : GoM (Option A)) (k : A → GoM (Option B)) :
    OptM.ops.flatMap m k = (do let t ← m; option.FlatMap t k) := rfl
theorem option_FlatPtr_is_model (opt : Option (Option T)) : option.FlatPtr opt = OptM.flatPtr opt := by
  cases opt with
  | none => rfl
  | some v => cases v <;> rfl
theorem option_Fold_is_model (s : Option A) (z : B) (f : B → A → GoM B) : option.Fold s z f = OptM.fold s z f := by
  cases s <;> rfl
theorem option_FoldRight_is_model (s : Option A) (z : B) (f : A → EvalM.Eval B → GoM (EvalM.Eval B)) :
    option.FoldRight s z f = OptM.foldRight s z f := by cases s <;> rfl
theorem option_FoldM_loop_is_model (z0 : B) (f : B → A → GoM (Option B)) (xs : List A) (z : B) :
    option.FoldM_loop z0 f xs z = OptM.foldM xs z f := by
  induction xs generalizing z with
  | nil => rfl
  | cons x xs ih =>
    simp only [option.FoldM_loop, OptM.foldM]
    congr 1; funext t; cases t with
    | some v => exact ih v
    | none => rfl
theorem option_FoldM_is_model (xs : List A) (z : B) (f : B → A → GoM (Option B)) : option.FoldM xs z f = OptM.foldM xs z f :=
  option_FoldM_loop_is_model z f xs z
theorem option_ToSeq_def (r : Option T) : option.ToSeq r = r.toList := by cases r <;> rfl
theorem option_Iterator_def (r : Option T) : option.Iterator r = r.toList := by cases r <;> rfl

-- ============================================================================================== either/either_op.go
theorem either_Left_is_model (l : L) : (either.Left l : Either L R) = .left l := rfl
theorem either_NotRight_is_model (l : L) : (either.NotRight l : Either L R) = EitM.notRight l := rfl
theorem either_Right_is_model (r : R) : (either.Right r : Either L R) = .right r := rfl
theorem either_Pure_is_model (r : R) : (either.Pure r : Either L R) = .right r := rfl
theorem either_ops_pure_is_Pure (a : A) : (EitM.ops L).pure' a = pure (either.Pure a) := rfl
theorem either_Swap_is_model (e : Either L R) : either.Swap e = EitM.swap e := by cases e <;> rfl
theorem either_FlatMap_is_model (e : Either L A) (fn : A → GoM (Either L B)) : either.FlatMap e fn = EitM.flatMap e fn := by
  cases e <;> rfl
theorem either_ops_flatMap_is_FlatMap (m : GoM (Either L A)) (k : A → GoM (Either L B)) :
    (EitM.ops L).flatMap m k = (do let t ← m; either.FlatMap t k) := by
  simp only [EitM.ops]; congr 1; funext t; exact (either_FlatMap_is_model t k).symm
theorem either_Fold_is_model : @either.Fold L R V = EitM.fold := rfl
theorem either_Foreach_is_model (e : Either L R) (f : R → GoM Unit) : either.Foreach e f = EitM.foreach e f := by
  cases e <;> rfl
theorem either_OrElse_is_model (e : Either L R) (t : R) : either.OrElse e t = EitM.orElse e t := by cases e <;> rfl
theorem either_OrElseGet_is_model (e : Either L R) (f : Unit → GoM R) : either.OrElseGet e f = EitM.orElseGet e f := by
  cases e <;> rfl
theorem either_Exists_is_model (e : Either L R) (p : R → GoM Bool) : either.Exists e p = EitM.exists_ e p := by
  cases e <;> rfl
theorem either_ForAll_is_model (e : Either L R) (p : R → GoM Bool) : either.ForAll e p = EitM.forAll e p := by
  cases e <;> rfl
theorem either_FoldM_loop_is_model (z0 : B) (f : B → A → GoM (Either L B)) (xs : List A) (z : B) :
    either.FoldM_loop z0 f xs z = EitM.foldM xs z f := by
  induction xs generalizing z with
  | nil => rfl
  | cons x xs ih =>
    simp only [either.FoldM_loop, EitM.foldM]
    congr 1; funext t; cases t with
    | right v => exact ih v
    | left l => rfl
theorem either_FoldM_is_model (xs : List A) (z : B) (f : B → A → GoM (Either L B)) : either.FoldM xs z f = EitM.foldM xs z f :=
  either_FoldM_loop_is_model z f xs z

-- ============================================================================================== statet/statet_op.go
theorem statet_Run_is_model : @statet.Run S A = StM.run := rfl
theorem statet_Merge_is_model : @statet.Merge S A = StM.merge := rfl
theorem statet_Put_is_model : @statet.Put S = StM.put := rfl
/-- `PutWith(withf)` returns a Go closure: calling it (no effects) gives the model's state function -/
theorem statet_PutWith_is_model (withf : S → V → GoM S) (v : V) : statet.PutWith withf v = pure (StM.putWith withf v) := rfl
theorem statet_Get_is_model : @statet.Get S = StM.get := rfl
theorem statet_Modify_is_model : @statet.Modify S = StM.modify := rfl
theorem statet_ModifyS_is_model : @statet.ModifyS S A = StM.modifyS := rfl
theorem statet_ModifyT_is_model : @statet.ModifyT S = StM.modifyT := rfl
theorem statet_GetS_is_model : @statet.GetS S A = StM.getS := rfl
theorem statet_GetST_is_model : @statet.GetST S A = StM.getST := rfl
theorem statet_Pure_is_model : @statet.Pure S A = StM.pure := rfl
theorem statet_FromTry_is_model : @statet.FromTry S A = StM.fromTry := rfl
theorem statet_FlatMap_is_model : @statet.FlatMap S A B = StM.flatMap := rfl
theorem statet_FlatMapConst_is_model : @statet.FlatMapConst S A B = StM.flatMapConst := rfl
theorem statet_WithState_is_model : @statet.WithState S A = StM.withState := rfl
theorem statet_ApTry_is_model : @statet.ApTry S A B = StM.apTry := rfl
theorem statet_ApOption_is_model : @statet.ApOption S A B = StM.apOption := rfl
theorem statet_Transform_is_model : @statet.Transform S A B = StM.transform := rfl
theorem statet_TransformWith_is_model : @statet.TransformWith S A B = StM.transformWith := by
  funext st f s; simp [statet.TransformWith, StM.transformWith, fp.StateT_Run]
theorem statet_PeekState_is_model : @statet.PeekState S A = StM.peekState := rfl
/-- `MapT(st, f)` is written with `try.FlatMap`, the model spells the match out -/
theorem statet_MapT_is_model : @statet.MapT S A B = StM.mapT := by
  funext st f s; simp only [statet.MapT, StM.mapT, fp.StateT_Run]
  congr 1; funext ⟨t, ns⟩
  cases t with
  | success v => rfl
  | failure e => cases e <;> simp [try_.FlatMap, try_.Failure, fp.Failure, Try.failedGet]
/-- `MapWithState(st, f)` is written with the generated `try.Map2(try.Success(ns), a, f)`, the model spells the match out -/
theorem statet_MapWithState_is_model : @statet.MapWithState S A B = StM.mapWithState := by
  funext st f s; simp only [statet.MapWithState, StM.mapWithState, fp.StateT_Run]
  congr 1; funext ⟨t, ns⟩
  cases t with
  | success v => simp [MonadFamily.map2, MonadFamily.map, MonadFamily.lift, TryM.ops, TryM.flatMap, try_.Success, fp.Success]
  | failure e => cases e <;>
      simp [MonadFamily.map2, MonadFamily.map, MonadFamily.lift, TryM.ops, TryM.flatMap, try_.Success, fp.Success, Try.failedGet]
/-- `MapWithStateT(st, f)` is written with the generated `try.LiftM2(f)(try.Success(ns), a)` -/
theorem statet_MapWithStateT_is_model : @statet.MapWithStateT S A B = StM.mapWithStateT := by
  funext st f s; simp only [statet.MapWithStateT, StM.mapWithStateT, fp.StateT_Run]
  congr 1; funext ⟨t, ns⟩
  cases t with
  | success v => simp [MonadFamily.liftM2, MonadFamily.flatten, MonadFamily.map2, MonadFamily.map, MonadFamily.lift, TryM.ops, TryM.flatMap, try_.Success, fp.Success]
  | failure e => cases e <;>
      simp [MonadFamily.liftM2, MonadFamily.flatten, MonadFamily.map2, MonadFamily.map, MonadFamily.lift, TryM.ops, TryM.flatMap, try_.Success, fp.Success, Try.failedGet]
theorem statet_FoldM_loop_is_model (z0 : B) (f : B → A → GoM (StM.StT S B)) (xs : List A) (acc : StM.StT S B) :
    statet.FoldM_loop z0 f xs acc = xs.foldl (fun sum na => StM.flatMap sum (fun b => f b na)) acc := by
  induction xs generalizing acc with
  | nil => rfl
  | cons x xs ih => simp only [statet.FoldM_loop, List.foldl_cons]; exact ih _
theorem statet_FoldM_is_model (xs : List A) (z : B) (f : B → A → GoM (StM.StT S B)) : statet.FoldM xs z f = StM.foldM xs z f :=
  statet_FoldM_loop_is_model z f xs _
theorem statet_Concat_loop_is_model (st0 : StM.StT S A) (tail : List (StM.StT S A)) (acc : StM.StT S A) :
    statet.Concat_loop st0 tail acc = tail.foldl (fun ret v => StM.flatMapConst ret v) acc := by
  induction tail generalizing acc with
  | nil => rfl
  | cons x xs ih => simp only [statet.Concat_loop, List.foldl_cons]; exact ih _
theorem statet_Concat_is_model (st : StM.StT S A) (tail : List (StM.StT S A)) : statet.Concat st tail = StM.concat st tail :=
  statet_Concat_loop_is_model st tail st

-- ============================================================================================== coverage
/-- the functions the theorems above speak about (one `_is_model` / `_def` theorem each; the dispatch functions `fp.Either_*` included) -/
def translatedFns : List String := [
  "either.Exists", "either.FlatMap", "either.Fold", "either.FoldM", "either.ForAll", "either.Foreach",
   "either.Left", "either.NotRight", "either.OrElse", "either.OrElseGet", "either.Pure", "either.Right",
   "either.Swap", "fp.Either_Get", "fp.Either_IsLeft", "fp.Either_IsRight", "fp.Either_Left", "fp.Either_Recover",
   "fp.Failure", "fp.Left", "fp.None", "fp.Option_All", "fp.Option_Exists", "fp.Option_Filter",
   "fp.Option_FilterNot", "fp.Option_FlatMap", "fp.Option_ForAll", "fp.Option_Foreach", "fp.Option_Get",
   "fp.Option_IsDefined", "fp.Option_IsEmpty", "fp.Option_Map", "fp.Option_Or", "fp.Option_OrElse",
   "fp.Option_OrElseGet", "fp.Option_OrOption", "fp.Option_OrPtr", "fp.Option_OrZero", "fp.Option_Ptr",
   "fp.Option_Recover", "fp.Option_ToSeq", "fp.Option_Unapply", "fp.Right", "fp.Some", "fp.StateT_Eval",
   "fp.StateT_Exec", "fp.StateT_Recover", "fp.StateT_RecoverCase", "fp.StateT_RecoverCaseT",
   "fp.StateT_RecoverCaseWith", "fp.StateT_RecoverT", "fp.StateT_RecoverWith", "fp.StateT_RecoverWithState",
   "fp.StateT_RecoverWithStateT", "fp.StateT_Run", "fp.Success", "fp.Try_All", "fp.Try_Failed", "fp.Try_FlatMap",
   "fp.Try_Foreach", "fp.Try_Get", "fp.Try_IsFailure", "fp.Try_IsSuccess", "fp.Try_Map", "fp.Try_MapError",
   "fp.Try_Or", "fp.Try_OrElse", "fp.Try_OrElseGet", "fp.Try_OrTry", "fp.Try_OrZero", "fp.Try_Recover",
   "fp.Try_RecoverCase", "fp.Try_RecoverCaseWith", "fp.Try_RecoverWith", "fp.Try_ToSeq", "fp.Try_Unapply",
   "fp.left_Get", "fp.left_IsLeft", "fp.left_IsRight", "fp.left_Left", "fp.left_Recover", "fp.right_Get",
   "fp.right_IsLeft", "fp.right_IsRight", "fp.right_Left", "fp.right_Recover", "option.ComposePure",
   "option.ConstNone", "option.FlatMap", "option.FlatPtr", "option.Fold", "option.FoldM", "option.FoldRight",
   "option.FromTry", "option.Iterator", "option.None", "option.Ptr", "option.Pure", "option.Some", "option.ToSeq",
   "statet.ApOption", "statet.ApTry", "statet.Concat", "statet.FlatMap", "statet.FlatMapConst", "statet.FoldM",
   "statet.FromTry", "statet.Get", "statet.GetS", "statet.GetST", "statet.MapT", "statet.MapWithState",
   "statet.MapWithStateT", "statet.Merge", "statet.Modify", "statet.ModifyS", "statet.ModifyT", "statet.PeekState",
   "statet.Pure", "statet.Put", "statet.PutWith", "statet.Run", "statet.Transform", "statet.TransformWith",
   "statet.WithState", "try.Apply", "try.Call", "try.CallUnit", "try.ComposeOption", "try.ComposePure",
   "try.Failure", "try.FlatMap", "try.Fold", "try.FoldM", "try.FoldRight", "try.FromOption", "try.FromPtr",
   "try.Iterator", "try.Map", "try.Of", "try.Pure", "try.Success", "try.ToSeq"]

/-- THE EXCEPTION LIST: hand-written functions of the eight files that are NOT translated; they stay tied to their models by
    the differential harnesses only (cmd/transx, cmd/tryopt).  Reasons (the same table is in harness/cmd/core2lean/lists.go):
    * `fp.Try_String`, `fp.Option_String` — `fmt.Sprintf` rendering, not part of C01 / C02 / C17;
    * `try.PtrpanicError_Error/_Stack/_Panic` — the internal representation of a recovered panic (`Err.panicErr p` in the
      model exposes `p` by construction; the stack trace is not modelled);
    * `option.Of` — reflection (`reflect.ValueOf`, `Kind`): parameter predicates in `Model/TryOptExt.lean`;
    * `option.NonZero`, `option.String` (= `NonZero`) — `==` on a comparable type parameter against `fp.Zero`;
    * `option.NonEmptySlice` — nil-ness of a slice type parameter;
    * `option.Deref` — defined through the generated `option.Map` and the method value `T.Deref`;
    * `try.TraverseOption` — defined through the generated `try.Traverse` and the method value `fp.Iterator.NextOption`;
    * `try.Traverse_` — defined through `iterator.FoldError` (package iterator: the C12 machinery). -/
def exceptionsFns : List String := [
  "fp.Option_String", "fp.Try_String", "option.Deref", "option.NonEmptySlice", "option.NonZero", "option.Of",
   "option.String", "try.PtrpanicError_Error", "try.PtrpanicError_Panic", "try.PtrpanicError_Stack",
   "try.TraverseOption", "try.Traverse_"]

/-- functions of the eight files that belong to another tie (C14 arity families, C15 JSON) -/
def otherTiesFns : List String := [
  "fp.Option_MarshalJSON", "fp.PtrOption_UnmarshalJSON", "fp.left_MarshalJSON", "fp.right_MarshalJSON",
   "option.Applicative1", "option.ApplicativeFunctor1_Ap", "option.ApplicativeFunctor1_ApFunc",
   "option.ApplicativeFunctor1_ApOption", "option.ApplicativeFunctor1_ApOptionFunc", "option.Chain1",
   "option.MonadChain1_Ap", "option.MonadChain1_ApFunc", "option.MonadChain1_ApOption",
   "option.MonadChain1_ApOptionFunc", "option.MonadChain1_FlatMap", "option.MonadChain1_HListFlatMap",
   "option.MonadChain1_HListMap", "option.MonadChain1_Map", "option.Pure0", "option.Pure1", "try.Applicative1",
   "try.ApplicativeFunctor1_Ap", "try.ApplicativeFunctor1_ApFunc", "try.ApplicativeFunctor1_ApOption",
   "try.ApplicativeFunctor1_ApOptionFunc", "try.ApplicativeFunctor1_ApTry", "try.ApplicativeFunctor1_ApTryFunc",
   "try.Chain1", "try.Func0", "try.MonadChain1_Ap", "try.MonadChain1_ApFunc", "try.MonadChain1_ApOption",
   "try.MonadChain1_ApOptionFunc", "try.MonadChain1_ApTry", "try.MonadChain1_ApTryFunc", "try.MonadChain1_FlatMap",
   "try.MonadChain1_HListFlatMap", "try.MonadChain1_HListMap", "try.MonadChain1_Map", "try.Pure0", "try.Unit0"]

/-- nothing found in the eight files is outside the translated fragment without being listed -/
theorem nothing_untranslatable : Gen.CoreGen.untranslatable = [] := by decide
/-- the translator translated exactly the functions the theorems above speak about … -/
theorem translated_as_committed : Gen.CoreGen.translated = translatedFns := by decide
/-- … skipped exactly the listed exceptions … -/
theorem exceptions_as_committed : Gen.CoreGen.exceptions = exceptionsFns := by decide
/-- … and left exactly the listed functions to the other ties -/
theorem otherTies_as_committed : Gen.CoreGen.otherTies = otherTiesFns := by decide
set_option maxRecDepth 8192 in
/-- COVERAGE: the exported functions / methods with a body found in the eight files are EXACTLY the translated ones (each
    tied to its model above), the listed exceptions and the functions of the other ties — nothing else.  A new function
    without a model (or one that left the fragment) makes this fail. -/
theorem coverage : Gen.CoreGen.found = translatedFns ++ exceptionsFns ++ otherTiesFns := by decide

-- ============================================================================================== what the ties buy
/-! The `MonadOps` instances built FROM THE TRANSLATED `Pure` / `FlatMap` are the instances the C01 laws (and through
    `Spec/C01.lean` every equation about the generated families) are proved for. -/

/-- the operations of package `try` as found in the source -/
def tryOps : MonadOps (fun X => GoM (Try X)) where
  pure' a := pure (try_.Pure a)
  seq g k := g >>= k
  flatMap m k := m >>= fun t => try_.FlatMap t k
def optionOps : MonadOps (fun X => GoM (Option X)) where
  pure' a := option.Pure a
  seq g k := g >>= k
  flatMap m k := m >>= fun t => option.FlatMap t k
def eitherOps (L : Type) : MonadOps (fun X => GoM (Either L X)) where
  pure' a := pure (either.Pure a)
  seq g k := g >>= k
  flatMap m k := m >>= fun t => either.FlatMap t k
def statetOps (S : Type) : MonadOps (StM.StT S) where
  pure' a := statet.Pure a
  seq g k := fun s => do let a ← g; k a s
  flatMap m k := statet.FlatMap m (fun a => Pure.pure (k a))

theorem tryOps_is_model : tryOps = TryM.ops := rfl
theorem optionOps_is_model : optionOps = OptM.ops := rfl
theorem eitherOps_is_model : eitherOps L = EitM.ops L := by
  unfold eitherOps EitM.ops
  congr; funext α β m k; congr 1; funext t; exact either_FlatMap_is_model t k
theorem statetOps_is_model : statetOps S = StM.ops S := rfl

-- C01: the monad laws, for the translated code ---------------------------------------------------------------------
theorem tryOps_lawful : tryOps.Lawful := tryOps_is_model ▸ Spec.C01.try_lawful
theorem optionOps_lawful : optionOps.Lawful := optionOps_is_model ▸ Spec.C01.option_lawful
theorem eitherOps_lawful : (eitherOps L).Lawful := eitherOps_is_model (L := L) ▸ Spec.C01.either_lawful
theorem statetOps_lawful : (statetOps S).Lawful := statetOps_is_model (S := S) ▸ Spec.C01.statet_lawful

/-- left identity of the translated `try.FlatMap` / `try.Pure` -/
theorem try_left_id (a : A) (k : A → GoM (Try B)) : try_.FlatMap (try_.Pure a) k = k a := by
  have := tryOps_lawful.left_id a k
  simpa [tryOps] using this
/-- associativity of the translated `try.FlatMap`, for EVERY value (the zero value included: both sides panic) -/
theorem try_assoc (t : Try A) (k : A → GoM (Try B)) (h : B → GoM (Try C)) :
    (do let u ← try_.FlatMap t k; try_.FlatMap u h) = try_.FlatMap t (fun a => do let u ← k a; try_.FlatMap u h) := by
  have := tryOps_lawful.assoc (pure t) k h
  simpa [tryOps] using this
/-- right identity of the translated `try.FlatMap` on every value except the zero value `Try{}` … -/
theorem try_right_id (t : Try A) (ht : t ≠ .failure .nil) : try_.FlatMap t (fun a => pure (try_.Pure a)) = pure t := by
  have := Spec.C01.try_right_id t ht
  simp [TryM.ops] at this; exact this
/-- … on which it panics (the excluded branch) -/
theorem try_flatMap_zero (k : A → GoM (Try B)) : try_.FlatMap (.failure .nil) k = throw "ErrNotInit" := by
  have := Spec.C01.try_flatMap_zero k
  simp [TryM.ops] at this; exact this

theorem option_left_id (a : A) (k : A → GoM (Option B)) : (do let t ← option.Pure a; option.FlatMap t k) = k a := by
  have := optionOps_lawful.left_id a k
  simpa [optionOps] using this
theorem option_right_id (o : Option A) : option.FlatMap o (fun a => option.Pure a) = pure o := by
  have := Spec.C01.option_right_id (pure o)
  simp [OptM.ops] at this; exact this
theorem option_assoc (o : Option A) (k : A → GoM (Option B)) (h : B → GoM (Option C)) :
    (do let u ← option.FlatMap o k; option.FlatMap u h) = option.FlatMap o (fun a => do let u ← k a; option.FlatMap u h) := by
  have := optionOps_lawful.assoc (pure o) k h
  simpa [optionOps] using this

theorem either_left_id (a : A) (k : A → GoM (Either L B)) : either.FlatMap (either.Pure a) k = k a := by
  have := (eitherOps_lawful (L := L)).left_id a k
  simpa [eitherOps] using this
theorem either_right_id (e : Either L A) : either.FlatMap e (fun a => pure (either.Pure a)) = pure e := by
  cases e <;> rfl
theorem either_assoc (e : Either L A) (k : A → GoM (Either L B)) (h : B → GoM (Either L C)) :
    (do let u ← either.FlatMap e k; either.FlatMap u h) = either.FlatMap e (fun a => do let u ← k a; either.FlatMap u h) := by
  have := (eitherOps_lawful (L := L)).assoc (pure e) k h
  simpa [eitherOps] using this

theorem statet_left_id (a : A) (k : A → GoM (StM.StT S B)) (s : S) :
    statet.FlatMap (statet.Pure a) k s = (do (← k a) s) := Spec.C17.left_id a k s
theorem statet_right_id (m : StM.StT S A) (hm : Spec.C17.NoNil m) :
    statet.FlatMap m (fun a => Pure.pure (statet.Pure a)) = m := Spec.C17.right_id m hm
theorem statet_assoc (m : StM.StT S A) (k : A → GoM (StM.StT S B)) (h : B → GoM (StM.StT S C)) :
    statet.FlatMap (statet.FlatMap m k) h = statet.FlatMap m (fun a => do let mb ← k a; Pure.pure (statet.FlatMap mb h)) :=
  Spec.C17.assoc m k h

-- C02: short circuit and panic capture, for the translated code ------------------------------------------------------
/-- `try.Of` as found in the source, for EVERY supplied function and every prior log: it never panics, keeps exactly
    `f`'s log, gives `Success v` iff `f` returned `v` normally and `Failure(panicErr p)` iff `f` panicked with `p`. -/
theorem try_Of_spec (f : Unit → GoM A) (s : List Event) :
    (try_.Of f).run.run s =
      (match (f ()).run.run s with
       | (.ok v, log) => (.ok (.success v), log)
       | (.error p, log) => (.ok (.failure (.panicErr p)), log)) := Spec.C02.of_spec f s
theorem try_Of_pure (v : A) : try_.Of (fun _ => pure v) = pure (.success v) := Spec.C02.of_pure v
theorem try_Of_panic (p : PanicVal) : try_.Of (fun _ => (throw p : GoM A)) = pure (.failure (.panicErr p)) := Spec.C02.of_panic p
theorem try_CallUnit_panic (p : PanicVal) : try_.CallUnit (fun _ => (throw p : GoM Err)) = pure (.failure (.panicErr p)) :=
  Spec.C02.callUnit_panic p
/-- a failure passes through the translated `FlatMap` untouched; the continuation is absent (never invoked) -/
theorem try_FlatMap_failure (e : Err) (he : e ≠ .nil) (k : A → GoM (Try B)) :
    try_.FlatMap (.failure e) k = pure (.failure e) := by
  have := Spec.C02.try_failure_absorbing e he A B k
  simp [TryM.ops] at this; exact this
theorem option_FlatMap_none (k : A → GoM (Option B)) : option.FlatMap none k = pure none := rfl
theorem either_FlatMap_left (l : L) (k : A → GoM (Either L B)) : either.FlatMap (.left l) k = pure (.left l) := rfl
/-- `FoldM` as found in the source stops at the first failing step: the elements after it are never visited -/
theorem try_FoldM_stops (xs ys : List A) (a : A) (z s : B) (e : Err) (f : B → A → GoM (Try B))
    (hxs : try_.FoldM xs z f = pure (.success s)) (ha : f s a = pure (.failure e)) :
    try_.FoldM (xs ++ a :: ys) z f = pure (.failure e) := by
  rw [try_FoldM_is_model] at *
  exact Spec.C02.try_foldM_stops xs ys a z s e f hxs ha
/-- the translated methods of fp.Try leave successes untouched (no handler runs) … -/
theorem fp_Try_success_untouched (v : A) (f : Err → GoM A) (fw : Err → GoM (Try A)) (p : Err → GoM Bool)
    (g : Unit → GoM A) (gt : Unit → GoM (Try A)) (t : Try A) :
    fp.Try_Recover (.success v) f = pure (.success v) ∧
    fp.Try_RecoverWith (.success v) fw = pure (.success v) ∧
    fp.Try_RecoverCase (.success v) p f = pure (.success v) ∧
    fp.Try_RecoverCaseWith (.success v) p fw = pure (.success v) ∧
    fp.Try_Or (.success v) gt = pure (.success v) ∧
    fp.Try_OrTry (.success v) t = .success v ∧
    fp.Try_OrElse (.success v) v = v ∧
    fp.Try_OrElseGet (.success v) g = pure v := by
  rw [fp_Try_RecoverCase_is_model, fp_Try_RecoverCaseWith_is_model]
  exact Spec.C02.try_success_untouched v f fw p g gt t
/-- … and on a failure run the handler exactly once, with the failure's own error -/
theorem fp_Try_failure_handled (e : Err) (he : e ≠ .nil) (f : Err → GoM A) (fw : Err → GoM (Try A))
    (g : Unit → GoM A) (gt : Unit → GoM (Try A)) (t : Try A) (d : A) :
    fp.Try_Recover (.failure e) f = (do let a ← f e; pure (.success a)) ∧
    fp.Try_RecoverWith (.failure e) fw = fw e ∧
    fp.Try_Or (.failure e) gt = gt () ∧
    fp.Try_OrTry (.failure e) t = t ∧
    fp.Try_OrElse (.failure e) d = d ∧
    fp.Try_OrElseGet (.failure e) g = g () := Spec.C02.try_failure_handled e he f fw g gt t d

-- C17: state threading, for the translated code --------------------------------------------------------------------
/-- `Put(s)` then `Get` yields `s` and leaves state `s` — from every initial state -/
theorem statet_put_get (s s0 : S) :
    statet.FlatMap (statet.Put s) (fun _ => Pure.pure statet.Get) s0 = Pure.pure (.success s, s) := Spec.C17.put_get s s0
theorem statet_get_put (s0 : S) :
    statet.FlatMap statet.Get (fun s => Pure.pure (statet.Put s)) s0 = (statet.Pure () : StM.StT S Unit) s0 :=
  Spec.C17.get_put s0
theorem statet_put_put (s s' s0 : S) :
    statet.FlatMap (statet.Put s) (fun _ => Pure.pure (statet.Put s')) s0 = statet.Put s' s0 := Spec.C17.put_put s s' s0
theorem statet_modify_def (f : S → GoM S) :
    statet.Modify f = statet.FlatMap statet.Get (fun s => do let s' ← f s; Pure.pure (statet.Put s')) := Spec.C17.modify_def f
/-- a failing step: the continuation is not run and the state reported is the state at the point of failure -/
theorem statet_flatMap_failure (st : StM.StT S A) (k : A → GoM (StM.StT S B)) (s ns : S) (e : Err) (he : e ≠ .nil)
    (h : st s = Pure.pure (.failure e, ns)) : statet.FlatMap st k s = Pure.pure (.failure e, ns) :=
  Spec.C17.flatMap_failure st k s ns e he h
/-- on failure every translated `Recover*` hands its handler the error together with the POST-failure state `ns`, and
    `ns` is the state returned -/
theorem statet_recover_failure (st : StM.StT S A) (s ns : S) (e : Err) (he : e ≠ .nil) (hs : st s = Pure.pure (.failure e, ns))
    (f : Err → GoM A) (ft : Err → GoM (Try A)) (f2 : S → Err → GoM A) (f2t : S → Err → GoM (Try A))
    (fw : Err → GoM (StM.StT S A)) :
    fp.StateT_Recover st f s = (do let a ← f e; Pure.pure (.success a, ns)) ∧
    fp.StateT_RecoverT st ft s = (do let t ← ft e; Pure.pure (t, ns)) ∧
    fp.StateT_RecoverWithState st f2 s = (do let a ← f2 ns e; Pure.pure (.success a, ns)) ∧
    fp.StateT_RecoverWithStateT st f2t s = (do let t ← f2t ns e; Pure.pure (t, ns)) ∧
    fp.StateT_RecoverWith st fw s = (do (← fw e) ns) := by
  rw [fp_StateT_Recover_is_model, fp_StateT_RecoverT_is_model, fp_StateT_RecoverWithState_is_model,
    fp_StateT_RecoverWithStateT_is_model, fp_StateT_RecoverWith_is_model]
  exact Spec.C17.recover_failure st s ns e he hs f ft f2 f2t fw
theorem statet_recover_success (st : StM.StT S A) (s ns : S) (v : A) (hs : st s = Pure.pure (.success v, ns))
    (f : Err → GoM A) (f2t : S → Err → GoM (Try A)) :
    fp.StateT_Recover st f s = Pure.pure (.success v, ns) ∧
    fp.StateT_RecoverWithStateT st f2t s = Pure.pure (.success v, ns) := by
  rw [fp_StateT_Recover_is_model, fp_StateT_RecoverWithStateT_is_model]
  have := Spec.C17.recover_success st s ns v hs f (fun _ => pure (.success v)) (fun _ => f) f2t (fun _ => pure st) (fun _ => pure true)
  exact ⟨this.1, this.2.2.2.1⟩
theorem statet_FoldM_failure (xs ys : List A) (z : B) (f : B → A → GoM (StM.StT S B)) (s ns : S) (e : Err) (he : e ≠ .nil)
    (h : statet.FoldM xs z f s = Pure.pure (.failure e, ns)) : statet.FoldM (xs ++ ys) z f s = Pure.pure (.failure e, ns) := by
  rw [statet_FoldM_is_model] at *
  exact Spec.C17.foldM_failure xs ys z f s ns e he h

-- C17Ext / C02Ext (Run, Merge, ApTry), for the translated code ---------------------------------------------------------
/-- `Merge(fss, fsa)` as found in the source runs `fsa` BEFORE `fss`, both on the incoming state -/
theorem statet_Merge_order (fss : S → GoM S) (fsa : S → GoM A) (s : S) :
    statet.Merge fss fsa s = (do let a ← fsa s; let ns ← fss s; Pure.pure (.success a, ns)) := Spec.C17.merge_order fss fsa s
/-- `ApTry`: when the function side fails the state reported is the state at the point of failure (`ns`, not `s`) -/
theorem statet_ApTry_failure_state (st : StM.StT S (A → GoM B)) (a : Try A) (s ns : S) (e : Err) (he : e ≠ .nil)
    (h : st s = Pure.pure (.failure e, ns)) : statet.ApTry st a s = Pure.pure (.failure e, ns) :=
  Spec.C17.apTry_failure_state st a s ns e he h
/-- `ApTry`: the function side succeeds, the argument is a Failure: that error, the carried function is not applied -/
theorem statet_ApTry_argument_failure (st : StM.StT S (A → GoM B)) (s ns : S) (f : A → GoM B) (e : Err) (he : e ≠ .nil)
    (h : st s = Pure.pure (.success f, ns)) : statet.ApTry st (.failure e) s = Pure.pure (.failure e, ns) :=
  Spec.C02.apTry_argument_failure st s ns f e he h
theorem fp_Try_OrZero_failure (zero : A) (e : Err) : fp.Try_OrZero zero (.failure e : Try A) = pure zero :=
  Spec.C02.try_orZero_failure zero e

-- non-vacuity: the hypotheses above are met by concrete values / programs of the translated code -------------------------
example : Err.code 1 ≠ .nil := by decide
example : (Try.failure (.code 1) : Try Int) ≠ .failure .nil := by decide
example : (statet.FromTry (S := Int) (A := Int) (.failure (.code 3))) 5 = Pure.pure (.failure (.code 3), 5) := rfl
example : (statet.Put (7 : Int)) 5 = Pure.pure (.success (), 7) := rfl
example : try_.FoldM ([] : List Int) (0 : Int) (fun _ _ => pure (.failure (.code 1))) = pure (.success 0) := rfl
example : Spec.C17.NoNil (statet.Get (S := Int)) := by intro s; simp [statet.Get, try_.Success, fp.Success]
/-- the ties are not vacuous: the translated definitions compute (here: the callback of `FlatMap` is really run once) -/
example : (try_.FlatMap (.success (3 : Int)) (fun a => do emit "k"; pure (.success (a + 1)))).exec = (.ok (.success 4), ["k"]) := rfl
example : (try_.FlatMap (.failure (.code 2) : Try Int) (fun a => do emit "k"; pure (.success (a + 1)))).exec
    = (.ok (.failure (.code 2)), []) := rfl

end FpVerif.Spec.C01CoreGen
