import Lean
import FpVerif.Gen.FrameFacts
import FpVerif.Lemmas.FrameTable
/-!
# C04 — the long tail: every enumerated function is covered by a generated frame-check wrapper

`harness/cmd/framegen` enumerates, from the repository's CURRENT sources, every exported function, method and
instance variable of the library (all packages except `mutable`, commands, tests, internal packages and the
code-generation tooling) whose signature mentions caller-visible memory (slice, `fp.Seq`, Go map, pointer, one of
the library's collections, or a function / instance over those), generates one call wrapper per entry for the
model-free frame check (`harness/cmd/frame`), and writes the table `FpVerif.Gen.Frame.entries` (regenerated on
every check, not under version control).  The theorems below are re-checked against the regenerated table:

* every enumerated entry is covered by a wrapper that the generated Go code registers, or it is one of the
  EXPLICITLY listed exceptions with its reason — a new exported function that the generator cannot drive makes
  `every_entry_covered_or_listed` fail instead of silently dropping out of the check;
* the functions the property names (and the seeded long-tail defects) are covered;
* all library packages were enumerated.

Names are compared as natural numbers (`code% "seq.Sort"` elaborates to the little-endian base-256 value of the
bytes of the literal, the encoding the generator uses): the kernel evaluates `decide` on `Nat` quickly and on
`String` very slowly.
-/
namespace FpVerif.Spec.C04
open FpVerif.Gen.Frame FpVerif.FrameTable

/-- the generator's encoding of a name: Σ byteᵢ · 256ⁱ -/
def nameCode (s : String) : Nat := s.toUTF8.data.foldr (fun b acc => acc * 256 + b.toNat) 0

/-- `code% "abc"` = `nameCode "abc"` as a numeral, computed at elaboration time -/
elab "code% " s:str : term => return Lean.toExpr (nameCode s.getString)

/-- `codes% ["b", "a"]` = the ascending list of the codes of the literals, computed at elaboration time
    (the order of a set of names is immaterial; ascending order makes membership a linear merge walk) -/
elab "codes% " "[" ss:str,* "]" : term => do
  let cs := (ss.getElems.map (fun s => nameCode s.getString)).qsort (· < ·)
  return Lean.toExpr cs.toList

/-- reason codes of the generated table -/
def arityFamilyInstance : Nat := 1
def unexportedType : Nat := 2
def timer : Nat := 3
def noProvider : Nat := 4

def isDigit (c : Nat) : Bool := Nat.ble 48 c && Nat.ble c 57

/-- the name with its digits removed (again as a number; names have fewer than `fuel` bytes): the members of one
    arity family share it. (Matching on the number first makes the kernel evaluate each quotient once.) -/
def stripDigits : Nat → Nat → Nat
  | 0, _ => 0
  | _, 0 => 0
  | fuel + 1, k + 1 =>
    bif isDigit ((k + 1) % 256) then stripDigits fuel ((k + 1) / 256)
    else (k + 1) % 256 + 256 * stripDigits fuel ((k + 1) / 256)

def familyKey (n : Nat) : Nat := stripDigits 200 n

/-- covered: at least one wrapper, no reason recorded -/
def covered (e : Entry) : Bool := !e.wrappers.isEmpty && e.reason == 0

def coveredIds : List Nat := (entries.filter covered).map (·.id)

/-- the ONLY entries that may stay without a wrapper (besides the higher members of arity families) -/
def explicitlyUncovered : List (Nat × Nat) := [
  (code% "immutable.MapIterator", unexportedType),  -- its parameter type *hamt is not exported: not callable from outside
  (code% "promise.WithTimeout", timer),             -- arms a timer that fires later on another goroutine
  (code% "try.Panic.Stack", noProvider)]            -- try.Panic values only arise inside a recovered panic

def excused (e : Entry) : Bool :=
  e.wrappers.isEmpty && (e.reason == arityFamilyInstance || explicitlyUncovered.contains (e.id, e.reason))

/-- **Completeness of the long-tail frame check**: every enumerated function is covered by a generated wrapper or
    is explicitly listed as uncovered with a reason. -/
theorem every_entry_covered_or_listed : ∀ e ∈ entries, covered e = true ∨ excused e = true := by
  have h : entries.all (fun e => covered e || excused e) = true := by decide +kernel
  intro e he
  have := List.all_eq_true.mp h e he
  simpa [Bool.or_eq_true] using this

/-- the wrappers named in the table are exactly the wrappers the generated Go code registers (same order) -/
theorem wrappers_are_registered : entries.flatMap (·.wrappers) = registered := by decide +kernel

/-- no function is listed twice (the table is strictly ascending in the name code) -/
theorem entries_ascending : ascending (entries.map (·.id)) = true := by decide +kernel

/-- the higher members of arity families that were left out, in table order -/
def leftOutOfFamilies : List Nat := (entries.filter (fun e => e.reason == arityFamilyInstance)).map (·.id)

theorem family_witnesses_complete : leftOutOfFamilies = familyWitnesses.map Prod.fst := by decide +kernel

theorem family_witnesses_same_family :
    familyWitnesses.all (fun p => familyKey p.1 == familyKey p.2 && witnessesAsc.contains p.2) = true := by decide +kernel

theorem family_witnesses_covered : subsetAsc 4000 witnessesAsc coveredIds = true := by decide +kernel

/-- a higher member of an arity family is only left out when a member of the same family is covered:
    the generated witness list names, for EACH left-out entry (`family_witnesses_complete`), a covered entry with the
    same name up to digits -/
theorem family_has_covered_member :
    ∀ p ∈ familyWitnesses, familyKey p.1 = familyKey p.2 ∧ p.2 ∈ coveredIds := by
  intro p hp
  have h4 := List.all_eq_true.mp family_witnesses_same_family p hp
  rw [Bool.and_eq_true] at h4
  exact ⟨eq_of_beq h4.1, subsetAsc_sound _ _ _ family_witnesses_covered _ (List.contains_iff_mem.mp h4.2)⟩

/-- at least four fifths of the enumerated entries have a wrapper, and the enumeration is not small -/
theorem coverage : 5 * (entries.filter covered).length ≥ 4 * entries.length ∧ entries.length ≥ 600 := by decide +kernel

/-- outside the numbered arity families at most the three listed entries are uncovered -/
theorem uncovered_outside_families :
    ∀ e ∈ entries, covered e = false → e.reason ≠ arityFamilyInstance → e.id ∈ explicitlyUncovered.map (·.1) := by
  have h : entries.all (fun e => covered e || e.reason == arityFamilyInstance || (explicitlyUncovered.map (·.1)).contains e.id) = true := by
    decide +kernel
  intro e he hc hr
  have := List.all_eq_true.mp h e he
  simp only [Bool.or_eq_true, beq_iff_eq, List.contains_iff_mem] at this
  rcases this with (h' | h') | h'
  · simp [hc] at h'
  · exact absurd h' hr
  · exact h'

/-- the functions C04 names, and the long tail the check was built for -/
def mustCover : List Nat := codes% [
  "seq.Sort", "fp.Seq.Reverse", "seq.Distinct", "fp.Seq.Append", "fp.Seq.Concat", "fp.Seq.Add",
  "seq.Fold", "seq.FoldTry", "seq.FoldOption", "seq.GroupBy", "seq.ToMap", "seq.ToGoMap",
  "seq.ToSet", "seq.FlatMap", "seq.Flatten", "seq.Ap", "seq.Map2", "seq.FilterMap",
  "seq.Concat", "seq.Reduce", "seq.Scan", "seq.Span", "seq.Partition", "seq.Zip",
  "seq.Of", "seq.Collect", "fp.Seq.Filter", "fp.Seq.Take", "fp.Seq.Drop", "fp.Seq.Init",
  "fp.Seq.Tail", "fp.Seq.FlatMap", "fp.Seq.Map", "monoid.MergeSeq", "monoid.MergeSlice", "monoid.MergeGoMap",
  "monoid.MergeMap", "monoid.MergeSet", "monoid.Ptr", "semigroup.Ptr", "ord.Seq", "ord.Slice",
  "ord.Ptr", "eq.Seq", "eq.Slice", "eq.GoMap", "eq.Ptr", "hash.Seq",
  "hash.Slice", "hash.Ptr", "show.Seq", "show.Slice", "show.GoMap", "show.Ptr",
  "clone.Slice", "clone.Seq", "clone.GoMap", "clone.Ptr", "option.Sequence", "option.Traverse",
  "option.TraverseSeq", "option.ToSeq", "option.Ptr", "try.Sequence", "try.Traverse", "try.TraverseSeq",
  "try.ToSeq", "try.SortSeqT", "try.ReverseSeqT", "either.Sequence", "either.TraverseSeq", "iterator.FromSeq",
  "iterator.ToSeq", "iterator.Sort", "iterator.Fold", "iterator.GroupBy", "iterator.ToMap", "iterator.ToGoMap",
  "iterator.ToSet", "iterator.ToGoSet", "iterator.ReverseSeq", "fp.Iterator.ToSeq", "fp.Iterator.Concat", "list.Sort",
  "list.FromSeq", "list.ReverseSeq", "list.GroupBy", "list.ToGoMap", "fp.List.ToSeq", "immutable.Map",
  "immutable.Set", "fp.Map.Updated", "fp.Map.Removed", "fp.Map.Concat", "fp.Set.Concat", "fp.Set.Incl",
  "fp.Option.ToSeq", "fp.Try.ToSeq", "as.Seq", "as.Ptr", "match.SeqHead"]

/-- … are all covered by a generated wrapper -/
theorem named_functions_walk : subsetAsc 4000 mustCover coveredIds = true := by decide +kernel

theorem named_functions_covered : ∀ n ∈ mustCover, ∃ e ∈ entries, e.id = n ∧ covered e = true := by
  intro n hn
  have := subsetAsc_sound _ _ _ named_functions_walk n hn
  simp only [coveredIds, List.mem_map, List.mem_filter] at this
  obtain ⟨e, ⟨he, hc⟩, rfl⟩ := this
  exact ⟨e, he, rfl, hc⟩

/-- every library package the property speaks about was enumerated (the root package fp has the empty name) -/
theorem packages_enumerated :
    ∀ p ∈ [code% "", code% "as", code% "clone", code% "either", code% "eq", code% "hash", code% "immutable", code% "iterator",
           code% "lazy", code% "list", code% "monoid", code% "option", code% "ord", code% "semigroup", code% "seq", code% "show",
           code% "try", code% "curried", code% "product", code% "hlist"], p ∈ packages := by decide +kernel

/-- the encoding used by the table (non-vacuity of the name comparisons) -/
example : code% "fp.And" = 110424702742630 := rfl
example : familyKey (code% "ab12c.d3") = code% "abc.d" := by decide +kernel
example : familyKey (code% "show.Labelled13") = familyKey (code% "show.Labelled2") := by decide +kernel
example : code% "monoid.MergeSeq" ∈ mustCover := by decide +kernel
example : mustCover.length = 101 := by decide +kernel

end FpVerif.Spec.C04
