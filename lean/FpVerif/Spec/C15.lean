import FpVerif.Model.Json
import FpVerif.Lemmas.RecordMask
import FpVerif.Lemmas.JsonStruct
/-!
# C15 — JSON round trip for `fp.Option`, `fp.Unit` and `@fp.Json` structs.

Property theorems only (helper lemmas about `mask` are in `Lemmas/RecordMask.lean`).  Every theorem
quantifies over ALL abstract `encoding/json` codecs `c`, all values, all prior contents of the
target and — for the robustness part — all byte strings.

Hypotheses about the element codec are the `Prop`s `Faithful c zero v` (decoding `enc v` into a
fresh zero value gives `v`) and `NotNull c v` (the decoder's guard `len(b) > 0 && b[0] != 'n'` holds
on `enc v`).  `NotNull` is deliberately the *guard itself*, i.e. "non-empty and first byte ≠ 'n'"
(`notNull_iff`): with only `head? ≠ some 'n'` an (un-JSON-like) codec with an empty encoding would
falsify the round trip, because `UnmarshalJSON` maps empty input to `None`.

Section 7 discharges the whole-struct `Faithful` hypothesis of `struct_roundtrip` from FIELD-level
hypotheses (`mutable_faithful_of_fields`, `struct_roundtrip_of_fields`,
`struct_roundtrip_of_faithful_notNull`; the struct codec built from field codecs is
`mutableCodec` of `Lemmas/JsonStruct.lean`); section 8 states what `mutableTag` (json key, omitempty)
is for every field.

Where the property does NOT hold this file says so with a theorem (`option_null_collapses`,
`option_some_none_collapses`, `option_unit_collapses`, `struct_roundtrip_nonapplicable_zeroed`,
`omitempty_dirty_target_not_faithful`).
-/
namespace FpVerif.Spec.C15
open FpVerif FpVerif.Json FpVerif.Rec

variable {E T : Type}

theorem notNull_iff (c : Codec E T) (v : T) :
    NotNull c v ↔ c.enc v ≠ [] ∧ (c.enc v).head? ≠ some 110 :=
  firstNotN_iff _

/-! ## 1. `fp.Option[T]` round trip -/

/-- `None` ↦ `null` ↦ `None`, whatever the target held before, for every codec. -/
theorem option_roundtrip_none (c : Codec E T) (zero : T) (t : Option T) :
    Opt.unmarshalJSON c zero (Opt.marshalJSON c none) (some t) = ⟨some none, none⟩ := by
  simp [Opt.unmarshalJSON, Opt.marshalJSON]

/-- `Some(v)` ↦ encoding of `v` ↦ `Some(v)`, whatever the target held before. -/
theorem option_roundtrip_some (c : Codec E T) (zero v : T) (t : Option T)
    (hf : Faithful c zero v) (hn : NotNull c v) :
    Opt.unmarshalJSON c zero (Opt.marshalJSON c (some v)) (some t) = ⟨some (some v), none⟩ := by
  simp only [NotNull] at hn
  simp only [Faithful] at hf
  simp [Opt.unmarshalJSON, Opt.marshalJSON, hn, hf]

/-- Both cases at once: `json.Unmarshal(json.Marshal(x))` yields `x`, nil error. -/
theorem option_roundtrip (c : Codec E T) (zero : T) (x t : Option T)
    (h : ∀ v, x = some v → Faithful c zero v ∧ NotNull c v) :
    Opt.unmarshalJSON c zero (Opt.marshalJSON c x) (some t) = ⟨some x, none⟩ := by
  cases x with
  | none => exact option_roundtrip_none c zero t
  | some v => exact option_roundtrip_some c zero v t (h v rfl).1 (h v rfl).2

/-- The emitted bytes: `null` for `None`, the element's own encoding for `Some`. -/
theorem option_marshal_bytes (c : Codec E T) (v : T) :
    Opt.marshalJSON c none = nullLit ∧ Opt.marshalJSON c (some v) = c.enc v := ⟨rfl, rfl⟩

/-! ## 2. … and where it does NOT hold: an element whose encoding starts with `n` -/

/-- If `NotNull` fails for `v` (e.g. `v` encodes as `null`), `Some(v)` comes back as `None` — for
    every codec, even a faithful one. -/
theorem option_null_collapses (c : Codec E T) (zero v : T) (t : Option T) (hn : ¬ NotNull c v) :
    Opt.unmarshalJSON c zero (Opt.marshalJSON c (some v)) (some t) = ⟨some none, none⟩ := by
  have : firstNotN (c.enc v) = false := by simpa [NotNull] using hn
  simp [Opt.unmarshalJSON, Opt.marshalJSON, this]

/-- … so the round trip is definitely broken there. -/
theorem option_null_roundtrip_fails (c : Codec E T) (zero v : T) (t : Option T) (hn : ¬ NotNull c v) :
    Opt.unmarshalJSON c zero (Opt.marshalJSON c (some v)) (some t) ≠ ⟨some (some v), none⟩ := by
  rw [option_null_collapses c zero v t hn]
  intro h
  cases h

/-- `None` of the derived codec is never `NotNull` (it is the literal `null`). -/
theorem optionCodec_none_is_null (c : Codec E T) (zero : T) : ¬ NotNull (optionCodec c zero) none := by
  simp [NotNull, optionCodec, Opt.marshalJSON]

/-- Concrete instance, `Option[Option[U]]`: `Some(None)` ↦ `null` ↦ `None ≠ Some(None)`,
    for every element codec. -/
theorem option_some_none_collapses (c : Codec E T) (zero : T) (t : Option (Option T)) :
    Opt.unmarshalJSON (optionCodec c zero) none
        (Opt.marshalJSON (optionCodec c zero) (some none)) (some t) = ⟨some none, none⟩
    ∧ (none : Option (Option T)) ≠ some none :=
  ⟨option_null_collapses _ _ _ _ (optionCodec_none_is_null c zero), by simp⟩

/-! ## 3. Robustness of `(*Option[T]).UnmarshalJSON`: arbitrary bytes -/

/-- For ALL byte strings and all receivers the call returns normally (the model is total; the only
    index expression `b[0]` carries its bounds proof) and either succeeds having written a value
    through a non-nil receiver, or fails and leaves the memory behind the receiver exactly as it was. -/
theorem option_unmarshal_total (c : Codec E T) (zero : T) (b : Bytes) (r : Option (Option T)) :
    let res := Opt.unmarshalJSON c zero b r
    (res.err = none ∧ ∃ v, res.mem = some v ∧ r ≠ none) ∨ (res.err ≠ none ∧ res.mem = r) := by
  cases r with
  | none => simp [Opt.unmarshalJSON]
  | some cur =>
    simp only [Opt.unmarshalJSON]
    cases firstNotN b
    · simp
    · cases c.dec b zero <;> simp

/-- nil receiver: an error, nothing written, the input is not even looked at. -/
theorem option_unmarshal_nil_receiver (c : Codec E T) (zero : T) (b : Bytes) :
    Opt.unmarshalJSON c zero b none = ⟨none, some .nilTarget⟩ := rfl

/-- empty input ↦ `None`, nil error. -/
theorem option_unmarshal_empty (c : Codec E T) (zero : T) (t : Option T) :
    Opt.unmarshalJSON c zero [] (some t) = ⟨some none, none⟩ := by
  simp [Opt.unmarshalJSON]

/-- ANY input starting with `n` (`null`, but also `nope`, `n`) ↦ `None`, nil error; the element
    decoder is not consulted. -/
theorem option_unmarshal_n_prefix (c : Codec E T) (zero : T) (rest : Bytes) (t : Option T) :
    Opt.unmarshalJSON c zero (110 :: rest) (some t) = ⟨some none, none⟩ := by
  simp [Opt.unmarshalJSON]

/-- otherwise the element decoder decides; on its error the target is unchanged and that very error
    is returned … -/
theorem option_unmarshal_error_unchanged (c : Codec E T) (zero : T) (b : Bytes) (t : Option T) (e : E)
    (hb : firstNotN b = true) (he : c.dec b zero = .error e) :
    Opt.unmarshalJSON c zero b (some t) = ⟨some t, some (.inner e)⟩ := by
  simp [Opt.unmarshalJSON, hb, he]

/-- … and on success the target is `Some` of what was decoded into a FRESH zero value (the old
    content of the target does not leak into the result). -/
theorem option_unmarshal_ok (c : Codec E T) (zero : T) (b : Bytes) (t : Option T) (v : T)
    (hb : firstNotN b = true) (hv : c.dec b zero = .ok v) :
    Opt.unmarshalJSON c zero b (some t) = ⟨some (some v), none⟩ := by
  simp [Opt.unmarshalJSON, hb, hv]

/-- any returned error leaves the target unchanged (∀ bytes) -/
theorem option_unmarshal_unchanged_on_error (c : Codec E T) (zero : T) (b : Bytes) (r : Option (Option T))
    (h : (Opt.unmarshalJSON c zero b r).err ≠ none) : (Opt.unmarshalJSON c zero b r).mem = r := by
  rcases option_unmarshal_total c zero b r with h' | h'
  · exact absurd h'.1 h
  · exact h'.2

/-! ## 4. `fp.Unit` -/

/-- `Unit` ↦ `null` ↦ the same `Unit`, nil error. -/
theorem unit_roundtrip (u t : Unit) :
    (GoUnit.unmarshalJSON (GoUnit.marshalJSON u) (some t) : Res E Unit) = ⟨some u, none⟩ := rfl

theorem unit_marshal_bytes (u : Unit) : GoUnit.marshalJSON u = nullLit := rfl

/-- for ALL bytes and all receivers (nil included): never an error, never a write. -/
theorem unit_unmarshal_never_fails (b : Bytes) (r : Option Unit) :
    (GoUnit.unmarshalJSON b r : Res E Unit).err = none ∧ (GoUnit.unmarshalJSON b r : Res E Unit).mem = r :=
  ⟨rfl, rfl⟩

/-- as a codec `Unit` is faithful from every start value … -/
theorem unitCodec_faithful (start u : Unit) : Faithful (unitCodec (E := E)) start u := rfl

/-- … but it is `null`, so `Option[fp.Unit]` cannot tell `Some(Unit)` from `None`. -/
theorem option_unit_collapses (t : Option Unit) :
    Opt.unmarshalJSON (unitCodec (E := E)) () (Opt.marshalJSON (unitCodec (E := E)) (some ())) (some t)
      = ⟨some none, none⟩ :=
  option_null_collapses _ _ _ _ (by simp [NotNull, unitCodec, GoUnit.marshalJSON])

/-! ## 5. `@fp.Json` structs -/

/-- The JSON of an `@fp.Json` struct is exactly what `encoding/json` emits for its Mutable twin. -/
theorem struct_marshal_is_mutable_codec (s : StructSpec) (mc : Codec E Rec) (x : Rec) :
    structMarshal s mc x = mc.enc (asMutable s x) := rfl

/-- nil receiver: an error, nothing written. -/
theorem struct_unmarshal_nil_receiver (s : StructSpec) (mc : Codec E Rec) (b : Bytes) :
    structUnmarshal s mc b none = ⟨none, some .nilTarget⟩ := rfl

/-- For ALL byte strings: normal return; success through a non-nil receiver, or an error with the
    target untouched. -/
theorem struct_unmarshal_total (s : StructSpec) (mc : Codec E Rec) (b : Bytes) (r : Option Rec) :
    let res := structUnmarshal s mc b r
    (res.err = none ∧ ∃ v, res.mem = some v ∧ r ≠ none) ∨ (res.err ≠ none ∧ res.mem = r) := by
  cases r with
  | none => simp [structUnmarshal]
  | some cur =>
    simp only [structUnmarshal]
    cases mc.dec b (asMutable s cur) <;> simp

theorem struct_unmarshal_unchanged_on_error (s : StructSpec) (mc : Codec E Rec) (b : Bytes) (r : Option Rec)
    (h : (structUnmarshal s mc b r).err ≠ none) : (structUnmarshal s mc b r).mem = r := by
  rcases struct_unmarshal_total s mc b r with h' | h'
  · exact absurd h'.1 h
  · exact h'.2

/-- the error is exactly `json.Unmarshal`'s on the Mutable twin of the current target -/
theorem struct_unmarshal_error (s : StructSpec) (mc : Codec E Rec) (b : Bytes) (t : Rec) (e : E)
    (he : mc.dec b (asMutable s t) = .error e) :
    structUnmarshal s mc b (some t) = ⟨some t, some (.inner e)⟩ := by
  simp [structUnmarshal, he]

/-- what is decoded is what `encoding/json` decodes into the Mutable twin of the CURRENT target -/
theorem struct_unmarshal_ok (s : StructSpec) (mc : Codec E Rec) (b : Bytes) (t m' : Rec)
    (hm : mc.dec b (asMutable s t) = .ok m') :
    structUnmarshal s mc b (some t) = ⟨some (asImmutable s m'), none⟩ := by
  simp [structUnmarshal, hm]

/-- Round trip, general form: if `encoding/json` is faithful on the Mutable twin of `x` when decoding
    into the Mutable twin of the target `t`, the target ends up as `mask s.fields x`: `x` with every
    non-applicable (`_`-prefixed / embedded empty struct) field zeroed. -/
theorem struct_roundtrip_mask (s : StructSpec) (mc : Codec E Rec) (x t : Rec)
    (hf : Faithful mc (asMutable s t) (asMutable s x)) :
    structUnmarshal s mc (structMarshal s mc x) (some t) = ⟨some (mask s.fields x), none⟩ := by
  simp only [Faithful, asMutable] at hf
  simp [structUnmarshal, structMarshal, hf, asImmutable, asMutable, mask_idem]

/-- … which has the shape of the struct and agrees with `x` on every applicable field. -/
theorem struct_roundtrip_fields (s : StructSpec) (mc : Codec E Rec) (x t : Rec) (hx : Rec.WF s x)
    (hf : Faithful mc (asMutable s t) (asMutable s x)) :
    ∃ y, structUnmarshal s mc (structMarshal s mc x) (some t) = ⟨some y, none⟩ ∧ Rec.WF s y ∧
      ∀ i f, s.fields[i]? = some f → f.applicable = true → getF i y = getF i x :=
  ⟨mask s.fields x, struct_roundtrip_mask s mc x t hf, mask_length _ _ hx,
    fun i f hi ha => getF_mask_applicable _ _ i f hi ha⟩

/-- Round trip proper: every field applicable ⇒ `Unmarshal(Marshal(x))` into any target is `x`. -/
theorem struct_roundtrip (s : StructSpec) (mc : Codec E Rec) (x t : Rec) (hx : Rec.WF s x)
    (happ : ∀ f ∈ s.fields, f.applicable = true)
    (hf : Faithful mc (asMutable s t) (asMutable s x)) :
    structUnmarshal s mc (structMarshal s mc x) (some t) = ⟨some x, none⟩ := by
  rw [struct_roundtrip_mask s mc x t hf, mask_eq_self _ _ hx happ]

/-- in that case the Mutable twin IS the struct, so the hypothesis reads "encoding/json is faithful on `x`" -/
theorem struct_roundtrip_wf (s : StructSpec) (mc : Codec E Rec) (x t : Rec) (hx : Rec.WF s x) (ht : Rec.WF s t)
    (happ : ∀ f ∈ s.fields, f.applicable = true) (hf : Faithful mc t x) :
    structUnmarshal s mc (structMarshal s mc x) (some t) = ⟨some x, none⟩ := by
  apply struct_roundtrip s mc x t hx happ
  simpa [asMutable, mask_eq_self _ _ hx happ, mask_eq_self _ _ ht happ] using hf

/-- The excluded fields really are lost: a non-applicable field comes back as its zero value. -/
theorem struct_roundtrip_nonapplicable_zeroed (s : StructSpec) (mc : Codec E Rec) (x t : Rec) (hx : Rec.WF s x)
    (hf : Faithful mc (asMutable s t) (asMutable s x)) (i : Nat) (f : Field)
    (hi : s.fields[i]? = some f) (ha : f.applicable = false) :
    ∃ y, structUnmarshal s mc (structMarshal s mc x) (some t) = ⟨some y, none⟩ ∧ getF i y = f.zero := by
  refine ⟨mask s.fields x, struct_roundtrip_mask s mc x t hf, ?_⟩
  apply getF_mask_not_applicable _ _ i f hi ha
  have : i < s.fields.length := by
    rcases Nat.lt_or_ge i s.fields.length with h | h
    · exact h
    · simp [List.getElem?_eq_none h] at hi
  rw [show x.length = s.fields.length from hx]
  exact this

/-- the struct seen through its generated methods is a faithful codec exactly as far as above -/
theorem structCodec_faithful (s : StructSpec) (mc : Codec E Rec) (x t : Rec) (hx : Rec.WF s x)
    (happ : ∀ f ∈ s.fields, f.applicable = true)
    (hf : Faithful mc (asMutable s t) (asMutable s x)) : Faithful (structCodec s mc) t x := by
  simp [Faithful, structCodec, struct_roundtrip s mc x t hx happ hf, Res.asDec]

/-! ## 6. The derived `Option` codec and nesting -/

/-- `Option[T]` is a faithful codec on `None`, from every start value, for every element codec -/
theorem optionCodec_faithful_none (c : Codec E T) (zero : T) (start : Option T) :
    Faithful (optionCodec c zero) start none := by
  simp [Faithful, optionCodec, option_roundtrip_none, Res.asDec]

/-- … and on `Some v` when the element codec is faithful and not null on `v` -/
theorem optionCodec_faithful_some (c : Codec E T) (zero v : T) (start : Option T)
    (hf : Faithful c zero v) (hn : NotNull c v) :
    Faithful (optionCodec c zero) start (some v) := by
  simp [Faithful, optionCodec, option_roundtrip_some c zero v start hf hn, Res.asDec]

/-- `Some v` is not null when `v` is not (the bytes are the same) -/
theorem optionCodec_notNull_some (c : Codec E T) (zero v : T) (hn : NotNull c v) :
    NotNull (optionCodec c zero) (some v) := hn

/-- decoding errors of the derived codec leave the caller's variable alone (∀ bytes): it is an error,
    or the new value -/
theorem optionCodec_dec_cases (c : Codec E T) (zero : T) (b : Bytes) (cur : Option T) :
    (optionCodec c zero).dec b cur = .ok none ∨ (∃ v, (optionCodec c zero).dec b cur = .ok (some v) ∧ c.dec b zero = .ok v)
    ∨ (∃ e, (optionCodec c zero).dec b cur = .error (.inner e) ∧ c.dec b zero = .error e) := by
  simp only [optionCodec, Opt.unmarshalJSON, Res.asDec]
  cases firstNotN b
  · simp
  · cases c.dec b zero <;> simp

/-- the syntax pre-check of `json.Unmarshal` does not disturb faithfulness on accepted encodings -/
theorem checked_faithful (chk : Bytes → Option E) (c : Codec E T) (start v : T)
    (hc : chk (c.enc v) = none) (hf : Faithful c start v) : Faithful (c.checked chk) start v := by
  simp only [Faithful] at hf
  simp [Faithful, Codec.checked, hc, hf]

/-- `Option[Option[T]]`: `Some(Some(v))` round-trips (into any prior target) -/
theorem nested_roundtrip_some_some (c : Codec E T) (zero v : T) (t : Option (Option T))
    (hf : Faithful c zero v) (hn : NotNull c v) :
    Opt.unmarshalJSON (optionCodec c zero) none
      (Opt.marshalJSON (optionCodec c zero) (some (some v))) (some t) = ⟨some (some (some v)), none⟩ :=
  option_roundtrip_some _ _ _ _ (optionCodec_faithful_some c zero v none hf hn)
    (optionCodec_notNull_some c zero v hn)

/-- `Option[Option[T]]`: `None` round-trips (and `Some(None)` does not: `option_some_none_collapses`) -/
theorem nested_roundtrip_none (c : Codec E T) (zero : T) (t : Option (Option T)) :
    Opt.unmarshalJSON (optionCodec c zero) none
      (Opt.marshalJSON (optionCodec c zero) none) (some t) = ⟨some none, none⟩ :=
  option_roundtrip_none _ _ _

/-- the complete picture for `Option[Option[T]]` under the element hypotheses: the round trip is the
    identity except that `Some(None)` is sent to `None` -/
theorem nested_roundtrip_all (c : Codec E T) (zero : T) (x t : Option (Option T))
    (h : ∀ v, x = some (some v) → Faithful c zero v ∧ NotNull c v) :
    Opt.unmarshalJSON (optionCodec c zero) none (Opt.marshalJSON (optionCodec c zero) x) (some t)
      = ⟨some (match x with | some none => none | y => y), none⟩ := by
  match x with
  | none => simpa using nested_roundtrip_none c zero t
  | some none => simpa using (option_some_none_collapses c zero t).1
  | some (some v) => simpa using nested_roundtrip_some_some c zero v t (h v rfl).1 (h v rfl).2

/-- an `Option[T]` field nested three deep still works on the fully defined value -/
theorem nested3_roundtrip (c : Codec E T) (zero v : T) (t : Option (Option (Option T)))
    (hf : Faithful c zero v) (hn : NotNull c v) :
    Opt.unmarshalJSON (optionCodec (optionCodec c zero) none) none
      (Opt.marshalJSON (optionCodec (optionCodec c zero) none) (some (some (some v)))) (some t)
      = ⟨some (some (some (some v))), none⟩ :=
  option_roundtrip_some _ _ _ _
    (optionCodec_faithful_some _ _ _ none (optionCodec_faithful_some c zero v none hf hn)
      (optionCodec_notNull_some c zero v hn))
    (optionCodec_notNull_some _ _ _ (optionCodec_notNull_some c zero v hn))

/-! ## Non-vacuity: the hypotheses are satisfiable (and can genuinely fail) -/

/-- toy codec for `Nat`: `0` followed by `n` times `1`; decoding ignores the target -/
def natCodec : Codec Unit Nat where
  enc n := 48 :: List.replicate n 49
  dec b _ :=
    match b with
    | 48 :: rest => if rest.all (· == 49) then .ok rest.length else .error ()
    | _ => .error ()

/-- toy codec for `Bool`: `true` / `false` -/
def boolCodec : Codec Unit Bool where
  enc v := if v then [116, 114, 117, 101] else [102, 97, 108, 115, 101]
  dec b _ :=
    if b = [116, 114, 117, 101] then .ok true
    else if b = [102, 97, 108, 115, 101] then .ok false
    else .error ()

/-- `Faithful ∧ NotNull` holds for every value of an infinite type … -/
example : ∀ n start, Faithful natCodec start n ∧ NotNull natCodec n := by
  intro n start
  simp [Faithful, NotNull, natCodec]

example : ∀ v start, Faithful boolCodec start v ∧ NotNull boolCodec v := by
  intro v start
  cases v <;> simp [Faithful, NotNull, boolCodec]

/-- … so e.g. `Option[Option[uint]]` round-trips `Some(Some(7))` into a dirty target -/
example : Opt.unmarshalJSON (optionCodec natCodec 0) none
    (Opt.marshalJSON (optionCodec natCodec 0) (some (some 7))) (some (some (some 3)))
    = ⟨some (some (some 7)), none⟩ :=
  nested_roundtrip_some_some natCodec 0 7 _ (by simp [Faithful, natCodec]) (by simp [NotNull, natCodec])

/-- the error branch is reachable: target unchanged, error returned -/
example : Opt.unmarshalJSON natCodec 0 [49] (some (some 3)) = ⟨some (some 3), some (.inner ())⟩ := by
  simp [Opt.unmarshalJSON, natCodec]

/-- `nope` ↦ `None` without error -/
example : Opt.unmarshalJSON natCodec 0 [110, 111, 112, 101] (some (some 3)) = ⟨some none, none⟩ :=
  option_unmarshal_n_prefix _ _ _ _

/-- `¬ NotNull` is satisfiable by a FAITHFUL codec (so `option_null_collapses` is not vacuous) -/
example : Faithful (optionCodec natCodec 0) (some 5) none ∧ ¬ NotNull (optionCodec natCodec 0) none :=
  ⟨optionCodec_faithful_none _ _ _, optionCodec_none_is_null _ _⟩

/-- a one-field `@fp.Json` struct `{ a fp.Option[int] }` -/
def toySpec : StructSpec :=
  { name := "T", fields := [{ name := "a", ty := .opt (.conc "int"), zero := .none }],
    ann := { value := true, json := true } }

/-- toy `encoding/json` for its Mutable twin `{ A fp.Option[int] `json:"a,omitempty"` }`, values
    restricted to `None` / `Some(1)`: `{}` when the field is empty (omitempty) and then decoding
    KEEPS what the target had -/
def toyMutCodec : Codec Unit Rec where
  enc m :=
    match m with
    | [.some _] => [123, 49, 125]
    | _ => [123, 125]
  dec b m :=
    if b = [123, 49, 125] then .ok [.some (.atom "1")]
    else if b = [123, 125] then .ok m
    else .error ()

theorem toySpec_all_applicable : ∀ f ∈ toySpec.fields, f.applicable = true := by
  simp [toySpec, Field.applicable]

theorem toy_asMutable (v : RV) : asMutable toySpec [v] = [v] :=
  mask_eq_self _ _ rfl toySpec_all_applicable

/-- hypotheses of `struct_roundtrip` hold: `Some(1)` into ANY one-field target, `None` into a clean one -/
example (t : RV) : structUnmarshal toySpec toyMutCodec
    (structMarshal toySpec toyMutCodec [.some (.atom "1")]) (some [t]) = ⟨some [.some (.atom "1")], none⟩ :=
  struct_roundtrip _ _ _ _ rfl toySpec_all_applicable (by simp [toy_asMutable, Faithful, toyMutCodec])

example : structUnmarshal toySpec toyMutCodec
    (structMarshal toySpec toyMutCodec [.none]) (some [.none]) = ⟨some [.none], none⟩ :=
  struct_roundtrip _ _ _ _ rfl toySpec_all_applicable (by simp [toy_asMutable, Faithful, toyMutCodec])

/-- Why `dec` takes the current target and why the faithfulness hypothesis of `struct_roundtrip`
    mentions it: with `omitempty`, `None` decoded into a target that holds `Some(1)` stays `Some(1)`. -/
theorem omitempty_dirty_target_not_faithful :
    ¬ Faithful toyMutCodec (asMutable toySpec [.some (.atom "1")]) (asMutable toySpec [.none])
    ∧ structUnmarshal toySpec toyMutCodec (structMarshal toySpec toyMutCodec [.none])
        (some [.some (.atom "1")]) = ⟨some [.some (.atom "1")], none⟩ := by
  constructor
  · simp [toy_asMutable, Faithful, toyMutCodec]
  · simp [structUnmarshal, structMarshal, toy_asMutable, asImmutable, toyMutCodec]
    exact toy_asMutable _

/-- a struct with a non-applicable field: that hypothesis of `struct_roundtrip` can fail too -/
example : ¬ (∀ f ∈ [({ name := "_x", ty := .conc "int" } : Field)], f.applicable = true) := by
  simp [Field.applicable]

/-! ## 7. Whole-struct `Faithful` from FIELD-level hypotheses (audit finding 22)

`struct_roundtrip` assumes `Faithful mc (asMutable s t) (asMutable s x)` for an opaque whole-struct
codec `mc`.  Here `mc` is `mutableCodec syn s js tc` (`Lemmas/JsonStruct.lean`): `encoding/json` on
the Mutable twin BUILT from one codec per field (`tc`), the key / `omitempty` of every field (`js`)
and the object syntax (`syn`).  Its `Faithful` follows from hypotheses about the single fields. -/

/-- **Composition.**  If, for every applicable field, the field's own codec is `Faithful` from what
    the target holds in that field (whenever the field is written), and the target already agrees
    with `x` on every field `omitempty` leaves out, then `encoding/json` on the Mutable twin is
    `Faithful` — the hypothesis of `struct_roundtrip`.  (Shape-level side conditions: distinct json
    keys; the object syntax splits the object it rendered.) -/
theorem mutable_faithful_of_fields (syn : ObjSyntax E) (s : StructSpec) (js : Field → JsonOpts)
    (tc : TypeCodecs E) (x t : Rec) (hx : Rec.WF s x) (ht : Rec.WF s t)
    (hsyn : syn.Splits (encPairs (mutableFieldCodecs s js tc) (asMutable s x)))
    (hd : DistinctJsonKeys s js)
    (h : ∀ i f, s.fields[i]? = some f → f.applicable = true →
      (fieldEmitted js tc f (getF i x) = true → Faithful (tc.codec f) (getF i t) (getF i x)) ∧
      (fieldEmitted js tc f (getF i x) = false → getF i t = getF i x)) :
    Faithful (mutableCodec syn s js tc) (asMutable s t) (asMutable s x) :=
  mutableCodec_faithful syn s js tc x t hx ht hsyn hd h

/-- the JSON emitted for the struct is the object with one pair per applicable field that is not
    omitted, in declaration order, key and value as `encoding/json` produces them for that field -/
theorem struct_marshal_pairs (syn : ObjSyntax E) (s : StructSpec) (js : Field → JsonOpts)
    (tc : TypeCodecs E) (x : Rec) :
    structMarshal s (mutableCodec syn s js tc) x
      = syn.render (encPairs (mutableFieldCodecs s js tc) (asMutable s x)) := rfl

/-- round trip from field-level hypotheses, general form (non-applicable fields come back zeroed) -/
theorem struct_roundtrip_mask_of_fields (syn : ObjSyntax E) (s : StructSpec) (js : Field → JsonOpts)
    (tc : TypeCodecs E) (x t : Rec) (hx : Rec.WF s x) (ht : Rec.WF s t)
    (hsyn : syn.Splits (encPairs (mutableFieldCodecs s js tc) (asMutable s x)))
    (hd : DistinctJsonKeys s js)
    (h : ∀ i f, s.fields[i]? = some f → f.applicable = true →
      (fieldEmitted js tc f (getF i x) = true → Faithful (tc.codec f) (getF i t) (getF i x)) ∧
      (fieldEmitted js tc f (getF i x) = false → getF i t = getF i x)) :
    structUnmarshal s (mutableCodec syn s js tc) (structMarshal s (mutableCodec syn s js tc) x) (some t)
      = ⟨some (mask s.fields x), none⟩ :=
  struct_roundtrip_mask s _ x t (mutable_faithful_of_fields syn s js tc x t hx ht hsyn hd h)

/-- **Round trip proper from field-level hypotheses**: `struct_roundtrip` with its whole-struct
    `Faithful` hypothesis discharged by `mutable_faithful_of_fields`. -/
theorem struct_roundtrip_of_fields (syn : ObjSyntax E) (s : StructSpec) (js : Field → JsonOpts)
    (tc : TypeCodecs E) (x t : Rec) (hx : Rec.WF s x) (ht : Rec.WF s t)
    (happ : ∀ f ∈ s.fields, f.applicable = true)
    (hsyn : syn.Splits (encPairs (mutableFieldCodecs s js tc) (asMutable s x)))
    (hd : DistinctJsonKeys s js)
    (h : ∀ i f, s.fields[i]? = some f →
      (fieldEmitted js tc f (getF i x) = true → Faithful (tc.codec f) (getF i t) (getF i x)) ∧
      (fieldEmitted js tc f (getF i x) = false → getF i t = getF i x)) :
    structUnmarshal s (mutableCodec syn s js tc) (structMarshal s (mutableCodec syn s js tc) x) (some t)
      = ⟨some x, none⟩ :=
  struct_roundtrip s _ x t hx happ
    (mutable_faithful_of_fields syn s js tc x t hx ht hsyn hd (fun i f hi _ => h i f hi))

/-- **… from `Faithful ∧ NotNull` of the field VALUES** (the property's wording).  The struct's
    `fp.Option[T]` fields go through `Option[T].MarshalJSON / UnmarshalJSON` (`optionTypeCodecs`);
    an Option field needs, when it holds `Some(w)`, the ELEMENT codec `Faithful` (from the fresh zero
    value) and `NotNull` on `w` — and nothing about the target; any other field needs its codec
    `Faithful` from the target's value (or, when `omitempty` drops it, the target to agree). -/
theorem struct_roundtrip_of_faithful_notNull (syn : ObjSyntax (UErr E)) (s : StructSpec)
    (js : Field → JsonOpts) (ec : Field → Codec E RV) (ez : Field → RV)
    (plain : Field → Codec (UErr E) RV) (plainEmpty : Field → RV → Bool) (x t : Rec)
    (hx : Rec.WF s x) (ht : Rec.WF s t)
    (happ : ∀ f ∈ s.fields, f.applicable = true)
    (hsyn : syn.Splits
      (encPairs (mutableFieldCodecs s js (optionTypeCodecs ec ez plain plainEmpty)) (asMutable s x)))
    (hd : DistinctJsonKeys s js)
    (hopt : ∀ i f, s.fields[i]? = some f → f.ty.isOpt = true →
      getF i x = .none ∨ ∃ w, getF i x = .some w ∧ Faithful (ec f) (ez f) w ∧ NotNull (ec f) w)
    (hplain : ∀ i f, s.fields[i]? = some f → f.ty.isOpt = false →
      if (js f).omitempty && plainEmpty f (getF i x) then getF i t = getF i x
      else Faithful (plain f) (getF i t) (getF i x)) :
    structUnmarshal s (mutableCodec syn s js (optionTypeCodecs ec ez plain plainEmpty))
      (structMarshal s (mutableCodec syn s js (optionTypeCodecs ec ez plain plainEmpty)) x) (some t)
      = ⟨some x, none⟩ := by
  apply struct_roundtrip_of_fields syn s js _ x t hx ht happ hsyn hd
  intro i f hi
  cases ho : f.ty.isOpt with
  | true =>
    have hem : fieldEmitted js (optionTypeCodecs ec ez plain plainEmpty) f (getF i x) = true := by
      simp [fieldEmitted, optionTypeCodecs, ho]
    refine ⟨fun _ => ?_, fun h' => by simp [hem] at h'⟩
    simp only [optionTypeCodecs, ho, if_true]
    rcases hopt i f hi ho with h0 | ⟨w, hw, hf, hn⟩
    · rw [h0]; exact optFieldCodec_faithful_none _ _ _
    · rw [hw]; exact optFieldCodec_faithful_some _ _ _ _ hf hn
  | false =>
    have hp := hplain i f hi ho
    have hem : fieldEmitted js (optionTypeCodecs ec ez plain plainEmpty) f (getF i x)
        = !((js f).omitempty && plainEmpty f (getF i x)) := by
      simp [fieldEmitted, optionTypeCodecs, ho]
    cases hc : ((js f).omitempty && plainEmpty f (getF i x)) with
    | true =>
      simp only [hc, if_true] at hp
      refine ⟨fun h' => by simp [hem, hc] at h', fun _ => hp⟩
    | false =>
      simp only [hc] at hp
      refine ⟨fun _ => by simpa [optionTypeCodecs, ho] using hp, fun h' => by simp [hem, hc] at h'⟩

/-- … and the `NotNull` hypothesis cannot be dropped: an Option FIELD holding `Some(w)` with a null
    element encoding decodes to `None`, for every element codec -/
theorem struct_option_field_null_collapses (c : Codec E RV) (zero start w : RV) (hn : ¬ NotNull c w) :
    (optFieldCodec c zero).dec ((optFieldCodec c zero).enc (.some w)) start = .ok .none :=
  optFieldCodec_null_collapses c zero start w hn

/-! ## 8. The json tags of the Mutable twin: `mutableTag` (`genMutable`), audit finding 22

"json tags, omitempty on nilable and Option fields": equations for `mutableTag` over ALL structs and
fields.  `generatesJsonTag s f` is the generator's three-fold test (field not `_`-prefixed, struct
is `@fp.Json`, the user's tag does not contain `json`). -/

theorem generatesJsonTag_iff (s : StructSpec) (f : Field) :
    generatesJsonTag s f = true ↔
      f.name.startsWith "_" = false ∧ s.ann.json = true ∧ (f.tag.splitOn "json").length = 1 := by
  simp [generatesJsonTag, and_assoc]

/-- the tag is generated: the user's tag (if any, then a blank) followed by `json:"<field name>"`
    with `,omitempty` exactly when the field type is nilable or an `fp.Option` -/
theorem mutableTag_generated (s : StructSpec) (f : Field) (h : generatesJsonTag s f = true) :
    mutableTag s f = tagPrefix f ++ jsonTagText (generatedJsonOpts f) := by
  simp only [generatesJsonTag] at h
  cases hb : (f.nilable || f.ty.isOpt) <;>
    simp [mutableTag, h, tagPrefix, jsonTagText, generatedJsonOpts, hb, String.append_assoc]

/-- otherwise (a `_` field, no `@fp.Json`, or a user tag that mentions `json`) the user's tag is
    copied unchanged: the key is then whatever the user's json tag says -/
theorem mutableTag_kept (s : StructSpec) (f : Field) (h : generatesJsonTag s f = false) :
    mutableTag s f = f.tag := by
  simp only [generatesJsonTag] at h
  simp [mutableTag, h]

/-- both cases in one equation -/
theorem mutableTag_eq (s : StructSpec) (f : Field) :
    mutableTag s f =
      if generatesJsonTag s f then tagPrefix f ++ jsonTagText (generatedJsonOpts f) else f.tag := by
  cases h : generatesJsonTag s f
  · simpa using mutableTag_kept s f h
  · simpa using mutableTag_generated s f h

/-- the two texts of a generated tag, spelled out -/
theorem jsonTagText_omitempty (k : String) :
    jsonTagText ⟨k, true⟩ = "json:\"" ++ k ++ ",omitempty\"" := by
  simp [jsonTagText, String.append_assoc]

theorem jsonTagText_plain (k : String) : jsonTagText ⟨k, false⟩ = "json:\"" ++ k ++ "\"" := by
  simp [jsonTagText]

/-- the generated key is the field's own (original, unexported) name -/
theorem generated_key (f : Field) : (generatedJsonOpts f).key = f.name := rfl

/-- `omitempty` EXACTLY on nilable and `fp.Option` fields (case split over the field's type) -/
theorem generated_omitempty_iff (f : Field) :
    (generatedJsonOpts f).omitempty = true ↔ (f.nilable = true ∨ ∃ e, f.ty = .opt e) := by
  simp only [generatedJsonOpts, Bool.or_eq_true]
  cases f.ty <;> simp [Ty.isOpt]

/-- … read off the generated STRING: it is the `,omitempty` text iff the field is nilable or an Option -/
theorem mutableTag_omitempty_iff (s : StructSpec) (f : Field) (h : generatesJsonTag s f = true) :
    mutableTag s f = tagPrefix f ++ jsonTagText ⟨f.name, true⟩ ↔ (f.nilable = true ∨ ∃ e, f.ty = .opt e) := by
  rw [mutableTag_generated s f h, ← generated_omitempty_iff]
  cases ho : (generatedJsonOpts f).omitempty with
  | true =>
    have : generatedJsonOpts f = ⟨f.name, true⟩ := by rw [← ho]; rfl
    simp [this]
  | false =>
    have : generatedJsonOpts f = ⟨f.name, false⟩ := by rw [← ho]; rfl
    simp only [this, Bool.false_eq_true, iff_false]
    exact fun h' => jsonTagText_omitempty_ne _ _ h'.symm

/-- … and the plain `json:"name"` text iff it is neither -/
theorem mutableTag_plain_iff (s : StructSpec) (f : Field) (h : generatesJsonTag s f = true) :
    mutableTag s f = tagPrefix f ++ jsonTagText ⟨f.name, false⟩ ↔ (f.nilable = false ∧ ∀ e, f.ty ≠ .opt e) := by
  have hiff := generated_omitempty_iff f
  rw [mutableTag_generated s f h]
  cases ho : (generatedJsonOpts f).omitempty with
  | true =>
    have : generatedJsonOpts f = ⟨f.name, true⟩ := by rw [← ho]; rfl
    rw [this]
    constructor
    · intro h'; exact absurd h' (jsonTagText_omitempty_ne _ _)
    · intro ⟨hn, he⟩
      rcases hiff.1 ho with h1 | ⟨e, h2⟩
      · simp [hn] at h1
      · exact absurd h2 (he e)
  | false =>
    have : generatedJsonOpts f = ⟨f.name, false⟩ := by rw [← ho]; rfl
    simp only [this, true_iff]
    have hno : ¬ (f.nilable = true ∨ ∃ e, f.ty = .opt e) := by
      intro hc; have := hiff.2 hc; simp [ho] at this
    constructor
    · cases hn : f.nilable
      · rfl
      · exact absurd (Or.inl hn) hno
    · intro e he; exact hno (Or.inr ⟨e, he⟩)

/-- a field WITHOUT a user tag in an `@fp.Json` struct always gets the generated tag -/
theorem generatesJsonTag_of_no_tag (s : StructSpec) (f : Field) (hj : s.ann.json = true)
    (hn : f.name.startsWith "_" = false) (ht : f.tag = "") : generatesJsonTag s f = true := by
  simp [generatesJsonTag, hj, hn, ht, splitOn_empty_json]

/-- so there the whole tag is `json:"<name>"` or `json:"<name>,omitempty"` -/
theorem mutableTag_of_no_tag (s : StructSpec) (f : Field) (hj : s.ann.json = true)
    (hn : f.name.startsWith "_" = false) (ht : f.tag = "") :
    mutableTag s f = jsonTagText ⟨f.name, f.nilable || f.ty.isOpt⟩ := by
  rw [mutableTag_generated s f (generatesJsonTag_of_no_tag s f hj hn ht)]
  simp [tagPrefix, ht, generatedJsonOpts]

/-- not `@fp.Json`, or a `_` field: nothing is added -/
theorem mutableTag_no_json (s : StructSpec) (f : Field) (h : s.ann.json = false ∨ f.name.startsWith "_" = true) :
    mutableTag s f = f.tag := by
  apply mutableTag_kept
  rcases h with h | h <;> simp [generatesJsonTag, h]

/-- examples: an Option field, a nilable field, a plain field, a `_` field -/
example : mutableTag toySpec { name := "a", ty := .opt (.conc "int"), zero := .none } = "json:\"a,omitempty\"" := by
  rw [mutableTag_of_no_tag _ _ rfl (by simp) rfl]; decide

example : mutableTag toySpec { name := "p", ty := .conc "*int", nilable := true } = "json:\"p,omitempty\"" := by
  rw [mutableTag_of_no_tag _ _ rfl (by simp) rfl]; decide

example : mutableTag toySpec { name := "n", ty := .conc "int" } = "json:\"n\"" := by
  rw [mutableTag_of_no_tag _ _ rfl (by simp) rfl]; decide

example : mutableTag toySpec { name := "_x", ty := .conc "int", tag := "k:\"v\"" } = "k:\"v\"" :=
  mutableTag_no_json _ _ (Or.inr (by simp))

/-! ### Non-vacuity of section 7: concrete field codecs, a concrete object syntax -/

/-- toy `encoding/json` for `uint` restricted to `0` / `1` (bytes `0`, `1`), target ignored -/
def bitCodec : Codec Unit RV where
  enc v := if v = .atom "1" then [49] else [48]
  dec b _ := if b = [49] then .ok (.atom "1") else if b = [48] then .ok (.atom "0") else .error ()

/-- the same as the codec of a plain struct field (errors of `json.Unmarshal` wrapped) -/
def bitFieldCodec : Codec (UErr Unit) RV where
  enc := bitCodec.enc
  dec b cur := match bitCodec.dec b cur with | .ok v => .ok v | .error e => .error (.inner e)

/-- toy object syntax: per pair the first byte of the key, the length of the value, the value -/
def toyParse : Nat → Bytes → Except (UErr Unit) (List (String × Bytes))
  | _, [] => .ok []
  | 0, _ => .error (.inner ())
  | fuel + 1, kb :: bl :: rest =>
    if rest.length < bl.toNat then .error (.inner ()) else
      match toyParse fuel (rest.drop bl.toNat) with
      | .ok kvs => .ok ((String.singleton (Char.ofNat kb.toNat), rest.take bl.toNat) :: kvs)
      | .error e => .error e
  | _, _ => .error (.inner ())

def toySyn : ObjSyntax (UErr Unit) where
  render kvs := kvs.flatMap fun kv =>
    [UInt8.ofNat (kv.1.toList.headD 'x').toNat, UInt8.ofNat kv.2.length] ++ kv.2
  parse b := toyParse b.length b

/-- `type P struct { a fp.Option[uint]; n uint }`, `@fp.Value @fp.Json` -/
def pairSpec : StructSpec :=
  { name := "P",
    fields := [{ name := "a", ty := .opt (.conc "uint"), zero := .none }, { name := "n", ty := .conc "uint" }],
    ann := { value := true, json := true } }

def pairCodecs : TypeCodecs (UErr Unit) :=
  optionTypeCodecs (fun _ => bitCodec) (fun _ => .atom "0") (fun _ => bitFieldCodec) (fun _ v => v == .atom "0")

theorem bitCodec_ok (v start : RV) (hv : v = .atom "0" ∨ v = .atom "1") :
    Faithful bitCodec start v ∧ NotNull bitCodec v := by
  rcases hv with rfl | rfl <;> simp [Faithful, NotNull, bitCodec]

/-- every hypothesis of `struct_roundtrip_of_faithful_notNull` holds for `P{a: Some(1), n: 1}` decoded
    into ANY two-field target: the whole-struct round trip follows from the field codecs alone, with
    the keys / omitempty gombok generates (`generatedJsonOpts`) -/
example (t0 t1 : RV) :
    structUnmarshal pairSpec (mutableCodec toySyn pairSpec generatedJsonOpts pairCodecs)
      (structMarshal pairSpec (mutableCodec toySyn pairSpec generatedJsonOpts pairCodecs)
        [.some (.atom "1"), .atom "1"]) (some [t0, t1])
      = ⟨some [.some (.atom "1"), .atom "1"], none⟩ := by
  have happ : ∀ f ∈ pairSpec.fields, f.applicable = true := by simp [pairSpec, Field.applicable]
  apply struct_roundtrip_of_faithful_notNull toySyn pairSpec generatedJsonOpts _ _ _ _
    [RV.some (.atom "1"), .atom "1"] [t0, t1] rfl rfl happ
  · -- the object syntax splits the two pairs it rendered
    have hm : asMutable pairSpec [RV.some (.atom "1"), .atom "1"] = [RV.some (.atom "1"), .atom "1"] :=
      mask_eq_self _ _ rfl happ
    rw [hm]
    have hp : encPairs (mutableFieldCodecs pairSpec generatedJsonOpts
        (optionTypeCodecs (fun _ => bitCodec) (fun _ => RV.atom "0") (fun _ => bitFieldCodec)
          fun _ v => v == RV.atom "0")) [RV.some (.atom "1"), .atom "1"]
        = [("a", [49]), ("n", [49])] := by
      simp [encPairs, mutableFieldCodecs, pairSpec, FieldCodec.emits, Field.applicable,
        generatedJsonOpts, optionTypeCodecs, optFieldCodec, optionCodec, Opt.marshalJSON, RV.toOpt,
        bitCodec, bitFieldCodec, Ty.isOpt]
    rw [hp]
    simp [ObjSyntax.Splits, toySyn, toyParse]
  · -- keys `a`, `n` are distinct
    simp [DistinctJsonKeys, pairSpec, generatedJsonOpts]
  · -- the Option field: element codec Faithful ∧ NotNull on `1`
    intro i f hi ho
    match i, hi with
    | 0, hi =>
      refine Or.inr ⟨.atom "1", by simp [getF], ?_⟩
      exact bitCodec_ok _ _ (Or.inr rfl)
    | 1, hi => simp [pairSpec] at hi; subst hi; simp [Ty.isOpt] at ho
    | n + 2, hi => simp [pairSpec] at hi
  · -- the plain field: not omitted (`1` is not empty), its codec Faithful from any target value
    intro i f hi ho
    match i, hi with
    | 0, hi => simp [pairSpec] at hi; subst hi; simp [Ty.isOpt] at ho
    | 1, hi =>
      simp [pairSpec] at hi; subst hi
      simp [getF, generatedJsonOpts, Ty.isOpt, Faithful, bitFieldCodec, bitCodec]
    | n + 2, hi => simp [pairSpec] at hi

end FpVerif.Spec.C15
