import FpVerif.Lemmas.TCOrd
import FpVerif.Model.TCInst
/-!
# C10 — Ord instances are strict total orders; sorting is an ordered permutation.

`StrictTotal o` (Lemmas/TCLaws.lean) bundles what the property demands of an `fp.Ord`: exactly one
of `Less(a,b)`, `Less(b,a)`, `Eqv(a,b)`; `Less` transitive; `Eqv` (the instance's own) transitive;
`Compare`, `LessEq`, `Min`, `Max` consistent with `Less`.

* `*_strictTotal` : every instance / combinator of package ord is `StrictTotal`, given `StrictTotal`
  components (user supplied functions: given that they are a strict weak order / a lawful three-way
  comparison);
* `*_less_iff`    : sequences, tuples and hlists compare lexicographically, `None`/nil first,
  `ThenComparing` only breaks ties, `Reversed` flips;
* `oinst_strictTotal` : every instance expression (any nesting depth, every tuple arity);
* `*Sort_spec`, `foldMin_spec`, `foldMax_spec` : `Sort` on Seq/Iterator/List returns an ordered
  permutation (for every sorting routine satisfying `SortSpec`, which merge sort does), `Min`/`Max`
  return a least/greatest element, or `None` exactly for the empty input;
* `seqAsIs_*` : `ord.Seq` as it stands in the library is not antisymmetric (defect D7).
-/
namespace FpVerif.Spec.C10
open FpVerif.TC

variable {α β τ : Type}

-- ============================================================================ built-in orders

/-- the built-in `<` of an `ImplicitOrd` type is a strict linear order -/
structure LinearLT (α : Type) [LT α] [DecidableRel (α := α) (· < ·)] : Prop where
  irrefl : ∀ a : α, ¬ a < a
  trans : ∀ a b c : α, a < b → b < c → a < c
  total : ∀ a b : α, a < b ∨ a = b ∨ b < a

theorem linearLT_int : LinearLT Int := ⟨fun a => Int.lt_irrefl a, fun _ _ _ => Int.lt_trans, fun a b => by omega⟩

theorem linearLT_int64 : LinearLT Int64 where
  irrefl _ := Int64.lt_irrefl
  trans _ _ _ := Int64.lt_trans
  total a b := by
    by_cases h : a = b
    · exact Or.inr (Or.inl h)
    · rcases Int64.lt_or_lt_of_ne h with h | h
      · exact Or.inl h
      · exact Or.inr (Or.inr h)

theorem linearLT_string : LinearLT String where
  irrefl a := String.lt_irrefl a
  trans _ _ _ := String.lt_trans
  total a b := by
    by_cases h1 : a < b
    · exact Or.inl h1
    · by_cases h2 : b < a
      · exact Or.inr (Or.inr h2)
      · exact Or.inr (Or.inl (String.le_antisymm (String.not_lt.mp h2) (String.not_lt.mp h1)))

section given
variable [LT α] [DecidableRel (α := α) (· < ·)]

theorem given_less_iff (h : LinearLT α) (a b : α) : (OrdD.given : OrdD α).less a b = true ↔ a < b := by
  simp only [OrdD.given, OrdD.less, decide_eq_true_eq]
  by_cases h1 : a < b
  · simp [h1]
  · by_cases h2 : b < a <;> simp [h1, h2]

/-- `ord.Given` (`fp.LessGiven`) : the built-in order; `Eqv` is `==`. -/
theorem given_strictTotal (h : LinearLT α) : StrictTotal (OrdD.given : OrdD α) := by
  have hl : ∀ a b, (OrdD.given : OrdD α).less a b = decide (a < b) := by
    intro a b
    have := given_less_iff h a b
    by_cases h1 : a < b <;> simp_all
  apply strictTotal_of
  · refine ⟨fun a => by simp [hl, h.irrefl], fun a b c h1 h2 => ?_, fun a b c h1 h2 h3 h4 => ?_⟩
    · simp only [hl, decide_eq_true_eq] at *
      exact h.trans a b c h1 h2
    · simp only [hl, decide_eq_false_iff_not] at *
      have e1 : a = b := by rcases h.total a b with x | x | x <;> first | exact absurd x h1 | exact x | exact absurd x h2
      have e2 : b = c := by rcases h.total b c with x | x | x <;> first | exact absurd x h3 | exact x | exact absurd x h4
      subst e1; subst e2
      exact ⟨h.irrefl a, h.irrefl a⟩
  · intro a b
    rw [hl]
    simp only [OrdD.given, OrdD.compare, decide_eq_true_eq]
    by_cases h1 : a < b
    · have : ¬ b < a := fun h2 => h.irrefl a (h.trans a b a h1 h2)
      simp [h1, this]
    · by_cases h2 : b < a <;> simp [h1, h2]

theorem given_eqv_iff (h : LinearLT α) (a b : α) : (OrdD.given : OrdD α).eqv a b = true ↔ a = b := by
  rw [(given_strictTotal h).eqv_iff, given_less_iff_false h, given_less_iff_false h]
  constructor
  · intro ⟨h1, h2⟩
    rcases h.total a b with x | x | x
    · exact absurd x h1
    · exact x
    · exact absurd x h2
  · intro e; subst e; exact ⟨h.irrefl a, h.irrefl a⟩
where
  given_less_iff_false (h : LinearLT α) (a b : α) : (OrdD.given : OrdD α).less a b = false ↔ ¬ a < b := by
    rw [← given_less_iff h]; simp
end given

/-- `ord.Time` : by instant. -/
theorem time_strictTotal : StrictTotal OrdD.time := by
  have hl : ∀ a b, OrdD.time.less a b = decide (a.instant < b.instant) := by
    intro a b
    simp only [OrdD.time, OrdD.fromCompare, OrdD.less]
    by_cases h1 : a.instant < b.instant
    · simp [h1]
    · by_cases h2 : b.instant < a.instant <;> simp [h1, h2]
  apply strictTotal_of
  · refine ⟨fun a => by simp [hl], fun a b c h1 h2 => ?_, fun a b c h1 h2 h3 h4 => ?_⟩
    · simp only [hl, decide_eq_true_eq] at *; omega
    · simp only [hl, decide_eq_false_iff_not] at *; omega
  · intro a b
    rw [hl]
    simp only [OrdD.time, OrdD.fromCompare, OrdD.compare, decide_eq_true_eq]
    by_cases h1 : a.instant < b.instant
    · have : ¬ b.instant < a.instant := by omega
      simp [h1, this]
    · by_cases h2 : b.instant < a.instant <;> simp [h1, h2]

theorem hnil_strictTotal : StrictTotal OrdD.hnil :=
  new_strictTotal
    { irrefl := fun _ => rfl, trans := fun _ _ _ h _ => by simp at h, incomp_trans := fun _ _ _ _ _ _ _ => ⟨rfl, rfl⟩ }
    (fun a b => by simp [EqD.given])

-- ============================================================================ user supplied functions

/-- `as.Ord(less)` : a `LessFunc` is a strict total order when `less` is a strict weak order. -/
theorem asOrd_strictTotal {less : α → α → Bool} (h : StrictWeak less) : StrictTotal (OrdD.asOrd less) :=
  lessFunc_strictTotal h

/-- a lawful three-way comparison -/
structure CmpLawful (cmp : α → α → Int) : Prop where
  weak : StrictWeak fun a b => decide (cmp a b < 0)
  antisymm : ∀ a b, 0 < cmp a b ↔ cmp b a < 0

/-- `ord.FromCompare(cmp)` -/
theorem fromCompare_strictTotal {cmp : α → α → Int} (h : CmpLawful cmp) : StrictTotal (OrdD.fromCompare cmp) :=
  strictTotal_of h.weak fun a b => by simp [OrdD.fromCompare, OrdD.compare, OrdD.less, h.antisymm]

/-- `ord.New(eqv, less)` : `less` a strict weak order and `eqv` its incomparability relation -/
theorem new_strictTotal_spec {eqv : EqD α} {less : α → α → Bool} (hsw : StrictWeak less)
    (heq : ∀ a b, eqv.eqv a b = true ↔ (less a b = false ∧ less b a = false)) :
    StrictTotal (OrdD.new eqv less) := new_strictTotal hsw heq

-- ============================================================================ combinators

/-- `ord.Tuple1` -/
theorem tuple1_strictTotal {o : OrdD α} (h : StrictTotal o) : StrictTotal (OrdD.tuple1 o) :=
  new_strictTotal (h.strictWeak.comap T1.i1) fun a b => h.eqv_iff a.i1 b.i1

theorem tuple1_less (o : OrdD α) (h : StrictTotal o) (a b : T1 α) : (OrdD.tuple1 o).less a b = o.less a.i1 b.i1 :=
  new_less (fun a b he => ((h.eqv_iff a.i1 b.i1).mp he).1) a b

theorem lex_heq {o : OrdD α} {p : OrdD τ} (h1 : StrictTotal o) (h2 : StrictTotal p) (a b : α × τ) :
    (o.eqv a.1 b.1 && p.eqv a.2 b.2) = true ↔
      (lexLess o.less p.less a b = false ∧ lexLess o.less p.less b a = false) := by
  have e1 := h1.eqv_iff a.1 b.1
  have e2 := h2.eqv_iff a.2 b.2
  simp only [lexLess, Bool.and_eq_true]
  cases x1 : o.less a.1 b.1 <;> cases x2 : o.less b.1 a.1 <;> cases x3 : p.less a.2 b.2 <;>
    cases x4 : p.less b.2 a.2 <;> simp_all

/-- `ord.TupleN` (N ≥ 2) -/
theorem tupleN_strictTotal {o : OrdD α} {p : OrdD τ} (h1 : StrictTotal o) (h2 : StrictTotal p) :
    StrictTotal (OrdD.tupleN o p) :=
  new_strictTotal (h1.strictWeak.lex h2.strictWeak) (lex_heq h1 h2)

/-- tuples compare lexicographically: by the first component, ties by the remaining ones -/
theorem tupleN_less_iff {o : OrdD α} {p : OrdD τ} (h1 : StrictTotal o) (h2 : StrictTotal p) (a b : α × τ) :
    (OrdD.tupleN o p).less a b = true ↔
      (o.less a.1 b.1 = true ∨ (o.eqv a.1 b.1 = true ∧ p.less a.2 b.2 = true)) := by
  have : (OrdD.tupleN o p).less a b = lexLess o.less p.less a b :=
    new_less (fun a b he => ((lex_heq h1 h2 a b).mp he).1) a b
  rw [this, h1.eqv_iff]
  simp only [lexLess]
  cases x1 : o.less a.1 b.1 <;> cases x2 : o.less b.1 a.1 <;> simp

theorem tupleN_eqv_iff {o : OrdD α} {p : OrdD τ} (h1 : StrictTotal o) (h2 : StrictTotal p) (a b : α × τ) :
    (OrdD.tupleN o p).eqv a b = true ↔ (o.eqv a.1 b.1 = true ∧ p.eqv a.2 b.2 = true) := by
  have e : OrdD.tupleN o p = OrdD.new (EqD.new fun a b => o.eqv a.1 b.1 && p.eqv a.2 b.2) (lexLess o.less p.less) := rfl
  rw [e, new_eqv (h1.strictWeak.lex h2.strictWeak) (lex_heq h1 h2)]
  simp [EqD.new]

/-- `ord.HCons` -/
theorem hcons_strictTotal {o : OrdD α} {p : OrdD τ} (h1 : StrictTotal o) (h2 : StrictTotal p) :
    StrictTotal (OrdD.hcons o p) :=
  new_strictTotal (h1.strictWeak.lex h2.strictWeak) (lex_heq h1 h2)

theorem hcons_less_iff {o : OrdD α} {p : OrdD τ} (h1 : StrictTotal o) (h2 : StrictTotal p) (a b : α × τ) :
    (OrdD.hcons o p).less a b = true ↔
      (o.less a.1 b.1 = true ∨ (o.eqv a.1 b.1 = true ∧ p.less a.2 b.2 = true)) := by
  have : (OrdD.hcons o p).less a b = lexLess o.less p.less a b :=
    new_less (fun a b he => ((lex_heq h1 h2 a b).mp he).1) a b
  rw [this, h1.eqv_iff]
  simp only [lexLess]
  cases x1 : o.less a.1 b.1 <;> cases x2 : o.less b.1 a.1 <;> simp

theorem option_lessFn (m : OrdD α) :
    (fun t1 t2 : Option α => if !t1.isSome && !t2.isSome then false else OrdD.map2OrElse t1 t2 m.less t1.isNone)
      = optLess m.less := by
  funext t1 t2
  cases t1 <;> cases t2 <;> simp [OrdD.map2OrElse, optLess]

/-- `ord.Option` : `None` first, then by content -/
theorem option_strictTotal {m : OrdD α} (h : StrictTotal m) : StrictTotal (OrdD.option m) := by
  unfold OrdD.option
  rw [option_lessFn]
  exact lessFunc_strictTotal h.strictWeak.opt

theorem option_less (m : OrdD α) (a b : Option α) : (OrdD.option m).less a b = optLess m.less a b := by
  unfold OrdD.option
  rw [option_lessFn]
  rfl

theorem ptr_eq (o : Unit → OrdD α) :
    OrdD.ptr o = OrdD.new (EqD.ptr fun _ => (o ()).toEq)
      (fun a b => optLess (o ()).less (a.map Ref.val) (b.map Ref.val)) := by
  unfold OrdD.ptr
  congr
  funext a b
  cases a <;> cases b <;> rfl

theorem ptr_heq {o : Unit → OrdD α} (h : StrictTotal (o ())) (a b : Ptr α) :
    (EqD.ptr fun _ => (o ()).toEq).eqv a b = true ↔
      (optLess (o ()).less (a.map Ref.val) (b.map Ref.val) = false ∧
       optLess (o ()).less (b.map Ref.val) (a.map Ref.val) = false) := by
  have := h.eqv_iff
  cases a <;> cases b <;> simp [EqD.ptr, EqD.new, optLess, OrdD.toEq, this]

/-- `ord.Ptr` : nil first, then by target (the pointer identity plays no role) -/
theorem ptr_strictTotal {o : Unit → OrdD α} (h : StrictTotal (o ())) : StrictTotal (OrdD.ptr o) := by
  rw [ptr_eq]
  exact new_strictTotal (h.strictWeak.opt.comap fun a : Ptr α => a.map Ref.val) (ptr_heq h)

theorem ptr_less (o : Unit → OrdD α) (h : StrictTotal (o ())) (a b : Ptr α) :
    (OrdD.ptr o).less a b = optLess (o ()).less (a.map Ref.val) (b.map Ref.val) := by
  rw [ptr_eq]
  exact new_less (fun a b he => ((ptr_heq h a b).mp he).1) a b

theorem pointwise_congr {R S : α → α → Prop} (h : ∀ a b, R a b ↔ S a b) {a b : List α} :
    Pointwise R a b ↔ Pointwise S a b := by
  constructor <;> intro hp
  · induction hp with
    | nil => exact .nil
    | cons h1 _ ih => exact .cons ((h _ _).mp h1) ih
  · induction hp with
    | nil => exact .nil
    | cons h1 _ ih => exact .cons ((h _ _).mpr h1) ih

theorem seq_heq {o : OrdD α} (h : StrictTotal o) (a b : List α) :
    (EqD.seq o.toEq).eqv a b = true ↔ (OrdD.seqLess o a b = false ∧ OrdD.seqLess o b a = false) := by
  rw [FpVerif.TC.seq_eqv_iff, seqLess_incomp_iff h.strictWeak]
  exact pointwise_congr fun x y => h.eqv_iff x y

/-- `ord.Seq` (as the property demands it) -/
theorem seq_strictTotal {o : OrdD α} (h : StrictTotal o) : StrictTotal (OrdD.seq o) :=
  new_strictTotal h.strictWeak.seq (seq_heq h)

theorem seq_less (o : OrdD α) (h : StrictTotal o) (a b : List α) : (OrdD.seq o).less a b = OrdD.seqLess o a b :=
  new_less (fun a b he => ((seq_heq h a b).mp he).1) a b

/-- sequences compare lexicographically: the first position with non-equivalent elements decides;
    if there is none, the shorter sequence comes first. -/
theorem seq_less_iff {o : OrdD α} (h : StrictTotal o) :
    (∀ ys : List α, (OrdD.seq o).less [] ys = true ↔ ys ≠ []) ∧
    (∀ xs : List α, (OrdD.seq o).less xs [] = false) ∧
    (∀ (x y : α) (xs ys : List α), (OrdD.seq o).less (x :: xs) (y :: ys) = true ↔
      (o.less x y = true ∨ (o.eqv x y = true ∧ (OrdD.seq o).less xs ys = true))) := by
  refine ⟨fun ys => ?_, fun xs => ?_, fun x y xs ys => ?_⟩
  · rw [seq_less o h, seqLess_nil_left]; cases ys <;> simp
  · rw [seq_less o h, seqLess_nil_right]
  · rw [seq_less o h, seq_less o h, seqLess_cons, h.eqv_iff]
    cases x1 : o.less x y <;> cases x2 : o.less y x <;> simp

theorem seq_eqv_iff {o : OrdD α} (h : StrictTotal o) (a b : List α) :
    (OrdD.seq o).eqv a b = true ↔ Pointwise (fun x y => o.eqv x y = true) a b := by
  rw [OrdD.seq, new_eqv h.strictWeak.seq (seq_heq h), FpVerif.TC.seq_eqv_iff]
  rfl

/-- `ord.ContraMap` : the order of the images -/
theorem contraMap_strictTotal {o : OrdD β} (h : StrictTotal o) (fn : α → β) : StrictTotal (OrdD.contraMap o fn) :=
  new_strictTotal (h.strictWeak.comap fn) fun a b => h.eqv_iff (fn a) (fn b)

theorem contraMap_less (o : OrdD β) (h : StrictTotal o) (fn : α → β) (a b : α) :
    (OrdD.contraMap o fn).less a b = o.less (fn a) (fn b) :=
  new_less (fun a b he => ((h.eqv_iff (fn a) (fn b)).mp he).1) a b

/-- `ord.Slice` -/
theorem slice_strictTotal {o : OrdD α} (h : StrictTotal o) : StrictTotal (OrdD.slice o) :=
  contraMap_strictTotal (seq_strictTotal h) id

/-- `ord.GivenField` -/
theorem givenField_strictTotal [LT β] [DecidableRel (α := β) (· < ·)] (h : LinearLT β) (getter : α → β) :
    StrictTotal (OrdD.givenField getter) :=
  contraMap_strictTotal (given_strictTotal h) getter

/-- the `Less` of `ThenComparing` : first order, ties (first order's `Eqv`) by the second -/
theorem thenComparing_compare (o p : OrdD α) (a b : α) :
    (o.thenComparing p).compare a b = if o.compare a b = 0 then p.compare a b else o.compare a b := by
  show (if (o.compare a b == 0) = true then p.compare a b else o.compare a b) = _
  by_cases h : o.compare a b = 0 <;> simp [h]

theorem thenComparing_less_iff {o p : OrdD α} (h1 : StrictTotal o) (a b : α) :
    (o.thenComparing p).less a b = true ↔ (o.less a b = true ∨ (o.eqv a b = true ∧ p.less a b = true)) := by
  rw [← OrdD.compare_neg_iff, thenComparing_compare]
  have hn := h1.compare_neg a b
  have hz := h1.compare_zero a b
  have hp := p.compare_neg_iff a b
  by_cases c0 : o.compare a b = 0
  · have : ¬ o.compare a b < 0 := by omega
    have hl : ¬ o.less a b = true := fun hx => this (hn.mpr hx)
    simp only [c0, ↓reduceIte, hp]
    simp [hz.mp c0, hl]
  · have : ¬ o.eqv a b = true := fun he => c0 (hz.mpr he)
    simp [c0, hn, this]

/-- `ThenComparing` only breaks ties: where the first order decides, the second is not consulted -/
theorem thenComparing_of_less {o p : OrdD α} (h1 : StrictTotal o) (a b : α) (h : o.less a b = true) :
    (o.thenComparing p).less a b = true ∧ (o.thenComparing p).less b a = false := by
  constructor
  · exact (thenComparing_less_iff h1 a b).mpr (Or.inl h)
  · have hsw := h1.strictWeak
    cases hx : (o.thenComparing p).less b a with
    | false => rfl
    | true =>
      rcases (thenComparing_less_iff h1 b a).mp hx with h2 | ⟨h2, _⟩
      · have := hsw.asymm a b h; simp [h2] at this
      · have := ((h1.eqv_iff b a).mp h2).2; simp [h] at this

theorem thenComparing_strictTotal {o p : OrdD α} (h1 : StrictTotal o) (h2 : StrictTotal p) :
    StrictTotal (o.thenComparing p) := by
  have hl : (o.thenComparing p).less = fun a b => lexLess o.less p.less (a, a) (b, b) := by
    funext a b
    have := thenComparing_less_iff (p := p) h1 a b
    have e := h1.eqv_iff a b
    simp only [lexLess]
    cases x : (o.thenComparing p).less a b <;> cases x1 : o.less a b <;> cases x2 : o.less b a <;>
      cases x3 : p.less a b <;> simp_all
  apply strictTotal_of
  · rw [hl]
    exact (h1.strictWeak.lex h2.strictWeak).comap fun a => (a, a)
  · intro a b
    rw [thenComparing_less_iff h1 b a, thenComparing_compare]
    have hp1 := h1.compare_pos a b
    have hz := h1.compare_zero a b
    have hp2 := h2.compare_pos a b
    by_cases c0 : o.compare a b = 0
    · have he := hz.mp c0
      have : o.less b a = false := ((h1.eqv_iff a b).mp he).2
      simp [c0, hp2, this, h1.eqv_symm a b he]
    · have : ¬ o.eqv b a = true := fun he => c0 (hz.mpr (h1.eqv_symm b a he))
      simp [c0, hp1, this]

/-- `Reversed` after the session-6 fix: `CompareFunc.Reversed` compares the SWAPPED operands (`r.Compare(b, a)`); it does not negate
    the result any more (in Go `-math.MinInt == math.MinInt`; the model's `Int` is unbounded, which is why the old theorem
    `reversed.compare a b = - compare a b` was true of the model and false of the code - audit finding 8).  `LessFunc.Reversed`
    still negates: its `Compare` is -1 / 0 / 1. -/
theorem reversed_compare_compareFunc (r : α → α → Int) (a b : α) :
    (OrdD.compareFunc r).reversed.compare a b = r b a := rfl

theorem reversed_compare_lessFunc (r : α → α → Bool) (a b : α) :
    (OrdD.lessFunc r).reversed.compare a b = - (OrdD.lessFunc r).compare a b := rfl

/-- the sign-level statement that holds for both constructors: the reversed comparison is negative exactly when the original
    comparison OF THE SWAPPED OPERANDS is negative -/
theorem reversed_compare_neg (o : OrdD α) (a b : α) (h : StrictTotal o) :
    o.reversed.compare a b < 0 ↔ o.compare b a < 0 := by
  cases o with
  | compareFunc r => exact Iff.rfl
  | lessFunc r =>
    rw [reversed_compare_lessFunc]
    have h1 := h.compare_pos a b
    have h2 := h.compare_neg b a
    constructor
    · intro hc; exact h2.mpr (h1.mp (by omega))
    · intro hc; have := h1.mpr (h2.mp hc); omega

theorem reversed_less (o : OrdD α) (a b : α) (h : StrictTotal o) : o.reversed.less a b = o.less b a := by
  have h1 := o.reversed.compare_neg_iff a b
  have h2 := h.compare_neg b a
  have h3 := reversed_compare_neg o a b h
  cases hx : o.less b a with
  | true => exact h1.mp (h3.mpr (h2.mpr hx))
  | false =>
    cases hy : o.reversed.less a b with
    | false => rfl
    | true =>
      have := h2.mp (h3.mp (h1.mpr hy))
      simp [hx] at this

/-- `Reversed` keeps the equivalence (for a strict total order: `Eqv` is symmetric) -/
theorem reversed_eqv (o : OrdD α) (a b : α) (h : StrictTotal o) : o.reversed.eqv a b = o.eqv a b := by
  cases o with
  | compareFunc r =>
    show (r b a == 0) = (r a b == 0)
    cases hab : (r a b == 0) with
    | true => exact h.eqv_symm a b hab
    | false =>
      cases hba : (r b a == 0) with
      | false => rfl
      | true => have := h.eqv_symm b a hba; simp [OrdD.eqv, OrdD.compare] at this; simp [this] at hab
  | lessFunc r =>
    show (- (OrdD.lessFunc r).compare a b == 0) = ((OrdD.lessFunc r).compare a b == 0)
    by_cases hz : (OrdD.lessFunc r).compare a b = 0
    · rw [hz]; rfl
    · have h' : ¬ (- (OrdD.lessFunc r).compare a b = 0) := by omega
      rw [beq_eq_false_iff_ne.mpr hz, beq_eq_false_iff_ne.mpr h']

/-- the positive counterpart of `reversed_compare_neg` -/
theorem reversed_compare_pos (o : OrdD α) (a b : α) (h : StrictTotal o) :
    0 < o.reversed.compare a b ↔ 0 < o.compare b a := by
  cases o with
  | compareFunc r => exact Iff.rfl
  | lessFunc r =>
    rw [reversed_compare_lessFunc]
    have h1 := h.compare_neg a b
    have h2 := h.compare_pos b a
    constructor
    · intro hc; exact h2.mpr (h1.mp (by omega))
    · intro hc; have := h1.mpr (h2.mp hc); omega

theorem reversed_strictTotal {o : OrdD α} (h : StrictTotal o) : StrictTotal o.reversed := by
  have hl : o.reversed.less = fun a b => o.less b a := by
    funext a b; exact reversed_less o a b h
  apply strictTotal_of
  · rw [hl]; exact h.strictWeak.flip
  · intro a b
    rw [hl]
    show 0 < o.reversed.compare a b ↔ o.less a b = true
    have h2 := h.compare_pos b a
    have h3 := reversed_compare_pos o a b h
    constructor
    · intro hc; exact h2.mp (h3.mp hc)
    · intro hc; exact h3.mpr (h2.mpr hc)

/-- the Go-level reason for the fix, as a statement about machine integers: negation does not reverse the sign of `Int64`'s
    least value, swapping the operands needs no negation at all -/
theorem int64_neg_min : -(Int64.minValue) = Int64.minValue := by decide

-- ============================================================================ every instance expression

/-- Typed instance expressions of package ord (+ `as.Ord`, `ThenComparing`, `Reversed`). User supplied
    functions come with the evidence that they are orders. -/
inductive OInst : Type → Type 1 where
  | givenInt : OInst Int
  | givenInt64 : OInst Int64
  | givenString : OInst String
  | time : OInst TimeV
  | hnil : OInst Unit
  | tuple1 {α : Type} (i : OInst α) : OInst (T1 α)
  | tupleN {α τ : Type} (i : OInst α) (rest : OInst τ) : OInst (α × τ)
  | option {α : Type} (i : OInst α) : OInst (Option α)
  | seq {α : Type} (i : OInst α) : OInst (List α)
  | slice {α : Type} (i : OInst α) : OInst (List α)
  | hcons {α τ : Type} (h : OInst α) (t : OInst τ) : OInst (α × τ)
  | ptr {α : Type} (i : OInst α) : OInst (Ptr α)
  | contraMap {α β : Type} (i : OInst β) (fn : α → β) : OInst α
  | givenFieldInt64 {α : Type} (getter : α → Int64) : OInst α
  | givenFieldString {α : Type} (getter : α → String) : OInst α
  | asOrd {α : Type} (less : α → α → Bool) (h : StrictWeak less) : OInst α
  | fromCompare {α : Type} (cmp : α → α → Int) (h : CmpLawful cmp) : OInst α
  | new {α : Type} (eqv : EqD α) (less : α → α → Bool) (hsw : StrictWeak less)
      (heq : ∀ a b, eqv.eqv a b = true ↔ (less a b = false ∧ less b a = false)) : OInst α
  | thenComparing {α : Type} (i j : OInst α) : OInst α
  | reversed {α : Type} (i : OInst α) : OInst α

def OInst.denote : {α : Type} → OInst α → OrdD α
  | _, .givenInt => OrdD.given
  | _, .givenInt64 => OrdD.given
  | _, .givenString => OrdD.given
  | _, .time => OrdD.time
  | _, .hnil => OrdD.hnil
  | _, .tuple1 i => OrdD.tuple1 i.denote
  | _, .tupleN i rest => OrdD.tupleN i.denote rest.denote
  | _, .option i => OrdD.option i.denote
  | _, .seq i => OrdD.seq i.denote
  | _, .slice i => OrdD.slice i.denote
  | _, .hcons h t => OrdD.hcons h.denote t.denote
  | _, .ptr i => OrdD.ptr fun _ => i.denote
  | _, .contraMap i fn => OrdD.contraMap i.denote fn
  | _, .givenFieldInt64 g => OrdD.givenField g
  | _, .givenFieldString g => OrdD.givenField g
  | _, .asOrd less _ => OrdD.asOrd less
  | _, .fromCompare cmp _ => OrdD.fromCompare cmp
  | _, .new eqv less _ _ => OrdD.new eqv less
  | _, .thenComparing i j => i.denote.thenComparing j.denote
  | _, .reversed i => i.denote.reversed

/-- Every Ord instance expression is a strict total order. -/
theorem oinst_strictTotal : ∀ {α : Type} (i : OInst α), StrictTotal i.denote
  | _, .givenInt => given_strictTotal linearLT_int
  | _, .givenInt64 => given_strictTotal linearLT_int64
  | _, .givenString => given_strictTotal linearLT_string
  | _, .time => time_strictTotal
  | _, .hnil => hnil_strictTotal
  | _, .tuple1 i => tuple1_strictTotal (oinst_strictTotal i)
  | _, .tupleN i rest => tupleN_strictTotal (oinst_strictTotal i) (oinst_strictTotal rest)
  | _, .option i => option_strictTotal (oinst_strictTotal i)
  | _, .seq i => seq_strictTotal (oinst_strictTotal i)
  | _, .slice i => slice_strictTotal (oinst_strictTotal i)
  | _, .hcons h t => hcons_strictTotal (oinst_strictTotal h) (oinst_strictTotal t)
  | _, .ptr i => ptr_strictTotal (oinst_strictTotal i)
  | _, .contraMap i fn => contraMap_strictTotal (oinst_strictTotal i) fn
  | _, .givenFieldInt64 g => givenField_strictTotal linearLT_int64 g
  | _, .givenFieldString g => givenField_strictTotal linearLT_string g
  | _, .asOrd _ h => asOrd_strictTotal h
  | _, .fromCompare _ h => fromCompare_strictTotal h
  | _, .new _ _ hsw heq => new_strictTotal hsw heq
  | _, .thenComparing i j => thenComparing_strictTotal (oinst_strictTotal i) (oinst_strictTotal j)
  | _, .reversed i => reversed_strictTotal (oinst_strictTotal i)

/-- non-vacuity: a user supplied order that is not injective (residues mod 3) and a nested expression -/
example : StrictWeak fun a b : Int => decide (a % 3 < b % 3) :=
  (given_strictTotal linearLT_int).strictWeak.comap (fun a : Int => a % 3) |> fun h => by
    have e : (fun a b : Int => (OrdD.given : OrdD Int).less (a % 3) (b % 3)) = fun a b => decide (a % 3 < b % 3) := by
      funext a b
      have := given_less_iff linearLT_int (a % 3) (b % 3)
      by_cases hx : a % 3 < b % 3 <;> simp_all
    exact e ▸ h

example : StrictTotal (OrdD.tupleN (OrdD.given : OrdD Int64)
    (OrdD.tupleN (OrdD.seq (OrdD.option (OrdD.given : OrdD String))) (OrdD.tuple1 (OrdD.given : OrdD Int64).reversed))) :=
  oinst_strictTotal (.tupleN .givenInt64 (.tupleN (.seq (.option .givenString)) (.tuple1 (.reversed .givenInt64))))

-- ============================================================================ Sort / Min / Max

/-- What is assumed of the standard library's `sort.Sort`: handed a strict weak order it returns an
    ordered permutation. (An hypothesis of the theorems below, not an axiom.) -/
def SortSpec (impl : SortImpl α) : Prop :=
  ∀ (less : α → α → Bool), StrictWeak less → ∀ xs : List α,
    (impl less xs).Perm xs ∧ (impl less xs).Pairwise (fun a b => less b a = false)

/-- the hypothesis is satisfiable: merge sort -/
theorem sortSpec_mergeSort : SortSpec (fun less (xs : List α) => xs.mergeSort fun a b => !less b a) := by
  intro less h xs
  refine ⟨List.mergeSort_perm xs _, ?_⟩
  have := List.pairwise_mergeSort (le := fun a b => !less b a)
    (fun a b c h1 h2 => by
      simp only [Bool.not_eq_eq_eq_not, Bool.not_true] at h1 h2 ⊢
      exact h.neg_trans c b a h2 h1)
    (fun a b => by
      cases hab : less a b with
      | false => simp
      | true => simp [h.asymm a b hab]) xs
  exact this.imp fun hx => by simpa using hx

/-- `seq.Sort`, `iterator.Sort`, `list.Sort` return a permutation of the input in which no element
    is `Less` than an earlier one; the result depends on the instance only through `Less`. -/
theorem seqSort_spec {impl : SortImpl α} (hs : SortSpec impl) {o : OrdD α} (ho : StrictTotal o) (r : List α) :
    (seqSort impl r o).Perm r ∧ (seqSort impl r o).Pairwise (fun a b => o.less b a = false) :=
  hs o.less ho.strictWeak r

theorem iteratorSort_spec {impl : SortImpl α} (hs : SortSpec impl) {o : OrdD α} (ho : StrictTotal o) (r : List α) :
    (iteratorSort impl r o).Perm r ∧ (iteratorSort impl r o).Pairwise (fun a b => o.less b a = false) :=
  hs o.less ho.strictWeak r

theorem listSort_spec {impl : SortImpl α} (hs : SortSpec impl) {o : OrdD α} (ho : StrictTotal o) (r : List α) :
    (listSort impl r o).Perm r ∧ (listSort impl r o).Pairwise (fun a b => o.less b a = false) :=
  hs o.less ho.strictWeak r

theorem sort_agree (impl : SortImpl α) (o : OrdD α) (r : List α) :
    seqSort impl r o = iteratorSort impl r o ∧ iteratorSort impl r o = listSort impl r o := ⟨rfl, rfl⟩

/-- invariant of the `Min` fold -/
def MinInv (o : OrdD α) (acc : Option α) (seen : List α) : Prop :=
  match acc with
  | none => seen = []
  | some m => m ∈ seen ∧ ∀ x ∈ seen, o.less x m = false

theorem foldl_minStep {o : OrdD α} (ho : StrictTotal o) (r : List α) :
    ∀ (acc : Option α) (seen : List α), MinInv o acc seen → MinInv o (r.foldl (minStep o) acc) (seen ++ r) := by
  have hsw := ho.strictWeak
  induction r with
  | nil => intro acc seen h; simpa using h
  | cons v vs ih =>
    intro acc seen h
    have : seen ++ v :: vs = (seen ++ [v]) ++ vs := by simp
    rw [List.foldl_cons, this]
    apply ih
    cases acc with
    | none =>
      simp only [MinInv] at h
      subst h
      simp [minStep, MinInv, hsw.irrefl]
    | some m =>
      simp only [MinInv] at h
      simp only [minStep]
      cases hmv : o.less m v with
      | true =>
        simp only [↓reduceIte, MinInv, List.mem_append, List.mem_singleton]
        refine ⟨Or.inl h.1, fun x hx => ?_⟩
        rcases hx with hx | hx
        · exact h.2 x hx
        · subst hx; exact hsw.asymm m x hmv
      | false =>
        simp only [Bool.false_eq_true, ↓reduceIte, MinInv, List.mem_append, List.mem_singleton]
        refine ⟨Or.inr trivial, fun x hx => ?_⟩
        rcases hx with hx | hx
        · exact hsw.neg_trans x m v (h.2 x hx) hmv
        · subst hx; exact hsw.irrefl x

/-- `Min` (Seq, Iterator, List): `None` exactly for the empty input, otherwise an element of the
    input that no element is `Less` than. -/
theorem foldMin_spec {o : OrdD α} (ho : StrictTotal o) (r : List α) :
    match foldMin r o with
    | none => r = []
    | some m => m ∈ r ∧ ∀ x ∈ r, o.less x m = false := by
  have := foldl_minStep ho r none [] rfl
  simpa [MinInv, foldMin] using this

def MaxInv (o : OrdD α) (acc : Option α) (seen : List α) : Prop :=
  match acc with
  | none => seen = []
  | some m => m ∈ seen ∧ ∀ x ∈ seen, o.less m x = false

theorem foldl_maxStep {o : OrdD α} (ho : StrictTotal o) (r : List α) :
    ∀ (acc : Option α) (seen : List α), MaxInv o acc seen → MaxInv o (r.foldl (maxStep o) acc) (seen ++ r) := by
  have hsw := ho.strictWeak
  induction r with
  | nil => intro acc seen h; simpa using h
  | cons v vs ih =>
    intro acc seen h
    have : seen ++ v :: vs = (seen ++ [v]) ++ vs := by simp
    rw [List.foldl_cons, this]
    apply ih
    cases acc with
    | none =>
      simp only [MaxInv] at h
      subst h
      simp [maxStep, MaxInv, hsw.irrefl]
    | some m =>
      simp only [MaxInv] at h
      simp only [maxStep]
      cases hmv : o.less v m with
      | true =>
        simp only [↓reduceIte, MaxInv, List.mem_append, List.mem_singleton]
        refine ⟨Or.inl h.1, fun x hx => ?_⟩
        rcases hx with hx | hx
        · exact h.2 x hx
        · subst hx; exact hsw.asymm x m hmv
      | false =>
        simp only [Bool.false_eq_true, ↓reduceIte, MaxInv, List.mem_append, List.mem_singleton]
        refine ⟨Or.inr trivial, fun x hx => ?_⟩
        rcases hx with hx | hx
        · exact hsw.neg_trans v m x hmv (h.2 x hx)
        · subst hx; exact hsw.irrefl x

theorem foldMax_spec {o : OrdD α} (ho : StrictTotal o) (r : List α) :
    match foldMax r o with
    | none => r = []
    | some m => m ∈ r ∧ ∀ x ∈ r, o.less m x = false := by
  have := foldl_maxStep ho r none [] rfl
  simpa [MaxInv, foldMax] using this

-- ============================================================================ the library as it stands

/-- D7: `ord.Seq` as written has no `if ord.Less(b[i], a[i]) { return false }` in its loop, so a later
    position can overrule an earlier one: `[2,1] < [1,2]` and `[1,2] < [2,1]` both hold. -/
theorem seqAsIs_not_antisymmetric :
    (OrdD.seqAsIs (OrdD.given : OrdD Int)).less [2, 1] [1, 2] = true ∧
    (OrdD.seqAsIs (OrdD.given : OrdD Int)).less [1, 2] [2, 1] = true := by decide

theorem seqAsIs_not_strictTotal : ¬ StrictTotal (OrdD.seqAsIs (OrdD.given : OrdD Int)) := fun h => by
  have := h.strictWeak.asymm [2, 1] [1, 2] seqAsIs_not_antisymmetric.1
  simp [seqAsIs_not_antisymmetric.2] at this

end FpVerif.Spec.C10
