import FpVerif.Model.MonadFamily
/-!
# C01 (part 1) — the generated monad family equals its definition in terms of FlatMap and Pure

For ANY package whose `FlatMap`/`Pure` satisfy `MonadOps.Lawful` (instances: `Spec/C01Inst.lean`),
every derived combinator of `X_monad.go` / `X_traverse.go` equals its normal form written with
`flatMap`, `pure'` and `seq` only: operands are run left to right, each user callback exactly once,
nothing dropped or duplicated.  All values and callbacks (arbitrary effectful `GoM` functions) are
universally quantified; arities are handled generically (operand lists of any length).
Termination: every definition in `Model/MonadFamily.lean` is accepted by Lean as total.
-/
namespace FpVerif.Spec.C01
open FpVerif MonadFamily

variable {C : Type → Type} (o : MonadOps C)
variable {A B D R : Type}

/-- Map(m,f) = FlatMap(m, unit ∘ f) -/
theorem map_def (m : C A) (f : A → GoM R) :
    map o m f = o.flatMap m (fun a => o.seq (f a) o.pure') := rfl

theorem flatten_def (tta : C (C A)) : flatten o tta = o.flatMap tta id := rfl

theorem replace_def (L : o.Lawful) (s : C A) (b : R) : replace o s b = o.flatMap s (fun _ => o.pure' b) := by
  simp [replace, map, lift, L.seq_pure]

theorem map2_def (first : C A) (second : C B) (fab : A → B → GoM R) :
    map2 o first second fab
      = o.flatMap first (fun a => o.flatMap second (fun b => o.seq (fab a b) o.pure')) := rfl

theorem zip_def (L : o.Lawful) (first : C A) (second : C B) :
    zip o first second = o.flatMap first (fun a => o.flatMap second (fun b => o.pure' (a, b))) := by
  simp [zip, map2, map, lift, L.seq_pure]

theorem ap_def (tfab : C (A → GoM B)) (ta : C A) :
    ap o tfab ta = o.flatMap tfab (fun fab => o.flatMap ta (fun a => o.seq (fab a) o.pure')) := rfl

theorem apFunc_def (tfab : C (A → GoM B)) (ta : Unit → C A) :
    apFunc o tfab ta = o.flatMap tfab (fun fab => o.flatMap (ta ()) (fun a => o.seq (fab a) o.pure')) := rfl

theorem liftA2_def (fab : A → B → GoM R) (a : C A) (b : C B) :
    liftA2 o fab a b = map2 o a b fab := rfl

/-- LiftM(f)(ta) = FlatMap(ta, f): the Pure/Flatten round trip inside the template cancels. -/
theorem liftM_def (L : o.Lawful) (fa : A → C R) (ta : C A) : liftM o fa ta = o.flatMap ta fa := by
  simp [MonadFamily.liftM, flatten, L.assoc, L.left_id]

theorem liftM2_def (L : o.Lawful) (fab : A → B → C R) (a : C A) (b : C B) :
    liftM2 o fab a b = o.flatMap a (fun x => o.flatMap b (fun y => fab x y)) := by
  simp [liftM2, flatten, L.assoc, L.left_id]

theorem flatMap2_def (L : o.Lawful) (a : C A) (b : C B) (fab : A → B → C R) :
    flatMap2 o a b fab = o.flatMap a (fun x => o.flatMap b (fun y => fab x y)) :=
  liftM2_def o L fab a b

theorem flap_def (L : o.Lawful) (tfa : C (A → GoM R)) (a : A) :
    flap o tfa a = o.flatMap tfa (fun f => o.seq (f a) o.pure') := by
  simp [flap, ap, map, lift, L.left_id]

theorem flap2_def (L : o.Lawful) (tf : C (A → GoM (B → GoM R))) (a : A) (b : B) :
    flap2 o tf a b = o.flatMap tf (fun f => o.seq (f a) (fun g => o.seq (g b) o.pure')) := by
  simp [flap2, flap, ap, map, lift, L.left_id, L.assoc, L.flatMap_seq]

theorem flapMap_def (L : o.Lawful) (f : A → B → GoM R) (a : C A) (b : B) :
    flapMap o f a b = o.flatMap a (fun x => o.seq (f x b) o.pure') := by
  simp [flapMap, flap, ap, map, lift, L.left_id, L.assoc, L.seq_pure]

theorem method1_def (L : o.Lawful) (ta : C A) (f : A → B → GoM R) (b : B) :
    method1 o ta f b = o.flatMap ta (fun x => o.seq (f x b) o.pure') :=
  flapMap_def o L f ta b

theorem method2_def (L : o.Lawful) (ta : C A) (f : A → B → D → GoM R) (b : B) (c : D) :
    method2 o ta f b c = o.flatMap ta (fun x => o.seq (f x b c) o.pure') := by
  simp [method2, flap2, flap, ap, map, lift, L.left_id, L.assoc, L.seq_pure, L.flatMap_seq]

theorem flatFlapMap_def (L : o.Lawful) (f : A → B → C R) (ta : C A) (b : B) :
    flatFlapMap o f ta b = o.flatMap ta (fun x => f x b) := by
  simp [flatFlapMap, flatten, L.left_id, L.assoc]

theorem flatMethod1_def (L : o.Lawful) (ta : C A) (f : A → B → C R) (b : B) :
    flatMethod1 o ta f b = o.flatMap ta (fun x => f x b) := flatFlapMap_def o L f ta b

theorem flatMethod2_def (L : o.Lawful) (ta : C A) (f : A → B → D → C R) (b : B) (c : D) :
    flatMethod2 o ta f b c = o.flatMap ta (fun x => f x b c) := by
  simp [flatMethod2, flatten, L.left_id, L.assoc]

theorem with_def (L : o.Lawful) (withf : A → B → GoM A) (v : C B) (a : A) :
    with_ o withf v a = o.flatMap v (fun b => o.seq (withf a b) o.pure') := by
  simp [with_, flap, ap, map, lift, L.left_id, L.assoc, L.seq_pure]

theorem unzip_def (L : o.Lawful) (t : C (A × B)) :
    unzip o t = (o.flatMap t (fun p => o.pure' p.1), o.flatMap t (fun p => o.pure' p.2)) := by
  simp [unzip, map, lift, L.seq_pure]

theorem compose_def (f1 : A → C B) (f2 : B → C D) (a : A) :
    compose o f1 f2 a = o.flatMap (f1 a) f2 := rfl

/-- Kleisli composition is associative (this is the monad associativity law in `Compose` form). -/
theorem compose_assoc {E : Type} (L : o.Lawful) (f1 : A → C B) (f2 : B → C D) (f3 : D → C E) :
    compose o (compose o f1 f2) f3 = compose o f1 (compose o f2 f3) := by
  funext a; simp only [compose, L.assoc]; rfl

-- every arity at once ----------------------------------------------------------------------------

/-- LiftAN / MapN / ZipN, any N: run the operands left to right, then call `f` once on their values. -/
theorem liftAList_def (ms : List (C A)) (f : List A → GoM R) :
    liftAList o ms f = bindAll o ms (fun xs => o.seq (f xs) o.pure') := by
  induction ms generalizing f with
  | nil => rfl
  | cons m ms ih => simp [liftAList, bindAll, ih]

/-- LiftMN / FlatMapN, any N. -/
theorem liftMList_def (ms : List (C A)) (f : List A → C R) :
    liftMList o ms f = bindAll o ms f := by
  induction ms generalizing f with
  | nil => rfl
  | cons m ms ih => simp [liftMList, bindAll, ih]

/-- the 2-operand instance of the generic definition is `Map2` (ties the list form to the code) -/
theorem liftAList_two (a b : C A) (f : List A → GoM R) :
    liftAList o [a, b] f = map2 o a b (fun x y => f [x, y]) := by
  simp [liftAList, map2, map, lift]

/-- apply a curried Go function to its arguments one after the other -/
def applyAll : (n : Nat) → (A → GoM (Cur A R n)) → List A → GoM (Option R)
  | 0, f, [a] => do let r ← f a; Pure.pure (some r)
  | n + 1, f, a :: as => do let g ← f a; applyAll n g as
  | _, _, _ => Pure.pure none

/-- FlapN, any N: unwrap the function once, then feed it the arguments in order. -/
theorem flapN_def (L : o.Lawful) (n : Nat) (tf : C (A → GoM (Cur A R n))) (args : List A)
    (h : args.length = n + 1) :
    flapN o n tf args = o.flatMap tf (fun f => o.seq (applyAll n f args) o.pure') := by
  induction n generalizing args with
  | zero =>
    match args, h with
    | [a], _ =>
      simp only [flapN, applyAll, ap, map, lift, L.left_id, L.seq_pure, L.seq_bind]
      rw [L.assoc]; congr 1; funext f
      rw [L.flatMap_seq]; congr 1; funext r
      rw [L.left_id]
  | succ n ih =>
    match args, h with
    | a :: as, h =>
      have h' : as.length = n + 1 := by simpa using h
      simp only [flapN, ih _ as h', applyAll, ap, map, lift, L.left_id, L.seq_bind]
      erw [L.assoc]; congr 1; funext f
      erw [L.flatMap_seq]; congr 1; funext g
      erw [L.left_id]

/-- ComposeN, any N: the chain is the left-to-right Kleisli composition. -/
theorem composeList_cons (f g : A → C A) (fs : List (A → C A)) (a : A) :
    composeList o (f :: g :: fs) a = o.flatMap (f a) (composeList o (g :: fs)) := rfl

theorem composeList_two (f g : A → C A) (a : A) :
    composeList o [f, g] a = o.flatMap (f a) g := rfl

/-- re-bracketing a chain does not change it (associativity, any lengths) -/
theorem composeList_append (L : o.Lawful) (fs gs : List (A → C A)) (hf : fs ≠ []) (hg : gs ≠ []) (a : A) :
    composeList o (fs ++ gs) a = o.flatMap (composeList o fs a) (composeList o gs) := by
  induction fs generalizing a with
  | nil => exact absurd rfl hf
  | cons f fs ih =>
    cases fs with
    | nil =>
      cases gs with
      | nil => exact absurd rfl hg
      | cons g gs => rfl
    | cons f' fs' =>
      simp only [List.cons_append, composeList, L.assoc]
      congr 1; funext b
      exact ih (by simp) b

-- traverse family ---------------------------------------------------------------------------------

theorem foldM_nil (z : B) (f : B → A → C B) : foldM o ([] : List A) z f = o.pure' z := rfl

/-- FoldM is the left-to-right chain of its steps. -/
theorem foldM_snoc (xs : List A) (x : A) (z : B) (f : B → A → C B) :
    foldM o (xs ++ [x]) z f = o.flatMap (foldM o xs z f) (fun b => f b x) := by
  simp [foldM, List.foldl_append]

theorem foldM_singleton (L : o.Lawful) (x : A) (z : B) (f : B → A → C B) :
    foldM o [x] z f = f z x := by
  simp [foldM, L.left_id]

/-- TraverseSeq / TraverseSlice / Traverse: elements are visited in order, results collected in order. -/
theorem traverseSeq_snoc (L : o.Lawful) (xs : List A) (x : A) (fa : A → C R) :
    traverseSeq o (foldM o) (xs ++ [x]) fa
      = o.flatMap (traverseSeq o (foldM o) xs fa) (fun acc => o.flatMap (fa x) (fun r => o.pure' (acc ++ [r]))) := by
  simp [traverseSeq, foldM_snoc, map, lift, L.seq_pure]

theorem sequence_snoc (L : o.Lawful) (ts : List (C A)) (t : C A) :
    sequenceSeq o (foldM o) (ts ++ [t])
      = o.flatMap (sequenceSeq o (foldM o) ts) (fun acc => o.flatMap t (fun r => o.pure' (acc ++ [r]))) := by
  simp [sequenceSeq, foldM_snoc, map, lift, L.seq_pure]

end FpVerif.Spec.C01
