import FpVerif.Gen.MonadGen
import FpVerif.Spec.C01Inst
import FpVerif.Spec.C02
import FpVerif.Spec.C17
/-!
# C01 / C02 / C14 / C17 — the generated monad function family, TRANSLATED from the source on every run

`FpVerif/Gen/MonadGen.lean` is produced by `harness/cmd/monad2lean` (a type-directed Go-AST → Lean translator for the
fragment the generated files are written in) from `option/option_monad.go`, `try/try_monad.go` (+ `try.Map` of
`try/try_op.go`), `either/either_monad.go`, `statet/state_monad.go` and the four `*_traverse.go` files of the working
tree: one Lean definition per Go function over the abstract signature `MonadOps C`, with the SAME structure as the Go
body (the same nesting of `FlatMap`, the same closures, calls of other family members by name — `Map` is a call of the
translated `Map`, not inlined; the pure helpers of fp / curried / product / xtr / iterator have the fixed readings of
`Model/MonadGenPrelude.lean`).  The four packages come from ONE template: the translator translates each package and emits
the common translation once; `divergent` lists every (package, function) that differs from it.

The theorems below — statements fixed here under version control — say, function by function, that the translated
definition IS the hand-written definition of `Model/MonadFamily.lean` about which `Spec/C01`, `C02`, `C14`, `C17` prove the
properties:

* for EVERY `MonadOps` (proof `rfl`: the kernel unfolds both sides) wherever the model mirrors the Go body;
* for every `o.Lawful` instance (hypothesis `L`, visible in the statement) where the Go code instantiates a plain-callback
  parameter with a monadic-result function (`LiftM = Flatten(Map(ta, fa))`, `LiftM2`, `FlatFlapMap`, `FlatMethod2`, and what
  is built on them): the translation wraps the callback's result with `Pure.pure` and runs it through `o.seq … o.pure'`,
  the model writes `o.pure'` directly; the two agree by `seq_pure` (the laws are proved for the four packages in
  `Spec/C01Inst`).

Arity families (`LiftA3..9`, `Map3..9`, `LiftM3..9`, `FlatMap3..9`, `Flap3..9`, `Method3..9`, `FlatMethod3..9`,
`Compose3..5`, `Zip3`): the model is arity-generic over operand LISTS; per arity found in the source there is
`<F>N_is_model` (the translated N-ary function on operands `m1 … mN` of one type is the list model on `[m1, …, mN]`; every
N-ary callback on one type is of the form `fun a1 … aN => f [a1, …, aN]`, see `nary_as_list3`) and `<F>N_def` (operands of
N DIFFERENT types: the flat left-to-right nest of `flatMap`s the property demands).

A swapped operand, a wrong nesting, a dropped `Flatten`, a supplier called at the wrong place, or an edit to only one of
the four packages changes the translated definitions (or `divergent`) and exactly the theorems about the touched
functions (and the functions built on them) stop checking.

Exception list (functions of the generated files NOT tied here): none.
-/
namespace FpVerif.Spec.C01Gen
open FpVerif FpVerif.MonadFamily FpVerif.MonadGenPrelude FpVerif.Gen

variable {C : Type → Type} (o : MonadOps C)
variable {A B D R : Type}

-- X_monad.go: the functions of fixed arity ----------------------------------------------------------------------------

theorem Flatten_is_model (tta : C (C A)) : MonadGen.Flatten o tta = flatten o tta := rfl

theorem Map_is_model (m : C A) (f : A → GoM R) : MonadGen.Map o m f = map o m f := rfl

theorem Replace_is_model (s : C A) (b : R) : MonadGen.Replace o s b = replace o s b := rfl

theorem Map2_is_model (first : C A) (second : C B) (fab : A → B → GoM R) :
    MonadGen.Map2 o first second fab = map2 o first second fab := rfl

theorem Zip_is_model (first : C A) (second : C B) : MonadGen.Zip o first second = zip o first second := rfl

theorem Ap_is_model (tfab : C (A → GoM B)) (ta : C A) : MonadGen.Ap o tfab ta = ap o tfab ta := rfl

theorem Compose_is_model (f1 : A → C B) (f2 : B → C D) : MonadGen.Compose o f1 f2 = compose o f1 f2 := rfl

theorem Compose2_is_model (f1 : A → C B) (f2 : B → C D) : MonadGen.Compose2 o f1 f2 = compose o f1 f2 := rfl

/-- the supplier `ta` is called inside the continuation of `tfab`, nowhere else -/
theorem ApFunc_is_model (tfab : C (A → GoM B)) (ta : Unit → C A) : MonadGen.ApFunc o tfab ta = apFunc o tfab ta := rfl

theorem MapSeqLift_is_model (ta : C (List A)) (f : A → GoM B) : MonadGen.MapSeqLift o ta f = mapSeqLift o ta f := rfl

theorem MapSliceLift_is_model (ta : C (List A)) (f : A → GoM B) : MonadGen.MapSliceLift o ta f = mapSeqLift o ta f := rfl

/-- `Lift(fa)(ta) = Map(ta, fa)` -/
theorem Lift_is_model (fa : A → GoM R) : MonadGen.Lift o fa = fun ta => map o ta fa := rfl

theorem LiftA2_is_model (fab : A → B → GoM R) : MonadGen.LiftA2 o fab = liftA2 o fab := rfl

/-- `LiftM(fa)(ta) = Flatten(Map(ta, fa))`: `Map`'s plain-callback parameter is instantiated with `fa`, whose result is
    monadic; for a lawful package this is the model's reading. -/
theorem LiftM_is_model (L : o.Lawful) (fa : A → C R) (ta : C A) : MonadGen.LiftM o fa ta = MonadFamily.liftM o fa ta := by
  rw [C01.liftM_def o L]
  simp only [MonadGen.LiftM, MonadGen.Map, MonadGen.Flatten, composeSeq_def, L.seq_pure, L.left_id, L.assoc]

theorem LiftM2_is_model (L : o.Lawful) (fab : A → B → C R) (a : C A) (b : C B) :
    MonadGen.LiftM2 o fab a b = liftM2 o fab a b := by
  rw [C01.liftM2_def o L]
  simp only [MonadGen.LiftM2, MonadGen.Map2, MonadGen.Map, MonadGen.Flatten, composeSeq_def, L.seq_pure, L.left_id, L.assoc]

theorem FlatMap2_is_model (L : o.Lawful) (first : C A) (second : C B) (fab : A → B → C R) :
    MonadGen.FlatMap2 o first second fab = flatMap2 o first second fab := LiftM2_is_model o L fab first second

theorem Flap_is_model (tfa : C (A → GoM R)) : MonadGen.Flap o tfa = flap o tfa := rfl

theorem Flap2_is_model (tfab : C (A → GoM (B → GoM R))) : MonadGen.Flap2 o tfab = flap2 o tfab := rfl

theorem FlapMap_is_model (tfab : A → B → GoM R) (a : C A) : MonadGen.FlapMap o tfab a = flapMap o tfab a := rfl

/-- `FlatFlapMap(fab, ta) = fp.Compose(FlapMap(fab, ta), Flatten)` with `FlapMap`'s `R := M[R]` -/
theorem FlatFlapMap_is_model (L : o.Lawful) (fab : A → B → C R) (ta : C A) (b : B) :
    MonadGen.FlatFlapMap o fab ta b = flatFlapMap o fab ta b := by
  rw [C01.flatFlapMap_def o L]
  simp only [MonadGen.FlatFlapMap, MonadGen.FlapMap, MonadGen.Flap, MonadGen.Ap, MonadGen.Map, MonadGen.Flatten,
    composeC_def, composeSeq_def, curriedFunc2_def, L.seq_pure, L.left_id, L.assoc]

theorem Method1_is_model (ta : C A) (fab : A → B → GoM R) : MonadGen.Method1 o ta fab = method1 o ta fab := rfl

theorem FlatMethod1_is_model (L : o.Lawful) (ta : C A) (fab : A → B → C R) (b : B) :
    MonadGen.FlatMethod1 o ta fab b = flatMethod1 o ta fab b := FlatFlapMap_is_model o L fab ta b

theorem Method2_is_model (ta : C A) (fabc : A → B → D → GoM R) : MonadGen.Method2 o ta fabc = method2 o ta fabc := rfl

/-- `FlatMethod2 = Revert2(Compose2(Flap2(Map(ta, Func3(fabc))), Flatten))` with `Func3`'s `R := M[R]` -/
theorem FlatMethod2_is_model (L : o.Lawful) (ta : C A) (fabc : A → B → D → C R) (b : B) (c : D) :
    MonadGen.FlatMethod2 o ta fabc b c = flatMethod2 o ta fabc b c := by
  rw [C01.flatMethod2_def o L]
  simp only [MonadGen.FlatMethod2, MonadGen.Flap2, MonadGen.Flap, MonadGen.Ap, MonadGen.Map, MonadGen.Flatten, revert2_def,
    curriedCompose2_def, curriedFunc3_def, composeSeq_def, L.seq_pure, L.left_id, L.assoc]

theorem UnZip_is_model (t : C (A × B)) : MonadGen.UnZip o t = unzip o t := rfl

theorem With_is_model (withf : A → B → GoM A) (v : C B) : MonadGen.With o withf v = with_ o withf v := rfl

/-- `Zip3(ta, tb, tc) = LiftA3(product.Tuple3)(ta, tb, tc)` -/
theorem Zip3_is_model (ta tb tc : C A) :
    MonadGen.Zip3 o ta tb tc
      = liftAList o [ta, tb, tc] (fun xs => match xs with | [a, b, c] => Pure.pure (a, b, c) | _ => throw "arity") := rfl

theorem Zip3_def (ta : C A) (tb : C B) (tc : C D) :
    MonadGen.Zip3 o ta tb tc
      = o.flatMap ta (fun a => o.flatMap tb (fun b => o.flatMap tc (fun c => o.seq (Pure.pure (a, b, c)) o.pure'))) := rfl

-- the members of small arity also are instances of the arity-generic list models -------------------------------------------

theorem Map_is_liftAList (f : List A → GoM R) (m1 : C A) :
    MonadGen.Map o m1 (fun a1 => f [a1]) = liftAList o [m1] f := rfl

theorem Map2_is_liftAList (f : List A → GoM R) (m1 m2 : C A) :
    MonadGen.Map2 o m1 m2 (fun a1 a2 => f [a1, a2]) = liftAList o [m1, m2] f := rfl

theorem LiftA2_is_liftAList (f : List A → GoM R) (m1 m2 : C A) :
    MonadGen.LiftA2 o (fun a1 a2 => f [a1, a2]) m1 m2 = liftAList o [m1, m2] f := rfl

theorem LiftM2_def (L : o.Lawful) (fab : A → B → C R) (a : C A) (b : C B) :
    MonadGen.LiftM2 o fab a b = o.flatMap a (fun x => o.flatMap b (fun y => fab x y)) :=
  (LiftM2_is_model o L fab a b).trans (C01.liftM2_def o L fab a b)

theorem LiftM2_is_liftMList (L : o.Lawful) (f : List A → C R) (m1 m2 : C A) :
    MonadGen.LiftM2 o (fun a1 a2 => f [a1, a2]) m1 m2 = liftMList o [m1, m2] f := by
  rw [LiftM2_def o L]; rfl

theorem Flap_is_flapN (tf : C (A → GoM R)) (a1 : A) :
    flapN o 0 tf [a1] = map o (MonadGen.Flap o tf a1) (fun r => Pure.pure (some r)) := rfl

theorem Flap2_is_flapN (tf : C (A → GoM (A → GoM R))) (a1 a2 : A) :
    flapN o 1 tf [a1, a2] = map o (MonadGen.Flap2 o tf a1 a2) (fun r => Pure.pure (some r)) := rfl

theorem Compose2_is_composeList (f1 f2 : A → C A) : MonadGen.Compose2 o f1 f2 = composeList o [f1, f2] := rfl

/-- every N-ary callback on one type is a function of the argument list (shown for N = 3; the other arities alike), so the
    `_is_model` statements below lose nothing -/
theorem nary_as_list3 (g : A → A → A → GoM R) :
    (fun a1 a2 a3 => (fun xs => match xs with | [x1, x2, x3] => g x1 x2 x3 | _ => throw "arity") [a1, a2, a3]) = g := rfl

-- LiftA3..9, Map3..9: run the operands left to right, then call f once ----------------------------------------
theorem LiftA3_is_model (f : List A → GoM R) (m1 m2 m3 : C A) :
    MonadGen.LiftA3 o (fun a1 a2 a3 => f [a1, a2, a3]) m1 m2 m3 = liftAList o [m1, m2, m3] f := rfl
theorem LiftA3_def {A1 A2 A3 : Type} (f : A1 → A2 → A3 → GoM R) (m1 : C A1) (m2 : C A2) (m3 : C A3) :
    MonadGen.LiftA3 o f m1 m2 m3
      = o.flatMap m1 (fun a1 => o.flatMap m2 (fun a2 => o.flatMap m3 (fun a3 => o.seq (f a1 a2 a3) o.pure'))) := rfl
theorem Map3_is_model (f : List A → GoM R) (m1 m2 m3 : C A) :
    MonadGen.Map3 o m1 m2 m3 (fun a1 a2 a3 => f [a1, a2, a3]) = liftAList o [m1, m2, m3] f := rfl
theorem Map3_def {A1 A2 A3 : Type} (f : A1 → A2 → A3 → GoM R) (m1 : C A1) (m2 : C A2) (m3 : C A3) :
    MonadGen.Map3 o m1 m2 m3 f
      = o.flatMap m1 (fun a1 => o.flatMap m2 (fun a2 => o.flatMap m3 (fun a3 => o.seq (f a1 a2 a3) o.pure'))) := rfl

theorem LiftA4_is_model (f : List A → GoM R) (m1 m2 m3 m4 : C A) :
    MonadGen.LiftA4 o (fun a1 a2 a3 a4 => f [a1, a2, a3, a4]) m1 m2 m3 m4 = liftAList o [m1, m2, m3, m4] f := rfl
theorem LiftA4_def {A1 A2 A3 A4 : Type} (f : A1 → A2 → A3 → A4 → GoM R) (m1 : C A1) (m2 : C A2) (m3 : C A3) (m4 : C A4) :
    MonadGen.LiftA4 o f m1 m2 m3 m4
      = o.flatMap m1 (fun a1 => o.flatMap m2 (fun a2 => o.flatMap m3 (fun a3 => o.flatMap m4 (fun a4 => o.seq (f a1 a2 a3 a4) o.pure')))) := rfl
theorem Map4_is_model (f : List A → GoM R) (m1 m2 m3 m4 : C A) :
    MonadGen.Map4 o m1 m2 m3 m4 (fun a1 a2 a3 a4 => f [a1, a2, a3, a4]) = liftAList o [m1, m2, m3, m4] f := rfl
theorem Map4_def {A1 A2 A3 A4 : Type} (f : A1 → A2 → A3 → A4 → GoM R) (m1 : C A1) (m2 : C A2) (m3 : C A3) (m4 : C A4) :
    MonadGen.Map4 o m1 m2 m3 m4 f
      = o.flatMap m1 (fun a1 => o.flatMap m2 (fun a2 => o.flatMap m3 (fun a3 => o.flatMap m4 (fun a4 => o.seq (f a1 a2 a3 a4) o.pure')))) := rfl

theorem LiftA5_is_model (f : List A → GoM R) (m1 m2 m3 m4 m5 : C A) :
    MonadGen.LiftA5 o (fun a1 a2 a3 a4 a5 => f [a1, a2, a3, a4, a5]) m1 m2 m3 m4 m5 = liftAList o [m1, m2, m3, m4, m5] f := rfl
theorem LiftA5_def {A1 A2 A3 A4 A5 : Type} (f : A1 → A2 → A3 → A4 → A5 → GoM R) (m1 : C A1) (m2 : C A2) (m3 : C A3) (m4 : C A4) (m5 : C A5) :
    MonadGen.LiftA5 o f m1 m2 m3 m4 m5
      = o.flatMap m1 (fun a1 => o.flatMap m2 (fun a2 => o.flatMap m3 (fun a3 => o.flatMap m4 (fun a4 => o.flatMap m5 (fun a5 => o.seq (f a1 a2 a3 a4 a5) o.pure'))))) := rfl
theorem Map5_is_model (f : List A → GoM R) (m1 m2 m3 m4 m5 : C A) :
    MonadGen.Map5 o m1 m2 m3 m4 m5 (fun a1 a2 a3 a4 a5 => f [a1, a2, a3, a4, a5]) = liftAList o [m1, m2, m3, m4, m5] f := rfl
theorem Map5_def {A1 A2 A3 A4 A5 : Type} (f : A1 → A2 → A3 → A4 → A5 → GoM R) (m1 : C A1) (m2 : C A2) (m3 : C A3) (m4 : C A4) (m5 : C A5) :
    MonadGen.Map5 o m1 m2 m3 m4 m5 f
      = o.flatMap m1 (fun a1 => o.flatMap m2 (fun a2 => o.flatMap m3 (fun a3 => o.flatMap m4 (fun a4 => o.flatMap m5 (fun a5 => o.seq (f a1 a2 a3 a4 a5) o.pure'))))) := rfl

theorem LiftA6_is_model (f : List A → GoM R) (m1 m2 m3 m4 m5 m6 : C A) :
    MonadGen.LiftA6 o (fun a1 a2 a3 a4 a5 a6 => f [a1, a2, a3, a4, a5, a6]) m1 m2 m3 m4 m5 m6 = liftAList o [m1, m2, m3, m4, m5, m6] f := rfl
theorem LiftA6_def {A1 A2 A3 A4 A5 A6 : Type} (f : A1 → A2 → A3 → A4 → A5 → A6 → GoM R) (m1 : C A1) (m2 : C A2) (m3 : C A3) (m4 : C A4) (m5 : C A5) (m6 : C A6) :
    MonadGen.LiftA6 o f m1 m2 m3 m4 m5 m6
      = o.flatMap m1 (fun a1 => o.flatMap m2 (fun a2 => o.flatMap m3 (fun a3 => o.flatMap m4 (fun a4 => o.flatMap m5 (fun a5 => o.flatMap m6 (fun a6 => o.seq (f a1 a2 a3 a4 a5 a6) o.pure')))))) := rfl
theorem Map6_is_model (f : List A → GoM R) (m1 m2 m3 m4 m5 m6 : C A) :
    MonadGen.Map6 o m1 m2 m3 m4 m5 m6 (fun a1 a2 a3 a4 a5 a6 => f [a1, a2, a3, a4, a5, a6]) = liftAList o [m1, m2, m3, m4, m5, m6] f := rfl
theorem Map6_def {A1 A2 A3 A4 A5 A6 : Type} (f : A1 → A2 → A3 → A4 → A5 → A6 → GoM R) (m1 : C A1) (m2 : C A2) (m3 : C A3) (m4 : C A4) (m5 : C A5) (m6 : C A6) :
    MonadGen.Map6 o m1 m2 m3 m4 m5 m6 f
      = o.flatMap m1 (fun a1 => o.flatMap m2 (fun a2 => o.flatMap m3 (fun a3 => o.flatMap m4 (fun a4 => o.flatMap m5 (fun a5 => o.flatMap m6 (fun a6 => o.seq (f a1 a2 a3 a4 a5 a6) o.pure')))))) := rfl

theorem LiftA7_is_model (f : List A → GoM R) (m1 m2 m3 m4 m5 m6 m7 : C A) :
    MonadGen.LiftA7 o (fun a1 a2 a3 a4 a5 a6 a7 => f [a1, a2, a3, a4, a5, a6, a7]) m1 m2 m3 m4 m5 m6 m7 = liftAList o [m1, m2, m3, m4, m5, m6, m7] f := rfl
theorem LiftA7_def {A1 A2 A3 A4 A5 A6 A7 : Type} (f : A1 → A2 → A3 → A4 → A5 → A6 → A7 → GoM R) (m1 : C A1) (m2 : C A2) (m3 : C A3) (m4 : C A4) (m5 : C A5) (m6 : C A6) (m7 : C A7) :
    MonadGen.LiftA7 o f m1 m2 m3 m4 m5 m6 m7
      = o.flatMap m1 (fun a1 => o.flatMap m2 (fun a2 => o.flatMap m3 (fun a3 => o.flatMap m4 (fun a4 => o.flatMap m5 (fun a5 => o.flatMap m6 (fun a6 => o.flatMap m7 (fun a7 => o.seq (f a1 a2 a3 a4 a5 a6 a7) o.pure'))))))) := rfl
theorem Map7_is_model (f : List A → GoM R) (m1 m2 m3 m4 m5 m6 m7 : C A) :
    MonadGen.Map7 o m1 m2 m3 m4 m5 m6 m7 (fun a1 a2 a3 a4 a5 a6 a7 => f [a1, a2, a3, a4, a5, a6, a7]) = liftAList o [m1, m2, m3, m4, m5, m6, m7] f := rfl
theorem Map7_def {A1 A2 A3 A4 A5 A6 A7 : Type} (f : A1 → A2 → A3 → A4 → A5 → A6 → A7 → GoM R) (m1 : C A1) (m2 : C A2) (m3 : C A3) (m4 : C A4) (m5 : C A5) (m6 : C A6) (m7 : C A7) :
    MonadGen.Map7 o m1 m2 m3 m4 m5 m6 m7 f
      = o.flatMap m1 (fun a1 => o.flatMap m2 (fun a2 => o.flatMap m3 (fun a3 => o.flatMap m4 (fun a4 => o.flatMap m5 (fun a5 => o.flatMap m6 (fun a6 => o.flatMap m7 (fun a7 => o.seq (f a1 a2 a3 a4 a5 a6 a7) o.pure'))))))) := rfl

theorem LiftA8_is_model (f : List A → GoM R) (m1 m2 m3 m4 m5 m6 m7 m8 : C A) :
    MonadGen.LiftA8 o (fun a1 a2 a3 a4 a5 a6 a7 a8 => f [a1, a2, a3, a4, a5, a6, a7, a8]) m1 m2 m3 m4 m5 m6 m7 m8 = liftAList o [m1, m2, m3, m4, m5, m6, m7, m8] f := rfl
theorem LiftA8_def {A1 A2 A3 A4 A5 A6 A7 A8 : Type} (f : A1 → A2 → A3 → A4 → A5 → A6 → A7 → A8 → GoM R) (m1 : C A1) (m2 : C A2) (m3 : C A3) (m4 : C A4) (m5 : C A5) (m6 : C A6) (m7 : C A7) (m8 : C A8) :
    MonadGen.LiftA8 o f m1 m2 m3 m4 m5 m6 m7 m8
      = o.flatMap m1 (fun a1 => o.flatMap m2 (fun a2 => o.flatMap m3 (fun a3 => o.flatMap m4 (fun a4 => o.flatMap m5 (fun a5 => o.flatMap m6 (fun a6 => o.flatMap m7 (fun a7 => o.flatMap m8 (fun a8 => o.seq (f a1 a2 a3 a4 a5 a6 a7 a8) o.pure')))))))) := rfl
theorem Map8_is_model (f : List A → GoM R) (m1 m2 m3 m4 m5 m6 m7 m8 : C A) :
    MonadGen.Map8 o m1 m2 m3 m4 m5 m6 m7 m8 (fun a1 a2 a3 a4 a5 a6 a7 a8 => f [a1, a2, a3, a4, a5, a6, a7, a8]) = liftAList o [m1, m2, m3, m4, m5, m6, m7, m8] f := rfl
theorem Map8_def {A1 A2 A3 A4 A5 A6 A7 A8 : Type} (f : A1 → A2 → A3 → A4 → A5 → A6 → A7 → A8 → GoM R) (m1 : C A1) (m2 : C A2) (m3 : C A3) (m4 : C A4) (m5 : C A5) (m6 : C A6) (m7 : C A7) (m8 : C A8) :
    MonadGen.Map8 o m1 m2 m3 m4 m5 m6 m7 m8 f
      = o.flatMap m1 (fun a1 => o.flatMap m2 (fun a2 => o.flatMap m3 (fun a3 => o.flatMap m4 (fun a4 => o.flatMap m5 (fun a5 => o.flatMap m6 (fun a6 => o.flatMap m7 (fun a7 => o.flatMap m8 (fun a8 => o.seq (f a1 a2 a3 a4 a5 a6 a7 a8) o.pure')))))))) := rfl

theorem LiftA9_is_model (f : List A → GoM R) (m1 m2 m3 m4 m5 m6 m7 m8 m9 : C A) :
    MonadGen.LiftA9 o (fun a1 a2 a3 a4 a5 a6 a7 a8 a9 => f [a1, a2, a3, a4, a5, a6, a7, a8, a9]) m1 m2 m3 m4 m5 m6 m7 m8 m9 = liftAList o [m1, m2, m3, m4, m5, m6, m7, m8, m9] f := rfl
theorem LiftA9_def {A1 A2 A3 A4 A5 A6 A7 A8 A9 : Type} (f : A1 → A2 → A3 → A4 → A5 → A6 → A7 → A8 → A9 → GoM R) (m1 : C A1) (m2 : C A2) (m3 : C A3) (m4 : C A4) (m5 : C A5) (m6 : C A6) (m7 : C A7) (m8 : C A8) (m9 : C A9) :
    MonadGen.LiftA9 o f m1 m2 m3 m4 m5 m6 m7 m8 m9
      = o.flatMap m1 (fun a1 => o.flatMap m2 (fun a2 => o.flatMap m3 (fun a3 => o.flatMap m4 (fun a4 => o.flatMap m5 (fun a5 => o.flatMap m6 (fun a6 => o.flatMap m7 (fun a7 => o.flatMap m8 (fun a8 => o.flatMap m9 (fun a9 => o.seq (f a1 a2 a3 a4 a5 a6 a7 a8 a9) o.pure'))))))))) := rfl
theorem Map9_is_model (f : List A → GoM R) (m1 m2 m3 m4 m5 m6 m7 m8 m9 : C A) :
    MonadGen.Map9 o m1 m2 m3 m4 m5 m6 m7 m8 m9 (fun a1 a2 a3 a4 a5 a6 a7 a8 a9 => f [a1, a2, a3, a4, a5, a6, a7, a8, a9]) = liftAList o [m1, m2, m3, m4, m5, m6, m7, m8, m9] f := rfl
theorem Map9_def {A1 A2 A3 A4 A5 A6 A7 A8 A9 : Type} (f : A1 → A2 → A3 → A4 → A5 → A6 → A7 → A8 → A9 → GoM R) (m1 : C A1) (m2 : C A2) (m3 : C A3) (m4 : C A4) (m5 : C A5) (m6 : C A6) (m7 : C A7) (m8 : C A8) (m9 : C A9) :
    MonadGen.Map9 o m1 m2 m3 m4 m5 m6 m7 m8 m9 f
      = o.flatMap m1 (fun a1 => o.flatMap m2 (fun a2 => o.flatMap m3 (fun a3 => o.flatMap m4 (fun a4 => o.flatMap m5 (fun a5 => o.flatMap m6 (fun a6 => o.flatMap m7 (fun a7 => o.flatMap m8 (fun a8 => o.flatMap m9 (fun a9 => o.seq (f a1 a2 a3 a4 a5 a6 a7 a8 a9) o.pure'))))))))) := rfl

-- LiftM3..9, FlatMap3..9 (built on LiftM2 = Flatten(Map2(…)): lawful packages) ------------------------------
theorem LiftM3_def (L : o.Lawful) {A1 A2 A3 : Type} (f : A1 → A2 → A3 → C R) (m1 : C A1) (m2 : C A2) (m3 : C A3) :
    MonadGen.LiftM3 o f m1 m2 m3
      = o.flatMap m1 (fun a1 => o.flatMap m2 (fun a2 => o.flatMap m3 (fun a3 => f a1 a2 a3))) := by
  simp only [MonadGen.LiftM3, LiftM2_def o L]
theorem LiftM3_is_model (L : o.Lawful) (f : List A → C R) (m1 m2 m3 : C A) :
    MonadGen.LiftM3 o (fun a1 a2 a3 => f [a1, a2, a3]) m1 m2 m3 = liftMList o [m1, m2, m3] f := by
  rw [LiftM3_def o L]; rfl
theorem FlatMap3_def (L : o.Lawful) {A1 A2 A3 : Type} (f : A1 → A2 → A3 → C R) (m1 : C A1) (m2 : C A2) (m3 : C A3) :
    MonadGen.FlatMap3 o m1 m2 m3 f
      = o.flatMap m1 (fun a1 => o.flatMap m2 (fun a2 => o.flatMap m3 (fun a3 => f a1 a2 a3))) :=
  LiftM3_def o L f m1 m2 m3
theorem FlatMap3_is_model (L : o.Lawful) (f : List A → C R) (m1 m2 m3 : C A) :
    MonadGen.FlatMap3 o m1 m2 m3 (fun a1 a2 a3 => f [a1, a2, a3]) = liftMList o [m1, m2, m3] f :=
  LiftM3_is_model o L f m1 m2 m3

theorem LiftM4_def (L : o.Lawful) {A1 A2 A3 A4 : Type} (f : A1 → A2 → A3 → A4 → C R) (m1 : C A1) (m2 : C A2) (m3 : C A3) (m4 : C A4) :
    MonadGen.LiftM4 o f m1 m2 m3 m4
      = o.flatMap m1 (fun a1 => o.flatMap m2 (fun a2 => o.flatMap m3 (fun a3 => o.flatMap m4 (fun a4 => f a1 a2 a3 a4)))) := by
  simp only [MonadGen.LiftM4, LiftM3_def o L]
theorem LiftM4_is_model (L : o.Lawful) (f : List A → C R) (m1 m2 m3 m4 : C A) :
    MonadGen.LiftM4 o (fun a1 a2 a3 a4 => f [a1, a2, a3, a4]) m1 m2 m3 m4 = liftMList o [m1, m2, m3, m4] f := by
  rw [LiftM4_def o L]; rfl
theorem FlatMap4_def (L : o.Lawful) {A1 A2 A3 A4 : Type} (f : A1 → A2 → A3 → A4 → C R) (m1 : C A1) (m2 : C A2) (m3 : C A3) (m4 : C A4) :
    MonadGen.FlatMap4 o m1 m2 m3 m4 f
      = o.flatMap m1 (fun a1 => o.flatMap m2 (fun a2 => o.flatMap m3 (fun a3 => o.flatMap m4 (fun a4 => f a1 a2 a3 a4)))) :=
  LiftM4_def o L f m1 m2 m3 m4
theorem FlatMap4_is_model (L : o.Lawful) (f : List A → C R) (m1 m2 m3 m4 : C A) :
    MonadGen.FlatMap4 o m1 m2 m3 m4 (fun a1 a2 a3 a4 => f [a1, a2, a3, a4]) = liftMList o [m1, m2, m3, m4] f :=
  LiftM4_is_model o L f m1 m2 m3 m4

theorem LiftM5_def (L : o.Lawful) {A1 A2 A3 A4 A5 : Type} (f : A1 → A2 → A3 → A4 → A5 → C R) (m1 : C A1) (m2 : C A2) (m3 : C A3) (m4 : C A4) (m5 : C A5) :
    MonadGen.LiftM5 o f m1 m2 m3 m4 m5
      = o.flatMap m1 (fun a1 => o.flatMap m2 (fun a2 => o.flatMap m3 (fun a3 => o.flatMap m4 (fun a4 => o.flatMap m5 (fun a5 => f a1 a2 a3 a4 a5))))) := by
  simp only [MonadGen.LiftM5, LiftM4_def o L]
theorem LiftM5_is_model (L : o.Lawful) (f : List A → C R) (m1 m2 m3 m4 m5 : C A) :
    MonadGen.LiftM5 o (fun a1 a2 a3 a4 a5 => f [a1, a2, a3, a4, a5]) m1 m2 m3 m4 m5 = liftMList o [m1, m2, m3, m4, m5] f := by
  rw [LiftM5_def o L]; rfl
theorem FlatMap5_def (L : o.Lawful) {A1 A2 A3 A4 A5 : Type} (f : A1 → A2 → A3 → A4 → A5 → C R) (m1 : C A1) (m2 : C A2) (m3 : C A3) (m4 : C A4) (m5 : C A5) :
    MonadGen.FlatMap5 o m1 m2 m3 m4 m5 f
      = o.flatMap m1 (fun a1 => o.flatMap m2 (fun a2 => o.flatMap m3 (fun a3 => o.flatMap m4 (fun a4 => o.flatMap m5 (fun a5 => f a1 a2 a3 a4 a5))))) :=
  LiftM5_def o L f m1 m2 m3 m4 m5
theorem FlatMap5_is_model (L : o.Lawful) (f : List A → C R) (m1 m2 m3 m4 m5 : C A) :
    MonadGen.FlatMap5 o m1 m2 m3 m4 m5 (fun a1 a2 a3 a4 a5 => f [a1, a2, a3, a4, a5]) = liftMList o [m1, m2, m3, m4, m5] f :=
  LiftM5_is_model o L f m1 m2 m3 m4 m5

theorem LiftM6_def (L : o.Lawful) {A1 A2 A3 A4 A5 A6 : Type} (f : A1 → A2 → A3 → A4 → A5 → A6 → C R) (m1 : C A1) (m2 : C A2) (m3 : C A3) (m4 : C A4) (m5 : C A5) (m6 : C A6) :
    MonadGen.LiftM6 o f m1 m2 m3 m4 m5 m6
      = o.flatMap m1 (fun a1 => o.flatMap m2 (fun a2 => o.flatMap m3 (fun a3 => o.flatMap m4 (fun a4 => o.flatMap m5 (fun a5 => o.flatMap m6 (fun a6 => f a1 a2 a3 a4 a5 a6)))))) := by
  simp only [MonadGen.LiftM6, LiftM5_def o L]
theorem LiftM6_is_model (L : o.Lawful) (f : List A → C R) (m1 m2 m3 m4 m5 m6 : C A) :
    MonadGen.LiftM6 o (fun a1 a2 a3 a4 a5 a6 => f [a1, a2, a3, a4, a5, a6]) m1 m2 m3 m4 m5 m6 = liftMList o [m1, m2, m3, m4, m5, m6] f := by
  rw [LiftM6_def o L]; rfl
theorem FlatMap6_def (L : o.Lawful) {A1 A2 A3 A4 A5 A6 : Type} (f : A1 → A2 → A3 → A4 → A5 → A6 → C R) (m1 : C A1) (m2 : C A2) (m3 : C A3) (m4 : C A4) (m5 : C A5) (m6 : C A6) :
    MonadGen.FlatMap6 o m1 m2 m3 m4 m5 m6 f
      = o.flatMap m1 (fun a1 => o.flatMap m2 (fun a2 => o.flatMap m3 (fun a3 => o.flatMap m4 (fun a4 => o.flatMap m5 (fun a5 => o.flatMap m6 (fun a6 => f a1 a2 a3 a4 a5 a6)))))) :=
  LiftM6_def o L f m1 m2 m3 m4 m5 m6
theorem FlatMap6_is_model (L : o.Lawful) (f : List A → C R) (m1 m2 m3 m4 m5 m6 : C A) :
    MonadGen.FlatMap6 o m1 m2 m3 m4 m5 m6 (fun a1 a2 a3 a4 a5 a6 => f [a1, a2, a3, a4, a5, a6]) = liftMList o [m1, m2, m3, m4, m5, m6] f :=
  LiftM6_is_model o L f m1 m2 m3 m4 m5 m6

theorem LiftM7_def (L : o.Lawful) {A1 A2 A3 A4 A5 A6 A7 : Type} (f : A1 → A2 → A3 → A4 → A5 → A6 → A7 → C R) (m1 : C A1) (m2 : C A2) (m3 : C A3) (m4 : C A4) (m5 : C A5) (m6 : C A6) (m7 : C A7) :
    MonadGen.LiftM7 o f m1 m2 m3 m4 m5 m6 m7
      = o.flatMap m1 (fun a1 => o.flatMap m2 (fun a2 => o.flatMap m3 (fun a3 => o.flatMap m4 (fun a4 => o.flatMap m5 (fun a5 => o.flatMap m6 (fun a6 => o.flatMap m7 (fun a7 => f a1 a2 a3 a4 a5 a6 a7))))))) := by
  simp only [MonadGen.LiftM7, LiftM6_def o L]
theorem LiftM7_is_model (L : o.Lawful) (f : List A → C R) (m1 m2 m3 m4 m5 m6 m7 : C A) :
    MonadGen.LiftM7 o (fun a1 a2 a3 a4 a5 a6 a7 => f [a1, a2, a3, a4, a5, a6, a7]) m1 m2 m3 m4 m5 m6 m7 = liftMList o [m1, m2, m3, m4, m5, m6, m7] f := by
  rw [LiftM7_def o L]; rfl
theorem FlatMap7_def (L : o.Lawful) {A1 A2 A3 A4 A5 A6 A7 : Type} (f : A1 → A2 → A3 → A4 → A5 → A6 → A7 → C R) (m1 : C A1) (m2 : C A2) (m3 : C A3) (m4 : C A4) (m5 : C A5) (m6 : C A6) (m7 : C A7) :
    MonadGen.FlatMap7 o m1 m2 m3 m4 m5 m6 m7 f
      = o.flatMap m1 (fun a1 => o.flatMap m2 (fun a2 => o.flatMap m3 (fun a3 => o.flatMap m4 (fun a4 => o.flatMap m5 (fun a5 => o.flatMap m6 (fun a6 => o.flatMap m7 (fun a7 => f a1 a2 a3 a4 a5 a6 a7))))))) :=
  LiftM7_def o L f m1 m2 m3 m4 m5 m6 m7
theorem FlatMap7_is_model (L : o.Lawful) (f : List A → C R) (m1 m2 m3 m4 m5 m6 m7 : C A) :
    MonadGen.FlatMap7 o m1 m2 m3 m4 m5 m6 m7 (fun a1 a2 a3 a4 a5 a6 a7 => f [a1, a2, a3, a4, a5, a6, a7]) = liftMList o [m1, m2, m3, m4, m5, m6, m7] f :=
  LiftM7_is_model o L f m1 m2 m3 m4 m5 m6 m7

theorem LiftM8_def (L : o.Lawful) {A1 A2 A3 A4 A5 A6 A7 A8 : Type} (f : A1 → A2 → A3 → A4 → A5 → A6 → A7 → A8 → C R) (m1 : C A1) (m2 : C A2) (m3 : C A3) (m4 : C A4) (m5 : C A5) (m6 : C A6) (m7 : C A7) (m8 : C A8) :
    MonadGen.LiftM8 o f m1 m2 m3 m4 m5 m6 m7 m8
      = o.flatMap m1 (fun a1 => o.flatMap m2 (fun a2 => o.flatMap m3 (fun a3 => o.flatMap m4 (fun a4 => o.flatMap m5 (fun a5 => o.flatMap m6 (fun a6 => o.flatMap m7 (fun a7 => o.flatMap m8 (fun a8 => f a1 a2 a3 a4 a5 a6 a7 a8)))))))) := by
  simp only [MonadGen.LiftM8, LiftM7_def o L]
theorem LiftM8_is_model (L : o.Lawful) (f : List A → C R) (m1 m2 m3 m4 m5 m6 m7 m8 : C A) :
    MonadGen.LiftM8 o (fun a1 a2 a3 a4 a5 a6 a7 a8 => f [a1, a2, a3, a4, a5, a6, a7, a8]) m1 m2 m3 m4 m5 m6 m7 m8 = liftMList o [m1, m2, m3, m4, m5, m6, m7, m8] f := by
  rw [LiftM8_def o L]; rfl
theorem FlatMap8_def (L : o.Lawful) {A1 A2 A3 A4 A5 A6 A7 A8 : Type} (f : A1 → A2 → A3 → A4 → A5 → A6 → A7 → A8 → C R) (m1 : C A1) (m2 : C A2) (m3 : C A3) (m4 : C A4) (m5 : C A5) (m6 : C A6) (m7 : C A7) (m8 : C A8) :
    MonadGen.FlatMap8 o m1 m2 m3 m4 m5 m6 m7 m8 f
      = o.flatMap m1 (fun a1 => o.flatMap m2 (fun a2 => o.flatMap m3 (fun a3 => o.flatMap m4 (fun a4 => o.flatMap m5 (fun a5 => o.flatMap m6 (fun a6 => o.flatMap m7 (fun a7 => o.flatMap m8 (fun a8 => f a1 a2 a3 a4 a5 a6 a7 a8)))))))) :=
  LiftM8_def o L f m1 m2 m3 m4 m5 m6 m7 m8
theorem FlatMap8_is_model (L : o.Lawful) (f : List A → C R) (m1 m2 m3 m4 m5 m6 m7 m8 : C A) :
    MonadGen.FlatMap8 o m1 m2 m3 m4 m5 m6 m7 m8 (fun a1 a2 a3 a4 a5 a6 a7 a8 => f [a1, a2, a3, a4, a5, a6, a7, a8]) = liftMList o [m1, m2, m3, m4, m5, m6, m7, m8] f :=
  LiftM8_is_model o L f m1 m2 m3 m4 m5 m6 m7 m8

theorem LiftM9_def (L : o.Lawful) {A1 A2 A3 A4 A5 A6 A7 A8 A9 : Type} (f : A1 → A2 → A3 → A4 → A5 → A6 → A7 → A8 → A9 → C R) (m1 : C A1) (m2 : C A2) (m3 : C A3) (m4 : C A4) (m5 : C A5) (m6 : C A6) (m7 : C A7) (m8 : C A8) (m9 : C A9) :
    MonadGen.LiftM9 o f m1 m2 m3 m4 m5 m6 m7 m8 m9
      = o.flatMap m1 (fun a1 => o.flatMap m2 (fun a2 => o.flatMap m3 (fun a3 => o.flatMap m4 (fun a4 => o.flatMap m5 (fun a5 => o.flatMap m6 (fun a6 => o.flatMap m7 (fun a7 => o.flatMap m8 (fun a8 => o.flatMap m9 (fun a9 => f a1 a2 a3 a4 a5 a6 a7 a8 a9))))))))) := by
  simp only [MonadGen.LiftM9, LiftM8_def o L]
theorem LiftM9_is_model (L : o.Lawful) (f : List A → C R) (m1 m2 m3 m4 m5 m6 m7 m8 m9 : C A) :
    MonadGen.LiftM9 o (fun a1 a2 a3 a4 a5 a6 a7 a8 a9 => f [a1, a2, a3, a4, a5, a6, a7, a8, a9]) m1 m2 m3 m4 m5 m6 m7 m8 m9 = liftMList o [m1, m2, m3, m4, m5, m6, m7, m8, m9] f := by
  rw [LiftM9_def o L]; rfl
theorem FlatMap9_def (L : o.Lawful) {A1 A2 A3 A4 A5 A6 A7 A8 A9 : Type} (f : A1 → A2 → A3 → A4 → A5 → A6 → A7 → A8 → A9 → C R) (m1 : C A1) (m2 : C A2) (m3 : C A3) (m4 : C A4) (m5 : C A5) (m6 : C A6) (m7 : C A7) (m8 : C A8) (m9 : C A9) :
    MonadGen.FlatMap9 o m1 m2 m3 m4 m5 m6 m7 m8 m9 f
      = o.flatMap m1 (fun a1 => o.flatMap m2 (fun a2 => o.flatMap m3 (fun a3 => o.flatMap m4 (fun a4 => o.flatMap m5 (fun a5 => o.flatMap m6 (fun a6 => o.flatMap m7 (fun a7 => o.flatMap m8 (fun a8 => o.flatMap m9 (fun a9 => f a1 a2 a3 a4 a5 a6 a7 a8 a9))))))))) :=
  LiftM9_def o L f m1 m2 m3 m4 m5 m6 m7 m8 m9
theorem FlatMap9_is_model (L : o.Lawful) (f : List A → C R) (m1 m2 m3 m4 m5 m6 m7 m8 m9 : C A) :
    MonadGen.FlatMap9 o m1 m2 m3 m4 m5 m6 m7 m8 m9 (fun a1 a2 a3 a4 a5 a6 a7 a8 a9 => f [a1, a2, a3, a4, a5, a6, a7, a8, a9]) = liftMList o [m1, m2, m3, m4, m5, m6, m7, m8, m9] f :=
  LiftM9_is_model o L f m1 m2 m3 m4 m5 m6 m7 m8 m9

-- Flap3..9: FlapN(tf)(a1)…(aN) unwraps tf once per stage --------------------------------------------------
theorem Flap3_is_model (tf : C (A → GoM (A → GoM (A → GoM R)))) (a1 a2 a3 : A) :
    flapN o 2 tf [a1, a2, a3] = map o (MonadGen.Flap3 o tf a1 a2 a3) (fun r => Pure.pure (some r)) := rfl
theorem Flap4_is_model (tf : C (A → GoM (A → GoM (A → GoM (A → GoM R))))) (a1 a2 a3 a4 : A) :
    flapN o 3 tf [a1, a2, a3, a4] = map o (MonadGen.Flap4 o tf a1 a2 a3 a4) (fun r => Pure.pure (some r)) := rfl
theorem Flap5_is_model (tf : C (A → GoM (A → GoM (A → GoM (A → GoM (A → GoM R)))))) (a1 a2 a3 a4 a5 : A) :
    flapN o 4 tf [a1, a2, a3, a4, a5] = map o (MonadGen.Flap5 o tf a1 a2 a3 a4 a5) (fun r => Pure.pure (some r)) := rfl
theorem Flap6_is_model (tf : C (A → GoM (A → GoM (A → GoM (A → GoM (A → GoM (A → GoM R))))))) (a1 a2 a3 a4 a5 a6 : A) :
    flapN o 5 tf [a1, a2, a3, a4, a5, a6] = map o (MonadGen.Flap6 o tf a1 a2 a3 a4 a5 a6) (fun r => Pure.pure (some r)) := rfl
theorem Flap7_is_model (tf : C (A → GoM (A → GoM (A → GoM (A → GoM (A → GoM (A → GoM (A → GoM R)))))))) (a1 a2 a3 a4 a5 a6 a7 : A) :
    flapN o 6 tf [a1, a2, a3, a4, a5, a6, a7] = map o (MonadGen.Flap7 o tf a1 a2 a3 a4 a5 a6 a7) (fun r => Pure.pure (some r)) := rfl
theorem Flap8_is_model (tf : C (A → GoM (A → GoM (A → GoM (A → GoM (A → GoM (A → GoM (A → GoM (A → GoM R))))))))) (a1 a2 a3 a4 a5 a6 a7 a8 : A) :
    flapN o 7 tf [a1, a2, a3, a4, a5, a6, a7, a8] = map o (MonadGen.Flap8 o tf a1 a2 a3 a4 a5 a6 a7 a8) (fun r => Pure.pure (some r)) := rfl
theorem Flap9_is_model (tf : C (A → GoM (A → GoM (A → GoM (A → GoM (A → GoM (A → GoM (A → GoM (A → GoM (A → GoM R)))))))))) (a1 a2 a3 a4 a5 a6 a7 a8 a9 : A) :
    flapN o 8 tf [a1, a2, a3, a4, a5, a6, a7, a8, a9] = map o (MonadGen.Flap9 o tf a1 a2 a3 a4 a5 a6 a7 a8 a9) (fun r => Pure.pure (some r)) := rfl

-- Method3..9, FlatMethod3..9 --------------------------------------------------------------------------------
theorem Method3_is_model (f : List A → GoM R) (ta : C A) (a2 a3 : A) :
    MonadGen.Method3 o ta (fun a1 a2 a3 => f [a1, a2, a3]) a2 a3 = methodN o ta f [a2, a3] := rfl
theorem Method3_def {A1 A2 A3 : Type} (ta : C A1) (f : A1 → A2 → A3 → GoM R) (a2 : A2) (a3 : A3) :
    MonadGen.Method3 o ta f a2 a3 = o.flatMap ta (fun a1 => o.seq (f a1 a2 a3) o.pure') := rfl
theorem FlatMethod3_is_model (f : List A → C R) (ta : C A) (a2 a3 : A) :
    MonadGen.FlatMethod3 o ta (fun a1 a2 a3 => f [a1, a2, a3]) a2 a3 = flatMethodN o ta f [a2, a3] := rfl
theorem FlatMethod3_def {A1 A2 A3 : Type} (ta : C A1) (f : A1 → A2 → A3 → C R) (a2 : A2) (a3 : A3) :
    MonadGen.FlatMethod3 o ta f a2 a3 = o.flatMap ta (fun a1 => f a1 a2 a3) := rfl

theorem Method4_is_model (f : List A → GoM R) (ta : C A) (a2 a3 a4 : A) :
    MonadGen.Method4 o ta (fun a1 a2 a3 a4 => f [a1, a2, a3, a4]) a2 a3 a4 = methodN o ta f [a2, a3, a4] := rfl
theorem Method4_def {A1 A2 A3 A4 : Type} (ta : C A1) (f : A1 → A2 → A3 → A4 → GoM R) (a2 : A2) (a3 : A3) (a4 : A4) :
    MonadGen.Method4 o ta f a2 a3 a4 = o.flatMap ta (fun a1 => o.seq (f a1 a2 a3 a4) o.pure') := rfl
theorem FlatMethod4_is_model (f : List A → C R) (ta : C A) (a2 a3 a4 : A) :
    MonadGen.FlatMethod4 o ta (fun a1 a2 a3 a4 => f [a1, a2, a3, a4]) a2 a3 a4 = flatMethodN o ta f [a2, a3, a4] := rfl
theorem FlatMethod4_def {A1 A2 A3 A4 : Type} (ta : C A1) (f : A1 → A2 → A3 → A4 → C R) (a2 : A2) (a3 : A3) (a4 : A4) :
    MonadGen.FlatMethod4 o ta f a2 a3 a4 = o.flatMap ta (fun a1 => f a1 a2 a3 a4) := rfl

theorem Method5_is_model (f : List A → GoM R) (ta : C A) (a2 a3 a4 a5 : A) :
    MonadGen.Method5 o ta (fun a1 a2 a3 a4 a5 => f [a1, a2, a3, a4, a5]) a2 a3 a4 a5 = methodN o ta f [a2, a3, a4, a5] := rfl
theorem Method5_def {A1 A2 A3 A4 A5 : Type} (ta : C A1) (f : A1 → A2 → A3 → A4 → A5 → GoM R) (a2 : A2) (a3 : A3) (a4 : A4) (a5 : A5) :
    MonadGen.Method5 o ta f a2 a3 a4 a5 = o.flatMap ta (fun a1 => o.seq (f a1 a2 a3 a4 a5) o.pure') := rfl
theorem FlatMethod5_is_model (f : List A → C R) (ta : C A) (a2 a3 a4 a5 : A) :
    MonadGen.FlatMethod5 o ta (fun a1 a2 a3 a4 a5 => f [a1, a2, a3, a4, a5]) a2 a3 a4 a5 = flatMethodN o ta f [a2, a3, a4, a5] := rfl
theorem FlatMethod5_def {A1 A2 A3 A4 A5 : Type} (ta : C A1) (f : A1 → A2 → A3 → A4 → A5 → C R) (a2 : A2) (a3 : A3) (a4 : A4) (a5 : A5) :
    MonadGen.FlatMethod5 o ta f a2 a3 a4 a5 = o.flatMap ta (fun a1 => f a1 a2 a3 a4 a5) := rfl

theorem Method6_is_model (f : List A → GoM R) (ta : C A) (a2 a3 a4 a5 a6 : A) :
    MonadGen.Method6 o ta (fun a1 a2 a3 a4 a5 a6 => f [a1, a2, a3, a4, a5, a6]) a2 a3 a4 a5 a6 = methodN o ta f [a2, a3, a4, a5, a6] := rfl
theorem Method6_def {A1 A2 A3 A4 A5 A6 : Type} (ta : C A1) (f : A1 → A2 → A3 → A4 → A5 → A6 → GoM R) (a2 : A2) (a3 : A3) (a4 : A4) (a5 : A5) (a6 : A6) :
    MonadGen.Method6 o ta f a2 a3 a4 a5 a6 = o.flatMap ta (fun a1 => o.seq (f a1 a2 a3 a4 a5 a6) o.pure') := rfl
theorem FlatMethod6_is_model (f : List A → C R) (ta : C A) (a2 a3 a4 a5 a6 : A) :
    MonadGen.FlatMethod6 o ta (fun a1 a2 a3 a4 a5 a6 => f [a1, a2, a3, a4, a5, a6]) a2 a3 a4 a5 a6 = flatMethodN o ta f [a2, a3, a4, a5, a6] := rfl
theorem FlatMethod6_def {A1 A2 A3 A4 A5 A6 : Type} (ta : C A1) (f : A1 → A2 → A3 → A4 → A5 → A6 → C R) (a2 : A2) (a3 : A3) (a4 : A4) (a5 : A5) (a6 : A6) :
    MonadGen.FlatMethod6 o ta f a2 a3 a4 a5 a6 = o.flatMap ta (fun a1 => f a1 a2 a3 a4 a5 a6) := rfl

theorem Method7_is_model (f : List A → GoM R) (ta : C A) (a2 a3 a4 a5 a6 a7 : A) :
    MonadGen.Method7 o ta (fun a1 a2 a3 a4 a5 a6 a7 => f [a1, a2, a3, a4, a5, a6, a7]) a2 a3 a4 a5 a6 a7 = methodN o ta f [a2, a3, a4, a5, a6, a7] := rfl
theorem Method7_def {A1 A2 A3 A4 A5 A6 A7 : Type} (ta : C A1) (f : A1 → A2 → A3 → A4 → A5 → A6 → A7 → GoM R) (a2 : A2) (a3 : A3) (a4 : A4) (a5 : A5) (a6 : A6) (a7 : A7) :
    MonadGen.Method7 o ta f a2 a3 a4 a5 a6 a7 = o.flatMap ta (fun a1 => o.seq (f a1 a2 a3 a4 a5 a6 a7) o.pure') := rfl
theorem FlatMethod7_is_model (f : List A → C R) (ta : C A) (a2 a3 a4 a5 a6 a7 : A) :
    MonadGen.FlatMethod7 o ta (fun a1 a2 a3 a4 a5 a6 a7 => f [a1, a2, a3, a4, a5, a6, a7]) a2 a3 a4 a5 a6 a7 = flatMethodN o ta f [a2, a3, a4, a5, a6, a7] := rfl
theorem FlatMethod7_def {A1 A2 A3 A4 A5 A6 A7 : Type} (ta : C A1) (f : A1 → A2 → A3 → A4 → A5 → A6 → A7 → C R) (a2 : A2) (a3 : A3) (a4 : A4) (a5 : A5) (a6 : A6) (a7 : A7) :
    MonadGen.FlatMethod7 o ta f a2 a3 a4 a5 a6 a7 = o.flatMap ta (fun a1 => f a1 a2 a3 a4 a5 a6 a7) := rfl

theorem Method8_is_model (f : List A → GoM R) (ta : C A) (a2 a3 a4 a5 a6 a7 a8 : A) :
    MonadGen.Method8 o ta (fun a1 a2 a3 a4 a5 a6 a7 a8 => f [a1, a2, a3, a4, a5, a6, a7, a8]) a2 a3 a4 a5 a6 a7 a8 = methodN o ta f [a2, a3, a4, a5, a6, a7, a8] := rfl
theorem Method8_def {A1 A2 A3 A4 A5 A6 A7 A8 : Type} (ta : C A1) (f : A1 → A2 → A3 → A4 → A5 → A6 → A7 → A8 → GoM R) (a2 : A2) (a3 : A3) (a4 : A4) (a5 : A5) (a6 : A6) (a7 : A7) (a8 : A8) :
    MonadGen.Method8 o ta f a2 a3 a4 a5 a6 a7 a8 = o.flatMap ta (fun a1 => o.seq (f a1 a2 a3 a4 a5 a6 a7 a8) o.pure') := rfl
theorem FlatMethod8_is_model (f : List A → C R) (ta : C A) (a2 a3 a4 a5 a6 a7 a8 : A) :
    MonadGen.FlatMethod8 o ta (fun a1 a2 a3 a4 a5 a6 a7 a8 => f [a1, a2, a3, a4, a5, a6, a7, a8]) a2 a3 a4 a5 a6 a7 a8 = flatMethodN o ta f [a2, a3, a4, a5, a6, a7, a8] := rfl
theorem FlatMethod8_def {A1 A2 A3 A4 A5 A6 A7 A8 : Type} (ta : C A1) (f : A1 → A2 → A3 → A4 → A5 → A6 → A7 → A8 → C R) (a2 : A2) (a3 : A3) (a4 : A4) (a5 : A5) (a6 : A6) (a7 : A7) (a8 : A8) :
    MonadGen.FlatMethod8 o ta f a2 a3 a4 a5 a6 a7 a8 = o.flatMap ta (fun a1 => f a1 a2 a3 a4 a5 a6 a7 a8) := rfl

theorem Method9_is_model (f : List A → GoM R) (ta : C A) (a2 a3 a4 a5 a6 a7 a8 a9 : A) :
    MonadGen.Method9 o ta (fun a1 a2 a3 a4 a5 a6 a7 a8 a9 => f [a1, a2, a3, a4, a5, a6, a7, a8, a9]) a2 a3 a4 a5 a6 a7 a8 a9 = methodN o ta f [a2, a3, a4, a5, a6, a7, a8, a9] := rfl
theorem Method9_def {A1 A2 A3 A4 A5 A6 A7 A8 A9 : Type} (ta : C A1) (f : A1 → A2 → A3 → A4 → A5 → A6 → A7 → A8 → A9 → GoM R) (a2 : A2) (a3 : A3) (a4 : A4) (a5 : A5) (a6 : A6) (a7 : A7) (a8 : A8) (a9 : A9) :
    MonadGen.Method9 o ta f a2 a3 a4 a5 a6 a7 a8 a9 = o.flatMap ta (fun a1 => o.seq (f a1 a2 a3 a4 a5 a6 a7 a8 a9) o.pure') := rfl
theorem FlatMethod9_is_model (f : List A → C R) (ta : C A) (a2 a3 a4 a5 a6 a7 a8 a9 : A) :
    MonadGen.FlatMethod9 o ta (fun a1 a2 a3 a4 a5 a6 a7 a8 a9 => f [a1, a2, a3, a4, a5, a6, a7, a8, a9]) a2 a3 a4 a5 a6 a7 a8 a9 = flatMethodN o ta f [a2, a3, a4, a5, a6, a7, a8, a9] := rfl
theorem FlatMethod9_def {A1 A2 A3 A4 A5 A6 A7 A8 A9 : Type} (ta : C A1) (f : A1 → A2 → A3 → A4 → A5 → A6 → A7 → A8 → A9 → C R) (a2 : A2) (a3 : A3) (a4 : A4) (a5 : A5) (a6 : A6) (a7 : A7) (a8 : A8) (a9 : A9) :
    MonadGen.FlatMethod9 o ta f a2 a3 a4 a5 a6 a7 a8 a9 = o.flatMap ta (fun a1 => f a1 a2 a3 a4 a5 a6 a7 a8 a9) := rfl

-- Compose3..5: the left-to-right Kleisli chain ------------------------------------------------------------
theorem Compose3_is_model (f1 f2 f3 : A → C A) : MonadGen.Compose3 o f1 f2 f3 = composeList o [f1, f2, f3] := rfl
theorem Compose3_def {A1 A2 A3 : Type} (f1 : A1 → C A2) (f2 : A2 → C A3) (f3 : A3 → C R) (a : A1) :
    MonadGen.Compose3 o f1 f2 f3 a = o.flatMap (f1 a) (fun x2 => o.flatMap (f2 x2) f3) := rfl
theorem Compose4_is_model (f1 f2 f3 f4 : A → C A) : MonadGen.Compose4 o f1 f2 f3 f4 = composeList o [f1, f2, f3, f4] := rfl
theorem Compose4_def {A1 A2 A3 A4 : Type} (f1 : A1 → C A2) (f2 : A2 → C A3) (f3 : A3 → C A4) (f4 : A4 → C R) (a : A1) :
    MonadGen.Compose4 o f1 f2 f3 f4 a = o.flatMap (f1 a) (fun x2 => o.flatMap (f2 x2) (fun x3 => o.flatMap (f3 x3) f4)) := rfl
theorem Compose5_is_model (f1 f2 f3 f4 f5 : A → C A) : MonadGen.Compose5 o f1 f2 f3 f4 f5 = composeList o [f1, f2, f3, f4, f5] := rfl
theorem Compose5_def {A1 A2 A3 A4 A5 : Type} (f1 : A1 → C A2) (f2 : A2 → C A3) (f3 : A3 → C A4) (f4 : A4 → C A5) (f5 : A5 → C R) (a : A1) :
    MonadGen.Compose5 o f1 f2 f3 f4 f5 a = o.flatMap (f1 a) (fun x2 => o.flatMap (f2 x2) (fun x3 => o.flatMap (f3 x3) (fun x4 => o.flatMap (f4 x4) f5))) := rfl

-- X_traverse.go (over the package's own FoldM, a parameter as in the model) ------------------------------------------------

section traverse
variable (fm : FoldMFn C)

theorem TraverseSeq_is_model (sa : List A) (fa : A → C R) :
    MonadGen.TraverseSeq o fm sa fa = traverseSeq o fm sa fa := rfl

theorem Traverse_is_model (ia : List A) (fn : A → C R) : MonadGen.Traverse o fm ia fn = traverse o fm ia fn := rfl

theorem TraverseSlice_is_model (sa : List A) (fa : A → C R) :
    MonadGen.TraverseSlice o fm sa fa = traverse o fm sa fa := rfl

theorem TraverseFunc_is_model (far : A → C R) :
    MonadGen.TraverseFunc o fm far = fun ia => traverse o fm ia far := rfl

theorem TraverseSeqFunc_is_model (far : A → C R) :
    MonadGen.TraverseSeqFunc o fm far = fun sa => traverseSeq o fm sa far := rfl

theorem TraverseSliceFunc_is_model (far : A → C R) :
    MonadGen.TraverseSliceFunc o fm far = fun sa => traverse o fm sa far := rfl

theorem FlatMapTraverseSeq_is_model (ta : C (List A)) (f : A → C B) :
    MonadGen.FlatMapTraverseSeq o fm ta f = flatMapTraverseSeq o fm ta f := rfl

theorem FlatMapTraverseSlice_is_model (ta : C (List A)) (f : A → C B) :
    MonadGen.FlatMapTraverseSlice o fm ta f = o.flatMap ta (fun sa => traverse o fm sa f) := rfl

theorem Sequence_is_model (tsa : List (C A)) : MonadGen.Sequence o fm tsa = sequence o fm tsa := rfl

/-- C01 (traverse): with the FlatMap chain as FoldM, the translated TraverseSeq visits the elements in order and collects
    the results in order (transport of `C01.traverseSeq_snoc`) -/
theorem TraverseSeq_snoc (L : o.Lawful) (xs : List A) (x : A) (fa : A → C R) :
    MonadGen.TraverseSeq o (foldM o) (xs ++ [x]) fa
      = o.flatMap (MonadGen.TraverseSeq o (foldM o) xs fa) (fun acc => o.flatMap (fa x) (fun r => o.pure' (acc ++ [r]))) :=
  C01.traverseSeq_snoc o L xs x fa

theorem SequenceIterator_is_model (ita : List (C A)) : MonadGen.SequenceIterator o fm ita = sequence o fm ita := rfl

end traverse

-- coverage -----------------------------------------------------------------------------------------------------------------

/-- every function of the generated files was found and translated, and there is no function the theorems above do not
    speak about (family name, arity suffix; 0 = none; source order) -/
theorem all_functions_translated : MonadGen.functions = [("Flatten", 0), ("Map", 0), ("Replace", 0), ("Map", 2), ("Zip", 0), ("Ap", 0), ("Compose", 0), ("Compose", 2), ("ApFunc", 0), ("MapSeqLift", 0), ("MapSliceLift", 0), ("Lift", 0), ("LiftA", 2), ("LiftM", 0), ("LiftM", 2), ("FlatMap", 2), ("Flap", 0), ("Flap", 2), ("FlapMap", 0), ("FlatFlapMap", 0), ("Method", 1), ("FlatMethod", 1), ("Method", 2), ("FlatMethod", 2), ("UnZip", 0), ("Zip", 3), ("With", 0), ("LiftA", 3), ("Map", 3), ("LiftM", 3), ("FlatMap", 3), ("Flap", 3), ("Method", 3), ("FlatMethod", 3), ("LiftA", 4), ("Map", 4), ("LiftM", 4), ("FlatMap", 4), ("Flap", 4), ("Method", 4), ("FlatMethod", 4), ("LiftA", 5), ("Map", 5), ("LiftM", 5), ("FlatMap", 5), ("Flap", 5), ("Method", 5), ("FlatMethod", 5), ("LiftA", 6), ("Map", 6), ("LiftM", 6), ("FlatMap", 6), ("Flap", 6), ("Method", 6), ("FlatMethod", 6), ("LiftA", 7), ("Map", 7), ("LiftM", 7), ("FlatMap", 7), ("Flap", 7), ("Method", 7), ("FlatMethod", 7), ("LiftA", 8), ("Map", 8), ("LiftM", 8), ("FlatMap", 8), ("Flap", 8), ("Method", 8), ("FlatMethod", 8), ("LiftA", 9), ("Map", 9), ("LiftM", 9), ("FlatMap", 9), ("Flap", 9), ("Method", 9), ("FlatMethod", 9), ("Compose", 3), ("Compose", 4), ("Compose", 5), ("Traverse", 0), ("TraverseSeq", 0), ("TraverseSlice", 0), ("TraverseFunc", 0), ("TraverseSeqFunc", 0), ("TraverseSliceFunc", 0), ("FlatMapTraverseSeq", 0), ("FlatMapTraverseSlice", 0), ("Sequence", 0), ("SequenceIterator", 0)] := by decide

/-- the four packages (option, either, statet, try) carry the same template: no function of any package is missing,
    untranslatable or different from the common translation -/
theorem no_divergence : MonadGen.divergent = [] := rfl

/-- nothing in the generated files is outside the translated fragment -/
theorem nothing_untranslatable : MonadGen.untranslatable = 0 := rfl

-- what the ties buy: the property theorems speak about the translated code ------------------------------------------------------

/-- C01: Map(m, f) = FlatMap(m, unit ∘ f) -/
theorem Map_def (m : C A) (f : A → GoM R) : MonadGen.Map o m f = o.flatMap m (fun a => o.seq (f a) o.pure') :=
  (Map_is_model o m f).trans (C01.map_def o m f)

/-- C01: Ap unwraps the function, then the argument, then applies -/
theorem Ap_def (tfab : C (A → GoM B)) (ta : C A) :
    MonadGen.Ap o tfab ta = o.flatMap tfab (fun fab => o.flatMap ta (fun a => o.seq (fab a) o.pure')) :=
  (Ap_is_model o tfab ta).trans (C01.ap_def o tfab ta)

/-- C01: LiftM(f)(ta) = FlatMap(ta, f) -/
theorem LiftM_def (L : o.Lawful) (fa : A → C R) (ta : C A) : MonadGen.LiftM o fa ta = o.flatMap ta fa :=
  (LiftM_is_model o L fa ta).trans (C01.liftM_def o L fa ta)

theorem FlatFlapMap_def (L : o.Lawful) (fab : A → B → C R) (ta : C A) (b : B) :
    MonadGen.FlatFlapMap o fab ta b = o.flatMap ta (fun x => fab x b) :=
  (FlatFlapMap_is_model o L fab ta b).trans (C01.flatFlapMap_def o L fab ta b)

theorem FlatMethod2_def (L : o.Lawful) (ta : C A) (fabc : A → B → D → C R) (b : B) (c : D) :
    MonadGen.FlatMethod2 o ta fabc b c = o.flatMap ta (fun x => fabc x b c) :=
  (FlatMethod2_is_model o L ta fabc b c).trans (C01.flatMethod2_def o L ta fabc b c)

theorem Method2_def (L : o.Lawful) (ta : C A) (fabc : A → B → D → GoM R) (b : B) (c : D) :
    MonadGen.Method2 o ta fabc b c = o.flatMap ta (fun x => o.seq (fabc x b c) o.pure') := by
  rw [Method2_is_model]; exact C01.method2_def o L ta fabc b c

/-- C02, any position, shown for LiftA4 with the THIRD operand failing: the result is what the operands before it leave
    followed by that failure; the fourth operand and the callback are absent (never run) -/
theorem LiftA4_short_circuit (z : ∀ β : Type, C β) (hz : ∀ (α β : Type) (k : α → C β), o.flatMap (z α) k = z β)
    (m1 m2 m4 : C A) (f : List A → GoM R) :
    MonadGen.LiftA4 o (fun a1 a2 a3 a4 => f [a1, a2, a3, a4]) m1 m2 (z A) m4 = bindAll o [m1, m2] (fun _ => z R) := by
  rw [LiftA4_is_model]; exact C02.liftAList_short_circuit o z hz [m1, m2] [m4] f

/-- the same for operands of different types (Map3, second operand failing) -/
theorem Map3_short_circuit {A1 A2 A3 : Type} (z : ∀ β : Type, C β)
    (hz : ∀ (α β : Type) (k : α → C β), o.flatMap (z α) k = z β) (m1 : C A1) (m3 : C A3) (f : A1 → A2 → A3 → GoM R) :
    MonadGen.Map3 o m1 (z A2) m3 f = o.flatMap m1 (fun _ => z R) := by
  rw [Map3_def]; simp only [hz]

/-- … instantiated for Try: the failure of the second operand IS the result; the third operand and `f` did not run -/
theorem try_Map3_first_failure {A1 A2 A3 : Type} (e : Err) (he : e ≠ .nil) (a1 : A1) (m3 : GoM (Try A3))
    (f : A1 → A2 → A3 → GoM R) :
    MonadGen.Map3 TryM.ops (pure (.success a1)) (pure (.failure e) : GoM (Try A2)) m3 f = pure (.failure e) := by
  rw [Map3_short_circuit TryM.ops (fun _ => pure (.failure e)) (C02.try_failure_absorbing e he)]
  simp [TryM.ops, TryM.flatMap]

/-- C02: when the function operand of ApFunc fails the supplier is never called -/
theorem try_ApFunc_failure (e : Err) (he : e ≠ .nil) (ta : Unit → GoM (Try A)) :
    MonadGen.ApFunc TryM.ops (pure (.failure e) : GoM (Try (A → GoM B))) ta = pure (.failure e) := by
  rw [ApFunc_is_model]; exact C02.try_apFunc_failure e he ta

theorem option_ApFunc_none (ta : Unit → GoM (Option A)) :
    MonadGen.ApFunc OptM.ops (pure none : GoM (Option (A → GoM B))) ta = pure none := by
  rw [ApFunc_is_model]; exact C02.option_apFunc_none ta

-- C17: the translated state_monad.go at the StateT operations -----------------------------------------------------------------

section statet
variable {S : Type}

/-- the generated `statet.Map` is the hand-written model `StM.map` about which `Spec/C17` speaks -/
theorem statet_Map_eq (m : StM.StT S A) (f : A → GoM B) : MonadGen.Map (StM.ops S) m f = StM.map m f := by
  funext s
  simp only [MonadGen.Map, composeSeq_def, StM.ops, StM.map, StM.flatMap]
  congr 1; funext x
  rcases x with ⟨r, ns⟩
  cases r <;> simp

/-- C17 (failure): when the operand fails, `Map`'s callback is not run and the state reported is the state at the point
    of failure -/
theorem statet_Map_failure (st : StM.StT S A) (f : A → GoM B) (s ns : S) (e : Err) (he : e ≠ .nil)
    (h : st s = Pure.pure (.failure e, ns)) : MonadGen.Map (StM.ops S) st f s = Pure.pure (.failure e, ns) := by
  rw [statet_Map_eq, C17.map_def]; exact C17.flatMap_failure st _ s ns e he h

/-- C17 / C01: `statet.LiftM(f)(ta) = FlatMap(ta, f)` for the translated code -/
theorem statet_LiftM_def (fa : A → StM.StT S R) (ta : StM.StT S A) :
    MonadGen.LiftM (StM.ops S) fa ta = StM.flatMap ta (fun a => Pure.pure (fa a)) :=
  LiftM_def (StM.ops S) C01.statet_lawful fa ta

/-- C17: Map2 threads the state left to right: `second` starts from the state `first` left -/
theorem statet_Map2_def (first : StM.StT S A) (second : StM.StT S B) (fab : A → B → GoM R) :
    MonadGen.Map2 (StM.ops S) first second fab
      = StM.flatMap first (fun a => Pure.pure (StM.flatMap second (fun b => Pure.pure (fun s => do let r ← fab a b; StM.pure r s)))) := rfl

end statet

-- the hypotheses are satisfiable: the four packages are lawful, and their failures are absorbing ------------------------------

example : (OptM.ops).Lawful := C01.option_lawful
example : (TryM.ops).Lawful := C01.try_lawful
example {Lf : Type} : (EitM.ops Lf).Lawful := C01.either_lawful
example {S : Type} : (StM.ops S).Lawful := C01.statet_lawful
example : ∀ (α β : Type) (k : α → GoM (Option β)), (OptM.ops).flatMap (pure none) k = pure none := C02.option_none_absorbing

end FpVerif.Spec.C01Gen
