import FpVerif.Model.Record
import FpVerif.Lemmas.RecordMask
import FpVerif.Lemmas.Record
import FpVerif.Lemmas.RecordMap
/-!
# C07 — what gombok's `@fp.Value` output means, for every struct declaration and every value.

Property theorems only.  `s` ranges over ALL struct specs (any number of fields, any mix of
private / public / `_` / embedded fields, any annotations), `x b` over all values (lists of field
values of the right length, `Rec.WF`).  Whether the generated file *compiles* is not a statement
about the model; it is decided by running gombok and the Go compiler on generated declarations
(harness `gombokrun`).  The theorems say what the compiled methods do.
-/
namespace FpVerif.Spec.C07
open FpVerif FpVerif.Rec

/-! ## getters and With -/

/-- `x.WithF(v).F() = v` -/
theorem get_with (x : Rec) (i : Nat) (v : RV) (h : i < x.length) : getF i (withF i v x) = v :=
  getF_set_same x i v h

/-- `WithF` replaces field F and nothing else -/
theorem get_with_other (x : Rec) (i j : Nat) (v : RV) (h : i ≠ j) : getF j (withF i v x) = getF j x :=
  getF_set_other x i j v h

theorem with_WF (s : StructSpec) (x : Rec) (i : Nat) (v : RV) (h : Rec.WF s x) : Rec.WF s (withF i v x) := by
  simpa [Rec.WF, withF] using h

/-- `WithSomeF(v)` = `WithF(Some(v))`: it sets exactly field F, to `Some(v)` -/
theorem withSome_spec (x : Rec) (i j : Nat) (v : RV) (h : i < x.length) :
    getF i (withSome i v x) = .some v ∧ (i ≠ j → getF j (withSome i v x) = getF j x) :=
  ⟨getF_set_same x i _ h, getF_set_other x i j _⟩

/-- `WithNoneF()` sets exactly field F, to `None` -/
theorem withNone_spec (x : Rec) (i j : Nat) (h : i < x.length) :
    getF i (withNone i x) = .none ∧ (i ≠ j → getF j (withNone i x) = getF j x) :=
  ⟨getF_set_same x i _ h, getF_set_other x i j _⟩

/-- setting a field to the value it has changes nothing; the last `With` wins -/
theorem with_get (x : Rec) (i : Nat) (h : i < x.length) : withF i (getF i x) x = x := by
  apply List.ext_getElem?
  intro j
  by_cases hj : i = j
  · subst hj; simp [withF, getF, List.getD_eq_getElem?_getD, h]
  · simp [withF, List.getElem?_set_ne hj]

theorem with_with (x : Rec) (i : Nat) (v w : RV) : withF i w (withF i v x) = withF i w x := by
  simp [withF]

/-! ## Builder -/

/-- `x.Builder().Build() = x`; every builder setter is the corresponding `With` on the underlying value -/
theorem builder_roundtrip (x : Rec) : build (toBuilder x) = x := rfl

/-! ## AsTuple / FromTuple, Unapply / Apply: mutually inverse, declaration order -/

/-- `Builder.Apply(x.Unapply())`: every applicable field now holds x's value, every other field is untouched. -/
theorem apply_unapply (s : StructSpec) (x b : Rec) (hx : Rec.WF s x) (hb : Rec.WF s b) :
    apply s b (unapply s x) = pick s.fields x b :=
  inject_project s.fields x b hx hb

/-- field-wise reading of the previous theorem -/
theorem apply_unapply_field (s : StructSpec) (x b : Rec) (hx : Rec.WF s x) (hb : Rec.WF s b)
    (i : Nat) (f : Field) (hf : s.fields[i]? = some f) :
    getF i (apply s b (unapply s x)) = if f.applicable then getF i x else getF i b := by
  rw [apply_unapply s x b hx hb]
  exact getF_pick s.fields x b i f hx hb hf

/-- from x's own builder the round trip is the identity -/
theorem apply_unapply_self (s : StructSpec) (x : Rec) (hx : Rec.WF s x) : apply s x (unapply s x) = x := by
  rw [apply_unapply s x x hx hx]
  have : ∀ (fs : List Field) (x : Rec), x.length = fs.length → pick fs x x = x := by
    intro fs
    induction fs with
    | nil => intro x h; cases x <;> simp_all [pick]
    | cons f fs ih =>
      intro x h
      cases x with
      | nil => simp at h
      | cons v vs => cases hf : f.applicable <;> simp [pick, hf, ih vs (by simpa using h)]
  exact this s.fields x hx

/-- the other direction: `Unapply(Apply(t)) = t` for an argument list of the right arity -/
theorem unapply_apply (s : StructSpec) (b t : Rec) (hb : Rec.WF s b) (ht : t.length = s.nApp) :
    unapply s (apply s b t) = t :=
  project_inject s.fields b t hb ht

/-- `Unapply` lists the applicable fields in declaration order (a subsequence of the declaration) -/
theorem unapply_order (s : StructSpec) (x : Rec) (hx : Rec.WF s x) :
    unapply s x = ((s.fields.zip x).filter (fun p => p.1.applicable)).map (·.2) :=
  project_eq_filter s.fields x hx

theorem arity_of_hasTuple (s : StructSpec) (ht : s.hasTuple = true) : s.arity = s.nApp := by
  have h : s.nApp < 22 := of_decide_eq_true ht
  simp only [StructSpec.arity, maxProduct]
  omega

/-- below the tuple limit (`allFields.Size() < max.Product`) `AsTuple` is `Unapply` and `FromTuple` is `Apply`:
    nothing is cut off -/
theorem asTuple_eq_unapply (s : StructSpec) (x : Rec) (hx : Rec.WF s x) (ht : s.hasTuple = true) :
    asTuple s x = unapply s x := by
  have hl : (project s.fields x).length = s.nApp := project_length s.fields x hx
  have : s.arity = s.nApp := arity_of_hasTuple s ht
  simp [asTuple, unapply, this, ← hl]

theorem fromTuple_asTuple (s : StructSpec) (x b : Rec) (hx : Rec.WF s x) (hb : Rec.WF s b)
    (ht : s.hasTuple = true) : fromTuple s b (asTuple s x) = pick s.fields x b := by
  have hl : (project s.fields x).length = s.nApp := project_length s.fields x hx
  have ha : s.arity = s.nApp := arity_of_hasTuple s ht
  rw [asTuple_eq_unapply s x hx ht]
  simp only [fromTuple, unapply, ha, ← hl, List.take_length]
  exact inject_project s.fields x b hx hb

theorem asTuple_fromTuple (s : StructSpec) (b t : Rec) (hb : Rec.WF s b) (ht : s.hasTuple = true)
    (hlen : t.length = s.nApp) : asTuple s (fromTuple s b t) = t := by
  have ha : s.arity = s.nApp := arity_of_hasTuple s ht
  have h1 : fromTuple s b t = apply s b t := by simp [fromTuple, apply, ha, ← hlen]
  have hwf : Rec.WF s (apply s b t) := by
    have : ∀ (fs : List Field) (b t : Rec), (inject fs b t).length = b.length := by
      intro fs
      induction fs with
      | nil => intro b t; cases b <;> simp [inject]
      | cons f fs ih =>
        intro b t
        cases b with
        | nil => simp [inject]
        | cons w ws =>
          cases hf : f.applicable
          · simp [inject, hf, ih]
          · cases t <;> simp [inject, hf, ih]
    simpa [Rec.WF, apply, this] using hb
  rw [h1, asTuple_eq_unapply s _ hwf ht]
  exact unapply_apply s b t hb hlen

/-- The tuple limit: with `max.Product` (= 22) or more applicable fields gombok emits neither `AsTuple` nor
    `FromTuple` (nor the Labelled pair); `Unapply`/`Apply` are emitted for every arity. -/
theorem tuple_limit (s : StructSpec) : s.hasTuple = true ↔ s.nApp ≤ 21 := by
  constructor
  · intro h
    have : s.nApp < 22 := of_decide_eq_true h
    omega
  · intro h
    exact decide_eq_true (show s.nApp < 22 by omega)

/-! ## AsMutable / AsImmutable -/

/-- `x.AsMutable().AsImmutable()` is `x` on every applicable field and the zero value elsewhere -/
theorem asImmutable_asMutable (s : StructSpec) (x : Rec) : asImmutable s (asMutable s x) = mask s.fields x :=
  mask_idem s.fields x

theorem asImmutable_asMutable_field (s : StructSpec) (x : Rec) (i : Nat) (f : Field)
    (hf : s.fields[i]? = some f) (happ : f.applicable = true) :
    getF i (asImmutable s (asMutable s x)) = getF i x := by
  rw [asImmutable_asMutable]; exact getF_mask_applicable s.fields x i f hf happ

/-- when every field is applicable (no `_` field, no embedded field-less struct) the two are inverse outright -/
theorem asImmutable_asMutable_id (s : StructSpec) (x : Rec) (hx : Rec.WF s x)
    (happ : ∀ f ∈ s.fields, f.applicable = true) : asImmutable s (asMutable s x) = x := by
  rw [asImmutable_asMutable]; exact mask_eq_self s.fields x hx happ

/-- and `AsMutable(AsImmutable(m)) = m` for every Mutable value that came from `AsMutable` -/
theorem asMutable_asImmutable (s : StructSpec) (x : Rec) :
    asMutable s (asImmutable s (asMutable s x)) = asMutable s x := by
  simp [asMutable, asImmutable, mask_idem]

/-- `AsMutable` is `Apply` onto the zero value: the same assignment list -/
theorem asMutable_eq_pick (s : StructSpec) (x : Rec) (hx : Rec.WF s x) :
    asMutable s x = pick s.fields x s.zero :=
  mask_eq_pick_zero s.fields x hx

/-! ## AsLabelled / FromLabelled -/

theorem fromLabelled_asLabelled (s : StructSpec) (x b : Rec) (hx : Rec.WF s x) (hb : Rec.WF s b)
    (ht : s.hasTuple = true) : fromLabelled s b (asLabelled s x) = pick s.fields x b := by
  have hl : (project s.fields x).length = s.nApp := project_length s.fields x hx
  have ha : s.arity = s.nApp := arity_of_hasTuple s ht
  have hlab : (labels s.fields x).length = s.nApp := by
    rw [← hl, ← labels_values, List.length_map]
  simp only [fromLabelled, asLabelled, ha, ← hlab, List.take_length]
  rw [labels_values]
  exact inject_project s.fields x b hx hb

/-- the labels are the names (and struct tags) of the applicable fields, in declaration order -/
theorem asLabelled_names (s : StructSpec) (x : Rec) (hx : Rec.WF s x) (ht : s.hasTuple = true) :
    (asLabelled s x).map Lab.name = s.applicableFields.map Field.name ∧
    (asLabelled s x).map Lab.tag = s.applicableFields.map Field.tag ∧
    (asLabelled s x).map Lab.value = unapply s x := by
  have hl : (project s.fields x).length = s.nApp := project_length s.fields x hx
  have ha : s.arity = s.nApp := arity_of_hasTuple s ht
  have hlab : (labels s.fields x).length = s.nApp := by
    rw [← hl, ← labels_values, List.length_map]
  simp only [asLabelled, ha, ← hlab, List.take_length]
  exact ⟨labels_names s.fields x hx, labels_tags s.fields x hx, labels_values s.fields x⟩

/-! ## AsMap / FromMap -/

/-- Struct field names are distinct (Go rejects anything else). -/
def DistinctNames (s : StructSpec) : Prop := (appNames s.fields).Nodup

/-- Structural form: each applicable field is rebuilt from the one map entry `AsMap` wrote for it. -/
theorem fromMap_asMap (s : StructSpec) (x b : Rec) (hx : Rec.WF s x) (hb : Rec.WF s b)
    (hn : DistinctNames s) : fromMap s.fields b (asMap s x) = mapBack s.fields x b :=
  fromMap_asMapAux s.fields x b [] hx hb hn (by intro f _ _; rfl) [] _ rfl

/-- A well-typed field that is "recoverable by type assertion" is restored exactly. -/
theorem fromEntry_recoverable (f : Field) (v w : RV) (happ : f.applicable = true)
    (hwt : WT f.ty v) (hrec : recoverable f.ty v = true) :
    fromEntry f w ((mapEntry f v).getD none) = v := by
  unfold mapEntry fromEntry
  simp only [happ, if_true]
  cases hty : f.ty with
  | conc n =>
    simp [assertTy_toAny_conc]
  | iface n all impls =>
    rw [hty] at hwt hrec
    cases v with
    | iface d u =>
      have himpl : all = true ∨ d ∈ impls := by
        cases u <;> simp [WT] at hwt <;> first | exact hwt | skip
      simp [assertTy_toAny_iface n all impls d u himpl]
    | atom _ => simp [recoverable] at hrec
    | none => simp [recoverable] at hrec
    | some _ => simp [recoverable] at hrec
    | nilIface => simp [recoverable] at hrec
  | opt e =>
    rw [hty] at hwt hrec
    cases v with
    | some u =>
      simp only [Option.getD_some]
      -- the first assertion (to Option[e]) fails, the second (to e) gives u back
      cases hta : toAny e u with
      | none => simp [recoverable, hta] at hrec
      | some p =>
        obtain ⟨d, u'⟩ := p
        have hd : (d != (Ty.opt e).name) = true := by simpa [recoverable, hta] using hrec
        have h1 : assertTy (.opt e) (some (d, u')) = none := by
          have : (d == (Ty.opt e).name) = false := by simpa using hd
          simp [assertTy, this]
        have h2 : assertTy e (some (d, u')) = some u := by
          rw [← hta]
          cases e with
          | conc n => exact assertTy_toAny_conc n u
          | opt e' => exact assertTy_toAny_opt e' u
          | iface n all impls =>
            cases u with
            | iface d' u'' =>
              have himpl : all = true ∨ d' ∈ impls := by
                cases u'' <;> simp [WT] at hwt <;> first | exact hwt | skip
              exact assertTy_toAny_iface n all impls d' u'' himpl
            | atom _ => simp [toAny] at hta
            | none => simp [toAny] at hta
            | some _ => simp [toAny] at hta
            | nilIface => simp [toAny] at hta
        simp [h1, h2]
    | atom _ => simp [recoverable] at hrec
    | none => simp [recoverable] at hrec
    | iface _ _ => simp [recoverable] at hrec
    | nilIface => simp [recoverable] at hrec

/-- What is NOT recoverable keeps the builder's value: `None` (no entry is written), a nil interface
    value and `Some(nil interface)` (the entry is nil, every assertion fails). -/
theorem fromEntry_not_stored (f : Field) (v w : RV) (happ : f.applicable = true)
    (h : (∃ e, f.ty = .opt e ∧ (v = .none ∨ (v = .some .nilIface ∧ ∃ n a i, e = .iface n a i)))
        ∨ ((∃ n a i, f.ty = .iface n a i) ∧ v = .nilIface)) :
    fromEntry f w ((mapEntry f v).getD none) = w := by
  unfold mapEntry fromEntry
  simp only [happ, if_true]
  rcases h with ⟨e, hty, hv⟩ | ⟨⟨n, a, i, hty⟩, hv⟩
  · rcases hv with hv | ⟨hv, n, a, i, he⟩
    · subst hv; simp [hty, assertTy]
    · subst hv; subst he; simp [hty, assertTy, toAny]
  · subst hv; simp [hty, assertTy, toAny]

/-- `zero.Builder().FromMap(x.AsMap()).Build()`, field by field: a recoverable applicable field is x's,
    a field that is not applicable is untouched. -/
theorem fromMap_asMap_field (s : StructSpec) (x b : Rec) (hx : Rec.WF s x) (hb : Rec.WF s b)
    (hn : DistinctNames s) (i : Nat) (f : Field) (hf : s.fields[i]? = some f) :
    (f.applicable = true → WT f.ty (getF i x) → recoverable f.ty (getF i x) = true →
        getF i (fromMap s.fields b (asMap s x)) = getF i x)
    ∧ (f.applicable = false → getF i (fromMap s.fields b (asMap s x)) = getF i b) := by
  rw [fromMap_asMap s x b hx hb hn]
  have key : ∀ (fs : List Field) (x b : Rec) (i : Nat), x.length = fs.length → b.length = fs.length →
      fs[i]? = some f →
      getF i (mapBack fs x b) =
        if f.applicable then fromEntry f (getF i b) ((mapEntry f (getF i x)).getD none) else getF i b := by
    intro fs
    induction fs with
    | nil => intro x b i _ _ h; simp at h
    | cons g fs ih =>
      intro x b i hx hb h
      cases x with
      | nil => simp at hx
      | cons v vs =>
        cases b with
        | nil => simp at hb
        | cons w ws =>
          cases i with
          | zero =>
            simp at h; subst h
            cases hg : g.applicable <;> simp [mapBack, getF, hg]
          | succ i =>
            have := ih vs ws i (by simpa using hx) (by simpa using hb) (by simpa using h)
            simpa [mapBack, getF] using this
  rw [key s.fields x b i hx hb hf]
  constructor
  · intro happ hwt hrec
    simp only [happ, if_true]
    exact fromEntry_recoverable f (getF i x) (getF i b) happ hwt hrec
  · intro happ; simp [happ]

/-- The one value that is *mis*-recovered: an `Option[any]` whose content is itself an `Option[any]` —
    `FromMap`'s first assertion (`m["f"].(fp.Option[any])`) fires and the outer `Some` is lost. -/
theorem fromMap_flattens_option_any :
    let f : Field := { name := "o", ty := .opt (.iface "any" true []) }
    let v : RV := .some (.iface "fp.Option[any]" (.some (.atom "1")))
    fromEntry f .none ((mapEntry f v).getD none) = .some (.atom "1") ∧ recoverable f.ty v = false := by
  decide +kernel

/-! ## which methods exist -/

/-- Without user-written methods and without two attempts of the same name, every method gombok
    attempts for the struct receiver is emitted, in order. -/
theorem methodsT_complete (s : StructSpec) (hu : s.userT = [])
    (hnd : ((candsT s).map Cand.name).Nodup) : methodsT s = (candsT s).map Cand.entry := by
  unfold methodsT
  rw [hu, foldl_step_all (candsT s) {} hnd (by intro c _; rfl)]
  rfl

/-- Nothing else is ever emitted: every generated method is one of the attempts. -/
theorem methodsT_sound (s : StructSpec) : ∀ e ∈ methodsT s, e ∈ (candsT s).map Cand.entry := by
  intro e he
  cases foldl_step_subset s.userT (candsT s) {} e he with
  | inl h => simp at h
  | inr h => exact h

theorem mem_indexed {α : Type} (l : List α) (i : Nat) (a : α) (h : l[i]? = some a) : (i, a) ∈ indexed l := by
  unfold indexed
  have hi : i < l.length := by
    rcases Nat.lt_or_ge i l.length with h' | h'
    · exact h'
    · simp [List.getElem?_eq_none h'] at h
  have ha : l[i] = a := by
    have := List.getElem?_eq_getElem hi
    rw [this] at h
    exact Option.some.inj h
  rw [List.mem_iff_getElem]
  refine ⟨i, by simp [hi], ?_⟩
  simp [ha]

/-- Under @fp.Value (with at least one applicable field) every private field gets a getter and a `With`,
    and every private Option field gets `WithSome`/`WithNone` — provided no two derived names collide. -/
theorem private_field_methods (s : StructSpec) (hv : s.valueRuns = true) (hu : s.userT = [])
    (hnd : ((candsT s).map Cand.name).Nodup) (i : Nat) (f : Field) (hf : s.fields[i]? = some f)
    (hp : f.isPrivate = true) :
    (publicName f.name, Meth.getter i) ∈ methodsT s ∧
    ("With" ++ publicName f.name, Meth.withF i) ∈ methodsT s ∧
    (f.ty.isOpt = true →
      ("WithSome" ++ publicName f.name, Meth.withSome i) ∈ methodsT s ∧
      ("WithNone" ++ publicName f.name, Meth.withNone i) ∈ methodsT s) := by
  rw [methodsT_complete s hu hnd]
  have hmem := mem_indexed s.fields i f hf
  have hg : (⟨true, publicName f.name, .getter i⟩ : Cand) ∈ privGetterCands s := by
    unfold privGetterCands
    rw [List.mem_flatMap]
    exact ⟨(i, f), hmem, by simp [hp]⟩
  have hw : ∀ c : Cand, c ∈ ([⟨true, "With" ++ publicName f.name, .withF i⟩] ++
        (if f.ty.isOpt then [⟨true, "WithSome" ++ publicName f.name, .withSome i⟩,
          ⟨true, "WithNone" ++ publicName f.name, .withNone i⟩] else []) : List Cand) →
      c ∈ privWithCands s := by
    intro c hc
    unfold privWithCands
    rw [List.mem_flatMap]
    exact ⟨(i, f), hmem, by simpa [hp] using hc⟩
  have hval : ∀ c : Cand, c ∈ privGetterCands s ∨ c ∈ privWithCands s → c.entry ∈ (candsT s).map Cand.entry := by
    intro c hc
    apply List.mem_map_of_mem
    unfold candsT valueCands
    simp only [hv, if_true]
    rcases hc with hc | hc <;> simp [hc]
  refine ⟨hval ⟨true, publicName f.name, .getter i⟩ (Or.inl hg),
    hval ⟨true, "With" ++ publicName f.name, .withF i⟩ (Or.inr (hw _ (by simp))), ?_⟩
  intro ho
  exact ⟨hval ⟨true, "WithSome" ++ publicName f.name, .withSome i⟩ (Or.inr (hw _ (by simp [ho]))),
    hval ⟨true, "WithNone" ++ publicName f.name, .withNone i⟩ (Or.inr (hw _ (by simp [ho])))⟩

def userSpec : StructSpec :=
  { name := "User", ann := { value := true },
    fields := [{ name := "email", ty := .opt (.conc "string") }, { name := "someEmail", ty := .conc "string" }] }

def smallSpec : StructSpec :=
  { name := "T", ann := { value := true },
    fields := [{ name := "a", ty := .conc "int" }, { name := "Pub", ty := .conc "int" }, { name := "_u", ty := .conc "int" }] }

def okSpec : StructSpec :=
  { name := "T", ann := { value := true, json := true, genLabelled := true },
    fields := [{ name := "a", ty := .conc "int" }, { name := "o", ty := .opt (.conc "string") }, { name := "_u", ty := .conc "int" }] }

/-- The collision the hypothesis excludes: `email fp.Option[string]` next to `someEmail string`.
    `WithSomeEmail` is emitted once, for `email`; the field `someEmail` gets no `With` at all — and the
    builder gets two methods called `SomeEmail`, so the file does not compile. -/
theorem someEmail_collision :
    ("WithSomeEmail", Meth.withSome 0) ∈ methodsT userSpec ∧ ("WithSomeEmail", Meth.withF 1) ∉ methodsT userSpec
    ∧ (clashes userSpec).contains "dup method B.SomeEmail" = true := by
  decide +kernel

/-- Fields gombok does not touch: `_`-prefixed and public ones get no getter / `With` / builder setter under @fp.Value. -/
theorem no_methods_for_public_fields :
    (methodsT smallSpec).names = ["A", "WithA", "String", "AsTuple", "Unapply", "AsMap", "Builder", "AsMutable"]
    ∧ (methodsB smallSpec).names = ["Build", "A", "FromTuple", "Apply", "FromMap"]
    ∧ unapply smallSpec [.atom "1", .atom "2", .atom "3"] = [.atom "1", .atom "2"] := by
  decide +kernel

/-! ## hypotheses are satisfiable -/

example : ∃ s : StructSpec, DistinctNames s ∧ s.userT = [] ∧ ((candsT s).map Cand.name).Nodup ∧ s.valueRuns = true :=
  ⟨okSpec, by unfold DistinctNames; decide +kernel⟩

example : WT (.opt (.iface "any" true [])) (.some (.iface "int" (.atom "1"))) ∧
    recoverable (.opt (.iface "any" true [])) (.some (.iface "int" (.atom "1"))) = true := by
  constructor
  · simp [WT]
  · decide +kernel

end FpVerif.Spec.C07
