import FpVerif.Model.Record
import FpVerif.Lemmas.RecordMask
import FpVerif.Lemmas.Record
import FpVerif.Lemmas.RecordMap
import FpVerif.Lemmas.RecordBuilder
/-!
# C07 — what gombok's `@fp.Value` output means, for every struct declaration and every value.

Property theorems only.  `s` ranges over ALL struct specs (any number of fields, any mix of
private / public / `_` / embedded fields, any annotations), `x b` over all values (lists of field
values of the right length, `Rec.WF`).  Whether the generated file *compiles* is not a statement
about the model; it is decided by running gombok and the Go compiler on generated declarations
(harness `gombokrun`).  The theorems say what the compiled methods do.
-/
namespace FpVerif.Spec.C07
open FpVerif FpVerif.Rec

/-! ## getters and With -/

/-- `x.WithF(v).F() = v` -/
theorem get_with (x : Rec) (i : Nat) (v : RV) (h : i < x.length) : getF i (withF i v x) = v :=
  getF_set_same x i v h

/-- `WithF` replaces field F and nothing else -/
theorem get_with_other (x : Rec) (i j : Nat) (v : RV) (h : i ≠ j) : getF j (withF i v x) = getF j x :=
  getF_set_other x i j v h

theorem with_WF (s : StructSpec) (x : Rec) (i : Nat) (v : RV) (h : Rec.WF s x) : Rec.WF s (withF i v x) := by
  simpa [Rec.WF, withF] using h

/-- `WithSomeF(v)` = `WithF(Some(v))`: it sets exactly field F, to `Some(v)` -/
theorem withSome_spec (x : Rec) (i j : Nat) (v : RV) (h : i < x.length) :
    getF i (withSome i v x) = .some v ∧ (i ≠ j → getF j (withSome i v x) = getF j x) :=
  ⟨getF_set_same x i _ h, getF_set_other x i j _⟩

/-- `WithNoneF()` sets exactly field F, to `None` -/
theorem withNone_spec (x : Rec) (i j : Nat) (h : i < x.length) :
    getF i (withNone i x) = .none ∧ (i ≠ j → getF j (withNone i x) = getF j x) :=
  ⟨getF_set_same x i _ h, getF_set_other x i j _⟩

/-- setting a field to the value it has changes nothing; the last `With` wins -/
theorem with_get (x : Rec) (i : Nat) (h : i < x.length) : withF i (getF i x) x = x := by
  apply List.ext_getElem?
  intro j
  by_cases hj : i = j
  · subst hj; simp [withF, getF, List.getD_eq_getElem?_getD, h]
  · simp [withF, List.getElem?_set_ne hj]

theorem with_with (x : Rec) (i : Nat) (v w : RV) : withF i w (withF i v x) = withF i w x := by
  simp [withF]

/-! ## Builder -/

/-- `x.Builder().Build() = x` (both are conversions).  This statement alone says nothing about the setters: their
    semantics (a builder as a partial record, `b.F(v).Build() = b.Build().WithF(v)`, last call wins, commutation, the
    round trip through the setters) is `builder_roundtrip_pb`, `builder_setter_is_with`, `builder_chain_field`,
    `builder_roundtrip_setters` … below; `builder_roundtrip_agrees` relates the two. -/
theorem builder_roundtrip (x : Rec) : build (toBuilder x) = x := rfl

/-! ## AsTuple / FromTuple, Unapply / Apply: mutually inverse, declaration order -/

/-- `Builder.Apply(x.Unapply())`: every applicable field now holds x's value, every other field is untouched. -/
theorem apply_unapply (s : StructSpec) (x b : Rec) (hx : Rec.WF s x) (hb : Rec.WF s b) :
    apply s b (unapply s x) = pick s.fields x b :=
  inject_project s.fields x b hx hb

/-- field-wise reading of the previous theorem -/
theorem apply_unapply_field (s : StructSpec) (x b : Rec) (hx : Rec.WF s x) (hb : Rec.WF s b)
    (i : Nat) (f : Field) (hf : s.fields[i]? = some f) :
    getF i (apply s b (unapply s x)) = if f.applicable then getF i x else getF i b := by
  rw [apply_unapply s x b hx hb]
  exact getF_pick s.fields x b i f hx hb hf

/-- from x's own builder the round trip is the identity -/
theorem apply_unapply_self (s : StructSpec) (x : Rec) (hx : Rec.WF s x) : apply s x (unapply s x) = x := by
  rw [apply_unapply s x x hx hx]
  have : ∀ (fs : List Field) (x : Rec), x.length = fs.length → pick fs x x = x := by
    intro fs
    induction fs with
    | nil => intro x h; cases x <;> simp_all [pick]
    | cons f fs ih =>
      intro x h
      cases x with
      | nil => simp at h
      | cons v vs => cases hf : f.applicable <;> simp [pick, hf, ih vs (by simpa using h)]
  exact this s.fields x hx

/-- the other direction: `Unapply(Apply(t)) = t` for an argument list of the right arity -/
theorem unapply_apply (s : StructSpec) (b t : Rec) (hb : Rec.WF s b) (ht : t.length = s.nApp) :
    unapply s (apply s b t) = t :=
  project_inject s.fields b t hb ht

/-- `Unapply` lists the applicable fields in declaration order (a subsequence of the declaration) -/
theorem unapply_order (s : StructSpec) (x : Rec) (hx : Rec.WF s x) :
    unapply s x = ((s.fields.zip x).filter (fun p => p.1.applicable)).map (·.2) :=
  project_eq_filter s.fields x hx

theorem arity_of_hasTuple (s : StructSpec) (ht : s.hasTuple = true) : s.arity = s.nApp := by
  have h : s.nApp < 22 := of_decide_eq_true ht
  simp only [StructSpec.arity, maxProduct]
  omega

/-- below the tuple limit (`allFields.Size() < max.Product`) `AsTuple` is `Unapply` and `FromTuple` is `Apply`:
    nothing is cut off -/
theorem asTuple_eq_unapply (s : StructSpec) (x : Rec) (hx : Rec.WF s x) (ht : s.hasTuple = true) :
    asTuple s x = unapply s x := by
  have hl : (project s.fields x).length = s.nApp := project_length s.fields x hx
  have : s.arity = s.nApp := arity_of_hasTuple s ht
  simp [asTuple, unapply, this, ← hl]

theorem fromTuple_asTuple (s : StructSpec) (x b : Rec) (hx : Rec.WF s x) (hb : Rec.WF s b)
    (ht : s.hasTuple = true) : fromTuple s b (asTuple s x) = pick s.fields x b := by
  have hl : (project s.fields x).length = s.nApp := project_length s.fields x hx
  have ha : s.arity = s.nApp := arity_of_hasTuple s ht
  rw [asTuple_eq_unapply s x hx ht]
  simp only [fromTuple, unapply, ha, ← hl, List.take_length]
  exact inject_project s.fields x b hx hb

theorem asTuple_fromTuple (s : StructSpec) (b t : Rec) (hb : Rec.WF s b) (ht : s.hasTuple = true)
    (hlen : t.length = s.nApp) : asTuple s (fromTuple s b t) = t := by
  have ha : s.arity = s.nApp := arity_of_hasTuple s ht
  have h1 : fromTuple s b t = apply s b t := by simp [fromTuple, apply, ha, ← hlen]
  have hwf : Rec.WF s (apply s b t) := by
    have : ∀ (fs : List Field) (b t : Rec), (inject fs b t).length = b.length := by
      intro fs
      induction fs with
      | nil => intro b t; cases b <;> simp [inject]
      | cons f fs ih =>
        intro b t
        cases b with
        | nil => simp [inject]
        | cons w ws =>
          cases hf : f.applicable
          · simp [inject, hf, ih]
          · cases t <;> simp [inject, hf, ih]
    simpa [Rec.WF, apply, this] using hb
  rw [h1, asTuple_eq_unapply s _ hwf ht]
  exact unapply_apply s b t hb hlen

/-- The tuple limit: with `max.Product` (= 22) or more applicable fields gombok emits neither `AsTuple` nor
    `FromTuple` (nor the Labelled pair); `Unapply`/`Apply` are emitted for every arity. -/
theorem tuple_limit (s : StructSpec) : s.hasTuple = true ↔ s.nApp ≤ 21 := by
  constructor
  · intro h
    have : s.nApp < 22 := of_decide_eq_true h
    omega
  · intro h
    exact decide_eq_true (show s.nApp < 22 by omega)

/-! ## AsMutable / AsImmutable -/

/-- `x.AsMutable().AsImmutable()` is `x` on every applicable field and the zero value elsewhere -/
theorem asImmutable_asMutable (s : StructSpec) (x : Rec) : asImmutable s (asMutable s x) = mask s.fields x :=
  mask_idem s.fields x

theorem asImmutable_asMutable_field (s : StructSpec) (x : Rec) (i : Nat) (f : Field)
    (hf : s.fields[i]? = some f) (happ : f.applicable = true) :
    getF i (asImmutable s (asMutable s x)) = getF i x := by
  rw [asImmutable_asMutable]; exact getF_mask_applicable s.fields x i f hf happ

/-- when every field is applicable (no `_` field, no embedded field-less struct) the two are inverse outright -/
theorem asImmutable_asMutable_id (s : StructSpec) (x : Rec) (hx : Rec.WF s x)
    (happ : ∀ f ∈ s.fields, f.applicable = true) : asImmutable s (asMutable s x) = x := by
  rw [asImmutable_asMutable]; exact mask_eq_self s.fields x hx happ

/-- and `AsMutable(AsImmutable(m)) = m` for every Mutable value that came from `AsMutable` (this is `mask_idem`;
    for an ARBITRARY Mutable value see `asMutable_asImmutable_any` / `_field` / `_id` / `_loses_blank` below) -/
theorem asMutable_asImmutable (s : StructSpec) (x : Rec) :
    asMutable s (asImmutable s (asMutable s x)) = asMutable s x := by
  simp [asMutable, asImmutable, mask_idem]

/-- `AsMutable` is `Apply` onto the zero value: the same assignment list -/
theorem asMutable_eq_pick (s : StructSpec) (x : Rec) (hx : Rec.WF s x) :
    asMutable s x = pick s.fields x s.zero :=
  mask_eq_pick_zero s.fields x hx

/-! ## AsLabelled / FromLabelled -/

theorem fromLabelled_asLabelled (s : StructSpec) (x b : Rec) (hx : Rec.WF s x) (hb : Rec.WF s b)
    (ht : s.hasTuple = true) : fromLabelled s b (asLabelled s x) = pick s.fields x b := by
  have hl : (project s.fields x).length = s.nApp := project_length s.fields x hx
  have ha : s.arity = s.nApp := arity_of_hasTuple s ht
  have hlab : (labels s.fields x).length = s.nApp := by
    rw [← hl, ← labels_values, List.length_map]
  simp only [fromLabelled, asLabelled, ha, ← hlab, List.take_length]
  rw [labels_values]
  exact inject_project s.fields x b hx hb

/-- the labels are the names (and struct tags) of the applicable fields, in declaration order -/
theorem asLabelled_names (s : StructSpec) (x : Rec) (hx : Rec.WF s x) (ht : s.hasTuple = true) :
    (asLabelled s x).map Lab.name = s.applicableFields.map Field.name ∧
    (asLabelled s x).map Lab.tag = s.applicableFields.map Field.tag ∧
    (asLabelled s x).map Lab.value = unapply s x := by
  have hl : (project s.fields x).length = s.nApp := project_length s.fields x hx
  have ha : s.arity = s.nApp := arity_of_hasTuple s ht
  have hlab : (labels s.fields x).length = s.nApp := by
    rw [← hl, ← labels_values, List.length_map]
  simp only [asLabelled, ha, ← hlab, List.take_length]
  exact ⟨labels_names s.fields x hx, labels_tags s.fields x hx, labels_values s.fields x⟩

/-! ## AsMap / FromMap -/

/-- Struct field names are distinct (Go rejects anything else). -/
def DistinctNames (s : StructSpec) : Prop := (appNames s.fields).Nodup

/-- Structural form: each applicable field is rebuilt from the one map entry `AsMap` wrote for it. -/
theorem fromMap_asMap (s : StructSpec) (x b : Rec) (hx : Rec.WF s x) (hb : Rec.WF s b)
    (hn : DistinctNames s) : fromMap s.fields b (asMap s x) = mapBack s.fields x b :=
  fromMap_asMapAux s.fields x b [] hx hb hn (by intro f _ _; rfl) [] _ rfl

/-- A well-typed field that is "recoverable by type assertion" is restored exactly. -/
theorem fromEntry_recoverable (f : Field) (v w : RV) (happ : f.applicable = true)
    (hwt : WT f.ty v) (hrec : recoverable f.ty v = true) :
    fromEntry f w ((mapEntry f v).getD none) = v := by
  unfold mapEntry fromEntry
  simp only [happ, if_true]
  cases hty : f.ty with
  | conc n =>
    simp [assertTy_toAny_conc]
  | iface n all impls =>
    rw [hty] at hwt hrec
    cases v with
    | iface d u =>
      have himpl : all = true ∨ d ∈ impls := by
        cases u <;> simp [WT] at hwt <;> first | exact hwt | skip
      simp [assertTy_toAny_iface n all impls d u himpl]
    | atom _ => simp [recoverable] at hrec
    | none => simp [recoverable] at hrec
    | some _ => simp [recoverable] at hrec
    | nilIface => simp [recoverable] at hrec
  | opt e =>
    rw [hty] at hwt hrec
    cases v with
    | some u =>
      simp only [Option.getD_some]
      -- the first assertion (to Option[e]) fails, the second (to e) gives u back
      cases hta : toAny e u with
      | none => simp [recoverable, hta] at hrec
      | some p =>
        obtain ⟨d, u'⟩ := p
        have hd : (d != (Ty.opt e).name) = true := by simpa [recoverable, hta] using hrec
        have h1 : assertTy (.opt e) (some (d, u')) = none := by
          have : (d == (Ty.opt e).name) = false := by simpa using hd
          simp [assertTy, this]
        have h2 : assertTy e (some (d, u')) = some u := by
          rw [← hta]
          cases e with
          | conc n => exact assertTy_toAny_conc n u
          | opt e' => exact assertTy_toAny_opt e' u
          | iface n all impls =>
            cases u with
            | iface d' u'' =>
              have himpl : all = true ∨ d' ∈ impls := by
                cases u'' <;> simp [WT] at hwt <;> first | exact hwt | skip
              exact assertTy_toAny_iface n all impls d' u'' himpl
            | atom _ => simp [toAny] at hta
            | none => simp [toAny] at hta
            | some _ => simp [toAny] at hta
            | nilIface => simp [toAny] at hta
        simp [h1, h2]
    | atom _ => simp [recoverable] at hrec
    | none => simp [recoverable] at hrec
    | iface _ _ => simp [recoverable] at hrec
    | nilIface => simp [recoverable] at hrec

/-- What is NOT recoverable keeps the builder's value: `None` (no entry is written), a nil interface
    value and `Some(nil interface)` (the entry is nil, every assertion fails). -/
theorem fromEntry_not_stored (f : Field) (v w : RV) (happ : f.applicable = true)
    (h : (∃ e, f.ty = .opt e ∧ (v = .none ∨ (v = .some .nilIface ∧ ∃ n a i, e = .iface n a i)))
        ∨ ((∃ n a i, f.ty = .iface n a i) ∧ v = .nilIface)) :
    fromEntry f w ((mapEntry f v).getD none) = w := by
  unfold mapEntry fromEntry
  simp only [happ, if_true]
  rcases h with ⟨e, hty, hv⟩ | ⟨⟨n, a, i, hty⟩, hv⟩
  · rcases hv with hv | ⟨hv, n, a, i, he⟩
    · subst hv; simp [hty, assertTy]
    · subst hv; subst he; simp [hty, assertTy, toAny]
  · subst hv; simp [hty, assertTy, toAny]

/-- `zero.Builder().FromMap(x.AsMap()).Build()`, field by field: a recoverable applicable field is x's,
    a field that is not applicable is untouched. -/
theorem fromMap_asMap_field (s : StructSpec) (x b : Rec) (hx : Rec.WF s x) (hb : Rec.WF s b)
    (hn : DistinctNames s) (i : Nat) (f : Field) (hf : s.fields[i]? = some f) :
    (f.applicable = true → WT f.ty (getF i x) → recoverable f.ty (getF i x) = true →
        getF i (fromMap s.fields b (asMap s x)) = getF i x)
    ∧ (f.applicable = false → getF i (fromMap s.fields b (asMap s x)) = getF i b) := by
  rw [fromMap_asMap s x b hx hb hn]
  have key : ∀ (fs : List Field) (x b : Rec) (i : Nat), x.length = fs.length → b.length = fs.length →
      fs[i]? = some f →
      getF i (mapBack fs x b) =
        if f.applicable then fromEntry f (getF i b) ((mapEntry f (getF i x)).getD none) else getF i b := by
    intro fs
    induction fs with
    | nil => intro x b i _ _ h; simp at h
    | cons g fs ih =>
      intro x b i hx hb h
      cases x with
      | nil => simp at hx
      | cons v vs =>
        cases b with
        | nil => simp at hb
        | cons w ws =>
          cases i with
          | zero =>
            simp at h; subst h
            cases hg : g.applicable <;> simp [mapBack, getF, hg]
          | succ i =>
            have := ih vs ws i (by simpa using hx) (by simpa using hb) (by simpa using h)
            simpa [mapBack, getF] using this
  rw [key s.fields x b i hx hb hf]
  constructor
  · intro happ hwt hrec
    simp only [happ, if_true]
    exact fromEntry_recoverable f (getF i x) (getF i b) happ hwt hrec
  · intro happ; simp [happ]

/-- The one value that is *mis*-recovered: an `Option[any]` whose content is itself an `Option[any]` —
    `FromMap`'s first assertion (`m["f"].(fp.Option[any])`) fires and the outer `Some` is lost. -/
theorem fromMap_flattens_option_any :
    let f : Field := { name := "o", ty := .opt (.iface "any" true []) }
    let v : RV := .some (.iface "fp.Option[any]" (.some (.atom "1")))
    fromEntry f .none ((mapEntry f v).getD none) = .some (.atom "1") ∧ recoverable f.ty v = false := by
  decide +kernel

/-! ## which methods exist -/

/-- Without user-written methods and without two attempts of the same name, every method gombok
    attempts for the struct receiver is emitted, in order. -/
theorem methodsT_complete (s : StructSpec) (hu : s.userT = [])
    (hnd : ((candsT s).map Cand.name).Nodup) : methodsT s = (candsT s).map Cand.entry := by
  unfold methodsT
  rw [hu, foldl_step_all (candsT s) {} hnd (by intro c _; rfl)]
  rfl

/-- Nothing else is ever emitted: every generated method is one of the attempts. -/
theorem methodsT_sound (s : StructSpec) : ∀ e ∈ methodsT s, e ∈ (candsT s).map Cand.entry := by
  intro e he
  cases foldl_step_subset s.userT (candsT s) {} e he with
  | inl h => simp at h
  | inr h => exact h

theorem mem_indexed {α : Type} (l : List α) (i : Nat) (a : α) (h : l[i]? = some a) : (i, a) ∈ indexed l := by
  unfold indexed
  have hi : i < l.length := by
    rcases Nat.lt_or_ge i l.length with h' | h'
    · exact h'
    · simp [List.getElem?_eq_none h'] at h
  have ha : l[i] = a := by
    have := List.getElem?_eq_getElem hi
    rw [this] at h
    exact Option.some.inj h
  rw [List.mem_iff_getElem]
  refine ⟨i, by simp [hi], ?_⟩
  simp [ha]

/-- Under @fp.Value (with at least one applicable field) every private field gets a getter and a `With`,
    and every private Option field gets `WithSome`/`WithNone` — provided no two derived names collide. -/
theorem private_field_methods (s : StructSpec) (hv : s.valueRuns = true) (hu : s.userT = [])
    (hnd : ((candsT s).map Cand.name).Nodup) (i : Nat) (f : Field) (hf : s.fields[i]? = some f)
    (hp : f.isPrivate = true) :
    (publicName f.name, Meth.getter i) ∈ methodsT s ∧
    ("With" ++ publicName f.name, Meth.withF i) ∈ methodsT s ∧
    (f.ty.isOpt = true →
      ("WithSome" ++ publicName f.name, Meth.withSome i) ∈ methodsT s ∧
      ("WithNone" ++ publicName f.name, Meth.withNone i) ∈ methodsT s) := by
  rw [methodsT_complete s hu hnd]
  have hmem := mem_indexed s.fields i f hf
  have hg : (⟨true, publicName f.name, .getter i⟩ : Cand) ∈ privGetterCands s := by
    unfold privGetterCands
    rw [List.mem_flatMap]
    exact ⟨(i, f), hmem, by simp [hp]⟩
  have hw : ∀ c : Cand, c ∈ ([⟨true, "With" ++ publicName f.name, .withF i⟩] ++
        (if f.ty.isOpt then [⟨true, "WithSome" ++ publicName f.name, .withSome i⟩,
          ⟨true, "WithNone" ++ publicName f.name, .withNone i⟩] else []) : List Cand) →
      c ∈ privWithCands s := by
    intro c hc
    unfold privWithCands
    rw [List.mem_flatMap]
    exact ⟨(i, f), hmem, by simpa [hp] using hc⟩
  have hval : ∀ c : Cand, c ∈ privGetterCands s ∨ c ∈ privWithCands s → c.entry ∈ (candsT s).map Cand.entry := by
    intro c hc
    apply List.mem_map_of_mem
    unfold candsT valueCands
    simp only [hv, if_true]
    rcases hc with hc | hc <;> simp [hc]
  refine ⟨hval ⟨true, publicName f.name, .getter i⟩ (Or.inl hg),
    hval ⟨true, "With" ++ publicName f.name, .withF i⟩ (Or.inr (hw _ (by simp))), ?_⟩
  intro ho
  exact ⟨hval ⟨true, "WithSome" ++ publicName f.name, .withSome i⟩ (Or.inr (hw _ (by simp [ho]))),
    hval ⟨true, "WithNone" ++ publicName f.name, .withNone i⟩ (Or.inr (hw _ (by simp [ho])))⟩

def userSpec : StructSpec :=
  { name := "User", ann := { value := true },
    fields := [{ name := "email", ty := .opt (.conc "string") }, { name := "someEmail", ty := .conc "string" }] }

def smallSpec : StructSpec :=
  { name := "T", ann := { value := true },
    fields := [{ name := "a", ty := .conc "int" }, { name := "Pub", ty := .conc "int" }, { name := "_u", ty := .conc "int" }] }

def okSpec : StructSpec :=
  { name := "T", ann := { value := true, json := true, genLabelled := true },
    fields := [{ name := "a", ty := .conc "int" }, { name := "o", ty := .opt (.conc "string") }, { name := "_u", ty := .conc "int" }] }

/-- The collision the hypothesis excludes: `email fp.Option[string]` next to `someEmail string`.
    `WithSomeEmail` is emitted once, for `email`; the field `someEmail` gets no `With` at all — and the
    builder gets two methods called `SomeEmail`, so the file does not compile. -/
theorem someEmail_collision :
    ("WithSomeEmail", Meth.withSome 0) ∈ methodsT userSpec ∧ ("WithSomeEmail", Meth.withF 1) ∉ methodsT userSpec
    ∧ (clashes userSpec).contains "dup method B.SomeEmail" = true := by
  decide +kernel

/-- Fields gombok does not touch: `_`-prefixed and public ones get no getter / `With` / builder setter under @fp.Value. -/
theorem no_methods_for_public_fields :
    (methodsT smallSpec).names = ["A", "WithA", "String", "AsTuple", "Unapply", "AsMap", "Builder", "AsMutable"]
    ∧ (methodsB smallSpec).names = ["Build", "A", "FromTuple", "Apply", "FromMap"]
    ∧ unapply smallSpec [.atom "1", .atom "2", .atom "3"] = [.atom "1", .atom "2"] := by
  decide +kernel

/-! ## hypotheses are satisfiable -/

example : ∃ s : StructSpec, DistinctNames s ∧ s.userT = [] ∧ ((candsT s).map Cand.name).Nodup ∧ s.valueRuns = true :=
  ⟨okSpec, by unfold DistinctNames; decide +kernel⟩

example : WT (.opt (.iface "any" true [])) (.some (.iface "int" (.atom "1"))) ∧
    recoverable (.opt (.iface "any" true [])) (.some (.iface "int" (.atom "1"))) = true := by
  constructor
  · simp [WT]
  · decide +kernel

/-! # Audit finding 21: builder semantics, the builder method table, the missing directions

Definitions used below (`PBuilder`, `pbSet`, `pbBuild`, `runSetter`, `candsB`, `entryOK`, …) are in
`Lemmas/RecordBuilder.lean`; nothing in `Model/Record.lean` changed. -/

/-! ## Builder: a partial record, setters, `Build`

`type TBuilder T`; `Builder()` / `Build()` are conversions; the setter of a private field is
`r.f = v; return r`.  A builder is a partial record (`none` = never assigned = holds the zero value). -/

/-- `x.Builder().Build() = x`, against the partial-record builder -/
theorem builder_roundtrip_pb (s : StructSpec) (x : Rec) (hx : Rec.WF s x) : pbBuild s.fields (pbOf x) = x :=
  pbBuild_of s.fields x hx

/-- the old statement is the same fact seen through the conversion: the model's `build ∘ toBuilder` agrees
    with `Build` of the everywhere-defined partial record -/
theorem builder_roundtrip_agrees (s : StructSpec) (x : Rec) (hx : Rec.WF s x) :
    build (toBuilder x) = pbBuild s.fields (pbOf x) := by
  rw [builder_roundtrip_pb s x hx]; rfl

/-- `TBuilder{}.Build()` is the zero value of the struct -/
theorem builder_empty_build (s : StructSpec) : pbBuild s.fields (pbEmpty s) = s.zero := pbBuild_empty s

/-- every builder setter is the corresponding `With` on the value that is built: `b.F(v).Build() = b.Build().WithF(v)` -/
theorem builder_setter_is_with (s : StructSpec) (i : Nat) (v : RV) (b : PBuilder) :
    pbBuild s.fields (pbSet i v b) = withF i v (pbBuild s.fields b) :=
  pbBuild_set s.fields i v b

/-- the three setter LABELS of the method table have this meaning: `bSet i` is `WithF`, `bSome i` is `WithSomeF`,
    `bNone i` is `WithNoneF` on the built value -/
theorem builder_setter_labels (s : StructSpec) (i : Nat) (v : RV) (b : PBuilder) :
    pbBuild s.fields (pbRun (.bSet i) v b) = withF i v (pbBuild s.fields b)
    ∧ pbBuild s.fields (pbRun (.bSome i) v b) = withSome i v (pbBuild s.fields b)
    ∧ pbBuild s.fields (pbRun (.bNone i) v b) = withNone i (pbBuild s.fields b) :=
  ⟨pbBuild_run s.fields _ v b, pbBuild_run s.fields _ v b, pbBuild_run s.fields _ v b⟩

/-- a setter sets its field and nothing else -/
theorem builder_set_get (s : StructSpec) (i j : Nat) (v : RV) (b : PBuilder) (hb : b.length = s.fields.length)
    (hi : i < s.fields.length) :
    getF i (pbBuild s.fields (pbSet i v b)) = v
    ∧ (i ≠ j → getF j (pbBuild s.fields (pbSet i v b)) = getF j (pbBuild s.fields b)) := by
  rw [builder_setter_is_with]
  exact ⟨get_with _ i v (by rw [pbBuild_length s.fields b hb]; exact hi), get_with_other _ i j v⟩

/-- the last call of a setter wins -/
theorem builder_last_set_wins (i : Nat) (v w : RV) (b : PBuilder) : pbSet i w (pbSet i v b) = pbSet i w b :=
  pbSet_pbSet i v w b

/-- setters of different fields commute -/
theorem builder_setters_commute (i j : Nat) (v w : RV) (b : PBuilder) (h : i ≠ j) :
    pbSet i v (pbSet j w b) = pbSet j w (pbSet i v b) :=
  pbSet_comm i j v w b h

/-- a chain of setter calls, then `Build`: each field holds the argument of the LAST call of its setter, and
    what the builder held before (its zero value, if never assigned) when its setter was not called -/
theorem builder_chain_field (s : StructSpec) (ps : List (Nat × RV)) (b : PBuilder) (j : Nat)
    (hb : b.length = s.fields.length) (hj : j < s.fields.length) :
    getF j (pbBuild s.fields (pbSetAll ps b)) = (lastSet ps j).getD (getF j (pbBuild s.fields b)) :=
  getF_pbBuild_setAll s.fields ps b j (by omega) hb

/-- calls of pairwise different setters may be made in any order -/
theorem builder_chain_any_order (ps ps' : List (Nat × RV)) (h : ps.Perm ps') (hn : (ps.map (·.1)).Nodup)
    (b : PBuilder) : pbSetAll ps b = pbSetAll ps' b :=
  pbSetAll_perm h hn b

/-- Setting the fields `is` (any order, repetitions allowed) to x's values: exactly those fields are x's. -/
theorem builder_set_from (s : StructSpec) (x : Rec) (b : PBuilder) (is : List Nat)
    (hb : b.length = s.fields.length) (j : Nat) (hj : j < s.fields.length) :
    getF j (pbBuild s.fields (pbSetAll (is.map fun i => (i, getF i x)) b))
      = if j ∈ is then getF j x else getF j (pbBuild s.fields b) := by
  rw [builder_chain_field s _ b j hb hj,
    lastSet_of_fun (fun i => getF i x) _ (by intro p hp; simp at hp; obtain ⟨a, _, rfl⟩ := hp; rfl)]
  have : (is.map fun i => (i, getF i x)).map (·.1) = is := by simp [List.map_map, Function.comp_def]
  rw [this]
  split <;> simp

/-- **builder round trip, against the setters**: from ANY builder, calling the setter of every field with x's
    value — in any order, any number of times — and then `Build` gives `x`. -/
theorem builder_roundtrip_setters (s : StructSpec) (x : Rec) (b : PBuilder) (is : List Nat) (hx : Rec.WF s x)
    (hb : b.length = s.fields.length) (hall : ∀ j, j < s.fields.length → j ∈ is) :
    pbBuild s.fields (pbSetAll (is.map fun i => (i, getF i x)) b) = x := by
  have hl : (pbBuild s.fields (pbSetAll (is.map fun i => (i, getF i x)) b)).length = s.fields.length :=
    pbBuild_length _ _ (by rw [pbSetAll_length]; exact hb)
  apply ext_getF _ _ (by rw [hl]; exact hx.symm)
  intro j hj
  rw [hl] at hj
  rw [builder_set_from s x b is hb j hj, if_pos (hall j hj)]

/-- What the GENERATED setters can reach (there is one per *private* field only): from the empty builder, the
    setters of all private fields in declaration order give x on the private fields, the zero value elsewhere. -/
theorem builder_roundtrip_private (s : StructSpec) (x : Rec) (j : Nat) (f : Field)
    (hf : s.fields[j]? = some f) :
    getF j (pbBuild s.fields (pbSetAll ((privIdx s).map fun i => (i, getF i x)) (pbEmpty s)))
      = if f.isPrivate then getF j x else f.zero := by
  have hj : j < s.fields.length := by
    rcases Nat.lt_or_ge j s.fields.length with h | h
    · exact h
    · simp [List.getElem?_eq_none h] at hf
  rw [builder_set_from s x (pbEmpty s) (privIdx s) (by simp [pbEmpty]) j hj, builder_empty_build]
  have hz : getF j s.zero = f.zero := by
    simp [getF, StructSpec.zero, List.getD_eq_getElem?_getD, hf]
  cases hp : f.isPrivate
  · have : ¬ j ∈ privIdx s := by
      rw [mem_privIdx]; rintro ⟨g, hg, hgp⟩
      rw [hf] at hg; cases hg; simp [hp] at hgp
    simp [this, hz]
  · have : j ∈ privIdx s := (mem_privIdx s j).mpr ⟨f, hf, hp⟩
    simp [this]

/-- … hence when every field is private the generated setters rebuild `x` from nothing -/
theorem builder_roundtrip_all_private (s : StructSpec) (x : Rec) (hx : Rec.WF s x)
    (hp : ∀ f ∈ s.fields, f.isPrivate = true) :
    pbBuild s.fields (pbSetAll ((privIdx s).map fun i => (i, getF i x)) (pbEmpty s)) = x := by
  apply builder_roundtrip_setters s x _ _ hx (by simp [pbEmpty])
  intro j hj
  exact (mem_privIdx s j).mpr ⟨s.fields[j], by simp [hj], hp _ (List.getElem_mem hj)⟩

/-! ## the builder / mutable method tables -/

/-- `genBuilder`, builder receiver, for EVERY spec: the attempts `candsB` in order (Build, per private field F
    [SomeF NoneF], [FromTuple], Apply, FromMap, [FromLabelled]) minus the names the user defined on the builder type -/
theorem methodsB_closed_form (s : StructSpec) :
    genBuilderB s = (candsB s).filter (keepB s.userB)
    ∧ (s.valueRuns = true → s.ann.builder = false → methodsB s = (candsB s).filter (keepB s.userB)) := by
  refine ⟨genBuilderB_eq s, ?_⟩
  intro hv hb
  simp [methodsB, hv, hb, genBuilderB_eq]

/-- The plain setters, for every spec: one per private field whose `publicName` the user has not taken, in
    declaration order, named `publicName f.name`, labelled `bSet <index of f>`. -/
theorem builder_setters_declaration_order (s : StructSpec) :
    (genBuilderB s).filter isBSet = ((indexed s.fields).filterMap bSetEntry).filter (keepB s.userB) := by
  rw [genBuilderB_eq, List.filter_filter, ← filter_isBSet_candsB, List.filter_filter]
  congr 1; funext e; exact Bool.and_comm _ _

/-- without user-written builder methods: the setter names are the `publicName`s of the private fields in
    declaration order, their labels are `bSet i` for the increasing list of the private fields' indices, no index
    occurs twice, and an index occurs iff its field is private -/
theorem builder_setters_names (s : StructSpec) (hu : s.userB = []) :
    ((genBuilderB s).filter isBSet).map (·.1) = (s.fields.filter Field.isPrivate).map (fun f => publicName f.name)
    ∧ ((genBuilderB s).filter isBSet).map (·.2) = (privIdx s).map Meth.bSet
    ∧ (privIdx s).Nodup
    ∧ ∀ i, i ∈ privIdx s ↔ ∃ f, s.fields[i]? = some f ∧ f.isPrivate = true := by
  have h : (genBuilderB s).filter isBSet = (indexed s.fields).filterMap bSetEntry := by
    rw [builder_setters_declaration_order, hu]
    apply List.filter_eq_self.mpr
    intro e _; simp [keepB]
  refine ⟨?_, ?_, privIdx_nodup s, mem_privIdx s⟩
  · rw [h, bSetEntries_names, indexed_map_snd]
  · rw [h, bSetEntries_labels]; rfl

/-- every private field has its setter EXACTLY ONCE (unless the user wrote a builder method of that name) -/
theorem builder_setter_exactly_once (s : StructSpec) (i : Nat) (f : Field) (hf : s.fields[i]? = some f)
    (hp : f.isPrivate = true) (hu : s.userB.contains (publicName f.name) = false) :
    (genBuilderB s).count (publicName f.name, Meth.bSet i) = 1 := by
  have h1 : isBSet (publicName f.name, Meth.bSet i) = true := rfl
  have h2 : keepB s.userB (publicName f.name, Meth.bSet i) = true := by
    show (!s.userB.contains (publicName f.name)) = true
    rw [hu]; rfl
  rw [← List.count_filter h1, builder_setters_declaration_order, List.count_filter h2,
    (bSetEntries_nodup s).count]
  have : (publicName f.name, Meth.bSet i) ∈ (indexed s.fields).filterMap bSetEntry := by
    rw [List.mem_filterMap]
    exact ⟨(i, f), (mem_indexed_iff _ _ _).mpr hf, by simp [bSetEntry, hp]⟩
  simp [this]

/-- public, `_` and every other non-private field: no setter at all -/
theorem builder_no_setter_for_public (s : StructSpec) (i : Nat) (f : Field) (hf : s.fields[i]? = some f)
    (hp : f.isPrivate = false) (n : String) : (n, Meth.bSet i) ∉ genBuilderB s := by
  intro hm
  have : (n, Meth.bSet i) ∈ (genBuilderB s).filter isBSet := List.mem_filter.mpr ⟨hm, rfl⟩
  rw [builder_setters_declaration_order] at this
  have := (List.mem_filter.mp this).1
  rw [List.mem_filterMap] at this
  obtain ⟨⟨k, g⟩, hkg, he⟩ := this
  have hg := (mem_indexed_iff _ _ _).mp hkg
  cases hgp : g.isPrivate
  · simp [bSetEntry, hgp] at he
  · simp [bSetEntry, hgp] at he
    obtain ⟨_, rfl⟩ := he
    rw [hf] at hg; cases hg; simp [hp] at hgp

/-- the Mutable twin has exactly one method (its fields are exported, there are no getters to generate) -/
theorem methodsM_closed_form (s : StructSpec) :
    methodsM s = if s.valueRuns && !s.userM.contains "AsImmutable" then [("AsImmutable", Meth.asImmutable)] else [] := by
  unfold methodsM emitB
  cases s.valueRuns <;> cases s.userM.contains "AsImmutable" <;> simp

/-- struct receiver: under the hypotheses of `methodsT_complete` no method name is generated twice — together with
    `private_field_methods`: every private field has its getter / `With` exactly once -/
theorem methodsT_names_nodup (s : StructSpec) (hu : s.userT = [])
    (hnd : ((candsT s).map Cand.name).Nodup) : (methodsT s).names.Nodup := by
  rw [methodsT_complete s hu hnd]
  simpa [Table.names, List.map_map, Function.comp_def, Cand.entry] using hnd

/-! ## AsMutable / AsImmutable: the direction that starts from an ARBITRARY Mutable value

`asMutable_asImmutable` above only covers Mutable values that came out of `AsMutable` (it is `mask_idem`). -/

/-- `m.AsImmutable().AsMutable()` is `m` on the applicable fields and the zero value elsewhere, for every `m` -/
theorem asMutable_asImmutable_any (s : StructSpec) (m : Rec) : asMutable s (asImmutable s m) = mask s.fields m :=
  mask_idem s.fields m

theorem asMutable_asImmutable_field (s : StructSpec) (m : Rec) (i : Nat) (f : Field)
    (hf : s.fields[i]? = some f) (happ : f.applicable = true) :
    getF i (asMutable s (asImmutable s m)) = getF i m := by
  rw [asMutable_asImmutable_any]; exact getF_mask_applicable s.fields m i f hf happ

/-- inverse outright when every field is applicable -/
theorem asMutable_asImmutable_id (s : StructSpec) (m : Rec) (hm : Rec.WF s m)
    (happ : ∀ f ∈ s.fields, f.applicable = true) : asMutable s (asImmutable s m) = m := by
  rw [asMutable_asImmutable_any]; exact mask_eq_self s.fields m hm happ

/-- and not otherwise: a Mutable value whose `_` field is not zero does not survive -/
theorem asMutable_asImmutable_loses_blank :
    asMutable smallSpec (asImmutable smallSpec [.atom "1", .atom "2", .atom "3"]) = [.atom "1", .atom "2", .atom "0"] := by
  decide +kernel

/-! ## AsLabelled / FromLabelled: the other direction -/

/-- The labels of `t` are those of the struct.  In Go this is not a runtime condition: the parameter type of
    `FromLabelled` is `fp.LabelledN[NamedF1[T1], …]`, whose `Name()` / `Tag()` are constants of the field. -/
def WellLabelled (s : StructSpec) (t : List Lab) : Prop :=
  t.map Lab.name = s.applicableFields.map Field.name ∧ t.map Lab.tag = s.applicableFields.map Field.tag

theorem wf_fromLabelled (s : StructSpec) (b : Rec) (t : List Lab) (hb : Rec.WF s b) : Rec.WF s (fromLabelled s b t) := by
  simpa [Rec.WF, fromLabelled, inject_length] using hb

/-- what `AsLabelled` returns is well labelled (so the hypothesis of `asLabelled_fromLabelled` is satisfiable, and
    is satisfied by everything `FromLabelled` is ever applied to in a round trip) -/
theorem asLabelled_wellLabelled (s : StructSpec) (x : Rec) (hx : Rec.WF s x) (ht : s.hasTuple = true) :
    WellLabelled s (asLabelled s x) :=
  ⟨(asLabelled_names s x hx ht).1, (asLabelled_names s x hx ht).2.1⟩

/-- `FromLabelled` is positional, so for ANY labelled tuple of the right length the VALUES come back -/
theorem asLabelled_fromLabelled_values (s : StructSpec) (b : Rec) (t : List Lab) (hb : Rec.WF s b)
    (ht : s.hasTuple = true) (hlen : t.length = s.nApp) :
    (asLabelled s (fromLabelled s b t)).map Lab.value = t.map Lab.value := by
  have ha : s.arity = s.nApp := arity_of_hasTuple s ht
  rw [(asLabelled_names s _ (wf_fromLabelled s b t hb) ht).2.2]
  have h1 : fromLabelled s b t = apply s b (t.map Lab.value) := by
    simp [fromLabelled, apply, ha, ← hlen]
  rw [h1]
  exact unapply_apply s b _ hb (by simpa using hlen)

/-- **`AsLabelled(FromLabelled(t)) = t`** for every well-labelled `t`, from any builder -/
theorem asLabelled_fromLabelled (s : StructSpec) (b : Rec) (t : List Lab) (hb : Rec.WF s b)
    (ht : s.hasTuple = true) (hw : WellLabelled s t) : asLabelled s (fromLabelled s b t) = t := by
  have hlen : t.length = s.nApp := by
    have := congrArg List.length hw.1
    simpa [StructSpec.nApp] using this
  have hn := asLabelled_names s _ (wf_fromLabelled s b t hb) ht
  exact lab_ext _ _ (hn.1.trans hw.1.symm) (asLabelled_fromLabelled_values s b t hb ht hlen) (hn.2.1.trans hw.2.symm)

/-- without the condition the direction is false: the names of the argument are not consulted, a tuple carrying
    other names is accepted and comes back relabelled -/
theorem asLabelled_fromLabelled_relabels :
    let t : List Lab := [⟨"zzz", .atom "1", ""⟩, ⟨"a", .none, "x"⟩]
    asLabelled okSpec (fromLabelled okSpec okSpec.zero t) = [⟨"a", .atom "1", ""⟩, ⟨"o", .none, ""⟩]
    ∧ asLabelled okSpec (fromLabelled okSpec okSpec.zero t) ≠ t := by
  decide +kernel

/-! ## AsMap / FromMap: the other direction, and the first direction for whole records -/

theorem wf_fromMap (s : StructSpec) (b : Rec) (m : GoMap) (hb : Rec.WF s b) : Rec.WF s (fromMap s.fields b m) := by
  simpa [Rec.WF, fromMap_length] using hb

/-- `AsMap(FromMap(m))`, key by key, with no condition on `m`: under the name of an applicable field the map
    holds what `AsMap` writes for the value `FromMap` put into that field (nil when it writes nothing) -/
theorem asMap_fromMap_key_general (s : StructSpec) (b : Rec) (m : GoMap) (hb : Rec.WF s b) (hn : DistinctNames s)
    (i : Nat) (f : Field) (hf : s.fields[i]? = some f) (happ : f.applicable = true) :
    (asMap s (fromMap s.fields b m)).get f.name
      = (mapEntry f (fromEntry f (getF i b) (m.get f.name))).getD none := by
  unfold asMap
  rw [asMapAux_get_own s.fields _ [] i f (wf_fromMap s b m hb) hn hf happ, getF_fromMap s.fields b m i f hb hf]
  simp only [happ, if_true]
  cases mapEntry f (fromEntry f (getF i b) (m.get f.name)) <;> rfl

/-- **`AsMap(FromMap(m))[k] = m[k]`** for the key of every applicable field whose entry is canonical (`entryOK`:
    the assertion to the field type succeeds; for an Option field, the assertion to its element type) -/
theorem asMap_fromMap_key (s : StructSpec) (b : Rec) (m : GoMap) (hb : Rec.WF s b) (hn : DistinctNames s)
    (i : Nat) (f : Field) (hf : s.fields[i]? = some f) (happ : f.applicable = true)
    (hok : entryOK f (m.get f.name) = true) :
    (asMap s (fromMap s.fields b m)).get f.name = m.get f.name := by
  rw [asMap_fromMap_key_general s b m hb hn i f hf happ, mapEntry_fromEntry f _ _ happ hok]
  rfl

/-- … and restricted to those keys: every key that is not the name of an applicable field is dropped -/
theorem asMap_foreign_key (s : StructSpec) (y : Rec) (k : String)
    (hk : ∀ f ∈ s.fields, f.applicable = true → f.name ≠ k) : (asMap s y).get k = none := by
  unfold asMap
  rw [asMapAux_get_other s.fields y [] k hk]
  rfl

/-- Without `entryOK` the direction is false even for an entry `FromMap` accepts: an `fp.Option[string]` stored under
    the key of an Option field is taken by the first assertion, and `AsMap` writes it back UNWRAPPED (a `string`). -/
theorem asMap_fromMap_unwraps_option :
    let m : GoMap := [("o", some ("fp.Option[string]", .some (.atom "x")))]
    let f : Field := { name := "o", ty := .opt (.conc "string") }
    getF 1 (fromMap okSpec.fields okSpec.zero m) = .some (.atom "x")
    ∧ (asMap okSpec (fromMap okSpec.fields okSpec.zero m)).get "o" = some ("string", .atom "x")
    ∧ (asMap okSpec (fromMap okSpec.fields okSpec.zero m)).get "o" ≠ m.get "o"
    ∧ entryOK f (m.get "o") = false := by
  decide +kernel

/-- … and an entry of the wrong dynamic type is ignored by `FromMap`; `AsMap` then writes the builder's value -/
theorem asMap_fromMap_wrong_type :
    let m : GoMap := [("a", some ("string", .atom "x"))]
    (asMap okSpec (fromMap okSpec.fields okSpec.zero m)).get "a" = some ("int", .atom "0")
    ∧ entryOK { name := "a", ty := .conc "int" } (m.get "a") = false := by
  decide +kernel

theorem pick_self (s : StructSpec) (x : Rec) (hx : Rec.WF s x) : pick s.fields x x = x := by
  rw [← apply_unapply s x x hx hx, apply_unapply_self s x hx]

/-- **`FromMap(AsMap(x))` for whole records**: when every applicable field of `x` is well typed and recoverable by
    type assertion, every applicable field is x's and every other field is the builder's -/
theorem fromMap_asMap_pick (s : StructSpec) (x b : Rec) (hx : Rec.WF s x) (hb : Rec.WF s b) (hn : DistinctNames s)
    (hrec : ∀ i f, s.fields[i]? = some f → f.applicable = true →
      WT f.ty (getF i x) ∧ recoverable f.ty (getF i x) = true) :
    fromMap s.fields b (asMap s x) = pick s.fields x b := by
  apply ext_getF _ _ (by rw [fromMap_length, pick_length s.fields x b hx hb]; exact hb)
  intro j hj
  rw [fromMap_length] at hj
  have hj' : j < s.fields.length := by rw [← hb]; exact hj
  have hf : s.fields[j]? = some s.fields[j] := by simp [hj']
  have h := fromMap_asMap_field s x b hx hb hn j _ hf
  rw [getF_pick s.fields x b j _ hx hb hf]
  cases happ : (s.fields[j]).applicable
  · simpa using h.2 happ
  · have hr := hrec j _ hf happ
    simpa using h.1 happ hr.1 hr.2

/-- from x's own builder: `x.Builder().FromMap(x.AsMap()).Build() = x` -/
theorem fromMap_asMap_self (s : StructSpec) (x : Rec) (hx : Rec.WF s x) (hn : DistinctNames s)
    (hrec : ∀ i f, s.fields[i]? = some f → f.applicable = true →
      WT f.ty (getF i x) ∧ recoverable f.ty (getF i x) = true) :
    fromMap s.fields x (asMap s x) = x := by
  rw [fromMap_asMap_pick s x x hx hx hn hrec, pick_self s x hx]

/-! ## the new hypotheses are satisfiable -/

example : ∃ (s : StructSpec) (t : List Lab), s.hasTuple = true ∧ WellLabelled s t ∧ t ≠ [] :=
  ⟨okSpec, [⟨"a", .atom "1", ""⟩, ⟨"o", .none, ""⟩], by unfold WellLabelled; decide +kernel⟩

example : ∃ (f : Field) (m : GoMap), f.applicable = true ∧ entryOK f (m.get f.name) = true :=
  ⟨{ name := "o", ty := .opt (.conc "string") }, [("o", some ("string", .atom "x"))], by decide +kernel⟩

example : ∃ (s : StructSpec) (x : Rec), Rec.WF s x ∧ DistinctNames s ∧
    ∀ i f, s.fields[i]? = some f → f.applicable = true → WT f.ty (getF i x) ∧ recoverable f.ty (getF i x) = true := by
  refine ⟨okSpec, [.atom "1", .some (.atom "x"), .atom "3"], rfl, by unfold DistinctNames; decide +kernel, ?_⟩
  intro i f hf happ
  match i, hf with
  | 0, hf => cases hf; exact ⟨trivial, rfl⟩
  | 1, hf => cases hf; exact ⟨by simp [getF, WT], by decide +kernel⟩
  | 2, hf => cases hf; simp [Field.applicable] at happ

example : ∃ (s : StructSpec) (i : Nat) (f : Field), s.fields[i]? = some f ∧ f.isPrivate = true ∧
    s.userB.contains (publicName f.name) = false :=
  ⟨okSpec, 0, _, rfl, by decide +kernel, by decide +kernel⟩

end FpVerif.Spec.C07
