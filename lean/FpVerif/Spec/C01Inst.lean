import FpVerif.Model.TryOpt
import FpVerif.Spec.C01
/-!
# C01 (part 2) — Option, Try, Either and StateT satisfy the monad laws

`FlatMap` with the unit of each package satisfies left identity and associativity
unconditionally, hence (by `Spec/C01.lean`) every generated combinator of the four packages equals
its definition.  Right identity holds for every value except the zero-value `Try{}` / `Failure(nil)`,
on which the library panics ("Try not initialized correctly") — stated as the excluded branch.
The packages' own loop-style `FoldM` equals the `FlatMap` chain.
-/
namespace FpVerif.Spec.C01
open FpVerif MonadFamily

variable {A B D R S L : Type}

theorem try_lawful : (TryM.ops).Lawful where
  seq_pure a k := by simp [TryM.ops]
  seq_bind g h k := by simp [TryM.ops]
  flatMap_seq g k h := by simp [TryM.ops]
  left_id a k := by simp [TryM.ops, TryM.flatMap]
  assoc m k h := by
    simp only [TryM.ops, bind_assoc]
    congr 1; funext t
    cases t with
    | success a => simp [TryM.flatMap]
    | failure e => cases e <;> simp [TryM.flatMap, Try.failedGet]

theorem option_lawful : (OptM.ops).Lawful where
  seq_pure a k := by simp [OptM.ops]
  seq_bind g h k := by simp [OptM.ops]
  flatMap_seq g k h := by simp [OptM.ops]
  left_id a k := by simp [OptM.ops, OptM.flatMap]
  assoc m k h := by
    simp only [OptM.ops, bind_assoc]
    congr 1; funext t
    cases t <;> simp [OptM.flatMap]

theorem either_lawful : (EitM.ops L).Lawful where
  seq_pure a k := by simp [EitM.ops]
  seq_bind g h k := by simp [EitM.ops]
  flatMap_seq g k h := by simp [EitM.ops]
  left_id a k := by simp [EitM.ops, EitM.flatMap]
  assoc m k h := by
    simp only [EitM.ops, bind_assoc]
    congr 1; funext t
    cases t <;> simp [EitM.flatMap]

theorem statet_lawful : (StM.ops S).Lawful where
  seq_pure a k := by funext s; simp [StM.ops]
  seq_bind g h k := by funext s; simp [StM.ops]
  flatMap_seq g k h := by funext s; simp [StM.ops, StM.flatMap]
  left_id a k := by funext s; simp [StM.ops, StM.flatMap, StM.pure]
  assoc m k h := by
    funext s
    simp only [StM.ops, StM.flatMap, bind_assoc, pure_bind]
    congr 1; funext ⟨r, ns⟩
    cases r with
    | success a => simp
    | failure e => cases e <;> simp [Try.failedGet]

-- right identity ---------------------------------------------------------------------------------

theorem option_right_id (m : GoM (Option A)) : (OptM.ops).flatMap m (OptM.ops).pure' = m := by
  simp only [OptM.ops]
  conv => rhs; rw [← bind_pure m]
  congr 1; funext t; cases t <;> simp [OptM.flatMap]

theorem either_right_id (m : GoM (Either L A)) : (EitM.ops L).flatMap m (EitM.ops L).pure' = m := by
  simp only [EitM.ops]
  conv => rhs; rw [← bind_pure m]
  congr 1; funext t; cases t <;> simp [EitM.flatMap]

/-- Right identity for Try on every value except the zero value. -/
theorem try_right_id (t : Try A) (h : t ≠ .failure .nil) :
    (TryM.ops).flatMap (pure t) (TryM.ops).pure' = pure t := by
  cases t with
  | success a => simp [TryM.ops, TryM.flatMap]
  | failure e => cases e <;> simp_all [TryM.ops, TryM.flatMap, Try.failedGet]

/-- … and the excluded branch: the zero value makes `FlatMap` panic. -/
theorem try_flatMap_zero (k : A → GoM (Try B)) :
    (TryM.ops).flatMap (pure (.failure .nil)) k = throw "ErrNotInit" := by
  simp [TryM.ops, TryM.flatMap, Try.failedGet]

-- the packages' loop-style FoldM is the FlatMap chain --------------------------------------------------

theorem option_foldM_cons (x : A) (xs : List A) (z : B) (f : B → A → GoM (Option B)) :
    OptM.foldM (x :: xs) z f = (OptM.ops).flatMap (f z x) (fun b => OptM.foldM xs b f) := by
  simp only [OptM.foldM, OptM.ops]
  congr 1

theorem either_foldM_cons (x : A) (xs : List A) (z : B) (f : B → A → GoM (Either L B)) :
    EitM.foldM (x :: xs) z f = (EitM.ops L).flatMap (f z x) (fun b => EitM.foldM xs b f) := by
  simp only [EitM.foldM, EitM.ops]
  congr 1

/-- For Try the loop hands a failing step's value back unchanged, the chain re-wraps its error:
    the two agree whenever the step is not the zero value. -/
theorem try_foldM_cons (x : A) (xs : List A) (z : B) (f : B → A → GoM (Try B)) (t : Try B)
    (hf : f z x = pure t) (ht : t ≠ .failure .nil) :
    TryM.foldM (x :: xs) z f = (TryM.ops).flatMap (f z x) (fun b => TryM.foldM xs b f) := by
  simp only [TryM.foldM, TryM.ops, hf, pure_bind]
  cases t with
  | success a => simp [TryM.flatMap]
  | failure e => cases e <;> simp_all [TryM.flatMap, Try.failedGet]

end FpVerif.Spec.C01
