import FpVerif.Model.TryOpt
import FpVerif.Spec.C01
/-!
# C01 (part 2) — Option, Try, Either and StateT satisfy the monad laws

`FlatMap` with the unit of each package satisfies left identity and associativity
unconditionally, hence (by `Spec/C01.lean`) every generated combinator of the four packages equals
its definition.  Right identity holds for every value except the zero-value `Try{}` / `Failure(nil)`,
on which the library panics ("Try not initialized correctly") — stated as the excluded branch.
The packages' own loop-style `FoldM` equals the `FlatMap` chain.
-/
namespace FpVerif.Spec.C01
open FpVerif MonadFamily

variable {A B D R S L : Type}

theorem try_lawful : (TryM.ops).Lawful where
  seq_pure a k := by simp [TryM.ops]
  seq_bind g h k := by simp [TryM.ops]
  flatMap_seq g k h := by simp [TryM.ops]
  left_id a k := by simp [TryM.ops, TryM.flatMap]
  assoc m k h := by
    simp only [TryM.ops, bind_assoc]
    congr 1; funext t
    cases t with
    | success a => simp [TryM.flatMap]
    | failure e => cases e <;> simp [TryM.flatMap, Try.failedGet]

theorem option_lawful : (OptM.ops).Lawful where
  seq_pure a k := by simp [OptM.ops]
  seq_bind g h k := by simp [OptM.ops]
  flatMap_seq g k h := by simp [OptM.ops]
  left_id a k := by simp [OptM.ops, OptM.flatMap]
  assoc m k h := by
    simp only [OptM.ops, bind_assoc]
    congr 1; funext t
    cases t <;> simp [OptM.flatMap]

theorem either_lawful : (EitM.ops L).Lawful where
  seq_pure a k := by simp [EitM.ops]
  seq_bind g h k := by simp [EitM.ops]
  flatMap_seq g k h := by simp [EitM.ops]
  left_id a k := by simp [EitM.ops, EitM.flatMap]
  assoc m k h := by
    simp only [EitM.ops, bind_assoc]
    congr 1; funext t
    cases t <;> simp [EitM.flatMap]

theorem statet_lawful : (StM.ops S).Lawful where
  seq_pure a k := by funext s; simp [StM.ops]
  seq_bind g h k := by funext s; simp [StM.ops]
  flatMap_seq g k h := by funext s; simp [StM.ops, StM.flatMap]
  left_id a k := by funext s; simp [StM.ops, StM.flatMap, StM.pure]
  assoc m k h := by
    funext s
    simp only [StM.ops, StM.flatMap, bind_assoc, pure_bind]
    congr 1; funext ⟨r, ns⟩
    cases r with
    | success a => simp
    | failure e => cases e <;> simp [Try.failedGet]

-- right identity ---------------------------------------------------------------------------------

theorem option_right_id (m : GoM (Option A)) : (OptM.ops).flatMap m (OptM.ops).pure' = m := by
  simp only [OptM.ops]
  conv => rhs; rw [← bind_pure m]
  congr 1; funext t; cases t <;> simp [OptM.flatMap]

theorem either_right_id (m : GoM (Either L A)) : (EitM.ops L).flatMap m (EitM.ops L).pure' = m := by
  simp only [EitM.ops]
  conv => rhs; rw [← bind_pure m]
  congr 1; funext t; cases t <;> simp [EitM.flatMap]

/-- Right identity for Try on every value except the zero value. -/
theorem try_right_id (t : Try A) (h : t ≠ .failure .nil) :
    (TryM.ops).flatMap (pure t) (TryM.ops).pure' = pure t := by
  cases t with
  | success a => simp [TryM.ops, TryM.flatMap]
  | failure e => cases e <;> simp_all [TryM.ops, TryM.flatMap, Try.failedGet]

/-- … and the excluded branch: the zero value makes `FlatMap` panic. -/
theorem try_flatMap_zero (k : A → GoM (Try B)) :
    (TryM.ops).flatMap (pure (.failure .nil)) k = throw "ErrNotInit" := by
  simp [TryM.ops, TryM.flatMap, Try.failedGet]

-- the packages' loop-style FoldM is the FlatMap chain --------------------------------------------------

theorem option_foldM_cons (x : A) (xs : List A) (z : B) (f : B → A → GoM (Option B)) :
    OptM.foldM (x :: xs) z f = (OptM.ops).flatMap (f z x) (fun b => OptM.foldM xs b f) := by
  simp only [OptM.foldM, OptM.ops]
  congr 1

theorem either_foldM_cons (x : A) (xs : List A) (z : B) (f : B → A → GoM (Either L B)) :
    EitM.foldM (x :: xs) z f = (EitM.ops L).flatMap (f z x) (fun b => EitM.foldM xs b f) := by
  simp only [EitM.foldM, EitM.ops]
  congr 1

/-- HYPOTHESIS-FREE (audit finding 14): the loop, for EVERY step function (it may log, panic, fail, return the
    zero value): run the step — once, with all its effects —, then continue on a Success and hand a Failure back
    as it is. -/
theorem try_foldM_cons_eq (x : A) (xs : List A) (z : B) (f : B → A → GoM (Try B)) :
    TryM.foldM (x :: xs) z f = (f z x >>= fun t =>
      match t with
      | .success s => TryM.foldM xs s f
      | .failure e => pure (.failure e)) := by
  simp only [TryM.foldM]
  congr 1

/-- HYPOTHESIS-FREE: the `FlatMap` chain is the loop WITH THE ZERO-VALUE GUARD — the only difference between the
    two is what happens when the step returns `Try{}` / `Failure(nil)`: the loop returns it, `FlatMap` panics. -/
theorem try_foldM_chain_eq (x : A) (xs : List A) (z : B) (f : B → A → GoM (Try B)) :
    (TryM.ops).flatMap (f z x) (fun b => TryM.foldM xs b f) = (f z x >>= fun t =>
      match t with
      | .success s => TryM.foldM xs s f
      | .failure .nil => throw "ErrNotInit"
      | .failure e => pure (.failure e)) := by
  simp only [TryM.ops]
  congr 1
  funext t
  cases t with
  | success a => simp [TryM.flatMap]
  | failure e => cases e <;> simp [TryM.flatMap, Try.failedGet]

/-- GENERAL form of `try_foldM_cons`: the step may have EFFECTS `act` (a log, other callbacks — any `GoM`
    computation of any result type) before it returns `t`. -/
theorem try_foldM_cons_eff {X : Type} (x : A) (xs : List A) (z : B) (f : B → A → GoM (Try B)) (t : Try B)
    (act : GoM X) (hf : f z x = act >>= fun _ => pure t) (ht : t ≠ .failure .nil) :
    TryM.foldM (x :: xs) z f = (TryM.ops).flatMap (f z x) (fun b => TryM.foldM xs b f) := by
  simp only [TryM.foldM, TryM.ops, hf, bind_assoc, pure_bind]
  congr 1
  funext _
  cases t with
  | success a => simp [TryM.flatMap]
  | failure e => cases e <;> simp_all [TryM.flatMap, Try.failedGet]

/-- MOST GENERAL form: the step never returns the zero value — stated, as `C17.NoNil`, as invariance of the step
    under the guard the library applies; no other restriction (the result may depend on the effects). -/
theorem try_foldM_cons_noNil (x : A) (xs : List A) (z : B) (f : B → A → GoM (Try B))
    (hf : (f z x >>= fun t => match t with
            | .failure .nil => (throw "ErrNotInit" : GoM (Try B))
            | t => pure t) = f z x) :
    TryM.foldM (x :: xs) z f = (TryM.ops).flatMap (f z x) (fun b => TryM.foldM xs b f) := by
  rw [try_foldM_cons_eq, try_foldM_chain_eq]
  conv => lhs; rw [← hf]
  simp only [bind_assoc]
  congr 1
  funext t
  cases t with
  | success a => simp
  | failure e => cases e <;> simp

/-- For Try the loop hands a failing step's value back unchanged, the chain re-wraps its error:
    the two agree whenever the step is not the zero value.  (The effect-free instance of `try_foldM_cons_eff`.) -/
theorem try_foldM_cons (x : A) (xs : List A) (z : B) (f : B → A → GoM (Try B)) (t : Try B)
    (hf : f z x = pure t) (ht : t ≠ .failure .nil) :
    TryM.foldM (x :: xs) z f = (TryM.ops).flatMap (f z x) (fun b => TryM.foldM xs b f) :=
  try_foldM_cons_eff x xs z f t (pure ()) (by simpa using hf) ht

/-- the excluded branch: a step returning the zero value (after any effects) — the loop returns it, the chain panics -/
theorem try_foldM_cons_zero {X : Type} (x : A) (xs : List A) (z : B) (f : B → A → GoM (Try B)) (act : GoM X)
    (hf : f z x = act >>= fun _ => pure (.failure .nil)) :
    TryM.foldM (x :: xs) z f = (act >>= fun _ => pure (.failure .nil)) ∧
    (TryM.ops).flatMap (f z x) (fun b => TryM.foldM xs b f) = (act >>= fun _ => throw "ErrNotInit") := by
  rw [try_foldM_cons_eq, try_foldM_chain_eq, hf]
  simp

-- non-vacuity: a step that logs and then fails
example : ∃ (f : Nat → Nat → GoM (Try Nat)) (act : GoM Unit) (t : Try Nat),
    f 0 1 = (act >>= fun _ => pure t) ∧ t ≠ .failure .nil ∧ f 0 1 ≠ pure t :=
  ⟨fun _ _ => do emit "k"; pure (.failure (.code 3)), emit "k", .failure (.code 3), rfl, by decide, by
    intro h
    have := congrArg (fun m => (GoM.exec m).2) h
    revert this
    decide⟩

end FpVerif.Spec.C01
