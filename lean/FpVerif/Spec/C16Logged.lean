import FpVerif.Spec.C16
/-!
# C16 (extension) — faithfulness for programs whose CONTINUATIONS HAVE SIDE EFFECTS

(AUDITFIX-B, audit finding 17.)  `C16.Prog` lets only the leaves (`call`), `map` functions and `map2`
functions log: the continuation `k : T → Prog T` of `flatMap` and the thunk `f : Unit → Prog T` of
`tailCall` are pure functions that RETURN a program.  In Go `func(T) lazy.Eval[T]` is arbitrary
code: it may log (write a file, append to a slice, …) before it returns the next `Eval`.  The
property's "including the order of all side effects" must cover those effects.

`LProg` is `C16.Prog` plus the constructor `logged evs p`: "producing the program `p` emitted the
events `evs`" — exactly the `Eval.logged` node of `Model/Eval.lean` (which the model had all along
and `C16.Prog` never used).  A continuation that logs is `fun v => .logged (evs v) (p v)`
(`flatMapW`, `tailCallW` below take writer-style continuations directly).

`C16.Prog` could not be extended in place: `Spec/C16Gen.lean` (a tie module) matches on its
constructors.  `Prog.embed` embeds it; `faithful_of_logged` re-derives `C16.faithful` from the new
theorem, so the old statement is a corollary.

Still NOT covered here (see the pointers): panicking thunks / continuations —
`Spec/C16PanicEval.lean`; sharing of one memoised `Eval` node between several parents and
concurrent `Get`s — `Spec/C16Panic.lean`; machine-stack depth — `Spec/C16Stack.lean`.
-/
namespace FpVerif.Spec.C16
open FpVerif FpVerif.EvalM

variable {T : Type} [Inhabited T]

/-- Eval programs whose continuations may log. -/
inductive LProg (T : Type) where
  | done (t : T)
  | call (f : Unit → W T)
  | tailCall (f : Unit → LProg T)
  | map (p : LProg T) (f : T → W T)
  | flatMap (p : LProg T) (k : T → LProg T)
  | map2 (p q : LProg T) (f : T → T → W T)
  /-- the user function that RETURNED the program `p` (a `FlatMap` continuation, a `TailCall`
      thunk) emitted `evs` while running -/
  | logged (evs : List Event) (p : LProg T)

/-- what the library builds -/
def ldenote : LProg T → Eval T
  | .done t => EvalM.done t
  | .call f => EvalM.call f
  | .tailCall f => EvalM.tailCall (fun u => ldenote (f u))
  | .map p f => EvalM.map (ldenote p) f
  | .flatMap p k => EvalM.flatMap (ldenote p) (fun v => ldenote (k v))
  | .map2 p q f => EvalM.map2 (ldenote p) (ldenote q) f
  | .logged evs p => .logged evs (ldenote p)

/-- strict evaluation: value and ALL effects — of leaves, of `map` functions and of the
    continuations themselves — in program order -/
def lstrict : LProg T → W T
  | .done t => (t, [])
  | .call f => f ()
  | .tailCall f => lstrict (f ())
  | .map p f => let (v, l1) := lstrict p; let (w, l2) := f v; (w, l1 ++ l2)
  | .flatMap p k => let (v, l1) := lstrict p; let (w, l2) := lstrict (k v); (w, l1 ++ l2)
  | .map2 p q f =>
    let (v1, l1) := lstrict p; let (v2, l2) := lstrict q; let (w, l3) := f v1 v2; (w, l1 ++ (l2 ++ l3))
  | .logged evs p => let (r, l) := lstrict p; (r, evs ++ l)

theorem run_logged (evs : List Event) (e : Eval T) :
    run (.logged evs e) = ((run e).1, evs ++ (run e).2) := rfl

/-- FAITHFULNESS with effectful continuations: for every program tree — continuations and tail-call
    thunks may log — trampolined evaluation yields the value and the complete event sequence of
    strict evaluation, in the same order. -/
theorem faithful_logged (p : LProg T) : run (ldenote p) = lstrict p := by
  induction p with
  | done t => rfl
  | call f => rfl
  | tailCall f ih => simp [ldenote, lstrict, run_tailCall, ih]
  | map p f ih => simp [ldenote, lstrict, run_map, ih]
  | flatMap p k ihp ihk => simp [ldenote, lstrict, run_flatMap, ihp, ihk]
  | map2 p q f ihp ihq => simp [ldenote, lstrict, run_map2, ihp, ihq]
  | logged evs p ih => simp [ldenote, lstrict, run_logged, ih]

/-- the loop of `Run` itself (not only its denotation) on such a program: any budget
    `≥ steps` gives the strict result appended to the incoming log -/
theorem runLoop_faithful_logged (p : LProg T) (log : List Event) (n : Nat)
    (h : steps (ldenote p) ≤ n) :
    runLoop n (ldenote p) log = some ((lstrict p).1, log ++ (lstrict p).2) := by
  rw [runLoop_spec _ log n h, faithful_logged]

/-! ### writer-style continuations -/

/-- `p.FlatMap(k)` where the Go function `k` logs `(k v).1` and returns the program `(k v).2` -/
def LProg.flatMapW (p : LProg T) (k : T → List Event × LProg T) : LProg T :=
  .flatMap p (fun v => .logged (k v).1 (k v).2)

/-- `lazy.TailCall(f)` where the Go function `f` logs `(f ()).1` and returns `(f ()).2` -/
def LProg.tailCallW (f : Unit → List Event × LProg T) : LProg T :=
  .tailCall (fun u => .logged (f u).1 (f u).2)

/-- `Run(p.FlatMap(k))`: effects of `p`, THEN the effects of calling `k` on `p`'s value, THEN the
    effects of running what `k` returned. -/
theorem run_flatMapW (p : LProg T) (k : T → List Event × LProg T) :
    run (ldenote (p.flatMapW k)) =
      ((lstrict (k (lstrict p).1).2).1,
       (lstrict p).2 ++ ((k (lstrict p).1).1 ++ (lstrict (k (lstrict p).1).2).2)) := by
  rw [faithful_logged]; rfl

/-- `Run(TailCall(f))`: the effects of calling `f`, then those of running what it returned;
    nothing else. -/
theorem run_tailCallW (f : Unit → List Event × LProg T) :
    run (ldenote (LProg.tailCallW f)) = ((lstrict (f ()).2).1, (f ()).1 ++ (lstrict (f ()).2).2) := by
  rw [faithful_logged]; rfl

/-- a tail-recursive loop whose every iteration logs (`go n acc = TailCall(func(){ log(acc);
    return go(n-1, g acc) })`): `n` iterations, for EVERY `n`, log `acc, g acc, g (g acc), …` in
    that order -/
def logLoop (g : T → T) (ev : T → Event) : Nat → T → LProg T
  | 0, acc => .done acc
  | n + 1, acc => LProg.tailCallW (fun _ => ([ev acc], logLoop g ev n (g acc)))

def iterLog (g : T → T) (ev : T → Event) : Nat → T → List Event
  | 0, _ => []
  | n + 1, a => ev a :: iterLog g ev n (g a)

theorem run_logLoop (g : T → T) (ev : T → Event) (n : Nat) (acc : T) :
    run (ldenote (logLoop g ev n acc)) = (iter g n acc, iterLog g ev n acc) := by
  rw [faithful_logged]
  induction n generalizing acc with
  | zero => rfl
  | succ n ih =>
    show (let (r, l) := lstrict (logLoop g ev n (g acc)); (r, [ev acc] ++ l)) = _
    rw [ih]; rfl

/-! ### the old statement is a corollary -/

/-- `C16.Prog` is the `logged`-free fragment -/
def Prog.embed : Prog T → LProg T
  | .done t => .done t
  | .call f => .call f
  | .tailCall f => .tailCall (fun u => Prog.embed (f u))
  | .map p f => .map (Prog.embed p) f
  | .flatMap p k => .flatMap (Prog.embed p) (fun v => Prog.embed (k v))
  | .map2 p q f => .map2 (Prog.embed p) (Prog.embed q) f

theorem ldenote_embed (p : Prog T) : ldenote (Prog.embed p) = denote p := by
  induction p with
  | done t => rfl
  | call f => rfl
  | tailCall f ih => simp only [Prog.embed, ldenote, denote, ih]
  | map p f ih => simp only [Prog.embed, ldenote, denote, ih]
  | flatMap p k ihp ihk => simp only [Prog.embed, ldenote, denote, ihp, ihk]
  | map2 p q f ihp ihq => simp only [Prog.embed, ldenote, denote, ihp, ihq]

theorem lstrict_embed (p : Prog T) : lstrict (Prog.embed p) = strict p := by
  induction p with
  | done t => rfl
  | call f => rfl
  | tailCall f ih => simp only [Prog.embed, lstrict, strict, ih]
  | map p f ih => simp only [Prog.embed, lstrict, strict, ih]
  | flatMap p k ihp ihk => simp only [Prog.embed, lstrict, strict, ihp, ihk]
  | map2 p q f ihp ihq => simp only [Prog.embed, lstrict, strict, ihp, ihq]

/-- `C16.faithful`, derived from `faithful_logged` -/
theorem faithful_of_logged (p : Prog T) : run (denote p) = strict p := by
  rw [← ldenote_embed, ← lstrict_embed]; exact faithful_logged _

/-! ### non-vacuity: a continuation that logs, between a logging leaf and a logging result -/

example :
    run (ldenote ((LProg.call (fun _ => ((1 : Nat), ["leaf"]))).flatMapW
      (fun v => (["k called"], .call (fun _ => (v + 1, ["inner"])))))) =
      (2, ["leaf", "k called", "inner"]) := by
  decide

example : run (ldenote (logLoop (· + 1) (fun (a : Nat) => s!"it{a}") 3 0)) = (3, ["it0", "it1", "it2"]) := by
  rw [run_logLoop]; decide

end FpVerif.Spec.C16
