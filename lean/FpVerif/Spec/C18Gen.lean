import FpVerif.Gen.TCGen
import FpVerif.Lemmas.TCGenCheck
import FpVerif.Spec.C18
import FpVerif.Lemmas.CloneTie
/-!
# C18 — the hand-written combinators of `clone/clone.go`, TRANSLATED from the source on every run, against the heap model

The translation is the PURE view of a `fp.Clone[T]` (`CloneD T = T → T`: which instance is applied to which component,
as `Spec/C14Gen` does for the generated `clone.Tuple3..21`).  The model of C18 (`Model/CloneHeap.lean`) is untyped and
threads an explicit heap: `clone : Inst → Val → Heap → Val × Heap`.  The two are related by

    `Tie c i enc`  :  for every typed value `v` and heap `h`,  `clone i (enc v) h = (enc (c v), h)`

(`enc` embeds the Go type into `Val`; the instance expression `i` cloned the encoded value to the encoding of what the
translated function `c` returns, without touching the heap).  `…_is_model` theorems: each translated combinator maps
tied arguments to a tied result at the model's instance constructor — for `Given`, `HNil`, `Option`, `HCons`, `Tuple2`;
for `Seq` / `Slice` (whose result is a FRESH backing array) the theorem exhibits the heap cell that `clone` appends and says
that it holds the encodings of the translated function's result.  `clone.Ptr`, `clone.GoMap`, `clone.Generic` are exceptions
(`Spec/TCGenCover.lean`): they stay tied by the clone harness only.
-/
namespace FpVerif.Spec.C18Gen
open FpVerif.TC FpVerif.GoSem FpVerif.Gen.TC FpVerif.CloneHeap

variable {T A1 A2 H : Type}

/-- the translated (typed, pure) clone function `c` and the instance expression `i` of the heap model agree through the
    encoding `enc` -/
def Tie (c : CloneD T) (i : Inst) (enc : T → Val) : Prop :=
  ∀ v h, clone i (enc v) h = (enc (c v), h)

def encOption (enc : T → Val) : Option T → Val
  | none => .none
  | some v => .some (enc v)

def encPair (e1 : H → Val) (e2 : T → Val) : H × T → Val := fun p => .pair (e1 p.1) (e2 p.2)
def encUnit : Unit → Val := fun _ => .unit
def encT1 (e : T → Val) : T1 T → Val := fun t => .pair (e t.i1) .unit

-- typeclass.go / clone.go: defining equations (rfl) ------------------------------------------------------------------
theorem fp_CloneFunc_Clone_is_model [GoZero T] (r : T → T) : fp_CloneFunc_Clone r = r := rfl
theorem clone_New_is_model [GoZero T] (f : T → T) : clone_New f = f := rfl
theorem clone_Given_def [GoZero T] (t : T) : clone_Given t = t := rfl
theorem clone_HNil_def (u : Unit) : clone_HNil u = () := rfl
theorem clone_Seq_def [GoZero T] (tclone : CloneD T) (s : List T) : clone_Seq tclone s = s.map tclone := rfl
theorem clone_Slice_def [GoZero T] (tclone : CloneD T) (s : List T) : clone_Slice tclone s = s.map tclone := rfl
theorem clone_Option_def [GoZero T] (tclone : CloneD T) (s : Option T) : clone_Option tclone s = s.map tclone := rfl
theorem clone_HCons_def [GoZero H] [HListT T] [GoZero T] (hclone : CloneD H) (tclone : CloneD T) (l : H × T) :
    clone_HCons hclone tclone l = (hclone l.1, tclone l.2) := rfl
theorem clone_Tuple2_def [GoZero A1] [GoZero A2] (ins1 : CloneD A1) (ins2 : CloneD A2) (t : A1 × T1 A2) :
    clone_Tuple2 ins1 ins2 t = (ins1 t.1, ⟨ins2 t.2.i1⟩) := rfl

-- against Model/CloneHeap.lean ----------------------------------------------------------------------------------------

/-- `clone.Given` is the model's `.given` (at any value type, whatever the encoding) -/
theorem clone_Given_is_model [GoZero T] (enc : T → Val) : Tie (clone_Given : CloneD T) .given enc := by
  intro v h; simp [clone, clone_Given_def]

theorem clone_HNil_is_model : Tie clone_HNil .hnil encUnit := by
  intro v h; simp [clone, encUnit]

theorem clone_Option_is_model [GoZero T] {c : CloneD T} {i : Inst} {enc : T → Val} (ht : Tie c i enc) :
    Tie (clone_Option c) (.option i) (encOption enc) := by
  intro v h
  cases v with
  | none => simp [clone, encOption, clone_Option_def]
  | some x => simp [clone, encOption, clone_Option_def, ht x h]

theorem clone_HCons_is_model [GoZero H] [HListT T] [GoZero T] {ch : CloneD H} {ct : CloneD T} {ih it : Inst}
    {eh : H → Val} {et : T → Val} (hh : Tie ch ih eh) (ht : Tie ct it et) :
    Tie (clone_HCons ch ct) (.pair ih it) (encPair eh et) := by
  intro v h
  simp [clone, encPair, clone_HCons_def, hh v.1 h, ht v.2 h]

/-- `clone.Tuple2(i₁, i₂)` is `pair i₁ (pair i₂ hnil)` (the model's reading of `TupleN`) -/
theorem clone_Tuple2_is_model [GoZero A1] [GoZero A2] {c1 : CloneD A1} {c2 : CloneD A2} {i1 i2 : Inst}
    {e1 : A1 → Val} {e2 : A2 → Val} (h1 : Tie c1 i1 e1) (h2 : Tie c2 i2 e2) :
    Tie (clone_Tuple2 c1 c2) (.pair i1 (.pair i2 .hnil)) (encPair e1 (encT1 e2)) := by
  intro v h
  simp [clone, encPair, encT1, clone_Tuple2_def, h1 v.1 h, h2 v.2.i1 h]

/-- `seq.Map(s, tclone.Clone)` over tied elements: the model's `cloneList` yields the encodings of `s.map c` -/
theorem cloneList_tie {c : CloneD T} {i : Inst} {enc : T → Val} (ht : Tie c i enc) (vs : List T) (h : Heap) :
    cloneList (clone i) (vs.map enc) h = ((vs.map c).map enc, h) := by
  induction vs with
  | nil => rfl
  | cons x xs ih => simp [cloneList, ht x h, ih]

/-- `clone.Seq` : the model appends ONE fresh cell — the backing array of the result — holding the encodings of what the
    translated function returns, and the result is the slice over that cell -/
theorem clone_Seq_is_model [GoZero T] {c : CloneD T} {i : Inst} {enc : T → Val} (ht : Tie c i enc)
    (vs : List T) (a : Nat) (h : Heap) (ha : h[a]? = some (.arr (vs.map enc))) :
    clone (.seq i) (.slice a vs.length) h = (.slice h.length vs.length, h ++ [.arr ((clone_Seq c vs).map enc)]) := by
  have hl : (vs.map enc).take vs.length = vs.map enc := by
    rw [List.take_of_length_le]; simp
  simp [clone, ha, hl, cloneList_tie ht, clone_Seq_def]

theorem clone_Slice_is_model [GoZero T] {c : CloneD T} {i : Inst} {enc : T → Val} (ht : Tie c i enc)
    (vs : List T) (a : Nat) (h : Heap) (ha : h[a]? = some (.arr (vs.map enc))) :
    clone (.slice i) (.slice a vs.length) h = (.slice h.length vs.length, h ++ [.arr ((clone_Slice c vs).map enc)]) := by
  have hl : (vs.map enc).take vs.length = vs.map enc := by
    rw [List.take_of_length_le]; simp
  simp [clone, ha, hl, cloneList_tie ht, clone_Slice_def]

-- what the ties buy ---------------------------------------------------------------------------------------------------

/-- a tied instance is one the theorems of Spec/C18 apply to; e.g. the clone of a well-formed value is deeply equal -/
theorem tied_clone_deep_equal {c : CloneD T} {i : Inst} {enc : T → Val} (ht : Tie c i enc) (hd : i.asDemanded)
    (v : T) (h : Heap) (hw : WT i.ty h (enc v)) : view i.ty h (enc (c v)) = view i.ty h (enc v) := by
  have := FpVerif.Spec.C18.clone_deep_equal (i := i) (hd := hd) (v := enc v) (h := h) (hw := hw)
  rw [ht v h] at this
  exact this

/-- the hypotheses are satisfiable: `clone.Option(clone.HCons(clone.Given, clone.HNil))` at `Option (Int × Unit)` -/
example : Tie (clone_Option (clone_HCons (clone_Given : CloneD Int) clone_HNil)) (.option (.pair .given .hnil))
    (encOption (encPair Val.int encUnit)) :=
  clone_Option_is_model (clone_HCons_is_model (clone_Given_is_model _) clone_HNil_is_model)


-- =====================================================================================================================
-- HEAP-RELATIVE TIE (audit finding 6)
-- =====================================================================================================================
/-!
`Tie` above asks for an UNCHANGED heap and a heap-independent encoding; `not_tie_seq` / `not_tie_slice` below show that NO
encoding whatsoever makes `clone.Seq` / `clone.Slice` tied in that sense, so the `…_is_model` theorems above reach one
reference level only.  `Lemmas/CloneTie.lean` has the heap-relative notion

    `HTie c i R`  :  `R h v x → ∃ ext, (clone i x h).2 = h ++ ext ∧ R (h ++ ext) (c v) (clone i x h).1`

over a representation RELATION `R : Heap → T → Val → Prop` (`Rep.Mono`: stable under allocation; `Rep.Views R ty tr`:
related values are well-formed and `view` as the tree `tr v`).  The `…_is_model_heap` theorems re-state every tie for it —
WITHOUT the side condition on the heap cell that `clone_Seq_is_model` needed and WITH allocating arguments allowed — and
`cinst_tie` composes them by induction over a typed instance expression `CInst T` to any nesting depth
(`Option[Seq[Seq[T]]]`, `Seq[Tuple2[Slice[T], Option[T]]]`, …).  `Tie.toHTie`: the old notion is the special case
`ext = []`, `R = repEnc enc`.
-/

/-- remark: NO encoding ties `clone.Seq` in the old sense (the result's backing array is always allocated) -/
theorem not_tie_seq [GoZero T] (c : CloneD T) (i : Inst) (enc : List T → Val) : ¬ Tie (clone_Seq c) (.seq i) enc := by
  intro ht
  cases hx : enc [] with
  | slice a len =>
    have := ht [] (List.replicate (a + 1) (.arr []))
    rw [hx] at this
    have hc : (List.replicate (a + 1) (Cell.arr []))[a]? = some (.arr []) := by simp
    simp [clone, cloneList] at this
  | _ => have := ht [] []; rw [hx] at this; simp [clone] at this

theorem not_tie_slice [GoZero T] (c : CloneD T) (i : Inst) (enc : List T → Val) : ¬ Tie (clone_Slice c) (.slice i) enc := by
  intro ht
  cases hx : enc [] with
  | slice a len =>
    have := ht [] (List.replicate (a + 1) (.arr []))
    rw [hx] at this
    have hc : (List.replicate (a + 1) (Cell.arr []))[a]? = some (.arr []) := by simp
    simp [clone, cloneList] at this
  | _ => have := ht [] []; rw [hx] at this; simp [clone] at this

/-- the old notion is the special case `ext = []` at the heap-independent representation `repEnc enc` -/
theorem Tie.toHTie {c : CloneD T} {i : Inst} {enc : T → Val} (ht : Tie c i enc) : HTie c i (repEnc enc) :=
  htie_of_enc ht

/-- the old encodings are the heap-independent instances of the representation combinators -/
theorem repOption_enc (enc : T → Val) (h : Heap) (v : Option T) (x : Val) :
    repOption (repEnc enc) h v x ↔ repEnc (encOption enc) h v x := by
  cases v <;> simp [repOption, repEnc, encOption]

theorem repPair_enc (e1 : H → Val) (e2 : T → Val) (h : Heap) (v : H × T) (x : Val) :
    repPair (repEnc e1) (repEnc e2) h v x ↔ repEnc (encPair e1 e2) h v x := by
  simp only [repPair, repEnc, encPair]
  constructor
  · rintro ⟨a, b, rfl, rfl, rfl⟩; rfl
  · intro hx; exact ⟨_, _, hx, rfl, rfl⟩

/-- `Tuple1` tail of a `TupleN`: `pair x hnil` -/
def repT1 (R : Rep T) : Rep (T1 T) := fun h t x => ∃ a, x = .pair a .unit ∧ R h t.i1 a
def trT1 (tr : T → Tree) : T1 T → Tree := fun t => .pair (tr t.i1) .unit

theorem repT1_mono {R : Rep T} (hm : R.Mono) : (repT1 R).Mono := by
  intro h v x ext hr
  obtain ⟨a, hx, ha⟩ := hr
  exact ⟨a, hx, hm _ _ _ ext ha⟩

theorem repT1_views {R : Rep T} {ty : Ty} {tr : T → Tree} (hv : R.Views ty tr) :
    (repT1 R).Views (.pair ty .unit) (trT1 tr) := by
  intro h v x hr
  obtain ⟨a, rfl, ha⟩ := hr
  have := hv _ _ _ ha
  simp [WT, view, trT1, this.1, this.2]

theorem clone_Given_is_model_heap [GoZero T] (R : Rep T) : HTie (clone_Given : CloneD T) .given R := htie_given R

theorem clone_HNil_is_model_heap : HTie clone_HNil .hnil repUnit := htie_hnil

/-- `clone.Option` over ANY tied argument — allocating ones included (`Option[Seq[T]]`, `Option[Slice[Option[Seq[T]]]]`) -/
theorem clone_Option_is_model_heap [GoZero T] {c : CloneD T} {i : Inst} {R : Rep T} (ht : HTie c i R) :
    HTie (clone_Option c) (.option i) (repOption R) := htie_option ht

/-- `clone.Seq` over any tied argument: the heap grows by the cells the element clones allocate and then by the result's
    backing array; in the grown heap the result is a slice whose cells represent `s.map c` -/
theorem clone_Seq_is_model_heap [GoZero T] {c : CloneD T} {i : Inst} {R : Rep T} (ht : HTie c i R) (hm : R.Mono) :
    HTie (clone_Seq c) (.seq i) (repList R) := htie_seq ht hm

theorem clone_Slice_is_model_heap [GoZero T] {c : CloneD T} {i : Inst} {R : Rep T} (ht : HTie c i R) (hm : R.Mono) :
    HTie (clone_Slice c) (.slice i) (repList R) := htie_slice ht hm

theorem clone_HCons_is_model_heap [GoZero H] [HListT T] [GoZero T] {ch : CloneD H} {ct : CloneD T} {ih it : Inst}
    {Rh : Rep H} {Rt : Rep T} (hh : HTie ch ih Rh) (ht : HTie ct it Rt) (mh : Rh.Mono) (mt : Rt.Mono) :
    HTie (clone_HCons ch ct) (.pair ih it) (repPair Rh Rt) := htie_pair hh ht mh mt

theorem htie_t1 {c : T → T} {i : Inst} {R : Rep T} (ht : HTie c i R) :
    HTie (fun t : T1 T => (⟨c t.i1⟩ : T1 T)) (.pair i .hnil) (repT1 R) := by
  intro v x h hr
  obtain ⟨a, rfl, ha⟩ := hr
  obtain ⟨ext, he, hr'⟩ := ht v.i1 a h ha
  exact ⟨ext, by simpa [clone] using he, ⟨(clone i a h).1, by simp [clone], hr'⟩⟩

/-- `clone.Tuple2(i₁, i₂)` is `pair i₁ (pair i₂ hnil)`, over any tied arguments -/
theorem clone_Tuple2_is_model_heap [GoZero A1] [GoZero A2] {c1 : CloneD A1} {c2 : CloneD A2} {i1 i2 : Inst}
    {R1 : Rep A1} {R2 : Rep A2} (h1 : HTie c1 i1 R1) (h2 : HTie c2 i2 R2) (m1 : R1.Mono) (m2 : R2.Mono) :
    HTie (clone_Tuple2 c1 c2) (.pair i1 (.pair i2 .hnil)) (repPair R1 (repT1 R2)) :=
  htie_pair h1 (htie_t1 h2) m1 (repT1_mono m2)

/-- what a heap-relative tie buys: in the grown heap the model's result VIEWS as the tree of what the translated function
    returns, and (C18) as the original — so the translated function's result reads like its argument -/
theorem htied_clone_deep_equal {c : CloneD T} {i : Inst} {R : Rep T} {tr : T → Tree} (ht : HTie c i R)
    (hv : R.Views i.ty tr) (hd : i.asDemanded) {v : T} {x : Val} {h : Heap} (hr : R h v x) :
    (∃ ext, (clone i x h).2 = h ++ ext) ∧
      view i.ty (clone i x h).2 (clone i x h).1 = tr (c v) ∧ tr (c v) = tr v := by
  obtain ⟨ext, he, _, hview⟩ := ht.view_eq hv hr
  have hw := (hv _ _ _ hr).1
  have hde := FpVerif.Spec.C18.clone_deep_equal (i := i) (hd := hd) (v := x) (h := h) (hw := hw)
  exact ⟨⟨ext, he⟩, hview, by rw [← hview, hde, (hv _ _ _ hr).2]⟩

-- induction over the instance expression -------------------------------------------------------------------------------

/-- typed instance expressions over the translated combinators (the non-exception part of `clone/clone.go`) -/
inductive CInst : Type → Type 1 where
  | given : CInst Int
  | hnil : CInst Unit
  | option {T : Type} [GoZero T] (e : CInst T) : CInst (Option T)
  | seq {T : Type} [GoZero T] (e : CInst T) : CInst (List T)
  | slice {T : Type} [GoZero T] (e : CInst T) : CInst (List T)
  | hcons {H T : Type} [GoZero H] [HListT T] [GoZero T] (eh : CInst H) (et : CInst T) : CInst (H × T)
  | tuple2 {A1 A2 : Type} [GoZero A1] [GoZero A2] (e1 : CInst A1) (e2 : CInst A2) : CInst (A1 × T1 A2)

/-- the TRANSLATED function the expression denotes -/
def CInst.fn : {T : Type} → CInst T → CloneD T
  | _, .given => (clone_Given : CloneD Int)
  | _, .hnil => clone_HNil
  | _, @CInst.option _ _ e => clone_Option e.fn
  | _, @CInst.seq _ _ e => clone_Seq e.fn
  | _, @CInst.slice _ _ e => clone_Slice e.fn
  | _, @CInst.hcons _ _ _ _ _ eh et => clone_HCons eh.fn et.fn
  | _, @CInst.tuple2 _ _ _ _ e1 e2 => clone_Tuple2 e1.fn e2.fn

/-- the heap model's instance expression -/
def CInst.inst : {T : Type} → CInst T → Inst
  | _, .given => .given
  | _, .hnil => .hnil
  | _, @CInst.option _ _ e => .option e.inst
  | _, @CInst.seq _ _ e => .seq e.inst
  | _, @CInst.slice _ _ e => .slice e.inst
  | _, @CInst.hcons _ _ _ _ _ eh et => .pair eh.inst et.inst
  | _, @CInst.tuple2 _ _ _ _ e1 e2 => .pair e1.inst (.pair e2.inst .hnil)

/-- how a typed value is laid out in the heap -/
def CInst.rep : {T : Type} → CInst T → Rep T
  | _, .given => repInt
  | _, .hnil => repUnit
  | _, @CInst.option _ _ e => repOption e.rep
  | _, @CInst.seq _ _ e => repList e.rep
  | _, @CInst.slice _ _ e => repList e.rep
  | _, @CInst.hcons _ _ _ _ _ eh et => repPair eh.rep et.rep
  | _, @CInst.tuple2 _ _ _ _ e1 e2 => repPair e1.rep (repT1 e2.rep)

/-- what a typed value reads like -/
def CInst.tr : {T : Type} → CInst T → T → Tree
  | _, .given => Tree.int
  | _, .hnil => fun _ => Tree.unit
  | _, @CInst.option _ _ e => trOption e.tr
  | _, @CInst.seq _ _ e => trList e.tr
  | _, @CInst.slice _ _ e => trList e.tr
  | _, @CInst.hcons _ _ _ _ _ eh et => trPair eh.tr et.tr
  | _, @CInst.tuple2 _ _ _ _ e1 e2 => trPair e1.tr (trT1 e2.tr)

theorem cinst_mono : ∀ {T : Type} (e : CInst T), e.rep.Mono
  | _, .given => repInt_mono
  | _, .hnil => repUnit_mono
  | _, @CInst.option _ _ e => repOption_mono (cinst_mono e)
  | _, @CInst.seq _ _ e => repList_mono (cinst_mono e)
  | _, @CInst.slice _ _ e => repList_mono (cinst_mono e)
  | _, @CInst.hcons _ _ _ _ _ eh et => repPair_mono (cinst_mono eh) (cinst_mono et)
  | _, @CInst.tuple2 _ _ _ _ e1 e2 => repPair_mono (cinst_mono e1) (repT1_mono (cinst_mono e2))

theorem cinst_views : ∀ {T : Type} (e : CInst T), e.rep.Views e.inst.ty e.tr
  | _, .given => repInt_views
  | _, .hnil => repUnit_views
  | _, @CInst.option _ _ e => repOption_views (cinst_views e)
  | _, @CInst.seq _ _ e => repList_views (cinst_views e)
  | _, @CInst.slice _ _ e => repList_views (cinst_views e)
  | _, @CInst.hcons _ _ _ _ _ eh et => repPair_views (cinst_views eh) (cinst_views et)
  | _, @CInst.tuple2 _ _ _ _ e1 e2 => repPair_views (cinst_views e1) (repT1_views (cinst_views e2))

theorem cinst_demanded : ∀ {T : Type} (e : CInst T), e.inst.asDemanded
  | _, .given => trivial
  | _, .hnil => trivial
  | _, @CInst.option _ _ e => cinst_demanded e
  | _, @CInst.seq _ _ e => cinst_demanded e
  | _, @CInst.slice _ _ e => cinst_demanded e
  | _, @CInst.hcons _ _ _ _ _ eh et => ⟨cinst_demanded eh, cinst_demanded et⟩
  | _, @CInst.tuple2 _ _ _ _ e1 e2 => ⟨cinst_demanded e1, cinst_demanded e2, trivial⟩

/-- TIE A FOR `clone`, AT ANY NESTING DEPTH: the function translated from `clone/clone.go` that the expression denotes and
    the heap model's `clone` at the corresponding `Inst` are heap-relatively tied -/
theorem cinst_tie : ∀ {T : Type} (e : CInst T), HTie e.fn e.inst e.rep
  | _, .given => clone_Given_is_model_heap _
  | _, .hnil => clone_HNil_is_model_heap
  | _, @CInst.option _ _ e => clone_Option_is_model_heap (cinst_tie e)
  | _, @CInst.seq _ _ e => clone_Seq_is_model_heap (cinst_tie e) (cinst_mono e)
  | _, @CInst.slice _ _ e => clone_Slice_is_model_heap (cinst_tie e) (cinst_mono e)
  | _, @CInst.hcons _ _ _ _ _ eh et => clone_HCons_is_model_heap (cinst_tie eh) (cinst_tie et) (cinst_mono eh) (cinst_mono et)
  | _, @CInst.tuple2 _ _ _ _ e1 e2 => clone_Tuple2_is_model_heap (cinst_tie e1) (cinst_tie e2) (cinst_mono e1) (cinst_mono e2)

/-- spelled out with `view`: for every instance expression `e`, every heap `h` and every model value `x` that represents
    the typed value `v` in `h`: the heap only grows, the model's result is well-formed in the new heap and reads there as
    the tree of `e.fn v` (the translation's result), which is the tree of `v` -/
theorem cinst_clone_view {T : Type} (e : CInst T) {h : Heap} {v : T} {x : Val} (hr : e.rep h v x) :
    ∃ ext, (clone e.inst x h).2 = h ++ ext ∧ e.rep (h ++ ext) (e.fn v) (clone e.inst x h).1 ∧
      WT e.inst.ty (h ++ ext) (clone e.inst x h).1 ∧
      view e.inst.ty (h ++ ext) (clone e.inst x h).1 = e.tr (e.fn v) ∧ e.tr (e.fn v) = e.tr v := by
  obtain ⟨ext, he, hr'⟩ := cinst_tie e v x h hr
  have h1 := cinst_views e _ _ _ hr'
  have h2 := htied_clone_deep_equal (cinst_tie e) (cinst_views e) (cinst_demanded e) hr
  exact ⟨ext, he, hr', h1.1, h1.2, h2.2.2⟩

/-- the translated clone functions compose to the IDENTITY on typed values, at any nesting depth (a translated combinator that
    dropped, duplicated or reordered a component would fail here) -/
theorem cinst_fn_id : ∀ {T : Type} (e : CInst T) (v : T), e.fn v = v
  | _, .given, _ => rfl
  | _, .hnil, _ => rfl
  | _, @CInst.option _ _ e, v => by
    have : e.fn = id := funext (cinst_fn_id e)
    show Option.map e.fn v = v
    rw [this]; simp
  | _, @CInst.seq _ _ e, v => by
    have : e.fn = id := funext (cinst_fn_id e)
    show List.map e.fn v = v
    rw [this]; simp
  | _, @CInst.slice _ _ e, v => by
    have : e.fn = id := funext (cinst_fn_id e)
    show List.map e.fn v = v
    rw [this]; simp
  | _, @CInst.hcons _ _ _ _ _ eh et, v => by
    show (eh.fn v.1, et.fn v.2) = v
    rw [cinst_fn_id eh, cinst_fn_id et]
  | _, @CInst.tuple2 _ _ _ _ e1 e2, v => by
    show (e1.fn v.1, (⟨e2.fn v.2.i1⟩ : T1 _)) = v
    rw [cinst_fn_id e1, cinst_fn_id e2]

/-- non-vacuous below TWO reference levels: `clone.Option(clone.Seq(clone.Seq(clone.Given)))` on
    `Some([[1, 2], nil])` laid out over two backing arrays -/
example : (CInst.option (.seq (.seq .given))).rep
    [.arr [.int 1, .int 2], .arr [.slice 0 2, .nilslice]] (some [[1, 2], []]) (.some (.slice 1 2)) :=
  ⟨_, rfl, .inr ⟨1, 2, _, rfl, rfl, by decide,
    .cons (.inr ⟨0, 2, _, rfl, rfl, by decide, .cons rfl (.cons rfl .nil)⟩) (.cons (.inl ⟨rfl, rfl⟩) .nil)⟩⟩

example : HTie (clone_Option (clone_Seq (clone_Seq (clone_Given : CloneD Int)))) (.option (.seq (.seq .given)))
    (repOption (repList (repList repInt))) :=
  cinst_tie (.option (.seq (.seq .given)))

end FpVerif.Spec.C18Gen

-- every translated declaration of these files has its tie theorem above (fails the build otherwise)
#tc_ties FpVerif.Spec.C18Gen "clone." "fp.CloneFunc."
