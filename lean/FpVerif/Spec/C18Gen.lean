import FpVerif.Gen.TCGen
import FpVerif.Lemmas.TCGenCheck
import FpVerif.Spec.C18
/-!
# C18 — the hand-written combinators of `clone/clone.go`, TRANSLATED from the source on every run, against the heap model

The translation is the PURE view of a `fp.Clone[T]` (`CloneD T = T → T`: which instance is applied to which component,
as `Spec/C14Gen` does for the generated `clone.Tuple3..21`).  The model of C18 (`Model/CloneHeap.lean`) is untyped and
threads an explicit heap: `clone : Inst → Val → Heap → Val × Heap`.  The two are related by

    `Tie c i enc`  :  for every typed value `v` and heap `h`,  `clone i (enc v) h = (enc (c v), h)`

(`enc` embeds the Go type into `Val`; the instance expression `i` cloned the encoded value to the encoding of what the
translated function `c` returns, without touching the heap).  `…_is_model` theorems: each translated combinator maps
tied arguments to a tied result at the model's instance constructor — for `Given`, `HNil`, `Option`, `HCons`, `Tuple2`;
for `Seq` / `Slice` (whose result is a FRESH backing array) the theorem exhibits the heap cell that `clone` appends and says
that it holds the encodings of the translated function's result.  `clone.Ptr`, `clone.GoMap`, `clone.Generic` are exceptions
(`Spec/TCGenCover.lean`): they stay tied by the clone harness only.
-/
namespace FpVerif.Spec.C18Gen
open FpVerif.TC FpVerif.GoSem FpVerif.Gen.TC FpVerif.CloneHeap

variable {T A1 A2 H : Type}

/-- the translated (typed, pure) clone function `c` and the instance expression `i` of the heap model agree through the
    encoding `enc` -/
def Tie (c : CloneD T) (i : Inst) (enc : T → Val) : Prop :=
  ∀ v h, clone i (enc v) h = (enc (c v), h)

def encOption (enc : T → Val) : Option T → Val
  | none => .none
  | some v => .some (enc v)

def encPair (e1 : H → Val) (e2 : T → Val) : H × T → Val := fun p => .pair (e1 p.1) (e2 p.2)
def encUnit : Unit → Val := fun _ => .unit
def encT1 (e : T → Val) : T1 T → Val := fun t => .pair (e t.i1) .unit

-- typeclass.go / clone.go: defining equations (rfl) ------------------------------------------------------------------
theorem fp_CloneFunc_Clone_is_model [GoZero T] (r : T → T) : fp_CloneFunc_Clone r = r := rfl
theorem clone_New_is_model [GoZero T] (f : T → T) : clone_New f = f := rfl
theorem clone_Given_def [GoZero T] (t : T) : clone_Given t = t := rfl
theorem clone_HNil_def (u : Unit) : clone_HNil u = () := rfl
theorem clone_Seq_def [GoZero T] (tclone : CloneD T) (s : List T) : clone_Seq tclone s = s.map tclone := rfl
theorem clone_Slice_def [GoZero T] (tclone : CloneD T) (s : List T) : clone_Slice tclone s = s.map tclone := rfl
theorem clone_Option_def [GoZero T] (tclone : CloneD T) (s : Option T) : clone_Option tclone s = s.map tclone := rfl
theorem clone_HCons_def [GoZero H] [HListT T] [GoZero T] (hclone : CloneD H) (tclone : CloneD T) (l : H × T) :
    clone_HCons hclone tclone l = (hclone l.1, tclone l.2) := rfl
theorem clone_Tuple2_def [GoZero A1] [GoZero A2] (ins1 : CloneD A1) (ins2 : CloneD A2) (t : A1 × T1 A2) :
    clone_Tuple2 ins1 ins2 t = (ins1 t.1, ⟨ins2 t.2.i1⟩) := rfl

-- against Model/CloneHeap.lean ----------------------------------------------------------------------------------------

/-- `clone.Given` is the model's `.given` (at any value type, whatever the encoding) -/
theorem clone_Given_is_model [GoZero T] (enc : T → Val) : Tie (clone_Given : CloneD T) .given enc := by
  intro v h; simp [clone, clone_Given_def]

theorem clone_HNil_is_model : Tie clone_HNil .hnil encUnit := by
  intro v h; simp [clone, encUnit]

theorem clone_Option_is_model [GoZero T] {c : CloneD T} {i : Inst} {enc : T → Val} (ht : Tie c i enc) :
    Tie (clone_Option c) (.option i) (encOption enc) := by
  intro v h
  cases v with
  | none => simp [clone, encOption, clone_Option_def]
  | some x => simp [clone, encOption, clone_Option_def, ht x h]

theorem clone_HCons_is_model [GoZero H] [HListT T] [GoZero T] {ch : CloneD H} {ct : CloneD T} {ih it : Inst}
    {eh : H → Val} {et : T → Val} (hh : Tie ch ih eh) (ht : Tie ct it et) :
    Tie (clone_HCons ch ct) (.pair ih it) (encPair eh et) := by
  intro v h
  simp [clone, encPair, clone_HCons_def, hh v.1 h, ht v.2 h]

/-- `clone.Tuple2(i₁, i₂)` is `pair i₁ (pair i₂ hnil)` (the model's reading of `TupleN`) -/
theorem clone_Tuple2_is_model [GoZero A1] [GoZero A2] {c1 : CloneD A1} {c2 : CloneD A2} {i1 i2 : Inst}
    {e1 : A1 → Val} {e2 : A2 → Val} (h1 : Tie c1 i1 e1) (h2 : Tie c2 i2 e2) :
    Tie (clone_Tuple2 c1 c2) (.pair i1 (.pair i2 .hnil)) (encPair e1 (encT1 e2)) := by
  intro v h
  simp [clone, encPair, encT1, clone_Tuple2_def, h1 v.1 h, h2 v.2.i1 h]

/-- `seq.Map(s, tclone.Clone)` over tied elements: the model's `cloneList` yields the encodings of `s.map c` -/
theorem cloneList_tie {c : CloneD T} {i : Inst} {enc : T → Val} (ht : Tie c i enc) (vs : List T) (h : Heap) :
    cloneList (clone i) (vs.map enc) h = ((vs.map c).map enc, h) := by
  induction vs with
  | nil => rfl
  | cons x xs ih => simp [cloneList, ht x h, ih]

/-- `clone.Seq` : the model appends ONE fresh cell — the backing array of the result — holding the encodings of what the
    translated function returns, and the result is the slice over that cell -/
theorem clone_Seq_is_model [GoZero T] {c : CloneD T} {i : Inst} {enc : T → Val} (ht : Tie c i enc)
    (vs : List T) (a : Nat) (h : Heap) (ha : h[a]? = some (.arr (vs.map enc))) :
    clone (.seq i) (.slice a vs.length) h = (.slice h.length vs.length, h ++ [.arr ((clone_Seq c vs).map enc)]) := by
  have hl : (vs.map enc).take vs.length = vs.map enc := by
    rw [List.take_of_length_le]; simp
  simp [clone, ha, hl, cloneList_tie ht, clone_Seq_def]

theorem clone_Slice_is_model [GoZero T] {c : CloneD T} {i : Inst} {enc : T → Val} (ht : Tie c i enc)
    (vs : List T) (a : Nat) (h : Heap) (ha : h[a]? = some (.arr (vs.map enc))) :
    clone (.slice i) (.slice a vs.length) h = (.slice h.length vs.length, h ++ [.arr ((clone_Slice c vs).map enc)]) := by
  have hl : (vs.map enc).take vs.length = vs.map enc := by
    rw [List.take_of_length_le]; simp
  simp [clone, ha, hl, cloneList_tie ht, clone_Slice_def]

-- what the ties buy ---------------------------------------------------------------------------------------------------

/-- a tied instance is one the theorems of Spec/C18 apply to; e.g. the clone of a well-formed value is deeply equal -/
theorem tied_clone_deep_equal {c : CloneD T} {i : Inst} {enc : T → Val} (ht : Tie c i enc) (hd : i.asDemanded)
    (v : T) (h : Heap) (hw : WT i.ty h (enc v)) : view i.ty h (enc (c v)) = view i.ty h (enc v) := by
  have := FpVerif.Spec.C18.clone_deep_equal (i := i) (hd := hd) (v := enc v) (h := h) (hw := hw)
  rw [ht v h] at this
  exact this

/-- the hypotheses are satisfiable: `clone.Option(clone.HCons(clone.Given, clone.HNil))` at `Option (Int × Unit)` -/
example : Tie (clone_Option (clone_HCons (clone_Given : CloneD Int) clone_HNil)) (.option (.pair .given .hnil))
    (encOption (encPair Val.int encUnit)) :=
  clone_Option_is_model (clone_HCons_is_model (clone_Given_is_model _) clone_HNil_is_model)

end FpVerif.Spec.C18Gen

-- every translated declaration of these files has its tie theorem above (fails the build otherwise)
#tc_ties FpVerif.Spec.C18Gen "clone." "fp.CloneFunc."
