import FpVerif.Gen.TCGen
import FpVerif.Lemmas.TCGenCheck
import FpVerif.Spec.C09Gen
/-!
# C09 — the predicate helpers of `eq/eq_op.go` (`GivenValue`, `NotNilAnd`, `SomeAnd`, `FieldNilOr`, …), TRANSLATED from the
# source on every run

They are `fp.Predicate`s built from `eq.Given` / `eq.PtrGiven` and nil / `None` / zero-value tests, not type-class
instances: `Model/TypeClasses.lean` has no definition for them, so each translated function is characterised directly
(`…_def`).  `NotZero…` / `ZeroOr` are the one place where `GoZero.zero` is the Go zero value itself and not the value of a
panicking read.  Nothing imports this module: a change to a helper touches only these theorems.
-/
namespace FpVerif.Spec.C09GenPred
open FpVerif.TC FpVerif.GoSem FpVerif.Gen.TC FpVerif.Spec.C09Gen

variable {T A : Type}

theorem eq_GivenValue_def [DecidableEq T] [GoZero T] (a b : T) : eq_GivenValue a b = decide (a = b) := rfl
theorem eq_GivenPtr_def [DecidableEq T] [GoZero T] (a b : Ptr T) : eq_GivenPtr a b = (EqD.ptrGiven : EqD (Ptr T)).eqv a b := by
  unfold eq_GivenPtr; rw [eq_PtrGiven_is_model]
theorem eq_GivenFieldValue_def {S : Type} [GoZero S] [DecidableEq T] [GoZero T] (getter : S → T) (a : T) (s : S) :
    eq_GivenFieldValue getter a s = decide (getter s = a) := rfl
theorem eq_GivenFieldPtr_def {S : Type} [GoZero S] [DecidableEq T] [GoZero T] (getter : S → Ptr T) (a : Ptr T) (s : S) :
    eq_GivenFieldPtr getter a s = (EqD.ptrGiven : EqD (Ptr T)).eqv (getter s) a := by
  unfold eq_GivenFieldPtr; rw [eq_PtrGiven_is_model]
theorem eq_NotNilAnd_def [GoZero A] (pf : A → Bool) (a : Ptr A) :
    eq_NotNilAnd pf a = match a with | none => false | some r => pf r.val := by cases a <;> rfl
theorem eq_NilOr_def [GoZero A] (pf : A → Bool) (a : Ptr A) :
    eq_NilOr pf a = match a with | none => true | some r => pf r.val := by cases a <;> rfl
theorem eq_NotZero_def [DecidableEq A] [GoZero A] (v : A) : eq_NotZero v = decide (v ≠ GoZero.zero) := rfl
theorem eq_NotZeroAnd_def [DecidableEq A] [GoZero A] (pf : A → Bool) (a : A) :
    eq_NotZeroAnd pf a = (decide (a ≠ GoZero.zero) && pf a) := by
  unfold eq_NotZeroAnd; by_cases h : a = GoZero.zero <;> simp [h]
theorem eq_ZeroOr_def [DecidableEq A] [GoZero A] (pf : A → Bool) (a : A) :
    eq_ZeroOr pf a = (decide (a = GoZero.zero) || pf a) := by
  unfold eq_ZeroOr; by_cases h : a = GoZero.zero <;> simp [h]
theorem eq_SomeAnd_def [GoZero A] (pf : A → Bool) (a : Option A) :
    eq_SomeAnd pf a = match a with | none => false | some v => pf v := by cases a <;> rfl
theorem eq_NoneOr_def [GoZero A] (pf : A → Bool) (a : Option A) :
    eq_NoneOr pf a = match a with | none => true | some v => pf v := by cases a <;> rfl
theorem eq_FieldNotNilAnd_def {B : Type} [GoZero A] [GoZero B] (getter : A → Ptr B) (pf : B → Bool) (a : A) :
    eq_FieldNotNilAnd getter pf a = eq_NotNilAnd pf (getter a) := rfl
theorem eq_FieldNilOr_def {B : Type} [GoZero A] [GoZero B] (getter : A → Ptr B) (pf : B → Bool) (a : A) :
    eq_FieldNilOr getter pf a = eq_NilOr pf (getter a) := rfl
theorem eq_FieldSomeAnd_def {B : Type} [GoZero A] [GoZero B] (getter : A → Option B) (pf : B → Bool) (a : A) :
    eq_FieldSomeAnd getter pf a = eq_SomeAnd pf (getter a) := rfl
theorem eq_FieldNoneOr_def {B : Type} [GoZero A] [GoZero B] (getter : A → Option B) (pf : B → Bool) (a : A) :
    eq_FieldNoneOr getter pf a = eq_NoneOr pf (getter a) := rfl

end FpVerif.Spec.C09GenPred

-- every translated helper has its theorem above (fails the build otherwise)
#tc_ties FpVerif.Spec.C09GenPred "eq.GivenValue" "eq.GivenPtr" "eq.GivenFieldValue" "eq.GivenFieldPtr" "eq.NotNilAnd" "eq.NilOr" "eq.NotZero" "eq.NotZeroAnd" "eq.ZeroOr" "eq.SomeAnd" "eq.NoneOr" "eq.FieldNotNilAnd" "eq.FieldNilOr" "eq.FieldSomeAnd" "eq.FieldNoneOr"
